// C02 correspondence harness (injected into package pkg/trie/inmemory by `go test -overlay`).
//
// input:   seq <ver:0|1> <op> <op> ...          (one fresh trie per case; ops applied in order)
//   op :=  P:<key>:<value|nil>   Put           -> <entries>
//          D:<key>               Delete        -> <entries>
//          C:<prefix>            ClearPrefix   -> <entries>
//          L:<prefix>:<limit>    ClearPrefixLimit -> <deleted>/<0|1 allDeleted>/<entries>
//          G:<key>               Get           -> <value> | none
//          N:<key>               NextKey       -> <key> | none
//          K:<prefix>            GetKeysWithPrefix -> <key>,<key>,... | ()     (order as returned)
//          E                     Entries       -> <entries>
//   keys/values/prefixes are hex, "-" = empty; limit is hex.
//   <entries> := <key>=<value>,...  sorted by key | ()
// observed: one token per op, separated by spaces; an op that panics yields "panic" and ends the case;
//           an op returning an error yields "err".  After the last op (when no op panicked) one more token
//           T:ok | T:bad:<n> : whether every node's Descendants counter equals the number of nodes below it
//           (clearPrefixAtNode reads `nodesRemoved == 0`, computed from these counters, as "nothing changed";
//           the model replaces that test by a changed-flag, which is only faithful while the counters are exact).
package inmemory

import (
	"bytes"
	"fmt"
	"sort"
	"strings"
	"testing"

	vu "github.com/ChainSafe/gossamer/internal/verifutil"
	"github.com/ChainSafe/gossamer/pkg/trie"
	"github.com/ChainSafe/gossamer/pkg/trie/node"
)

// c02Desc returns the number of nodes of the subtree and how many Descendants counters are wrong in it
func c02Desc(n *node.Node) (cnt uint32, bad int) {
	if n == nil {
		return 0, 0
	}
	if n.Kind() == node.Leaf {
		if n.Descendants != 0 {
			bad++
		}
		return 1, bad
	}
	var d uint32
	for _, c := range n.Children {
		cc, b := c02Desc(c)
		d += cc
		bad += b
	}
	if n.Descendants != d {
		bad++
	}
	return d + 1, bad
}

func c02Entries(tr *InMemoryTrie) string {
	m := tr.Entries()
	if len(m) == 0 {
		return "()"
	}
	keys := make([]string, 0, len(m))
	for k := range m {
		keys = append(keys, k)
	}
	sort.Strings(keys)
	parts := make([]string, 0, len(keys))
	for _, k := range keys {
		v := m[k]
		vs := "nil"
		if v != nil {
			vs = vu.Hex(v)
		}
		parts = append(parts, vu.Hex([]byte(k))+"="+vs)
	}
	return strings.Join(parts, ",")
}

func c02Op(tr *InMemoryTrie, op string) (tok string, stop bool) {
	defer func() {
		if p := recover(); p != nil {
			tok, stop = "panic", true
		}
	}()
	f := strings.Split(op, ":")
	switch f[0] {
	case "P":
		var v []byte
		if f[2] != "nil" {
			v = vu.UnHex(f[2])
		}
		if err := tr.Put(vu.UnHex(f[1]), v); err != nil {
			return "err", false
		}
		return c02Entries(tr), false
	case "D":
		if err := tr.Delete(vu.UnHex(f[1])); err != nil {
			return "err", false
		}
		return c02Entries(tr), false
	case "C":
		if err := tr.ClearPrefix(vu.UnHex(f[1])); err != nil {
			return "err", false
		}
		return c02Entries(tr), false
	case "L":
		del, all, err := tr.ClearPrefixLimit(vu.UnHex(f[1]), uint32(vu.UnX(f[2])))
		if err != nil {
			return "err", false
		}
		a := "0"
		if all {
			a = "1"
		}
		return vu.X(uint64(del)) + "/" + a + "/" + c02Entries(tr), false
	case "G":
		v := tr.Get(vu.UnHex(f[1]))
		if v == nil {
			return "none", false
		}
		return vu.Hex(v), false
	case "N":
		k := tr.NextKey(vu.UnHex(f[1]))
		if k == nil {
			return "none", false
		}
		return vu.Hex(k), false
	case "K":
		ks := tr.GetKeysWithPrefix(vu.UnHex(f[1]))
		if len(ks) == 0 {
			return "()", false
		}
		parts := make([]string, len(ks))
		for i, k := range ks {
			parts[i] = vu.Hex(k)
		}
		return strings.Join(parts, ","), false
	case "E":
		return c02Entries(tr), false
	}
	return "badop", true
}

func c02Run(in string) string {
	f := strings.Split(in, " ")
	if len(f) < 2 || f[0] != "seq" {
		return "err:badinput"
	}
	tr := NewEmptyTrie()
	if f[1] == "1" {
		tr.SetVersion(trie.V1)
	} else {
		tr.SetVersion(trie.V0)
	}
	out := make([]string, 0, len(f))
	stopped := false
	for _, op := range f[2:] {
		tok, stop := c02Op(tr, op)
		out = append(out, tok)
		if stop {
			stopped = true
			break
		}
	}
	if !stopped {
		if _, bad := c02Desc(tr.root); bad == 0 {
			out = append(out, "T:ok")
		} else {
			out = append(out, "T:bad:"+vu.X(uint64(bad)))
		}
	}
	return strings.Join(out, " ")
}

// ---- generator ----
var c02Alphabet = []byte{0x00, 0x01, 0x10, 0x1f, 0xf0, 0xff}

type c02Gen struct {
	r    *vu.RNG
	keys map[string]bool // spec-side key set, to steer prefixes and limits
	alph []byte
}

func (g *c02Gen) key() []byte {
	r := g.r
	switch r.Intn(12) {
	case 0:
		return []byte{}
	case 1, 2: // an existing key
		if k, ok := g.pick(); ok {
			return k
		}
	case 3: // an existing key extended
		if k, ok := g.pick(); ok {
			return append(append([]byte{}, k...), g.alph[r.Intn(len(g.alph))])
		}
	case 4: // an existing key truncated
		if k, ok := g.pick(); ok && len(k) > 0 {
			return append([]byte{}, k[:r.Intn(len(k))]...)
		}
	case 5: // an existing key with its last byte changed
		if k, ok := g.pick(); ok && len(k) > 0 {
			c := append([]byte{}, k...)
			c[len(c)-1] = g.alph[r.Intn(len(g.alph))]
			return c
		}
	}
	n := r.Intn(4)
	if r.Chance(1, 12) {
		n = 4 + r.Intn(3)
	}
	k := make([]byte, n)
	for i := range k {
		k[i] = g.alph[r.Intn(len(g.alph))]
	}
	return k
}

func (g *c02Gen) pick() ([]byte, bool) {
	if len(g.keys) == 0 {
		return nil, false
	}
	ks := make([]string, 0, len(g.keys))
	for k := range g.keys {
		ks = append(ks, k)
	}
	sort.Strings(ks)
	return []byte(ks[g.r.Intn(len(ks))]), true
}

func (g *c02Gen) value() string {
	r := g.r
	switch r.Intn(10) {
	case 0:
		return "-"
	case 1:
		return "nil"
	case 2:
		return vu.Hex(r.Bytes(33))
	case 3:
		return vu.Hex(r.Bytes(32))
	default:
		return vu.Hex(r.Bytes(1 + r.Intn(2)))
	}
}

func (g *c02Gen) matches(p []byte) int {
	n := 0
	for k := range g.keys {
		if bytes.HasPrefix([]byte(k), p) {
			n++
		}
	}
	return n
}

func (g *c02Gen) clear(p []byte, limit int) {
	ks := make([]string, 0)
	for k := range g.keys {
		if bytes.HasPrefix([]byte(k), p) {
			ks = append(ks, k)
		}
	}
	sort.Strings(ks)
	for i, k := range ks {
		if limit >= 0 && i >= limit {
			break
		}
		delete(g.keys, k)
	}
}

// risky reports whether an op lies (approximately) in one of the known-finding classes; the
// generator keeps such ops rare so that most sequences check the whole property.
func (g *c02Gen) risky(kind byte, k []byte, lim int) bool {
	switch kind {
	case 'G', 'D': // absent key that is a proper prefix of a stored key (superset of exhausted-key)
		if g.keys[string(k)] {
			return false
		}
		for s := range g.keys {
			if len(s) > len(k) && bytes.HasPrefix([]byte(s), k) {
				return true
			}
		}
		return false
	case 'K', 'C', 'L':
		if len(k) > 0 && k[len(k)-1]&0x0f == 0 {
			for s := range g.keys {
				b := []byte(s)
				if !bytes.HasPrefix(b, k) && len(b) >= len(k) && bytes.HasPrefix(b, k[:len(k)-1]) &&
					b[len(k)-1]>>4 == k[len(k)-1]>>4 {
					return true
				}
			}
		}
		if kind == 'L' {
			m := g.matches(k)
			if lim == 0 && m == 0 {
				return g.r.Chance(4, 5) // mostly re-drawn twice: the dullest class
			}
			if lim > 0 && lim < m {
				ks := make([]string, 0)
				for s := range g.keys {
					if bytes.HasPrefix([]byte(s), k) {
						ks = append(ks, s)
					}
				}
				sort.Strings(ks)
				for _, a := range ks[:lim] {
					if strings.HasPrefix(ks[lim], a) {
						return true
					}
				}
			}
		}
	}
	return false
}

func c02GenSeq(r *vu.RNG, alph []byte, nops int) string {
	g := &c02Gen{r: r, keys: map[string]bool{}, alph: alph}
	var b strings.Builder
	fmt.Fprintf(&b, "seq %d", r.Intn(2))
	// start with a few puts so that queries have something to look at
	warm := r.Intn(6)
	for i := 0; i < warm+nops; i++ {
		for try := 0; ; try++ {
			c := r.Intn(20)
			if i < warm {
				c = 0
			}
			k := g.key()
			keep := func(kind byte, lim int) bool {
				return try >= 6 || !g.risky(kind, k, lim) || r.Chance(1, 8)
			}
			switch {
			case c < 6:
				g.keys[string(k)] = true
				fmt.Fprintf(&b, " P:%s:%s", vu.Hex(k), g.value())
			case c < 9:
				if !keep('D', 0) {
					continue
				}
				delete(g.keys, string(k))
				fmt.Fprintf(&b, " D:%s", vu.Hex(k))
			case c < 11:
				if !keep('C', 0) {
					continue
				}
				g.clear(k, -1)
				fmt.Fprintf(&b, " C:%s", vu.Hex(k))
			case c < 14:
				m := g.matches(k)
				lim := r.Intn(m + 2)
				if lim == 0 && !r.Chance(1, 5) {
					lim = 1 + r.Intn(m+1) // limit 0 is the dullest case: keep it rare
				}
				if r.Chance(1, 20) {
					lim = 0xffffffff
				}
				if !keep('L', lim) {
					continue
				}
				g.clear(k, lim)
				fmt.Fprintf(&b, " L:%s:%s", vu.Hex(k), vu.X(uint64(lim)))
			case c < 16:
				if !keep('G', 0) {
					continue
				}
				fmt.Fprintf(&b, " G:%s", vu.Hex(k))
			case c < 18:
				fmt.Fprintf(&b, " N:%s", vu.Hex(k))
			case c < 20:
				if !keep('K', 0) {
					continue
				}
				fmt.Fprintf(&b, " K:%s", vu.Hex(k))
			}
			break
		}
	}
	return b.String()
}

// churn: a small key set is stored, then a limited clear under a fixed prefix and the re-insertion of the
// whole set alternate a few times (the shape that makes deleteNodesLimit merge a branch with its last,
// partly deleted child), and finally the prefixes above the cleared one are listed and cleared.
func c02GenChurn(r *vu.RNG) string {
	alph := [][]byte{{0x00, 0x01, 0x10, 0x11}, {0x01, 0x10, 0x11}, {0x01, 0x11, 0x1f, 0xf1}}[r.Intn(3)]
	g := &c02Gen{r: r, keys: map[string]bool{}, alph: alph}
	var b strings.Builder
	fmt.Fprintf(&b, "seq %d", r.Intn(2))
	nk := 4 + r.Intn(5)
	var set [][]byte
	base := make([]byte, 1+r.Intn(2))
	for i := range base {
		base[i] = alph[r.Intn(len(alph))]
	}
	for i := 0; i < nk; i++ {
		k := append([]byte{}, base...)
		if r.Chance(1, 4) {
			k = k[:r.Intn(len(k)+1)]
		}
		for j := r.Intn(3); j >= 0; j-- {
			k = append(k, alph[r.Intn(len(alph))])
		}
		set = append(set, k)
	}
	put := func() {
		for _, k := range set {
			g.keys[string(k)] = true
			fmt.Fprintf(&b, " P:%s:01", vu.Hex(k))
		}
	}
	put()
	// the prefix: a stored key cut somewhere after the base; not ending in a zero nibble, not risky
	var p []byte
	lim := 1
	for try := 0; try < 20; try++ {
		k := set[r.Intn(len(set))]
		lb := len(base)
		if lb > len(k) {
			lb = len(k)
		}
		p = append([]byte{}, k[:lb+r.Intn(len(k)-lb+1)]...)
		lim = 1 + r.Intn(3)
		if len(p) > 0 && p[len(p)-1]&0x0f != 0 && !g.risky('L', p, lim) {
			break
		}
	}
	rounds := 2 + r.Intn(3)
	for i := 0; i < rounds; i++ {
		if g.risky('L', p, lim) {
			break
		}
		g.clear(p, lim)
		fmt.Fprintf(&b, " L:%s:%s", vu.Hex(p), vu.X(uint64(lim)))
		if i+1 < rounds {
			put()
		}
	}
	for n := len(p); n >= 1; n-- {
		q := p[:n]
		if g.risky('K', q, 0) {
			continue
		}
		fmt.Fprintf(&b, " K:%s", vu.Hex(q))
		if n < len(p) || r.Chance(1, 2) {
			g.clear(q, -1)
			fmt.Fprintf(&b, " C:%s K:%s", vu.Hex(q), vu.Hex(q))
		}
	}
	b.WriteString(" E")
	return b.String()
}

func c02Generate(r *vu.RNG, n int, emit func(string)) {
	// boundary corpus: the prefix-with-zero-low-nibble witness and friends
	for _, s := range []string{
		"seq 0 P:1001:aa P:1f02:bb K:10 G:10 N:10 C:10",
		"seq 0 P:1001:aa P:1f02:bb L:10:1",
		"seq 0 P:1001:aa P:1f02:bb L:10:5",
		"seq 1 P:-:01 P:00:02 P:0000:03 K:- K:00 N:- N:00 D:- G:- G:00",
		"seq 0 L:-:0 L:00:0 K:- C:- N:- G:- D:-",
		"seq 0 P:ab12:01 P:ac34:02 G:ab D:ab G:ab12",
		"seq 0 P:123456:01 P:123c56:02 G:1c56 D:1c56 G:123c56",
		"seq 0 P:1245:01 P:1255:02 K:13 K:1345",
		// Descendants counters after limited clears (fixes/C02-limit-descendants): three rounds make the
		// counter of the branch 0x01.. wrap, ClearPrefix(0x01) then deleted nothing
		"seq 0 P:10:01 P:0110:01 P:010100:01 P:01011000:01 P:01011010:01 L:0101:2 P:010100:01 P:01011000:01 L:0101:2 P:010100:01 P:01011000:01 L:0101:2 K:01 C:01 K:01 E",
		"seq 1 P:1ff010:01 P:00:01 P:0110:01 P:01f0:01 L:-:2 E",
		// the trimmed prefix matches more keys but a small limit stops before them (inside the theorem)
		"seq 0 P:1001:01 P:1002:02 P:1f02:03 L:10:1 L:10:0 E",
		"seq 0 P:1001:01 P:1002:02 P:1f02:03 L:10:2",
		"seq 0 P:1001:01 P:1002:02 P:1f02:03 L:10:3",
	} {
		emit(s)
	}
	if vu.Thorough() {
		// exhaustive: every sequence of at most 3 operations over six keys/prefixes that share nibble
		// prefixes (one ends in a zero low nibble), all eight operations, limits 0..2
		keys := []string{"-", "10", "1000", "1001", "1f", "20"}
		var ops []string
		for _, k := range keys {
			ops = append(ops, "P:"+k+":aa", "D:"+k, "G:"+k, "N:"+k, "K:"+k, "C:"+k, "L:"+k+":0", "L:"+k+":1", "L:"+k+":2")
		}
		var rec func(prefix string, depth int)
		rec = func(prefix string, depth int) {
			if depth > 0 {
				emit("seq 0" + prefix)
			}
			if depth == 3 {
				return
			}
			for _, o := range ops {
				if depth == 0 && o[0] != 'P' {
					continue // the first operation on an empty trie is a Put (the others are in the corpus)
				}
				rec(prefix+" "+o, depth+1)
			}
		}
		rec("", 0)
		// ... followed by a Put-only prefix of two keys and then every pair of operations
		for _, a := range keys {
			for _, b := range keys {
				if a >= b {
					continue
				}
				for _, o1 := range ops {
					for _, o2 := range ops {
						emit("seq 1 P:" + a + ":01 P:" + b + ":02 " + o1 + " " + o2 + " E")
					}
				}
			}
		}
	}
	for i := 0; i < n; i++ {
		if r.Chance(1, 8) {
			emit(c02GenChurn(r.Fork()))
			continue
		}
		alph := c02Alphabet
		if r.Chance(1, 5) { // a two-letter alphabet forces deep shared prefixes
			alph = [][]byte{{0x00, 0x01}, {0x10, 0x1f}, {0x00, 0x10}, {0xf0, 0xff}}[r.Intn(4)]
		}
		emit(c02GenSeq(r.Fork(), alph, 8+r.Intn(13)))
	}
}

func TestVerifC02(t *testing.T) { vu.Run(t, "C02", 3000, c02Generate, c02Run) }
