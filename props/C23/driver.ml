(* C23 driver (stage 1: Go model only) *)
open Model
open Vutil

let lst s = if s = "-" || s = "" then [] else String.split_on_char ';' s
let ioh s = int_of_n (n_of_hex s)
let sub s i = String.sub s i (String.length s - i)

let res_str = function ROk -> "ok" | RErrDigest -> "err:digest" | RErrForced -> "err:forced" | RErrSched -> "err:sched"

let check inp obs =
  match split_ws inp with
  | ["hist"; bl; cl; el] ->
    let t = List.map (fun p -> nat_of_int (ioh p)) (lst bl) in
    if not (wf t) then fail "C23: ill-formed tree";
    let nb = List.length t in
    let sched = ref [] and forced = ref [] in
    List.iter (fun c -> match String.split_on_char ',' (sub c 1) with
      | [b; d; a] when c.[0] = 's' ->
        sched := (nat_of_int (ioh b), { pc_blk = nat_of_int (ioh b); pc_delay = n_of_hex d; pc_auth = n_of_hex a; pc_bestfin = N0 }) :: !sched
      | [b; d; a; f] when c.[0] = 'f' ->
        forced := (nat_of_int (ioh b), { pc_blk = nat_of_int (ioh b); pc_delay = n_of_hex d; pc_auth = n_of_hex a; pc_bestfin = n_of_hex f }) :: !forced
      | _ -> fail "bad change %s" c) (lst cl);
    let maxnum = List.fold_left max 0 (List.init (nb + 1) (fun k -> int_of_n (number t (nat_of_int k)))) in
    let imported = Array.make (nb + 1) false in
    imported.(0) <- true;
    let st = ref ginit in
    let toks = ref [] in
    let stop = ref false in
    List.iter (fun ev -> if not !stop then begin
      let k = ioh (sub ev 1) in
      let e = if ev.[0] = 'i' then (imported.(k) <- true; Import (nat_of_int k)) else Finalise (nat_of_int k) in
      let (s', r) = go_step prefix_pred t !sched !forced !st e in
      st := s';
      let s = s' in
      let a = String.concat "." (List.init (int_of_n s.g_setid + 2) (fun id ->
        match aget s.g_auths (n_of_int id) with Some x -> hex_of_n x | None -> "-")) in
      let n = String.concat "." (List.init (maxnum + 3) (fun n ->
        match go_setid_by_number s (n_of_int n) with Some x -> hex_of_n x | None -> "?")) in
      let xs = List.filter_map (fun k ->
        if imported.(k) && is_anc t s.g_fin (nat_of_int k) then
          Some (Printf.sprintf "%x:%s" k (match go_next_change t s (nat_of_int k) with
            | None -> "!" | Some None -> "-" | Some (Some v) -> hex_of_n v))
        else None) (List.init (nb + 1) (fun k -> k)) in
      toks := List.rev_append [res_str r; "s=" ^ hex_of_n s.g_setid; "a=" ^ a; "n=" ^ n; "x=" ^ String.concat "," xs] !toks;
      if r <> ROk then stop := true
    end) (lst el);
    let model = String.concat " " (List.rev !toks) in
    { (ok ~tags:"stage1" ()) with model_eq = (model = obs); detail = if model = obs then "" else "model=" ^ model }
  | _ -> fail "C23: bad input %s" inp

let () = run_driver check
