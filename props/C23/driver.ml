(* C23 driver.  Replays a history (imports / finalisations of a block tree that carries scheduled
   and forced change announcements) on
     - the extracted model of the Go code (Model.go_step ...)           -> model_eq
     - the extracted Substrate AuthoritySet specification (Spec.spec_step ...) and compares the
       implementation's observables with the specification's            -> prop_ok
   after every event: result (ok / error), current set id, authorities of every set id, set id
   reported for every block number, next authority change for every live block as best. *)
open Model
open Vutil

let lst s = if s = "-" || s = "" then [] else String.split_on_char ';' s
let ioh s = int_of_n (n_of_hex s)
let sub s i = String.sub s i (String.length s - i)
let res_str = function ROk -> "ok" | RErrDigest -> "err:digest" | RErrForced -> "err:forced" | RErrSched -> "err:sched"
(* the Go model mirrors the repaired code; C23_VARIANT=prefix selects the pinned code (debugging) *)
let variant = (try if Sys.getenv "C23_VARIANT" = "prefix" then prefix else fixed with Not_found -> fixed)

let rec chunk7 = function
  | a :: b :: c :: d :: e :: f :: g :: r -> (a, b, c, d, e, f, g) :: chunk7 r
  | [] -> []
  | _ -> [("shape", "", "", "", "", "", "")]
let rec dump_nodes l = String.concat "" (List.map (fun n ->
  Printf.sprintf "%x(%s)" (int_of_nat (n_change n).pc_blk) (dump_nodes (n_children n))) l)

let check inp obs =
  match split_ws inp with
  | ["hist"; bl; cl; el] ->
    let t = List.map (fun p -> nat_of_int (ioh p)) (lst bl) in
    if not (wf t) then fail "C23: ill-formed tree";
    let nb = List.length t in
    let sched = ref [] and forced = ref [] in
    List.iter (fun c -> match String.split_on_char ',' (sub c 1) with
      | [b; d; a] when c.[0] = 's' ->
        sched := (nat_of_int (ioh b), { pc_blk = nat_of_int (ioh b); pc_delay = n_of_hex d; pc_auth = n_of_hex a; pc_bestfin = N0 }) :: !sched
      | [b; d; a; f] when c.[0] = 'f' ->
        forced := (nat_of_int (ioh b), { pc_blk = nat_of_int (ioh b); pc_delay = n_of_hex d; pc_auth = n_of_hex a; pc_bestfin = n_of_hex f }) :: !forced
      | _ -> fail "bad change %s" c) (lst cl);
    let num k = int_of_n (number t (nat_of_int k)) in
    let maxnum = List.fold_left max 0 (List.init (nb + 1) num) in
    let imported = Array.make (nb + 1) false in
    imported.(0) <- true;
    let st = ref ginit in
    let sp = ref (Some sinit) in
    let fin = ref 0 in
    let toks = ref [] in
    let stop = ref false in
    let impl = ref (chunk7 (split_ws obs)) in
    let why = ref [] in          (* divergences implementation <-> specification (first event only) *)
    let tags = Hashtbl.create 16 in
    let tag x = Hashtbl.replace tags x () in
    let nontrivial = ref false in
    let nev = ref 0 in
    let guard_hit = ref false in
    let failure_seen = ref false in
    let guard_at_failure = ref false in
    let attributable = ref false in
    let div_before = ref false in
    let last_f = ref None in
    List.iter (fun ev -> if not !stop then begin
      let k = ioh (sub ev 1) in
      let e = if ev.[0] = 'i' then (imported.(k) <- true; Import (nat_of_int k))
              else (fin := k; Finalise (nat_of_int k)) in
      (* --- Go model --- *)
      let before = !st in
      let (s, r) = go_step variant t !sched !forced !st e in
      st := s;
      if s.g_setid <> before.g_setid then begin
        nontrivial := true;
        tag (if ev.[0] = 'i' then "forced-change-applied" else "scheduled-change-applied") end;
      (match r with ROk -> () | r -> tag (res_str r));
      if List.length s.g_forced > 1 then tag "forced-pending>1";
      if List.exists (fun n -> n_children n <> []) s.g_roots then tag "scheduled-tree-depth>1";
      if List.length s.g_roots > 1 then tag "scheduled-roots>1";
      let live = List.filter (fun k -> imported.(k) && is_anc t (nat_of_int !fin) (nat_of_int k)) (List.init (nb + 1) (fun k -> k)) in
      let a = String.concat "." (List.init (int_of_n s.g_setid + 2) (fun id ->
        match aget s.g_auths (n_of_int id) with Some x -> hex_of_n x | None -> "-")) in
      let n = String.concat "." (List.init (maxnum + 3) (fun n ->
        match go_setid_by_number s (n_of_int n) with Some x -> hex_of_n x | None -> "?")) in
      let xs = List.map (fun k ->
          Printf.sprintf "%x:%s" k (match go_next_change variant t s (nat_of_int k) with
            | None -> "!" | Some None -> "-" | Some (Some v) -> hex_of_n v)) live in
      let fdump = if s.g_forced = [] then "-" else
        String.concat "." (List.map (fun c -> Printf.sprintf "%x" (int_of_nat c.pc_blk)) s.g_forced) in
      let rdump = if s.g_roots = [] then "-" else dump_nodes s.g_roots in
      toks := List.rev_append [res_str r; "s=" ^ hex_of_n s.g_setid; "a=" ^ a; "n=" ^ n; "x=" ^ String.concat "," xs;
                               "F=" ^ fdump; "R=" ^ rdump] !toks;
      (* second round: the history goes on after a failing event (the block is in the block state
         anyway, core.Service just reports the error); the comparison with the specification ends
         at the first failing event, the comparison with the Go model does not *)
      if r <> ROk then tag "continued-after-error";
      (* --- specification vs implementation --- *)
      (match !impl with
       | [] -> if !why = [] then why := [Printf.sprintf "ev%d(%s):missing" !nev ev]
       | (ir, is_, ia, in_, ix, iff, _) :: rest ->
         impl := rest; last_f := Some iff;
         let iok = (ir = "ok") in
         (* Substrate keeps pending_forced_changes ordered by (effective number, canon height) *)
         (if !why = [] && String.length iff > 2 && iff <> "F=-" && iff <> "F=?" then begin
            let bl = List.map (fun x -> nat_of_int (ioh x)) (String.split_on_char '.' (sub iff 2)) in
            let key b = match cfind !forced b with
              | Some c -> (int_of_n (eff t c), int_of_n (number t b)) | None -> (-1, -1) in
            let rec sorted = function a :: (b :: _ as r) -> key a <= key b && sorted r | _ -> true in
            if not (sorted bl) then why := [Printf.sprintf "ev%d(%s):forced changes not ordered by (effective number, announcing number): %s" !nev ev iff]
          end);
         (* known-finding guard: a pending forced change announced on the finalised chain
            (Enum.guard_forced_on_finalised).  A failure is attributed to the finding only when it
            shows at such a finalisation itself, or later WHILE the pending forced changes of the
            specification and of the implementation still differ because of it (second round: the
            guard used to cover every later event of the case). *)
         let guard_now = (match e, !sp with
          | Finalise h, Some q -> List.exists (fun c -> is_anc t c.pc_blk h) q.s_forced
          | _ -> false) in
         if guard_now then guard_hit := true;
         attributable := guard_now || (!guard_hit && !div_before);
         (match !sp with
          | None -> ()
          | Some sp0 ->
            let sp1 = spec_step t !sched !forced sp0 e in
            sp := sp1;
            if !why = [] then begin
              match sp1 with
              | None ->
                tag "spec-error";
                if iok then why := [Printf.sprintf "ev%d(%s):result impl=ok spec=err" !nev ev]
              | Some q ->
                if not iok then begin
                  why := [Printf.sprintf "ev%d(%s):result impl=%s spec=ok" !nev ev ir]; sp := None
                end else begin
                  let d = ref [] in
                  let ss = "s=" ^ hex_of_n q.s_setid in
                  if ss <> is_ then d := (Printf.sprintf "setid impl %s spec %s" is_ ss) :: !d;
                  let sa = "a=" ^ String.concat "." (List.init (int_of_n q.s_setid + 2) (fun id ->
                    match aget q.s_hist (n_of_int id) with Some x -> hex_of_n x | None -> "-")) in
                  if sa <> ia then d := (Printf.sprintf "auths impl %s spec %s" ia sa) :: !d;
                  let sn = "n=" ^ String.concat "." (List.init (maxnum + 3) (fun n ->
                    hex_of_n (spec_setid_by_number q (n_of_int n)))) in
                  (* authority_set_changes is searched as a sorted vector: when a forced change's best
                     finalized number lies below an earlier set change the lookup is unspecified *)
                  let rec nondecr = function (_, a) :: ((_, b) :: _ as r) -> int_of_n a <= int_of_n b && nondecr r | _ -> true in
                  if not (nondecr q.s_changes) then tag "set-changes-not-monotone(n-not-compared)"
                  else if sn <> in_ then d := (Printf.sprintf "setid-by-number impl %s spec %s" in_ sn) :: !d;
                  let sx = "x=" ^ String.concat "," (List.map (fun k ->
                    Printf.sprintf "%x:%s" k (match spec_next_change t q (nat_of_int k) with
                      | None -> "-" | Some v -> hex_of_n v)) live) in
                  if sx <> ix then d := (Printf.sprintf "next-change impl %s spec %s" ix sx) :: !d;
                  if !d <> [] then
                    why := [Printf.sprintf "ev%d(%s):%s" !nev ev (String.concat "; " (List.rev !d))]
                end
            end));
      if !why <> [] && not !failure_seen then begin failure_seen := true; guard_at_failure := !attributable end;
      (* do the pending forced changes (on blocks the block state still knows) differ now? *)
      (match !sp, !last_f with
       | Some q, Some iff when String.length iff > 2 && iff <> "F=?" ->
         let fb = nat_of_int !fin in
         let known b = is_anc t b fb || is_anc t fb b in
         let sf = List.sort compare (List.filter_map (fun c ->
           if known c.pc_blk then Some (int_of_nat c.pc_blk) else None) q.s_forced) in
         let implf = if iff = "F=-" then [] else
           List.sort compare (List.map ioh (String.split_on_char '.' (sub iff 2))) in
         div_before := (sf <> implf);
         if !div_before && !guard_hit then tag "guard:pending-forced-differ"
       | _ -> ());
      incr nev
    end) (lst el);
    let model = String.concat " " (List.rev !toks) in
    let prop = (!why = []) in
    let eq = (model = obs) in
    if !guard_hit then tag "guard:forced-change-on-finalised-chain";
    { prop_ok = prop; model_eq = eq; nontrivial = !nontrivial;
      finding = (if (not prop) && !guard_at_failure then "forced-change-on-finalised-chain" else "-");
      tags = String.concat "," (List.sort compare (Hashtbl.fold (fun k () a -> k :: a) tags []));
      detail = (if prop && eq then "" else
                Printf.sprintf "%s%s" (String.concat "; " !why) (if eq then "" else " model=" ^ model)) }
  | _ -> fail "C23: bad input %s" inp

(* vm_compute cross-check: the history re-run on the Go model inside Coq (VmCheck.vm_case) *)
let coq inp obs =
  let coq_nat i = Printf.sprintf "(%d)%%nat" i in
  let strip p s = let l = String.length p in
    if String.length s >= l && String.sub s 0 l = p then String.sub s l (String.length s - l) else raise Exit in
  let on = function "-" -> "None" | "?" | "!" -> raise Exit | x -> Printf.sprintf "(Some %s)" (coq_n (n_of_hex x)) in
  (* R=<blk>(<children>)<blk>(...)... *)
  let parse_shapes s =
    let n = String.length s in
    let rec nodes i acc =            (* parses siblings until ')' or end; returns (list, next index) *)
      if i >= n || s.[i] = ')' then (List.rev acc, i) else begin
        let j = ref i in
        while !j < n && s.[!j] <> '(' do incr j done;
        if !j >= n then raise Exit;
        let b = ioh (String.sub s i (!j - i)) in
        let (ch, k) = nodes (!j + 1) [] in
        if k >= n || s.[k] <> ')' then raise Exit;
        nodes (k + 1) (Printf.sprintf "Sh %s [%s]" (coq_nat b) (String.concat "; " ch) :: acc)
      end in
    let (l, k) = nodes 0 [] in
    if k <> n then raise Exit; l in
  match split_ws inp with
  | ["hist"; bl; cl; el] ->
    (try
      let t = List.map ioh (lst bl) in
      let sched = ref [] and forced = ref [] in
      List.iter (fun c -> match String.split_on_char ',' (sub c 1) with
        | [b; d; a] when c.[0] = 's' ->
          sched := Printf.sprintf "(%s, mkpc %s %s %s 0%%N)" (coq_nat (ioh b)) (coq_nat (ioh b)) (coq_n (n_of_hex d)) (coq_n (n_of_hex a)) :: !sched
        | [b; d; a; f] when c.[0] = 'f' ->
          forced := Printf.sprintf "(%s, mkpc %s %s %s %s)" (coq_nat (ioh b)) (coq_nat (ioh b)) (coq_n (n_of_hex d)) (coq_n (n_of_hex a)) (coq_n (n_of_hex f)) :: !forced
        | _ -> raise Exit) (lst cl);
      let chunks = chunk7 (split_ws obs) in
      let evs = lst el in
      if List.length chunks > List.length evs then raise Exit;
      let one i (r, s, a, n, x, f, rr) =
        let ev = List.nth evs i in
        let e = Printf.sprintf "%s %s" (if ev.[0] = 'i' then "Import" else "Finalise") (coq_nat (ioh (sub ev 1))) in
        let res = match r with "ok" -> "ROk" | "err:digest" -> "RErrDigest" | "err:forced" -> "RErrForced"
                               | "err:sched" -> "RErrSched" | _ -> raise Exit in
        let auths = List.map on (String.split_on_char '.' (strip "a=" a)) in
        let byn = List.map on (String.split_on_char '.' (strip "n=" n)) in
        let xs = strip "x=" x in
        let next = if xs = "" then [] else List.map (fun bx -> match String.split_on_char ':' bx with
          | [b; v] -> Printf.sprintf "(%s, %s)" (coq_nat (ioh b))
              (if v = "!" then "None" else if v = "-" then "(Some None)" else Printf.sprintf "(Some (Some %s))" (coq_n (n_of_hex v)))
          | _ -> raise Exit) (String.split_on_char ',' xs) in
        let fs = strip "F=" f in
        let fl = if fs = "-" then [] else List.map (fun b -> coq_nat (ioh b)) (String.split_on_char '.' fs) in
        let rs = strip "R=" rr in
        let shapes = if rs = "-" then [] else parse_shapes rs in
        Printf.sprintf "(%s, mkvobs %s %s [%s] [%s] [%s] [%s] [%s])" e res (coq_n (n_of_hex (strip "s=" s)))
          (String.concat "; " auths) (String.concat "; " byn) (String.concat "; " next)
          (String.concat "; " fl) (String.concat "; " shapes) in
      Some (Printf.sprintf "vm_case [%s] [%s] [%s] [%s]"
        (String.concat "; " (List.map coq_nat t))
        (String.concat "; " !sched) (String.concat "; " !forced)
        (String.concat "; " (List.mapi one chunks)))
    with Exit | Failure _ | Not_found | Invalid_argument _ -> None)
  | _ -> None

(* `model --sweep nb dmax kmax`: the exhaustive comparison of Enum.explore_all run by the extracted
   code (cross-checks the vm_compute sweeps of Exhaustive*.v and reaches larger scopes in the
   thorough tier) *)
let () =
  if Array.length Sys.argv = 5 && Sys.argv.(1) = "--sweep" then begin
    let a i = nat_of_int (int_of_string Sys.argv.(i)) in
    let ok = explore_all (a 2) (a 3) (a 4) in
    Printf.printf "sweep nb=%s dmax=%s kmax=%s configs=%d result=%b\n" Sys.argv.(2) Sys.argv.(3) Sys.argv.(4)
      (int_of_nat (count_configs (a 2) (a 3) (a 4))) ok;
    exit (if ok then 0 else 1)
  end else run_driver ~coq check
