// C23 correspondence harness (injected into package dot/state by `go test -overlay`).
//
// input (numbers in hex; lists separated by ';', "-" for an empty list):
//   hist <blocks> <changes> <events>
//   blocks   <parent index>;...          block k (k = 1..); block 0 is the genesis block
//   changes  s<blk>,<delay>,<auth id>    scheduled change announced in block <blk>
//            f<blk>,<delay>,<auth id>,<best finalized number>    forced change
//            (at most one of each kind per block; BlockImportHandler.HandleDigests ignores a
//             scheduled change when the block also carries a forced change)
//   events   i<blk>  import, as core.Service.handleBlock does: BlockState.AddBlock, then
//                    digest.BlockImportHandler.HandleDigests on the header (which carries the
//                    announcements as real GRANDPA consensus digests, scheduled before forced),
//                    then ApplyForcedChanges
//            f<blk>  finalise: BlockState.SetFinalisedHash, ApplyScheduledChanges
//   The history continues after an event that returns an error (the block stays imported / finalised).
// observed: per executed event seven tokens
//   <ok|err:digest|err:forced|err:sched>
//   s=<current set id>
//   a=<auth id of set 0>.<set 1>...<set current+1>      ("-" not found, "?" other error)
//   n=<GetSetIDByBlockNumber(0)>.<(1)>...<(max number+2)>   ("?" error)
//   x=<blk>:<NextGrandpaAuthorityChange(blk as best)|-|!>,...   for every imported block that
//      descends from (or is) the last finalised block; "-" = ErrNoNextAuthorityChange, "!" = other error
//   F=<blk>.<blk>...            announcing blocks of forcedChanges in slice order ("-" empty)
//   R=<blk>(<children>)...      scheduledChangeRoots as nested lists in slice order ("-" empty)
// (so seven tokens per event)
package state

import (
	"encoding/json"
	"errors"
	"fmt"
	"strings"
	"testing"

	"github.com/ChainSafe/gossamer/dot/digest"
	"github.com/ChainSafe/gossamer/dot/types"
	"github.com/ChainSafe/gossamer/internal/database"
	"github.com/ChainSafe/gossamer/lib/common"
	"github.com/ChainSafe/gossamer/pkg/scale"
	"github.com/ChainSafe/gossamer/pkg/trie"
	vu "github.com/ChainSafe/gossamer/internal/verifutil"
)

type c23Telemetry struct{}

func (c23Telemetry) SendMessage(_ json.Marshaler) {}

func c23Header(parent common.Hash, number uint, salt uint64, extra []types.ConsensusDigest) *types.Header {
	d := types.NewDigest()
	pd, err := types.NewBabePrimaryPreDigest(0, uint64(number)+1, [32]byte{}, [64]byte{}).ToPreRuntimeDigest()
	if err != nil {
		panic(err)
	}
	d.Add(*pd)
	for _, cd := range extra {
		d.Add(cd)
	}
	var er common.Hash
	for i := 0; i < 8; i++ {
		er[i] = byte(salt >> (8 * i))
	}
	er[31] = 0x23
	return &types.Header{ParentHash: parent, Number: number, StateRoot: trie.EmptyHash, ExtrinsicsRoot: er, Digest: d}
}

func c23Auths(id uint64) []types.GrandpaAuthoritiesRaw {
	var k [32]byte
	k[0] = byte(id)
	k[1] = 0x23
	return []types.GrandpaAuthoritiesRaw{{Key: k, ID: id}}
}

type c23Change struct {
	delay, auth, bestFin uint64
}

func c23Gen(r *vu.RNG, n int, emit func(string)) {
	for _, s := range []string{
		// forced changes inserted out of order of effective number (sort.Search predicate)
		"hist 0;1;2;3;1;5 f5,3,5,0;f6,0,6,0 i1;i2;i3;i4;i5;i6",
		// scheduled change with a delay, finalising a block between announcement and effect
		"hist 0;1;2;3 s1,2,5 i1;i2;i3;i4;f2;f3;f4",
		// scheduled change applied by finalising beyond its effective block
		"hist 0;1;2;3 s1,1,5 i1;i2;i3;i4;f4",
		// change on an abandoned fork
		"hist 0;0;1;2 s2,0,5;s3,0,6 i1;i2;i3;i4;f1;f3",
		// forced change after an applied scheduled change
		"hist 0;1;2;3;4 s1,0,5;f3,1,6,1 i1;f1;i2;i3;i4;i5",
	} {
		emit(s)
	}
	for i := 0; i < n; i++ {
		nb := 2 + r.Intn(7)
		parent := make([]int, nb+1)
		num := make([]int, nb+1)
		chainy := r.Chance(2, 3)
		for k := 1; k <= nb; k++ {
			p := r.Intn(k)
			if chainy && r.Chance(3, 4) {
				p = k - 1
			}
			parent[k] = p
			num[k] = num[p] + 1
		}
		isAnc := func(a, d int) bool {
			for {
				if d == a {
					return true
				}
				if d == 0 {
					return false
				}
				d = parent[d]
			}
		}
		imported := make([]bool, nb+1)
		imported[0] = true
		fin := 0
		finAtImport := make([]int, nb+1)
		stepwise := r.Chance(1, 2)
		pfin := 15 + r.Intn(35)
		var evs []string
		for step := 0; step < 3*nb+4; step++ {
			var imps, fins []int
			for k := 1; k <= nb; k++ {
				if !imported[k] && imported[parent[k]] && isAnc(fin, parent[k]) {
					imps = append(imps, k)
				}
				if imported[k] && k != fin && isAnc(fin, k) && (!stepwise || parent[k] == fin) {
					fins = append(fins, k)
				}
			}
			if len(imps) == 0 && len(fins) == 0 {
				break
			}
			if len(fins) > 0 && (len(imps) == 0 || r.Intn(100) < pfin) {
				if len(imps) == 0 && r.Chance(1, 3) {
					break
				}
				k := fins[r.Intn(len(fins))]
				fin = k
				evs = append(evs, "f"+vu.X(uint64(k)))
			} else {
				k := imps[r.Intn(len(imps))]
				if chainy && r.Chance(1, 2) {
					k = imps[0]
				}
				imported[k] = true
				finAtImport[k] = num[fin]
				evs = append(evs, "i"+vu.X(uint64(k)))
			}
		}
		// announcements: the best-finalized number of a forced change is mostly a plausible one
		// (between the finalised height at the time of the import and the block's own number)
		var chs []string
		nextAuth := uint64(1)
		dense := r.Chance(1, 3)
		for k := 1; k <= nb; k++ {
			ps, pf := 30, 10
			if dense {
				ps, pf = 55, 25
			}
			if r.Intn(100) < ps {
				chs = append(chs, fmt.Sprintf("s%s,%s,%s", vu.X(uint64(k)), vu.X(uint64(r.Intn(4))), vu.X(nextAuth)))
				nextAuth++
			}
			if r.Intn(100) < pf {
				lo := finAtImport[k]
				if lo > num[k] || r.Chance(1, 6) {
					lo = 0
				}
				bf := uint64(lo + r.Intn(num[k]-lo+1))
				chs = append(chs, fmt.Sprintf("f%s,%s,%s,%s", vu.X(uint64(k)), vu.X(uint64(r.Intn(4))), vu.X(nextAuth), vu.X(bf)))
				nextAuth++
			}
		}
		j := func(l []string) string {
			if len(l) == 0 {
				return "-"
			}
			return strings.Join(l, ";")
		}
		var bl []string
		for k := 1; k <= nb; k++ {
			bl = append(bl, vu.X(uint64(parent[k])))
		}
		emit(fmt.Sprintf("hist %s %s %s", j(bl), j(chs), j(evs)))
	}
}

func c23List(s string) []string {
	if s == "-" || s == "" {
		return nil
	}
	return strings.Split(s, ";")
}

func c23Run(in string) string {
	f := strings.Split(in, " ")
	if len(f) != 4 || f[0] != "hist" {
		return "err:badinput"
	}
	db, err := database.NewPebble("", true)
	if err != nil {
		return "err:db"
	}
	defer db.Close()
	genesis := &types.Header{Number: 0, StateRoot: trie.EmptyHash, Digest: types.NewDigest()}
	bs, err := NewBlockStateFromGenesis(db, newTriesEmpty(), genesis, c23Telemetry{})
	if err != nil {
		return "err:blockstate"
	}
	gv, err := types.NewGrandpaVotersFromAuthoritiesRaw(c23Auths(0xee))
	if err != nil {
		return "err:voters"
	}
	gs, err := NewGrandpaStateFromGenesis(db, bs, gv, c23Telemetry{})
	if err != nil {
		return "err:grandpastate"
	}
	importHandler := digest.NewBlockImportHandler(nil, gs)
	blocks := c23List(f[1])
	nb := len(blocks)
	parent := make([]int, nb+1)
	num := make([]int, nb+1)
	maxNum := 0
	for k := 1; k <= nb; k++ {
		parent[k] = int(vu.UnX(blocks[k-1]))
		if parent[k] >= k {
			return "err:badtree"
		}
		num[k] = num[parent[k]] + 1
		if num[k] > maxNum {
			maxNum = num[k]
		}
	}
	sched := map[int]c23Change{}
	forced := map[int]c23Change{}
	for _, c := range c23List(f[2]) {
		p := strings.Split(c[1:], ",")
		b := int(vu.UnX(p[0]))
		if c[0] == 's' && len(p) == 3 {
			sched[b] = c23Change{delay: vu.UnX(p[1]), auth: vu.UnX(p[2])}
		} else if c[0] == 'f' && len(p) == 4 {
			forced[b] = c23Change{delay: vu.UnX(p[1]), auth: vu.UnX(p[2]), bestFin: vu.UnX(p[3])}
		} else {
			return "err:badchange"
		}
	}
	headers := make([]*types.Header, nb+1)
	headers[0] = genesis
	isAnc := func(a, d int) bool {
		for {
			if d == a {
				return true
			}
			if d == 0 {
				return false
			}
			d = parent[d]
		}
	}
	fin := 0
	round := uint64(0)
	var out []string
	snapshot := func() {
		cur, err := gs.GetCurrentSetID()
		if err != nil {
			out = append(out, "s=?", "a=?", "n=?", "x=?", "F=?", "R=?")
			return
		}
		out = append(out, "s="+vu.X(cur))
		var as []string
		for id := uint64(0); id <= cur+1; id++ {
			v, err := gs.GetAuthorities(id)
			switch {
			case errors.Is(err, database.ErrNotFound):
				as = append(as, "-")
			case err != nil || len(v) != 1:
				as = append(as, "?")
			default:
				as = append(as, vu.X(v[0].ID))
			}
		}
		out = append(out, "a="+strings.Join(as, "."))
		var ns []string
		for n := 0; n <= maxNum+2; n++ {
			id, err := gs.GetSetIDByBlockNumber(uint(n))
			if err != nil {
				ns = append(ns, "?")
			} else {
				ns = append(ns, vu.X(id))
			}
		}
		out = append(out, "n="+strings.Join(ns, "."))
		var xs []string
		for k := 0; k <= nb; k++ {
			if headers[k] == nil || !isAnc(fin, k) {
				continue
			}
			v, err := gs.NextGrandpaAuthorityChange(headers[k].Hash(), headers[k].Number)
			switch {
			case errors.Is(err, ErrNoNextAuthorityChange):
				xs = append(xs, vu.X(uint64(k))+":-")
			case err != nil:
				xs = append(xs, vu.X(uint64(k))+":!")
			default:
				xs = append(xs, vu.X(uint64(k))+":"+vu.X(uint64(v)))
			}
		}
		out = append(out, "x="+strings.Join(xs, ","))
		index := map[common.Hash]int{}
		for k, h := range headers {
			if h != nil {
				index[h.Hash()] = k
			}
		}
		var fs []string
		for _, c := range *gs.forcedChanges {
			fs = append(fs, vu.X(uint64(index[c.announcingHeader.Hash()])))
		}
		if len(fs) == 0 {
			fs = []string{"-"}
		}
		out = append(out, "F="+strings.Join(fs, "."))
		var dump func(ns []*pendingChangeNode) string
		dump = func(ns []*pendingChangeNode) string {
			var sb strings.Builder
			for _, n := range ns {
				sb.WriteString(vu.X(uint64(index[n.change.announcingHeader.Hash()])))
				sb.WriteString("(" + dump(n.nodes) + ")")
			}
			return sb.String()
		}
		rs := dump(*gs.scheduledChangeRoots)
		if rs == "" {
			rs = "-"
		}
		out = append(out, "R="+rs)
	}
	for _, ev := range c23List(f[3]) {
		k := int(vu.UnX(ev[1:]))
		if k < 1 || k > nb {
			return "err:badevent"
		}
		res := "ok"
		switch ev[0] {
		case 'i':
			if headers[k] != nil || headers[parent[k]] == nil {
				return "err:badevent"
			}
			var extra []types.ConsensusDigest
			addDigest := func(v any) bool {
				dg := types.NewGrandpaConsensusDigest()
				if err := dg.SetValue(v); err != nil {
					return false
				}
				enc, err := scale.Marshal(dg)
				if err != nil {
					return false
				}
				extra = append(extra, types.ConsensusDigest{ConsensusEngineID: types.GrandpaEngineID, Data: enc})
				return true
			}
			if c, ok := sched[k]; ok {
				if !addDigest(types.GrandpaScheduledChange{Auths: c23Auths(c.auth), Delay: uint32(c.delay)}) {
					return "err:setvalue"
				}
			}
			if c, ok := forced[k]; ok {
				if !addDigest(types.GrandpaForcedChange{BestFinalizedBlock: uint32(c.bestFin), Auths: c23Auths(c.auth), Delay: uint32(c.delay)}) {
					return "err:setvalue"
				}
			}
			h := c23Header(headers[parent[k]].Hash(), uint(num[k]), uint64(k), extra)
			if err := bs.AddBlock(&types.Block{Header: *h, Body: types.Body{}}); err != nil {
				return "err:addblock"
			}
			headers[k] = h
			if err := importHandler.HandleDigests(h); err != nil {
				res = "err:digest"
			}
			if res == "ok" {
				if err := gs.ApplyForcedChanges(h); err != nil {
					res = "err:forced"
				}
			}
		case 'f':
			if headers[k] == nil {
				return "err:badevent"
			}
			round++
			if err := bs.SetFinalisedHash(headers[k].Hash(), round, 0); err != nil {
				return "err:setfinalised"
			}
			fin = k
			if err := gs.ApplyScheduledChanges(headers[k]); err != nil {
				res = "err:sched"
			}
		default:
			return "err:badevent"
		}
		out = append(out, res)
		snapshot()
		// second round: the history continues after a failing event (core.Service.handleBlock has
		// added the block before HandleDigests / ApplyForcedChanges can fail; a failing
		// ApplyScheduledChanges leaves the block finalised)
	}
	return strings.Join(out, " ")
}

func TestVerifC23(t *testing.T) { vu.Run(t, "C23", 500, c23Gen, c23Run) }
