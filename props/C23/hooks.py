"""C23 extra check: exhaustive small-scope comparison Go model (repaired) vs Substrate specification,
run by the extracted OCaml code (Enum.explore_all).  Quick: the scopes that Exhaustive*.v also proves by
vm_compute (guards the extraction).  Thorough: larger scopes."""
import os
import re
import time


def extra_checks(meta, outdir, tier, seed, V):
    model = os.path.join(outdir, "model")
    scopes = [(3, 2, 2), (4, 2, 2), (5, 1, 1)] if tier != "thorough" else [(3, 2, 2), (4, 2, 2), (4, 3, 3), (5, 2, 2), (6, 1, 1)]
    cov = {"exhaustive": True, "exhaustive_scopes": []}
    violations = []
    for (nb, d, k) in scopes:
        t0 = time.time()
        rc, out = V.run([model, "--sweep", str(nb), str(d), str(k)], timeout=3000 if tier == "thorough" else 120)
        m = re.search(r"configs=(\d+) result=(\w+)", out)
        entry = {"blocks": nb, "max_delay": d, "max_announcements": k,
                 "configurations": int(m.group(1)) if m else None,
                 "all_event_orders_agree": bool(m and m.group(2) == "true"), "seconds": round(time.time() - t0, 1)}
        cov["exhaustive_scopes"].append(entry)
        if rc != 0 or not m or m.group(2) != "true":
            violations.append(("model-vs-spec", "exhaustive sweep nb=%d dmax=%d kmax=%d: repaired Go model and Substrate specification disagree" % (nb, d, k),
                               out[-2000:], True))
    # bin/check replaces its own extra coverage (the vm_compute sample counters) by what this hook
    # returns; put the number of cross-checked cases back (a disagreement is reported by bin/check
    # itself as a broken correspondence, so reaching this point with rc 0 means there was none)
    try:
        src = open(os.path.join(outdir, "vm", "cases.v")).read()
        cov["vm_compute_cross_checked"] = src.count("::\n")
    except OSError:
        pass
    return {"coverage": cov, "violations": violations, "known": []}
