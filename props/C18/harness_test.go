// C18 correspondence harness (injected into package lib/grandpa by `go test -overlay`).
//
// The real handleCommitMessage / verifyCommitMessageJustification run on a Service whose
// BlockState / GrandpaState / Telemetry are small fakes built from the input; authority keys are
// real ed25519 keys and every signature is produced (or forged) for real.
//
// input (fields separated by one space, all numbers hex):
//   handle <n> <setid> <msgsetid> <round> <has> <hf> <badstart|-> <base> <parents|-> <tblk> <tnum> <drop> <entries|->
//   verify <thr> <n> <setid> <msgsetid> <round> <hf> <badstart|-> <base> <parents|-> <tblk> <tnum> <drop> <entries|->
//     n         number of authorities (keys 0..n-1 of a fixed universe of 16 real keys), optionally followed by
//               `:k1,k2,..`: keys appended to the Service's voter list again (a voter list with repeats:
//               State.threshold counts list entries, authorityKeySet is a set)
//     setid     the service's authority-set id; msgsetid the SetID field of the commit message
//     has       bit mask: 1 HasFinalisedBlock(round, setid) answers true | 2 HasFinalisedBlock fails
//               | 4 GetHighestFinalisedHeader fails | 8 SetFinalisedHash fails | 10 SetPrecommits fails
//     hf        block label of the highest finalised header
//     badstart  <b|->[/<h>]: b = block label for which IsDescendantOf(parent=that block, other) fails with
//               ErrStartNodeNotFound; h = block label whose header GetHeader does not find although
//               IsDescendantOf knows the block
//     base      number of block 0;  parents = p1,p2,.. : block i has parent p_i (< i); labels >= 0x64 are unknown blocks
//     tblk,tnum the commit's target block label and claimed number
//     drop      number of AuthData entries removed from the end (length mismatch when > 0)
//     entries   comma separated  key.blk.num.kind.variant  (Precommits[i] = (blk,num); AuthData[i] = key + signature)
//        kind: v valid signature by key for (precommit, vote, round, setid) | f forged (64 bytes derived from variant)
//              r signed for round+1 | s signed for setid+1 | p signed as a prevote | o signed for another number
//              k signed by key+1 | z all-zero signature
//   payload <stage> <hash: 32 bytes hex> <number> <round> <setid>
//     the bytes a vote signature is made over: built by hand (the encoder this harness signs and verifies with)
//     and by the implementation's encoder scale.Marshal(FullVote{..})
// observables:
//   payload -> <hand-built bytes hex> <scale.Marshal(FullVote) hex>
//   handle -> <res> <SetFinalisedHash calls> <blk:round:setid of the last call|-> <SetPrecommits calls> <tracked commits> <e1,e2,..|->
//             <round:setid of the HasFinalisedBlock calls|-> <round:setid:len of the SetPrecommits calls|->
//   verify -> <res> 0 - 0 0 <e1,..|-> - -
//     res: ok | tnohdr | tnum | len | setid | descstart | descother | notdesc | nohdr | pcnum | minvotes
//          | haserr | hferr | finerr | storeerr | other
//     e_i:  <ed25519 verdict 0/1>:<first 8 bytes of the signature>   (the verdict is recorded by an
//           independent crypto/ed25519 verification of the entry's signature for (precommit, vote_i, round, setid))
package grandpa

import (
	stded25519 "crypto/ed25519"
	"encoding/binary"
	"encoding/hex"
	"encoding/json"
	"errors"
	"fmt"
	"io"
	"strings"
	"sync"
	"testing"

	"github.com/ChainSafe/gossamer/dot/types"
	"github.com/ChainSafe/gossamer/internal/database"
	"github.com/ChainSafe/gossamer/internal/log"
	vu "github.com/ChainSafe/gossamer/internal/verifutil"
	"github.com/ChainSafe/gossamer/lib/blocktree"
	"github.com/ChainSafe/gossamer/lib/common"
	"github.com/ChainSafe/gossamer/lib/crypto/ed25519"
	"github.com/ChainSafe/gossamer/pkg/scale"
)

const c18Universe = 16

var (
	c18KeysOnce sync.Once
	c18Keys     []*ed25519.Keypair
)

func c18Key(i int) *ed25519.Keypair {
	c18KeysOnce.Do(func() {
		for k := 0; k < c18Universe; k++ {
			seed := make([]byte, 32)
			for j := range seed {
				seed[j] = byte(17*k + j + 1)
			}
			kp, err := ed25519.NewKeypairFromSeed(seed)
			if err != nil {
				panic(err)
			}
			c18Keys = append(c18Keys, kp)
		}
	})
	return c18Keys[i%c18Universe]
}

// ---- fakes -------------------------------------------------------------------------------

type c18Chain struct {
	BlockState // nil: any method the commit path is not expected to use panics
	headers    []*types.Header
	hashes     []common.Hash
	parents    []int
	idx        map[common.Hash]int
	hf         int
	has        bool
	badstart   int
	nohdr      int
	flags      uint64
	finCalls   int
	finLast    string
	hasArgs    []string
}

func c18UnknownHash(label int) common.Hash {
	var h common.Hash
	h[0] = 0xee
	h[1] = byte(label)
	h[31] = 0x01
	return h
}

func c18NewChain(base uint, parents []int) *c18Chain {
	c := &c18Chain{idx: map[common.Hash]int{}, badstart: -1, nohdr: -1}
	for i := 0; i <= len(parents); i++ {
		var ph common.Hash
		num := base
		p := -1
		if i > 0 {
			p = parents[i-1]
			ph = c.hashes[p]
			num = c.headers[p].Number + 1
		}
		var sr common.Hash
		sr[0] = byte(i + 1) // siblings differ
		h := types.NewHeader(ph, sr, common.Hash{}, num, types.NewDigest())
		c.headers = append(c.headers, h)
		c.hashes = append(c.hashes, h.Hash())
		c.parents = append(c.parents, p)
		c.idx[h.Hash()] = i
	}
	return c
}

func (c *c18Chain) hashOf(label int) common.Hash {
	if label >= 0 && label < len(c.hashes) {
		return c.hashes[label]
	}
	return c18UnknownHash(label)
}

func (c *c18Chain) labelOf(h common.Hash) string {
	if i, ok := c.idx[h]; ok {
		return vu.X(uint64(i))
	}
	if h[0] == 0xee {
		return vu.X(uint64(h[1]))
	}
	return "?"
}

func (c *c18Chain) GetHeader(h common.Hash) (*types.Header, error) {
	if i, ok := c.idx[h]; ok && i != c.nohdr {
		return c.headers[i], nil
	}
	return nil, fmt.Errorf("fake block state: %w", database.ErrNotFound)
}

func (c *c18Chain) HasFinalisedBlock(round, setID uint64) (bool, error) {
	c.hasArgs = append(c.hasArgs, vu.X(round)+":"+vu.X(setID))
	if c.flags&2 != 0 {
		return false, errors.New("fake block state: HasFinalisedBlock fails")
	}
	return c.has, nil
}

func (c *c18Chain) GetHighestFinalisedHeader() (*types.Header, error) {
	if c.flags&4 != 0 {
		return nil, errors.New("fake block state: GetHighestFinalisedHeader fails")
	}
	return c.headers[c.hf], nil
}

func (c *c18Chain) IsDescendantOf(parent, child common.Hash) (bool, error) {
	if parent == child {
		return true, nil
	}
	if c.badstart >= 0 && parent == c.hashOf(c.badstart) {
		return false, fmt.Errorf("%w: node hash %s", blocktree.ErrStartNodeNotFound, parent)
	}
	pi, ok1 := c.idx[parent]
	ci, ok2 := c.idx[child]
	if !ok1 || !ok2 {
		return false, errors.New("fake block state: unknown block")
	}
	for ci >= 0 {
		if ci == pi {
			return true, nil
		}
		ci = c.parents[ci]
	}
	return false, nil
}

func (c *c18Chain) SetFinalisedHash(h common.Hash, round, setID uint64) error {
	c.finCalls++
	c.finLast = c.labelOf(h) + ":" + vu.X(round) + ":" + vu.X(setID)
	if c.flags&8 != 0 {
		return errors.New("fake block state: SetFinalisedHash fails")
	}
	return nil
}

type c18GrandpaState struct {
	GrandpaState
	stored int
	args   []string
	fail   bool
}

func (g *c18GrandpaState) SetPrecommits(round, setID uint64, pcs []SignedVote) error {
	g.stored++
	g.args = append(g.args, vu.X(round)+":"+vu.X(setID)+":"+vu.X(uint64(len(pcs))))
	if g.fail {
		return errors.New("fake grandpa state: SetPrecommits fails")
	}
	return nil
}

type c18Telemetry struct{}

func (c18Telemetry) SendMessage(_ json.Marshaler) {}

// ---- building one case -------------------------------------------------------------------

type c18Entry struct {
	key, blk int
	num      uint32
	kind     string
	variant  int
}

type c18Case struct {
	op                         string
	thr                        uint64
	n                          int
	extra                      []int
	setID, msgSetID, round     uint64
	has                        bool
	flags                      uint64
	hf, badstart, nohdr        int
	base                       uint
	parents                    []int
	tblk                       int
	tnum                       uint32
	drop                       int
	entries                    []c18Entry
}

func c18ParseInts(s string) []int {
	if s == "-" || s == "" {
		return nil
	}
	var out []int
	for _, f := range strings.Split(s, ",") {
		out = append(out, int(vu.UnX(f)))
	}
	return out
}

func c18Parse(in string) (c c18Case, ok bool) {
	f := strings.Split(in, " ")
	if len(f) != 14 {
		return c, false
	}
	c.op = f[0]
	i := 1
	if c.op == "verify" {
		c.thr = vu.UnX(f[1])
		i = 2
	}
	if k := strings.IndexByte(f[i], ':'); k >= 0 {
		c.n = int(vu.UnX(f[i][:k]))
		c.extra = c18ParseInts(f[i][k+1:])
	} else {
		c.n = int(vu.UnX(f[i]))
	}
	c.setID = vu.UnX(f[i+1])
	c.msgSetID = vu.UnX(f[i+2])
	c.round = vu.UnX(f[i+3])
	i += 4
	if c.op == "handle" {
		c.flags = vu.UnX(f[i])
		c.has = c.flags&1 != 0
		i++
	}
	c.hf = int(vu.UnX(f[i]))
	c.badstart, c.nohdr = -1, -1
	bs := f[i+1]
	if k := strings.IndexByte(bs, '/'); k >= 0 {
		c.nohdr = int(vu.UnX(bs[k+1:]))
		bs = bs[:k]
	}
	if bs != "-" {
		c.badstart = int(vu.UnX(bs))
	}
	c.base = uint(vu.UnX(f[i+2]))
	c.parents = c18ParseInts(f[i+3])
	c.tblk = int(vu.UnX(f[i+4]))
	c.tnum = uint32(vu.UnX(f[i+5]))
	c.drop = int(vu.UnX(f[i+6]))
	if f[i+7] != "-" {
		for _, es := range strings.Split(f[i+7], ",") {
			p := strings.Split(es, ".")
			if len(p) != 5 {
				return c, false
			}
			c.entries = append(c.entries, c18Entry{key: int(vu.UnX(p[0])), blk: int(vu.UnX(p[1])),
				num: uint32(vu.UnX(p[2])), kind: p[3], variant: int(vu.UnX(p[4]))})
		}
	}
	for k, p := range c.parents {
		if p < 0 || p > k {
			return c, false
		}
	}
	if c.hf < 0 || c.hf > len(c.parents) || c.n > c18Universe || len(c.extra) > 8 {
		return c, false
	}
	return c, true
}

// c18FullVote builds the signed bytes BY HAND (not with the implementation's encoder): stage byte,
// 32-byte hash, number (4 bytes LE), round (8 bytes LE), set id (8 bytes LE). Every signature of this
// harness is made and independently verified over these bytes, so the implementation accepts the
// "v" entries only if its own encoding of FullVote is byte for byte the same. The `payload` cases
// compare both encoders with the Coq definition GrandpaPayload.vote_payload.
func c18FullVote(stage Subround, v Vote, round, setID uint64) []byte {
	msg := make([]byte, 0, 53)
	msg = append(msg, byte(stage))
	msg = append(msg, v.Hash[:]...)
	msg = binary.LittleEndian.AppendUint32(msg, v.Number)
	msg = binary.LittleEndian.AppendUint64(msg, round)
	msg = binary.LittleEndian.AppendUint64(msg, setID)
	return msg
}

func c18RunPayload(f []string) string {
	if len(f) != 6 {
		return "err:badinput"
	}
	hb, err := hex.DecodeString(f[2])
	if err != nil || len(hb) != 32 {
		return "err:badinput"
	}
	v := Vote{Hash: common.BytesToHash(hb), Number: uint32(vu.UnX(f[3]))}
	stage := Subround(vu.UnX(f[1]))
	round, setID := vu.UnX(f[4]), vu.UnX(f[5])
	enc, err := scale.Marshal(FullVote{Stage: stage, Vote: v, Round: round, SetID: setID})
	if err != nil {
		return "err:marshal"
	}
	return hex.EncodeToString(c18FullVote(stage, v, round, setID)) + " " + hex.EncodeToString(enc)
}

func c18Sign(e c18Entry, v Vote, round, setID uint64) [64]byte {
	var sig [64]byte
	key := c18Key(e.key)
	var msg []byte
	switch e.kind {
	case "v":
		msg = c18FullVote(precommit, v, round, setID)
	case "r":
		msg = c18FullVote(precommit, v, round+1, setID)
	case "s":
		msg = c18FullVote(precommit, v, round, setID+1)
	case "p":
		msg = c18FullVote(prevote, v, round, setID)
	case "o":
		msg = c18FullVote(precommit, Vote{Hash: v.Hash, Number: v.Number + 1}, round, setID)
	case "k":
		key = c18Key(e.key + 1)
		msg = c18FullVote(precommit, v, round, setID)
	case "z":
		return sig
	default: // forged
		r := vu.NewRNG(uint64(e.variant) + 0xf0f0)
		copy(sig[:], r.Bytes(64))
		return sig
	}
	s, err := key.Sign(msg)
	if err != nil {
		panic(err)
	}
	copy(sig[:], s)
	return sig
}

func c18Class(op string, err error) string {
	if err == nil {
		return "ok"
	}
	s := err.Error()
	switch {
	case strings.HasPrefix(s, "checking for a finalized block in the block state"):
		return "haserr"
	case strings.Contains(s, "getting highest finalised header"):
		return "hferr"
	case strings.HasPrefix(s, "setting finalised hash"):
		return "finerr"
	case strings.HasPrefix(s, "setting precommits"):
		return "storeerr"
	case errors.Is(err, ErrBlockHashMismatch):
		return "tnum"
	case op == "handle" && strings.HasPrefix(s, "verifying block hash against block number"):
		return "tnohdr"
	case errors.Is(err, ErrPrecommitSignatureMismatch):
		return "len"
	case errors.Is(err, ErrSetIDMismatch):
		return "setid"
	case errors.Is(err, blocktree.ErrStartNodeNotFound):
		return "descstart"
	case strings.Contains(s, "verifying ancestry of highest finalised block"):
		return "descother"
	case errors.Is(err, errVoteBlockMismatch):
		return "notdesc"
	case errors.Is(err, ErrBlockNumbersMismatch):
		return "pcnum"
	case errors.Is(err, ErrMinVotesNotMet):
		return "minvotes"
	case strings.Contains(s, "getting header"):
		return "nohdr"
	}
	return "other"
}

func c18Run(in string) string {
	if strings.HasPrefix(in, "payload ") {
		return c18RunPayload(strings.Split(in, " "))
	}
	c, ok := c18Parse(in)
	if !ok {
		return "err:badinput"
	}
	chain := c18NewChain(c.base, c.parents)
	chain.hf = c.hf
	chain.has = c.has
	chain.badstart = c.badstart
	chain.nohdr = c.nohdr
	chain.flags = c.flags

	voters := make([]Voter, c.n)
	for i := 0; i < c.n; i++ {
		voters[i] = Voter{Key: *c18Key(i).Public().(*ed25519.PublicKey), ID: uint64(i)}
	}
	for j, k := range c.extra {
		voters = append(voters, Voter{Key: *c18Key(k).Public().(*ed25519.PublicKey), ID: uint64(c.n + j)})
	}

	msg := &CommitMessage{Round: c.round, SetID: c.msgSetID,
		Vote: Vote{Hash: chain.hashOf(c.tblk), Number: c.tnum}}
	var bits []string
	for _, e := range c.entries {
		v := Vote{Hash: chain.hashOf(e.blk), Number: e.num}
		sig := c18Sign(e, v, c.round, c.setID)
		pub := c18Key(e.key).Public().(*ed25519.PublicKey)
		msg.Precommits = append(msg.Precommits, v)
		msg.AuthData = append(msg.AuthData, AuthData{Signature: sig, AuthorityID: pub.AsBytes()})
		// the recorded verdict: an independent verification with the standard library
		verdict := "0"
		if stded25519.Verify(stded25519.PublicKey(pub.Encode()), c18FullVote(precommit, v, c.round, c.setID), sig[:]) {
			verdict = "1"
		}
		bits = append(bits, verdict+":"+hex.EncodeToString(sig[:8]))
	}
	if c.drop > 0 {
		d := c.drop
		if d > len(msg.AuthData) {
			d = len(msg.AuthData)
		}
		msg.AuthData = msg.AuthData[:len(msg.AuthData)-d]
	}
	eb := "-"
	if len(bits) > 0 {
		eb = strings.Join(bits, ",")
	}

	gs := &c18GrandpaState{fail: c.flags&0x10 != 0}
	svc := &Service{
		blockState:   chain,
		grandpaState: gs,
		telemetry:    c18Telemetry{},
		state:        NewState(voters, c.setID, c.round),
		tracker:      &tracker{commits: newCommitsTracker(8)},
	}
	if c.op == "verify" {
		err := verifyCommitMessageJustification(*msg, c.setID, c.thr, svc.authorityKeySet(), chain)
		return fmt.Sprintf("%s 0 - 0 0 %s - -", c18Class(c.op, err), eb)
	}
	err := svc.handleCommitMessage(msg)
	last := "-"
	if chain.finCalls > 0 {
		last = chain.finLast
	}
	hasArgs, storeArgs := "-", "-"
	if len(chain.hasArgs) > 0 {
		hasArgs = strings.Join(chain.hasArgs, ",")
	}
	if len(gs.args) > 0 {
		storeArgs = strings.Join(gs.args, ",")
	}
	return fmt.Sprintf("%s %s %s %s %s %s %s %s", c18Class(c.op, err), vu.X(uint64(chain.finCalls)), last,
		vu.X(uint64(gs.stored)), vu.X(uint64(svc.tracker.commits.linkedList.Len())), eb, hasArgs, storeArgs)
}

// ---- generator ---------------------------------------------------------------------------

func c18Join(xs []int) string {
	if len(xs) == 0 {
		return "-"
	}
	s := make([]string, len(xs))
	for i, x := range xs {
		s[i] = vu.X(uint64(x))
	}
	return strings.Join(s, ",")
}

type c18Tree struct {
	base    int
	parents []int
}

func (t c18Tree) num(b int) int {
	d := 0
	for b > 0 {
		b = t.parents[b-1]
		d++
	}
	return t.base + d
}

func (t c18Tree) isDesc(a, b int) bool {
	for {
		if a == b {
			return true
		}
		if b == 0 {
			return false
		}
		b = t.parents[b-1]
	}
}

func c18GenCase(r *vu.RNG) string {
	// authority set size: every size 0..9, small ones more often
	n := []int{0, 1, 2, 3, 3, 4, 4, 4, 5, 6, 6, 7, 7, 9}[r.Intn(14)]
	// a voter list that repeats some keys: threshold() counts the entries, the key set does not
	var extra []int
	if n > 0 && r.Chance(1, 8) {
		for k := 1 + r.Intn(2); k > 0; k-- {
			extra = append(extra, r.Intn(n))
		}
	}
	thr := 2 * (n + len(extra)) / 3
	t := c18Tree{base: r.Intn(3)}
	m := 1 + r.Intn(8)
	for i := 1; i < m; i++ {
		if r.Chance(2, 3) {
			t.parents = append(t.parents, i-1)
		} else {
			t.parents = append(t.parents, r.Intn(i))
		}
	}
	tblk := r.Intn(m)
	if r.Chance(1, 40) {
		tblk = 0x64 + r.Intn(3)
	}
	tnum := 0
	if tblk < m {
		tnum = t.num(tblk)
	}
	if r.Chance(1, 40) {
		tnum += 1 + r.Intn(2)
	}
	hf := 0
	if r.Chance(1, 4) {
		hf = r.Intn(m)
	}
	setID := uint64(r.Intn(3))
	msgSetID := setID
	if r.Chance(1, 40) {
		msgSetID = setID + 1
	}
	round := uint64(1 + r.Intn(5))
	flags := uint64(0)
	if r.Chance(1, 40) {
		flags |= 1
	}
	if r.Chance(1, 12) { // one failing collaborator
		flags |= []uint64{2, 4, 8, 8, 0x10, 0x10}[r.Intn(6)]
	}
	badstart := "-"
	if r.Chance(1, 40) {
		badstart = vu.X(uint64(r.Intn(m)))
	}
	if r.Chance(1, 30) { // a block whose header GetHeader does not find
		badstart += "/" + vu.X(uint64(r.Intn(m)))
	}
	drop := 0
	if r.Chance(1, 50) {
		drop = 1 + r.Intn(2)
	}

	// blocks on / off the target's chain
	var on, off []int
	for b := 0; b < m; b++ {
		if tblk < m && t.isDesc(tblk, b) {
			on = append(on, b)
		} else {
			off = append(off, b)
		}
	}
	pick := func(xs []int, def int) int {
		if len(xs) == 0 {
			return def
		}
		return xs[r.Intn(len(xs))]
	}
	var es []c18Entry
	mk := func(key, blk int, kind string) c18Entry {
		num := 0
		if blk < m {
			num = t.num(blk)
		}
		return c18Entry{key: key, blk: blk, num: uint32(num), kind: kind, variant: r.Intn(4)}
	}
	// honest backers: a number around the threshold
	var backers int
	switch r.Intn(6) {
	case 0:
		backers = thr - 1
	case 1, 2:
		backers = thr
	case 3:
		backers = thr + 1
	default:
		backers = r.Intn(n + 1)
	}
	if backers < 0 {
		backers = 0
	}
	if backers > n {
		backers = n
	}
	perm := make([]int, n)
	for i := range perm {
		perm[i] = i
	}
	for i := n - 1; i > 0; i-- {
		j := r.Intn(i + 1)
		perm[i], perm[j] = perm[j], perm[i]
	}
	for i := 0; i < backers; i++ {
		es = append(es, mk(perm[i], pick(on, tblk), "v"))
	}
	rest := perm[backers:]
	// noise, by mode
	mode := r.Intn(8)
	noise := r.Intn(5)
	if mode == 7 {
		noise = 0
	}
	for i := 0; i < noise; i++ {
		anyKey := r.Intn(c18Universe)
		if n > 0 && r.Chance(3, 4) {
			anyKey = r.Intn(n)
		}
		restKey := anyKey
		if len(rest) > 0 {
			restKey = rest[r.Intn(len(rest))]
		}
		switch mode {
		case 0: // duplicates of listed entries
			if len(es) > 0 {
				es = append(es, es[r.Intn(len(es))])
			}
		case 1: // forged "equivocations": an authority twice with differing forged signatures
			b := pick(on, tblk)
			e1, e2 := mk(restKey, b, "f"), mk(restKey, b, "f")
			e2.variant = e1.variant + 1
			es = append(es, e1, e2)
		case 2: // true equivocations: two different valid votes
			b1 := pick(on, tblk)
			b2 := pick(off, pick(on, tblk))
			if r.Chance(1, 3) {
				b1 = pick(off, b1)
			}
			es = append(es, mk(restKey, b1, "v"), mk(restKey, b2, "v"))
		case 3: // valid signatures off the target's chain / unknown blocks
			b := pick(off, 0x64+r.Intn(2))
			if r.Chance(1, 6) {
				b = 0x64 + r.Intn(2)
			}
			es = append(es, mk(restKey, b, "v"))
			if b >= m && r.Chance(1, 2) { // the same unknown block again with another number: an equivocation
				e := mk(restKey, b, "v")
				e.num = uint32(1 + r.Intn(2))
				es = append(es, e)
			}
		case 4: // wrong round / set / stage / number / key / zero
			es = append(es, mk(restKey, pick(on, tblk), []string{"r", "s", "p", "o", "k", "z"}[r.Intn(6)]))
		case 5: // non-authorities with valid signatures
			es = append(es, mk(n+r.Intn(c18Universe-n), pick(on, tblk), "v"))
		default: // anything
			b := r.Intn(m)
			e := mk(anyKey, b, []string{"v", "v", "v", "f", "r", "s", "p", "o", "k", "z"}[r.Intn(10)])
			if r.Chance(1, 12) {
				e.num += uint32(1 + r.Intn(2))
			}
			es = append(es, e)
		}
	}
	// order
	if r.Chance(2, 3) {
		for i := len(es) - 1; i > 0; i-- {
			j := r.Intn(i + 1)
			es[i], es[j] = es[j], es[i]
		}
	}
	ent := "-"
	if len(es) > 0 {
		ss := make([]string, len(es))
		for i, e := range es {
			ss[i] = fmt.Sprintf("%s.%s.%s.%s.%s", vu.X(uint64(e.key)), vu.X(uint64(e.blk)), vu.X(uint64(e.num)),
				e.kind, vu.X(uint64(e.variant)))
		}
		ent = strings.Join(ss, ",")
	}
	ns := vu.X(uint64(n))
	if len(extra) > 0 {
		ns += ":" + c18Join(extra)
	}
	tail := fmt.Sprintf("%s %s %s %s %s %s %s %s", vu.X(uint64(hf)), badstart, vu.X(uint64(t.base)),
		c18Join(t.parents), vu.X(uint64(tblk)), vu.X(uint64(tnum)), vu.X(uint64(drop)), ent)
	if r.Chance(1, 5) {
		vthr := thr
		switch r.Intn(3) {
		case 0:
			vthr = thr + 1
		case 1:
			vthr = r.Intn(n + len(extra) + 2)
		}
		return fmt.Sprintf("verify %s %s %s %s %s %s", vu.X(uint64(vthr)), ns, vu.X(setID),
			vu.X(msgSetID), vu.X(round), tail)
	}
	return fmt.Sprintf("handle %s %s %s %s %s %s", ns, vu.X(setID), vu.X(msgSetID), vu.X(round),
		vu.X(flags), tail)
}

// c18Exhaustive (thorough tier): EVERY vector of entries up to a length over a small alphabet, on the
// fixed tree 0 <- 1 <- 2, 0 <- 3 with target block 1:
//   n = 1, 2, 3: keys 0..n (n is a non-authority) x blocks {1 target, 2 descendant, 3 off-chain, 0x64 unknown}
//                x kinds {valid, forged}, all vectors of length 0..3;
//   n = 4:       keys 0..3 x blocks {1, 3} x valid, plus keys 0..3 forged on the target, all vectors of length 3 and 4.
// Forged entries get their position as variant, so two forged entries of one key differ in their signature bytes.
func c18Exhaustive(emit func(string)) {
	type sym struct {
		key, blk int
		kind     string
	}
	num := map[int]int{0: 0, 1: 1, 2: 2, 3: 1, 0x64: 0}
	run := func(n int, alpha []sym, lens []int) {
		var vec []sym
		var rec func(left int)
		rec = func(left int) {
			if left == 0 {
				ent := "-"
				if len(vec) > 0 {
					ss := make([]string, len(vec))
					for i, e := range vec {
						ss[i] = fmt.Sprintf("%s.%s.%s.%s.%s", vu.X(uint64(e.key)), vu.X(uint64(e.blk)),
							vu.X(uint64(num[e.blk])), e.kind, vu.X(uint64(i)))
					}
					ent = strings.Join(ss, ",")
				}
				emit(fmt.Sprintf("handle %s 0 0 1 0 0 - 0 0,1,0 1 1 0 %s", vu.X(uint64(n)), ent))
				return
			}
			for _, a := range alpha {
				vec = append(vec, a)
				rec(left - 1)
				vec = vec[:len(vec)-1]
			}
		}
		for _, l := range lens {
			rec(l)
		}
	}
	for n := 1; n <= 3; n++ {
		var alpha []sym
		for k := 0; k <= n; k++ {
			for _, b := range []int{1, 2, 3, 0x64} {
				alpha = append(alpha, sym{k, b, "v"}, sym{k, b, "f"})
			}
		}
		run(n, alpha, []int{0, 1, 2, 3})
	}
	var alpha []sym
	for k := 0; k < 4; k++ {
		alpha = append(alpha, sym{k, 1, "v"}, sym{k, 3, "v"}, sym{k, 1, "f"})
	}
	run(4, alpha, []int{3, 4})
}

func c18Gen(r *vu.RNG, n int, emit func(string)) {
	if vu.Thorough() {
		c18Exhaustive(emit)
	}
	for i := 0; i < n; i++ {
		if i%50 == 49 { // the signed bytes: both encoders against the Coq definition
			edge := []uint64{0, 1, 0xff, 0x100, 0xffffffff, 0x100000000, ^uint64(0)}
			pick := func() uint64 {
				if r.Chance(1, 2) {
					return edge[r.Intn(len(edge))]
				}
				return r.U64() >> uint(r.Intn(64))
			}
			emit(fmt.Sprintf("payload %s %s %s %s %s", vu.X(uint64(r.Intn(3))), hex.EncodeToString(r.Bytes(32)),
				vu.X(pick()&0xffffffff), vu.X(pick()), vu.X(pick())))
			continue
		}
		emit(c18GenCase(r))
	}
}

func TestVerifC18(t *testing.T) {
	logger.Patch(log.SetWriter(io.Discard))
	vu.Run(t, "C18", 3000, c18Gen, c18Run)
}
