(* C18 driver: replays the Go trace on the extracted model of handleCommitMessage /
   verifyCommitMessageJustification and evaluates the property predicate (Model.prop_holds, the
   predicate of C18_prop) on the implementation's observables. *)
open Model
open Vutil

let ints s = if s = "-" || s = "" then [] else List.map n_of_hex (String.split_on_char ',' s)

let cerr_str = function
  | ELen -> "len" | ESetID -> "setid" | EDescStart -> "descstart" | EDescOther -> "descother"
  | ENotDesc -> "notdesc" | ENoHeader -> "nohdr" | EPcNum -> "pcnum" | EMinVotes -> "minvotes"
let hres_str = function
  | HAccepted -> "ok" | HAlreadyFinalised -> "ok" | HNoTargetHeader -> "tnohdr" | HTargetNum -> "tnum"
  | HRejected e -> cerr_str e
let res_str = function ROk _ -> "ok" | RErr e -> cerr_str e

let triple_str (a, b, c) = hex_of_n a ^ ":" ^ hex_of_n b ^ ":" ^ hex_of_n c
let eff_str (e : effects) =
  (match e.finalised with Some (p, s) -> let (h, r) = p in "1 " ^ triple_str (h, r, s) | None -> "0 -")
  ^ (match e.stored with Some _ -> " 1" | None -> " 0")
  ^ (if e.tracked then " 1" else " 0")

type ent = { key : n; blk : n; num : n; kind : string }

let parse_entries s =
  if s = "-" then [] else
  List.map (fun es -> match String.split_on_char '.' es with
    | [k; b; nm; kind; _] -> { key = n_of_hex k; blk = n_of_hex b; num = n_of_hex nm; kind }
    | _ -> fail "C18: bad entry %s" es) (String.split_on_char ',' s)

let parse_bits s =
  if s = "-" then [] else
  List.map (fun b -> match String.split_on_char ':' b with
    | [ok; sg] -> (ok = "1", n_of_hex sg)
    | _ -> fail "C18: bad entry bits %s" b) (String.split_on_char ',' s)

let rec take k l = if k <= 0 then [] else match l with [] -> [] | x :: r -> x :: take (k - 1) r
let rec seqn a k = if k <= 0 then [] else n_of_int a :: seqn (a + 1) (k - 1)

let check inp obs =
  let f = split_ws inp in
  let op = List.hd f in
  let (thr_opt, rest) = (match f with
    | "verify" :: t :: r -> (Some (n_of_hex t), r)
    | "handle" :: r -> (None, r)
    | _ -> fail "C18: bad input %s" inp) in
  let (n, setid, msgsetid, round, has, rest) = (match op, rest with
    | "handle", n :: s :: ms :: r :: h :: tl -> (int_of_n (n_of_hex n), n_of_hex s, n_of_hex ms, n_of_hex r, h = "1", tl)
    | "verify", n :: s :: ms :: r :: tl -> (int_of_n (n_of_hex n), n_of_hex s, n_of_hex ms, n_of_hex r, false, tl)
    | _ -> fail "C18: bad input %s" inp) in
  let (hf, badstart, base, parents, tblk, tnum, drop, ents) = (match rest with
    | [hf; bs; base; ps; tb; tn; dr; es] ->
      (n_of_hex hf, (if bs = "-" then None else Some (n_of_hex bs)), n_of_hex base, ints ps,
       n_of_hex tb, n_of_hex tn, int_of_n (n_of_hex dr), parse_entries es)
    | _ -> fail "C18: bad input %s" inp) in
  let of_ = split_ws obs in
  let (ores, onfin, ofin, ostored, otracked, obits) = (match of_ with
    | [a; b; c; d; e; g] -> (a, b, c, d, e, parse_bits g)
    | _ -> ("shape", "0", "-", "0", "0", [])) in
  if List.length obits <> List.length ents then
    { prop_ok = true; model_eq = false; nontrivial = false; finding = "-"; tags = "bad-observation";
      detail = "observed entry bits do not match the entries: " ^ obs }
  else begin
    let chain = tree_chain base parents badstart in
    let auths = seqn 0 n in
    let pcs = List.map (fun e -> { v_hash = e.blk; v_num = e.num }) ents in
    let ads = List.map2 (fun e (ok, sg) -> { a_key = e.key; a_sig = sg; a_ok = ok }) ents obits in
    let ads = take (List.length ads - drop) ads in
    let m = { cm_round = round; cm_setid = msgsetid; cm_vote = { v_hash = tblk; v_num = tnum };
              cm_precommits = pcs; cm_authdata = ads } in
    (* sanity of the recorded verdicts: a signature made for exactly this vote verifies, the other kinds do not *)
    let sig_sane = List.for_all2 (fun e (ok, _) -> ok = (e.kind = "v")) ents obits in
    let cnt = spec_count chain auths m in
    let thr = (match thr_opt with Some t -> t | None -> threshold auths) in
    let rel = (match N.compare cnt thr with Lt -> "below" | Eq -> "at" | Gt -> "above") in
    let kinds = List.sort_uniq compare (List.map (fun e -> "kind-" ^ e.kind) ents) in
    let has_eqv = List.exists (fun k -> equivocator auths m k) auths in
    let raw_eqv = get_equivocatory_voters ads <> [] in
    let dup = (let rec go = function [] -> false | x :: r -> List.mem x r || go r in
               go (List.map2 (fun e (_, sg) -> (e.key, e.blk, e.num, sg)) ents obits)) in
    let nonauth = List.exists (fun e -> int_of_n e.key >= n) ents in
    let unknown = List.exists (fun e -> int_of_n e.blk > List.length parents) ents in
    let common_tags = [op; "n-" ^ string_of_int n; "count-" ^ rel ^ "-threshold"] @ kinds
      @ (if has_eqv then ["true-equivocator"] else [])
      @ (if raw_eqv && not has_eqv then ["forged-or-same-vote-equivocation"] else [])
      @ (if dup then ["duplicate-entry"] else [])
      @ (if nonauth then ["non-authority"] else [])
      @ (if unknown then ["unknown-block"] else [])
      @ (if drop > 0 then ["length-mismatch"] else [])
      @ (if sig_sane then [] else ["verdict-unexpected"]) in
    match thr_opt with
    | None ->
      let (r, eff) = handle_commit chain auths setid has hf m in
      let model = hres_str r ^ " " ^ eff_str eff in
      let (rp, effp) = handle_commit_prefix chain auths setid has hf m in
      let prefix = hres_str rp ^ " " ^ eff_str effp in
      let observed = String.concat " " [ores; onfin; ofin; ostored; otracked] in
      let fin = (match int_of_n (n_of_hex onfin), String.split_on_char ':' ofin with
        | 0, _ -> Some []
        | 1, [a; b; c] when a <> "?" -> Some [((n_of_hex a, n_of_hex b), n_of_hex c)]
        | _ -> None) in
      let prop = (match fin with
        | Some l -> prop_holds chain auths setid m has (ores = "ok") l
        | None -> false) in
      let guard = at_threshold chain auths m in
      (* the class of the former finding (exactly floor(2n/3) backers accepted): repaired by
         fixes/C18-3-commit-threshold-strict.patch; the slug is still attached so that a tree
         without that patch is reported under its name *)
      let finding = if (not prop) && guard && onfin = "1" then "commit-threshold-not-strict" else "-" in
      let eq = (model = observed) && sig_sane in
      let reached = (match r with HAccepted | HRejected EMinVotes -> true | _ -> false) in
      { prop_ok = prop; model_eq = eq; nontrivial = reached && ents <> [];
        finding;
        tags = String.concat "," (common_tags @ ["res-" ^ hres_str r ^ (if r = HAlreadyFinalised then "-noop" else "")]
                                  @ (if guard then ["exactly-threshold-backers"] else []));
        detail = (if prop && eq then "" else
                    Printf.sprintf "model=[%s] prefix-model=[%s] backers=%s threshold=%s n=%d%s%s" model prefix
                      (hex_of_n cnt) (hex_of_n thr) n
                      (if observed = prefix && observed <> model then " (implementation behaves as the pre-fix code)" else "")
                      (if sig_sane then "" else " (recorded ed25519 verdicts are not the expected ones)")) }
    | Some t ->
      let r = verify_commit chain auths setid t hf m in
      let model = res_str r in
      let prefix = res_str (verify_commit_prefix chain auths setid t hf m) in
      (* C18_verify_iff: success needs more than thr distinct backers *)
      let prop = (ores <> "ok") || (N.compare t cnt = Lt) in
      let eq = (model = ores) && sig_sane in
      let reached = (match r with ROk _ | RErr EMinVotes -> true | _ -> false) in
      { prop_ok = prop; model_eq = eq; nontrivial = reached && ents <> [];
        finding = (if (not prop) && N.compare t cnt = Eq then "commit-threshold-not-strict" else "-");
        tags = String.concat "," (common_tags @ ["res-" ^ model]);
        detail = (if prop && eq then "" else
                    Printf.sprintf "model=[%s] prefix-model=[%s] backers=%s threshold=%s n=%d%s" model prefix
                      (hex_of_n cnt) (hex_of_n t) n
                      (if ores = prefix && ores <> model then " (implementation behaves as the pre-fix code)" else "")) }
  end

let () = run_driver check
