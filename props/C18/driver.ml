(* C18 driver: replays the Go trace on the extracted model of handleCommitMessage /
   verifyCommitMessageJustification and evaluates the property predicate (Model.prop_holds, the
   predicate of C18_prop / C18_faults_sound) on the implementation's observables.
   The model replayed is [handle_commit_f] (handle_commit + failing collaborators) over
   [tree_chain_h] (the generated tree + a header GetHeader does not find). *)
open Model
open Vutil

let ints s = if s = "-" || s = "" then [] else List.map n_of_hex (String.split_on_char ',' s)

let cerr_str = function
  | ELen -> "len" | ESetID -> "setid" | EDescStart -> "descstart" | EDescOther -> "descother"
  | ENotDesc -> "notdesc" | ENoHeader -> "nohdr" | EPcNum -> "pcnum" | EMinVotes -> "minvotes"
let hres_str = function
  | HAccepted -> "ok" | HAlreadyFinalised -> "ok" | HNoTargetHeader -> "tnohdr" | HTargetNum -> "tnum"
  | HRejected e -> cerr_str e
let res_str = function ROk _ -> "ok" | RErr e -> cerr_str e
let fres_str = function
  | FRes r -> hres_str r | FHasErr -> "haserr" | FHfErr -> "hferr" | FFinErr -> "finerr" | FStoreErr -> "storeerr"
(* the numbering of C18/VmCheck.v [res_code] *)
let code_of_res = function
  | "ok" -> 0 | "tnohdr" -> 1 | "tnum" -> 2 | "len" -> 3 | "setid" -> 4 | "descstart" -> 5 | "descother" -> 6
  | "notdesc" -> 7 | "nohdr" -> 8 | "pcnum" -> 9 | "minvotes" -> 10 | "haserr" -> 11 | "hferr" -> 12
  | "finerr" -> 13 | "storeerr" -> 14 | _ -> 99

let triple_str (a, b, c) = hex_of_n a ^ ":" ^ hex_of_n b ^ ":" ^ hex_of_n c
let eff_str (e : effects) =
  (match e.finalised with Some (p, s) -> let (h, r) = p in "1 " ^ triple_str (h, r, s) | None -> "0 -")
  ^ (match e.stored with Some _ -> " 1" | None -> " 0")
  ^ (if e.tracked then " 1" else " 0")

type ent = { key : n; blk : n; num : n; kind : string }

let parse_entries s =
  if s = "-" then [] else
  List.map (fun es -> match String.split_on_char '.' es with
    | [k; b; nm; kind; _] -> { key = n_of_hex k; blk = n_of_hex b; num = n_of_hex nm; kind }
    | _ -> fail "C18: bad entry %s" es) (String.split_on_char ',' s)

let parse_bits s =
  if s = "-" then [] else
  List.map (fun b -> match String.split_on_char ':' b with
    | [ok; sg] -> (ok = "1", n_of_hex sg)
    | _ -> fail "C18: bad entry bits %s" b) (String.split_on_char ',' s)

let rec take k l = if k <= 0 then [] else match l with [] -> [] | x :: r -> x :: take (k - 1) r
let rec seqn a k = if k <= 0 then [] else n_of_int a :: seqn (a + 1) (k - 1)

type parsed = {
  op : string; thr_opt : n option; n : int; extra : n list; setid : n; msgsetid : n; round : n;
  flags : int; hf : n; badstart : n option; nohdr : n option; base : n; parents : n list;
  tblk : n; tnum : n; drop : int; ents : ent list }

let parse inp =
  let f = split_ws inp in
  let op = List.hd f in
  let (thr_opt, rest) = (match f with
    | "verify" :: t :: r -> (Some (n_of_hex t), r)
    | "handle" :: r -> (None, r)
    | _ -> fail "C18: bad input %s" inp) in
  let nfield s = (match String.index_opt s ':' with
    | Some k -> (int_of_n (n_of_hex (String.sub s 0 k)), ints (String.sub s (k + 1) (String.length s - k - 1)))
    | None -> (int_of_n (n_of_hex s), [])) in
  let ((n, extra), setid, msgsetid, round, flags, rest) = (match op, rest with
    | "handle", n :: s :: ms :: r :: h :: tl -> (nfield n, n_of_hex s, n_of_hex ms, n_of_hex r, int_of_n (n_of_hex h), tl)
    | "verify", n :: s :: ms :: r :: tl -> (nfield n, n_of_hex s, n_of_hex ms, n_of_hex r, 0, tl)
    | _ -> fail "C18: bad input %s" inp) in
  match rest with
  | [hf; bs; base; ps; tb; tn; dr; es] ->
    let (bs, nh) = (match String.index_opt bs '/' with
      | Some k -> (String.sub bs 0 k, Some (n_of_hex (String.sub bs (k + 1) (String.length bs - k - 1))))
      | None -> (bs, None)) in
    { op; thr_opt; n; extra; setid; msgsetid; round; flags; hf = n_of_hex hf;
      badstart = (if bs = "-" then None else Some (n_of_hex bs)); nohdr = nh; base = n_of_hex base;
      parents = ints ps; tblk = n_of_hex tb; tnum = n_of_hex tn; drop = int_of_n (n_of_hex dr);
      ents = parse_entries es }
  | _ -> fail "C18: bad input %s" inp

let faults_of flags =
  { f_has_err = flags land 2 <> 0; f_hf_err = flags land 4 <> 0; f_fin_err = flags land 8 <> 0;
    f_store_err = flags land 16 <> 0 }

(* the commit message of a case, given the recorded (verdict, signature label) of every entry *)
let commit_of_case p obits =
  let pcs = List.map (fun e -> { v_hash = e.blk; v_num = e.num }) p.ents in
  let ads = List.map2 (fun e (ok, sg) -> { a_key = e.key; a_sig = sg; a_ok = ok }) p.ents obits in
  let ads = take (List.length ads - p.drop) ads in
  { cm_round = p.round; cm_setid = p.msgsetid; cm_vote = { v_hash = p.tblk; v_num = p.tnum };
    cm_precommits = pcs; cm_authdata = ads }

let check_payload f obs =
  match f, split_ws obs with
  | [_; st; h; num; round; setid], [hand; enc] ->
    let model = hex_of_bytes (vote_payload (nat_of_int 4) (n_of_hex st) (bytes_of_hex h) (n_of_hex num)
                                (n_of_hex round) (n_of_hex setid)) in
    (* prop: the implementation's encoder yields the bytes of the Coq definition; model_eq: so does the
       hand-written encoder the harness signs and verifies with *)
    { prop_ok = (enc = model); model_eq = (hand = model); nontrivial = true; finding = "-";
      tags = "payload,payload-stage-" ^ st;
      detail = (if enc = model && hand = model then "" else "model=" ^ model) }
  | _ -> { prop_ok = true; model_eq = false; nontrivial = false; finding = "-"; tags = "payload,bad-observation"; detail = obs }

let check inp obs =
  let f0 = split_ws inp in
  if List.hd f0 = "payload" then check_payload f0 obs else
  let p = parse inp in
  let of_ = split_ws obs in
  let (ores, onfin, ofin, ostored, otracked, obits, ohas, ostore) = (match of_ with
    | [a; b; c; d; e; g; h; i] -> (a, b, c, d, e, parse_bits g, h, i)
    | _ -> ("shape", "0", "-", "0", "0", [], "-", "-")) in
  if List.length obits <> List.length p.ents then
    { prop_ok = true; model_eq = false; nontrivial = false; finding = "-"; tags = "bad-observation";
      detail = "observed entry bits do not match the entries: " ^ obs }
  else begin
    let n = p.n and ents = p.ents in
    let chain = tree_chain_h p.base p.parents p.badstart p.nohdr in
    let auths = seqn 0 n @ p.extra in
    let m = commit_of_case p obits in
    let ads = m.cm_authdata in
    let has = p.flags land 1 <> 0 in
    (* sanity of the recorded verdicts: a signature made for exactly this vote verifies, the other kinds do not *)
    let sig_sane = List.for_all2 (fun e (ok, _) -> ok = (e.kind = "v")) ents obits in
    let cnt = spec_count chain auths m in
    let thr = (match p.thr_opt with Some t -> t | None -> threshold auths) in
    let rel = (match N.compare cnt thr with Lt -> "below" | Eq -> "at" | Gt -> "above") in
    let kinds = List.sort_uniq compare (List.map (fun e -> "kind-" ^ e.kind) ents) in
    let has_eqv = List.exists (fun k -> equivocator auths m k) auths in
    let raw_eqv = get_equivocatory_voters ads <> [] in
    let dup = (let rec go = function [] -> false | x :: r -> List.mem x r || go r in
               go (List.map2 (fun e (_, sg) -> (e.key, e.blk, e.num, sg)) ents obits)) in
    let nonauth = List.exists (fun e -> int_of_n e.key >= n) ents in
    let unknown = List.exists (fun e -> int_of_n e.blk > List.length p.parents) ents in
    let fault = List.exists (fun e -> entry_fault chain auths m.cm_vote e) (entries m) in
    let common_tags = [p.op; "n-" ^ string_of_int n; "count-" ^ rel ^ "-threshold"] @ kinds
      @ (if has_eqv then ["true-equivocator"] else [])
      @ (if raw_eqv && not has_eqv then ["forged-or-same-vote-equivocation"] else [])
      @ (if dup then ["duplicate-entry"] else [])
      @ (if nonauth then ["non-authority"] else [])
      @ (if unknown then ["unknown-block"] else [])
      @ (if p.drop > 0 then ["length-mismatch"] else [])
      @ (if p.extra <> [] then ["repeated-voter-in-list"] else [])
      @ (if p.nohdr <> None then ["header-hidden"] else [])
      @ (if fault then ["entry-fault"] else [])
      @ (if sig_sane then [] else ["verdict-unexpected"]) in
    match p.thr_opt with
    | None ->
      let fl = faults_of p.flags in
      let (r, eff) = handle_commit_f fl chain auths p.setid has p.hf m in
      (* HasFinalisedBlock is asked once, for (commit round, current set id), unless the target check failed;
         SetPrecommits is called with (commit round, commit set id, every listed precommit) *)
      let has_args = (match r with
        | FRes HNoTargetHeader | FRes HTargetNum -> "-"
        | _ -> hex_of_n p.round ^ ":" ^ hex_of_n p.setid) in
      let store_args = (match eff.stored with
        | Some (rd, sid) -> hex_of_n rd ^ ":" ^ hex_of_n sid ^ ":" ^ Printf.sprintf "%x" (List.length m.cm_precommits)
        | None -> "-") in
      let model = String.concat " " [fres_str r; eff_str eff; has_args; store_args] in
      let (rp, effp) = handle_commit_prefix chain auths p.setid has p.hf m in
      let prefix = hres_str rp ^ " " ^ eff_str effp in
      let observed = String.concat " " [ores; onfin; ofin; ostored; otracked; ohas; ostore] in
      let observed_short = String.concat " " [ores; onfin; ofin; ostored; otracked] in
      let fin = (match int_of_n (n_of_hex onfin), String.split_on_char ':' ofin with
        | 0, _ -> Some []
        | 1, [a; b; c] when a <> "?" -> Some [((n_of_hex a, n_of_hex b), n_of_hex c)]
        | _ -> None) in
      let prop = (match fin with
        | Some l -> prop_holds chain auths p.setid m has (ores = "ok") l
        | None -> false) in
      let guard = at_threshold chain auths m in
      (* the class of the former finding (exactly floor(2n/3) backers accepted): repaired by
         fixes/C18-3-commit-threshold-strict.patch; the slug is still attached so that a tree
         without that patch is reported under its name *)
      let finding = if (not prop) && guard && onfin = "1" then "commit-threshold-not-strict" else "-" in
      let eq = (model = observed) && sig_sane in
      let reached = (match r with FRes HAccepted | FRes (HRejected EMinVotes) | FFinErr | FStoreErr -> true | _ -> false) in
      let rtag = (match r with FRes HAlreadyFinalised -> "res-ok-noop" | _ -> "res-" ^ fres_str r) in
      { prop_ok = prop; model_eq = eq; nontrivial = reached && ents <> [];
        finding;
        tags = String.concat "," (common_tags @ [rtag]
                                  @ (if p.flags land 30 <> 0 then ["collaborator-failure-injected"] else [])
                                  @ (if guard then ["exactly-threshold-backers"] else []));
        detail = (if prop && eq then "" else
                    Printf.sprintf "model=[%s] prefix-model=[%s] backers=%s threshold=%s n=%d%s%s" model prefix
                      (hex_of_n cnt) (hex_of_n thr) (List.length auths)
                      (if p.flags land 30 = 0 && p.nohdr = None && observed_short = prefix && prefix <> fres_str r ^ " " ^ eff_str eff
                       then " (implementation behaves as the pre-fix code)" else "")
                      (if sig_sane then "" else " (recorded ed25519 verdicts are not the expected ones)")) }
    | Some t ->
      let r = verify_commit chain auths p.setid t p.hf m in
      let model = res_str r in
      let prefix = res_str (verify_commit_prefix chain auths p.setid t p.hf m) in
      (* C18_verify_iff: success needs more than thr distinct backers *)
      let prop = (ores <> "ok") || (N.compare t cnt = Lt) in
      let eq = (model = ores) && sig_sane in
      let reached = (match r with ROk _ | RErr EMinVotes -> true | _ -> false) in
      { prop_ok = prop; model_eq = eq; nontrivial = reached && ents <> [];
        finding = (if (not prop) && N.compare t cnt = Eq then "commit-threshold-not-strict" else "-");
        tags = String.concat "," (common_tags @ ["res-" ^ model]);
        detail = (if prop && eq then "" else
                    Printf.sprintf "model=[%s] prefix-model=[%s] backers=%s threshold=%s n=%d%s" model prefix
                      (hex_of_n cnt) (hex_of_n t) (List.length auths)
                      (if ores = prefix && ores <> model then " (implementation behaves as the pre-fix code)" else "")) }
  end

(* vm_compute cross-check: the model's answer recomputed inside Coq (C18/VmCheck.v) and compared
   with the implementation's observables *)
let coq_list f l = "[" ^ String.concat "; " (List.map f l) ^ "]"
let coq_opt f = function None -> "None" | Some x -> "(Some " ^ f x ^ ")"
let coq_bool b = if b then "true" else "false"
let coq inp obs =
  if String.length inp > 8 && String.sub inp 0 8 = "payload " then None else
  let p = parse inp in
  match split_ws obs with
  | [ores; onfin; ofin; ostored; otracked; g; _; _] when List.length (parse_bits g) = List.length p.ents ->
    let m = commit_of_case p (parse_bits g) in
    let auths = seqn 0 p.n @ p.extra in
    let vote v = Printf.sprintf "(mkVote %s %s)" (coq_n v.v_hash) (coq_n v.v_num) in
    let cm = Printf.sprintf "(mkCommit %s %s %s %s %s)" (coq_n m.cm_round) (coq_n m.cm_setid) (vote m.cm_vote)
        (coq_list vote m.cm_precommits)
        (coq_list (fun a -> Printf.sprintf "(mkAuth %s %s %s)" (coq_n a.a_key) (coq_n a.a_sig) (coq_bool a.a_ok)) m.cm_authdata) in
    let chain = Printf.sprintf "(tree_chain_h %s %s %s %s)" (coq_n p.base) (coq_list coq_n p.parents)
        (coq_opt coq_n p.badstart) (coq_opt coq_n p.nohdr) in
    (match p.thr_opt with
     | None ->
       let fl = faults_of p.flags in
       let fin = (match String.split_on_char ':' ofin with
         | [a; b; c] when a <> "?" -> Some (n_of_hex a, n_of_hex b, n_of_hex c) | _ -> None) in
       Some (Printf.sprintf "vm_handle (mkFaults %s %s %s %s) %s %s %s %s %s %s %s %s %s %s %s"
               (coq_bool fl.f_has_err) (coq_bool fl.f_hf_err) (coq_bool fl.f_fin_err) (coq_bool fl.f_store_err)
               chain (coq_list coq_n auths) (coq_n p.setid) (coq_bool (p.flags land 1 <> 0)) (coq_n p.hf) cm
               (coq_n (n_of_int (code_of_res ores))) (coq_n (n_of_hex onfin))
               (coq_opt (fun (a, b, c) -> Printf.sprintf "(%s, %s, %s)" (coq_n a) (coq_n b) (coq_n c)) fin)
               (coq_n (n_of_hex ostored)) (coq_n (n_of_hex otracked)))
     | Some t ->
       Some (Printf.sprintf "vm_verify %s %s %s %s %s %s %s" chain (coq_list coq_n auths) (coq_n p.setid) (coq_n t)
               (coq_n p.hf) cm (coq_n (n_of_int (code_of_res ores)))))
  | _ -> None

let () = run_driver ~coq check
