(* C01 driver: for every Hash() observation of a put/delete history, compares the Go root with
   (a) spec_root_bytes of the finite map the history denotes  -> prop_ok  (the predicate of C01_root_spec)
   (b) trie_root of the model trie after the history            -> model_eq
   H is the extracted Gallina BLAKE2b-256.  When the model trie is structurally the canonical trie
   of the map (always, by the theorem) the hash is computed once. *)
open Model
open Vutil

let parse_op s = match String.split_on_char ':' s with
  | ["P"; k; v] -> Some (Put (bytes_of_hex k, bytes_of_hex v))
  | ["D"; k] -> Some (Del (bytes_of_hex k))
  | ["H"] -> None
  | _ -> fail "C01: bad op %s" s

let ver_of s = if s = "1" then V1 else V0

let roots ver (ops : op list) =
  let t = run ops in
  let m = map_of ops in
  let st = build_trie (kv_of_bmap m) in
  let sr = hex_of_bytes (trie_root blake2b_256 ver st) in
  let mr = if t = st then sr else hex_of_bytes (trie_root blake2b_256 ver t) in
  (mr, sr, t = st)

let rec take n l = if n <= 0 then [] else match l with [] -> [] | x :: r -> x :: take (n - 1) r

let check inp obs =
  let got = if obs = "()" then [] else split_ws obs in
  match split_ws inp with
  | "root" :: v :: opstrs ->
    let ver = ver_of v in
    let has_commit = List.mem "W" opstrs in
    let opstrs = List.filter (fun s -> s <> "W") opstrs in
    let parsed = List.map parse_op opstrs in
    (* histories at each H *)
    let hist = ref [] and acc = ref [] in
    List.iter (function Some o -> acc := o :: !acc | None -> hist := List.rev !acc :: !hist) parsed;
    let hist = List.rev !hist in
    let res = List.map (roots ver) hist in
    let all_ops = List.rev !acc in
    let model = List.map (fun (m, _, _) -> m) res and spec = List.map (fun (_, s, _) -> s) res in
    let canon = List.for_all (fun (_, _, c) -> c) res in
    let prop = (got = spec) and eq = (got = model) in
    let pinned_eq =
      if eq then (run_pinned all_ops = run all_ops) else
      (List.map (fun h -> hex_of_bytes (trie_root blake2b_256 ver (run_pinned h))) hist = got) in
    let guard = hits_delete_exhausted None all_ops in
    let ndel = List.length (List.filter (function Del _ -> true | _ -> false) all_ops) in
    let nkeys = List.length (map_of all_ops) in
    let tags = ["root-v" ^ v; (if ndel > 0 then "with-delete" else "puts-only");
                (if canon then "model-canonical" else "model-noncanonical");
                (if pinned_eq then "pinned-eq" else "pinned-differs");
                (if nkeys = 0 then "final-empty" else if nkeys < 4 then "final-1-3" else "final-4+");
                (if List.length hist > 1 then "intermediate-hash" else "single-hash");
                (if has_commit then "with-commit" else "no-commit")]
               @ (if guard then ["guard-delete-exhausted"] else []) in
    { prop_ok = prop; model_eq = eq; nontrivial = (List.length all_ops >= 2);
      finding = (if (not prop) && guard then "delete-exhausted-key" else "-");
      tags = String.concat "," tags;
      detail = (if prop && eq then "" else
                Printf.sprintf "go=%s spec=%s model=%s" (String.concat "," got) (String.concat "," spec) (String.concat "," model)) }
  | "layout" :: v :: kvs ->
    let ver = ver_of v in
    let es = List.map (fun s -> match String.split_on_char '=' s with
      | [k; x] -> (bytes_of_hex k, bytes_of_hex x) | _ -> fail "C01: bad entry %s" s) kvs in
    let (m, s, c) = roots ver (layout_ops es) in
    { prop_ok = (got = [s]); model_eq = (got = [m]); nontrivial = (List.length es >= 2); finding = "-";
      tags = "layout-v" ^ v ^ (if c then ",model-canonical" else ",model-noncanonical");
      detail = (if got = [s] && got = [m] then "" else Printf.sprintf "go=%s spec=%s model=%s" (String.concat "," got) s m) }
  | ["genesis"; chain; kvs] ->
    (* known-answer anchor: spec root of the shipped genesis state, then the genesis header hash *)
    let es = List.map (fun s -> match String.split_on_char '=' s with
      | [k; x] -> (bytes_of_hex k, bytes_of_hex x) | _ -> fail "C01: bad entry") (String.split_on_char ',' kvs) in
    let (m, s, c) = roots V0 (layout_ops es) in
    let zero32 = List.init 32 (fun _ -> byte_of_int 0) in
    let empty_root = trie_root blake2b_256 V0 None in
    let header = zero32 @ [byte_of_int 0] @ bytes_of_hex s @ empty_root @ [byte_of_int 0] in
    let gh = hex_of_bytes (blake2b_256 header) in
    let known = (match chain with
      | "kusama" -> Some "b0a8d493285c2df73290dfb7e61f870f17b41801197a149ca93654499ea3dafe"   (* quoted in lib/runtime/wazero/instance_test.go *)
      | "westend" -> Some "e143f23803ac50e8f6f8e62695d1ce9e4e1d68aa36c1cd2cfd15340213f3423e"  (* public constant, from memory *)
      | "paseo" -> Some "77afd6190f1554ad45fd0d31aee62aacc33c6db0ea801129acb813f913e0764f"    (* public constant, from memory *)
      | _ -> None) in
    let kat_ok = (match known with Some k -> k = gh | None -> true) in
    (* a constant written from memory that does not match is reported in the tags, not as a failure *)
    let strict = (chain = "kusama") in
    { prop_ok = (got = [s]) && (kat_ok || not strict); model_eq = (got = [m]); nontrivial = true; finding = "-";
      tags = "genesis-" ^ chain ^ (if kat_ok then ",genesis-hash-matches" else ",genesis-hash-differs")
             ^ (if c then ",model-canonical" else ",model-noncanonical");
      detail = (if got = [s] && got = [m] && kat_ok then "" else
                Printf.sprintf "go=%s spec=%s model=%s genesis-hash=%s" (String.concat "," got) s m gh) }
  | _ -> fail "C01: bad input %s" inp

(* the genesis states carry a 1 MB value: the list functions of the extracted model need a deep
   stack, so the driver re-executes itself once with the stack limit raised *)
let () =
  if Sys.getenv_opt "VERIF_BIG_STACK" = None then begin
    let cmd = Printf.sprintf
      "ulimit -s unlimited 2>/dev/null || ulimit -s 4000000 2>/dev/null; VERIF_BIG_STACK=1 exec %s"
      (Filename.quote Sys.executable_name) in
    exit (Sys.command cmd)
  end else run_driver check
