(* C01 driver: for every Hash() observation of a put/delete history, compares the Go root with
   (a) spec_root_bytes of the finite map the history denotes  -> prop_ok  (the predicate of C01_root_spec)
   (b) trie_root of the model trie after the history            -> model_eq
   H is the extracted Gallina BLAKE2b-256.  When the model trie is structurally the canonical trie
   of the map (always, by the theorem) the hash is computed once. *)
open Model
open Vutil

let parse_op s = match String.split_on_char ':' s with
  | ["P"; k; v] -> Some (Put (bytes_of_hex k, bytes_of_hex v))
  | ["D"; k] -> Some (Del (bytes_of_hex k))
  | ["H"] -> None
  | _ -> fail "C01: bad op %s" s

let ver_of s = if s = "1" then V1 else V0

let roots ver (ops : op list) =
  let t = run ops in
  let m = map_of ops in
  let st = build_trie (kv_of_bmap m) in
  let sr = hex_of_bytes (trie_root blake2b_256 ver st) in
  let mr = if t = st then sr else hex_of_bytes (trie_root blake2b_256 ver t) in
  (mr, sr, t = st)

let rec take n l = if n <= 0 then [] else match l with [] -> [] | x :: r -> x :: take (n - 1) r

(* ---------------- coverage of the encoder's case splits (tags only) ----------------
   walks the model trie at the last Hash(): node variant x partial-key length relative to the header
   escape (below / at / above the mask, at or above mask+255), encoded length of every child around the
   32-byte inline threshold, SCALE length mode of inlined values, children indices used *)
let cover_trie ver (t : trie) : string list =
  let tags = ref [] in
  let add s = if not (List.mem s !tags) then tags := s :: !tags in
  let pkclass mask n =
    if n < mask then (if n = mask - 1 then "pk=mask-1" else "pk<mask")
    else if n = mask then "pk=mask" else if n = mask + 1 then "pk=mask+1"
    else if n < mask + 254 then "pk>mask" else if n <= mask + 256 then "pk~mask+255" else "pk>>mask" in
  let vmode v = let l = List.length v in
    if must_be_hashed ver v then "val-hashed" else if l = 0 then "val-empty" else if l < 64 then "val-len1"
    else if l < 16384 then "val-len2" else "val-len4" in
  let rec go is_root (n : tnode) =
    (match n with
     | Leaf (pk, v) ->
       let h = must_be_hashed ver v in
       add ((if h then "enc:leaf-hashed:" ^ pkclass 31 (List.length pk) else "enc:leaf:" ^ pkclass 63 (List.length pk)));
       add ("enc:" ^ vmode v)
     | Branch (pk, ov, cs) ->
       (match ov with
        | None -> add ("enc:branch:" ^ pkclass 63 (List.length pk))
        | Some v ->
          add ((if must_be_hashed ver v then "enc:branch-hashed:" ^ pkclass 15 (List.length pk)
                else "enc:branch-value:" ^ pkclass 63 (List.length pk)));
          add ("enc:" ^ vmode v));
       let used = List.length (List.filter (fun c -> c <> None) cs) in
       add (if used >= 9 then "enc:children>=9" else if used >= 3 then "enc:children3-8" else "enc:children<=2");
       List.iteri (fun i c -> match c with
         | Some ch ->
           if i >= 8 then add "enc:bitmap-high-byte" else add "enc:bitmap-low-byte";
           (match ch with
            | Leaf _ ->
              let l = List.length (enc blake2b_256 ver ch) in
              if l = 31 then add "enc:child=31" else if l = 32 then add "enc:child=32" else if l = 33 then add "enc:child=33"
              else if l < 31 then add "enc:child<31" else add "enc:child>33"
            | Branch _ -> add "enc:child-branch");
           go false ch
         | None -> ()) cs);
    if is_root then (match n with Leaf _ -> add "enc:root-leaf" | Branch _ -> add "enc:root-branch") in
  (match t with None -> add "enc:empty" | Some n -> go true n);
  !tags

let check inp obs =
  let got = if obs = "()" then [] else split_ws obs in
  match split_ws inp with
  | "root" :: v :: opstrs ->
    let ver = ver_of v in
    let has_commit = List.mem "W" opstrs in
    let has_snapshot = List.mem "S" opstrs in
    let opstrs = List.filter (fun s -> s <> "W" && s <> "S") opstrs in
    let parsed = List.map parse_op opstrs in
    (* histories at each H *)
    let hist = ref [] and acc = ref [] in
    List.iter (function Some o -> acc := o :: !acc | None -> hist := List.rev !acc :: !hist) parsed;
    let hist = List.rev !hist in
    let res = List.map (roots ver) hist in
    let all_ops = List.rev !acc in
    let model = List.map (fun (m, _, _) -> m) res and spec = List.map (fun (_, s, _) -> s) res in
    let canon = List.for_all (fun (_, _, c) -> c) res in
    let prop = (got = spec) and eq = (got = model) in
    let pinned_eq =
      if eq then (run_pinned all_ops = run all_ops) else
      (List.map (fun h -> hex_of_bytes (trie_root blake2b_256 ver (run_pinned h))) hist = got) in
    let guard = hits_delete_exhausted None all_ops in
    let ndel = List.length (List.filter (function Del _ -> true | _ -> false) all_ops) in
    let nkeys = List.length (map_of all_ops) in
    let tags = ["root-v" ^ v; (if ndel > 0 then "with-delete" else "puts-only");
                (if canon then "model-canonical" else "model-noncanonical");
                (if pinned_eq then "pinned-eq" else "pinned-differs");
                (if nkeys = 0 then "final-empty" else if nkeys < 4 then "final-1-3" else "final-4+");
                (if List.length hist > 1 then "intermediate-hash" else "single-hash");
                (if has_commit then "with-commit" else "no-commit")]
               @ (if has_snapshot then ["with-snapshot"] else [])
               @ (if guard then ["guard-delete-exhausted"] else [])
               @ cover_trie ver (run all_ops) in
    { prop_ok = prop; model_eq = eq; nontrivial = (List.length all_ops >= 2);
      finding = (if (not prop) && guard then "delete-exhausted-key" else "-");
      tags = String.concat "," tags;
      detail = (if prop && eq then "" else
                Printf.sprintf "go=%s spec=%s model=%s" (String.concat "," got) (String.concat "," spec) (String.concat "," model)) }
  | "layout" :: v :: kvs ->
    let ver = ver_of v in
    let es = List.map (fun s -> match String.split_on_char '=' s with
      | [k; x] -> (bytes_of_hex k, bytes_of_hex x) | _ -> fail "C01: bad entry %s" s) kvs in
    let (m, s, c) = roots ver (layout_ops es) in
    { prop_ok = (got = [s]); model_eq = (got = [m]); nontrivial = (List.length es >= 2); finding = "-";
      tags = "layout-v" ^ v ^ (if c then ",model-canonical" else ",model-noncanonical");
      detail = (if got = [s] && got = [m] then "" else Printf.sprintf "go=%s spec=%s model=%s" (String.concat "," got) s m) }
  | ["genesis"; chain; kvs] ->
    (* known-answer anchor: spec root of the shipped genesis state, then the genesis header hash *)
    let es = List.map (fun s -> match String.split_on_char '=' s with
      | [k; x] -> (bytes_of_hex k, bytes_of_hex x) | _ -> fail "C01: bad entry") (String.split_on_char ',' kvs) in
    let (m, s, c) = roots V0 (layout_ops es) in
    let zero32 = List.init 32 (fun _ -> byte_of_int 0) in
    let empty_root = trie_root blake2b_256 V0 None in
    let header = zero32 @ [byte_of_int 0] @ bytes_of_hex s @ empty_root @ [byte_of_int 0] in
    let gh = hex_of_bytes (blake2b_256 header) in
    let known = (match chain with
      | "kusama" -> Some "b0a8d493285c2df73290dfb7e61f870f17b41801197a149ca93654499ea3dafe"   (* quoted in lib/runtime/wazero/instance_test.go *)
      | "westend" -> Some "e143f23803ac50e8f6f8e62695d1ce9e4e1d68aa36c1cd2cfd15340213f3423e"  (* public constant, from memory *)
      | "paseo" -> Some "77afd6190f1554ad45fd0d31aee62aacc33c6db0ea801129acb813f913e0764f"    (* public constant, from memory *)
      | _ -> None) in
    let kat_ok = (match known with Some k -> k = gh | None -> true) in
    (* a constant written from memory that does not match is reported in the tags, not as a failure *)
    let strict = (chain = "kusama") in
    { prop_ok = (got = [s]) && (kat_ok || not strict); model_eq = (got = [m]); nontrivial = true; finding = "-";
      tags = "genesis-" ^ chain ^ (if kat_ok then ",genesis-hash-matches" else ",genesis-hash-differs")
             ^ (if c then ",model-canonical" else ",model-noncanonical");
      detail = (if got = [s] && got = [m] && kat_ok then "" else
                Printf.sprintf "go=%s spec=%s model=%s genesis-hash=%s" (String.concat "," got) s m gh) }
  | _ -> fail "C01: bad input %s" inp

(* vm_compute cross-check of the extraction: the roots of a history recomputed inside Coq (model and,
   when the driver found the property to hold, specification) and compared with the Go roots *)
let coq inp obs =
  match split_ws inp with
  | "root" :: v :: opstrs when String.length inp < 6000 ->
    let got = if obs = "()" then [] else split_ws obs in
    if List.exists (fun g -> g = "err" || g = "panic") got then None else begin
      let opstrs = List.filter (fun s -> s <> "W" && s <> "S") opstrs in
      let coq_op = function
        | Put (k, x) -> Printf.sprintf "Put %s %s" (coq_bytes k) (coq_bytes x)
        | Del k -> "Del " ^ coq_bytes k in
      let n = ref 0 and hs = ref [] and ops = ref [] in
      List.iter (fun s -> match parse_op s with
        | Some o -> ops := o :: !ops; incr n
        | None -> hs := !n :: !hs) opstrs;
      let hs = List.rev !hs and ops = List.rev !ops in
      if List.length hs <> List.length got then None else begin
        let verd = check inp obs in
        let vs = if v = "1" then "V1" else "V0" in
        let terms = List.map2 (fun k g ->
          Printf.sprintf "(Bool.eqb (bytes_eqb (root blake2b_256 %s (firstn %d ops)) %s) %s) && (Bool.eqb (bytes_eqb (spec blake2b_256 %s (firstn %d ops)) %s) %s)"
            vs k (coq_bytes (bytes_of_hex g)) (if verd.model_eq then "true" else "false")
            vs k (coq_bytes (bytes_of_hex g)) (if verd.prop_ok then "true" else "false")) hs got in
        (* the per-H expectations are exact only when the whole case agrees or disagrees; render the
           agreeing cases and the single-hash cases *)
        if (verd.model_eq && verd.prop_ok) || List.length hs = 1 then
          Some (Printf.sprintf "let ops := [%s] in %s" (String.concat "; " (List.map coq_op ops)) (String.concat " && " terms))
        else None
      end
    end
  | _ -> None

(* the genesis states carry a 1 MB value: the list functions of the extracted model need a deep
   stack, so the driver re-executes itself once with the stack limit raised *)
let () =
  if Sys.getenv_opt "VERIF_BIG_STACK" = None then begin
    let cmd = Printf.sprintf
      "ulimit -s unlimited 2>/dev/null || ulimit -s 4000000 2>/dev/null; VERIF_BIG_STACK=1 exec %s %s"
      (Filename.quote Sys.executable_name)
      (String.concat " " (List.map Filename.quote (List.tl (Array.to_list Sys.argv)))) in
    exit (Sys.command cmd)
  end else run_driver ~coq check
