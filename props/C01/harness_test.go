// C01 correspondence harness (injected into package pkg/trie/inmemory by `go test -overlay`).
//
// input:   root <ver:0|1> <op> <op> ...     fresh trie, SetVersion(ver), ops in order
//   op :=  P:<key>:<value>   Put          (no observable)
//          D:<key>           Delete       (no observable)
//          H                 Hash()       -> <32-byte root hex>
//          W                 WriteDirty(batcher): commits the trie, every node becomes clean and keeps its
//                            cached Merkle value (no observable; no effect on the content)
//          S                 tr = tr.Snapshot(): the history continues on the snapshot (next generation), so
//                            every later mutation goes through the copy-on-write branch of prepForMutation and
//                            finds clean nodes with cached Merkle values (no observable; no effect on the content)
//          (every case ends with H; W followed by further Put/Delete/H exercises the Dirty/MerkleValue cache)
//          layout <ver:0|1> <key>=<value> ...   trie.V<ver>.Root(NewEmptyTrie(), entries) -> <root hex>
//   keys/values are hex, "-" = empty.
// observed: the roots, one token per H, separated by spaces ("err"/"panic" end the case).
package inmemory

import (
	"encoding/hex"
	"encoding/json"
	"fmt"
	"os"
	"sort"
	"strings"
	"testing"

	"github.com/ChainSafe/gossamer/internal/database"
	vu "github.com/ChainSafe/gossamer/internal/verifutil"
	"github.com/ChainSafe/gossamer/lib/common"
	"github.com/ChainSafe/gossamer/pkg/trie"
)

// a throw-away database.Batch: WriteDirty only needs somewhere to put the encoded nodes
type c01Batch struct{ n int }

func (b *c01Batch) Put(_, v []byte) error { b.n += len(v); return nil }
func (b *c01Batch) Del(_ []byte) error    { return nil }
func (b *c01Batch) Flush() error          { return nil }
func (b *c01Batch) Close() error          { return nil }
func (b *c01Batch) ValueSize() int        { return b.n }
func (b *c01Batch) Reset()                { b.n = 0 }

type c01Batcher struct{}

func (c01Batcher) NewBatch() database.Batch { return &c01Batch{} }

func c01Run(in string) (out string) {
	f := strings.Split(in, " ")
	if len(f) < 2 {
		return "err:badinput"
	}
	ver := trie.V0
	if f[1] == "1" {
		ver = trie.V1
	}
	toks := []string{}
	defer func() {
		if p := recover(); p != nil {
			toks = append(toks, "panic")
			out = strings.Join(toks, " ")
		}
	}()
	switch f[0] {
	case "root":
		tr := NewEmptyTrie()
		tr.SetVersion(ver)
		for _, op := range f[2:] {
			g := strings.Split(op, ":")
			switch g[0] {
			case "P":
				if err := tr.Put(vu.UnHex(g[1]), vu.UnHex(g[2])); err != nil {
					toks = append(toks, "err")
					return strings.Join(toks, " ")
				}
			case "D":
				if err := tr.Delete(vu.UnHex(g[1])); err != nil {
					toks = append(toks, "err")
					return strings.Join(toks, " ")
				}
			case "W":
				if err := tr.WriteDirty(c01Batcher{}); err != nil {
					toks = append(toks, "err")
					return strings.Join(toks, " ")
				}
			case "S":
				tr = tr.Snapshot()
			case "H":
				h, err := tr.Hash()
				if err != nil {
					toks = append(toks, "err")
					return strings.Join(toks, " ")
				}
				toks = append(toks, vu.Hex(h[:]))
			}
		}
	case "layout":
		entries := trie.Entries{}
		for _, kv := range f[2:] {
			g := strings.Split(kv, "=")
			entries = append(entries, trie.Entry{Key: vu.UnHex(g[0]), Value: vu.UnHex(g[1])})
		}
		h, err := ver.Root(NewEmptyTrie(), entries)
		if err != nil {
			return "err"
		}
		toks = append(toks, vu.Hex(h[:]))
	default:
		return "err:badinput"
	}
	if len(toks) == 0 {
		return "()"
	}
	return strings.Join(toks, " ")
}

// ---- generator ----
var c01Alphabet = []byte{0x00, 0x01, 0x10, 0x1f, 0xf0, 0xff}
var c01ValueLens = []int{0, 1, 2, 3, 26, 27, 28, 29, 30, 31, 32, 33, 34, 64, 100}

type c01Gen struct {
	r    *vu.RNG
	keys map[string]bool
	long []byte // base of the long-key family of this case
	wide bool   // short keys over all 256 byte values instead of the six-letter alphabet
}

func (g *c01Gen) pick() ([]byte, bool) {
	if len(g.keys) == 0 {
		return nil, false
	}
	ks := make([]string, 0, len(g.keys))
	for k := range g.keys {
		ks = append(ks, k)
	}
	sort.Strings(ks)
	return []byte(ks[g.r.Intn(len(ks))]), true
}

func (g *c01Gen) key(longMode bool) []byte {
	r := g.r
	if longMode && r.Chance(1, 2) {
		// keys sharing a long prefix: partial keys of 62..66 and 317..319 nibbles
		ns := []int{31, 32, 33, 34, 158, 159, 160}
		n := ns[r.Intn(len(ns))]
		k := append([]byte{}, g.long[:n]...)
		switch r.Intn(3) {
		case 0:
			k[n-1] ^= byte(1 + r.Intn(255)) // diverge in the last byte
		case 1:
			k[n-1] ^= 0x10 << uint(r.Intn(4)) // diverge in the high nibble of the last byte
		}
		return k
	}
	switch r.Intn(10) {
	case 0:
		return []byte{}
	case 1:
		if k, ok := g.pick(); ok {
			return k
		}
	case 2:
		if k, ok := g.pick(); ok {
			return append(append([]byte{}, k...), c01Alphabet[r.Intn(len(c01Alphabet))])
		}
	case 3:
		if k, ok := g.pick(); ok && len(k) > 0 {
			return append([]byte{}, k[:r.Intn(len(k))]...)
		}
	}
	n := r.Intn(4)
	k := make([]byte, n)
	for i := range k {
		if g.wide {
			k[i] = byte(r.Intn(256)) // every child index and bitmap bit
		} else {
			k[i] = c01Alphabet[r.Intn(len(c01Alphabet))]
		}
	}
	return k
}

// risky: a Delete in the known-finding class delete-exhausted-key (superset): an absent key that is
// a proper prefix of a stored key
func (g *c01Gen) risky(k []byte) bool {
	if g.keys[string(k)] {
		return false
	}
	for s := range g.keys {
		if len(s) > len(k) && strings.HasPrefix(s, string(k)) {
			return true
		}
	}
	return false
}

// c01PkCase builds a trie that has a node of a chosen kind whose partial key has exactly [l] nibbles:
// kind 0 = leaf, 1 = branch with a value, 2 = branch without a value; the values are long (hashed in
// version 1) or short.  [l] is taken around the three header length escapes (63 for the plain variants,
// 31 for a leaf with a hashed value, 15 for a branch with a hashed value) and around escape + 255.
// A few deletes then merge / split the node again (handleDeletion with long partial keys).
func c01PkCase(r *vu.RNG) string {
	ls := []int{13, 14, 15, 16, 17, 29, 30, 31, 32, 33, 61, 62, 63, 64, 65, 269, 270, 271, 285, 286, 287, 317, 318, 319}
	l := ls[r.Intn(len(ls))]
	kind := r.Intn(3)
	ver := 1
	if r.Chance(1, 4) {
		ver = 0
	}
	val := func() string {
		if r.Chance(2, 3) {
			return vu.Hex(r.Bytes(33 + r.Intn(3)))
		}
		return vu.Hex(r.Bytes(c01ValueLens[r.Intn(len(c01ValueLens))]))
	}
	var b strings.Builder
	fmt.Fprintf(&b, "root %d", ver)
	// a key of n nibbles as bytes needs n even; an odd partial key is obtained below a root branch
	// (one nibble is the child index)
	switch kind {
	case 0:
		// leaf with partial key l: odd l -> two keys of (l+1)/2 bytes diverging in the first nibble;
		// even l -> two keys of (l+2)/2 bytes sharing the first nibble and diverging in the second
		n := (l + 2) / 2
		k1 := r.Bytes(n)
		k2 := r.Bytes(n)
		if l%2 == 1 {
			k1[0] = k1[0]&0x0f | 0x10
			k2[0] = k2[0]&0x0f | 0x20
		} else {
			k1[0] = 0x31
			k2[0] = 0x32
		}
		fmt.Fprintf(&b, " P:%s:%s P:%s:%s H", vu.Hex(k1), val(), vu.Hex(k2), val())
		if r.Chance(1, 2) {
			fmt.Fprintf(&b, " W P:%s:%s H D:%s H", vu.Hex(k1), val(), vu.Hex(k2))
		}
	default:
		// branch with partial key l: even l -> the branch is the root, its key A has l/2 bytes;
		// odd l -> A has (l+1)/2 bytes and a sibling key diverging in the first nibble makes A's node a child
		n := (l + 1) / 2
		a := r.Bytes(n)
		if l%2 == 1 {
			a[0] = a[0]&0x0f | 0x10
			sib := r.Bytes(1 + r.Intn(2))
			sib[0] = sib[0]&0x0f | 0x20
			fmt.Fprintf(&b, " P:%s:%s", vu.Hex(sib), val())
		}
		c1 := append(append([]byte{}, a...), 0x01)
		c2 := append(append([]byte{}, a...), 0x12)
		if kind == 1 {
			fmt.Fprintf(&b, " P:%s:%s", vu.Hex(a), val())
		}
		fmt.Fprintf(&b, " P:%s:%s P:%s:%s H", vu.Hex(c1), val(), vu.Hex(c2), val())
		switch r.Intn(4) {
		case 0:
			fmt.Fprintf(&b, " W D:%s H", vu.Hex(c1)) // merge with the last child / turn into a leaf
		case 1:
			fmt.Fprintf(&b, " S D:%s H D:%s H", vu.Hex(c2), vu.Hex(c1))
		case 2:
			if kind == 1 {
				fmt.Fprintf(&b, " W D:%s H P:%s:%s H", vu.Hex(a), vu.Hex(a), val())
			}
		}
	}
	if !strings.HasSuffix(b.String(), " H") {
		b.WriteString(" H")
	}
	return b.String()
}

func c01GenCase(r *vu.RNG) string {
	g := &c01Gen{r: r, keys: map[string]bool{}, long: r.Bytes(160)}
	longMode := r.Chance(1, 6)
	g.wide = r.Chance(1, 5)
	nops := 3 + r.Intn(14)
	if g.wide {
		nops += 10 // enough keys to fill many child slots
	}
	delPct := 20 + r.Intn(41)
	var b strings.Builder
	fmt.Fprintf(&b, "root %d", r.Intn(2))
	for i := 0; i < nops; i++ {
		if i > 1 && r.Intn(100) < delPct && r.Chance(1, 2) {
			var k []byte
			for try := 0; ; try++ {
				k = g.key(longMode)
				if r.Chance(1, 2) {
					if e, ok := g.pick(); ok {
						k = e
					}
				}
				if try >= 6 || !g.risky(k) || r.Chance(1, 10) {
					break
				}
			}
			delete(g.keys, string(k))
			fmt.Fprintf(&b, " D:%s", vu.Hex(k))
		} else {
			k := g.key(longMode)
			if r.Intn(100) < delPct/2 { // overwrite
				if e, ok := g.pick(); ok {
					k = e
				}
			}
			g.keys[string(k)] = true
			vl := c01ValueLens[r.Intn(len(c01ValueLens))]
			fmt.Fprintf(&b, " P:%s:%s", vu.Hex(k), vu.Hex(r.Bytes(vl)))
		}
		if r.Chance(1, 6) {
			b.WriteString(" H")
		}
		if r.Chance(1, 5) {
			b.WriteString(" W")
			if r.Chance(1, 3) {
				b.WriteString(" S")
			}
		}
	}
	b.WriteString(" H")
	return b.String()
}

func c01Generate(r *vu.RNG, n int, emit func(string)) {
	for _, s := range []string{
		"root 0 H",
		"root 1 H",
		"root 0 P:-:- H",
		"root 1 P:01:aa P:0102:bb P:0103:cc H D:0102 H D:0103 H D:01 H",
		"root 0 P:ab12:01 P:ac34:02 H D:ab H",
		"root 0 P:123456:01 P:123c56:02 H D:1c56 H",
		"root 1 P:0101:aa P:0102:bb W P:0103:cc H W D:0102 H W P:01:dd H",
		"layout 0 01=aa 0102=bb 01=cc",
		"layout 1 -=00 00=01",
		"root 1 P:0101:aa P:0102:bb H W S P:0103:cc H D:0101 H W S D:0102 H D:0103 H",
		// values whose SCALE length prefix takes two and four bytes (64, 16383, 16384 bytes), inlined in
		// version 0 and hashed in version 1
		"root 0 P:01:" + strings.Repeat("ab", 64) + " P:02:" + strings.Repeat("cd", 16383) + " P:0311:" + strings.Repeat("ef", 16384) + " H",
		"root 1 P:01:" + strings.Repeat("ab", 64) + " P:02:" + strings.Repeat("cd", 16383) + " P:0311:" + strings.Repeat("ef", 16384) + " H D:02 H",
	} {
		emit(s)
	}
	if vu.Thorough() {
		// exhaustive: every history of at most 3 operations (and a third of those of 4) over six keys
		// that share nibble prefixes, with a short value, a 33-byte value and delete
		keys := []string{"-", "10", "1000", "1001", "1f", "0f"}
		v33 := vu.Hex(make([]byte, 33))
		var ops []string
		for _, k := range keys {
			ops = append(ops, "P:"+k+":aa", "P:"+k+":"+v33, "D:"+k)
		}
		var rec func(prefix string, depth int)
		count := 0
		rec = func(prefix string, depth int) {
			if depth > 0 {
				count++
				if depth < 4 || count%3 == 0 {
					emit("root " + []string{"0", "1"}[count%2] + prefix + " H")
				}
			}
			if depth == 4 {
				return
			}
			for _, o := range ops {
				rec(prefix+" "+o, depth+1)
			}
		}
		rec("", 0)
	}
	for i := 0; i < n; i++ {
		if r.Chance(1, 12) {
			// layout.Root over an entry list with duplicates
			g := &c01Gen{r: r.Fork(), keys: map[string]bool{}, long: r.Bytes(160)}
			var b strings.Builder
			fmt.Fprintf(&b, "layout %d", r.Intn(2))
			for j := r.Intn(10); j > 0; j-- {
				k := g.key(false)
				g.keys[string(k)] = true
				fmt.Fprintf(&b, " %s=%s", vu.Hex(k), vu.Hex(g.r.Bytes(c01ValueLens[g.r.Intn(len(c01ValueLens))])))
			}
			emit(b.String())
			continue
		}
		if r.Chance(1, 5) {
			emit(c01PkCase(r.Fork()))
			continue
		}
		emit(c01GenCase(r.Fork()))
	}
}

func TestVerifC01(t *testing.T) { vu.Run(t, "C01", 1000, c01Generate, c01Run) }

// ---- known-answer anchor (thorough tier): the genesis states shipped in /repo/chain ----
// input:   genesis <chain> <key>=<value>,...    (the raw top-level genesis state, state version 0)
// observed: <state root hex>                     (LoadFromMap + Hash)
// The driver recomputes the root with the spec and hashes the genesis header built from it
// (parent 0, number 0, empty extrinsics root, empty digest) against the chain's public genesis hash.
func c01GenesisInput(chain string) (string, error) {
	raw, err := os.ReadFile("../../../chain/" + chain + "/chain-spec-raw.json")
	if err != nil {
		return "", err
	}
	var spec struct {
		Genesis struct {
			Raw struct {
				Top map[string]string `json:"top"`
			} `json:"raw"`
		} `json:"genesis"`
	}
	if err := json.Unmarshal(raw, &spec); err != nil {
		return "", err
	}
	keys := make([]string, 0, len(spec.Genesis.Raw.Top))
	for k := range spec.Genesis.Raw.Top {
		keys = append(keys, k)
	}
	sort.Strings(keys)
	parts := make([]string, 0, len(keys))
	for _, k := range keys {
		kb := common.MustHexToBytes(k)
		vb := common.MustHexToBytes(spec.Genesis.Raw.Top[k])
		parts = append(parts, vu.Hex(kb)+"="+vu.Hex(vb))
	}
	return "genesis " + chain + " " + strings.Join(parts, ","), nil
}

func c01GenesisRun(in string) string {
	f := strings.SplitN(in, " ", 3)
	if len(f) != 3 || f[0] != "genesis" {
		return "err:badinput"
	}
	data := map[string]string{}
	for _, kv := range strings.Split(f[2], ",") {
		g := strings.Split(kv, "=")
		data["0x"+hex.EncodeToString(vu.UnHex(g[0]))] = "0x" + hex.EncodeToString(vu.UnHex(g[1]))
	}
	tr, err := LoadFromMap(data, trie.V0)
	if err != nil {
		return "err"
	}
	h, err := tr.Hash()
	if err != nil {
		return "err"
	}
	return vu.Hex(h[:])
}

func TestVerifC01Genesis(t *testing.T) {
	vu.Run(t, "C01", 3, func(_ *vu.RNG, _ int, emit func(string)) {
		for _, c := range []string{"westend", "paseo", "kusama"} {
			in, err := c01GenesisInput(c)
			if err != nil {
				continue // chain spec not shipped in this tree
			}
			emit(in)
		}
	}, c01GenesisRun)
}
