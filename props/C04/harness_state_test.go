// C04 correspondence harness for dot/state (injected by `go test -overlay`): the same histories,
// inputs and observables as props/C04/harness_test.go, driven through
// InmemoryStorageState.StoreTrie / LoadFromDB / GetStorage (the in-memory copy of the trie is
// evicted from the Tries cache before LoadFromDB and before every GetStorage, so that the reads go
// to the database).  See props/C04/harness_test.go for the grammar.
package state

import (
	"bytes"
	"fmt"
	"sort"
	"strings"
	"sync"
	"testing"

	"github.com/ChainSafe/gossamer/internal/database"
	vu "github.com/ChainSafe/gossamer/internal/verifutil"
	"github.com/ChainSafe/gossamer/lib/common"
	"github.com/ChainSafe/gossamer/lib/runtime/storage"
	"github.com/ChainSafe/gossamer/pkg/scale"
	"github.com/ChainSafe/gossamer/pkg/trie"
	inmemory "github.com/ChainSafe/gossamer/pkg/trie/inmemory"
	"github.com/ChainSafe/gossamer/pkg/trie/node"
)
var c04probeOnce sync.Once
var c04probe string

func c04Probe() string {
	c04probeOnce.Do(func() {
		u, b, d := "0", "0", "0"
		var x []byte
		var y uint
		if err := scale.Unmarshal([]byte{0x02, 0x00, 0x01}, &y); err != nil {
			u = "1"
		}
		if err := scale.Unmarshal([]byte{0x08, 0x01}, &x); err != nil {
			b = "1"
		}
		func() {
			defer func() { recover() }()
			if _, err := node.Decode(bytes.NewReader([]byte{1})); err != nil {
				d = "1"
			}
		}()
		c04probe = "p" + u + b + d
	})
	return c04probe
}

func c04nib(b []byte) string {
	if len(b) == 0 {
		return "-"
	}
	var sb strings.Builder
	for _, x := range b {
		if x < 16 {
			sb.WriteByte("0123456789abcdef"[x])
		} else {
			fmt.Fprintf(&sb, "<%02x>", x)
		}
	}
	return sb.String()
}

func c04tree(sb *strings.Builder, n *node.Node) {
	if n == nil {
		sb.WriteString(" _")
		return
	}
	sb.WriteString(" N " + c04nib(n.PartialKey) + " ")
	if n.StorageValue == nil {
		sb.WriteString("none")
	} else {
		sb.WriteString(vu.Hex(n.StorageValue))
	}
	switch {
	case n.IsHashedValue:
		sb.WriteString(" 2")
	case n.MustBeHashed:
		sb.WriteString(" 1")
	default:
		sb.WriteString(" 0")
	}
	if n.Dirty {
		sb.WriteString(" 1")
	} else {
		sb.WriteString(" 0")
	}
	if n.Children == nil {
		sb.WriteString(" 0")
		return
	}
	sb.WriteString(" " + vu.X(uint64(len(n.Children))))
	for _, c := range n.Children {
		c04tree(sb, c)
	}
}

func c04rootOf(t *inmemory.InMemoryTrie) *node.Node {
	if t.MustHash() == trie.EmptyHash {
		return nil
	}
	return t.RootNode()
}

func c04root(sb *strings.Builder, n *node.Node) {
	if n == nil {
		sb.WriteString(" nil")
		return
	}
	c04tree(sb, n)
}

func c04entries(sb *strings.Builder, m map[string][]byte) {
	keys := make([]string, 0, len(m))
	for k := range m {
		keys = append(keys, k)
	}
	sort.Strings(keys)
	sb.WriteString(" E " + vu.X(uint64(len(keys))))
	for _, k := range keys {
		sb.WriteString(" " + vu.Hex([]byte(k)) + " " + vu.Hex(m[k]))
	}
}

func c04val(v []byte) string {
	if v == nil {
		return "nil"
	}
	return "v:" + vu.Hex(v)
}

// c04children returns the child tries sorted by root hash.
func c04children(t *inmemory.InMemoryTrie) []*inmemory.InMemoryTrie {
	type kv struct {
		h common.Hash
		t *inmemory.InMemoryTrie
	}
	var l []kv
	for h, c := range t.GetChildTries() {
		l = append(l, kv{h, c.(*inmemory.InMemoryTrie)})
	}
	sort.Slice(l, func(i, j int) bool { return bytes.Compare(l[i].h[:], l[j].h[:]) < 0 })
	out := make([]*inmemory.InMemoryTrie, len(l))
	for i := range l {
		out[i] = l[i].t
	}
	return out
}

func c04load(ss *InmemoryStorageState, root common.Hash) (res string) {
	defer func() {
		if p := recover(); p != nil {
			res = " panic"
		}
	}()
	ss.tries.delete(root)
	tr, err := ss.LoadFromDB(root)
	if err != nil {
		return " err"
	}
	lt := tr.(*inmemory.InMemoryTrie)
	var sb strings.Builder
	sb.WriteString(" ok ")
	if lt.MustHash() == trie.EmptyHash {
		sb.WriteString(vu.Hex(trie.EmptyHash[:]))
	} else {
		_, mv, err := lt.RootNode().EncodeAndHashRoot()
		if err != nil {
			return " err"
		}
		sb.WriteString(vu.Hex(mv))
	}
	c04entries(&sb, lt.Entries())
	cts := c04children(lt)
	sb.WriteString(" CT " + vu.X(uint64(len(cts))))
	for _, c := range cts {
		sb.WriteString(" " + vu.Hex(c.MustHash().ToBytes()))
		c04entries(&sb, c.Entries())
	}
	return sb.String()
}

func c04get(ss *InmemoryStorageState, root common.Hash, key []byte) (res string) {
	defer func() {
		if p := recover(); p != nil {
			res = "panic"
		}
	}()
	ss.tries.delete(root)
	v, err := ss.GetStorage(&root, key)
	if err != nil {
		return "err"
	}
	return c04val(v)
}

// c04probes: every present key and absent neighbours of it (prefixes, extensions, keys that
// diverge inside a partial key, keys that end at a child slot).
func c04probes(m map[string][]byte) [][]byte {
	seen := map[string]bool{}
	var out [][]byte
	add := func(k []byte) {
		if !seen[string(k)] && len(out) < 80 {
			seen[string(k)] = true
			out = append(out, append([]byte{}, k...))
		}
	}
	keys := make([]string, 0, len(m))
	for k := range m {
		keys = append(keys, k)
	}
	sort.Strings(keys)
	add([]byte{})
	for _, ks := range keys {
		add([]byte(ks))
	}
	// absent keys that leave a present key inside a branch partial key and re-join its path further
	// down: nibbles [0,j) ++ [e,len) of a present key, e-j even
	for n, ks := range keys {
		if n >= 4 {
			break
		}
		for _, k := range c04splices([]byte(ks), 10) {
			add(k)
		}
	}
	for _, ks := range keys {
		k := []byte(ks)
		for i := 1; i < len(k); i++ {
			add(k[:i])
		}
		add(append(append([]byte{}, k...), 0x00))
		add(append(append([]byte{}, k...), 0x10))
		if len(k) > 0 {
			for _, x := range []byte{0x01, 0x10, 0x0f, 0xf0} {
				c := append([]byte{}, k...)
				c[len(c)-1] ^= x
				add(c)
				c = append([]byte{}, k...)
				c[0] ^= x
				add(c)
				if len(k) > 1 {
					add(c[:len(c)-1])
				}
			}
		}
	}
	return out
}

// c04splices returns up to max keys made of the nibbles [0,j) ++ [e,len) of k with e-j even.
func c04splices(k []byte, max int) [][]byte {
	nib := make([]byte, 0, 2*len(k))
	for _, b := range k {
		nib = append(nib, b>>4, b&15)
	}
	if len(nib) > 24 {
		nib = nib[len(nib)-24:] // long keys: splice near the end, keep an even offset
	}
	pre := k[:len(k)-len(nib)/2]
	var out [][]byte
	for e := 2; e < len(nib) && len(out) < max; e++ {
		for j := e - 2; j >= 0 && len(out) < max; j -= 2 {
			if nib[j] == nib[e] {
				continue
			}
			sp := append(append([]byte{}, nib[:j]...), nib[e:]...)
			b := append([]byte{}, pre...)
			for i := 0; i+1 < len(sp); i += 2 {
				b = append(b, sp[i]<<4|sp[i+1])
			}
			out = append(out, b)
		}
	}
	return out
}

func c04Run(in string) string {
	f := strings.Split(in, " ")
	pdb, err := database.NewPebble("", true)
	if err != nil {
		return "db-error"
	}
	defer pdb.Close()
	table := database.NewTable(pdb, "storage")
	ss, err := NewStorageState(pdb, nil, NewTries())
	if err != nil {
		return "state-error"
	}

	t := inmemory.NewTrie(nil, table)
	if f[0] == "1" {
		t.SetVersion(trie.V1)
	}
	var sb strings.Builder
	sb.WriteString(c04Probe())
	type c04past struct {
		root common.Hash
		keys [][]byte
	}
	var past []c04past
	for _, op := range f[1:] {
		a := strings.Split(op, ":")
		switch a[0] {
		case "P":
			t.Put(vu.UnHex(a[1]), vu.UnHex(a[2]))
		case "D":
			t.Delete(vu.UnHex(a[1]))
		case "X":
			t.ClearPrefix(vu.UnHex(a[1]))
		case "CP":
			t.PutIntoChild(vu.UnHex(a[1]), vu.UnHex(a[2]), vu.UnHex(a[3]))
		case "CX":
			t.ClearFromChild(vu.UnHex(a[1]), vu.UnHex(a[2]))
		case "CD":
			t.DeleteChild(vu.UnHex(a[1]))
		case "U":
			t.SetVersion(trie.V1)
		case "N":
			t = t.Snapshot()
		case "S":
			root := t.MustHash()
			// the hash computation above caches Merkle values but leaves Dirty untouched
			sb.WriteString(" S T")
			c04root(&sb, c04rootOf(t))
			cts := c04children(t)
			sb.WriteString(" C " + vu.X(uint64(len(cts))))
			for _, c := range cts {
				c04root(&sb, c04rootOf(c))
			}
			sb.WriteString(" ME")
			entries := t.Entries()
			c04entries(&sb, entries)
			sb.WriteString(" MC " + vu.X(uint64(len(cts))))
			for _, c := range cts {
				sb.WriteString(" " + vu.Hex(c.MustHash().ToBytes()))
				c04entries(&sb, c.Entries())
			}
			sb.WriteString(" R " + vu.Hex(root[:]))
			if err := ss.StoreTrie(storage.NewTrieState(t), nil); err != nil {
				sb.WriteString(" W err")
			} else {
				sb.WriteString(" W ok")
			}
			// persisting must not change the in-memory state
			sb.WriteString(" MA")
			c04entries(&sb, t.Entries())
			// dump the table
			it, err := table.NewIterator()
			if err != nil {
				return "iter-error"
			}
			var kvs []string
			for it.First(); it.Valid(); it.Next() {
				kvs = append(kvs, vu.Hex(it.Key()[len("storage"):])+" "+vu.Hex(it.Value()))
			}
			it.Release()
			sort.Strings(kvs)
			sb.WriteString(" DB " + vu.X(uint64(len(kvs))))
			for _, kv := range kvs {
				sb.WriteString(" " + kv)
			}
			sb.WriteString(" L" + c04load(ss, root))
			probes := c04probes(entries)
			sb.WriteString(" G " + vu.X(uint64(len(probes))))
			for _, k := range probes {
				truth := "nil"
				if v, ok := entries[string(k)]; ok {
					truth = c04val(v)
					if v == nil {
						truth = "v:-"
					}
				}
				sb.WriteString(" " + vu.Hex(k) + " " + truth + " " + c04get(ss, root, k))
			}
			// the earlier block states of this history must still read back identically
			sb.WriteString(" HR " + vu.X(uint64(len(past))))
			for _, pr := range past {
				sb.WriteString(" " + vu.Hex(pr.root[:]) + c04load(ss, pr.root))
				sb.WriteString(" HG " + vu.X(uint64(len(pr.keys))))
				for _, k := range pr.keys {
					sb.WriteString(" " + vu.Hex(k) + " " + c04get(ss, pr.root, k))
				}
			}
			hk := probes
			if len(hk) > 6 {
				hk = hk[:6]
			}
			past = append(past, c04past{root: root, keys: hk})
			if len(past) > 3 {
				past = past[1:]
			}
			t = t.Snapshot()
		}
	}
	return sb.String()
}

// ---------------------------------------------------------------- generator

// c04key draws keys from a small alphabet so that partial keys, branches with values and
// inlined branches appear; nibble patterns 0x0? / 0x?0 exercise the zero-nibble corner.
func c04key(r *vu.RNG) []byte {
	l := 1 + r.Intn(3)
	if r.Chance(1, 8) {
		l = r.Intn(6)
	}
	b := make([]byte, l)
	alpha := []byte{0x00, 0x01, 0x10, 0x11, 0x12, 0x1f, 0xa0, 0xab, 0xff}
	for i := range b {
		b[i] = alpha[r.Intn(len(alpha))]
	}
	if r.Chance(1, 10) {
		// long keys with long common prefixes: partial keys of more than 63 and more than 318 nibbles
		pl := []int{31, 32, 33, 40, 159, 160, 161}[r.Intn(7)]
		p := make([]byte, pl)
		for i := range p {
			p[i] = byte(0x30 + i%7)
		}
		if r.Chance(1, 2) {
			p[pl-1] ^= 0x0f
		}
		b = append(p, b...)
	}
	return b
}

func c04value(r *vu.RNG, tiny bool) []byte {
	lens := []int{0, 1, 2, 3, 8, 20, 26, 27, 28, 29, 30, 31, 32, 33, 34, 40, 64}
	l := lens[r.Intn(len(lens))]
	if tiny {
		l = r.Intn(3)
	}
	if !tiny && r.Chance(1, 40) {
		l = []int{63, 65, 300, 16383, 16384, 16400}[r.Intn(6)]
	}
	b := r.Bytes(l)
	if r.Chance(1, 6) { // repeated values: equal hashed values under different keys
		for i := range b {
			b[i] = 0x77
		}
	}
	return b
}

func c04Gen(r *vu.RNG, n int, emit func(string)) {
	for i := 0; i < n; i++ {
		ver := r.Intn(2)
		tiny := r.Chance(1, 3) // tiny values: inlined leaves and inlined branches
		var ops []string
		var keys [][]byte
		ckeys := [][]byte{{0x63}, {0x63, 0x64}, {0x64}}
		blocks := 1 + r.Intn(4)
		withChild := r.Chance(1, 4)
		if withChild && r.Chance(1, 2) {
			// several child tries at once (a longer child key sorting before a shorter one)
			for _, ck := range ckeys {
				if r.Chance(3, 4) {
					ops = append(ops, "CP:"+vu.Hex(ck)+":"+vu.Hex(c04key(r))+":"+vu.Hex(c04value(r, tiny)))
				}
			}
		}
		if r.Chance(1, 6) {
			// a key with a hashed value, then (same or next block) a key extending it by 16..40 bytes:
			// the node of the first key becomes a branch whose partial key is a sub-slice of the second
			k1 := c04key(r)
			k2 := append(append([]byte{}, k1...), r.Bytes(16+r.Intn(25))...)
			ops = append(ops, "P:"+vu.Hex(k1)+":"+vu.Hex(r.Bytes(33+r.Intn(20))))
			if r.Chance(1, 2) {
				ops = append(ops, "S")
			}
			v2 := r.Bytes(1 + r.Intn(4))
			if r.Chance(1, 2) {
				v2 = r.Bytes(30 + r.Intn(20))
			}
			ops = append(ops, "P:"+vu.Hex(k2)+":"+vu.Hex(v2))
			keys = append(keys, k1, k2)
			if r.Chance(1, 2) {
				ops = append(ops, "S")
			}
		}
		if ver == 1 && r.Chance(1, 8) {
			// a V1 branch with a hashed value and two children whose value is deleted again: the
			// MustBeHashed flag stays on the value-less branch (WriteDirty stores partialKey||H(nil))
			k := c04key(r)
			k0 := append(append([]byte{}, k...), 0x00)
			k1 := append(append([]byte{}, k...), 0x10)
			ops = append(ops, "P:"+vu.Hex(k)+":"+vu.Hex(r.Bytes(33+r.Intn(10))),
				"P:"+vu.Hex(k0)+":"+vu.Hex(c04value(r, tiny)), "P:"+vu.Hex(k1)+":"+vu.Hex(c04value(r, tiny)))
			if r.Chance(1, 2) {
				ops = append(ops, "S")
			}
			ops = append(ops, "D:"+vu.Hex(k))
			keys = append(keys, k, k0, k1)
		}
		if r.Chance(1, 5) {
			// mutation paths between two stores: a branch whose children are persisted, then
			//  - Delete of one child so that the branch merges with the remaining one (handleDeletion),
			//  - ClearPrefix of a persisted subtree,
			//  - a Snapshot without a store in between (copy-on-write over never-persisted dirty nodes)
			k := c04key(r)
			sub := func(suffix ...byte) []byte { return append(append([]byte{}, k...), suffix...) }
			ka, kb, kc := sub(0x00), sub(0x10, 0x11), sub(0x10, 0x12)
			big := func() []byte { return r.Bytes(28 + r.Intn(12)) }
			ops = append(ops, "P:"+vu.Hex(ka)+":"+vu.Hex(big()), "P:"+vu.Hex(kb)+":"+vu.Hex(big()), "P:"+vu.Hex(kc)+":"+vu.Hex(c04value(r, tiny)))
			if r.Chance(3, 4) {
				ops = append(ops, "S")
			} else {
				ops = append(ops, "N")
			}
			switch r.Intn(4) {
			case 0:
				ops = append(ops, "D:"+vu.Hex(ka)) // the root of the group merges with its only child
			case 1:
				ops = append(ops, "D:"+vu.Hex(kb)) // the inner branch merges with the remaining leaf
			case 2:
				ops = append(ops, "X:"+vu.Hex(sub(0x10)))
			default:
				ops = append(ops, "N", "P:"+vu.Hex(kb)+":"+vu.Hex(big()), "D:"+vu.Hex(kc))
			}
			keys = append(keys, ka, kb, kc)
		}
		for b := 0; b < blocks; b++ {
			nops := 1 + r.Intn(6)
			if b == 0 {
				nops = 1 + r.Intn(10)
				if r.Chance(1, 12) {
					nops = 20 + r.Intn(25) // a big state: full branches, deeper paths
				}
			}
			if r.Chance(1, 12) {
				nops = 0
			}
			for j := 0; j < nops; j++ {
				switch c := r.Intn(20); {
				case c < 12:
					k := c04key(r)
					if len(keys) > 0 && r.Chance(1, 4) { // extend or overwrite an existing key
						k = append([]byte{}, keys[r.Intn(len(keys))]...)
						if r.Chance(1, 2) {
							k = append(k, c04key(r)...)
						}
					}
					keys = append(keys, k)
					ops = append(ops, "P:"+vu.Hex(k)+":"+vu.Hex(c04value(r, tiny)))
				case c < 15:
					if len(keys) > 0 {
						ops = append(ops, "D:"+vu.Hex(keys[r.Intn(len(keys))]))
					}
				case c < 16:
					if len(keys) > 0 {
						k := keys[r.Intn(len(keys))]
						ops = append(ops, "X:"+vu.Hex(k[:r.Intn(len(k)+1)]))
					}
				case c < 19:
					if withChild {
						ck := ckeys[r.Intn(len(ckeys))]
						ops = append(ops, "CP:"+vu.Hex(ck)+":"+vu.Hex(c04key(r))+":"+vu.Hex(c04value(r, tiny)))
					}
				default:
					if withChild {
						ck := ckeys[r.Intn(len(ckeys))]
						if r.Chance(1, 2) {
							ops = append(ops, "CX:"+vu.Hex(ck)+":"+vu.Hex(c04key(r)))
						} else {
							ops = append(ops, "CD:"+vu.Hex(ck))
						}
					}
				}
			}
			if ver == 0 && r.Chance(1, 10) {
				ops = append(ops, "U")
				ver = 1
			}
			ops = append(ops, "S")
		}
		emit(fmt.Sprintf("%d %s", ver0(ops, ver), strings.Join(ops, " ")))
	}
}

// ver0 returns the version the history starts with: 0 when it contains an upgrade op.
func ver0(ops []string, final int) int {
	for _, o := range ops {
		if o == "U" {
			return 0
		}
	}
	return final
}

func TestVerifC04State(t *testing.T) {
	vu.Run(t, "C04", 60, c04Gen, c04Run)
}
