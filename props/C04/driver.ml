(* C04 driver: replays a history of persisted block states on the extracted model.
   For every store step (S group of the observation):
     model side : root = H (encode tree); entries tree = ME; db' = write_dirty db tree children
                  must equal the dumped table; load_all db' root and get_from_db db' root k must
                  equal the Go results;
     property   : (implementation observables only) WriteDirty succeeded, Load succeeded, the
                  reloaded trie re-encodes to the same root, has the same entries and the same
                  child tries as the in-memory state had before the write, the in-memory state is
                  unchanged by the write, and GetFromDB returns for every probed key
                  exactly the entry of the in-memory state (nil for absent keys); every earlier
                  block state of the history (HR groups) still reloads with the entries and child
                  tries it had when it was persisted and reads back key by key;
     hypotheses : the hypotheses of C04_write_dirty / C04_history are evaluated on the dumped
                  tree: what the write skips (needs_clean) is in the database before the write,
                  and no two different strings written or relied upon have the same hash. *)
open Model
open Vutil

(* Blake2b-256 of the model, memoised (the extracted functions take the hash as a parameter) *)
let hash_tbl : (string, byte list) Hashtbl.t = Hashtbl.create 4096
let hash_memo (x : byte list) : byte list =
  let k = string_of_bytes x in
  match Hashtbl.find_opt hash_tbl k with
  | Some h -> h
  | None -> let h = hash256 x in Hashtbl.add hash_tbl k h; h

let nib_of_bytes (l : byte list) : string =
  if l = [] then "-" else String.concat "" (List.map (fun x -> Printf.sprintf "%x" (int_of_byte x)) l)
let bytes_of_nib (s : string) : byte list =
  (* one hex digit per nibble; a partial-key byte above 15 (a corrupted key) is written <xx> *)
  if s = "-" then [] else begin
    let out = ref [] and i = ref 0 in
    while !i < String.length s do
      if s.[!i] = '<' then begin
        out := byte_of_int (16 * hexval s.[!i + 1] + hexval s.[!i + 2]) :: !out; i := !i + 4
      end else begin
        out := byte_of_int (hexval s.[!i]) :: !out; incr i
      end
    done;
    List.rev !out
  end

type cursor = { tok : string array; mutable pos : int }
let peek c = if c.pos < Array.length c.tok then c.tok.(c.pos) else "<eof>"
let next c = let t = peek c in c.pos <- c.pos + 1; t
let expect c s = let t = next c in if t <> s then fail "C04: expected %s got %s at %d" s t c.pos

let rec parse_wnode c : wnode =
  expect c "N";
  let pk = bytes_of_nib (next c) in
  let v = (match next c with "none" -> None | h -> Some (bytes_of_hex h)) in
  let mbh = (match next c with "0" -> false | "1" -> true | _ -> fail "C04: IsHashedValue node in memory") in
  let dirty = next c = "1" in
  let nch = int_of_string ("0x" ^ next c) in
  let cs = List.init nch (fun _ -> ()) in
  let cs = List.map (fun () -> if peek c = "_" then (ignore (next c); None) else Some (parse_wnode c)) cs in
  WN (pk, v, mbh, dirty, cs)

let parse_root c : wnode option =
  if peek c = "nil" then (ignore (next c); None) else Some (parse_wnode c)

let parse_entries c : (string * string) list =
  expect c "E";
  let n = int_of_string ("0x" ^ next c) in
  List.init n (fun _ -> ()) |> List.map (fun () -> let k = next c in let v = next c in (k, v))

(* <load> ::= ok <root> <entries> CT <n> (<root> <entries>)*n | err | panic *)
let parse_load c =
  let lres = next c in
  let lobs = (if lres = "ok" then begin
      let r' = next c in
      let e = parse_entries c in
      expect c "CT";
      let n = int_of_string ("0x" ^ next c) in
      let ct = List.init n (fun _ -> ()) |> List.map (fun () -> let r = next c in let e = parse_entries c in (r, e)) in
      Some (r', e, ct)
    end else None) in
  (lres, lobs)

let entries_str (l : (string * string) list) =
  "E " ^ Printf.sprintf "%x" (List.length l) ^ String.concat "" (List.map (fun (k, v) -> " " ^ k ^ " " ^ v) l)

let model_entries (t : tnode option) : (string * string) list =
  List.sort compare (List.map (fun (k, v) -> (hex_of_bytes k, hex_of_bytes v)) (entries t))

(* a branch whose value was deleted may keep a stale MustBeHashed flag; it encodes like the same
   node without the flag (Model.norm, C04_history_reads_norm; the model reproduces the stray
   database entry the flag causes) *)

let root_of (t : tnode option) : byte list =
  match t with None -> empty_root hash_memo | Some n -> hash_memo (encode hash_memo n)

(* canonical dump of a model database: latest binding wins, sorted *)
let db_dump (d : (byte list * byte list) list) : (string * string) list =
  let tbl = Hashtbl.create 64 in
  List.iter (fun (k, v) -> let hk = hex_of_bytes k in if not (Hashtbl.mem tbl hk) then Hashtbl.add tbl hk (hex_of_bytes v)) d;
  List.sort compare (Hashtbl.fold (fun k v acc -> (k, v) :: acc) tbl [])

let res_str = function
  | Ok None -> "nil"
  | Ok (Some v) -> "v:" ^ hex_of_bytes v
  | Err _ -> "err"
  | Panic -> "panic"
  | OutOfFuel -> "hang"

let rec wnode_stats (WN (pk, sv, mbh, dirty, cs)) (is_root : bool) (acc : (string, unit) Hashtbl.t) =
  if mbh then Hashtbl.replace acc "hashed-value" ();
  if not dirty then Hashtbl.replace acc "clean-node" ();
  if cs <> [] && sv <> None then Hashtbl.replace acc "branch-with-value" ();
  if cs = [] && is_root then Hashtbl.replace acc "root-is-leaf" ();
  List.iter (function
      | None -> ()
      | Some (WN (_, _, _, _, ccs) as c) ->
        let e = encode hash_memo (erase c) in
        if List.length e < 32 then begin
          Hashtbl.replace acc "inlined-child" ();
          if ccs <> [] then Hashtbl.replace acc "inlined-branch-child" ()
        end;
        wnode_stats c false acc) cs

let child_prefix_hex = "3a6368696c645f73746f726167653a64656661756c743a"
let starts_with s p = String.length s >= String.length p && String.sub s 0 (String.length p) = p

let check inp obs =
  if obs = "hang" || obs = "panic" then
    { prop_ok = false; model_eq = false; nontrivial = true; finding = "-"; tags = "whole-case-" ^ obs;
      detail = "the harness call did not return: " ^ obs } else
  let c = { tok = Array.of_list (split_ws obs); pos = 0 } in
  let probe = next c in
  if String.length probe <> 4 then fail "C04: bad probe %s" probe;
  let st = (probe.[1] = '1', probe.[2] = '1') and dfix = probe.[3] = '1' in
  let db = ref [] in
  let inj_tbl : (string, byte list) Hashtbl.t = Hashtbl.create 256 in
  let persisted : (bool * tnode) list ref = ref [] in
  let past : (string * ((string * string) list * (string * (string * string) list) list)) list ref = ref [] in
  let prop_bad = ref [] and model_bad = ref [] in
  let tags = Hashtbl.create 16 in
  let nontrivial = ref false in
  let step = ref 0 in
  let version = List.hd (split_ws inp) in
  Hashtbl.replace tags ("v" ^ version) ();
  (* mutation paths exercised between stores (from the input ops) *)
  (let stored = ref false and unstored_snapshot = ref false in
   List.iter (fun op ->
       let k = (match String.index_opt op ':' with Some i -> String.sub op 0 i | None -> op) in
       match k with
       | "S" -> stored := true; unstored_snapshot := false
       | "N" -> unstored_snapshot := true; Hashtbl.replace tags "path-snapshot-without-store" ()
       | "D" -> if !stored then Hashtbl.replace tags "path-delete-after-store" ();
         if !unstored_snapshot then Hashtbl.replace tags "path-delete-after-unstored-snapshot" ()
       | "X" -> if !stored then Hashtbl.replace tags "path-clearprefix-after-store" ()
       | "P" -> if !unstored_snapshot then Hashtbl.replace tags "path-put-after-unstored-snapshot" ()
       | _ -> ()) (List.tl (split_ws inp)));
  while peek c = "S" do
    incr step;
    let sn = Printf.sprintf "S%d" !step in
    let pbad s = prop_bad := (sn ^ ":" ^ s) :: !prop_bad and mbad s = model_bad := (sn ^ ":" ^ s) :: !model_bad in
    expect c "S"; expect c "T";
    let t = parse_root c in
    expect c "C";
    let nc = int_of_string ("0x" ^ next c) in
    let children = List.init nc (fun _ -> ()) |> List.map (fun () -> parse_root c) in
    expect c "ME";
    let me = parse_entries c in
    expect c "MC";
    let nmc = int_of_string ("0x" ^ next c) in
    let mc = List.init nmc (fun _ -> ()) |> List.map (fun () -> let r = next c in let e = parse_entries c in (r, e)) in
    expect c "R";
    let r = next c in
    expect c "W";
    let w = next c in
    expect c "MA";
    let ma = parse_entries c in
    expect c "DB";
    let ndb = int_of_string ("0x" ^ next c) in
    let dump = List.init ndb (fun _ -> ()) |> List.map (fun () -> let k = next c in let v = next c in (k, v)) in
    expect c "L";
    let (lres, lobs) = parse_load c in
    expect c "G";
    let ng = int_of_string ("0x" ^ next c) in
    let probes = List.init ng (fun _ -> ()) |> List.map (fun () ->
        let k = next c in let truth = next c in let dbv = next c in (k, truth, dbv)) in
    (* earlier states of the history, re-read after this write (absent in old replay files) *)
    let hist = (if peek c = "HR" then begin
        expect c "HR";
        let n = int_of_string ("0x" ^ next c) in
        List.init n (fun _ -> ()) |> List.map (fun () ->
            let hr = next c in
            let (hres, hobs) = parse_load c in
            expect c "HG";
            let m = int_of_string ("0x" ^ next c) in
            let reads = List.init m (fun _ -> ()) |> List.map (fun () -> let k = next c in let v = next c in (k, v)) in
            (hr, hres, hobs, reads))
      end else []) in
    (* ---------------- model *)
    let tt = (match t with None -> None | Some w -> Some (erase w)) in
    (match tt with
     | Some n ->
       if not (wf_node (norm n)) then mbad "tree-not-wf";
       if norm n <> n then Hashtbl.replace tags "stale-mustbehashed-flag" ()
     | None -> ());
    if me <> [] then nontrivial := true;
    (match t with Some w -> wnode_stats w true tags | None -> Hashtbl.replace tags "empty-trie" ());
    if nc > 0 then Hashtbl.replace tags "child-tries" ();
    if !step > 1 then Hashtbl.replace tags "later-block" ();
    let mroot = root_of tt in
    if hex_of_bytes mroot <> r then mbad "root";
    if model_entries tt <> me then mbad "entries";
    let wchildren = List.filter_map (fun x -> x) children in
    (* hypotheses of C04_write_dirty / C04_history on this reachable state: what the write skips is
       already in the database (each trie checked against the table as the earlier tries of the same
       WriteDirty leave it), and the hash does not collide on the strings written or relied upon *)
    let check_hyp (dcur : (byte list * byte list) list) (w : wnode) =
      let nc = needs_clean hash_memo true w in
      if nc <> [] then Hashtbl.replace tags "hyp-skipped-clean-subtrees" ();
      List.iter (fun (k, v) ->
          match db_get dcur k with
          | Some v' when v' = v -> ()
          | _ -> mbad ("hypothesis needs_clean: " ^ hex_of_bytes k ^ " not in the table before the write")) nc;
      let strings = List.map snd (wd_puts hash_memo true w @ nc @ needs hash_memo true (erase w)) in
      List.iter (fun sx ->
          let h = hex_of_bytes (hash_memo sx) in
          match Hashtbl.find_opt inj_tbl h with
          | Some sy when sy <> sx -> mbad ("hypothesis H_inj_on: collision on " ^ h)
          | Some _ -> ()
          | None -> Hashtbl.add inj_tbl h sx) strings;
      (* the syntactic contract of C04_discipline_chain: every node WriteDirty skips is a node of a trie
         persisted earlier in this history (or needs nothing) *)
      let ps = parts hash_memo true w in
      if ps <> [] then Hashtbl.replace tags "discipline-clean-parts" ();
      List.iter (fun ((r, tn) as p) ->
          let ok = pneeds hash_memo p = [] || List.mem p !persisted || ((not r) && List.mem (true, tn) !persisted) in
          (* evaluated on the tree the implementation handed to WriteDirty: a property failure *)
          if not ok then pbad "a clean node of the trie handed to WriteDirty was never persisted (Dirty-flag contract)") ps;
      persisted := all_sub true (erase w) @ !persisted;
      fst (write_dirty_node hash_memo true dcur w) in
    ignore (List.fold_left check_hyp !db ((match t with Some w -> [w] | None -> []) @ wchildren));
    Hashtbl.replace tags "discipline-checked" ();
    Hashtbl.replace tags "hyp-checked" ();
    let db' = write_dirty_fixed hash_memo !db t wchildren in
    let db_pinned = write_dirty_pinned hash_memo !db t wchildren in
    if db_dump db_pinned <> db_dump db' then Hashtbl.replace tags "pinned-writedirty-differs" ();
    db := db';
    if db_dump db' <> dump then begin
      mbad "db";
      (* keep following the implementation's table so that later steps stay comparable *)
      db := List.map (fun (k, v) -> (bytes_of_hex k, bytes_of_hex v)) dump
    end;
    let d = !db in
    (* load *)
    let mload = (match load_all hash_memo st dfix (nat_of_int 200) d mroot with
      | Ok (lt, cts) ->
        let cts = List.sort_uniq compare (List.map (fun (h, ct) -> (hex_of_bytes h, model_entries ct)) cts) in
        Some (hex_of_bytes (root_of lt), model_entries lt, cts)
      | _ -> None) in
    if mload <> lobs then mbad ("load(" ^ lres ^ ")");
    (* point reads *)
    List.iter (fun (k, truth, dbv) ->
        let kb = bytes_of_hex k in
        let m = res_str (get_from_db_fixed hash_memo st dfix d mroot kb) in
        let mp = res_str (get_from_db_pinned hash_memo st dfix d mroot kb) in
        if mp <> m then Hashtbl.replace tags "pinned-getfromdb-differs" ();
        let mt = (match lookup_bytes tt kb with None -> "nil" | Some v -> "v:" ^ hex_of_bytes v) in
        if mt <> truth then mbad ("lookup " ^ k);
        if m <> dbv then mbad ("get " ^ k ^ " model=" ^ m);
        Hashtbl.replace tags (if truth = "nil" then "probe-absent" else "probe-present") ();
        (* property *)
        if dbv <> truth then pbad (Printf.sprintf "GetFromDB(%s)=%s state=%s" k dbv truth)) probes;
    (* ---------------- earlier states of the history *)
    List.iter (fun (hr, hres, hobs, reads) ->
        Hashtbl.replace tags "history-reread" ();
        let hroot = bytes_of_hex hr in
        let mh = (match load_all hash_memo st dfix (nat_of_int 200) d hroot with
          | Ok (lt, cts) ->
            let cts = List.sort_uniq compare (List.map (fun (h, ct) -> (hex_of_bytes h, model_entries ct)) cts) in
            Some (hex_of_bytes (root_of lt), model_entries lt, cts)
          | _ -> None) in
        if mh <> hobs then mbad ("history load " ^ hr ^ " (" ^ hres ^ ")");
        (match List.assoc_opt hr !past with
         | None -> mbad ("history root " ^ hr ^ " was never persisted")
         | Some (pme, pmc) ->
           (match hobs with
            | None -> pbad ("earlier state " ^ hr ^ " no longer loads: " ^ hres)
            | Some (r', e, ct) ->
              if r' <> hr then pbad ("earlier state " ^ hr ^ ": reloaded root differs");
              if e <> pme then pbad ("earlier state " ^ hr ^ ": reloaded entries differ");
              List.iter (fun (k, v) ->
                  if starts_with k child_prefix_hex then
                    match List.assoc_opt v pmc, List.assoc_opt v ct with
                    | Some a, Some b -> if a <> b then pbad ("earlier state " ^ hr ^ ": child trie " ^ v ^ " differs")
                    | None, _ -> ()
                    | _, None -> pbad ("earlier state " ^ hr ^ ": child trie " ^ v ^ " not reloaded")) pme);
           List.iter (fun (k, dbv) ->
               let m = res_str (get_from_db_fixed hash_memo st dfix d hroot (bytes_of_hex k)) in
               if m <> dbv then mbad ("history get " ^ hr ^ " " ^ k ^ " model=" ^ m);
               let truth = (match List.assoc_opt k pme with Some v -> "v:" ^ v | None -> "nil") in
               if dbv <> truth then
                 pbad (Printf.sprintf "earlier state %s: GetFromDB(%s)=%s state=%s" hr k dbv truth)) reads)) hist;
    past := (r, (me, mc)) :: !past;
    (* ---------------- property on the implementation's observables *)
    if w <> "ok" then pbad "WriteDirty failed";
    if ma <> me then pbad "WriteDirty changed the in-memory state";
    (match lobs with
     | None -> pbad ("Load " ^ lres)
     | Some (r', e, ct) ->
       if r' <> r then pbad "reloaded root differs";
       if e <> me then pbad "reloaded entries differ";
       List.iter (fun (k, v) ->
           if starts_with k child_prefix_hex then begin
             let h = v in
             match List.assoc_opt h mc, List.assoc_opt h ct with
             | Some a, Some b -> if a <> b then pbad ("child trie " ^ h ^ " differs")
             | None, _ -> pbad ("child trie " ^ h ^ " not in memory")
             | _, None -> pbad ("child trie " ^ h ^ " not reloaded")
           end) me)
  done;
  if c.pos <> Array.length c.tok then fail "C04: trailing tokens in observation at %d: %s" c.pos (peek c);
  let tagl = List.sort compare (Hashtbl.fold (fun k () acc -> k :: acc) tags []) in
  { prop_ok = (!prop_bad = []); model_eq = (!model_bad = []); nontrivial = !nontrivial; finding = "-";
    tags = String.concat "," tagl;
    detail = String.concat "; " (List.rev !prop_bad @ List.map (fun s -> "MODEL " ^ s) (List.rev !model_bad)) }

(* ---------------------------------------------------------------- vm_compute cross-check
   The first persisted state of a sampled history re-evaluated inside Coq (coq/C04/VmCheck.v): the
   model's WriteDirty of the dumped tree must contain every binding of the dumped table, the root
   hash must be the observed one, Load must rebuild a trie with that root and the first point reads
   must give what GetFromDB gave. *)
let rec coq_wnode (WN (pk, sv, mbh, dirty, cs)) : string =
  Printf.sprintf "(WN %s %s %b %b [%s])" (coq_bytes pk)
    (match sv with None -> "None" | Some v -> "(Some " ^ coq_bytes v ^ ")") mbh dirty
    (String.concat "; " (List.map (function None -> "None" | Some c -> "Some " ^ coq_wnode c) cs))

let coq _inp obs =
  if obs = "hang" || obs = "panic" then None else
  try
    let c = { tok = Array.of_list (split_ws obs); pos = 0 } in
    let probe = next c in
    let b ch = if ch = '1' then "true" else "false" in
    if peek c <> "S" then None else begin
      expect c "S"; expect c "T";
      match parse_root c with
      | None -> None
      | Some w ->
        expect c "C";
        let nc = int_of_string ("0x" ^ next c) in
        let children = List.init nc (fun _ -> ()) |> List.map (fun () -> parse_root c) in
        expect c "ME"; ignore (parse_entries c);
        expect c "MC";
        let nmc = int_of_string ("0x" ^ next c) in
        List.init nmc (fun _ -> ()) |> List.iter (fun () -> ignore (next c); ignore (parse_entries c));
        expect c "R";
        let r = next c in
        expect c "W"; ignore (next c);
        expect c "MA"; ignore (parse_entries c);
        expect c "DB";
        let ndb = int_of_string ("0x" ^ next c) in
        let dump = List.init ndb (fun _ -> ()) |> List.map (fun () -> let k = next c in let v = next c in (k, v)) in
        expect c "L"; ignore (parse_load c);
        expect c "G";
        let ng = int_of_string ("0x" ^ next c) in
        let probes = List.init ng (fun _ -> ()) |> List.map (fun () ->
            let k = next c in let _ = next c in let dbv = next c in (k, dbv)) in
        let size = List.fold_left (fun a (k, v) -> a + String.length k + String.length v) 0 dump in
        if size > 3000 then None else
        let rec take n l = if n = 0 then [] else (match l with [] -> [] | x :: t -> x :: take (n - 1) t) in
        let probes = List.filter (fun (_, v) -> v = "nil" || (String.length v > 2 && String.sub v 0 2 = "v:")) (take 12 probes) in
        let pair (k, v) = Printf.sprintf "(%s, %s)" (coq_bytes (bytes_of_hex k)) (coq_bytes (bytes_of_hex v)) in
        let ppair (k, v) = Printf.sprintf "(%s, %s)" (coq_bytes (bytes_of_hex k))
            (if v = "nil" then "None" else "Some " ^ coq_bytes (bytes_of_hex (String.sub v 2 (String.length v - 2)))) in
        Some (Printf.sprintf "first_store_ok (%s, %s) %s %s [%s] %s [%s] [%s]"
                (b probe.[1]) (b probe.[2]) (b probe.[3]) (coq_wnode w)
                (String.concat "; " (List.filter_map (function None -> None | Some x -> Some (coq_wnode x)) children))
                (coq_bytes (bytes_of_hex r))
                (String.concat "; " (List.map pair dump)) (String.concat "; " (List.map ppair probes)))
    end
  with _ -> None

let () = run_driver ~coq check
