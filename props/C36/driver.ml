(* C36 driver: the Gallina model emits, for the scenario, the write units the Go services must
   issue (in order, with batch boundaries) and the verdict of the restart path at every crash
   point.  prop_ok = at every crash point of the REAL log the REAL restart succeeded with
   header/body/state readable and authority data present, and (set,round) and the grandpa set id
   never went backwards; model_eq = log shape and verdicts are exactly the model's. *)
open Model
open Vutil

let parse_op s = match String.split_on_char ':' s with
  | ["i"; p; d] ->
    let dg = (if d = "n" then DNone
              else if d.[0] = 's' then DSched (n_of_hex (String.sub d 1 (String.length d - 1)))
              else if d.[0] = 'f' then DForced (n_of_hex (String.sub d 1 (String.length d - 1)))
              else fail "C36: bad digest %s" d) in
    Imp (n_of_hex p, dg)
  | ["f"; b; r] -> Fin (n_of_hex b, n_of_hex r)
  | _ -> fail "C36: bad op %s" s

let x = hex_of_n

let tok_kv (k, v) = match k, v with
  | KSt _, _ -> "st"
  | KHdr b, _ -> "hdr:" ^ x b | KBlb b, _ -> "blb:" ^ x b | KArr b, _ -> "arr:" ^ x b
  | KFsn, _ -> "fsn"
  | KHsh n, _ -> "hsh:" ^ x n
  | KFh (r, s), VBlk b -> Printf.sprintf "fh:%s:%s=%s" (x r) (x s) (x b)
  | KHrs, VPair (r, s) -> Printf.sprintf "hrs:%s:%s" (x r) (x s)
  | KLfr, VNum r -> "lfr:" ^ x r
  | KSetID, VNum v -> "setID:" ^ x v
  | KAuth s, _ -> "auth:" ^ x s
  | KChange s, _ -> "change:" ^ x s
  | KJst b, _ -> "jst:" ^ x b
  | KPv (r, s), _ -> Printf.sprintf "pv:%s:%s" (x r) (x s)
  | KPc (r, s), _ -> Printf.sprintf "pc:%s:%s" (x r) (x s)
  | _ -> "?"

let tok_unit = function
  | WPut (k, v) -> tok_kv (k, v)
  | WBatch l ->
    let ts = List.map tok_kv l in
    if List.for_all (fun t -> t = "st") ts then "st" else "[" ^ String.concat "+" ts ^ "]"

let str_verdict = function
  | VOk (b, r, s, g) -> Printf.sprintf "ok:%s:%s:%s:%s" (x b) (x r) (x s) (x g)
  | VFail st -> "fail:" ^ (match int_of_n st with 0 -> "start" | 1 -> "body" | 2 -> "setid" | 3 -> "auth" | _ -> "change")

let parse_verdict s = match String.split_on_char ':' s with
  | ["ok"; b; r; s'; g] when b <> "?" -> Some (VOk (n_of_hex b, n_of_hex r, n_of_hex s', n_of_hex g))
  | _ -> None

let check inp obs =
  match split_ws inp with
  | "sc" :: ops ->
    let pops = List.map parse_op ops in
    let valid = scenario_valid pops in
    (* model: per-operation units *)
    let groups = ref [] and st = ref sim0 in
    List.iter (fun o -> let (ws, st') = step set_change_units !st o in
                if ws <> [] then groups := List.map tok_unit ws :: !groups; st := st') pops;
    let groups = List.rev !groups in
    let mshape = if groups = [] then "-" else String.concat " / " (List.map (String.concat " ") groups) in
    let (_, mver) = scenario_points pops in
    let mres = String.concat " " (List.map str_verdict mver) in
    let nsched = List.length (List.filter (function Imp (_, DSched _) -> true | _ -> false) pops)
    and nforced = List.length (List.filter (function Imp (_, DForced _) -> true | _ -> false) pops)
    and nfin = List.length (List.filter (function Fin _ -> true | _ -> false) pops) in
    let refin = (let st = ref sim0 and hit = ref false in
                 List.iter (fun o -> (match o with Fin (b, _) when b = !st.s_fin && Model.valid !st o -> hit := true | _ -> ());
                             st := snd (step set_change_units !st o)) pops; !hit) in
    let base_tags = (if refin then "refinalise-head," else "") ^ Printf.sprintf "scenario,crash-points-%s,fin-%d%s%s"
        (let n = List.length mver in if n < 10 then "1..9" else if n < 30 then "10..29" else if n < 60 then "30..59" else "60+")
        nfin (if nsched > 0 then ",scheduled-change" else "") (if nforced > 0 then ",forced-change" else "") in
    if String.length obs >= 4 && String.sub obs 0 4 = "err:" then
      { prop_ok = true; model_eq = not valid; nontrivial = false; finding = "-";
        tags = "scenario-rejected";
        detail = (if valid then "the model considers the scenario valid but the services failed: " ^ obs else "") }
    else begin
      match String.split_on_char '#' obs with
      | [shape; results] ->
        let stoks = split_ws shape and rtoks = Array.of_list (split_ws results) in
        (* property predicate on the implementation's own observables *)
        let vers = Array.to_list (Array.map parse_verdict rtoks) in
        let all_parsed = List.for_all (fun v -> v <> None) vers in
        (* every write index of the recorded log has its crash point: one verdict per recorded
           unit (the "/" and "-" tokens are separators) plus the one before the first unit *)
        let nunits = List.length (List.filter (fun t -> t <> "/" && t <> "-") stoks) in
        let complete = (Array.length rtoks = nunits + 1) in
        let prop = all_parsed && complete &&
                   all_ok_monotone None (List.map (function Some v -> v | None -> VFail N0) vers) in
        let first_bad = (let rec go i = if i >= Array.length rtoks then "" else
                            if parse_verdict rtoks.(i) = None then Printf.sprintf "crash point %d: %s" i rtoks.(i) else go (i + 1) in go 0) in
        (* a rewrite of the activation block of an existing set (change~) is not modelled: drop it
           together with the crash point after it *)
        let keep_units = ref [] and keep_res = ref [rtoks.(0)] and j = ref 0 in
        List.iter (fun t ->
            if t = "/" || t = "-" then (if t = "/" then keep_units := t :: !keep_units)
            else begin
              incr j;
              let dropped = String.length t >= 8 && String.sub t 0 8 = "change~:" in
              if not dropped then begin
                keep_units := t :: !keep_units;
                if !j < Array.length rtoks then keep_res := rtoks.(!j) :: !keep_res
              end
            end) stoks;
        let oshape = (let l = List.rev !keep_units in if l = [] then "-" else String.concat " " l) in
        let ores = String.concat " " (List.rev !keep_res) in
        let eq = valid && oshape = mshape && ores = mres in
        { prop_ok = prop; model_eq = eq; nontrivial = List.length mver > 1; finding = "-"; tags = base_tags;
          detail = (if prop && eq then "" else
                    Printf.sprintf "%s%s model-shape=[%s] model-verdicts=[%s]"
                      (if prop then "" else if not complete then Printf.sprintf "%d crash points reported for %d recorded write units; " (Array.length rtoks) nunits
                       else "restart after a crash violates the property at " ^ (if first_bad = "" then "a non-monotone point" else first_bad) ^ "; ")
                      (if valid then "" else "model: invalid scenario;") mshape mres) }
      | _ -> { prop_ok = true; model_eq = false; nontrivial = false; finding = "-"; tags = "malformed"; detail = "malformed observation" }
    end
  | _ -> fail "C36: bad input %s" inp

(* vm_compute cross-check: the model's verdicts recomputed inside Coq and compared with the
   verdicts of the real restarts (scenarios without the unmodelled change~ rewrite) *)
let coq_dig = function DNone -> "DNone" | DSched d -> "(DSched " ^ coq_n d ^ ")" | DForced d -> "(DForced " ^ coq_n d ^ ")"
let coq_sop = function
  | Imp (p, d) -> Printf.sprintf "Imp %s %s" (coq_n p) (coq_dig d)
  | Fin (b, r) -> Printf.sprintf "Fin %s %s" (coq_n b) (coq_n r)
let coq_verdict = function
  | VOk (b, r, s, g) -> Printf.sprintf "VOk %s %s %s %s" (coq_n b) (coq_n r) (coq_n s) (coq_n g)
  | VFail st -> "VFail " ^ coq_n st
let coq inp obs =
  match split_ws inp, String.split_on_char '#' obs with
  | "sc" :: ops, [shape; results] ->
    let has_rewrite = List.exists (fun t -> String.length t >= 8 && String.sub t 0 8 = "change~:") (split_ws shape) in
    let vers = List.map parse_verdict (split_ws results) in
    if has_rewrite || List.exists (fun v -> v = None) vers || List.length vers > 120 then None
    else Some (Printf.sprintf "vm_case [%s] [%s]"
                 (String.concat "; " (List.map (fun o -> coq_sop (parse_op o)) ops))
                 (String.concat "; " (List.map (function Some v -> coq_verdict v | None -> "VFail 0%N") vers)))
  | _ -> None

let () = run_driver ~coq check
