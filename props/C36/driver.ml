(* C36 driver: the Gallina model emits, for the scenario, the write units the Go services must
   issue (in order, with batch boundaries) and the verdict of the restart path at every crash
   point.  prop_ok = at every crash point of the REAL log the REAL restart succeeded with
   header/body/state readable and authority data present, and (set,round) and the grandpa set id
   never went backwards; model_eq = log shape and verdicts are exactly the model's. *)
open Model
open Vutil

let parse_babe = function
  | "e" -> BEpoch | "c" -> BConfig | "ec" -> BBoth
  | b -> fail "C36: bad babe digest %s" b

let parse_digest d =
  if d = "n" then DNone
  else if d.[0] = 's' then DSched (n_of_hex (String.sub d 1 (String.length d - 1)))
  else if d.[0] = 'f' then DForced (n_of_hex (String.sub d 1 (String.length d - 1)))
  else fail "C36: bad digest %s" d

(* an epoch-table token of a finalisation group: epd:<e> cfd:<e> or [del-ned:<e>:<b>+...] *)
let parse_ekey t = match String.split_on_char ':' t with
  | ["epd"; e] -> Some (KEpd (n_of_hex e)) | ["cfd"; e] -> Some (KCfd (n_of_hex e))
  | ["ned"; e; b] | ["del-ned"; e; b] when b <> "?" -> Some (KNed (n_of_hex e, n_of_hex b))
  | ["ncd"; e; b] | ["del-ncd"; e; b] when b <> "?" -> Some (KNcd (n_of_hex e, n_of_hex b))
  | _ -> None
let parse_eunit t =
  let n = String.length t in
  if n >= 2 && t.[0] = '[' && t.[n - 1] = ']' then begin
    let parts = String.split_on_char '+' (String.sub t 1 (n - 2)) in
    if List.for_all (fun p -> String.length p > 4 && String.sub p 0 4 = "del-") parts then
      let ks = List.map parse_ekey parts in
      if List.for_all (fun k -> k <> None) ks then Some (EDel (List.map (function Some k -> k | None -> KFsn) ks)) else None
    else None
  end else if n > 4 && (String.sub t 0 4 = "epd:" || String.sub t 0 4 = "cfd:") then
    (match parse_ekey t with Some k -> Some (EPut k) | None -> None)
  else None

(* the digest-level operation of the input; the epoch-table writes of a finalisation and the
   "applied an authority-set change" flag are read off the recorded group of the operation *)
let parse_dop s (group : string list) =
  let ep = List.filter_map parse_eunit group in
  match String.split_on_char ':' s with
  | ["i"; p; d] -> DImp (n_of_hex p, parse_digest d, BNone)
  | ["i"; p; d; b] -> DImp (n_of_hex p, parse_digest d, parse_babe b)
  | ["f"; b; r] -> DFin (n_of_hex b, n_of_hex r, ep)
  | _ -> fail "C36: bad op %s" s
let observed_op (o : dop) (group : string list) : sop =
  let applied = List.exists (fun t -> String.length t > 5 && String.sub t 0 5 = "auth:") group in
  match o with
  | DImp (p, _, bd) -> Imp (p, applied, bd)
  | DFin (b, r, ep) -> Fin (b, r, applied, ep)

let x = hex_of_n

let tok_kv (k, v) = match k, v with
  | KSt _, _ -> "st"
  | KHdr b, _ -> "hdr:" ^ x b | KBlb b, _ -> "blb:" ^ x b | KArr b, _ -> "arr:" ^ x b
  | KFsn, _ -> "fsn"
  | KHsh n, _ -> "hsh:" ^ x n
  | KFh (r, s), VBlk b -> Printf.sprintf "fh:%s:%s=%s" (x r) (x s) (x b)
  | KHrs, VPair (r, s) -> Printf.sprintf "hrs:%s:%s" (x r) (x s)
  | KLfr, VNum r -> "lfr:" ^ x r
  | KSetID, VNum v -> "setID:" ^ x v
  | KAuth s, _ -> "auth:" ^ x s
  | KChange s, _ -> "change:" ^ x s
  | KJst b, _ -> "jst:" ^ x b
  | KPv (r, s), _ -> Printf.sprintf "pv:%s:%s" (x r) (x s)
  | KPc (r, s), _ -> Printf.sprintf "pc:%s:%s" (x r) (x s)
  | KNed (e, b), VGone -> Printf.sprintf "del-ned:%s:%s" (x e) (x b)
  | KNcd (e, b), VGone -> Printf.sprintf "del-ncd:%s:%s" (x e) (x b)
  | KNed (e, b), _ -> Printf.sprintf "ned:%s:%s" (x e) (x b)
  | KNcd (e, b), _ -> Printf.sprintf "ncd:%s:%s" (x e) (x b)
  | KEpd e, _ -> "epd:" ^ x e
  | KCfd e, _ -> "cfd:" ^ x e
  | _ -> "?"

let tok_unit = function
  | WPut (k, v) -> tok_kv (k, v)
  | WBatch l ->
    let ts = List.map tok_kv l in
    if List.for_all (fun t -> t = "st") ts then "st" else "[" ^ String.concat "+" ts ^ "]"

let str_verdict = function
  | VOk (b, r, s, g) -> Printf.sprintf "ok:%s:%s:%s:%s" (x b) (x r) (x s) (x g)
  | VFail st -> "fail:" ^ (match int_of_n st with 0 -> "start" | 1 -> "body" | 2 -> "setid" | 3 -> "auth" | _ -> "change")

let parse_verdict s = match String.split_on_char ':' s with
  | ["ok"; b; r; s'; g] when b <> "?" -> Some (VOk (n_of_hex b, n_of_hex r, n_of_hex s', n_of_hex g))
  | _ -> None

(* the groups of the recorded shape, one per operation ("/" separates them) *)
let split_groups (stoks : string list) : string list list =
  let rec go cur acc = function
    | [] -> List.rev (List.rev cur :: acc)
    | "/" :: r -> go [] (List.rev cur :: acc) r
    | t :: r -> go (t :: cur) acc r in
  if stoks = [] || stoks = ["-"] then [] else go [] [] stoks

let is_marker t = String.length t >= 4 && String.sub t 0 4 = "err-"
let is_rewrite t = String.length t >= 8 && String.sub t 0 8 = "change~:"

(* the operations as they happened: from the input and the recorded groups *)
let observed_ops (ops : string list) (groups : string list list) : (dop list * sop list) option =
  if List.length ops <> List.length groups then None
  else begin
    let dops = List.map2 parse_dop ops groups in
    Some (dops, List.map2 observed_op dops groups)
  end

let check inp obs =
  match split_ws inp with
  | "sc" :: ops ->
    if String.length obs >= 4 && String.sub obs 0 4 = "err:" then
      { prop_ok = true; model_eq = false; nontrivial = false; finding = "-"; tags = "scenario-rejected";
        detail = "the services failed on a generated scenario: " ^ obs }
    else begin
      match String.split_on_char '#' obs with
      | [shape; results] ->
        let stoks = split_ws shape and rtoks = Array.of_list (split_ws results) in
        (* ---- property predicate on the implementation's own observables ---- *)
        let vers = Array.to_list (Array.map parse_verdict rtoks) in
        let all_parsed = List.for_all (fun v -> v <> None) vers in
        (* every write index of the recorded log has its crash point: one verdict per recorded
           unit ("/" and "-" are separators, err-* are markers) plus the one before the first unit *)
        let nunits = List.length (List.filter (fun t -> t <> "/" && t <> "-" && not (is_marker t)) stoks) in
        let complete = (Array.length rtoks = nunits + 1) in
        let prop = all_parsed && complete &&
                   all_ok_monotone None (List.map (function Some v -> v | None -> VFail N0) vers) in
        let first_bad = (let rec go i = if i >= Array.length rtoks then "" else
                            if parse_verdict rtoks.(i) = None then Printf.sprintf "crash point %d: %s" i rtoks.(i) else go (i + 1) in go 0) in
        (* ---- the model on the operations as they happened ---- *)
        let groups = split_groups stoks in
        (match observed_ops ops groups with
         | None ->
           { prop_ok = prop; model_eq = false; nontrivial = true; finding = "-"; tags = "scenario";
             detail = "the recorded log has not one group per operation" }
         | Some (dops, pops) ->
           let valid = scenario_valid pops in
           let single = single_pending dops in
           let flags_ok = (not single) || predict dops = pops in
           let mgroups = ref [] and st = ref sim0 in
           List.iter (fun o -> let (ws, st') = step set_change_units !st o in
                       mgroups := List.map tok_unit ws :: !mgroups; st := st') pops;
           let mshape = String.concat " / " (List.map (String.concat " ") (List.rev !mgroups)) in
           let (_, mver) = scenario_points pops in
           let mres = String.concat " " (List.map str_verdict mver) in
           (* a rewrite of the activation block of an existing set (change~) is not modelled: drop
              it together with the crash point after it; markers are not units *)
           let keep_units = ref [] and keep_res = ref [rtoks.(0)] and j = ref 0 in
           List.iter (fun t ->
               if t = "/" then keep_units := t :: !keep_units
               else if t = "-" || is_marker t then ()
               else begin
                 incr j;
                 if not (is_rewrite t) then begin
                   keep_units := t :: !keep_units;
                   if !j < Array.length rtoks then keep_res := rtoks.(!j) :: !keep_res
                 end
               end) stoks;
           let oshape = String.concat " " (List.rev !keep_units) in
           let ores = String.concat " " (List.rev !keep_res) in
           let eq = valid && flags_ok && oshape = mshape && ores = mres in
           let count p l = List.length (List.filter p l) in
           let nfin = count (function Fin _ -> true | _ -> false) pops in
           let napplied = count (function Imp (_, a, _) -> a | Fin (_, _, a, _) -> a) pops in
           let refin = (let st = ref sim0 and hit = ref false in
                        List.iter (fun o -> (match o with Fin (b, _, _, _) when b = !st.s_fin && Model.valid !st o -> hit := true | _ -> ());
                                    st := snd (step set_change_units !st o)) pops; !hit) in
           let has_babe = List.exists (function Imp (_, _, BNone) -> false | Imp _ -> true | _ -> false) pops in
           let has_efin = List.exists (function Fin (_, _, _, _ :: _) -> true | _ -> false) pops in
           let tags = String.concat "," (List.filter (fun t -> t <> "") [
               "scenario"; (if single then "single-pending" else "multi-pending");
               (if refin then "refinalise-head" else "");
               (let n = List.length mver in "crash-points-" ^ (if n < 10 then "1..9" else if n < 30 then "10..29" else if n < 60 then "30..59" else "60+"));
               Printf.sprintf "fin-%d" nfin; Printf.sprintf "set-changes-%d" (min napplied 3);
               (if List.exists (function DImp (_, DSched _, _) -> true | _ -> false) dops then "scheduled-change" else "");
               (if List.exists (function DImp (_, DForced _, _) -> true | _ -> false) dops then "forced-change" else "");
               (if has_babe then "babe-digest" else ""); (if has_efin then "epoch-data-finalised" else "");
               (if List.exists is_marker stoks then "change-refused" else "") ]) in
           { prop_ok = prop; model_eq = eq; nontrivial = List.length mver > 1; finding = "-"; tags;
             detail = (if prop && eq then "" else
                       Printf.sprintf "%s%s%s model-shape=[%s] model-verdicts=[%s]"
                         (if prop then "" else if not complete then Printf.sprintf "%d crash points reported for %d recorded write units; " (Array.length rtoks) nunits
                          else "restart after a crash violates the property at " ^ (if first_bad = "" then "a non-monotone point" else first_bad) ^ "; ")
                         (if valid then "" else "model: invalid scenario;")
                         (if flags_ok then "" else "single-pending predictor disagrees about where a set change is applied;") mshape mres) })
      | _ -> { prop_ok = true; model_eq = false; nontrivial = false; finding = "-"; tags = "malformed"; detail = "malformed observation" }
    end
  | _ -> fail "C36: bad input %s" inp

(* vm_compute cross-check: the model's verdicts for the operations as they happened, recomputed
   inside Coq and compared with the verdicts of the real restarts (scenarios without the
   unmodelled change~ rewrite) *)
let coq_babe = function BNone -> "BNone" | BEpoch -> "BEpoch" | BConfig -> "BConfig" | BBoth -> "BBoth"
let coq_key = function
  | KNed (e, b) -> Printf.sprintf "KNed %s %s" (coq_n e) (coq_n b)
  | KNcd (e, b) -> Printf.sprintf "KNcd %s %s" (coq_n e) (coq_n b)
  | KEpd e -> "KEpd " ^ coq_n e | KCfd e -> "KCfd " ^ coq_n e
  | _ -> "KFsn"
let coq_eunit = function
  | EPut k -> "EPut (" ^ coq_key k ^ ")"
  | EDel l -> "EDel [" ^ String.concat "; " (List.map coq_key l) ^ "]"
let coq_bool b = if b then "true" else "false"
let coq_sop = function
  | Imp (p, a, bd) -> Printf.sprintf "Imp %s %s %s" (coq_n p) (coq_bool a) (coq_babe bd)
  | Fin (b, r, a, ep) -> Printf.sprintf "Fin %s %s %s [%s]" (coq_n b) (coq_n r) (coq_bool a)
                           (String.concat "; " (List.map coq_eunit ep))
let coq_verdict = function
  | VOk (b, r, s, g) -> Printf.sprintf "VOk %s %s %s %s" (coq_n b) (coq_n r) (coq_n s) (coq_n g)
  | VFail st -> "VFail " ^ coq_n st
let coq inp obs =
  match split_ws inp, String.split_on_char '#' obs with
  | "sc" :: ops, [shape; results] ->
    let stoks = split_ws shape in
    let vers = List.map parse_verdict (split_ws results) in
    if List.exists is_rewrite stoks || List.exists (fun v -> v = None) vers || List.length vers > 120 then None
    else (match observed_ops ops (split_groups stoks) with
        | None -> None
        | Some (_, pops) ->
          Some (Printf.sprintf "vm_case [%s] [%s]"
                  (String.concat "; " (List.map coq_sop pops))
                  (String.concat "; " (List.map (function Some v -> coq_verdict v | None -> "VFail 0%N") vers))))
  | _ -> None

let () = run_driver ~coq check
