// C36 crash-consistency harness (injected into package dot/state by `go test -overlay`).
//
// A scenario runs the REAL BlockState / StorageState / EpochState / GrandpaState over a recording
// wrapper of the in-memory Pebble database: every Put / Del and every Batch.Flush (one atomic unit)
// is appended to a log.  Then, for EVERY prefix of the log (crash after that write), a fresh
// in-memory database is populated with the prefix and the real restart path (Service.Start) is
// run on it, and the conclusions of property C36 are checked on the restarted service.
//
// input:  sc <op>...            blocks are numbered in creation order, 0 = genesis
//
//	i:<parent>:<dig>[:<babe>]
//	                   import a child of block <parent> (StoreTrie, AddBlock, HandleGRANDPADigest,
//	                   HandleBABEDigest, ApplyForcedChanges as dot/core.handleBlock does); <dig> is  n
//	                   (no digest), s<delay> (GRANDPA scheduled change), f<delay> (forced change,
//	                   best finalised block = the finalised number at that time); <babe> is  e
//	                   (NextEpochData digest), c (NextConfigData), ec (both)
//	f:<blk>:<round>    finalise block <blk> in round <round> of the current set, as lib/grandpa and
//	                   dot/digest do: SetJustification, SetPrevotes, SetPrecommits, SetFinalisedHash,
//	                   SetLatestRound, FinalizeBABENextEpochData, FinalizeBABENextConfigData,
//	                   ApplyScheduledChanges
//
// Any number of GRANDPA changes may be pending at once.  When HandleGRANDPADigest, ApplyForcedChanges
// or ApplyScheduledChanges refuses (e.g. errAlreadyHasForcedChange, errUnfinalizedAncestor) the
// scenario goes on, as the node does (the digest handler logs the error), and the group of the
// operation carries a marker err-digest / err-forced / err-sched (not a write unit).
//	                   (<blk> may be the finalised head itself: a later round finalising it again)
//
// observed:  <log shape> # <one result per prefix>   or  err:<op index>:<what>
//
//	log shape: one token per atomic unit, "/" between operations:
//	  st (the trie batch)  jst:<blk> pv:<round>:<set> pc:<round>:<set> hdr:<blk> blb:<blk> arr:<blk> fsn [hsh:<n>+hsh:<n>..] fh:<round>:<set>=<blk>
//	  ned:<epoch>:<blk> ncd:<epoch>:<blk> (announcements) epd:<epoch> cfd:<epoch> [del-ned:..+..]
//	  hrs:<round>:<set> lfr:<round> setID:<v> auth:<set> change:<set> (change~:<set> when the key
//	  already existed: a rewrite of the activation block of an existing set)  other:<key>
//	prefix result (prefixes from "genesis complete" to the whole log):
//	  ok:<finalised blk>:<round>:<set>:<grandpa set>   |   fail:<stage>
//	  stages: start, header, body, state, hrs, setid, auth, change, panic
package state

import (
	"encoding/binary"
	"encoding/json"
	"fmt"
	"strconv"
	"strings"
	"testing"

	"github.com/ChainSafe/gossamer/dot/types"
	"github.com/ChainSafe/gossamer/internal/database"
	vu "github.com/ChainSafe/gossamer/internal/verifutil"
	"github.com/ChainSafe/gossamer/lib/common"
	"github.com/ChainSafe/gossamer/lib/crypto/ed25519"
	"github.com/ChainSafe/gossamer/lib/keystore"
	inmemory_trie "github.com/ChainSafe/gossamer/pkg/trie/inmemory"
)

type c36Op struct {
	del  bool
	k, v []byte
}
type c36Unit struct {
	batch bool
	ops   []c36Op
	opIdx int // scenario operation that issued it (-1: genesis)
}

type c36RecDB struct {
	database.Database
	log   *[]c36Unit
	opIdx *int
}

func c36cp(b []byte) []byte { return append([]byte{}, b...) }

func (r *c36RecDB) Put(k, v []byte) error {
	*r.log = append(*r.log, c36Unit{ops: []c36Op{{k: c36cp(k), v: c36cp(v)}}, opIdx: *r.opIdx})
	return r.Database.Put(k, v)
}
func (r *c36RecDB) Del(k []byte) error {
	*r.log = append(*r.log, c36Unit{ops: []c36Op{{del: true, k: c36cp(k)}}, opIdx: *r.opIdx})
	return r.Database.Del(k)
}
func (r *c36RecDB) NewBatch() database.Batch {
	return &c36RecBatch{Batch: r.Database.NewBatch(), r: r}
}

type c36RecBatch struct {
	database.Batch
	r       *c36RecDB
	pending []c36Op
}

func (b *c36RecBatch) Put(k, v []byte) error {
	b.pending = append(b.pending, c36Op{k: c36cp(k), v: c36cp(v)})
	return b.Batch.Put(k, v)
}
func (b *c36RecBatch) Del(k []byte) error {
	b.pending = append(b.pending, c36Op{del: true, k: c36cp(k)})
	return b.Batch.Del(k)
}
func (b *c36RecBatch) Flush() error {
	if len(b.pending) > 0 {
		*b.r.log = append(*b.r.log, c36Unit{batch: true, ops: b.pending, opIdx: *b.r.opIdx})
	}
	b.pending = nil
	return b.Batch.Flush()
}
func (b *c36RecBatch) Reset() { b.pending = nil; b.Batch.Reset() }

type c36Telemetry struct{}

func (c36Telemetry) SendMessage(json.Marshaler) {}

var c36BabeCfg = &types.BabeConfiguration{SlotDuration: 1000, EpochLength: 200, C1: 1, C2: 4,
	GenesisAuthorities: []types.AuthorityRaw{}}

type c36World struct {
	base  database.Database
	log   []c36Unit
	opIdx int
	bs    *BlockState
	ss    *InmemoryStorageState
	gs    *GrandpaState
	es    *EpochState
	marks map[int][]string // op index -> markers
	nOps  int
	hdrs  []*types.Header     // by block index
	idx   map[common.Hash]int // hash -> block index
	seen  map[string]bool     // keys written so far (to tell a rewrite of change|s)
	kr    *keystore.Ed25519Keyring
	nGen  int
}

func c36Voters(kr *keystore.Ed25519Keyring, n int) []types.GrandpaVoter {
	keys := []*ed25519.Keypair{kr.Alice().(*ed25519.Keypair), kr.Bob().(*ed25519.Keypair), kr.Charlie().(*ed25519.Keypair)}
	var out []types.GrandpaVoter
	for i := 0; i < n && i < len(keys); i++ {
		out = append(out, types.GrandpaVoter{Key: *keys[i].Public().(*ed25519.PublicKey), ID: uint64(i)})
	}
	return out
}

func c36AuthsRaw(kr *keystore.Ed25519Keyring, n int) []types.GrandpaAuthoritiesRaw {
	var out []types.GrandpaAuthoritiesRaw
	for i, v := range c36Voters(kr, n) {
		out = append(out, types.GrandpaAuthoritiesRaw{Key: v.Key.AsBytes(), ID: uint64(i)})
	}
	return out
}

func c36NewWorld() (*c36World, error) {
	base, err := database.NewPebble("", true)
	if err != nil {
		return nil, err
	}
	w := &c36World{base: base, opIdx: -1, idx: map[common.Hash]int{}, seen: map[string]bool{}, marks: map[int][]string{}}
	rec := &c36RecDB{Database: base, log: &w.log, opIdx: &w.opIdx}
	tele := c36Telemetry{}

	genTrie := inmemory_trie.NewEmptyTrie()
	for i := 0; i < 4; i++ {
		if err := genTrie.Put([]byte(fmt.Sprintf("genkey%d", i)), make([]byte, 40+i)); err != nil {
			return nil, err
		}
	}
	if err := genTrie.WriteDirty(database.NewTable(rec, storagePrefix)); err != nil {
		return nil, err
	}
	gen := &types.Header{Number: 0, StateRoot: genTrie.MustHash(), Digest: types.NewDigest()}
	tries := NewTries()
	tries.SetTrie(genTrie)
	if w.bs, err = NewBlockStateFromGenesis(rec, tries, gen, tele); err != nil {
		return nil, err
	}
	if w.ss, err = NewStorageState(rec, w.bs, tries); err != nil {
		return nil, err
	}
	if w.es, err = NewEpochStateFromGenesis(rec, w.bs, c36BabeCfg); err != nil {
		return nil, err
	}
	if w.kr, err = keystore.NewEd25519Keyring(); err != nil {
		return nil, err
	}
	if w.gs, err = NewGrandpaStateFromGenesis(rec, w.bs, c36Voters(w.kr, 1), tele); err != nil {
		return nil, err
	}
	w.hdrs = []*types.Header{gen}
	w.idx[gen.Hash()] = 0
	w.nGen = len(w.log)
	return w, nil
}

func (w *c36World) importBlock(parent int, dig, babe string) error {
	if parent < 0 || parent >= len(w.hdrs) {
		return fmt.Errorf("no such parent")
	}
	p := w.hdrs[parent]
	me := len(w.hdrs)
	ts, err := w.ss.TrieState(&p.StateRoot)
	if err != nil {
		return fmt.Errorf("triestate: %w", err)
	}
	if err := ts.Put([]byte(fmt.Sprintf("blk%d", me)), make([]byte, 40+me)); err != nil {
		return err
	}
	root, err := ts.Trie().Hash()
	if err != nil {
		return err
	}
	prd, err := types.NewBabePrimaryPreDigest(0, uint64(100+me), [32]byte{}, [64]byte{}).ToPreRuntimeDigest()
	if err != nil {
		return err
	}
	dg := types.NewDigest()
	if err := dg.Add(*prd); err != nil {
		return err
	}
	blk := &types.Block{
		Header: types.Header{ParentHash: p.Hash(), Number: p.Number + 1, StateRoot: root, Digest: dg},
		Body:   *types.NewBody([]types.Extrinsic{[]byte{byte(me)}}),
	}
	if err := w.ss.StoreTrie(ts, &blk.Header); err != nil {
		return fmt.Errorf("storetrie: %w", err)
	}
	if err := w.bs.AddBlock(blk); err != nil {
		return fmt.Errorf("addblock: %w", err)
	}
	w.hdrs = append(w.hdrs, &blk.Header)
	w.idx[blk.Header.Hash()] = me
	if dig != "n" {
		delay := uint32(vu.UnX(dig[1:]))
		d := types.NewGrandpaConsensusDigest()
		switch dig[0] {
		case 's':
			err = d.SetValue(types.GrandpaScheduledChange{Auths: c36AuthsRaw(w.kr, 2), Delay: delay})
		case 'f':
			fin, ferr := w.bs.GetHighestFinalisedHeader()
			if ferr != nil {
				return ferr
			}
			err = d.SetValue(types.GrandpaForcedChange{Auths: c36AuthsRaw(w.kr, 3), Delay: delay,
				BestFinalizedBlock: uint32(fin.Number)})
		default:
			return fmt.Errorf("bad digest")
		}
		if err != nil {
			return err
		}
		if err := w.gs.HandleGRANDPADigest(&blk.Header, d); err != nil {
			w.marks[w.opIdx] = append(w.marks[w.opIdx], "err-digest")
		}
	}
	if strings.Contains(babe, "e") {
		d := types.NewBabeConsensusDigest()
		if err := d.SetValue(types.NextEpochData{Authorities: []types.AuthorityRaw{}, Randomness: [32]byte{byte(me)}}); err != nil {
			return err
		}
		if err := w.es.HandleBABEDigest(&blk.Header, d); err != nil {
			return fmt.Errorf("babe epoch digest: %w", err)
		}
	}
	if strings.Contains(babe, "c") {
		v := types.NewVersionedNextConfigData()
		if err := v.SetValue(types.NextConfigDataV1{C1: 1, C2: uint64(4 + me), SecondarySlots: 1}); err != nil {
			return err
		}
		d := types.NewBabeConsensusDigest()
		if err := d.SetValue(v); err != nil {
			return err
		}
		if err := w.es.HandleBABEDigest(&blk.Header, d); err != nil {
			return fmt.Errorf("babe config digest: %w", err)
		}
	}
	if err := w.gs.ApplyForcedChanges(&blk.Header); err != nil {
		w.marks[w.opIdx] = append(w.marks[w.opIdx], "err-forced")
	}
	return nil
}

func (w *c36World) finalise(blk int, round uint64) error {
	if blk < 0 || blk >= len(w.hdrs) {
		return fmt.Errorf("no such block")
	}
	h := w.hdrs[blk]
	set, err := w.gs.GetCurrentSetID()
	if err != nil {
		return err
	}
	// lib/grandpa (finalise) stores the justification of the block and the votes of the round before
	// it moves the finalised head
	if err := w.bs.SetJustification(h.Hash(), []byte{0xa, byte(blk), byte(round)}); err != nil {
		return fmt.Errorf("justification: %w", err)
	}
	if err := w.gs.SetPrevotes(round, set, []types.GrandpaSignedVote{}); err != nil {
		return fmt.Errorf("prevotes: %w", err)
	}
	if err := w.gs.SetPrecommits(round, set, []types.GrandpaSignedVote{}); err != nil {
		return fmt.Errorf("precommits: %w", err)
	}
	if err := w.bs.SetFinalisedHash(h.Hash(), round, set); err != nil {
		return fmt.Errorf("setfinalised: %w", err)
	}
	if err := w.gs.SetLatestRound(round); err != nil {
		return err
	}
	// dot/digest.handleBlockFinalisation: errors are logged, the handler goes on
	_ = w.es.FinalizeBABENextEpochData(h)
	_ = w.es.FinalizeBABENextConfigData(h)
	if err := w.gs.ApplyScheduledChanges(h); err != nil {
		w.marks[w.opIdx] = append(w.marks[w.opIdx], "err-sched")
	}
	return nil
}

func c36HasPrefix(k []byte, p string) ([]byte, bool) {
	if len(k) >= len(p) && string(k[:len(p)]) == p {
		return k[len(p):], true
	}
	return nil, false
}

func (w *c36World) blkOf(h []byte) string {
	if len(h) == 32 {
		if i, ok := w.idx[common.BytesToHash(h)]; ok {
			return vu.X(uint64(i))
		}
	}
	return "?"
}

func (w *c36World) token(o c36Op) string {
	k := o.k
	pre := ""
	if o.del {
		pre = "del-"
	}
	if r, ok := c36HasPrefix(k, "storage"); ok {
		_ = r
		return pre + "st"
	}
	if r, ok := c36HasPrefix(k, "block"); ok {
		if h, ok := c36HasPrefix(r, "hdr"); ok {
			return pre + "hdr:" + w.blkOf(h)
		}
		if h, ok := c36HasPrefix(r, "blb"); ok {
			return pre + "blb:" + w.blkOf(h)
		}
		if h, ok := c36HasPrefix(r, "arr"); ok {
			return pre + "arr:" + w.blkOf(h)
		}
		if h, ok := c36HasPrefix(r, "jcp"); ok {
			return pre + "jst:" + w.blkOf(h)
		}
		if h, ok := c36HasPrefix(r, "hsh"); ok && len(h) == 8 {
			return pre + "hsh:" + vu.X(binary.BigEndian.Uint64(h))
		}
		if string(r) == "fsn" {
			return pre + "fsn"
		}
		if string(r) == "hrs" && len(o.v) == 16 {
			return pre + "hrs:" + vu.X(binary.LittleEndian.Uint64(o.v[:8])) + ":" + vu.X(binary.LittleEndian.Uint64(o.v[8:]))
		}
		if h, ok := c36HasPrefix(r, "finalised_head"); ok && len(h) == 16 {
			return pre + "fh:" + vu.X(binary.LittleEndian.Uint64(h[:8])) + ":" + vu.X(binary.LittleEndian.Uint64(h[8:])) + "=" + w.blkOf(o.v)
		}
	}
	if r, ok := c36HasPrefix(k, "epoch"); ok {
		ann := func(kind string, x []byte) string { // "<epoch>:0x<hash>"
			parts := strings.Split(string(x), ":")
			if len(parts) == 2 {
				if e, err := strconv.ParseUint(parts[0], 10, 64); err == nil {
					if hb, err := common.HexToBytes(parts[1]); err == nil {
						return pre + kind + ":" + vu.X(e) + ":" + w.blkOf(hb)
					}
				}
			}
			return pre + kind + ":?"
		}
		if x, ok := c36HasPrefix(r, "nextepochdata"); ok {
			return ann("ned", x)
		}
		if x, ok := c36HasPrefix(r, "nextconfigdata"); ok {
			return ann("ncd", x)
		}
		if x, ok := c36HasPrefix(r, "epochinfo"); ok && len(x) == 8 {
			return pre + "epd:" + vu.X(binary.LittleEndian.Uint64(x))
		}
		if x, ok := c36HasPrefix(r, "configinfo"); ok && len(x) == 8 {
			return pre + "cfd:" + vu.X(binary.LittleEndian.Uint64(x))
		}
	}
	if r, ok := c36HasPrefix(k, "grandpa"); ok {
		if string(r) == "setID" && len(o.v) == 8 {
			return pre + "setID:" + vu.X(binary.LittleEndian.Uint64(o.v))
		}
		if string(r) == "latest_finalised_round" && len(o.v) == 8 {
			return pre + "lfr:" + vu.X(binary.LittleEndian.Uint64(o.v))
		}
		if h, ok := c36HasPrefix(r, "pv"); ok && len(h) == 16 {
			return pre + "pv:" + vu.X(binary.LittleEndian.Uint64(h[:8])) + ":" + vu.X(binary.LittleEndian.Uint64(h[8:]))
		}
		if h, ok := c36HasPrefix(r, "pc"); ok && len(h) == 16 {
			return pre + "pc:" + vu.X(binary.LittleEndian.Uint64(h[:8])) + ":" + vu.X(binary.LittleEndian.Uint64(h[8:]))
		}
		if h, ok := c36HasPrefix(r, "auth"); ok && len(h) == 8 {
			return pre + "auth:" + vu.X(binary.LittleEndian.Uint64(h))
		}
		if h, ok := c36HasPrefix(r, "change"); ok && len(h) == 8 {
			if w.seen[string(k)] {
				return pre + "change~:" + vu.X(binary.LittleEndian.Uint64(h))
			}
			return pre + "change:" + vu.X(binary.LittleEndian.Uint64(h))
		}
	}
	i := 0
	for i < len(k) && k[i] >= 0x21 && k[i] < 0x7f && k[i] != '/' && k[i] != '#' {
		i++
	}
	return pre + "other:" + string(k[:i])
}

func (w *c36World) shape() string {
	var out []string
	units := w.log[w.nGen:]
	u := 0
	for op := 0; op < w.nOps; op++ {
		if op > 0 {
			out = append(out, "/")
		}
		for u < len(units) && units[u].opIdx == op {
			un := units[u]
			u++
			toks := make([]string, len(un.ops))
			allSt := true
			for i, o := range un.ops {
				toks[i] = w.token(o)
				if toks[i] != "st" {
					allSt = false
				}
			}
			for _, o := range un.ops {
				w.seen[string(o.k)] = true
			}
			switch {
			case un.batch && allSt:
				out = append(out, "st")
			case un.batch:
				out = append(out, "["+strings.Join(toks, "+")+"]")
			default:
				out = append(out, toks[0])
			}
		}
		out = append(out, w.marks[op]...)
	}
	if u != len(units) {
		out = append(out, "/", "unattributed")
	}
	if len(out) == 0 {
		return "-"
	}
	return strings.Join(out, " ")
}

// c36Restart runs the real restart path on db and checks the conclusions of the property.
func (w *c36World) restart(db database.Database) (res string) {
	defer func() {
		if r := recover(); r != nil {
			res = "fail:panic"
		}
	}()
	svc := NewService(Config{GenesisBABEConfig: c36BabeCfg, Telemetry: c36Telemetry{}})
	svc.UseMemDB()
	svc.db = db
	if err := svc.Start(); err != nil {
		return "fail:start"
	}
	h, err := svc.Block.GetHighestFinalisedHeader()
	if err != nil {
		return "fail:header"
	}
	if _, err := svc.Block.GetBlockBody(h.Hash()); err != nil {
		return "fail:body"
	}
	if _, err := svc.Storage.LoadFromDB(h.StateRoot); err != nil {
		return "fail:state"
	}
	r, s, err := svc.Block.GetHighestRoundAndSetID()
	if err != nil {
		return "fail:hrs"
	}
	sid, err := svc.Grandpa.GetCurrentSetID()
	if err != nil {
		return "fail:setid"
	}
	if a, err := svc.Grandpa.GetAuthorities(sid); err != nil || len(a) == 0 {
		return "fail:auth"
	}
	if _, err := svc.Grandpa.GetSetIDChange(sid); err != nil {
		return "fail:change"
	}
	return "ok:" + w.blkOf(h.Hash().ToBytes()) + ":" + vu.X(r) + ":" + vu.X(s) + ":" + vu.X(sid)
}

func (w *c36World) crashPoints() string {
	var out []string
	for k := w.nGen; k <= len(w.log); k++ {
		db, err := database.NewPebble("", true)
		if err != nil {
			return "fail:newdb"
		}
		for _, u := range w.log[:k] {
			for _, o := range u.ops {
				if o.del {
					_ = db.Del(o.k)
				} else {
					_ = db.Put(o.k, o.v)
				}
			}
		}
		out = append(out, w.restart(db))
		_ = db.Close()
	}
	return strings.Join(out, " ")
}

func c36Run(in string) string {
	f := strings.Split(in, " ")
	if f[0] != "sc" {
		return "err:badinput"
	}
	w, err := c36NewWorld()
	if err != nil {
		return "err:genesis:" + strings.ReplaceAll(err.Error(), " ", "_")
	}
	defer w.base.Close()
	w.nOps = len(f) - 1
	for i, op := range f[1:] {
		w.opIdx = i
		p := strings.Split(op, ":")
		var err error
		switch {
		case p[0] == "i" && len(p) == 3:
			err = w.importBlock(int(vu.UnX(p[1])), p[2], "")
		case p[0] == "i" && len(p) == 4:
			err = w.importBlock(int(vu.UnX(p[1])), p[2], p[3])
		case p[0] == "f" && len(p) == 3:
			err = w.finalise(int(vu.UnX(p[1])), vu.UnX(p[2]))
		default:
			err = fmt.Errorf("bad op")
		}
		if err != nil {
			return fmt.Sprintf("err:%x:%s", i, strings.ReplaceAll(err.Error(), " ", "_"))
		}
	}
	return w.shape() + " # " + w.crashPoints()
}

// ---- scenario generator: keeps a little model of the block tree so that every operation is valid

type c36GenBlock struct {
	parent, num int
}

func c36Gen(r *vu.RNG, n int, emit func(string)) {
	emit("sc")
	emit("sc i:0:n i:1:s0 i:2:n f:2:1 f:3:1")
	emit("sc i:0:n i:1:f1 i:2:n i:3:n f:3:1")
	emit("sc i:0:n i:0:n i:1:n i:2:n f:3:1 i:3:s1 i:5:n f:6:2")
	emit("sc i:0:n f:1:1 f:1:2 i:1:s1 f:1:3 i:2:n f:3:4 f:3:1")
	emit("sc f:0:1 i:0:n f:0:2 f:1:3")
	emit("sc i:0:n:e i:0:n:ec i:1:n i:3:n f:3:1 i:4:n:c f:5:2")
	emit("sc i:0:s1 i:1:s0 i:2:n f:2:1 f:3:2 i:3:n f:4:3")
	emit("sc i:0:s0 i:0:s1 i:1:f1 i:3:n i:2:n f:4:1 f:4:2")
	emit("sc i:0:f2 i:1:s0 i:2:n i:3:n f:2:1")
	for c := 0; c < n; c++ {
		blocks := []c36GenBlock{{-1, 0}}
		fin := 0
		round := 0
		sched := -1 // block announcing a pending scheduled change
		schedD := 0
		forced := -1 // block announcing a pending forced change
		forcedD := 0
		isAnc := func(a, b int) bool { // a is an ancestor of b or b itself
			for b >= 0 {
				if a == b {
					return true
				}
				b = blocks[b].parent
			}
			return false
		}
		alive := func(b int) bool { return isAnc(fin, b) }
		nops := r.Range(3, 14)
		// every third scenario leaves the single-pending class: announcements are made whatever is
		// pending (several scheduled changes on one chain and on forks, forced and scheduled
		// together), any live block may be finalised, rounds just keep growing
		multi := c%3 == 2
		var ops []string
		for len(ops) < nops {
			if r.Chance(7, 10) || len(blocks) < 2 {
				// import on a live block, mostly near the tips
				var cand []int
				for b := range blocks {
					if alive(b) {
						cand = append(cand, b)
					}
				}
				p := cand[len(cand)-1-r.Intn(min(len(cand), 3))]
				me := len(blocks)
				num := blocks[p].num + 1
				dig := "n"
				if (multi || (sched < 0 && forced < 0)) && r.Chance(1, 3) {
					d := r.Intn(3)
					if r.Chance(2, 3) {
						dig = fmt.Sprintf("s%x", d)
						sched, schedD = me, d
					} else {
						dig = fmt.Sprintf("f%x", d)
						forced, forcedD = me, d
					}
				}
				blocks = append(blocks, c36GenBlock{p, num})
				babe := ""
				if r.Chance(1, 4) {
					babe = []string{":e", ":c", ":ec"}[r.Intn(3)]
				}
				ops = append(ops, fmt.Sprintf("i:%x:%s%s", p, dig, babe))
				if !multi && forced >= 0 && isAnc(forced, me) && blocks[forced].num+forcedD == num {
					forced = -1 // applied at this import: new set, rounds restart
					round = 0
				}
			} else {
				// finalise a live descendant of the finalised block
				var cand []int
				for b := range blocks {
					if multi && alive(b) {
						cand = append(cand, b)
						continue
					}
					if b != fin && alive(b) {
						// a pending scheduled change is either applied by this finalisation (announced
						// on the finalised chain and effective) or stays pending on a descendant
						if sched >= 0 && !(isAnc(sched, b) && blocks[b].num >= blocks[sched].num+schedD) &&
							!(isAnc(b, sched) && b != sched) {
							continue
						}
						// a pending forced change stays pending on a descendant
						if forced >= 0 && !(isAnc(b, forced) && b != forced) {
							continue
						}
						cand = append(cand, b)
					}
				}
				// a later round finalising the finalised head again (handleFinalisedBlock returns
				// early: only the pointer writes happen); pending changes sit on strict descendants
				if r.Chance(1, 4) {
					cand = []int{fin}
				}
				if len(cand) == 0 {
					continue
				}
				b := cand[r.Intn(len(cand))]
				round++
				ops = append(ops, fmt.Sprintf("f:%x:%x", b, round))
				fin = b
				if !multi && sched >= 0 && isAnc(sched, b) {
					sched = -1 // applied: new set, rounds restart
					round = 0
				}
			}
		}
		emit("sc " + strings.Join(ops, " "))
	}
}

func TestVerifC36(t *testing.T) { vu.Run(t, "C36", 6, c36Gen, c36Run) }
