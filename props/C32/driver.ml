(* C32 driver: replays the Go trace (props/C32/harness_test.go) on the extracted model of
   FullSyncStrategy.Process and evaluates the property predicate history_ok_b (the one the
   C32 theorems are about) on the implementation's observables. *)
open Model
open Vutil

let ni = n_of_int
(* debugging aid: VERIF_C32_PREFIX=1 replays the model of the pinned (unrepaired) code *)
let fixed = (Sys.getenv_opt "VERIF_C32_PREFIX" = None)
let unknown_base = 0x10000
let name_of (h : n) : string =
  let i = int_of_n h in
  if i >= unknown_base then "u" ^ Printf.sprintf "%x" (i - unknown_base) else Printf.sprintf "%x" i
let hash_of_name (s : string) : n =
  if String.length s > 0 && s.[0] = 'u' then
    ni (unknown_base + int_of_n (n_of_hex (String.sub s 1 (String.length s - 1))))
  else n_of_hex s

let split c s = String.split_on_char c s
let join sep l = if l = [] then "-" else String.concat sep l

(* ---- parsing the input *)
let parse_headers s : header array =
  let root = { h_hash = N0; h_parent = ni 0xffffffff; h_number = N0 } in
  if s = "-" then [| root |] else
  Array.of_list (root :: List.mapi (fun i e ->
    match split '.' e with
    | [p; n] ->
      let p = int_of_n (n_of_hex p) in
      { h_hash = ni (i + 1); h_parent = (if p >= 0x8000 then ni (unknown_base + p) else ni p);
        h_number = n_of_hex n }
    | _ -> fail "bad header %s" e) (split ';' s))

let parse_blocks (hd : header array) s : bdata list =
  if s = "-" then [] else
  List.map (fun e -> match split '/' e with
    | [st; h; f] ->
      let fl = int_of_n (n_of_hex f) in
      { d_hash = hash_of_name st;
        d_header = (if h = "-" then None else Some hd.(int_of_n (n_of_hex h)));
        d_body = (fl land 1 <> 0); d_just = (fl land 2 <> 0) }
    | _ -> fail "bad block %s" e) (split ',' s)

let parse_results hd s : result list =
  if s = "" then [] else
  List.map (fun r -> match split ':' r with
    | [who; c; fields; dir; blocks] ->
      { r_who = n_of_hex who; r_completed = (c = "1");
        r_req = { q_fields = n_of_hex fields; q_dir = n_of_hex dir };
        r_resp = parse_blocks hd blocks }
    | _ -> fail "bad result %s" r) (split '+' s)

let parse_steps hd s : step list =
  List.map (fun st ->
    let arg = String.sub st 1 (String.length st - 1) in
    match st.[0] with
    | 'A' -> SAnnounce hd.(int_of_n (n_of_hex arg))
    | 'K' -> SKnown (n_of_hex arg)
    | 'F' -> SFinal (n_of_hex arg)
    | 'P' -> SProcess (parse_results hd arg)
    | _ -> fail "bad step %s" st) (split '|' s)

(* ---- rendering the model's results *)
let ev_str = function
  | EImport s -> "i" ^ name_of s | ESkip s -> "s" ^ name_of s | EOrphan s -> "o" ^ name_of s
  | EDup s -> "d" ^ name_of s | ENothing s -> "n" ^ name_of s | EFinal s -> "f" ^ name_of s

let acc_str bad rs =
  if rs = [] then "-" else
  match accepted fixed fixed fixed bad rs with
  | Some l -> String.concat "" (List.map (fun b -> if b then "1" else "0") l)
  | None -> "!"

let render_process bad rs (r : presult) =
  let st = r.pr_state in
  String.concat ";" [
    (if r.pr_error then "err" else "ok");
    join "," (List.map ev_str r.pr_events);
    join "," (List.map (fun (w, c) -> hex_of_n w ^ "." ^ hex_of_n c) r.pr_reps);
    join "," (List.map hex_of_n r.pr_bans);
    join "," (List.sort compare (List.map (fun b -> name_of b.d_hash) st.p_un.u_incomplete));
    join "+" (List.map (fun f -> join "." (List.map (fun b -> name_of b.d_hash) f)) st.p_un.u_disjoint);
    join "," (List.map name_of st.p_queue);
    acc_str bad rs ]

(* ---- parsing the observation of one Process step: events and accept decisions *)
let parse_event e =
  let s = hash_of_name (String.sub e 1 (String.length e - 1)) in
  match e.[0] with
  | 'i' -> EImport s | 's' -> ESkip s | 'o' -> EOrphan s | 'd' -> EDup s | 'n' -> ENothing s
  | 'f' -> EFinal s | _ -> fail "bad event %s" e
let parse_events s = if s = "-" then [] else List.map parse_event (split ',' s)
let parse_acc s = if s = "-" || s = "!" then [] else List.init (String.length s) (fun i -> s.[i] = '1')

let check inp obs =
  match split_ws inp with
  | [hdrs; bad; steps] ->
    let hd = parse_headers hdrs in
    let badl = if bad = "-" then [] else List.map n_of_hex (split ',' bad) in
    let stepl = parse_steps hd steps in
    (* model *)
    let ((outs, panicked), _) = run fixed fixed fixed badl (init_state N0) stepl in
    let rec render steps outs = match steps, outs with
      | s :: sr, o :: orr ->
        (match s, o with
         | SProcess rs, Some r -> render_process badl rs r
         | _, _ -> ".") :: render sr orr
      | s :: _, [] ->
        if panicked then (match s with
          | SProcess rs -> ["panic;-;" ^ acc_str badl rs]
          | _ -> ["panic"]) else []
      | [], _ -> [] in
    let m = String.concat "|" (render stepl outs) in
    (* property predicate on the observables *)
    let obs_steps = split '|' obs in
    let obs_panic = List.exists (fun o -> String.length o >= 5 && String.sub o 0 5 = "panic") obs_steps in
    let proc_obs = List.filter (fun o -> o <> ".") obs_steps in
    let parsed = List.map (fun o -> match split ';' o with
      | [_; ev; _; _; _; _; _; acc] -> (parse_events ev, parse_acc acc)
      | [_; ev; acc] -> (parse_events ev, parse_acc acc)
      | _ -> fail "bad observation %s" o) proc_obs in
    let wf = steps_wf_b stepl in
    let hist = history_ok_b [] stepl parsed in
    let prop = (not obs_panic) && ((not wf) || hist) in
    let all_events = List.concat (List.map fst parsed) in
    let nimports = List.length (List.filter (function EImport _ -> true | _ -> false) all_events) in
    let has f = List.exists f all_events in
    let any_reject = List.exists (fun s -> match s with
      | SProcess rs -> List.exists must_reject rs | _ -> false) stepl in
    let tags = String.concat "," (List.filter (fun x -> x <> "") [
      (if wf then "wf-history" else "outside-precondition");
      (if obs_panic then "panic" else "");
      (if nimports > 0 then "imports" else "no-import");
      (if has (function ESkip _ -> true | _ -> false) then "skip-known" else "");
      (if has (function EOrphan _ -> true | _ -> false) then "orphan-refused" else "");
      (if has (function EDup _ -> true | _ -> false) then "dup-refused" else "");
      (if has (function EFinal _ -> true | _ -> false) then "finalises" else "");
      (if any_reject then "has-forged-or-unlinked" else "");
      (if List.exists (fun o -> match split ';' o with
           | [_; _; _; _; _; d; _; _] -> d <> "-" | _ -> false) proc_obs then "disjoint-kept" else "");
      (if List.exists (fun s -> match s with SAnnounce _ -> true | _ -> false) stepl then "announce" else "") ]) in
    { prop_ok = prop; model_eq = (m = obs); nontrivial = nimports > 0; finding = "-"; tags;
      detail = if prop && m = obs then "" else
          Printf.sprintf "%s model=%s" (if prop then "" else if obs_panic then "Process panicked"
                                        else "importer handed an orphan/duplicate or a forged/unlinked response accepted")
            (if String.length m > 600 then String.sub m 0 600 ^ "..." else m) }
  | ["imp"; hdrs; known; fin; blocks] ->
    (* the environment model against the real blockImporter *)
    let hd = parse_headers hdrs in
    let kn = N0 :: (if known = "-" then [] else List.map n_of_hex (split ',' known)) in
    let e = { known = kn; fin = n_of_hex fin } in
    let ((evs, _), err) = import_all e (parse_blocks hd blocks) in
    let m = join "," (List.map ev_str evs) ^ " " ^ (if err then "err" else "ok") in
    let has f = List.exists f evs in
    { prop_ok = true; model_eq = (m = obs);
      nontrivial = has (function EImport _ -> true | _ -> false); finding = "-";
      tags = String.concat "," (List.filter (fun x -> x <> "") [ "importer";
        (if has (function EImport _ -> true | _ -> false) then "importer-import" else "");
        (if has (function ESkip _ -> true | _ -> false) then "importer-skip" else "");
        (if has (function EOrphan _ -> true | _ -> false) then "importer-orphan" else "");
        (if has (function EDup _ -> true | _ -> false) then "importer-dup" else "");
        (if has (function ENothing _ -> true | _ -> false) then "importer-nothing" else "");
        (if has (function EFinal _ -> true | _ -> false) then "importer-final" else "") ]);
      detail = if m = obs then "" else "model=" ^ m }
  | _ -> fail "C32: bad input %s" inp

let () = run_driver check
