(* C32 driver: replays the Go trace (props/C32/harness_test.go) on the extracted model of
   FullSyncStrategy.Process and evaluates the property predicate history_ok_b (the one the
   C32 theorems are about) on the implementation's observables. *)
open Model
open Vutil

let ni = n_of_int
(* debugging aid: VERIF_C32_PREFIX=1 replays the model of the pinned (unrepaired) code *)
let fixed = (Sys.getenv_opt "VERIF_C32_PREFIX" = None)
let unknown_base = 0x10000
let name_of (h : n) : string =
  let i = int_of_n h in
  if i >= unknown_base then "u" ^ Printf.sprintf "%x" (i - unknown_base) else Printf.sprintf "%x" i
let hash_of_name (s : string) : n =
  if String.length s > 0 && s.[0] = 'u' then
    ni (unknown_base + int_of_n (n_of_hex (String.sub s 1 (String.length s - 1))))
  else n_of_hex s

let split c s = String.split_on_char c s
let join sep l = if l = [] then "-" else String.concat sep l

(* ---- parsing the input *)
let parse_headers s : header array =
  let root = { h_hash = N0; h_parent = ni 0xffffffff; h_number = N0 } in
  if s = "-" then [| root |] else
  Array.of_list (root :: List.mapi (fun i e ->
    match split '.' e with
    | [p; n] ->
      let p = int_of_n (n_of_hex p) in
      { h_hash = ni (i + 1); h_parent = (if p >= 0x8000 then ni (unknown_base + p) else ni p);
        h_number = n_of_hex n }
    | _ -> fail "bad header %s" e) (split ';' s))

let parse_blocks (hd : header array) s : bdata list =
  if s = "-" then [] else
  List.map (fun e -> match split '/' e with
    | [st; h; f] ->
      let fl = int_of_n (n_of_hex f) in
      { d_hash = hash_of_name st;
        d_header = (if h = "-" then None else Some hd.(int_of_n (n_of_hex h)));
        d_body = (fl land 1 <> 0); d_just = (fl land 2 <> 0) }
    | _ -> fail "bad block %s" e) (split ',' s)

let parse_results hd s : result list =
  if s = "" then [] else
  List.map (fun r -> match split ':' r with
    | [who; c; fields; dir; blocks] ->
      { r_who = n_of_hex who; r_completed = (c = "1");
        r_req = { q_fields = n_of_hex fields; q_dir = n_of_hex dir };
        r_resp = parse_blocks hd blocks }
    | _ -> fail "bad result %s" r) (split '+' s)

let parse_steps hd s : step list =
  List.map (fun st ->
    let arg = String.sub st 1 (String.length st - 1) in
    match st.[0] with
    | 'A' -> SAnnounce hd.(int_of_n (n_of_hex arg))
    | 'K' -> SKnown (n_of_hex arg)
    | 'F' -> SFinal (n_of_hex arg)
    | 'M' -> (match split '.' arg with
        | [who; i; best] -> SAnnounceMsg (n_of_hex who, hd.(int_of_n (n_of_hex i)), n_of_hex best)
        | _ -> fail "bad announce %s" st)
    | 'N' -> (match split '.' arg with
        | [n; best; target] -> SNextActions (n_of_hex n, n_of_hex best, n_of_hex target)
        | _ -> fail "bad next-actions %s" st)
    | 'P' -> SProcess (parse_results hd arg)
    | _ -> fail "bad step %s" st) (split '|' s)

(* histories for the pruning block state (keyword `prune`) *)
let parse_tsteps hd s : tstep list =
  List.map (fun st ->
    let arg = String.sub st 1 (String.length st - 1) in
    match st.[0] with
    | 'A' -> TAnnounce hd.(int_of_n (n_of_hex arg))
    | 'K' -> TKnown hd.(int_of_n (n_of_hex arg))
    | 'Z' -> TFinalise hd.(int_of_n (n_of_hex arg)).h_hash
    | 'M' -> (match split '.' arg with
        | [who; i; best] -> TAnnounceMsg (n_of_hex who, hd.(int_of_n (n_of_hex i)), n_of_hex best)
        | _ -> fail "bad announce %s" st)
    | 'P' -> TProcess (parse_results hd arg)
    | _ -> fail "bad step %s" st) (split '|' s)

(* ---- rendering the model's results *)
let ev_str = function
  | EImport s -> "i" ^ name_of s | ESkip s -> "s" ^ name_of s | EOrphan s -> "o" ^ name_of s
  | EDup s -> "d" ^ name_of s | ENothing s -> "n" ^ name_of s | EFinal s -> "f" ^ name_of s
  | EOrphanPruned s -> "p" ^ name_of s

let acc_str bad rs =
  if rs = [] then "-" else
  match accepted fixed fixed fixed bad rs with
  | Some l -> String.concat "" (List.map (fun b -> if b then "1" else "0") l)
  | None -> "!"

let q_str = function QAncestors h -> name_of h | QBody h -> "~" ^ name_of h
let inc_str (st : pstate) = join "," (List.sort compare (List.map (fun b -> name_of b.d_hash) st.p_un.u_incomplete))
let reps_str l = join "," (List.map (fun (w, c) -> hex_of_n w ^ "." ^ hex_of_n c) l)

let render_announce (r : presult) =
  String.concat ";" [ "m"; reps_str r.pr_reps; inc_str r.pr_state; join "," (List.map q_str r.pr_state.p_queue) ]

let render_process bad rs (r : presult) =
  let st = r.pr_state in
  String.concat ";" [
    (if r.pr_error then "err" else "ok");
    join "," (List.map ev_str r.pr_events);
    reps_str r.pr_reps;
    join "," (List.map hex_of_n r.pr_bans);
    inc_str st;
    join "+" (List.map (fun f -> join "." (List.map (fun b -> name_of b.d_hash) f)) st.p_un.u_disjoint);
    join "," (List.map q_str st.p_queue);
    acc_str bad rs ]

(* ---- parsing the observation of one Process step: events and accept decisions *)
let parse_event e =
  let s = hash_of_name (String.sub e 1 (String.length e - 1)) in
  match e.[0] with
  | 'i' -> EImport s | 's' -> ESkip s | 'o' -> EOrphan s | 'd' -> EDup s | 'n' -> ENothing s
  | 'f' -> EFinal s | 'p' -> EOrphanPruned s | _ -> fail "bad event %s" e
let parse_events s = if s = "-" then [] else List.map parse_event (split ',' s)
let parse_acc s = if s = "-" || s = "!" then [] else List.init (String.length s) (fun i -> s.[i] = '1')

(* a history against the pruning block state: the model is run_t, the property predicate is the
   conclusion of C32_pruning_parents_first_provenance evaluated on the Go observables: no panic; on
   the prefix inside the precondition no importer event is "parent never known" (o) or "header
   already stored" (d); every import is a block of a response accepted so far (provenance);
   rejections as always *)
let check_prune hdrs bad steps obs =
  let hd = parse_headers hdrs in
  let badl = if bad = "-" then [] else List.map n_of_hex (split ',' bad) in
  let stepl = parse_tsteps hd steps in
  let ((outs, panicked), _) = run_t sort_frags true badl (init_tstate N0) stepl in
  let render_t (r : tresult) rs =
    let st = r.tr_state in
    String.concat ";" [
      (if r.tr_error then "err" else "ok");
      join "," (List.map ev_str r.tr_events);
      reps_str r.tr_reps;
      join "," (List.map hex_of_n r.tr_bans);
      join "," (List.sort compare (List.map (fun b -> name_of b.d_hash) st.ts_un.u_incomplete));
      join "+" (List.map (fun f -> join "." (List.map (fun b -> name_of b.d_hash) f)) st.ts_un.u_disjoint);
      join "," (List.map q_str st.ts_queue);
      acc_str badl rs ] in
  let render_a (r : tresult) =
    let st = r.tr_state in
    String.concat ";" [ "m"; reps_str r.tr_reps;
      join "," (List.sort compare (List.map (fun b -> name_of b.d_hash) st.ts_un.u_incomplete));
      join "," (List.map q_str st.ts_queue) ] in
  let rec render steps outs = match steps, outs with
    | s :: sr, o :: orr ->
      (match s, o with
       | TProcess rs, Some r -> render_t r rs
       | TAnnounceMsg _, Some r -> render_a r
       | _, _ -> ".") :: render sr orr
    | s :: _, [] ->
      if panicked then (match s with TProcess rs -> ["panic;-;" ^ acc_str badl rs] | _ -> ["panic"]) else []
    | [], _ -> [] in
  let m = String.concat "|" (render stepl outs) in
  let obs_steps = split '|' obs in
  let obs_panic = List.exists (fun o -> String.length o >= 5 && String.sub o 0 5 = "panic") obs_steps in
  (* walk the steps with their observations *)
  let ok = ref (not obs_panic) and why = ref "" and inside = ref true in
  let seen = ref [] and nimports = ref 0 and pruned_parent = ref false and skips = ref false in
  let rec walk steps obs = match steps, obs with
    | TProcess rs :: sr, o :: orr ->
      (match split ';' o with
       | [_; ev; _; _; _; _; _; acc] ->
         let evs = parse_events ev and accl = parse_acc acc in
         if not (rejections_ok_b rs accl) then (ok := false; why := "a forged/unlinked response was accepted");
         if not (tsteps_body_b [TProcess rs]) then inside := false;
         List.iteri (fun i r -> if i < List.length accl && List.nth accl i then
                        seen := List.map (fun b -> b.d_hash) r.r_resp @ !seen) rs;
         List.iter (fun e -> match e with
           | EImport s -> incr nimports;
             if not (List.mem s !seen) then (ok := false; why := "a block was imported that no accepted response contained")
           | EOrphan _ when !inside -> ok := false; why := "the importer was handed a block whose parent was never known"
           | EDup _ when !inside -> ok := false; why := "the importer was handed a header the block state has"
           | EOrphanPruned _ -> pruned_parent := true
           | ESkip _ -> skips := true
           | _ -> ()) evs
       | _ -> ());
      walk sr orr
    | _ :: sr, _ :: orr -> walk sr orr
    | _, _ -> () in
  walk stepl obs_steps;
  let tags = String.concat "," (List.filter (fun x -> x <> "") [
    "pruning-state";
    (if tsteps_body_b stepl then "wf-history" else "outside-precondition");
    (if obs_panic then "panic" else "");
    (if !nimports > 0 then "imports" else "no-import");
    (if !pruned_parent then "parent-pruned-meanwhile" else "");
    (if !skips then "skip-known" else "");
    (if List.exists (function TFinalise _ -> true | _ -> false) stepl then "external-finalisation" else "") ]) in
  { prop_ok = !ok; model_eq = (m = obs); nontrivial = !nimports > 0; finding = "-"; tags;
    detail = if !ok && m = obs then "" else
        Printf.sprintf "%s model=%s" !why (if String.length m > 600 then String.sub m 0 600 ^ "..." else m) }

(* ---- keyword `tree` (props/C32/harness_tree_test.go): the refined environment of
   coq/C32/ProofsNeverTwice.v (pinit / p_step: p_import_block with the parent-in-tree refusal,
   pfinalise = BlockTree.Prune) against the real dot/state.BlockState. Per step the outcome, the
   set HasHeader answers (pe_known) and the set of tree nodes (pe_known restricted to in_tree) are
   compared; the property predicate on the Go observables: no hash is ever added twice, and the
   genesis never. *)
let check_tree hdrs steps obs =
  let hd = parse_headers hdrs in
  let ids l = join "." (List.map (fun i -> Printf.sprintf "%x" i) (List.sort compare (List.map int_of_n l))) in
  let sets (e : penv) =
    ids (List.map (fun k -> k.pb_hash) e.pe_known) ^ ":" ^
    ids (List.map (fun k -> k.pb_hash) (List.filter (fun k -> in_tree e k) e.pe_known)) in
  let tags = ref ["tree-env"] in
  let tag t = if not (List.mem t !tags) then tags := t :: !tags in
  let e = ref (pinit N0 (ni 0xffffffff)) in
  let model = List.map (fun st ->
    let i = int_of_n (n_of_hex (String.sub st 1 (String.length st - 1))) in
    if i >= Array.length hd then fail "bad step %s" st;
    let h = hd.(i) in
    let o = (match st.[0] with
      | 'a' ->
        let was_stored = pever !e h.h_hash && not (pknows !e h.h_hash) in
        if was_stored then tag "reoffer-pruned";
        let b = { d_hash = h.h_hash; d_header = Some h; d_body = true; d_just = false } in
        let (evs, e1) = p_step !e (PBlock b) in
        e := e1;
        (match evs with
         | [PE (EImport _)] -> tag "added"; "i"
         | [PE (ESkip _)] -> tag "skip-stored"; "s"
         | [PE (EOrphan _)] -> tag "parent-never-stored"; "o"
         | [PE (EOrphanPruned _)] -> tag "parent-pruned"; "o"
         | [PNotInTree _] -> tag (if was_stored then "reoffer-pruned-parent-off-tree" else "parent-off-tree"); "t"
         | [PE (EDup _)] -> tag "dup"; "d"
         | _ -> "?")
      | 'f' ->
        let before = List.length !e.pe_known in
        let r = (match List.find_opt (fun k -> k.pb_hash = h.h_hash) !e.pe_known with
          | None -> tag "fin-unknown"; "U"
          | Some fb -> if in_tree !e fb then (tag "fin-ok"; "F") else (tag "fin-off-tree"; "E")) in
        e := snd (p_step !e (PFin h.h_hash));
        if List.length !e.pe_known < before then tag "fin-prunes";
        r
      | _ -> fail "bad step %s" st) in
    o ^ ":" ^ sets !e) (split ',' steps) in
  let m = String.concat "," model in
  (* the property predicate on what the Go code did *)
  let added = ref [] and ok = ref true and why = ref "" in
  List.iter2 (fun st o ->
    if String.length o >= 2 && o.[0] = 'i' && st.[0] = 'a' then begin
      let i = String.sub st 1 (String.length st - 1) in
      if List.mem i !added then (ok := false; why := "block " ^ i ^ " was added to the block state twice");
      if n_of_hex i = N0 then (ok := false; why := "the genesis block was added");
      added := i :: !added
    end)
    (let st = split ',' steps and ob = split ',' obs in
     let rec take n l = if n <= 0 then [] else match l with [] -> [] | x :: r -> x :: take (n - 1) r in
     take (List.length ob) st)
    (let st = split ',' steps and ob = split ',' obs in
     let rec take n l = if n <= 0 then [] else match l with [] -> [] | x :: r -> x :: take (n - 1) r in
     take (List.length st) ob);
  if List.exists (fun o -> String.length o >= 5 && String.sub o 0 5 = "panic") (split ',' obs) then
    (ok := false; why := "the block state panicked");
  { prop_ok = !ok; model_eq = (m = obs); nontrivial = !added <> []; finding = "-";
    tags = String.concat "," (List.rev !tags);
    detail = if !ok && m = obs then "" else
        Printf.sprintf "%s model=%s" !why (if String.length m > 900 then String.sub m 0 900 ^ "..." else m) }

let check inp obs =
  match split_ws inp with
  | ["tree"; hdrs; steps] -> check_tree hdrs steps obs
  | ["prune"; hdrs; bad; steps] -> check_prune hdrs bad steps obs
  | [hdrs; bad; steps] ->
    let hd = parse_headers hdrs in
    let badl = if bad = "-" then [] else List.map n_of_hex (split ',' bad) in
    let stepl = parse_steps hd steps in
    (* model *)
    let ((outs, panicked), _) = run fixed fixed fixed badl (init_state N0) stepl in
    (* NextActions: the queue before the step is the queue of the last result *)
    let rec take n l = if n <= 0 then [] else match l with [] -> [] | x :: r -> x :: take (n - 1) r in
    let rec drop n l = if n <= 0 then l else match l with [] -> [] | _ :: r -> drop (n - 1) r in
    let queue = ref [] in
    let rec render steps outs = match steps, outs with
      | s :: sr, o :: orr ->
        let cur = (match s, o with
         | SProcess rs, Some r -> queue := r.pr_state.p_queue; render_process badl rs r
         | SAnnounceMsg _, Some r -> queue := r.pr_state.p_queue; render_announce r
         | SNextActions (n, best, target), _ ->
           let k = int_of_n n in
           let popped = take k !queue in
           queue := drop k !queue;
           String.concat ";" [ "t"; join "," (List.map q_str popped);
             join "," (List.map (fun (a, m) -> hex_of_n a ^ ":" ^ hex_of_n m) (next_asc n best target));
             join "," (List.map q_str !queue) ]
         | _, _ -> ".") in
        cur :: render sr orr
      | s :: _, [] ->
        if panicked then (match s with
          | SProcess rs -> ["panic;-;" ^ acc_str badl rs]
          | _ -> ["panic"]) else []
      | [], _ -> [] in
    let m = String.concat "|" (render stepl outs) in
    (* property predicate on the observables *)
    let obs_steps = split '|' obs in
    let obs_panic = List.exists (fun o -> String.length o >= 5 && String.sub o 0 5 = "panic") obs_steps in
    let is_ann o = String.length o >= 2 && String.sub o 0 2 = "m;" in
    let is_next o = String.length o >= 2 && String.sub o 0 2 = "t;" in
    let proc_obs = List.filter (fun o -> o <> "." && not (is_ann o) && not (is_next o)) obs_steps in
    let ann_obs = List.filter is_ann obs_steps in
    let parsed = List.map (fun o -> match split ';' o with
      | [_; ev; _; _; _; _; _; acc] -> (parse_events ev, parse_acc acc)
      | [_; ev; acc] -> (parse_events ev, parse_acc acc)
      | _ -> fail "bad observation %s" o) proc_obs in
    let wf = steps_wf_b stepl in
    (* the longest prefix of the history inside the theorem's precondition (C32_history_safe
       applies to it: a prefix of a history is a history): up to the first Process step that is
       not well-formed *)
    let rec wf_prefix = function
      | [] -> []
      | s :: r -> if steps_wf_b [s] then s :: wf_prefix r else [] in
    let prefix = wf_prefix stepl in
    let hist = history_ok_b [] prefix parsed in
    (* rejection (C32_reject_forged_or_unlinked has no precondition): on every Process step *)
    let rec rejections steps outs = match steps, outs with
      | SProcess rs :: sr, (_, acc) :: orr -> rejections_ok_b rs acc && rejections sr orr
      | _ :: sr, _ -> rejections sr outs
      | [], _ -> true in
    let rej = rejections stepl parsed in
    (* NextActions (C32_next_actions_requests on the Go observables): the ascending requests tile
       best+1 .. min(best+1+n*127, target) when the node lags, and there are none otherwise *)
    let next_ok = List.for_all2 (fun s o -> match s with
      | SNextActions (n, best, target) when String.length o >= 2 && String.sub o 0 2 = "t;" ->
        (match split ';' o with
         | [_; _; a; _] ->
           let reqs = if a = "-" then Some [] else
               (try Some (List.map (fun e -> match split ':' e with
                    | [x; y] -> (n_of_hex x, n_of_hex y) | _ -> raise Exit) (split ',' a)) with _ -> None) in
           (match reqs with
            | None -> false
            | Some l ->
              if N.ltb best target then
                let start = N.add best (ni 1) in
                let stop = N.min (N.add start (N.mul n (ni 127))) target in
                plan_ok_b start stop l
              else l = [])
         | _ -> false)
      | _ -> true) (take (List.length obs_steps) stepl) (take (List.length stepl) obs_steps) in
    let prop = (not obs_panic) && hist && rej && next_ok in
    let nproc l = List.length (List.filter (function SProcess _ -> true | _ -> false) l) in
    let all_events = List.concat (List.map fst parsed) in
    let nimports = List.length (List.filter (function EImport _ -> true | _ -> false) all_events) in
    let has f = List.exists f all_events in
    let any_reject = List.exists (fun s -> match s with
      | SProcess rs -> List.exists must_reject rs | _ -> false) stepl in
    let tags = String.concat "," (List.filter (fun x -> x <> "") [
      (if wf then "wf-history" else "outside-precondition");
      (if (not wf) && nproc prefix > 0 then "wf-prefix-checked" else "");
      (if has (function ESkip _ -> true | _ -> false)
          && List.exists (fun (evs, _) ->
               let rec again seen = function
                 | [] -> false
                 | EImport s :: r -> again (s :: seen) r
                 | ESkip s :: r -> List.mem s seen || again seen r
                 | _ :: r -> again seen r in again [] evs) parsed
       then "handed-again-in-call" else "");
      (if List.exists (fun s -> match s with
           | SProcess rs -> List.exists (fun r ->
               not (req_field r.r_req f_header) && List.length r.r_resp >= 3) rs
           | _ -> false) stepl then "body-batch" else "");
      (if obs_panic then "panic" else "");
      (if nimports > 0 then "imports" else "no-import");
      (if has (function ESkip _ -> true | _ -> false) then "skip-known" else "");
      (if has (function EOrphan _ -> true | _ -> false) then "orphan-refused" else "");
      (if has (function EDup _ -> true | _ -> false) then "dup-refused" else "");
      (if has (function EFinal _ -> true | _ -> false) then "finalises" else "");
      (if any_reject then "has-forged-or-unlinked" else "");
      (if List.exists (fun o -> match split ';' o with
           | [_; _; _; _; _; d; _; _] -> d <> "-" | _ -> false) proc_obs then "disjoint-kept" else "");
      (if List.exists (fun s -> match s with SAnnounce _ -> true | _ -> false) stepl then "announce" else "");
      (if ann_obs <> [] then "announce-msg" else "");
      (if List.exists is_next obs_steps then "next-actions" else "");
      (if List.exists (fun o -> is_next o && (match split ';' o with [_; _; a; _] -> a <> "-" | _ -> false)) obs_steps
       then "next-actions-plans" else "");
      (* the branches of OnBlockAnnounce, from the observation *)
      String.concat "," (List.sort_uniq compare (List.concat (List.map (fun o ->
        match split ';' o with
        | [_; rep; _; _] ->
          let code = (match split '.' rep with [_; c] -> c | _ -> rep) in
          [ (match code with "4" -> "ann-bad" | "5" -> "ann-not-relevant" | "6" -> "ann-gossip-ok"
                           | "-" -> "ann-far" | _ -> "ann-other") ]
        | _ -> []) ann_obs)));
      (* the verdicts of validateResults (model) *)
      String.concat "," (List.sort_uniq compare (List.concat (List.map (fun s -> match s with
        | SProcess rs -> List.map (fun r ->
            let resp = if r.r_req.q_dir = dir_desc then List.rev r.r_resp else r.r_resp in
            match classify fixed fixed fixed badl r with
            | VSkip -> if not r.r_completed then "v-not-completed" else if resp = [] then "v-empty" else "v-nil-body"
            | VRep c -> (match int_of_n c with
                | 1 -> if req_field r.r_req f_header && has_nil_header resp then "v-nil-header" else "v-not-a-chain"
                | 3 -> "v-hash-mismatch" | _ -> "v-rep-other")
            | VBan -> "v-bad-block"
            | VAccept _ -> if req_field r.r_req f_header then "v-accept-headers" else "v-accept-bodies"
            | VPanic -> "v-panic") rs
        | _ -> []) stepl)));
      (if List.exists (fun o -> match split ';' o with
           | [_; _; _; _; _; _; q; _] -> q <> "-" | _ -> false) proc_obs then "request-queued" else "") ]) in
    { prop_ok = prop; model_eq = (m = obs); nontrivial = nimports > 0; finding = "-"; tags;
      detail = if prop && m = obs then "" else
          Printf.sprintf "%s model=%s" (if prop then "" else if obs_panic then "Process panicked"
                                        else if not rej then "a forged/unlinked response was accepted"
                                        else if not next_ok then "the ascending requests of NextActions do not tile best+1 .. min(best+1+n*127, target)"
                                        else "the importer was handed a block whose parent is unknown, or a block twice")
            (if String.length m > 600 then String.sub m 0 600 ^ "..." else m) }
  | ["imp"; hdrs; known; fin; blocks] ->
    (* the environment model against the real blockImporter *)
    let hd = parse_headers hdrs in
    let kn = N0 :: (if known = "-" then [] else List.map n_of_hex (split ',' known)) in
    let e = { known = kn; fin = n_of_hex fin } in
    let ((evs, _), err) = import_all e (parse_blocks hd blocks) in
    let m = join "," (List.map ev_str evs) ^ " " ^ (if err then "err" else "ok") in
    let has f = List.exists f evs in
    { prop_ok = true; model_eq = (m = obs);
      nontrivial = has (function EImport _ -> true | _ -> false); finding = "-";
      tags = String.concat "," (List.filter (fun x -> x <> "") [ "importer";
        (if has (function EImport _ -> true | _ -> false) then "importer-import" else "");
        (if has (function ESkip _ -> true | _ -> false) then "importer-skip" else "");
        (if has (function EOrphan _ -> true | _ -> false) then "importer-orphan" else "");
        (if has (function EDup _ -> true | _ -> false) then "importer-dup" else "");
        (if has (function ENothing _ -> true | _ -> false) then "importer-nothing" else "");
        (if has (function EFinal _ -> true | _ -> false) then "importer-final" else "") ]);
      detail = if m = obs then "" else "model=" ^ m }
  | _ -> fail "C32: bad input %s" inp

(* ---- vm_compute cross-check (bin/check: vm_sample): one Gallina boolean per case, built from
   the parsed input and the parsed observation; coq/C32/VmCheck.v evaluates the model inside Coq *)
let cn = coq_n
let clist f l = "[" ^ String.concat "; " (List.map f l) ^ "]"
let cbool b = if b then "true" else "false"
let cpair (a, b) = "(" ^ cn a ^ ", " ^ cn b ^ ")"
let chdr h = Printf.sprintf "(mkhdr %s %s %s)" (cn h.h_hash) (cn h.h_parent) (cn h.h_number)
let cbd b = Printf.sprintf "(mkbd %s %s %s %s)" (cn b.d_hash)
    (match b.d_header with None -> "None" | Some h -> "(Some " ^ chdr h ^ ")") (cbool b.d_body) (cbool b.d_just)
let cres r = Printf.sprintf "(mkres %s %s (mkreq %s %s) %s)" (cn r.r_who) (cbool r.r_completed)
    (cn r.r_req.q_fields) (cn r.r_req.q_dir) (clist cbd r.r_resp)
let cstep = function
  | SAnnounce h -> "SAnnounce " ^ chdr h
  | SKnown h -> "SKnown " ^ cn h
  | SFinal n -> "SFinal " ^ cn n
  | SProcess rs -> "SProcess " ^ clist cres rs
  | SAnnounceMsg (w, h, b) -> "SAnnounceMsg " ^ cn w ^ " " ^ chdr h ^ " " ^ cn b
  | SNextActions (n, b, t) -> "SNextActions " ^ cn n ^ " " ^ cn b ^ " " ^ cn t
let ev_code = function
  | EImport s -> (ni 0, s) | ESkip s -> (ni 1, s) | EOrphan s -> (ni 2, s) | EDup s -> (ni 3, s)
  | ENothing s -> (ni 4, s) | EFinal s -> (ni 5, s) | EOrphanPruned s -> (ni 6, s)

let coq inp obs =
  try
    match split_ws inp with
    | [hdrs; bad; steps] ->
      let hd = parse_headers hdrs in
      let badl = if bad = "-" then [] else List.map n_of_hex (split ',' bad) in
      let stepl = parse_steps hd steps in
      let pobs o = match split ';' o with
        | [status; ev; reps; bans; _; dis; q; acc] when status <> "panic" && acc <> "!" ->
          let reps = if reps = "-" then [] else List.map (fun e -> match split '.' e with
            | [w; c] -> (n_of_hex w, n_of_hex c) | _ -> raise Exit) (split ',' reps) in
          let dis = if dis = "-" then [] else
              List.map (fun f -> List.map hash_of_name (split '.' f)) (split '+' dis) in
          if q <> "-" && List.mem "bad" (split ',' q) then raise Exit;
          Printf.sprintf "mkpobs %s %s %s %s %s %s %s" (cbool (status = "err"))
            (clist cpair (List.map ev_code (parse_events ev))) (clist cpair reps)
            (clist cn (if bans = "-" then [] else List.map n_of_hex (split ',' bans)))
            (clist (clist cn) dis)
            (clist (fun e -> if e.[0] = '~' then cpair (ni 1, hash_of_name (String.sub e 1 (String.length e - 1)))
                             else cpair (ni 0, hash_of_name e)) (if q = "-" then [] else split ',' q))
            (clist cbool (parse_acc acc))
        | _ -> raise Exit in
      let exp = List.map pobs (List.filter (fun o -> o <> "." && not (String.length o >= 2 && (String.sub o 0 2 = "m;" || String.sub o 0 2 = "t;")))
                                 (split '|' obs)) in
      Some (Printf.sprintf "vm_history %s %s %s" (clist cn badl) (clist cstep stepl)
              ("[" ^ String.concat "; " exp ^ "]"))
    | ["imp"; hdrs; known; fin; blocks] ->
      let hd = parse_headers hdrs in
      let kn = N0 :: (if known = "-" then [] else List.map n_of_hex (split ',' known)) in
      (match split_ws obs with
       | [evs; st] ->
         Some (Printf.sprintf "vm_import %s %s %s %s %s" (clist cn kn) (cn (n_of_hex fin))
                 (clist cbd (parse_blocks hd blocks))
                 (clist cpair (List.map ev_code (parse_events evs))) (cbool (st = "err")))
       | _ -> None)
    | _ -> None
  with _ -> None

let () = run_driver ~coq check
