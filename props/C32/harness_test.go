// C32 correspondence harness (injected into package dot/sync by `go test -overlay`).
//
// A case is a universe of headers, a bad-block list and a history of steps run against one
// FullSyncStrategy whose block state is a small fake (known hashes + finalised number) and whose
// importer is a recording double of blockImporter.importBlock (see c32Importer).
//
// input: <hdrs> <bad> <steps>      (numbers in hex)
//   <hdrs>  "-" or ';'-separated `p.n`: header i (i = 1, 2, ...) has parent hash = hash of header p
//           (0 = the root/genesis header; p >= 8000 = a hash nobody knows) and number n
//   <bad>   "-" or ','-separated header ids whose hashes are configured as bad blocks
//   <steps> '|'-separated:
//           A<i>   block announce: unreadyBlocks.newIncompleteBlock(header i)
//           K<i>   the block state already has header i
//           F<n>   the highest finalised number becomes n
//           M<who>.<i>.<best>   FullSyncStrategy.OnBlockAnnounce(peer <who>, announce of header i)
//                  while BestBlockHeader() has number <best> (not paused, not flagged best block)
//           N<n>.<best>.<target>   FullSyncStrategy.NextActions() with numOfTasks = n, best block number
//                  <best>, peer target <target> (no peer views)
//           P<r>+<r>+...   FullSyncStrategy.Process(results); a result <r> is
//                  <who>:<completed 0|1>:<requested fields>:<direction>:<blocks>
//                  <blocks> "-" or ','-separated `S/H/f`: stated hash S (header id, or u<k> = a hash
//                  of no header), header H (id or "-" for nil), f: 1 body present,
//                  2 non-empty justification, 4 empty non-nil justification
// A case whose input starts with the keyword `prune ` (then the same three fields) runs against a block
// state that PRUNES on finalisation like dot/state.BlockState: a finalisation (justified block
// imported, or step Z<i> = GRANDPA finalises the stored header i) drops every stored header that is
// neither an ancestor nor a descendant of the finalised one; K<i> stores header i with its parent
// link; F steps are not used. The importer double then reports p<S> instead of o<S> when the missing
// parent had been stored before (pruned since).
// N gives  t;<requests taken from the queue>;<ascending requests start:max,...>;<queue afterwards>
//   (an ascending request is by number, ascending, bootstrap fields; anything else prints "bad")
// observed: one entry per step, '|'-separated; A/K/F/Z give "."; M gives
//   m;<reputation change>;<incomplete>;<queue>   (reputation change "-" when none is returned;
//   code 4 bad block announcement + errBadBlockReceived, 5 not relevant, 6 gossip success); P gives
//   <status>;<events>;<reputation changes>;<bans>;<incomplete>;<disjoint>;<queue>;<accepted>
//   (after a panic only <status>;<events>;<accepted>; the history stops there)
//   status  ok | err | panic
//   accepted  what validateResults decides on a private copy of the results: one character per
//           result, 1 = passed on to the ordering stage, 0 = dropped; "!" = it panicked, "-" none
//   events  calls of the importer: i<S> imported (S = stated hash), s<S> skipped: already known,
//           o<S> refused: parent unknown, d<S> refused: header hash already known,
//           n<S> nothing to import (no header or no body), f<S> finalised
//   reputation changes  <who>.<code>  1 incomplete header, 2 bad block, 3 bad message, 9 other
//           (9 also when the value does not belong to the reason)
//   incomplete  sorted ids;  disjoint  fragments joined by '+', blocks by '.';
//   queue  <id> = ancestor search descending from that hash (max 128, bootstrap fields),
//          ~<id> = body request for an announced block (ascending from the hash, max 1, body +
//          justification), "bad" = anything else
package sync

import (
	"fmt"
	"sort"
	"strings"
	"testing"

	"github.com/ChainSafe/gossamer/dot/network"
	"github.com/ChainSafe/gossamer/dot/network/messages"
	"github.com/ChainSafe/gossamer/dot/peerset"
	"github.com/ChainSafe/gossamer/dot/types"
	vu "github.com/ChainSafe/gossamer/internal/verifutil"
	"github.com/ChainSafe/gossamer/lib/common"
	"github.com/libp2p/go-libp2p/core/peer"
)

type c32State struct {
	BlockState // nil: any other method panics
	known      map[common.Hash]bool
	finalised  uint
	best       uint
}

func (s *c32State) IsPaused() bool { return false }
func (s *c32State) BestBlockHeader() (*types.Header, error) {
	return &types.Header{Number: s.best}, nil
}

func (s *c32State) HasHeader(h common.Hash) (bool, error) { return s.known[h], nil }
func (s *c32State) GetHighestFinalisedHeader() (*types.Header, error) {
	return &types.Header{Number: s.finalised}, nil
}

type c32World struct {
	headers []*types.Header // id -> header (0 = root)
	hashes  []common.Hash
	names   map[common.Hash]string
	st      *c32State
	events  []string
	prune   bool                        // the block state prunes on finalisation
	ever    map[common.Hash]bool        // every hash the block state ever had
	parent  map[common.Hash]common.Hash // parent links of the stored headers
}

func (w *c32World) store(h common.Hash, parent common.Hash) {
	w.st.known[h] = true
	w.ever[h] = true
	w.parent[h] = parent
}

// h and its ancestors as far as the stored headers lead (at most len(known)+1 hashes)
func (w *c32World) ancestors(h common.Hash) map[common.Hash]bool {
	out := map[common.Hash]bool{}
	cur := h
	for i := 0; i <= len(w.st.known); i++ {
		out[cur] = true
		if !w.st.known[cur] {
			break
		}
		cur = w.parent[cur]
	}
	return out
}

// BlockTree.Prune as seen through HasHeader: keep f, its ancestors and its descendants
func (w *c32World) finalise(f common.Hash, number uint) {
	if number > w.st.finalised {
		w.st.finalised = number
	}
	if !w.prune {
		return
	}
	up := w.ancestors(f)
	keep := map[common.Hash]bool{}
	for h := range w.st.known {
		if up[h] || w.ancestors(h)[f] {
			keep[h] = true
		}
	}
	w.st.known = keep
}

func (w *c32World) name(h common.Hash) string {
	if n, ok := w.names[h]; ok {
		return n
	}
	return "?"
}

func c32Unknown(k uint64) common.Hash {
	var h common.Hash
	h[0], h[1], h[2], h[3] = 0xf0, 0x0f, byte(k), byte(k>>8)
	return h
}

// c32Importer is the recording double of blockImporter.importBlock/processBlockData:
// same order of checks, the block state is the fake above, nothing is executed.
type c32Importer struct{ w *c32World }

func (im c32Importer) importBlock(bd *types.BlockData, _ BlockOrigin) (bool, error) {
	w := im.w
	s := w.name(bd.Hash)
	if w.st.known[bd.Hash] { // blockState.HasHeader(bd.Hash)
		w.events = append(w.events, "s"+s)
		return false, nil
	}
	if bd.Header == nil {
		w.events = append(w.events, "n"+s)
		return true, nil
	}
	hasJust := bd.Justification != nil && len(*bd.Justification) > 0
	hh := bd.Header.Hash()
	if bd.Body != nil {
		if !w.st.known[bd.Header.ParentHash] { // handleBlock: GetHeader(parent) fails
			if w.prune && w.ever[bd.Header.ParentHash] {
				w.events = append(w.events, "p"+s)
				return false, fmt.Errorf("%w: not found", errFailedToGetParent)
			}
			w.events = append(w.events, "o"+s)
			return false, fmt.Errorf("%w: not found", errFailedToGetParent)
		}
		if w.st.known[hh] { // BlockTree.AddBlock: ErrBlockExists
			w.events = append(w.events, "d"+s)
			return false, fmt.Errorf("block already exists")
		}
		w.store(hh, bd.Header.ParentHash)
		w.events = append(w.events, "i"+s)
	} else if !hasJust {
		w.events = append(w.events, "n"+s)
	}
	if hasJust {
		if !w.st.known[hh] { // SetFinalisedHash of a block the state does not have
			w.events = append(w.events, "o"+s)
			return false, fmt.Errorf("setting finalised hash: not found")
		}
		w.finalise(hh, bd.Header.Number)
		w.events = append(w.events, "f"+s)
	}
	return true, nil
}

func c32NewWorld(hdrs string) *c32World {
	w := &c32World{names: map[common.Hash]string{}, st: &c32State{known: map[common.Hash]bool{}},
		ever: map[common.Hash]bool{}, parent: map[common.Hash]common.Hash{}}
	root := types.NewHeader(common.NewHash([]byte{0}), common.Hash{}, common.Hash{}, 0, types.NewDigest())
	w.headers = append(w.headers, root)
	w.hashes = append(w.hashes, root.Hash())
	w.names[root.Hash()] = "0"
	w.store(root.Hash(), root.ParentHash)
	if hdrs != "-" {
		for _, e := range strings.Split(hdrs, ";") {
			f := strings.Split(e, ".")
			p, n := vu.UnX(f[0]), vu.UnX(f[1])
			id := len(w.headers)
			var parent common.Hash
			if p >= 0x8000 {
				parent = c32Unknown(p)
				w.names[parent] = "u" + vu.X(p)
			} else {
				parent = w.hashes[p]
			}
			var er common.Hash
			er[0], er[1], er[2] = 0xee, byte(id), byte(id>>8)
			h := types.NewHeader(parent, common.Hash{}, er, uint(n), types.NewDigest())
			w.headers = append(w.headers, h)
			w.hashes = append(w.hashes, h.Hash())
			w.names[h.Hash()] = vu.X(uint64(id))
		}
	}
	return w
}

func (w *c32World) parseBlocks(s string) []*types.BlockData {
	out := []*types.BlockData{}
	if s == "-" {
		return out
	}
	for _, e := range strings.Split(s, ",") {
		f := strings.Split(e, "/")
		bd := &types.BlockData{}
		if f[0][0] == 'u' {
			k := vu.UnX(f[0][1:])
			bd.Hash = c32Unknown(k)
			w.names[bd.Hash] = "u" + vu.X(k)
		} else {
			bd.Hash = w.hashes[vu.UnX(f[0])]
		}
		if f[1] != "-" {
			src := w.headers[vu.UnX(f[1])]
			// a fresh copy, as decoded from the wire (no cached hash)
			bd.Header = types.NewHeader(src.ParentHash, src.StateRoot, src.ExtrinsicsRoot, src.Number, src.Digest)
		}
		fl := vu.UnX(f[2])
		if fl&1 != 0 {
			bd.Body = types.NewBody([]types.Extrinsic{{byte(fl), 1, 2}})
		}
		if fl&2 != 0 {
			j := []byte{1, 2, 3}
			bd.Justification = &j
		} else if fl&4 != 0 {
			j := []byte{}
			bd.Justification = &j
		}
		out = append(out, bd)
	}
	return out
}

func c32RepCode(c peerset.ReputationChange) string {
	switch {
	case c.Reason == peerset.IncompleteHeaderReason && c.Value == peerset.IncompleteHeaderValue:
		return "1"
	case c.Reason == peerset.BadBlockAnnouncementReason && c.Value == peerset.BadBlockAnnouncementValue:
		return "2"
	case c.Reason == peerset.BadMessageReason && c.Value == peerset.BadMessageValue:
		return "3"
	}
	return "9"
}

// the reputation change OnBlockAnnounce returns
func c32AnnounceCode(c *Change, err error) string {
	if c == nil {
		if err != nil {
			return "err"
		}
		return "-"
	}
	who := strings.TrimPrefix(string(c.who), "p")
	switch {
	case err == errBadBlockReceived && c.rep.Reason == peerset.BadBlockAnnouncementReason &&
		c.rep.Value == peerset.BadBlockAnnouncementValue:
		return who + ".4"
	case err == nil && c.rep.Reason == peerset.NotRelevantBlockAnnounceReason &&
		c.rep.Value == peerset.NotRelevantBlockAnnounceValue:
		return who + ".5"
	case err == nil && c.rep.Reason == peerset.GossipSuccessReason && c.rep.Value == peerset.GossipSuccessValue:
		return who + ".6"
	}
	return who + ".9"
}

func (w *c32World) incompleteAndQueue(f *FullSyncStrategy) (string, string) {
	var inc, q []string
	for h := range f.unreadyBlocks.incompleteBlocks {
		inc = append(inc, w.name(h))
	}
	sort.Strings(inc)
	for e := f.requestQueue.queue.Front(); e != nil; e = e.Next() {
		r := e.Value.(*messages.BlockRequestMessage)
		h, ok := r.StartingBlock.RawValue().(common.Hash)
		switch {
		case ok && r.Direction == messages.Descending && r.Max != nil && *r.Max == messages.MaxBlocksInResponse &&
			r.RequestedData == messages.BootstrapRequestData:
			q = append(q, w.name(h))
		case ok && r.Direction == messages.Ascending && r.Max != nil && *r.Max == 1 &&
			r.RequestedData == messages.RequestedDataBody+messages.RequestedDataJustification:
			q = append(q, "~"+w.name(h))
		default:
			q = append(q, "bad")
		}
	}
	return c32Join(inc, ","), c32Join(q, ",")
}

func (w *c32World) reqName(r *messages.BlockRequestMessage) string {
	h, ok := r.StartingBlock.RawValue().(common.Hash)
	switch {
	case ok && r.Direction == messages.Descending && r.Max != nil && *r.Max == messages.MaxBlocksInResponse &&
		r.RequestedData == messages.BootstrapRequestData:
		return w.name(h)
	case ok && r.Direction == messages.Ascending && r.Max != nil && *r.Max == 1 &&
		r.RequestedData == messages.RequestedDataBody+messages.RequestedDataJustification:
		return "~" + w.name(h)
	}
	return "bad"
}

func (w *c32World) nextActions(f *FullSyncStrategy, arg string) (out string, panicked bool) {
	p := strings.Split(arg, ".")
	f.numOfTasks = int(vu.UnX(p[0]))
	w.st.best = uint(vu.UnX(p[1]))
	f.peers.target = uint32(vu.UnX(p[2]))
	qlen := f.requestQueue.Len()
	var tasks []*SyncTask
	var err error
	func() {
		defer func() {
			if r := recover(); r != nil {
				panicked = true
			}
		}()
		tasks, err = f.NextActions()
	}()
	if panicked {
		return "panic", true
	}
	if err != nil {
		return "t;err", false
	}
	taken := qlen - f.requestQueue.Len()
	var fromQ, asc []string
	for i, t := range tasks {
		r := t.request.(*messages.BlockRequestMessage)
		if i < taken {
			fromQ = append(fromQ, w.reqName(r))
			continue
		}
		n, ok := r.StartingBlock.RawValue().(uint)
		if ok && r.Direction == messages.Ascending && r.Max != nil && r.RequestedData == messages.BootstrapRequestData {
			asc = append(asc, fmt.Sprintf("%x:%x", n, *r.Max))
		} else {
			asc = append(asc, "bad")
		}
	}
	_, q := w.incompleteAndQueue(f)
	return "t;" + c32Join(fromQ, ",") + ";" + c32Join(asc, ",") + ";" + q, false
}

func (w *c32World) announce(f *FullSyncStrategy, arg string) (out string, panicked bool) {
	p := strings.Split(arg, ".")
	src := w.headers[vu.UnX(p[1])]
	w.st.best = uint(vu.UnX(p[2]))
	msg := &network.BlockAnnounceMessage{
		ParentHash:     src.ParentHash,
		Number:         src.Number,
		StateRoot:      src.StateRoot,
		ExtrinsicsRoot: src.ExtrinsicsRoot,
		Digest:         src.Digest,
		BestBlock:      false,
	}
	var (
		rep *Change
		err error
	)
	func() {
		defer func() {
			if r := recover(); r != nil {
				panicked = true
			}
		}()
		rep, err = f.OnBlockAnnounce(peer.ID("p"+p[0]), msg)
	}()
	if panicked {
		return "panic", true
	}
	inc, q := w.incompleteAndQueue(f)
	return "m;" + c32AnnounceCode(rep, err) + ";" + inc + ";" + q, false
}

func c32Join(xs []string, sep string) string {
	if len(xs) == 0 {
		return "-"
	}
	return strings.Join(xs, sep)
}

func (w *c32World) parseResults(spec string) []*SyncTaskResult {
	results := []*SyncTaskResult{}
	if spec != "" {
		for _, rs := range strings.Split(spec, "+") {
			p := strings.Split(rs, ":")
			req := &messages.BlockRequestMessage{
				RequestedData: byte(vu.UnX(p[2])),
				Direction:     messages.SyncDirection(byte(vu.UnX(p[3]))),
				StartingBlock: *messages.NewFromBlock(uint(1)),
			}
			results = append(results, &SyncTaskResult{
				who:       peer.ID("p" + p[0]),
				completed: p[1] == "1",
				request:   req,
				response:  &messages.BlockResponseMessage{BlockData: w.parseBlocks(p[4])},
			})
		}
	}
	return results
}

// the decisions of validateResults on a private copy of the results (it reverses descending
// responses in place): one character per result, 1 = accepted; "!" = it panicked
func (w *c32World) acceptance(bad []string, spec string) (acc string) {
	results := w.parseResults(spec)
	if len(results) == 0 {
		return "-"
	}
	defer func() {
		if r := recover(); r != nil {
			acc = "!"
		}
	}()
	_, _, valid := validateResults(results, bad)
	flags := make([]byte, len(results))
	for i := range flags {
		flags[i] = '0'
	}
	for _, v := range valid {
		for i, r := range results {
			if r.request.(*messages.BlockRequestMessage) == v.req {
				flags[i] = '1'
			}
		}
	}
	return string(flags)
}

func (w *c32World) process(f *FullSyncStrategy, bad []string, spec string) (out string, panicked bool) {
	acc := w.acceptance(bad, spec)
	results := w.parseResults(spec)
	w.events = nil
	var (
		reps []Change
		bans []peer.ID
		err  error
	)
	func() {
		defer func() {
			if r := recover(); r != nil {
				panicked = true
			}
		}()
		_, reps, bans, err = f.Process(results)
	}()
	if panicked {
		return "panic;" + c32Join(w.events, ",") + ";" + acc, true
	}
	status := "ok"
	if err != nil {
		status = "err"
	}
	var rs, bs, dis []string
	for _, c := range reps {
		rs = append(rs, strings.TrimPrefix(string(c.who), "p")+"."+c32RepCode(c.rep))
	}
	for _, b := range bans {
		bs = append(bs, strings.TrimPrefix(string(b), "p"))
	}
	for _, frag := range f.unreadyBlocks.disjointFragments {
		var ids []string
		for _, b := range frag {
			ids = append(ids, w.name(b.Hash))
		}
		dis = append(dis, c32Join(ids, "."))
	}
	inc, q := w.incompleteAndQueue(f)
	return strings.Join([]string{status, c32Join(w.events, ","), c32Join(rs, ","), c32Join(bs, ","),
		inc, c32Join(dis, "+"), q, acc}, ";"), false
}

func c32Run(in string) string {
	if strings.HasPrefix(in, "imp ") {
		return c32iRun(in) // harness_importer_test.go
	}
	pruning := strings.HasPrefix(in, "prune ")
	parts := strings.Split(strings.TrimPrefix(in, "prune "), " ")
	w := c32NewWorld(parts[0])
	w.prune = pruning
	var bad []string
	if parts[1] != "-" {
		for _, b := range strings.Split(parts[1], ",") {
			bad = append(bad, w.hashes[vu.UnX(b)].String())
		}
	}
	f := NewFullSyncStrategy(&FullSyncConfig{BlockState: w.st, BadBlocks: bad})
	f.blockImporter = c32Importer{w}
	var obs []string
	for _, step := range strings.Split(parts[2], "|") {
		switch step[0] {
		case 'A':
			src := w.headers[vu.UnX(step[1:])]
			f.unreadyBlocks.newIncompleteBlock(
				types.NewHeader(src.ParentHash, src.StateRoot, src.ExtrinsicsRoot, src.Number, src.Digest))
			obs = append(obs, ".")
		case 'K':
			id := vu.UnX(step[1:])
			if !w.st.known[w.hashes[id]] {
				w.store(w.hashes[id], w.headers[id].ParentHash)
			}
			obs = append(obs, ".")
		case 'Z':
			id := vu.UnX(step[1:])
			if w.st.known[w.hashes[id]] {
				w.finalise(w.hashes[id], w.headers[id].Number)
			}
			obs = append(obs, ".")
		case 'F':
			w.st.finalised = uint(vu.UnX(step[1:]))
			obs = append(obs, ".")
		case 'N':
			o, panicked := w.nextActions(f, step[1:])
			obs = append(obs, o)
			if panicked {
				return strings.Join(obs, "|")
			}
		case 'M':
			o, panicked := w.announce(f, step[1:])
			obs = append(obs, o)
			if panicked {
				return strings.Join(obs, "|")
			}
		case 'P':
			o, panicked := w.process(f, bad, step[1:])
			obs = append(obs, o)
			if panicked {
				return strings.Join(obs, "|")
			}
		}
	}
	return strings.Join(obs, "|")
}

// ---------------------------------------------------------------- generation

type c32Gen struct {
	prune   bool // histories for the pruning block state: Z steps, more justifications
	r       *vu.RNG
	parent  []int    // header id -> parent id (genuine tree part), -1 for malformed headers
	number  []uint64 // header id -> number
	hdrs    []string
	genuine int // ids 1..genuine form a tree
}

func (g *c32Gen) addHeader(p uint64, n uint64, genuineParent int) int {
	id := len(g.number)
	g.hdrs = append(g.hdrs, fmt.Sprintf("%x.%x", p, n))
	g.number = append(g.number, n)
	g.parent = append(g.parent, genuineParent)
	return id
}

// ascending chain of ids ending at tip, at most k long
func (g *c32Gen) chainTo(tip, k int) []int {
	var c []int
	for cur := tip; cur > 0 && len(c) < k; cur = g.parent[cur] {
		c = append([]int{cur}, c...)
	}
	return c
}

func c32Blocks(ids []int, stated []string, hdr []string, flags []uint64) string {
	if len(ids) == 0 {
		return "-"
	}
	var out []string
	for i := range ids {
		out = append(out, fmt.Sprintf("%s/%s/%x", stated[i], hdr[i], flags[i]))
	}
	return strings.Join(out, ",")
}

// one result for the chain `ids`, with optional damage
func (g *c32Gen) result(ids []int, fields uint64, damage int) string {
	r := g.r
	n := len(ids)
	stated := make([]string, n)
	hdr := make([]string, n)
	flags := make([]uint64, n)
	for i, id := range ids {
		stated[i] = fmt.Sprintf("%x", id)
		hdr[i] = fmt.Sprintf("%x", id)
		flags[i] = 1
		if fields&1 == 0 {
			hdr[i] = "-"
		}
		if r.Chance(1, 12) || (g.prune && r.Chance(1, 6)) {
			flags[i] |= 2
		} else if r.Chance(1, 20) {
			flags[i] |= 4
		}
	}
	completed := 1
	if n > 0 {
		k := r.Intn(n)
		switch damage {
		case 1: // forged stated hash: another block's hash or a hash of nothing
			if r.Chance(1, 2) {
				stated[k] = fmt.Sprintf("u%x", 0x9000+r.Intn(4))
			} else {
				stated[k] = fmt.Sprintf("%x", r.Intn(len(g.number)))
			}
		case 2: // consistently forged: stated hash X and the next header replaced by a header whose parent is X
			// (only the generator for malformed headers can do that; here: drop a block => broken link)
			if n > 1 {
				ids2 := append(append([]int{}, ids[:k]...), ids[k+1:]...)
				return g.result(ids2, fields, 0)
			}
		case 3: // swap two blocks
			if n > 1 {
				j := r.Intn(n)
				stated[k], stated[j] = stated[j], stated[k]
				hdr[k], hdr[j] = hdr[j], hdr[k]
			}
		case 4: // nil header
			hdr[k] = "-"
		case 5: // nil body
			flags[k] &^= 1
		case 6:
			completed = 0
		case 7: // header of another block under the right stated hash
			hdr[k] = fmt.Sprintf("%x", r.Intn(len(g.number)))
		}
	}
	dir := 0
	if r.Chance(1, 3) {
		dir = 1
		for i, j := 0, n-1; i < j; i, j = i+1, j-1 {
			stated[i], stated[j] = stated[j], stated[i]
			hdr[i], hdr[j] = hdr[j], hdr[i]
			flags[i], flags[j] = flags[j], flags[i]
		}
	}
	return fmt.Sprintf("%x:%d:%x:%x:%s", r.Intn(3), completed, fields, dir, c32Blocks(ids, stated, hdr, flags))
}

func c32GenCase(r *vu.RNG, prune bool) string {
	g := &c32Gen{r: r, prune: prune, parent: []int{-1}, number: []uint64{0}}
	// genuine tree
	nblocks := r.Range(1, 14)
	if r.Chance(1, 4) {
		nblocks = r.Range(10, 30)
	}
	for i := 0; i < nblocks; i++ {
		p := len(g.number) - 1 // extend the latest block: long chains
		if r.Chance(1, 4) {
			p = r.Intn(len(g.number))
		}
		g.addHeader(uint64(p), g.number[p]+1, p)
	}
	g.genuine = nblocks
	// malformed headers
	nm := 0
	if r.Chance(1, 3) {
		nm = r.Range(1, 3)
	}
	for i := 0; i < nm; i++ {
		p := r.Intn(g.genuine + 1)
		switch r.Intn(3) {
		case 0: // wrong number
			g.addHeader(uint64(p), g.number[p]+uint64(r.Range(2, 3)), p)
		case 1: // unknown parent
			g.addHeader(uint64(0x8000+r.Intn(3)), g.number[p]+1, -1)
		default: // same number as the parent
			g.addHeader(uint64(p), g.number[p], p)
		}
	}
	bad := "-"
	if r.Chance(1, 10) {
		bad = fmt.Sprintf("%x", r.Range(1, len(g.number)-1))
	}
	var steps []string
	if r.Chance(1, 4) {
		// a known prefix
		tip := r.Range(1, g.genuine)
		for _, id := range g.chainTo(tip, r.Range(1, 6)) {
			_ = id
		}
		c := g.chainTo(tip, 40)
		for _, id := range c[:r.Range(0, len(c))] {
			steps = append(steps, fmt.Sprintf("K%x", id))
		}
	}
	if r.Chance(1, 6) {
		if prune {
			steps = append(steps, fmt.Sprintf("Z%x", r.Range(1, g.genuine)))
		} else {
			steps = append(steps, fmt.Sprintf("F%x", r.Intn(4)))
		}
	}
	nproc := r.Range(1, 3)
	for pc := 0; pc < nproc; pc++ {
		var announced []int
		if r.Chance(2, 5) {
			for k := r.Range(1, 3); k > 0; k-- {
				id := r.Range(1, len(g.number)-1)
				announced = append(announced, id)
				if r.Chance(1, 2) {
					// through OnBlockAnnounce: best number near the block, sometimes > 128 away
					best := uint64(r.Intn(int(g.number[id]) + 3))
					if r.Chance(1, 8) {
						best = g.number[id] + uint64(r.Range(127, 131))
					}
					steps = append(steps, fmt.Sprintf("M%x.%x.%x", r.Intn(3), id, best))
					if r.Chance(1, 6) { // announced twice: already tracked
						steps = append(steps, fmt.Sprintf("M%x.%x.%x", r.Intn(3), id, best))
					}
					continue
				}
				steps = append(steps, fmt.Sprintf("A%x", id))
			}
		}
		var results []string
		nres := r.Range(0, 5)
		if r.Chance(1, 10) {
			nres = r.Range(6, 12)
		}
		weight := 0 // ready fragments this call can produce (the model's sort is exact up to 12)
		for k := 0; k < nres && weight < 12; k++ {
			weight++
			damage := 0
			if r.Chance(1, 4) {
				damage = r.Range(1, 7)
			}
			switch r.Intn(10) {
			case 0: // empty response
				results = append(results, g.result(nil, 0x13, 0))
			case 1, 2: // body-only answer for announced (or other) blocks
				var ids []int
				if len(announced) > 0 && r.Chance(3, 4) {
					ids = append(ids, announced[r.Intn(len(announced))])
					if r.Chance(1, 4) {
						ids = append(ids, announced[r.Intn(len(announced))])
					}
				} else {
					ids = append(ids, r.Range(1, len(g.number)-1))
				}
				fields := uint64(0x12)
				if r.Chance(1, 8) {
					fields = 2
				}
				if weight+len(ids) > 12 {
					continue
				}
				weight += len(ids) - 1
				results = append(results, g.result(ids, fields, damage))
			case 3: // duplicate of an earlier result
				if len(results) > 0 && weight < 11 {
					weight++ // a duplicated body-only result may count twice
					results = append(results, results[r.Intn(len(results))])
				} else {
					results = append(results, g.result(g.chainTo(r.Range(1, g.genuine), r.Range(1, 6)), 0x13, damage))
				}
			default:
				tip := r.Range(1, len(g.number)-1)
				fields := uint64(0x13)
				switch r.Intn(48) { // 1 and 0x11 lack the body bit: outside the theorem's precondition
				case 0:
					fields = 1
				case 1, 3, 4:
					fields = 3
				case 2:
					fields = 0x11
				}
				results = append(results, g.result(g.chainTo(tip, r.Range(1, 8)), fields, damage))
			}
		}
		if r.Chance(1, 2) { // permute
			for i := len(results) - 1; i > 0; i-- {
				j := r.Intn(i + 1)
				results[i], results[j] = results[j], results[i]
			}
		}
		steps = append(steps, "P"+strings.Join(results, "+"))
		if !prune && r.Chance(1, 3) {
			best := uint64(r.Intn(300))
			target := best + uint64(r.Intn(5))*uint64(r.Range(1, 130))
			if r.Chance(1, 5) {
				target = uint64(r.Intn(int(best) + 1))
			}
			steps = append(steps, fmt.Sprintf("N%x.%x.%x", r.Range(0, 4), best, target))
		}
		if r.Chance(1, 8) {
			if prune {
				steps = append(steps, fmt.Sprintf("Z%x", r.Range(1, g.genuine)))
			} else {
				steps = append(steps, fmt.Sprintf("F%x", r.Intn(6)))
			}
		}
	}
	hd := "-"
	if len(g.hdrs) > 0 {
		hd = strings.Join(g.hdrs, ";")
	}
	if prune {
		return "prune " + hd + " " + bad + " " + strings.Join(steps, "|")
	}
	return hd + " " + bad + " " + strings.Join(steps, "|")
}

// c32GenPruneFork: two forks above a stored trunk; one response brings the next blocks of fork A, one
// of them with a justification, another response brings blocks of fork B whose parent is stored:
// importing the justified block finalises fork A and prunes fork B while its blocks still wait in
// nextBlocksToImport (or in a later call).
func c32GenPruneFork(r *vu.RNG) string {
	g := &c32Gen{r: r, prune: true, parent: []int{-1}, number: []uint64{0}}
	trunk := r.Range(0, 3)
	for i := 0; i < trunk; i++ {
		g.addHeader(uint64(i), uint64(i)+1, i)
	}
	mk := func(n int) []int {
		var ids []int
		p := trunk
		for i := 0; i < n; i++ {
			id := g.addHeader(uint64(p), g.number[p]+1, p)
			ids = append(ids, id)
			p = id
		}
		return ids
	}
	a, b := mk(r.Range(2, 4)), mk(r.Range(2, 4))
	g.genuine = len(g.number) - 1
	var steps []string
	for i := 1; i <= trunk; i++ {
		steps = append(steps, fmt.Sprintf("K%x", i))
	}
	ka, kb := r.Range(0, len(a)-1), r.Range(0, len(b)-1) // stored prefixes of the forks
	for _, id := range a[:ka] {
		steps = append(steps, fmt.Sprintf("K%x", id))
	}
	for _, id := range b[:kb] {
		steps = append(steps, fmt.Sprintf("K%x", id))
	}
	blocks := func(ids []int, just int) string {
		var bl []string
		for i, id := range ids {
			fl := 1
			if i == just {
				fl = 3
			}
			bl = append(bl, fmt.Sprintf("%x/%x/%x", id, id, fl))
		}
		return fmt.Sprintf("%x:1:13:0:%s", r.Intn(3), strings.Join(bl, ","))
	}
	ra := blocks(a[ka:], r.Intn(len(a)-ka))
	rb := blocks(b[kb:], -1)
	switch r.Intn(4) {
	case 0:
		steps = append(steps, "P"+rb+"+"+ra)
	case 1:
		steps = append(steps, "P"+ra, "P"+rb)
	case 2:
		steps = append(steps, "P"+rb, fmt.Sprintf("Z%x", a[0]), "P"+ra)
	default:
		steps = append(steps, "P"+ra+"+"+rb)
	}
	if r.Chance(1, 2) { // the pruned fork is delivered again
		steps = append(steps, "P"+blocks(b, -1))
	}
	return "prune " + strings.Join(g.hdrs, ";") + " - " + strings.Join(steps, "|")
}

// all ways to cut the chain 1..L into contiguous responses, in every order of arrival, either
// all in one Process call or one call per response
func c32Exhaustive(maxLen int, emit func(string)) {
	for L := 1; L <= maxLen; L++ {
		var hdrs []string
		for i := 0; i < L; i++ {
			hdrs = append(hdrs, fmt.Sprintf("%x.%x", i, i+1))
		}
		for cuts := 0; cuts < 1<<(L-1); cuts++ {
			var parts []string
			var cur []string
			for i := 1; i <= L; i++ {
				cur = append(cur, fmt.Sprintf("%x/%x/1", i, i))
				if i == L || cuts&(1<<(i-1)) != 0 {
					parts = append(parts, "0:1:13:0:"+strings.Join(cur, ","))
					cur = nil
				}
			}
			perm := make([]int, len(parts))
			for i := range perm {
				perm[i] = i
			}
			var rec func(k int)
			rec = func(k int) {
				if k == len(perm) {
					ordered := make([]string, len(perm))
					for i, j := range perm {
						ordered[i] = parts[j]
					}
					emit(strings.Join(hdrs, ";") + " - P" + strings.Join(ordered, "+"))
					if len(ordered) > 1 {
						emit(strings.Join(hdrs, ";") + " - P" + strings.Join(ordered, "|P"))
					}
					return
				}
				for i := k; i < len(perm); i++ {
					perm[k], perm[i] = perm[i], perm[k]
					rec(k + 1)
					perm[k], perm[i] = perm[i], perm[k]
				}
			}
			rec(0)
		}
	}
}

// c32GenBatch: one bodies-only response completes several (3..7) announced blocks that are listed
// in an order that is NOT sorted by number.  Two chain segments are announced: S2 = the next blocks
// of the main chain above the known prefix, S1 = blocks of a fork (or of a lower part of a second
// branch) with lower numbers.  Listed as  S2[0], S1..., S2[1:]  every completed block lands in its
// own single-block fragment; sorting puts S1 first, merging appends S2[1] to the fragment of S2[0]
// (a slice that shares its backing array with the other single-block fragments unless each was
// allocated separately).  Half of the cases shuffle the list, a few send the bodies in two
// responses of one Process call or add a header response for the gap.
func c32GenBatch(r *vu.RNG) string {
	g := &c32Gen{r: r, parent: []int{-1}, number: []uint64{0}}
	m := r.Range(4, 10) // main chain 1..m
	for i := 0; i < m; i++ {
		g.addHeader(uint64(i), uint64(i)+1, i)
	}
	f := r.Range(0, m-3) // the fork leaves the main chain after block f
	flen := r.Range(2, 3)
	forkIDs := []int{}
	p := f
	for i := 0; i < flen; i++ {
		id := g.addHeader(uint64(p), g.number[p]+1, p)
		forkIDs = append(forkIDs, id)
		p = id
	}
	g.genuine = len(g.number) - 1
	// known prefix of the main chain: up to k, where the fork's numbers (f+1..f+flen) lie at or
	// below k in most cases so that S1 sorts before S2
	k := r.Range(f, m-2)
	if r.Chance(3, 4) && f+flen <= m-2 {
		k = r.Range(f+flen, m-2)
	}
	var steps []string
	for i := 1; i <= k; i++ {
		steps = append(steps, fmt.Sprintf("K%x", i))
	}
	if r.Chance(1, 10) { // only the main chain up to the fork point is known: S2 is disconnected too
		steps = steps[:f]
		k = f
	}
	want := r.Range(2, 4)
	s2 := []int{}
	for i := k + 1; i <= m && len(s2) < want; i++ {
		s2 = append(s2, i)
	}
	s1 := forkIDs
	if r.Chance(1, 4) {
		s1 = forkIDs[:len(forkIDs)-1]
	}
	order := append([]int{s2[0]}, s1...)
	order = append(order, s2[1:]...)
	if r.Chance(1, 2) {
		for i := len(order) - 1; i > 0; i-- {
			j := r.Intn(i + 1)
			order[i], order[j] = order[j], order[i]
		}
	}
	ann := append([]int{}, order...)
	if r.Chance(1, 2) {
		for i := len(ann) - 1; i > 0; i-- {
			j := r.Intn(i + 1)
			ann[i], ann[j] = ann[j], ann[i]
		}
	}
	viaMsg := r.Chance(1, 3) // through OnBlockAnnounce, best block = the known prefix
	for _, id := range ann {
		if viaMsg {
			steps = append(steps, fmt.Sprintf("M%x.%x.%x", r.Intn(3), id, k))
		} else {
			steps = append(steps, fmt.Sprintf("A%x", id))
		}
	}
	body := func(ids []int) string {
		var bl []string
		for _, id := range ids {
			fl := 1
			if r.Chance(1, 16) {
				fl = 3
			}
			bl = append(bl, fmt.Sprintf("%x/-/%x", id, fl))
		}
		fields := 0x12
		if r.Chance(1, 8) {
			fields = 2
		}
		return fmt.Sprintf("%x:1:%x:0:%s", r.Intn(3), fields, strings.Join(bl, ","))
	}
	var results []string
	switch r.Intn(8) {
	case 0: // two responses in one call
		cut := r.Range(1, len(order)-1)
		results = []string{body(order[:cut]), body(order[cut:])}
	case 1: // plus a header response for some main-chain blocks
		results = []string{body(order), g.result(g.chainTo(r.Range(1, m), r.Range(1, 4)), 0x13, 0)}
		if r.Chance(1, 2) {
			results[0], results[1] = results[1], results[0]
		}
	default:
		results = []string{body(order)}
	}
	steps = append(steps, "P"+strings.Join(results, "+"))
	if r.Chance(1, 3) { // a later call delivers the rest of the main chain with headers
		steps = append(steps, "P"+g.result(g.chainTo(m, r.Range(1, m)), 0x13, 0))
	}
	return strings.Join(g.hdrs, ";") + " - " + strings.Join(steps, "|")
}

func c32GenAll(r *vu.RNG, n int, emit func(string)) {
	if vu.Thorough() {
		c32Exhaustive(6, emit)
	} else {
		c32Exhaustive(4, emit)
	}
	for i := 0; i < n; i++ {
		if i%8 == 3 {
			emit(c32GenBatch(r))
			continue
		}
		if i%8 == 5 {
			if i%16 == 5 {
				emit(c32GenPruneFork(r))
			} else {
				emit(c32GenCase(r, true))
			}
			continue
		}
		emit(c32GenCase(r, false))
	}
	// the environment model against the real blockImporter (harness_importer_test.go)
	c32iGen(r.Fork(), n/2, emit)
}

func TestVerifC32(t *testing.T) { vu.Run(t, "C32", 1500, c32GenAll, c32Run) }
