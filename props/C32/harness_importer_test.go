// C32 harness, second part (package dot/sync; cases generated and run by TestVerifC32): ties the environment model of C32 (Model.v import_block /
// import_all) to the real blockImporter.importBlock / processBlockData / handleBlock of
// dot/sync/block_importer.go. The importer runs against fakes of its collaborators: a block state
// that is a set of known header hashes, a runtime that executes nothing, an import handler that
// stores the header hash.
//
// input:  imp <hdrs> <known> <fin> <blocks>
//   <hdrs>   as in the main harness: "-" or ';'-separated `p.n`
//   <known>  "-" or ','-separated header ids the block state has (the root 0 always)
//   <fin>    the finalised number
//   <blocks> ','-separated `S/H/f` handed to importBlock one after the other until one fails
// observed: <events> <ok|err>
//   events (','-separated, "-" for none) as in the main harness: i imported (HandleBlockImport),
//   s skipped (importBlock returned false without error), o refused: parent / finalised block
//   unknown, d refused: the handler already has the header, n nothing imported or finalised,
//   f finalised (SetFinalisedHash)
package sync

import (
	"encoding/json"
	"errors"
	"fmt"
	"strings"

	"github.com/ChainSafe/gossamer/dot/types"
	"github.com/ChainSafe/gossamer/internal/database"
	vu "github.com/ChainSafe/gossamer/internal/verifutil"
	"github.com/ChainSafe/gossamer/lib/common"
	"github.com/ChainSafe/gossamer/lib/runtime"
	rtstorage "github.com/ChainSafe/gossamer/lib/runtime/storage"
	"github.com/ChainSafe/gossamer/pkg/trie"
	"github.com/ChainSafe/gossamer/pkg/trie/inmemory"
)

type c32iRuntime struct{ runtime.Instance }

func (c32iRuntime) SetContextStorage(runtime.Storage)               {}
func (c32iRuntime) ExecuteBlock(*types.Block) ([]byte, error)       { return nil, nil }

type c32iEnv struct {
	BlockState // nil: any method not overridden panics
	w          *c32World
	cur        []string // events of the current importBlock call
}

func (e *c32iEnv) HasHeader(h common.Hash) (bool, error) { return e.w.st.known[h], nil }
func (e *c32iEnv) GetHeader(h common.Hash) (*types.Header, error) {
	if !e.w.st.known[h] {
		return nil, database.ErrNotFound
	}
	return &types.Header{StateRoot: trie.EmptyHash}, nil
}
func (e *c32iEnv) GetRuntime(common.Hash) (runtime.Instance, error) { return c32iRuntime{}, nil }
func (e *c32iEnv) SetFinalisedHash(h common.Hash, _, _ uint64) error {
	if !e.w.st.known[h] {
		e.cur = append(e.cur, "o")
		return fmt.Errorf("cannot finalise unknown block %s", h)
	}
	e.cur = append(e.cur, "f")
	return nil
}
func (e *c32iEnv) SetJustification(common.Hash, []byte) error    { return nil }
func (e *c32iEnv) CompareAndSetBlockData(*types.BlockData) error { return nil }

// StorageState
func (e *c32iEnv) TrieState(*common.Hash) (*rtstorage.TrieState, error) {
	return rtstorage.NewTrieState(inmemory.NewEmptyTrie()), nil
}
func (e *c32iEnv) Lock()   {}
func (e *c32iEnv) Unlock() {}

// BlockImportHandler
func (e *c32iEnv) HandleBlockImport(b *types.Block, _ *rtstorage.TrieState, _ bool) error {
	hh := b.Header.Hash()
	if e.w.st.known[hh] {
		e.cur = append(e.cur, "d")
		return errors.New("block already exists")
	}
	e.w.st.known[hh] = true
	e.cur = append(e.cur, "i")
	return nil
}

type c32iFinality struct{}

func (c32iFinality) VerifyBlockJustification(common.Hash, uint, []byte) (uint64, uint64, error) {
	return 1, 1, nil
}

type c32iTelemetry struct{}

func (c32iTelemetry) SendMessage(json.Marshaler) {}

type c32iTx struct{}

func (c32iTx) RemoveExtrinsic(types.Extrinsic) {}

func c32iRun(in string) string {
	f := strings.Split(in, " ")
	w := c32NewWorld(f[1])
	if f[2] != "-" {
		for _, k := range strings.Split(f[2], ",") {
			w.st.known[w.hashes[vu.UnX(k)]] = true
		}
	}
	w.st.finalised = uint(vu.UnX(f[3]))
	env := &c32iEnv{w: w}
	imp := &blockImporter{
		blockState:         env,
		storageState:       env,
		transactionState:   c32iTx{},
		finalityGadget:     c32iFinality{},
		blockImportHandler: env,
		telemetry:          c32iTelemetry{},
	}
	var events []string
	status := "ok"
	for _, bd := range w.parseBlocks(f[4]) {
		env.cur = nil
		s := w.name(bd.Hash)
		imported, err := imp.importBlock(bd, networkInitialSync)
		if err != nil {
			if errors.Is(err, errFailedToGetParent) {
				env.cur = append(env.cur, "o")
			}
			for _, e := range env.cur {
				events = append(events, e+s)
			}
			status = "err"
			break
		}
		if !imported {
			events = append(events, "s"+s)
			continue
		}
		if len(env.cur) == 0 {
			events = append(events, "n"+s)
		}
		for _, e := range env.cur {
			events = append(events, e+s)
		}
	}
	return c32Join(events, ",") + " " + status
}

func c32iGen(r *vu.RNG, n int, emit func(string)) {
	for i := 0; i < n; i++ {
		g := &c32Gen{r: r, parent: []int{-1}, number: []uint64{0}}
		nb := r.Range(1, 8)
		for k := 0; k < nb; k++ {
			p := len(g.number) - 1
			if r.Chance(1, 3) {
				p = r.Intn(len(g.number))
			}
			g.addHeader(uint64(p), g.number[p]+1, p)
		}
		if r.Chance(1, 4) {
			g.addHeader(uint64(0x8000+r.Intn(2)), uint64(r.Range(1, 4)), -1)
		}
		var known []string
		for id := 1; id < len(g.number); id++ {
			if r.Chance(1, 3) {
				known = append(known, fmt.Sprintf("%x", id))
			}
		}
		var blocks []string
		for k := r.Range(1, 6); k > 0; k-- {
			id := r.Range(1, len(g.number)-1)
			stated := fmt.Sprintf("%x", id)
			if r.Chance(1, 6) {
				stated = fmt.Sprintf("%x", r.Range(1, len(g.number)-1))
			} else if r.Chance(1, 10) {
				stated = fmt.Sprintf("u%x", 0x9000+r.Intn(3))
			}
			hdr := fmt.Sprintf("%x", id)
			if r.Chance(1, 8) {
				hdr = "-"
			}
			fl := uint64(1)
			if r.Chance(1, 6) {
				fl = 0
			}
			if r.Chance(1, 4) {
				fl |= 2
			} else if r.Chance(1, 10) {
				fl |= 4
			}
			blocks = append(blocks, fmt.Sprintf("%s/%s/%x", stated, hdr, fl))
		}
		emit(fmt.Sprintf("imp %s %s %x %s", strings.Join(g.hdrs, ";"), c32Join(known, ","), r.Intn(4),
			strings.Join(blocks, ",")))
	}
}

