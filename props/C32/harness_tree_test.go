// C32 harness, third part (injected into package dot/state): ties the refined block-state
// environment of coq/C32/ProofsNeverTwice.v (penv: stored blocks with ancestor paths, tree root;
// p_import_block with BlockTree.AddBlock's parent-in-tree refusal PNotInTree; pfinalise =
// BlockTree.Prune seen through HasHeader) to the REAL dot/state.BlockState on an in-memory
// database (HasHeader, AddBlock -> lib/blocktree BlockTree.AddBlock/getNode, SetFinalisedHash ->
// handleFinalisedBlock + BlockTree.Prune). Only the tree part is driven: no block is executed.
//
// input:  tree <hdrs> <steps>
//   <hdrs>   "-" or ';'-separated `p.n` as in the main harness: header i (1-based position) has
//            parent p (0 = the genesis block, < 0x8000: the header with that id, >= 0x8000: a
//            parent hash no header has) and number n (all numbers hex)
//   <steps>  ','-separated: a<i> = offer block i the way blockImporter.importBlock does
//            (HasHeader(hash)? HasHeader(parent)? AddBlock), f<i> = SetFinalisedHash(hash_i, 1, 0)
// observed: one token per step, ','-separated: <outcome>:<has>:<tree>
//   outcome of a<i>: i added (AddBlock returned nil), s skipped (HasHeader(hash) true),
//     o parent header not stored (HasHeader(parent) false), t AddBlock = ErrParentNotFound (parent
//     stored but no tree node), d AddBlock = ErrBlockExists, e AddBlock failed otherwise
//   outcome of f<i>: F finalised, U refused: unknown block (HasHeader false), E refused otherwise
//   <has>  '.'-separated sorted ids (0 = genesis) for which HasHeader answers true, "-" if none
//   <tree> '.'-separated sorted ids of BlockTree.GetAllBlocks(), ids no header has print as fff
package state

import (
	"encoding/json"
	"errors"
	"fmt"
	"sort"
	"strings"
	"testing"

	"github.com/ChainSafe/gossamer/dot/types"
	"github.com/ChainSafe/gossamer/internal/database"
	"github.com/ChainSafe/gossamer/lib/blocktree"
	"github.com/ChainSafe/gossamer/lib/common"
	"github.com/ChainSafe/gossamer/lib/crypto/sr25519"

	vu "github.com/ChainSafe/gossamer/internal/verifutil"
)

type c32tTelemetry struct{}

func (c32tTelemetry) SendMessage(json.Marshaler) {}

func c32tDigest(idx int) types.Digest {
	digest := types.NewDigest()
	var pre *types.PreRuntimeDigest
	var err error
	if idx%2 == 0 {
		pre, err = types.NewBabePrimaryPreDigest(uint32(idx), uint64(idx)+1,
			[sr25519.VRFOutputLength]byte{}, [sr25519.VRFProofLength]byte{}).ToPreRuntimeDigest()
	} else {
		pre, err = types.NewBabeSecondaryPlainPreDigest(uint32(idx), uint64(idx)+1).ToPreRuntimeDigest()
	}
	if err != nil {
		panic(err)
	}
	if e := digest.Add(*pre); e != nil {
		panic(e)
	}
	return digest
}

func c32tIds(ids []int) string {
	if len(ids) == 0 {
		return "-"
	}
	sort.Ints(ids)
	out := make([]string, len(ids))
	for i, v := range ids {
		out[i] = vu.X(uint64(v))
	}
	return strings.Join(out, ".")
}

func c32tRun(in string) string {
	f := strings.Split(in, " ")
	if len(f) != 3 || f[0] != "tree" {
		panic("c32t: bad input " + in)
	}
	genesis := &types.Header{Number: 0, StateRoot: common.Hash{0x32}, Digest: types.NewDigest()}
	hdrs := []*types.Header{genesis}
	if f[1] != "-" {
		for i, e := range strings.Split(f[1], ";") {
			p := strings.Split(e, ".")
			pi := int(vu.UnX(p[0]))
			var parent common.Hash
			switch {
			case pi >= 0x8000:
				parent = common.Hash{0xee, byte(pi), byte(pi >> 8)}
			case pi <= i:
				parent = hdrs[pi].Hash()
			default:
				panic("c32t: bad parent")
			}
			hdrs = append(hdrs, &types.Header{
				ParentHash:     parent,
				Number:         uint(vu.UnX(p[1])),
				StateRoot:      common.Hash{0x32, byte(i + 1)},
				ExtrinsicsRoot: common.Hash{byte(i + 1), 0x32},
				Digest:         c32tDigest(i + 1),
			})
		}
	}
	ids := map[common.Hash]int{}
	for i, h := range hdrs {
		ids[h.Hash()] = i
	}
	db, err := database.LoadDatabase("", true)
	if err != nil {
		panic(err)
	}
	defer db.Close()
	bs, err := NewBlockStateFromGenesis(db, NewTries(), genesis, c32tTelemetry{})
	if err != nil {
		panic(err)
	}
	sets := func() string {
		var has, tree []int
		for i, h := range hdrs {
			ok, err := bs.HasHeader(h.Hash())
			if err != nil {
				panic(err)
			}
			if ok {
				has = append(has, i)
			}
		}
		for _, h := range bs.bt.GetAllBlocks() {
			if i, ok := ids[h]; ok {
				tree = append(tree, i)
			} else {
				tree = append(tree, 0xfff)
			}
		}
		return c32tIds(has) + ":" + c32tIds(tree)
	}
	var out []string
	for _, st := range strings.Split(f[2], ",") {
		i := int(vu.UnX(st[1:]))
		h := hdrs[i]
		var o string
		switch st[0] {
		case 'a':
			has, err := bs.HasHeader(h.Hash())
			if err != nil {
				panic(err)
			}
			hasParent, err := bs.HasHeader(h.ParentHash)
			if err != nil {
				panic(err)
			}
			switch {
			case has:
				o = "s"
			case !hasParent:
				o = "o"
			default:
				err := bs.AddBlock(&types.Block{Header: *h, Body: types.Body{}})
				switch {
				case err == nil:
					o = "i"
				case errors.Is(err, blocktree.ErrParentNotFound):
					o = "t"
				case errors.Is(err, blocktree.ErrBlockExists):
					o = "d"
				default:
					o = "e"
				}
			}
		case 'f':
			has, err := bs.HasHeader(h.Hash())
			if err != nil {
				panic(err)
			}
			err = bs.SetFinalisedHash(h.Hash(), 1, 0)
			switch {
			case err == nil:
				o = "F"
			case !has:
				o = "U"
			default:
				o = "E"
			}
		default:
			panic("c32t: bad step " + st)
		}
		out = append(out, o+":"+sets())
	}
	return strings.Join(out, ",")
}

// ---------------------------------------------------------------- generator
// A random block tree (forks likely), offered in a mostly parent-first order with re-offers of
// earlier blocks (still stored: duplicates; pruned since; refused before), finalisations of
// random offered blocks in between, and a few headers whose parent no header has.
func c32tGen(r *vu.RNG, n int, emit func(string)) {
	for c := 0; c < n; c++ {
		nb := r.Range(2, 10)
		parent := []int{-1}
		number := []uint64{0}
		var hs []string
		for k := 1; k <= nb; k++ {
			if r.Chance(1, 10) {
				p := 0x8000 + r.Intn(2)
				parent = append(parent, -1)
				number = append(number, uint64(r.Range(1, 4)))
				hs = append(hs, fmt.Sprintf("%x.%x", p, number[k]))
				continue
			}
			p := k - 1
			if r.Chance(1, 2) {
				p = r.Intn(k)
			}
			parent = append(parent, p)
			number = append(number, number[p]+1)
			hs = append(hs, fmt.Sprintf("%x.%x", p, number[k]))
		}
		var steps []string
		var offered []int
		next := 1
		ns := r.Range(nb, 3*nb)
		for k := 0; k < ns; k++ {
			switch {
			case len(offered) > 0 && r.Chance(1, 4):
				// finalise: mostly a block that was offered, sometimes any block
				i := offered[r.Intn(len(offered))]
				if r.Chance(1, 8) {
					i = r.Range(0, nb)
				}
				steps = append(steps, fmt.Sprintf("f%x", i))
			case len(offered) > 0 && r.Chance(1, 3):
				steps = append(steps, fmt.Sprintf("a%x", offered[r.Intn(len(offered))]))
			case next <= nb && !r.Chance(1, 6):
				steps = append(steps, fmt.Sprintf("a%x", next))
				offered = append(offered, next)
				next++
			default:
				i := r.Range(1, nb)
				steps = append(steps, fmt.Sprintf("a%x", i))
				offered = append(offered, i)
			}
		}
		emit(fmt.Sprintf("tree %s %s", strings.Join(hs, ";"), strings.Join(steps, ",")))
	}
}

func TestVerifC32Tree(t *testing.T) {
	vu.Run(t, "C32", 300, c32tGen, c32tRun)
}
