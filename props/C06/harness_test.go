// C06 correspondence harness (injected into package pkg/trie/triedb by `go test -overlay`).
//
// input: <version 0|1> then tokens separated by one space
//   p:<key>:<value>   Put on the current TrieDB instance
//   d:<key>           Delete
//   h                 Hash()  (commits to the database)
//   R                 Hash(), then continue with a FRESH instance NewTrieDB(root, same database)
//   g:<key>           Get on the current instance (generated only directly after R)
//   D                 (only as last token) dump the database
// observed: one field per token
//   p,d -> ok | err        h,R -> <root hex> | err        g -> <value hex> | nil
//   D -> <k>=<v>,<k>=<v>,... sorted by key ("." when empty)
// keys/values: lower-case hex, "-" for the empty string.
package triedb

import (
	"bytes"
	"sort"
	"strings"
	"testing"

	"github.com/ChainSafe/gossamer/internal/database"
	"github.com/ChainSafe/gossamer/internal/primitives/core/hash"
	"github.com/ChainSafe/gossamer/internal/primitives/runtime"
	vu "github.com/ChainSafe/gossamer/internal/verifutil"
	"github.com/ChainSafe/gossamer/pkg/trie"
)

// a map-backed database; like the package's test MemoryDB it serves the empty node under its hash
type c06DB struct {
	data     map[string][]byte
	nullHash []byte
}

func (d *c06DB) Get(key []byte) ([]byte, error) {
	if bytes.HasSuffix(key, d.nullHash) {
		return []byte{0}, nil
	}
	if v, ok := d.data[string(key)]; ok {
		return v, nil
	}
	return nil, nil
}
func (d *c06DB) Put(key, value []byte) error {
	d.data[string(key)] = append([]byte{}, value...)
	return nil
}
func (d *c06DB) Del(key []byte) error     { delete(d.data, string(key)); return nil }
func (d *c06DB) Flush() error             { return nil }
func (d *c06DB) NewBatch() database.Batch { return &c06Batch{d} }

type c06Batch struct{ *c06DB }

func (b *c06Batch) Close() error   { return nil }
func (b *c06Batch) Reset()         {}
func (b *c06Batch) ValueSize() int { return 1 }

func c06Run(in string) string {
	toks := strings.Split(in, " ")
	ver := trie.V0
	if toks[0] == "1" {
		ver = trie.V1
	}
	db := &c06DB{data: map[string][]byte{}, nullHash: runtime.BlakeTwo256{}.Hash([]byte{0}).Bytes()}
	t := NewEmptyTrieDB[hash.H256, runtime.BlakeTwo256](db)
	t.SetVersion(ver)
	var out []string
	for _, tok := range toks[1:] {
		if tok == "" {
			continue
		}
		f := strings.Split(tok, ":")
		switch f[0] {
		case "p":
			if err := t.Put(vu.UnHex(f[1]), vu.UnHex(f[2])); err != nil {
				out = append(out, "err")
			} else {
				out = append(out, "ok")
			}
		case "d":
			if err := t.Delete(vu.UnHex(f[1])); err != nil {
				out = append(out, "err")
			} else {
				out = append(out, "ok")
			}
		case "h", "R":
			h, err := t.Hash()
			if err != nil {
				out = append(out, "err")
				break
			}
			out = append(out, vu.Hex(h.Bytes()))
			if f[0] == "R" {
				t = NewTrieDB[hash.H256, runtime.BlakeTwo256](h, db)
				t.SetVersion(ver)
			}
		case "g":
			v := t.Get(vu.UnHex(f[1]))
			if v == nil {
				out = append(out, "nil")
			} else {
				out = append(out, vu.Hex(v))
			}
		case "D":
			keys := make([]string, 0, len(db.data))
			for k := range db.data {
				keys = append(keys, k)
			}
			sort.Strings(keys)
			var sb strings.Builder
			if len(keys) == 0 {
				sb.WriteByte('.')
			}
			for i, k := range keys {
				if i > 0 {
					sb.WriteByte(',')
				}
				sb.WriteString(vu.Hex([]byte(k)) + "=" + vu.Hex(db.data[k]))
			}
			out = append(out, sb.String())
		default:
			out = append(out, "bad")
		}
	}
	return strings.Join(out, " ")
}

// ---- generator
var c06KeyBytes = []byte{0x00, 0x01, 0x10, 0x12, 0x1f, 0xff}
var c06ValLens = []int{0, 1, 2, 31, 32, 33, 34, 64}

func c06Key(r *vu.RNG) []byte {
	var n int
	switch x := r.Intn(20); {
	case x < 16:
		n = r.Intn(4)
	case x < 19:
		n = 31 + r.Intn(3) // partial keys around the 63-nibble header boundary
	default:
		n = 158 + r.Intn(3) // around 63+255 nibbles
	}
	k := make([]byte, n)
	for i := range k {
		k[i] = c06KeyBytes[r.Intn(len(c06KeyBytes))]
	}
	if n > 8 && r.Chance(1, 2) { // long keys sharing a long prefix
		for i := 0; i < n-1; i++ {
			k[i] = 0x12
		}
	}
	return k
}

func c06Val(r *vu.RNG) []byte {
	n := c06ValLens[r.Intn(len(c06ValLens))]
	v := make([]byte, n)
	b := byte(0xc0 + r.Intn(4))
	for i := range v {
		v[i] = b
	}
	return v
}

func c06Probes(keys map[string]bool) []string {
	seen := map[string]bool{}
	var out []string
	add := func(k []byte) {
		if !seen[string(k)] {
			seen[string(k)] = true
			out = append(out, "g:"+vu.Hex(k))
		}
	}
	ks := make([]string, 0, len(keys))
	for k := range keys {
		ks = append(ks, k)
	}
	sort.Strings(ks)
	for _, s := range ks {
		k := []byte(s)
		add(k)
		add(append(append([]byte{}, k...), 0x00)) // absent neighbours
		if len(k) > 0 {
			add(k[:len(k)-1])
			n := append([]byte{}, k...)
			n[len(n)-1] ^= 0x01
			add(n)
		}
	}
	return out
}

func c06History(r *vu.RNG) string {
	toks := []string{vu.X(uint64(r.Intn(2)))}
	keys := map[string]bool{}
	live := map[string]bool{}
	steps := 2 + r.Intn(14)
	for s := 0; s < steps; s++ {
		switch x := r.Intn(100); {
		case x < 55:
			var k []byte
			if len(keys) > 0 && r.Chance(1, 4) { // overwrite
				ks := make([]string, 0, len(keys))
				for q := range keys {
					ks = append(ks, q)
				}
				sort.Strings(ks)
				k = []byte(ks[r.Intn(len(ks))])
			} else {
				k = c06Key(r)
			}
			keys[string(k)] = true
			live[string(k)] = true
			toks = append(toks, "p:"+vu.Hex(k)+":"+vu.Hex(c06Val(r)))
		case x < 80:
			var k []byte
			if len(live) > 0 && r.Chance(4, 5) {
				ks := make([]string, 0, len(live))
				for q := range live {
					ks = append(ks, q)
				}
				sort.Strings(ks)
				k = []byte(ks[r.Intn(len(ks))])
			} else {
				k = c06Key(r)
			}
			keys[string(k)] = true
			delete(live, string(k))
			toks = append(toks, "d:"+vu.Hex(k))
		case x < 92:
			toks = append(toks, "h")
		default:
			toks = append(toks, "R")
			if r.Chance(1, 2) {
				toks = append(toks, c06Probes(keys)...)
			}
		}
	}
	toks = append(toks, "R")
	toks = append(toks, c06Probes(keys)...)
	if r.Chance(2, 3) {
		toks = append(toks, "D")
	}
	return strings.Join(toks, " ")
}

// exhaustive small scope (thorough tier): every history of at most 4 operations over 4 nested
// keys, values of 1, 32 and 33 bytes, deletes, commits and reopens, for both versions; every
// history ends with a reopen and a read of every key
func c06Exhaustive(emit func(string)) {
	keys := []string{"-", "12", "1234", "1235"}
	vals := []string{"c1", strings.Repeat("c2", 32), strings.Repeat("c3", 33)}
	var ops []string
	for _, k := range keys {
		for _, v := range vals {
			ops = append(ops, "p:"+k+":"+v)
		}
		ops = append(ops, "d:"+k)
	}
	ops = append(ops, "h", "R")
	tail := " R g:- g:12 g:1234 g:1235 g:1236 g:123400"
	var rec func(prefix string, depth int)
	rec = func(prefix string, depth int) {
		if depth > 0 {
			emit("0" + prefix + tail)
			emit("1" + prefix + tail)
		}
		if depth == 4 {
			return
		}
		for _, o := range ops {
			rec(prefix+" "+o, depth+1)
		}
	}
	rec("", 0)
}

// directed: a small committed trie whose nodes are stored by hash (values of 31..64 bytes under keys with a
// common prefix, optionally a value at the prefix itself), reopened, then deletions that leave a
// branch with one child and no value (fix() merges the branch with a child it has to load from the
// database), or with a value and no child (the branch becomes a leaf), interleaved with re-insertions
// of the same keys; commit, reopen, read every key and its neighbours.
func c06Merge(r *vu.RNG) string {
	toks := []string{vu.X(uint64(r.Intn(2)))}
	stem := [][]byte{{}, {0x12}, {0x12, 0x34}, {0xff}, {0x1f, 0xf0}}[r.Intn(5)]
	tails := [][]byte{{0x01}, {0x10}, {0x1f}, {0xf0}, {0xff}, {0x80, 0x01}, {0x8f}, {0xf1, 0x12}}
	keys := map[string]bool{}
	var ks [][]byte
	n := 2 + r.Intn(3)
	for len(ks) < n {
		k := append(append([]byte{}, stem...), tails[r.Intn(len(tails))]...)
		if !keys[string(k)] {
			keys[string(k)] = true
			ks = append(ks, k)
		}
	}
	val := func() []byte {
		l := []int{31, 32, 33, 40, 64, 2}[r.Intn(6)]
		v := make([]byte, l)
		b := byte(0xc0 + r.Intn(4))
		for i := range v {
			v[i] = b
		}
		return v
	}
	for _, k := range ks {
		toks = append(toks, "p:"+vu.Hex(k)+":"+vu.Hex(val()))
	}
	if r.Chance(1, 3) {
		keys[string(stem)] = true
		toks = append(toks, "p:"+vu.Hex(stem)+":"+vu.Hex(val()))
	}
	toks = append(toks, []string{"R", "h", "R"}[r.Intn(3)])
	// delete all but one (or all) of the keys below the stem, in random order
	perm := r.Intn(len(ks))
	left := 1
	if r.Chance(1, 4) {
		left = 0
	}
	for q := 0; q < len(ks)-left; q++ {
		k := ks[(perm+q)%len(ks)]
		toks = append(toks, "d:"+vu.Hex(k))
		if r.Chance(1, 5) {
			toks = append(toks, "R")
		}
		if r.Chance(1, 6) {
			toks = append(toks, "p:"+vu.Hex(k)+":"+vu.Hex(val()), "d:"+vu.Hex(k))
		}
	}
	if r.Chance(1, 3) {
		toks = append(toks, "d:"+vu.Hex(stem))
	}
	toks = append(toks, "R")
	toks = append(toks, c06Probes(keys)...)
	if r.Chance(2, 3) {
		toks = append(toks, "D")
	}
	return strings.Join(toks, " ")
}

func c06Gen(r *vu.RNG, n int, emit func(string)) {
	if vu.Thorough() {
		c06Exhaustive(emit)
	}
	// boundary corpus: a single value of length 31..34 under both versions
	for ver := 0; ver < 2; ver++ {
		for l := 30; l <= 34; l++ {
			v := bytes.Repeat([]byte{0xab}, l)
			emit(vu.X(uint64(ver)) + " p:1234:" + vu.Hex(v) + " R g:1234 g:12 g:123400 D")
		}
	}
	for i := 0; i < n; i++ {
		if i%5 == 4 {
			emit(c06Merge(r))
		} else {
			emit(c06History(r))
		}
	}
}

func TestVerifC06(t *testing.T) { vu.Run(t, "C06", 600, c06Gen, c06Run) }
