(* C06 driver: the observational spec of the database-backed trie engine.
   Every root returned by Hash() must be the spec root (Trie/Spec.v) of the map the history
   denotes so far, for the history's state version; every Get on a freshly reopened instance must
   be the map's value (nil when absent).  The property predicate is evaluated on the
   implementation's own observables; the model's observables are the same quantities, so
   model_eq and prop_ok coincide except for malformed observations. *)
open Model
open Vutil

let memo : (string, byte list) Hashtbl.t = Hashtbl.create 4096
let hh (b : byte list) : byte list =
  let k = string_of_bytes b in
  match Hashtbl.find_opt memo k with
  | Some v -> v
  | None -> let v = blake2b_256 b in Hashtbl.add memo k v; v

let parse_dump (s : string) : (byte list * byte list) list =
  if s = "." then [] else
  List.map (fun kv -> match String.split_on_char '=' kv with
    | [k; v] -> (bytes_of_hex k, bytes_of_hex v)
    | _ -> fail "C06: bad dump entry %s" kv) (String.split_on_char ',' s)

(* the checks against the database the engine wrote (token D):
   - the canonical trie of the denoted map is well formed for the codec, its root hash (through
     TrieCodec.encode) is the root the engine returned,
   - every binding commit() must have written (Lookup.tneeds_root) is in the database,
   - the model of TrieLookup (Lookup.tget, proved correct in LookupProofs.tget_correct) run on
     that database returns what the reopened instance returned for every probed key,
   - TrieCodec.Db.lookup on the canonical trie is the map's value. *)
let db_checks ver m (last_root : string) (probes : (string * string) list) (dump : string) : string =
  match committed ver m with
  | None -> ""   (* empty trie: nothing committed *)
  | Some n ->
    let d = parse_dump dump in
    if not (wf_node n) then "canonical trie not well formed for the codec"
    else if hex_of_bytes (root_hash hh n) <> last_root then
      Printf.sprintf "TrieCodec root %s <> engine root %s" (hex_of_bytes (root_hash hh n)) last_root
    else if not (has_b d (tneeds_root hh n)) then "database lacks a binding that commit must write"
    else begin
      let bad = List.filter (fun (k, ob) ->
        let kb = bytes_of_hex k in
        let r = tget (true, true) d (root_hash hh n) kb in
        let rs = (match r with Some v -> hex_of_bytes v | None -> "nil") in
        let ls = (match lookup n (List.concat_map (fun b ->
                       let x = int_of_byte b in [byte_of_int (x / 16); byte_of_int (x mod 16)]) kb) with
                  | Some v -> hex_of_bytes v | None -> "nil") in
        rs <> ob || ls <> ob) probes in
      match bad with
      | [] -> ""
      | (k, ob) :: _ -> Printf.sprintf "lookup model over the engine's database differs at key %s (impl %s)" k ob
    end

let check inp obs =
  let toks = split_ws inp in
  let ver, toks = (match toks with "1" :: r -> (V1, r) | "0" :: r -> (V0, r) | _ -> fail "C06: bad version") in
  let o = split_ws obs in
  let m = ref [] in
  let n_put = ref 0 and n_del = ref 0 and n_commit = ref 0 and n_get = ref 0 and n_hit = ref 0 in
  let boundary = ref false and hashed = ref false in
  let why = ref "" in
  let dbwhy = ref "" in
  let dbchecked = ref false in
  let last_root = ref "" in
  let probes = ref [] in
  (if List.length o <> List.length toks then why := "shape"
   else
     List.iteri (fun i (tok, ob) ->
       let mo = (match String.split_on_char ':' tok with
         | ["p"; k; v] ->
           let vb = bytes_of_hex v in
           incr n_put;
           if List.length vb = 32 then boundary := true;
           if value_hashed ver vb then hashed := true;
           m := apply_op !m (OPut (bytes_of_hex k, vb)); probes := []; "ok"
         | ["d"; k] -> incr n_del; m := apply_op !m (ODel (bytes_of_hex k)); probes := []; "ok"
         | ["h"] | ["R"] ->
           incr n_commit; probes := [];
           let r = hex_of_bytes (spec_root_bytes hh ver !m) in last_root := ob; r
         | ["g"; k] ->
           incr n_get; probes := (k, ob) :: !probes;
           (match bm_get !m (bytes_of_hex k) with
            | Some v -> incr n_hit; hex_of_bytes v
            | None -> "nil")
         | ["D"] ->
           dbchecked := true;
           if !why = "" then dbwhy := db_checks ver !m !last_root (List.rev !probes) ob;
           ob
         | _ -> fail "C06: bad token %s" tok) in
       if !why = "" && mo <> ob then
         why := Printf.sprintf "token %d (%s): spec=%s impl=%s" i
                  (if String.length tok > 40 then String.sub tok 0 40 ^ ".." else tok) mo ob)
       (List.combine toks o));
  let okk = (!why = "") in
  (* history-shape buckets: writes that meet nodes loaded from the database *)
  let shape =
    let reopened = ref false and committed = ref false and t = ref [] in
    let add x = if not (List.mem x !t) then t := x :: !t in
    List.iter (fun tok ->
      match String.split_on_char ':' tok with
      | "p" :: k :: _ ->
        if !reopened then add "put-after-reopen" else if !committed then add "put-after-commit";
        if k = "-" then add "empty-key";
        if String.length k >= 62 then add "key-ge-31-bytes"
      | "d" :: k :: _ ->
        if !reopened then add "delete-after-reopen" else if !committed then add "delete-after-commit";
        if k = "-" then add "empty-key"
      | ["h"] -> committed := true
      | ["R"] -> reopened := true
      | _ -> ()) toks;
    (if !m = [] && !n_put > 0 then add "ends-empty");
    List.sort compare !t in
  let tags = String.concat "," (
    [ (match ver with V0 -> "v0" | V1 -> "v1") ]
    @ (if !n_del > 0 then ["delete"] else [])
    @ (if !n_commit > 1 then ["repeated-commit"] else ["single-commit"])
    @ (if !boundary then ["value-len-32"] else [])
    @ (if !hashed then ["hashed-value"] else [])
    @ (if !n_hit > 0 then ["reopen-hit"] else [])
    @ (if !n_get > !n_hit then ["reopen-absent"] else [])
    @ (if !dbchecked then ["database-checked"] else []) @ shape) in
  { prop_ok = okk; model_eq = okk && !dbwhy = ""; nontrivial = (!n_put > 0); finding = "-"; tags;
    detail = (if not okk then !why else !dbwhy) }

(* vm_compute cross-check (coq/C06/VmCheck.v): roots and reopened reads recomputed inside Coq *)
let coq inp obs =
  let toks = split_ws inp and o = split_ws obs in
  match toks with
  | v :: toks when (v = "0" || v = "1") && List.length toks = List.length o ->
    (try
      let items = List.filter_map (fun (tok, ob) ->
        match String.split_on_char ':' tok with
        | ["p"; k; v] -> if ob <> "ok" then raise Exit else
            Some (Printf.sprintf "TP %s %s" (coq_bytes (bytes_of_hex k)) (coq_bytes (bytes_of_hex v)))
        | ["d"; k] -> if ob <> "ok" then raise Exit else Some (Printf.sprintf "TD %s" (coq_bytes (bytes_of_hex k)))
        | ["h"] | ["R"] -> if ob = "err" then raise Exit else Some (Printf.sprintf "TH %s" (coq_bytes (bytes_of_hex ob)))
        | ["g"; k] ->
          Some (Printf.sprintf "TG %s %s" (coq_bytes (bytes_of_hex k))
                  (if ob = "nil" then "None" else "(Some " ^ coq_bytes (bytes_of_hex ob) ^ ")"))
        | ["D"] -> None
        | _ -> raise Exit) (List.combine toks o) in
      Some (Printf.sprintf "vm_run blake2b_256 %s [] [%s]" (if v = "1" then "V1" else "V0") (String.concat "; " items))
    with Exit -> None)
  | _ -> None

let () = run_driver ~coq check
