(* C06 driver: the observational spec of the database-backed trie engine.
   Every root returned by Hash() must be the spec root (Trie/Spec.v) of the map the history
   denotes so far, for the history's state version; every Get on a freshly reopened instance must
   be the map's value (nil when absent).  The property predicate is evaluated on the
   implementation's own observables; the model's observables are the same quantities, so
   model_eq and prop_ok coincide except for malformed observations. *)
open Model
open Vutil

let memo : (string, byte list) Hashtbl.t = Hashtbl.create 4096
let hh (b : byte list) : byte list =
  let k = string_of_bytes b in
  match Hashtbl.find_opt memo k with
  | Some v -> v
  | None -> let v = blake2b_256 b in Hashtbl.add memo k v; v

let check inp obs =
  let toks = split_ws inp in
  let ver, toks = (match toks with "1" :: r -> (V1, r) | "0" :: r -> (V0, r) | _ -> fail "C06: bad version") in
  let m = ref [] in
  let n_put = ref 0 and n_del = ref 0 and n_commit = ref 0 and n_get = ref 0 and n_hit = ref 0 in
  let boundary = ref false and hashed = ref false in
  let model = List.map (fun tok ->
    match String.split_on_char ':' tok with
    | ["p"; k; v] ->
      let vb = bytes_of_hex v in
      incr n_put;
      if List.length vb = 32 then boundary := true;
      if value_hashed ver vb then hashed := true;
      m := apply_op !m (OPut (bytes_of_hex k, vb)); "ok"
    | ["d"; k] -> incr n_del; m := apply_op !m (ODel (bytes_of_hex k)); "ok"
    | ["h"] | ["R"] -> incr n_commit; hex_of_bytes (spec_root_bytes hh ver !m)
    | ["g"; k] ->
      incr n_get;
      (match bm_get !m (bytes_of_hex k) with
       | Some v -> incr n_hit; hex_of_bytes v
       | None -> "nil")
    | ["D"] -> "D"
    | _ -> fail "C06: bad token %s" tok) toks in
  let o = split_ws obs in
  let why = ref "" in
  (if List.length o <> List.length model then why := "shape"
   else
     List.iteri (fun i (tok, (mo, ob)) ->
       if !why = "" && mo <> "D" && mo <> ob then
         why := Printf.sprintf "token %d (%s): spec=%s impl=%s" i
                  (if String.length tok > 40 then String.sub tok 0 40 ^ ".." else tok) mo ob)
       (List.combine toks (List.combine model o)));
  let okk = (!why = "") in
  let tags = String.concat "," (
    [ (match ver with V0 -> "v0" | V1 -> "v1") ]
    @ (if !n_del > 0 then ["delete"] else [])
    @ (if !n_commit > 1 then ["repeated-commit"] else ["single-commit"])
    @ (if !boundary then ["value-len-32"] else [])
    @ (if !hashed then ["hashed-value"] else [])
    @ (if !n_hit > 0 then ["reopen-hit"] else [])
    @ (if !n_get > !n_hit then ["reopen-absent"] else [])) in
  { prop_ok = okk; model_eq = okk; nontrivial = (!n_put > 0); finding = "-"; tags;
    detail = (if okk then "" else !why) }

let () = run_driver check
