// C13 correspondence harness (injected into package pkg/scale by `go test -overlay`).
//
// inputs  (fields separated by one space, numbers in hex):
//   views <upper> <lower>
//   frombytes <LE|BE> <hexbytes>
//   frombig <hexnumber>
//   unjson <hex of the JSON text>
//   cmp <u1> <l1> <u2> <l2>
// observables:
//   views     -> <String hex> <MarshalJSON hex> <Bytes() hex> <Bytes(BE) hex> <big:upper,lower> <le:upper,lower> <json:upper,lower|err> <be:upper,lower>
//                (be = NewUint128(u.Bytes(BigEndian), BigEndian), le = NewUint128(u.Bytes()))
//   frombytes -> <upper>,<lower>
//   frombig   -> <upper>,<lower>
//   unjson    -> <upper>,<lower> | err
//   cmp       -> -1|0|1
package scale

import (
	"encoding/binary"
	"encoding/json"
	"fmt"
	"math/big"
	"strings"
	"testing"

	vu "github.com/ChainSafe/gossamer/internal/verifutil"
)

func c13pair(u *Uint128) string { return vu.X(u.Upper) + "," + vu.X(u.Lower) }

func c13Boundary(r *vu.RNG) uint64 {
	switch r.Intn(6) {
	case 0:
		return 0
	case 1:
		return ^uint64(0)
	case 2: // around a byte boundary
		k := uint(r.Intn(8)) * 8
		v := uint64(1) << k
		switch r.Intn(3) {
		case 0:
			return v - 1
		case 1:
			return v
		default:
			return v + 1
		}
	case 3: // interior zero bytes
		v := r.U64()
		for i := 0; i < 1+r.Intn(4); i++ {
			v &^= uint64(0xff) << (uint(r.Intn(8)) * 8)
		}
		return v
	case 4: // small
		return uint64(r.Intn(300))
	default:
		return r.U64()
	}
}

func c13Gen(r *vu.RNG, n int, emit func(string)) {
	// fixed boundary corpus first
	for k := 0; k <= 128; k += 8 {
		for d := -1; d <= 1; d++ {
			v := new(big.Int).Lsh(big.NewInt(1), uint(k))
			v.Add(v, big.NewInt(int64(d)))
			if v.Sign() < 0 || v.BitLen() > 128 {
				continue
			}
			up := new(big.Int).Rsh(v, 64).Uint64()
			lo := new(big.Int).And(v, new(big.Int).SetUint64(^uint64(0))).Uint64()
			emit(fmt.Sprintf("views %s %s", vu.X(up), vu.X(lo)))
		}
	}
	for _, s := range []string{"", "-", "+", "0", "007", "-5", "+5", "+-5", "12a", "1 2", "1_000", " 1", "0x10",
		"340282366920938463463374607431768211455", "340282366920938463463374607431768211456"} {
		emit("unjson " + vu.Hex([]byte(s)))
	}
	// the byte-slice constructor at every length 0..18, both orders: a single non-zero byte at
	// either end (tells the halves and the padding side apart), and an ascending pattern
	for l := 0; l <= 18; l++ {
		for _, o := range []string{"LE", "BE"} {
			first, last, asc := make([]byte, l), make([]byte, l), make([]byte, l)
			for j := range asc {
				asc[j] = byte(j + 1)
			}
			if l > 0 {
				first[0], last[l-1] = 1, 1
			}
			emit("frombytes " + o + " " + vu.Hex(first))
			emit("frombytes " + o + " " + vu.Hex(last))
			emit("frombytes " + o + " " + vu.Hex(asc))
		}
	}
	for _, s := range []string{"0", "1", "ff", "100", "ffffffffffffffff", "10000000000000000",
		"ffffffffffffffffffffffffffffffff", "100000000000000000000000000000000", "1" + strings.Repeat("0", 40)} {
		emit("frombig " + s)
	}
	for i := 0; i < n; i++ {
		switch r.Intn(10) {
		case 0, 1, 2, 3, 4:
			emit(fmt.Sprintf("views %s %s", vu.X(c13Boundary(r)), vu.X(c13Boundary(r))))
		case 5:
			o := "LE"
			if r.Chance(1, 2) {
				o = "BE"
			}
			l := r.Intn(20)
			b := r.Bytes(l)
			if r.Chance(1, 3) { // zero runs
				for j := range b {
					if r.Chance(1, 2) {
						b[j] = 0
					}
				}
			}
			emit(fmt.Sprintf("frombytes %s %s", o, vu.Hex(b)))
		case 6:
			l := r.Intn(20)
			b := r.Bytes(l)
			emit("frombig " + new(big.Int).SetBytes(b).Text(16))
		case 7:
			var s string
			switch r.Intn(4) {
			case 0:
				s = new(big.Int).SetBytes(r.Bytes(r.Intn(18))).String()
			case 1:
				s = "00" + new(big.Int).SetBytes(r.Bytes(r.Intn(5))).String()
			case 2:
				s = string("+-"[r.Intn(2)]) + new(big.Int).SetBytes(r.Bytes(r.Intn(16))).String()
			default:
				b := []byte(new(big.Int).SetBytes(r.Bytes(1 + r.Intn(10))).String())
				b[r.Intn(len(b))] = " ax_-+.e"[r.Intn(8)]
				s = string(b)
			}
			emit("unjson " + vu.Hex([]byte(s)))
		default:
			a, b := c13Boundary(r), c13Boundary(r)
			c, d := a, b
			if r.Chance(2, 3) {
				c = c13Boundary(r)
			}
			if r.Chance(2, 3) {
				d = c13Boundary(r)
			}
			emit(fmt.Sprintf("cmp %s %s %s %s", vu.X(a), vu.X(b), vu.X(c), vu.X(d)))
		}
	}
}

func c13Run(in string) string {
	f := strings.Split(in, " ")
	switch f[0] {
	case "views":
		u := &Uint128{Upper: vu.UnX(f[1]), Lower: vu.UnX(f[2])}
		js, err := json.Marshal(u)
		if err != nil {
			return "err:marshal"
		}
		// big-integer conversion: the number the value denotes, through NewUint128(*big.Int)
		v := new(big.Int).Lsh(new(big.Int).SetUint64(u.Upper), 64)
		v.Add(v, new(big.Int).SetUint64(u.Lower))
		fromBig, err := NewUint128(v)
		if err != nil {
			return "err:frombig"
		}
		fromLE, err := NewUint128(u.Bytes())
		if err != nil {
			return "err:fromle"
		}
		fromBE, err := NewUint128(u.Bytes(binary.BigEndian), binary.BigEndian)
		if err != nil {
			return "err:frombe"
		}
		// decode into a destination that already holds another value: UnmarshalJSON must
		// overwrite both halves
		back := Uint128{Upper: 0xdeadbeefcafe0001, Lower: 0x0123456789abcdef}
		jr := "err"
		if err := json.Unmarshal(js, &back); err == nil {
			jr = c13pair(&back)
		}
		return fmt.Sprintf("%s %s %s %s %s %s %s %s", vu.Hex([]byte(u.String())), vu.Hex(js),
			vu.Hex(u.Bytes()), vu.Hex(u.Bytes(binary.BigEndian)), c13pair(fromBig), c13pair(fromLE), jr, c13pair(fromBE))
	case "frombytes":
		var o binary.ByteOrder = binary.LittleEndian
		if f[1] == "BE" {
			o = binary.BigEndian
		}
		u, err := NewUint128(vu.UnHex(f[2]), o)
		if err != nil {
			return "err"
		}
		return c13pair(u)
	case "frombig":
		v, _ := new(big.Int).SetString(f[1], 16)
		u, err := NewUint128(v)
		if err != nil {
			return "err"
		}
		return c13pair(u)
	case "unjson":
		u := Uint128{Upper: 0xdeadbeefcafe0001, Lower: 0x0123456789abcdef} // dirty destination
		if err := u.UnmarshalJSON(vu.UnHex(f[1])); err != nil {
			return "err"
		}
		return c13pair(&u)
	case "cmp":
		a := &Uint128{Upper: vu.UnX(f[1]), Lower: vu.UnX(f[2])}
		b := &Uint128{Upper: vu.UnX(f[3]), Lower: vu.UnX(f[4])}
		return fmt.Sprint(a.Compare(b))
	}
	return "err:badinput"
}

func TestVerifC13(t *testing.T) { vu.Run(t, "C13", 10000, c13Gen, c13Run) }
