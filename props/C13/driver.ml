(* C13 driver: replays the Go trace on the extracted model and evaluates the property
   predicate (the one C13_views / C13_json_roundtrip are about) on the implementation's
   observables. *)
open Model
open Vutil

let pair_of s = match String.split_on_char ',' s with
  | [a; b] -> { upper = n_of_hex a; lower = n_of_hex b }
  | _ -> fail "bad pair %s" s
let str_pair u = hex_of_n u.upper ^ "," ^ hex_of_n u.lower

let check inp obs =
  let f = split_ws inp in
  match f with
  | ["views"; up; lo] ->
    let u = { upper = n_of_hex up; lower = n_of_hex lo } in
    let v = value u in
    let model = String.concat " " [
      hex_of_bytes (to_string u); hex_of_bytes (marshal_json u);
      hex_of_bytes (bytes LE u); hex_of_bytes (bytes BE u);
      str_pair (of_big v); str_pair (of_bytes LE (bytes LE u));
      (match unmarshal_json (marshal_json u) with Some w -> str_pair w | None -> "err") ] in
    (* property predicate on the implementation's own observables *)
    let prop, why = (match split_ws obs with
      | [s; js; le; be; big; fle; jr] ->
        let checks = [
          ("String", parse_decimal (bytes_of_hex s) = Some v && bytes_of_hex s = decimal v);
          ("JSON", bytes_of_hex js = decimal v);
          ("BytesLE", le_val (bytes_of_hex le) = v);
          ("BytesBE", be_val (bytes_of_hex be) = v);
          ("FromBig", big = str_pair u);
          ("FromLE", fle = str_pair u);
          ("JSONRoundTrip", jr = str_pair u) ] in
        let bad = List.filter (fun (_, b) -> not b) checks in
        (bad = [], String.concat "," (List.map fst bad))
      | _ -> (false, "shape")) in
    let nontrivial = (u.upper <> N0 || u.lower <> N0) in
    { prop_ok = prop; model_eq = (model = obs); nontrivial; finding = "-";
      tags = "views" ^ (if u.upper <> N0 then ",upper-nonzero" else ",upper-zero");
      detail = (if prop && model = obs then "" else Printf.sprintf "views-differ[%s] model=%s" why model) }
  | ["frombytes"; o; hx] ->
    let o' = if o = "BE" then BE else LE in
    let m = str_pair (of_bytes o' (bytes_of_hex hx)) in
    { (ok ~tags:("frombytes-" ^ o) ()) with model_eq = (m = obs); detail = if m = obs then "" else "model=" ^ m }
  | ["frombig"; hx] ->
    let m = str_pair (of_big (n_of_hex hx)) in
    { (ok ~tags:"frombig" ()) with model_eq = (m = obs); detail = if m = obs then "" else "model=" ^ m }
  | ["unjson"; hx] ->
    let m = (match unmarshal_json (bytes_of_hex hx) with Some w -> str_pair w | None -> "err") in
    { (ok ~tags:("unjson-" ^ (if m = "err" then "err" else "ok")) ()) with
      model_eq = (m = obs); detail = if m = obs then "" else "model=" ^ m }
  | ["cmp"; a; b; c; d] ->
    let u = { upper = n_of_hex a; lower = n_of_hex b } and w = { upper = n_of_hex c; lower = n_of_hex d } in
    let m = (match compare0 u w with Eq -> "0" | Lt -> "-1" | Gt -> "1") in
    { (ok ~tags:"cmp" ()) with model_eq = (m = obs);
      detail = if m = obs then "" else "model=" ^ m }
  | _ -> fail "C13: bad input %s" inp

(* vm_compute cross-check: the same views recomputed inside Coq and compared with the
   implementation's observables *)
let coq inp obs =
  match split_ws inp, split_ws obs with
  | ["views"; up; lo], [s; js; le; be; _; _; _] ->
    Some (Printf.sprintf "let u := mk128 %s %s in bytes_eqb (to_string u) %s && bytes_eqb (marshal_json u) %s && bytes_eqb (bytes LE u) %s && bytes_eqb (bytes BE u) %s"
      (coq_n (n_of_hex up)) (coq_n (n_of_hex lo))
      (coq_bytes (bytes_of_hex s)) (coq_bytes (bytes_of_hex js)) (coq_bytes (bytes_of_hex le)) (coq_bytes (bytes_of_hex be)))
  | _ -> None

let () = run_driver ~coq check
