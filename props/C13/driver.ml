(* C13 driver: replays the Go trace on the extracted model and evaluates the property
   predicate (the one C13_views / C13_json_roundtrip are about) on the implementation's
   observables. *)
open Model
open Vutil

let pair_of s = match String.split_on_char ',' s with
  | [a; b] -> { upper = n_of_hex a; lower = n_of_hex b }
  | _ -> fail "bad pair %s" s
let str_pair u = hex_of_n u.upper ^ "," ^ hex_of_n u.lower

(* k < 2^128 *)
let hex_len_le32 (k : n) = String.length (hex_of_n k) <= 32

let check inp obs =
  let f = split_ws inp in
  match f with
  | ["views"; up; lo] ->
    let u = { upper = n_of_hex up; lower = n_of_hex lo } in
    let v = value u in
    let model = String.concat " " [
      hex_of_bytes (to_string u); hex_of_bytes (marshal_json u);
      hex_of_bytes (bytes LE u); hex_of_bytes (bytes BE u);
      str_pair (of_big v); str_pair (of_bytes LE (bytes LE u));
      (match unmarshal_json (marshal_json u) with Some w -> str_pair w | None -> "err");
      str_pair (of_bytes BE (bytes BE u)) ] in
    (* property predicate on the implementation's own observables *)
    let prop, why = (match split_ws obs with
      | [s; js; le; be; big; fle; jr; fbe] ->
        let checks = [
          ("String", parse_decimal (bytes_of_hex s) = Some v && bytes_of_hex s = decimal v);
          ("JSON", bytes_of_hex js = decimal v);
          ("BytesLE", le_val (bytes_of_hex le) = v);
          ("BytesBE", be_val (bytes_of_hex be) = v);
          ("FromBig", big = str_pair u);
          ("FromLE", fle = str_pair u);
          ("FromBE", fbe = str_pair u);
          ("JSONRoundTrip", jr = str_pair u) ] in
        let bad = List.filter (fun (_, b) -> not b) checks in
        (bad = [], String.concat "," (List.map fst bad))
      | _ -> (false, "shape")) in
    let nontrivial = (u.upper <> N0 || u.lower <> N0) in
    { prop_ok = prop; model_eq = (model = obs); nontrivial; finding = "-";
      tags = "views" ^ (if u.upper <> N0 then ",upper-nonzero" else ",upper-zero");
      detail = (if prop && model = obs then "" else Printf.sprintf "views-differ[%s] model=%s" why model) }
  | ["frombytes"; o; hx] ->
    (* property predicate (C13_from_bytes) on the implementation's pair: for at most 16 bytes the
       constructed value denotes the number the bytes denote in that order *)
    let o' = if o = "BE" then BE else LE in
    let b = bytes_of_hex hx in
    let m = str_pair (of_bytes o' b) in
    let short = List.length b <= 16 in
    let prop = (not short) || (obs <> "err" &&
      (let w = pair_of obs in wf w && value w = (match o' with LE -> le_val b | BE -> be_val b))) in
    { prop_ok = prop; model_eq = (m = obs); nontrivial = (b <> []); finding = "-";
      tags = "frombytes-" ^ o ^ (if short then "" else ",frombytes-over16");
      detail = if prop && m = obs then "" else "model=" ^ m }
  | ["frombig"; hx] ->
    let k = n_of_hex hx in
    let m = str_pair (of_big k) in
    let small = hex_len_le32 k in
    let prop = (not small) || (obs <> "err" && (let w = pair_of obs in wf w && value w = k)) in
    { prop_ok = prop; model_eq = (m = obs); nontrivial = (k <> N0); finding = "-";
      tags = (if small then "frombig" else "frombig-over128");
      detail = if prop && m = obs then "" else "model=" ^ m }
  | ["unjson"; hx] ->
    let txt = bytes_of_hex hx in
    let m = (match unmarshal_json txt with Some w -> str_pair w | None -> "err") in
    (* property predicate (C13_json_decode) on the implementation's pair: the JSON form of a
       128-bit value, i.e. the canonical decimal numeral of a number below 2^128, decodes to it *)
    let canonical = (match parse_decimal txt with
        | Some k -> if decimal k = txt && hex_len_le32 k then Some k else None
        | None -> None) in
    let prop = (match canonical with
        | Some k -> obs <> "err" && (let w = pair_of obs in wf w && value w = k)
        | None -> true) in
    { prop_ok = prop; model_eq = (m = obs); nontrivial = true; finding = "-";
      tags = "unjson-" ^ (if m = "err" then "err" else "ok") ^ (if canonical <> None then ",unjson-canonical" else "");
      detail = if prop && m = obs then "" else "model=" ^ m }
  | ["cmp"; a; b; c; d] ->
    let u = { upper = n_of_hex a; lower = n_of_hex b } and w = { upper = n_of_hex c; lower = n_of_hex d } in
    let m = (match compare0 u w with Eq -> "0" | Lt -> "-1" | Gt -> "1") in
    { (ok ~tags:"cmp" ()) with model_eq = (m = obs);
      detail = if m = obs then "" else "model=" ^ m }
  | _ -> fail "C13: bad input %s" inp

(* vm_compute cross-check: the same views recomputed inside Coq and compared with the
   implementation's observables *)
let coq inp obs =
  match split_ws inp, split_ws obs with
  | ["views"; up; lo], [s; js; le; be; _; _; _; _] ->
    Some (Printf.sprintf "let u := mk128 %s %s in bytes_eqb (to_string u) %s && bytes_eqb (marshal_json u) %s && bytes_eqb (bytes LE u) %s && bytes_eqb (bytes BE u) %s"
      (coq_n (n_of_hex up)) (coq_n (n_of_hex lo))
      (coq_bytes (bytes_of_hex s)) (coq_bytes (bytes_of_hex js)) (coq_bytes (bytes_of_hex le)) (coq_bytes (bytes_of_hex be)))
  | ["frombytes"; o; hx], [_] when obs <> "err" ->
    let w = pair_of obs in
    Some (Printf.sprintf "let w := of_bytes %s %s in N.eqb (upper w) %s && N.eqb (lower w) %s"
      (if o = "BE" then "BE" else "LE") (coq_bytes (bytes_of_hex hx)) (coq_n w.upper) (coq_n w.lower))
  | ["frombig"; hx], [_] when obs <> "err" ->
    let w = pair_of obs in
    Some (Printf.sprintf "let w := of_big %s in N.eqb (upper w) %s && N.eqb (lower w) %s"
      (coq_n (n_of_hex hx)) (coq_n w.upper) (coq_n w.lower))
  | _ -> None

let () = run_driver ~coq check
