(* C14 driver: replays the Go trace on the extracted reference codec (coq/C14/ModelScale.v with
   the schemas of ModelTypes.v, the header-hash model, the proto3 model) and evaluates the
   property predicates on the implementation's observables:
     - the implementation's encoding equals the reference encoding byte for byte,
     - decoding it gives the value back,
     - Header.Hash() is BLAKE2b-256 of the reference encoding. *)
open Model
open Vutil

(* ---- generic value trees (the trace syntax) ---- *)
type tree =
  | Num of string | Bytes of string | List of tree list | Struct of (string * tree) list
  | Opt of tree option | Enum of string * tree

let parse_tree (s : string) : tree =
  let p = ref 0 in
  let n = String.length s in
  let peek () = if !p < n then s.[!p] else '\000' in
  let eat c = if peek () <> c then fail "value: expected %c at %d in %s" c !p s else incr p in
  let span f = let st = !p in while !p < n && f s.[!p] do incr p done; String.sub s st (!p - st) in
  let is_hex c = (c >= '0' && c <= '9') || (c >= 'a' && c <= 'f') in
  let is_id c = c = '_' || (c >= '0' && c <= '9') || (c >= 'a' && c <= 'z') || (c >= 'A' && c <= 'Z') in
  let starts w = !p + String.length w <= n && String.sub s !p (String.length w) = w in
  let rec value () =
    match peek () with
    | 'x' -> incr p; Bytes (span (fun c -> c = '-' || is_hex c))
    | '[' -> incr p;
      let items = ref [] in
      while peek () <> ']' do
        if !items <> [] then eat ',';
        items := value () :: !items
      done; eat ']'; List (List.rev !items)
    | '{' -> incr p;
      let items = ref [] in
      while peek () <> '}' do
        if !items <> [] then eat ',';
        let nme = span is_id in eat ':';
        let v = value () in
        items := (nme, v) :: !items
      done; eat '}'; Struct (List.rev !items)
    | '#' -> incr p; let i = span is_hex in eat '('; let v = value () in eat ')'; Enum (i, v)
    | _ when starts "none" -> p := !p + 4; Opt None
    | _ when starts "some(" -> p := !p + 5; let v = value () in eat ')'; Opt (Some v)
    | _ -> Num (span is_hex)
  in
  let v = value () in
  if !p <> n then fail "value: trailing text in %s" s;
  v

exception Shape of string

(* tree -> Gallina value, directed by the type (struct fields by name) *)
let rec to_val (t : ty) (tr : tree) : val0 =
  match t, tr with
  | (TUint _ | TCompact), Num s -> VN (n_of_hex s)
  | (TFixed _ | TBytes), Bytes s -> VB (bytes_of_hex s)
  | TVec t', List l -> VL (List.map (to_val t') l)
  | TOpt _, Opt None -> VO None
  | TOpt t', Opt (Some x) -> VO (Some (to_val t' x))
  | TStruct fs, Struct items ->
    if List.length fs <> List.length items then raise (Shape "struct arity");
    VS (List.map (fun (nme, t') ->
          match List.assoc_opt (string_of_bytes nme) items with
          | Some x -> to_val t' x
          | None -> raise (Shape ("missing field " ^ string_of_bytes nme))) fs)
  | TEnum cs, Enum (i, x) ->
    let idx = n_of_hex i in
    (match List.find_opt (fun (j, _) -> j = idx) cs with
     | Some (_, (_, t')) -> VE (idx, to_val t' x)
     | None -> raise (Shape "enum index"))
  | _ -> raise (Shape "value does not fit the type")

let rec of_val (t : ty) (v : val0) : string =
  match t, v with
  | (TUint _ | TCompact), VN n -> hex_of_n n
  | (TFixed _ | TBytes), VB b -> "x" ^ hex_of_bytes b
  | TVec t', VL l -> "[" ^ String.concat "," (List.map (of_val t') l) ^ "]"
  | TOpt _, VO None -> "none"
  | TOpt t', VO (Some x) -> "some(" ^ of_val t' x ^ ")"
  | TStruct fs, VS vs when List.length fs = List.length vs ->
    "{" ^ String.concat "," (List.map2 (fun (nme, t') x -> string_of_bytes nme ^ ":" ^ of_val t' x) fs vs) ^ "}"
  | TEnum cs, VE (i, x) ->
    (match List.find_opt (fun (j, _) -> j = i) cs with
     | Some (_, (_, t')) -> "#" ^ hex_of_n i ^ "(" ^ of_val t' x ^ ")"
     | None -> "#?")
  | _ -> "?"

let rec schema_string (t : ty) : string =
  match t with
  | TUint k -> "u" ^ string_of_int (int_of_nat k)
  | TCompact -> "c"
  | TFixed k -> "f" ^ string_of_int (int_of_nat k)
  | TBytes -> "b"
  | TVec t' -> "v<" ^ schema_string t' ^ ">"
  | TOpt t' -> "o<" ^ schema_string t' ^ ">"
  | TStruct fs -> "{" ^ String.concat "," (List.map (fun (nme, t') -> string_of_bytes nme ^ ":" ^ schema_string t') fs) ^ "}"
  | TEnum cs -> "e[" ^ String.concat "|" (List.map (fun (i, (nme, t')) ->
      string_of_int (int_of_n i) ^ "=" ^ string_of_bytes nme ^ ":" ^ schema_string t') cs) ^ "]"

let ty_of name = match type_of_name (bytes_of_string name) with
  | Some t -> t
  | None -> fail "C14: unknown type %s" name

(* the block data list of a response, as a wire-type-like schema for the trace syntax only *)
let block_data_ty : ty =
  let f s t = (bytes_of_string s, t) in
  TVec (TStruct [ f "Hash" (TFixed (nat_of_int 32)); f "Header" (TOpt header); f "Body" (TOpt body);
                  f "Receipt" (TOpt TBytes); f "MessageQueue" (TOpt TBytes); f "Justification" (TOpt TBytes) ])

let bd_of_val (v : val0) : block_data = match v with
  | VS [VB h; VO hd; VO bd; VO rc; VO mq; VO js] ->
    let ob = function Some (VB b) -> Some b | None -> None | _ -> raise (Shape "bytes") in
    { bd_hash = h; bd_header = hd;
      bd_body = (match bd with Some (VL l) -> Some (List.map (function VB b -> b | _ -> raise (Shape "ext")) l)
                             | None -> None | _ -> raise (Shape "body"));
      bd_receipt = ob rc; bd_mq = ob mq; bd_just = ob js }
  | _ -> raise (Shape "block data")
let val_of_bd (d : block_data) : val0 =
  let ob = function Some b -> VO (Some (VB b)) | None -> VO None in
  VS [VB d.bd_hash; VO d.bd_header;
      VO (match d.bd_body with Some l -> Some (VL (List.map (fun b -> VB b) l)) | None -> None);
      ob d.bd_receipt; ob d.bd_mq; ob d.bd_just]

let kind_tag (t : ty) (v : val0) = match t, v with
  | TEnum cs, VE (i, _) -> (match List.find_opt (fun (j, _) -> j = i) cs with
      | Some (_, (nme, _)) -> "variant-" ^ string_of_bytes nme | None -> "variant-?")
  | _ -> ""

(* digest item kinds present in a header value *)
let digest_tags (v : val0) = match v with
  | VS [_; _; _; _; VL items] ->
    if items = [] then ["digest-empty"] else
    List.sort_uniq compare (List.map (function
      | VE (i, _) -> "digest-item-" ^ hex_of_n i | _ -> "digest-item-?") items)
  | _ -> []

let bad ?(finding="-") ~tags detail =
  { prop_ok = false; model_eq = false; nontrivial = true; finding; tags; detail }

let check inp obs =
  let f = split_ws inp and o = split_ws obs in
  try
  match f with
  | ["schema"; name] ->
    let t = if name = "BlockDataList" then block_data_ty else ty_of name in
    let m = schema_string t in
    (* the two hand-written copies of the schema must agree, and the schema must be well formed *)
    let okwf = wf_ty t in
    { prop_ok = okwf; model_eq = (m = obs); nontrivial = false; finding = "-"; tags = "schema";
      detail = if m = obs && okwf then "" else "gallina-schema=" ^ m }
  | ["val"; name; vs] ->
    let t = ty_of name in
    let v = to_val t (parse_tree vs) in
    if not (has_type t v) then
      (* outside the type's value domain: the generator must not produce it *)
      { (ok ~nontrivial:false ~tags:"val-ill-typed" ()) with model_eq = false; detail = "generated value is not of the type" }
    else begin
      let enc = encode t v in
      let dec = (match decode_all t enc with Some w -> of_val t w | None -> "err") in
      let base_tags = "val," ^ name ^ (let k = kind_tag t v in if k = "" then "" else "," ^ name ^ "-" ^ k)
                      ^ (if name = "Header" then "," ^ String.concat "," (digest_tags v) else "") in
      match o with
      | [e] when String.length e >= 10 && String.sub e 0 10 = "err:build:" ->
        (* the Go type cannot represent a value of the specified type *)
        bad ~tags:(base_tags ^ ",go-cannot-represent")
          ("the Go type cannot hold this spec-defined value (" ^ e ^ "); reference encoding " ^ hex_of_bytes enc)
      | genc :: gdec :: rest ->
        let is_hdr = (name = "Header") in
        let is_ph = (name = "PrimHeader") and is_pj = (name = "PrimJustification") in
        let nodec = (name = "LocalizedPayload") in
        (* finding generic-header-digest-untagged: the primitives' generic header encodes its
           digest items without the variant index, and its decoder panics on any item *)
        let guard = (is_ph && has_digest_items v) || (is_pj && just_has_digest_items v) in
        let menc = if is_ph then encode_untagged v else if is_pj then encode_just_untagged v else enc in
        let mdec = if guard then "panic" else dec in
        let ref_hash = if is_hdr || is_ph then blake2b_256 enc else [] in
        let mh = if is_hdr then fst (header_hash (fresh v)) else if is_ph then prim_header_hash v else [] in
        let mhash = if is_hdr then [hex_of_bytes mh; hex_of_bytes mh; hex_of_bytes mh]
                    else if is_ph then [hex_of_bytes mh] else [] in
        let model = String.concat " " ([hex_of_bytes menc; (if nodec then "-" else mdec)] @ mhash) in
        let p_enc = (bytes_of_hex genc = enc) in
        let p_dec = nodec || (gdec = of_val t v) in
        (* the specified hash is blake2b_256 of the reference encoding; every hash reported (built
           header, header decoded from the encoding, deep copy) must equal it *)
        let p_hash = (not (is_hdr || is_ph))
                     || (rest <> [] && List.for_all (fun h -> h <> "err" && bytes_of_hex h = ref_hash) rest
                         && List.length rest = List.length mhash) in
        let why = String.concat "," (List.filter (fun x -> x <> "")
          [ (if p_enc then "" else "encoding differs from the reference encoder");
            (if p_dec then "" else "decode(encode v) <> v");
            (if p_hash then "" else "Hash() <> blake2b_256(encoding)") ]) in
        let prop = p_enc && p_dec && p_hash in
        { prop_ok = prop; model_eq = (model = obs); nontrivial = true;
          finding = (if (not prop) && guard && model = obs then "generic-header-digest-untagged" else "-");
          tags = base_tags ^ (if is_ph || is_pj then (if guard then "," ^ name ^ "-with-digest-items" else "," ^ name ^ "-no-digest-items") else "");
          detail = if why = "" && model = obs then "" else why ^ " model=" ^ (if String.length model > 300 then String.sub model 0 300 ^ "..." else model) }
      | _ -> bad ~tags:(base_tags ^ ",go-error") ("unexpected observation " ^ obs)
    end
  | ["dec"; name; hx] ->
    let t = ty_of name in
    let bs = bytes_of_hex hx in
    (match decode_all t bs with
     | Some v ->
       let m = of_val t v in
       { prop_ok = (obs = m); model_eq = (obs = m); nontrivial = true; finding = "-";
         tags = "dec,dec-" ^ name ^ (if name = "Header" then "," ^ String.concat "," (digest_tags v) else "");
         detail = if obs = m then "" else "a reference encoding is not decoded to its value; model=" ^ m }
     | None ->
       (* not a canonical encoding of the type: how the implementation treats malformed input is
          the subject of C12/C33, no claim here *)
       ok ~nontrivial:false ~tags:"dec-malformed-noclaim" ())
  | [("xhdr" | "xjust") as kind; vs] ->
    (* the reference encoding (produced through dot/types.Header / the primitives' Commit, and
       required here to BE the reference encoding) decoded into the generic types: the value must
       come back; inside the guard of finding generic-header-digest-untagged the decoder crashes *)
    let is_h = (kind = "xhdr") in
    let t = if is_h then prim_header else prim_justification in
    let v = to_val t (parse_tree vs) in
    if not (has_type t v) then
      { (ok ~nontrivial:false ~tags:"val-ill-typed" ()) with model_eq = false; detail = "generated value is not of the type" }
    else begin
      let enc = encode t v in
      let guard = if is_h then has_digest_items v else just_has_digest_items v in
      let res = if is_h then decode_generic_header enc else decode_generic_just enc in
      let mdec = (match res with Ok w -> of_val t w | Panic -> "panic" | _ -> "err") in
      let mhash = if is_h && not guard then [hex_of_bytes (blake2b_256 enc)] else [] in
      let model = String.concat " " ([hex_of_bytes enc; mdec] @ mhash) in
      match o with
      | genc :: gdec :: rest ->
        let p_in = (bytes_of_hex genc = enc) in
        let p_dec = (gdec = of_val t v) in
        let p_hash = (not is_h) || (match rest with [h] -> bytes_of_hex h = blake2b_256 enc | _ -> false) in
        let prop = p_in && p_dec && p_hash in
        { prop_ok = prop; model_eq = (model = obs); nontrivial = true;
          finding = (if (not prop) && guard && model = obs then "generic-header-digest-untagged" else "-");
          tags = kind ^ (if guard then "," ^ kind ^ "-with-digest-items" else "," ^ kind ^ "-no-digest-items");
          detail = if prop && model = obs then "" else
            (if not p_in then "the bytes handed to the decoder are not the reference encoding"
             else if not p_dec then "the reference encoding does not decode to the value" else "Hash() of the decoded header <> blake2b_256(encoding)")
            ^ " model=" ^ (if String.length model > 300 then String.sub model 0 300 ^ "..." else model) }
      | _ -> bad ~tags:(kind ^ ",go-error") ("unexpected observation " ^ obs)
    end
  | ["babepre"; vs] ->
    let t = ty_of "BabeDigest" in
    let v = to_val t (parse_tree vs) in
    let model = "42414245 " ^ hex_of_bytes (encode t v) ^ " " ^ of_val t v in
    { prop_ok = (obs = model); model_eq = (obs = model); nontrivial = true; finding = "-";
      tags = "babepre," ^ kind_tag t v;
      detail = if obs = model then "" else "ToPreRuntimeDigest is not (BABE, reference encoding) / does not decode back; model=" ^ model }
  | ["hashmut"; v1s; v2s] ->
    let v1 = to_val header (parse_tree v1s) and v2 = to_val header (parse_tree v2s) in
    let (h0, hd) = header_hash (fresh v1) in
    let hd' = set_fields hd v2 in
    let (h1, _) = header_hash hd' in
    let enc1 = encode header v2 in
    let model = String.concat " " [hex_of_bytes h0; hex_of_bytes h1; hex_of_bytes enc1] in
    (match o with
     | [g0; g1; genc] ->
       let s2 = spec_hash v2 in
       let p0 = (bytes_of_hex g0 = h0) in          (* h0 = spec_hash v1 (fresh header) *)
       let p1 = (bytes_of_hex g1 = s2) in
       let penc = (bytes_of_hex genc = enc1) in
       let guard = stale hd' in
       { prop_ok = p0 && p1 && penc; model_eq = (model = obs); nontrivial = true;
         finding = (if (not p1) && p0 && penc && guard then "header-hash-stale-cache" else "-");
         tags = "hashmut" ^ (if guard then ",hashmut-stale" else ",hashmut-unchanged");
         detail = if p0 && p1 && penc && model = obs then "" else
           (if not p1 then "Hash() after a field assignment is not blake2b_256 of the header's encoding" else "hashmut differs") ^ " model=" ^ model }
     | _ -> bad ~tags:"hashmut,go-error" ("unexpected observation " ^ obs))
  | ["breq"; rd; from; dir; mx] ->
    let fb = if String.sub from 0 2 = "h:" then FromHash (bytes_of_hex (String.sub from 2 (String.length from - 2)))
             else FromNumber (n_of_hex (String.sub from 2 (String.length from - 2))) in
    let r = { rq_data = n_of_hex rd; rq_from = fb; rq_dir = n_of_hex dir;
              rq_max = (if mx = "none" then None else Some (n_of_hex mx)) } in
    let enc = encode_request r in
    let show (q : block_request) = String.concat " " [ hex_of_n q.rq_data;
        (match q.rq_from with FromHash h -> "h:" ^ hex_of_bytes h | FromNumber k -> "n:" ^ hex_of_n k);
        hex_of_n q.rq_dir; (match q.rq_max with None -> "none" | Some m -> hex_of_n m) ] in
    let model = hex_of_bytes enc ^ " " ^ (match decode_request enc with Ok q -> show q | _ -> "err") in
    let inside = request_ok r in
    (match o with
     | genc :: rest ->
       (* proto3 field order is not significant: the implementation's bytes must be an encoding
          of the request for the reference decoder, and so must the field-number-ordered
          reference encoding *)
       let same_msg bs = (match decode_request bs with Ok q -> (not inside) || show q = show r | _ -> false) in
       let p_enc = same_msg (bytes_of_hex genc) && same_msg (encode_request_sorted r)
                   && List.length (bytes_of_hex genc) = List.length (encode_request_sorted r) in
       let p_rt = (not inside) || (String.concat " " rest = show r) in
       { prop_ok = p_enc && p_rt; model_eq = (model = obs); nontrivial = true; finding = "-";
         tags = "breq" ^ (if inside then ",breq-in-domain" else ",breq-out-of-domain")
                ^ (match fb with FromHash _ -> ",breq-hash" | FromNumber _ -> ",breq-number");
         detail = if p_enc && p_rt && model = obs then "" else
           (if not p_enc then "request encoding is not an encoding of the request for the reference proto3 decoder" else "request does not round-trip") ^ " model=" ^ model }
     | _ -> bad ~tags:"breq,go-error" ("unexpected observation " ^ obs))
  | ["breqp"; rd; from; dir; mx; _perm] ->
    let fb = if String.sub from 0 2 = "h:" then FromHash (bytes_of_hex (String.sub from 2 (String.length from - 2)))
             else FromNumber (n_of_hex (String.sub from 2 (String.length from - 2))) in
    let r = { rq_data = n_of_hex rd; rq_from = fb; rq_dir = n_of_hex dir;
              rq_max = (if mx = "none" then None else Some (n_of_hex mx)) } in
    let show (q : block_request) = String.concat " " [ hex_of_n q.rq_data;
        (match q.rq_from with FromHash h -> "h:" ^ hex_of_bytes h | FromNumber k -> "n:" ^ hex_of_n k);
        hex_of_n q.rq_dir; (match q.rq_max with None -> "none" | Some m -> hex_of_n m) ] in
    let inside = request_ok r in
    (match o with
     | genc :: rest ->
       let bs = bytes_of_hex genc in
       (* the re-ordered bytes must carry exactly the fields of the reference encoding, in some
          order (C14_request_any_order then says they decode to the request) *)
       let is_perm = (match parse bs with
         | Some fs -> List.sort compare fs = List.sort compare (req_fields r)
         | None -> false) in
       let mdec = (match decode_request bs with Ok q -> show q | _ -> "err") in
       let model = genc ^ " " ^ mdec in
       let p_perm = is_perm && ((not inside) || mdec = show r) in
       let p_rt = (not inside) || (String.concat " " rest = show r) in
       { prop_ok = p_perm && p_rt; model_eq = (model = obs); nontrivial = true; finding = "-";
         tags = "breqp" ^ (if inside then ",breqp-in-domain" else ",breqp-out-of-domain")
                ^ (if bs = encode_request r then ",breqp-identity" else if bs = encode_request_sorted r then ",breqp-sorted" else ",breqp-other-order");
         detail = if p_perm && p_rt && model = obs then "" else
           (if not is_perm then "the re-ordered encoding does not carry the reference fields" else "a request with re-ordered fields does not decode to the request") ^ " model=" ^ model }
     | _ -> bad ~tags:"breqp,go-error" ("unexpected observation " ^ obs))
  | ["breqraw"; spec] ->
    (* a request written field by field: the bytes must be the reference writer's, the decoded
       message the reference decoder's (every branch of decode_request is reached here) *)
    let enc = if spec = "-" then [] else List.concat_map (fun fld ->
        match String.index_opt fld ':' with
        | Some i ->
          let key = String.sub fld 0 i in
          let rest = String.sub fld (i + 1) (String.length fld - i - 1) in
          if key = "x" then bytes_of_hex rest else
          let k = n_of_hex key in
          let body = String.sub rest 1 (String.length rest - 1) in
          enc_fields [(match rest.[0] with
            | 'v' -> (k, WVarint (n_of_hex body))
            | 'q' -> (k, WFixed64 (bytes_of_hex body))
            | 'f' -> (k, WFixed32 (bytes_of_hex body))
            | _ -> (k, WBytes (bytes_of_hex body)))]
        | None -> fail "C14: bad field %s" fld) (String.split_on_char ',' spec) in
    let show (q : block_request) = String.concat " " [ hex_of_n q.rq_data;
        (match q.rq_from with FromHash h -> "h:" ^ hex_of_bytes h | FromNumber k -> "n:" ^ hex_of_n k);
        hex_of_n q.rq_dir; (match q.rq_max with None -> "none" | Some m -> hex_of_n m) ] in
    let res = decode_request enc in
    let model = hex_of_bytes enc ^ " " ^ (match res with Ok q -> show q | _ -> "err") in
    { prop_ok = true; model_eq = (model = obs); nontrivial = true; finding = "-";
      tags = "breqraw," ^ (match res with Ok _ -> "breqraw-ok" | Err (S O) -> "breqraw-err-parse"
                           | Err (S (S O)) -> "breqraw-err-no-from" | Err _ -> "breqraw-err-number-length" | _ -> "breqraw-?");
      detail = if model = obs then "" else "BlockRequestMessage.Decode differs from the reference decoder; model=" ^ model }
  | ["brespp"; vs; _seed] ->
    (* the response rewritten as another implementation might write it: model and code must read
       the same message from the same bytes; when every block keeps, per known field number, the
       occurrences of the canonical encoding (C14_response_any_wire) that message is the response *)
    let v = to_val block_data_ty (parse_tree vs) in
    let ds = (match v with VL l -> List.map bd_of_val l | _ -> raise (Shape "list")) in
    if not (List.for_all block_data_ok ds) then
      { (ok ~nontrivial:false ~tags:"bresp-ill-typed" ()) with model_eq = false; detail = "generated block data is not well typed" }
    else begin
      let show l = of_val block_data_ty (VL (List.map val_of_bd l)) in
      match o with
      | [e] when String.length e >= 4 && String.sub e 0 4 = "err:" -> bad ~tags:"brespp,go-error" ("unexpected observation " ^ obs)
      | [genc; gdec] ->
        let bs = bytes_of_hex genc in
        let mdec = (match decode_response bs with Ok l -> show l | _ -> "err") in
        let model = genc ^ " " ^ mdec in
        let bytes_of k fs = List.filter_map (function (j, WBytes b) when j = k -> Some b | _ -> None) fs in
        let vars_of k fs = List.filter_map (function (j, WVarint x) when j = k -> Some x | _ -> None) fs in
        let nn i = n_of_int i in
        let same_known gs d =
          let c = bd_fields d in
          List.for_all (fun k -> bytes_of (nn k) gs = bytes_of (nn k) c) [1;2;3;4;5;6] && vars_of (nn 7) gs = vars_of (nn 7) c in
        let claim = (match parse bs with
          | Some fs ->
            let blocks = bytes_of (nn 1) fs in
            List.length blocks = List.length ds &&
            List.for_all2 (fun m d -> match parse m with Some gs -> same_known gs d | None -> false) blocks ds
          | None -> false) in
        let p_rt = (not claim) || (gdec = show (List.map normalise ds)) in
        { prop_ok = p_rt; model_eq = (model = obs); nontrivial = true; finding = "-";
          tags = "brespp" ^ (if claim then ",brespp-same-message" else ",brespp-other-message")
                 ^ (if bs = encode_response ds then ",brespp-identity" else "");
          detail = if p_rt && model = obs then "" else
            (if not p_rt then "a response in another accepted wire encoding does not decode to the response" else "BlockResponseMessage.Decode differs from the reference decoder")
            ^ " model=" ^ (if String.length model > 300 then String.sub model 0 300 ^ "..." else model) }
      | _ -> bad ~tags:"brespp,go-error" ("unexpected observation " ^ obs)
    end
  | ["bresp"; vs] ->
    let v = to_val block_data_ty (parse_tree vs) in
    let ds = (match v with VL l -> List.map bd_of_val l | _ -> raise (Shape "list")) in
    let inside = List.for_all block_data_ok ds in
    if not inside then
      { (ok ~nontrivial:false ~tags:"bresp-ill-typed" ()) with model_eq = false; detail = "generated block data is not well typed" }
    else begin
      let enc = encode_response ds in
      let show l = of_val block_data_ty (VL (List.map val_of_bd l)) in
      let model = hex_of_bytes enc ^ " " ^ (match decode_response enc with Ok l -> show l | _ -> "err") in
      match o with
      | [e] when String.length e >= 10 && String.sub e 0 10 = "err:build:" ->
        bad ~tags:"bresp,go-cannot-represent" ("the Go type cannot hold this spec-defined value (" ^ e ^ ")")
      | [genc; gdec] ->
        let p_enc = (bytes_of_hex genc = enc) in
        let p_rt = (gdec = show (List.map normalise ds)) in
        let has_empty = List.exists (fun d -> normalise d <> d) ds in
        { prop_ok = p_enc && p_rt; model_eq = (model = obs); nontrivial = true; finding = "-";
          tags = "bresp" ^ (if ds = [] then ",bresp-empty" else "") ^ (if has_empty then ",bresp-empty-optional" else "")
                 ^ (if List.exists (fun d -> d.bd_just = Some []) ds then ",bresp-empty-justification" else "");
          detail = if p_enc && p_rt && model = obs then "" else
            (if not p_enc then "response encoding differs from the reference proto3 encoder" else "response does not round-trip")
            ^ " model=" ^ (if String.length model > 300 then String.sub model 0 300 ^ "..." else model) }
      | _ -> bad ~tags:"bresp,go-error" ("unexpected observation " ^ obs)
    end
  | _ -> fail "C14: bad input %s" inp
  with Shape m -> { prop_ok = true; model_eq = false; nontrivial = false; finding = "-"; tags = "driver-shape";
                    detail = "trace value does not fit the Gallina schema: " ^ m }

(* ---- vm_compute cross-check: the reference encodings / hashes recomputed inside Coq ---- *)
let rec coq_val (v : val0) : string = match v with
  | VN n -> "VN " ^ coq_n n
  | VB b -> "VB " ^ coq_bytes b
  | VL l -> "VL [" ^ String.concat "; " (List.map coq_val l) ^ "]"
  | VO None -> "VO None"
  | VO (Some x) -> "VO (Some (" ^ coq_val x ^ "))"
  | VS l -> "VS [" ^ String.concat "; " (List.map coq_val l) ^ "]"
  | VE (i, x) -> "VE " ^ coq_n i ^ " (" ^ coq_val x ^ ")"

let coq inp obs =
  (* large literal terms are slow to type-check: only moderately sized cases are rendered *)
  if String.length inp > 1500 || String.length obs > 3000 then None else
  let f = split_ws inp and o = split_ws obs in
  try
  match f, o with
  | ["val"; name; vs], genc :: _ :: rest when String.length genc < 10 || String.sub genc 0 4 <> "err:" ->
    let t = ty_of name in
    let v = to_val t (parse_tree vs) in
    let is_ph = (name = "PrimHeader") and is_pj = (name = "PrimJustification") in
    let encf = if is_ph then "encode_untagged" else if is_pj then "encode_just_untagged" else "encode t" in
    let hash = (match name, rest with
      | "Header", h :: _ -> Printf.sprintf " && bytes_eqb (fst (header_hash (fresh v))) %s" (coq_bytes (bytes_of_hex h))
      | "PrimHeader", [h] -> Printf.sprintf " && bytes_eqb (prim_header_hash v) %s" (coq_bytes (bytes_of_hex h))
      | _ -> "") in
    Some (Printf.sprintf "match type_of_name %s with Some t => let v := %s in has_type t v && bytes_eqb (%s v) %s && (match decode_all t (encode t v) with Some w => bytes_eqb (encode t w) (encode t v) | None => false end)%s | None => false end"
      (coq_bytes (bytes_of_string name)) (coq_val v) encf (coq_bytes (bytes_of_hex genc)) hash)
  | ["hashmut"; v1s; v2s], [g0; g1; genc] ->
    let v1 = to_val header (parse_tree v1s) and v2 = to_val header (parse_tree v2s) in
    Some (Printf.sprintf "let '(h0, hd) := header_hash (fresh (%s)) in let v2 := %s in bytes_eqb h0 %s && bytes_eqb (fst (header_hash (set_fields hd v2))) %s && bytes_eqb (encode header v2) %s"
      (coq_val v1) (coq_val v2) (coq_bytes (bytes_of_hex g0)) (coq_bytes (bytes_of_hex g1)) (coq_bytes (bytes_of_hex genc)))
  | ["breq"; rd; from; dir; mx], genc :: _ ->
    let fb = if String.sub from 0 2 = "h:" then "FromHash " ^ coq_bytes (bytes_of_hex (String.sub from 2 (String.length from - 2)))
             else "FromNumber " ^ coq_n (n_of_hex (String.sub from 2 (String.length from - 2))) in
    Some (Printf.sprintf "bytes_eqb (encode_request (mk_req %s (%s) %s %s)) %s"
      (coq_n (n_of_hex rd)) fb (coq_n (n_of_hex dir))
      (if mx = "none" then "None" else "(Some " ^ coq_n (n_of_hex mx) ^ ")") (coq_bytes (bytes_of_hex genc)))
  | ["bresp"; vs], [genc; _] ->
    let v = to_val block_data_ty (parse_tree vs) in
    let ds = (match v with VL l -> List.map bd_of_val l | _ -> raise (Shape "list")) in
    let ob = function Some b -> "(Some " ^ coq_bytes b ^ ")" | None -> "None" in
    let bd (d : block_data) = Printf.sprintf "mk_bd %s %s %s %s %s %s" (coq_bytes d.bd_hash)
      (match d.bd_header with Some h -> "(Some (" ^ coq_val h ^ "))" | None -> "None")
      (match d.bd_body with Some l -> "(Some [" ^ String.concat "; " (List.map coq_bytes l) ^ "])" | None -> "None")
      (ob d.bd_receipt) (ob d.bd_mq) (ob d.bd_just) in
    Some (Printf.sprintf "bytes_eqb (encode_response [%s]) %s" (String.concat "; " (List.map bd ds)) (coq_bytes (bytes_of_hex genc)))
  | _ -> None
  with Shape _ -> None

let () = run_driver ~coq check
