// C14 correspondence harness (injected into package lib/grandpa by `go test -overlay`; the
// package can reach every anchored type: dot/types, dot/network/messages, lib/grandpa,
// internal/primitives/consensus/grandpa).
//
// Values travel in a self-describing syntax (no spaces):
//   number      hex digits                      1f
//   bytes       x<hex> | x-                     x00ff
//   list        [v,v,...] | []
//   struct      {Name:v,Name:v} | {}
//   option      none | some(v)
//   enum        #<index hex>(v)
// A value is generated from the *specification* schema of its type (c14Schemas below, written
// from the spec, not derived from the Go types), turned into the Go value by reflection (fields
// by name, enum variants through ValueAt/SetValue), encoded by the code under test, decoded
// again and read back by reflection.  The driver holds the same schemas in Gallina
// (coq/C14/ModelTypes.v); `schema` cases compare the two copies.
//
// inputs:
//   val <Type> <value>            build, encode, decode
//   dec <Type> <hex>              decode a byte string (reference encodings, corpus)
//   hashmut <value1> <value2>     Header: build value1, Hash(), overwrite the fields with
//                                 value2, Hash() again
//   schema <Type>                 the harness's schema of the type, expanded
//   xhdr <PrimHeader value>       what the network sends for the header (scale.Marshal of the equal
//                                 dot/types.Header) decoded into generic.Header (internal/primitives)
//   xjust <PrimJustification value>   the justification as the network sends it (round, commit, the
//                                 ancestry headers as dot/types.Header encodings) decoded with the
//                                 client's DecodeJustification
//   babepre <value>               BABE pre-digest: <variant>.ToPreRuntimeDigest() and
//                                 types.DecodeBabePreDigest of its Data
//   breq <rd> <h:hex|n:num> <dir> <none|max>         BlockRequestMessage Encode / Decode
//   breqp <rd> <h:hex|n:num> <dir> <none|max> <perm> BlockRequestMessage Encode, the fields of the
//                                 encoding re-ordered (permutation number <perm>), Decode
//   breqraw <k:v<hex num>|k:b<hex bytes>|k:q<8 bytes>|k:f<4 bytes>|x:<hex>>,... a BlockRequest written
//                                 field by field (protowire; q = 64-bit, f = 32-bit wire type;
//                                 x:<hex> = raw bytes: truncated fields, invalid tags),
//                                 BlockRequestMessage.Decode: foreign field orders, repeated fields, unknown
//                                 fields, number / hash members of other lengths, missing from-block
//   bresp <blockdata>,...|-                          BlockResponseMessage Encode / Decode, see c14RunResp
//   brespp <blockdata>,... <seed>                    BlockResponseMessage Encode, then the encoding rewritten as
//                                 another implementation might write it (block data fields re-ordered with
//                                 the body items kept in order, unknown fields of every wire type inserted
//                                 at both levels, known numbers with another wire type), Decode
// observables:
//   val     -> <encoding> <decoded value | err | panic> [<hashes>]
//              | err:build:<why> (the Go type cannot hold the value)
//              Header: <hashes> = <Hash() of the built header> <Hash() of the header decoded from
//              the encoding> <Hash() of DeepCopy() of the built, already hashed header>
//              PrimHeader: <hashes> = <Hash() of the built generic header>
//   dec     -> <decoded value> | err
//   hashmut -> <hash before> <hash after> <encoding after>
//   schema  -> <schema>
//   xhdr    -> <bytes> <decoded value | err | panic> [<Hash() of the decoded generic header>]
//   xjust   -> <bytes> <decoded value | err | panic>
//   babepre -> <ConsensusEngineID> <Data> <value decoded from Data | err>
//   breq    -> <encoding> <rd> <h:hex|n:num> <dir> <none|max> | <encoding> err
//   breqp   -> <re-ordered encoding> <rd> <h:hex|n:num> <dir> <none|max> | <re-ordered encoding> err
//   breqraw -> <bytes> <rd> <h:hex|n:num> <dir> <none|max> | <bytes> err
//   bresp   -> <encoding> <decoded block data list | err>
//   brespp  -> <rewritten encoding> <decoded block data list | err>
package grandpa

import (
	"encoding/hex"
	"errors"
	"fmt"
	"reflect"
	"strconv"
	"strings"
	"testing"

	"github.com/ChainSafe/gossamer/dot/network/messages"
	"github.com/ChainSafe/gossamer/dot/types"
	clientgrandpa "github.com/ChainSafe/gossamer/internal/client/consensus/grandpa"
	"github.com/ChainSafe/gossamer/internal/primitives/core/hash"
	primgrandpa "github.com/ChainSafe/gossamer/internal/primitives/consensus/grandpa"
	primruntime "github.com/ChainSafe/gossamer/internal/primitives/runtime"
	"github.com/ChainSafe/gossamer/internal/primitives/runtime/generic"
	"github.com/ChainSafe/gossamer/lib/common"
	"github.com/ChainSafe/gossamer/lib/crypto/ed25519"
	finality "github.com/ChainSafe/gossamer/pkg/finality-grandpa"
	"github.com/ChainSafe/gossamer/pkg/scale"

	"google.golang.org/protobuf/encoding/protowire"

	vu "github.com/ChainSafe/gossamer/internal/verifutil"
)

// ---------------------------------------------------------------- schemas (from the spec)

var c14Schemas = map[string]string{
	"EnginePayload": "{ConsensusEngineID:f4,Data:b}",
	"DigestItem": "e[0=OtherDigest:b|4=ConsensusDigest:@EnginePayload|5=SealDigest:@EnginePayload|" +
		"6=PreRuntimeDigest:@EnginePayload|8=RuntimeEnvironmentUpdated:{}]",
	"Header": "{ParentHash:f32,Number:c,StateRoot:f32,ExtrinsicsRoot:f32,Digest:v<@DigestItem>}",
	"Digest": "v<@DigestItem>",
	"Body":   "v<b>",
	"BabeDigest": "e[1=BabePrimaryPreDigest:{AuthorityIndex:u4,SlotNumber:u8,VRFOutput:f32,VRFProof:f64}|" +
		"2=BabeSecondaryPlainPreDigest:{AuthorityIndex:u4,SlotNumber:u8}|" +
		"3=BabeSecondaryVRFPreDigest:{AuthorityIndex:u4,SlotNumber:u8,VrfOutput:f32,VrfProof:f64}]",
	"BabeConsensusDigest": "e[1=NextEpochData:{Authorities:v<{Key:f32,Weight:u8}>,Randomness:f32}|" +
		"2=BABEOnDisabled:{ID:u4}|" +
		"3=VersionedNextConfigData:e[1=NextConfigDataV1:{C1:u8,C2:u8,SecondarySlots:u1}]]",
	"GrandpaAuths": "v<{Key:f32,ID:u8}>",
	"GrandpaConsensusDigest": "e[1=GrandpaScheduledChange:{Auths:@GrandpaAuths,Delay:u4}|" +
		"2=GrandpaForcedChange:{BestFinalizedBlock:u4,Auths:@GrandpaAuths,Delay:u4}|" +
		"3=GrandpaOnDisabled:{ID:u8}|4=GrandpaPause:{Delay:u4}|5=GrandpaResume:{Delay:u4}]",
	"GrandpaVote":       "{Hash:f32,Number:u4}",
	"GrandpaSignedVote": "{Vote:@GrandpaVote,Signature:f64,AuthorityID:f32}",
	"Commit":            "{Hash:f32,Number:u4,Precommits:v<@GrandpaSignedVote>}",
	"Justification":     "{Round:u8,Commit:@Commit}",
	"GrandpaVoters":     "v<{Key:f32,ID:u8}>",
	"Equivocation": "{RoundNumber:u8,ID:f32,FirstVote:@GrandpaVote,FirstSignature:f64," +
		"SecondVote:@GrandpaVote,SecondSignature:f64}",
	"GrandpaEquivocationProof": "{SetID:u8,Equivocation:e[0=PreVote:@Equivocation|1=PreCommit:@Equivocation]}",
	"FullVote":                 "{Stage:u1,Vote:@GrandpaVote,Round:u8,SetID:u8}",
	"GrandpaMessage": "e[0=VoteMessage:{Round:u8,SetID:u8,Message:{Stage:u1,BlockHash:f32,Number:u4,Signature:f64,AuthorityID:f32}}|" +
		"1=CommitMessage:{Round:u8,SetID:u8,Vote:@GrandpaVote,Precommits:v<@GrandpaVote>,AuthData:v<{Signature:f64,AuthorityID:f32}>}|" +
		"2=VersionedNeighbourPacket:e[1=NeighbourPacketV1:{Round:u8,SetID:u8,Number:u4}]|" +
		"3=CatchUpRequest:{Round:u8,SetID:u8}|" +
		"4=CatchUpResponse:{SetID:u8,Round:u8,PreVoteJustification:v<@GrandpaSignedVote>," +
		"PreCommitJustification:v<@GrandpaSignedVote>,Hash:f32,Number:u4}]",
	"AuthorityList":       "v<{AuthorityID:f32,AuthorityWeight:u8}>",
	"PrimScheduledChange": "{NextAuthorities:@AuthorityList,Delay:u4}",
	"PrimPrecommit":       "{TargetHash:f32,TargetNumber:u4}",
	"PrimCommit":          "{TargetHash:f32,TargetNumber:u4,Precommits:v<{Precommit:@PrimPrecommit,Signature:f64,ID:f32}>}",
	"LocalizedPayload": "{Message:e[0=Prevote:@PrimPrecommit|1=Precommit:@PrimPrecommit|2=PrimaryPropose:@PrimPrecommit]," +
		"RoundNumber:u8,SetID:u8}",
	// finality-grandpa Message / SignedMessage as the primitives instantiate them
	"PrimMessage":       "e[0=Prevote:@PrimPrecommit|1=Precommit:@PrimPrecommit|2=PrimaryPropose:@PrimPrecommit]",
	"PrimSignedMessage": "{Message:@PrimMessage,Signature:f64,ID:f32}",
	// Substrate's generic header (internal/primitives/runtime/generic.Header) and the GRANDPA
	// justification with its vote ancestries
	"PrimEnginePayload": "{ConsensusEngineID:f4,Bytes:b}",
	"PrimDigestItem": "e[0=Other:b|4=Consensus:@PrimEnginePayload|5=Seal:@PrimEnginePayload|" +
		"6=PreRuntime:@PrimEnginePayload|8=RuntimeEnvironmentUpdated:{}]",
	"PrimHeader":        "{ParentHash:f32,Number:c,StateRoot:f32,ExtrinsicsRoot:f32,Digest:v<@PrimDigestItem>}",
	"PrimJustification": "{Round:u8,Commit:@PrimCommit,VoteAncestries:v<@PrimHeader>}",
	// finality-grandpa's compact commit and catch-up (Substrate's wire forms)
	"PrimCompactCommit": "{TargetHash:f32,TargetNumber:u4,Precommits:v<@PrimPrecommit>,AuthData:v<{Signature:f64,ID:f32}>}",
	"PrimCatchUp": "{RoundNumber:u8,Prevotes:v<{Prevote:@PrimPrecommit,Signature:f64,ID:f32}>," +
		"Precommits:v<{Precommit:@PrimPrecommit,Signature:f64,ID:f32}>,BaseHash:f32,BaseNumber:u4}",
}

// the types that are cases of the harness (the others above are only referenced)
var c14Types = []string{"Header", "Digest", "Body", "BabeDigest", "BabeConsensusDigest",
	"GrandpaConsensusDigest", "GrandpaVote", "GrandpaSignedVote", "Commit", "Justification",
	"GrandpaVoters", "GrandpaEquivocationProof", "FullVote", "GrandpaMessage", "AuthorityList",
	"PrimScheduledChange", "PrimCommit", "LocalizedPayload",
	"PrimMessage", "PrimSignedMessage", "PrimHeader", "PrimJustification", "PrimCompactCommit", "PrimCatchUp"}

type c14S struct {
	kind   byte // 'u' 'c' 'f' 'b' 'v' 'o' 's' 'e'
	n      int  // width of u / f
	elem   *c14S
	names  []string // field / variant names
	parts  []*c14S  // field / variant types
	idx    []int    // variant indices
	source string
}

type c14Parser struct {
	s string
	p int
}

func (q *c14Parser) peek() byte {
	if q.p < len(q.s) {
		return q.s[q.p]
	}
	return 0
}
func (q *c14Parser) eat(c byte) {
	if q.peek() != c {
		panic(fmt.Sprintf("c14: expected %q at %d in %s", c, q.p, q.s))
	}
	q.p++
}
func (q *c14Parser) ident() string {
	st := q.p
	for q.p < len(q.s) && (q.s[q.p] == '_' || q.s[q.p] >= '0' && q.s[q.p] <= '9' ||
		q.s[q.p] >= 'a' && q.s[q.p] <= 'z' || q.s[q.p] >= 'A' && q.s[q.p] <= 'Z') {
		q.p++
	}
	return q.s[st:q.p]
}
func (q *c14Parser) number() int {
	st := q.p
	for q.p < len(q.s) && q.s[q.p] >= '0' && q.s[q.p] <= '9' {
		q.p++
	}
	v, err := strconv.Atoi(q.s[st:q.p])
	if err != nil {
		panic("c14: number expected in " + q.s)
	}
	return v
}

func (q *c14Parser) schema() *c14S {
	switch c := q.peek(); c {
	case '@':
		q.p++
		return c14SchemaOf(q.ident())
	case 'u':
		q.p++
		return &c14S{kind: 'u', n: q.number()}
	case 'f':
		q.p++
		return &c14S{kind: 'f', n: q.number()}
	case 'c':
		q.p++
		return &c14S{kind: 'c'}
	case 'b':
		q.p++
		return &c14S{kind: 'b'}
	case 'v', 'o':
		q.p++
		q.eat('<')
		e := q.schema()
		q.eat('>')
		return &c14S{kind: c, elem: e}
	case '{':
		q.p++
		s := &c14S{kind: 's'}
		for q.peek() != '}' {
			if len(s.names) > 0 {
				q.eat(',')
			}
			s.names = append(s.names, q.ident())
			q.eat(':')
			s.parts = append(s.parts, q.schema())
		}
		q.eat('}')
		return s
	case 'e':
		q.p++
		q.eat('[')
		s := &c14S{kind: 'e'}
		for q.peek() != ']' {
			if len(s.names) > 0 {
				q.eat('|')
			}
			s.idx = append(s.idx, q.number())
			q.eat('=')
			s.names = append(s.names, q.ident())
			q.eat(':')
			s.parts = append(s.parts, q.schema())
		}
		q.eat(']')
		return s
	}
	panic("c14: bad schema " + q.s)
}

var c14SchemaCache = map[string]*c14S{}

func c14SchemaOf(name string) *c14S {
	if s, ok := c14SchemaCache[name]; ok {
		return s
	}
	src, ok := c14Schemas[name]
	if !ok {
		panic("c14: unknown type " + name)
	}
	q := &c14Parser{s: src}
	s := q.schema()
	if q.p != len(src) {
		panic("c14: trailing schema text in " + src)
	}
	c14SchemaCache[name] = s
	return s
}

func (s *c14S) String() string {
	switch s.kind {
	case 'u', 'f':
		return fmt.Sprintf("%c%d", s.kind, s.n)
	case 'c', 'b':
		return string(s.kind)
	case 'v', 'o':
		return fmt.Sprintf("%c<%s>", s.kind, s.elem)
	case 's':
		p := make([]string, len(s.names))
		for i := range s.names {
			p[i] = s.names[i] + ":" + s.parts[i].String()
		}
		return "{" + strings.Join(p, ",") + "}"
	default:
		p := make([]string, len(s.names))
		for i := range s.names {
			p[i] = fmt.Sprintf("%d=%s:%s", s.idx[i], s.names[i], s.parts[i])
		}
		return "e[" + strings.Join(p, "|") + "]"
	}
}

// ---------------------------------------------------------------- values

type c14V struct {
	kind  byte // 'n' 'x' 'l' 'o' 's' 'e'
	num   uint64
	bytes []byte
	list  []*c14V // list items / struct field values / option payload (0 or 1) / enum payload (1)
	names []string
	idx   int
}

func (v *c14V) String() string {
	var sb strings.Builder
	v.write(&sb)
	return sb.String()
}
func (v *c14V) write(sb *strings.Builder) {
	switch v.kind {
	case 'n':
		sb.WriteString(strconv.FormatUint(v.num, 16))
	case 'x':
		sb.WriteByte('x')
		if len(v.bytes) == 0 {
			sb.WriteByte('-')
		} else {
			sb.WriteString(hex.EncodeToString(v.bytes))
		}
	case 'l':
		sb.WriteByte('[')
		for i, e := range v.list {
			if i > 0 {
				sb.WriteByte(',')
			}
			e.write(sb)
		}
		sb.WriteByte(']')
	case 'o':
		if len(v.list) == 0 {
			sb.WriteString("none")
		} else {
			sb.WriteString("some(")
			v.list[0].write(sb)
			sb.WriteByte(')')
		}
	case 's':
		sb.WriteByte('{')
		for i, e := range v.list {
			if i > 0 {
				sb.WriteByte(',')
			}
			sb.WriteString(v.names[i])
			sb.WriteByte(':')
			e.write(sb)
		}
		sb.WriteByte('}')
	case 'e':
		sb.WriteString("#" + strconv.FormatInt(int64(v.idx), 16) + "(")
		v.list[0].write(sb)
		sb.WriteByte(')')
	}
}

func (q *c14Parser) value() *c14V {
	c := q.peek()
	switch {
	case c == 'x':
		q.p++
		st := q.p
		for q.p < len(q.s) && (q.s[q.p] == '-' || q.s[q.p] >= '0' && q.s[q.p] <= '9' || q.s[q.p] >= 'a' && q.s[q.p] <= 'f') {
			q.p++
		}
		return &c14V{kind: 'x', bytes: vu.UnHex(q.s[st:q.p])}
	case c == '[':
		q.p++
		v := &c14V{kind: 'l'}
		for q.peek() != ']' {
			if len(v.list) > 0 {
				q.eat(',')
			}
			v.list = append(v.list, q.value())
		}
		q.eat(']')
		return v
	case c == '{':
		q.p++
		v := &c14V{kind: 's'}
		for q.peek() != '}' {
			if len(v.list) > 0 {
				q.eat(',')
			}
			v.names = append(v.names, q.ident())
			q.eat(':')
			v.list = append(v.list, q.value())
		}
		q.eat('}')
		return v
	case c == '#':
		q.p++
		st := q.p
		for q.peek() != '(' {
			q.p++
		}
		i, _ := strconv.ParseInt(q.s[st:q.p], 16, 32)
		q.eat('(')
		v := &c14V{kind: 'e', idx: int(i), list: []*c14V{q.value()}}
		q.eat(')')
		return v
	case strings.HasPrefix(q.s[q.p:], "none"):
		q.p += 4
		return &c14V{kind: 'o'}
	case strings.HasPrefix(q.s[q.p:], "some("):
		q.p += 5
		v := &c14V{kind: 'o', list: []*c14V{q.value()}}
		q.eat(')')
		return v
	default:
		st := q.p
		for q.p < len(q.s) && (q.s[q.p] >= '0' && q.s[q.p] <= '9' || q.s[q.p] >= 'a' && q.s[q.p] <= 'f') {
			q.p++
		}
		return &c14V{kind: 'n', num: vu.UnX(q.s[st:q.p])}
	}
}

func c14ParseValue(s string) *c14V {
	q := &c14Parser{s: s}
	v := q.value()
	if q.p != len(s) {
		panic("c14: trailing value text in " + s)
	}
	return v
}

// ---------------------------------------------------------------- generation from a schema

func c14GenUint(r *vu.RNG, width int) uint64 {
	max := ^uint64(0)
	if width < 8 {
		max = uint64(1)<<(8*uint(width)) - 1
	}
	switch r.Intn(8) {
	case 0:
		return 0
	case 1:
		return max
	case 2:
		return uint64(r.Intn(4))
	case 3: // a single byte set
		return (uint64(r.Intn(255)) + 1) << (8 * uint(r.Intn(width))) & max
	case 4: // around a byte boundary
		k := uint(r.Intn(width)) * 8
		b := uint64(1) << k
		return (b + uint64(r.Intn(3)) - 1) & max
	default:
		return r.U64() & max
	}
}

var c14CompactEdges = []uint64{0, 1, 63, 64, 65, 16383, 16384, 16385, 1<<30 - 1, 1 << 30, 1<<30 + 1, 1<<32 - 1}

func c14GenCompact(r *vu.RNG) uint64 {
	switch r.Intn(4) {
	case 0:
		return c14CompactEdges[r.Intn(len(c14CompactEdges))]
	case 1:
		return uint64(r.Intn(1 << 20))
	case 2:
		return r.U64() & (1<<32 - 1)
	default:
		return uint64(r.Intn(300))
	}
}

func c14GenLen(r *vu.RNG, budget int) int {
	switch r.Intn(10) {
	case 0, 1:
		return 0
	case 2, 3:
		return 1
	case 4: // crosses the one-byte compact length
		if budget >= 64 {
			return 63 + r.Intn(3)
		}
		return r.Intn(4)
	case 5: // longer than anything a fixed small bound would cover
		if budget >= 16 {
			return 5 + r.Intn(12)
		}
		return r.Intn(7)
	default:
		return r.Intn(7)
	}
}

// c14Gen generates a value of the schema; budget bounds how large collections get.
func c14Gen(r *vu.RNG, s *c14S, budget int) *c14V {
	switch s.kind {
	case 'u':
		return &c14V{kind: 'n', num: c14GenUint(r, s.n)}
	case 'c':
		return &c14V{kind: 'n', num: c14GenCompact(r)}
	case 'f':
		b := r.Bytes(s.n)
		switch r.Intn(6) {
		case 0:
			b = make([]byte, s.n)
		case 1:
			for i := range b {
				b[i] = 0xff
			}
		}
		return &c14V{kind: 'x', bytes: b}
	case 'b':
		n := c14GenLen(r, 1000)
		if r.Chance(1, 400) {
			n = 16383 + r.Intn(3) // crosses the two-byte compact length
		}
		return &c14V{kind: 'x', bytes: r.Bytes(n)}
	case 'v':
		n := c14GenLen(r, budget)
		v := &c14V{kind: 'l'}
		sub := budget / 4
		if n > 8 {
			sub = 0
		}
		for i := 0; i < n; i++ {
			v.list = append(v.list, c14Gen(r, s.elem, sub))
		}
		return v
	case 'o':
		if r.Chance(1, 2) {
			return &c14V{kind: 'o'}
		}
		return &c14V{kind: 'o', list: []*c14V{c14Gen(r, s.elem, budget)}}
	case 's':
		v := &c14V{kind: 's', names: s.names}
		for _, p := range s.parts {
			v.list = append(v.list, c14Gen(r, p, budget))
		}
		return v
	default:
		i := r.Intn(len(s.idx))
		return &c14V{kind: 'e', idx: s.idx[i], list: []*c14V{c14Gen(r, s.parts[i], budget)}}
	}
}

// ---------------------------------------------------------------- value <-> Go value (reflection)

type c14VDT interface {
	SetValue(value any) error
	ValueAt(index uint) (any, error)
	IndexValue() (uint, any, error)
}

var errC14Variant = errors.New("variant")

func (s *c14S) variant(idx int) (int, bool) {
	for i, j := range s.idx {
		if j == idx {
			return i, true
		}
	}
	return 0, false
}

// c14TypeName is the name of a Go type without the type arguments of a generic type.
func c14TypeName(t reflect.Type) string {
	n := t.Name()
	if i := strings.IndexByte(n, '['); i >= 0 {
		n = n[:i]
	}
	return n
}

// c14Build stores value v of schema s into dst (addressable).
func c14Build(s *c14S, v *c14V, dst reflect.Value) error {
	switch s.kind {
	case 'u', 'c':
		dst.SetUint(v.num)
	case 'f':
		switch dst.Kind() {
		case reflect.Array:
			reflect.Copy(dst, reflect.ValueOf(v.bytes))
		case reflect.String: // hash.H256
			dst.SetString(string(v.bytes))
		default:
			return fmt.Errorf("fixed bytes into %s", dst.Type())
		}
	case 'b':
		b := append([]byte{}, v.bytes...)
		dst.Set(reflect.ValueOf(b).Convert(dst.Type()))
	case 'v':
		sl := reflect.MakeSlice(dst.Type(), len(v.list), len(v.list))
		for i, e := range v.list {
			if err := c14Build(s.elem, e, sl.Index(i)); err != nil {
				return err
			}
		}
		dst.Set(sl)
	case 'o':
		if len(v.list) == 0 {
			dst.Set(reflect.Zero(dst.Type()))
		} else {
			p := reflect.New(dst.Type().Elem())
			if err := c14Build(s.elem, v.list[0], p.Elem()); err != nil {
				return err
			}
			dst.Set(p)
		}
	case 's':
		for i, name := range v.names {
			j := -1
			for k, n := range s.names {
				if n == name {
					j = k
				}
			}
			f := dst.FieldByName(name)
			if j < 0 || !f.IsValid() {
				return fmt.Errorf("no field %s in %s", name, dst.Type())
			}
			if err := c14Build(s.parts[j], v.list[i], f); err != nil {
				return err
			}
		}
	case 'e':
		vdt, ok := dst.Addr().Interface().(c14VDT)
		if !ok {
			return fmt.Errorf("%s is not a varying data type", dst.Type())
		}
		i, ok := s.variant(v.idx)
		if !ok {
			return fmt.Errorf("schema has no variant %d", v.idx)
		}
		zero, err := vdt.ValueAt(uint(v.idx))
		if err != nil {
			return fmt.Errorf("%w%d", errC14Variant, v.idx)
		}
		// the index must select the Go type that stands for the specified variant
		if got := c14TypeName(reflect.TypeOf(zero)); got != s.names[i] {
			return fmt.Errorf("%w%d_is_%s_not_%s", errC14Variant, v.idx, got, s.names[i])
		}
		nv := reflect.New(reflect.TypeOf(zero)).Elem()
		if err := c14Build(s.parts[i], v.list[0], nv); err != nil {
			return err
		}
		if err := vdt.SetValue(nv.Interface()); err != nil {
			return fmt.Errorf("%w%d", errC14Variant, v.idx)
		}
	}
	return nil
}

// c14Read reads the Go value src back as a value of schema s.
func c14Read(s *c14S, src reflect.Value) (*c14V, error) {
	switch s.kind {
	case 'u', 'c':
		return &c14V{kind: 'n', num: src.Uint()}, nil
	case 'f':
		switch src.Kind() {
		case reflect.Array:
			b := make([]byte, src.Len())
			reflect.Copy(reflect.ValueOf(b), src)
			return &c14V{kind: 'x', bytes: b}, nil
		case reflect.String:
			// hash.H256 is a string; the empty string stands for the zero hash (MarshalSCALE
			// copies the string into a [32]byte), so read it the way it is encoded
			b := make([]byte, s.n)
			copy(b, src.String())
			return &c14V{kind: 'x', bytes: b}, nil
		}
		return nil, fmt.Errorf("fixed bytes from %s", src.Type())
	case 'b':
		return &c14V{kind: 'x', bytes: src.Bytes()}, nil
	case 'v':
		v := &c14V{kind: 'l'}
		for i := 0; i < src.Len(); i++ {
			e, err := c14Read(s.elem, src.Index(i))
			if err != nil {
				return nil, err
			}
			v.list = append(v.list, e)
		}
		return v, nil
	case 'o':
		if src.IsNil() {
			return &c14V{kind: 'o'}, nil
		}
		e, err := c14Read(s.elem, src.Elem())
		if err != nil {
			return nil, err
		}
		return &c14V{kind: 'o', list: []*c14V{e}}, nil
	case 's':
		v := &c14V{kind: 's', names: s.names}
		for i, name := range s.names {
			f := src.FieldByName(name)
			if !f.IsValid() {
				return nil, fmt.Errorf("no field %s in %s", name, src.Type())
			}
			e, err := c14Read(s.parts[i], f)
			if err != nil {
				return nil, err
			}
			v.list = append(v.list, e)
		}
		return v, nil
	default:
		var vdt c14VDT
		if src.CanAddr() {
			vdt, _ = src.Addr().Interface().(c14VDT)
		}
		if vdt == nil {
			p := reflect.New(src.Type())
			p.Elem().Set(src)
			vdt, _ = p.Interface().(c14VDT)
		}
		if vdt == nil {
			return nil, fmt.Errorf("%s is not a varying data type", src.Type())
		}
		idx, val, err := vdt.IndexValue()
		if err != nil {
			return nil, err
		}
		i, ok := s.variant(int(idx))
		if !ok {
			return nil, fmt.Errorf("variant %d not in the schema", idx)
		}
		if got := c14TypeName(reflect.TypeOf(val)); got != s.names[i] {
			return nil, fmt.Errorf("variant %d is %s, not %s", idx, got, s.names[i])
		}
		e, err := c14Read(s.parts[i], reflect.ValueOf(val))
		if err != nil {
			return nil, err
		}
		return &c14V{kind: 'e', idx: int(idx), list: []*c14V{e}}, nil
	}
}

// ---------------------------------------------------------------- the Go types

type c14Codec struct {
	// build makes the Go value; encode runs the code under test; decode runs it on bytes and
	// reads the result back
	run func(s *c14S, v *c14V) (enc []byte, built any, err error)
	dec func(s *c14S, b []byte) (*c14V, error)
}

// c14Plain: scale.Marshal of the value, scale.Unmarshal into a fresh value.
func c14Plain(mk func() any) c14Codec {
	return c14Codec{
		run: func(s *c14S, v *c14V) ([]byte, any, error) {
			p := mk()
			if err := c14Build(s, v, reflect.ValueOf(p).Elem()); err != nil {
				return nil, nil, err
			}
			enc, err := scale.Marshal(reflect.ValueOf(p).Elem().Interface())
			if err != nil {
				return nil, nil, fmt.Errorf("marshal: %w", err)
			}
			return enc, p, nil
		},
		dec: func(s *c14S, b []byte) (*c14V, error) {
			p := mk()
			if err := scale.Unmarshal(b, p); err != nil {
				return nil, err
			}
			return c14Read(s, reflect.ValueOf(p).Elem())
		},
	}
}

type c14Voter struct {
	Key [32]byte
	ID  uint64
}

var c14GrandpaMsgTypes = map[int]func() any{
	0: func() any { return new(VoteMessage) },
	1: func() any { return new(CommitMessage) },
	2: func() any { return new(VersionedNeighbourPacket) },
	3: func() any { return new(CatchUpRequest) },
	4: func() any { return new(CatchUpResponse) },
}

var c14Codecs = map[string]c14Codec{
	"Header":                 c14Plain(func() any { return types.NewEmptyHeader() }),
	"Digest":                 c14Plain(func() any { return new(types.Digest) }),
	"BabeDigest":             c14Plain(func() any { return new(types.BabeDigest) }),
	"BabeConsensusDigest":    c14Plain(func() any { return new(types.BabeConsensusDigest) }),
	"GrandpaConsensusDigest": c14Plain(func() any { return new(types.GrandpaConsensusDigest) }),
	"GrandpaVote":            c14Plain(func() any { return new(types.GrandpaVote) }),
	"GrandpaSignedVote":      c14Plain(func() any { return new(types.GrandpaSignedVote) }),
	"Commit":                 c14Plain(func() any { return new(Commit) }),
	"Justification":          c14Plain(func() any { return new(Justification) }),
	"GrandpaEquivocationProof": c14Plain(func() any { return new(types.GrandpaEquivocationProof) }),
	"FullVote":               c14Plain(func() any { return new(FullVote) }),
	"AuthorityList":          c14Plain(func() any { return new(primgrandpa.AuthorityList) }),
	"PrimScheduledChange":    c14Plain(func() any { return new(primgrandpa.ScheduledChange[uint32]) }),
	"PrimCommit":             c14Plain(func() any { return new(primgrandpa.Commit[hash.H256, uint32]) }),
	"PrimCompactCommit": c14Plain(func() any {
		return new(finality.CompactCommit[hash.H256, uint32, primgrandpa.AuthoritySignature, primgrandpa.AuthorityID])
	}),
	"PrimCatchUp": c14Plain(func() any {
		return new(finality.CatchUp[hash.H256, uint32, primgrandpa.AuthoritySignature, primgrandpa.AuthorityID])
	}),
	// Body: scale.Marshal of the body; decoded with NewBodyFromBytes, as the block state does
	"Body": {
		run: func(s *c14S, v *c14V) ([]byte, any, error) {
			p := new(types.Body)
			if err := c14Build(s, v, reflect.ValueOf(p).Elem()); err != nil {
				return nil, nil, err
			}
			enc, err := scale.Marshal(*p)
			return enc, p, err
		},
		dec: func(s *c14S, b []byte) (*c14V, error) {
			body, err := types.NewBodyFromBytes(b)
			if err != nil {
				return nil, err
			}
			return c14Read(s, reflect.ValueOf(body).Elem())
		},
	},
	// GrandpaVoters: EncodeGrandpaVoters / DecodeGrandpaVoters
	"GrandpaVoters": {
		run: func(s *c14S, v *c14V) ([]byte, any, error) {
			var raw []c14Voter
			if err := c14Build(s, v, reflect.ValueOf(&raw).Elem()); err != nil {
				return nil, nil, err
			}
			voters := make(types.GrandpaVoters, len(raw))
			for i, w := range raw {
				k, err := ed25519.NewPublicKey(w.Key[:])
				if err != nil {
					return nil, nil, err
				}
				voters[i] = types.GrandpaVoter{Key: *k, ID: w.ID}
			}
			enc, err := types.EncodeGrandpaVoters(voters)
			return enc, voters, err
		},
		dec: func(s *c14S, b []byte) (*c14V, error) {
			voters, err := types.DecodeGrandpaVoters(b)
			if err != nil {
				return nil, err
			}
			raw := make([]c14Voter, len(voters))
			for i, w := range voters {
				raw[i] = c14Voter{Key: w.Key.AsBytes(), ID: w.ID}
			}
			return c14Read(s, reflect.ValueOf(raw))
		},
	},
	// GrandpaMessage: <message>.ToConsensusMessage().Data / decodeMessage
	"GrandpaMessage": {
		run: func(s *c14S, v *c14V) ([]byte, any, error) {
			i, ok := s.variant(v.idx)
			mk, ok2 := c14GrandpaMsgTypes[v.idx]
			if !ok || !ok2 {
				return nil, nil, fmt.Errorf("%w%d", errC14Variant, v.idx)
			}
			p := mk()
			if err := c14Build(s.parts[i], v.list[0], reflect.ValueOf(p).Elem()); err != nil {
				return nil, nil, err
			}
			var msg GrandpaMessage
			switch m := p.(type) {
			case *VersionedNeighbourPacket:
				inner, err := m.Value()
				if err != nil {
					return nil, nil, err
				}
				n := inner.(NeighbourPacketV1)
				msg = &n
			case GrandpaMessage:
				msg = m
			}
			cm, err := msg.ToConsensusMessage()
			if err != nil {
				return nil, nil, fmt.Errorf("marshal: %w", err)
			}
			return cm.Data, p, nil
		},
		dec: func(s *c14S, b []byte) (*c14V, error) {
			m, err := decodeMessage(&ConsensusMessage{Data: b})
			if err != nil {
				return nil, err
			}
			idx := -1
			var val reflect.Value
			switch x := m.(type) {
			case *VoteMessage:
				idx, val = 0, reflect.ValueOf(x).Elem()
			case *CommitMessage:
				idx, val = 1, reflect.ValueOf(x).Elem()
			case *NeighbourPacketV1:
				vp := new(VersionedNeighbourPacket)
				if err := vp.SetValue(*x); err != nil {
					return nil, err
				}
				idx, val = 2, reflect.ValueOf(vp).Elem()
			case *CatchUpRequest:
				idx, val = 3, reflect.ValueOf(x).Elem()
			case *CatchUpResponse:
				idx, val = 4, reflect.ValueOf(x).Elem()
			default:
				return nil, fmt.Errorf("unknown message %T", m)
			}
			i, _ := s.variant(idx)
			e, err := c14Read(s.parts[i], val)
			if err != nil {
				return nil, err
			}
			return &c14V{kind: 'e', idx: idx, list: []*c14V{e}}, nil
		},
	},
	// PrimMessage: finality-grandpa Message[H256, uint32] built with NewMessage (as the code
	// does), scale.Marshal / scale.Unmarshal into a fresh Message
	"PrimMessage": {
		run: func(s *c14S, v *c14V) ([]byte, any, error) {
			msg, err := c14PrimMessage(s, v)
			if err != nil {
				return nil, nil, err
			}
			enc, err := scale.Marshal(msg)
			if err != nil {
				return nil, nil, fmt.Errorf("marshal: %w", err)
			}
			return enc, nil, nil
		},
		dec: func(s *c14S, b []byte) (*c14V, error) {
			var m finality.Message[hash.H256, uint32]
			if err := scale.Unmarshal(b, &m); err != nil {
				return nil, err
			}
			return c14Read(s, reflect.ValueOf(&m).Elem())
		},
	},
	// PrimSignedMessage: primitives SignedMessage[H256, uint32]
	"PrimSignedMessage": {
		run: func(s *c14S, v *c14V) ([]byte, any, error) {
			var sm primgrandpa.SignedMessage[hash.H256, uint32]
			rv := reflect.ValueOf(&sm).Elem()
			for i, n := range v.names {
				j, ok := s.field(n)
				if !ok {
					return nil, nil, fmt.Errorf("no field %s", n)
				}
				if n == "Message" {
					msg, err := c14PrimMessage(s.parts[j], v.list[i])
					if err != nil {
						return nil, nil, err
					}
					sm.Message = msg
				} else if err := c14Build(s.parts[j], v.list[i], rv.FieldByName(n)); err != nil {
					return nil, nil, err
				}
			}
			enc, err := scale.Marshal(sm)
			if err != nil {
				return nil, nil, fmt.Errorf("marshal: %w", err)
			}
			return enc, nil, nil
		},
		dec: func(s *c14S, b []byte) (*c14V, error) {
			var sm primgrandpa.SignedMessage[hash.H256, uint32]
			if err := scale.Unmarshal(b, &sm); err != nil {
				return nil, err
			}
			return c14Read(s, reflect.ValueOf(&sm).Elem())
		},
	},
	// PrimHeader: generic.Header[uint32, H256, BlakeTwo256] built with NewHeader, read back
	// through its accessors
	"PrimHeader": {
		run: func(s *c14S, v *c14V) ([]byte, any, error) {
			h, err := c14PrimHeader(s, v)
			if err != nil {
				return nil, nil, err
			}
			enc, err := scale.Marshal(*h)
			if err != nil {
				return nil, nil, fmt.Errorf("marshal: %w", err)
			}
			return enc, h, nil
		},
		dec: func(s *c14S, b []byte) (*c14V, error) {
			var h generic.Header[uint32, hash.H256, primruntime.BlakeTwo256]
			if err := scale.Unmarshal(b, &h); err != nil {
				return nil, err
			}
			return c14ReadPrimHeader(s, &h)
		},
	},
	// PrimJustification: primitives GrandpaJustification[H256, uint32]; decoded with the
	// client's DecodeJustification (the only decoder of the type)
	"PrimJustification": {
		run: func(s *c14S, v *c14V) ([]byte, any, error) {
			var j primgrandpa.GrandpaJustification[hash.H256, uint32]
			rv := reflect.ValueOf(&j).Elem()
			for i, n := range v.names {
				k, ok := s.field(n)
				if !ok {
					return nil, nil, fmt.Errorf("no field %s", n)
				}
				if n == "VoteAncestries" {
					j.VoteAncestries = make([]primruntime.Header[uint32, hash.H256], 0, len(v.list[i].list))
					for _, hv := range v.list[i].list {
						h, err := c14PrimHeader(s.parts[k].elem, hv)
						if err != nil {
							return nil, nil, err
						}
						j.VoteAncestries = append(j.VoteAncestries, h)
					}
				} else if err := c14Build(s.parts[k], v.list[i], rv.FieldByName(n)); err != nil {
					return nil, nil, err
				}
			}
			enc, err := scale.Marshal(j)
			if err != nil {
				return nil, nil, fmt.Errorf("marshal: %w", err)
			}
			return enc, nil, nil
		},
		dec: func(s *c14S, b []byte) (*c14V, error) {
			dj, err := clientgrandpa.DecodeJustification[hash.H256, uint32, primruntime.BlakeTwo256](b)
			if err != nil {
				return nil, err
			}
			j := dj.Justification
			out := &c14V{kind: 's', names: s.names}
			for i, n := range s.names {
				if n == "VoteAncestries" {
					l := &c14V{kind: 'l'}
					for _, h := range j.VoteAncestries {
						gh, ok := h.(*generic.Header[uint32, hash.H256, primruntime.BlakeTwo256])
						if !ok {
							return nil, fmt.Errorf("ancestry header is %T", h)
						}
						e, err := c14ReadPrimHeader(s.parts[i].elem, gh)
						if err != nil {
							return nil, err
						}
						l.list = append(l.list, e)
					}
					out.list = append(out.list, l)
					continue
				}
				e, err := c14Read(s.parts[i], reflect.ValueOf(&j).Elem().FieldByName(n))
				if err != nil {
					return nil, err
				}
				out.list = append(out.list, e)
			}
			return out, nil
		},
	},
	// LocalizedPayload: NewLocalizedPayload(round, setID, message); encode only
	"LocalizedPayload": {
		run: func(s *c14S, v *c14V) ([]byte, any, error) {
			var msgV *c14V
			var round, setID uint64
			for i, n := range v.names {
				switch n {
				case "Message":
					msgV = v.list[i]
				case "RoundNumber":
					round = v.list[i].num
				case "SetID":
					setID = v.list[i].num
				}
			}
			var tgt struct {
				TargetHash   hash.H256
				TargetNumber uint32
			}
			if err := c14Build(c14SchemaOf("PrimPrecommit"), msgV.list[0], reflect.ValueOf(&tgt).Elem()); err != nil {
				return nil, nil, err
			}
			var msg finality.Message[hash.H256, uint32]
			switch msgV.idx {
			case 0:
				msg = finality.NewMessage(finality.Prevote[hash.H256, uint32]{TargetHash: tgt.TargetHash, TargetNumber: tgt.TargetNumber})
			case 1:
				msg = finality.NewMessage(finality.Precommit[hash.H256, uint32]{TargetHash: tgt.TargetHash, TargetNumber: tgt.TargetNumber})
			default:
				msg = finality.NewMessage(finality.PrimaryPropose[hash.H256, uint32]{TargetHash: tgt.TargetHash, TargetNumber: tgt.TargetNumber})
			}
			return primgrandpa.NewLocalizedPayload(primgrandpa.RoundNumber(round), primgrandpa.SetID(setID), msg), nil, nil
		},
		dec: nil,
	},
}

func (s *c14S) field(name string) (int, bool) {
	for i, n := range s.names {
		if n == name {
			return i, true
		}
	}
	return 0, false
}

// c14PrimMessage builds a finality-grandpa Message from a value of schema PrimMessage.
func c14PrimMessage(s *c14S, v *c14V) (finality.Message[hash.H256, uint32], error) {
	var none finality.Message[hash.H256, uint32]
	i, ok := s.variant(v.idx)
	if !ok {
		return none, fmt.Errorf("schema has no variant %d", v.idx)
	}
	var tgt struct {
		TargetHash   hash.H256
		TargetNumber uint32
	}
	if err := c14Build(s.parts[i], v.list[0], reflect.ValueOf(&tgt).Elem()); err != nil {
		return none, err
	}
	switch s.names[i] {
	case "Prevote":
		return finality.NewMessage(finality.Prevote[hash.H256, uint32]{TargetHash: tgt.TargetHash, TargetNumber: tgt.TargetNumber}), nil
	case "Precommit":
		return finality.NewMessage(finality.Precommit[hash.H256, uint32]{TargetHash: tgt.TargetHash, TargetNumber: tgt.TargetNumber}), nil
	case "PrimaryPropose":
		return finality.NewMessage(finality.PrimaryPropose[hash.H256, uint32]{TargetHash: tgt.TargetHash, TargetNumber: tgt.TargetNumber}), nil
	}
	return none, fmt.Errorf("%w%d", errC14Variant, v.idx)
}

// c14PrimHeader builds a generic header from a value of schema PrimHeader (the digest items are
// chosen by the variant's name: internal/primitives/runtime has no index table for them).
func c14PrimHeader(s *c14S, v *c14V) (*generic.Header[uint32, hash.H256, primruntime.BlakeTwo256], error) {
	var f struct {
		ParentHash, StateRoot, ExtrinsicsRoot hash.H256
		Number                                uint32
	}
	var digest primruntime.Digest
	for i, n := range v.names {
		j, ok := s.field(n)
		if !ok {
			return nil, fmt.Errorf("no field %s", n)
		}
		if n != "Digest" {
			if err := c14Build(s.parts[j], v.list[i], reflect.ValueOf(&f).Elem().FieldByName(n)); err != nil {
				return nil, err
			}
			continue
		}
		is := s.parts[j].elem
		for _, it := range v.list[i].list {
			k, ok := is.variant(it.idx)
			if !ok {
				return nil, fmt.Errorf("schema has no variant %d", it.idx)
			}
			var item any
			switch is.names[k] {
			case "Other":
				item = primruntime.Other(append([]byte{}, it.list[0].bytes...))
			case "RuntimeEnvironmentUpdated":
				item = primruntime.RuntimeEnvironmentUpdated{}
			default:
				var pl struct {
					ConsensusEngineID primruntime.ConsensusEngineID
					Bytes             []byte
				}
				if err := c14Build(is.parts[k], it.list[0], reflect.ValueOf(&pl).Elem()); err != nil {
					return nil, err
				}
				switch is.names[k] {
				case "Consensus":
					item = primruntime.Consensus{ConsensusEngineID: pl.ConsensusEngineID, Bytes: pl.Bytes}
				case "Seal":
					item = primruntime.Seal{ConsensusEngineID: pl.ConsensusEngineID, Bytes: pl.Bytes}
				case "PreRuntime":
					item = primruntime.PreRuntime{ConsensusEngineID: pl.ConsensusEngineID, Bytes: pl.Bytes}
				default:
					return nil, fmt.Errorf("%w%d", errC14Variant, it.idx)
				}
			}
			digest.Push(item)
		}
	}
	return generic.NewHeader[uint32, hash.H256, primruntime.BlakeTwo256](f.Number, f.ExtrinsicsRoot, f.StateRoot, f.ParentHash, digest), nil
}

func c14ReadPrimHeader(s *c14S, h *generic.Header[uint32, hash.H256, primruntime.BlakeTwo256]) (*c14V, error) {
	out := &c14V{kind: 's', names: s.names}
	fix := func(x hash.H256) *c14V {
		b := make([]byte, 32)
		copy(b, x)
		return &c14V{kind: 'x', bytes: b}
	}
	for i, n := range s.names {
		switch n {
		case "ParentHash":
			out.list = append(out.list, fix(h.ParentHash()))
		case "StateRoot":
			out.list = append(out.list, fix(h.StateRoot()))
		case "ExtrinsicsRoot":
			out.list = append(out.list, fix(h.ExtrinsicsRoot()))
		case "Number":
			out.list = append(out.list, &c14V{kind: 'n', num: uint64(h.Number())})
		case "Digest":
			is := s.parts[i].elem
			l := &c14V{kind: 'l'}
			for _, it := range h.Digest().Logs {
				name := ""
				var payload *c14V
				pl := func(id primruntime.ConsensusEngineID, b []byte) *c14V {
					return &c14V{kind: 's', names: []string{"ConsensusEngineID", "Bytes"},
						list: []*c14V{{kind: 'x', bytes: append([]byte{}, id[:]...)}, {kind: 'x', bytes: b}}}
				}
				switch x := it.(type) {
				case primruntime.Other:
					name, payload = "Other", &c14V{kind: 'x', bytes: []byte(x)}
				case primruntime.Consensus:
					name, payload = "Consensus", pl(x.ConsensusEngineID, x.Bytes)
				case primruntime.Seal:
					name, payload = "Seal", pl(x.ConsensusEngineID, x.Bytes)
				case primruntime.PreRuntime:
					name, payload = "PreRuntime", pl(x.ConsensusEngineID, x.Bytes)
				case primruntime.RuntimeEnvironmentUpdated:
					name, payload = "RuntimeEnvironmentUpdated", &c14V{kind: 's'}
				default:
					return nil, fmt.Errorf("digest item %T", it)
				}
				k, ok := is.field(name)
				if !ok {
					return nil, fmt.Errorf("no variant %s", name)
				}
				l.list = append(l.list, &c14V{kind: 'e', idx: is.idx[k], list: []*c14V{payload}})
			}
			out.list = append(out.list, l)
		}
	}
	return out, nil
}

// ---------------------------------------------------------------- cases

func c14RunVal(typ string, vs string) string {
	s := c14SchemaOf(typ)
	v := c14ParseValue(vs)
	codec := c14Codecs[typ]
	enc, built, err := codec.run(s, v)
	if err != nil {
		if errors.Is(err, errC14Variant) {
			return "err:build:" + strings.ReplaceAll(err.Error(), " ", "_")
		}
		return "err:" + strings.ReplaceAll(err.Error(), " ", "_")
	}
	out := vu.Hex(enc)
	if codec.dec == nil {
		out += " -"
	} else {
		out += " " + c14SafeDec(codec, s, enc)
	}
	switch h := built.(type) {
	case *types.Header:
		out += " " + vu.Hex(h.Hash().ToBytes())
		// the header decoded from the encoding, and a deep copy of the (already hashed) header
		back := types.NewEmptyHeader()
		if err := scale.Unmarshal(enc, back); err != nil {
			out += " err"
		} else {
			out += " " + vu.Hex(back.Hash().ToBytes())
		}
		if cp, err := h.DeepCopy(); err != nil {
			out += " err"
		} else {
			out += " " + vu.Hex(cp.Hash().ToBytes())
		}
	case *generic.Header[uint32, hash.H256, primruntime.BlakeTwo256]:
		out += " " + vu.Hex(h.Hash().Bytes())
	}
	return out
}

// c14SafeDec runs a decoder; a panic inside it is the observation "panic".
func c14SafeDec(codec c14Codec, s *c14S, b []byte) (res string) {
	defer func() {
		if p := recover(); p != nil {
			res = "panic"
		}
	}()
	d, err := codec.dec(s, b)
	if err != nil {
		return "err"
	}
	return d.String()
}

// c14AsTypesHeader encodes the header given as a PrimHeader value through dot/types.Header (whose
// encoding is checked against the reference on every Header case): field Bytes is field Data there.
func c14AsTypesHeader(v *c14V) ([]byte, error) {
	var ren func(x *c14V) *c14V
	ren = func(x *c14V) *c14V {
		y := &c14V{kind: x.kind, num: x.num, bytes: x.bytes, idx: x.idx}
		for _, n := range x.names {
			if n == "Bytes" {
				n = "Data"
			}
			y.names = append(y.names, n)
		}
		for _, e := range x.list {
			y.list = append(y.list, ren(e))
		}
		return y
	}
	h := types.NewEmptyHeader()
	if err := c14Build(c14SchemaOf("Header"), ren(v), reflect.ValueOf(h).Elem()); err != nil {
		return nil, err
	}
	return scale.Marshal(*h)
}

func c14RunXHdr(vs string) string {
	s := c14SchemaOf("PrimHeader")
	enc, err := c14AsTypesHeader(c14ParseValue(vs))
	if err != nil {
		return "err:build:" + strings.ReplaceAll(err.Error(), " ", "_")
	}
	out := vu.Hex(enc)
	func() {
		defer func() {
			if p := recover(); p != nil {
				out += " panic"
			}
		}()
		var h generic.Header[uint32, hash.H256, primruntime.BlakeTwo256]
		if err := scale.Unmarshal(enc, &h); err != nil {
			out += " err"
			return
		}
		d, err := c14ReadPrimHeader(s, &h)
		if err != nil {
			out += " err:read"
			return
		}
		out += " " + d.String() + " " + vu.Hex(h.Hash().Bytes())
	}()
	return out
}

func c14RunXJust(vs string) string {
	s := c14SchemaOf("PrimJustification")
	v := c14ParseValue(vs)
	var enc []byte
	for i, n := range v.names {
		k, ok := s.field(n)
		if !ok {
			return "err:field"
		}
		switch n {
		case "Round":
			b, err := scale.Marshal(v.list[i].num)
			if err != nil {
				return "err:marshal"
			}
			enc = append(enc, b...)
		case "Commit":
			c := new(primgrandpa.Commit[hash.H256, uint32])
			if err := c14Build(s.parts[k], v.list[i], reflect.ValueOf(c).Elem()); err != nil {
				return "err:build:" + strings.ReplaceAll(err.Error(), " ", "_")
			}
			b, err := scale.Marshal(*c)
			if err != nil {
				return "err:marshal"
			}
			enc = append(enc, b...)
		case "VoteAncestries":
			b, err := scale.Marshal(uint(len(v.list[i].list))) // uint: compact
			if err != nil {
				return "err:marshal"
			}
			enc = append(enc, b...)
			for _, hv := range v.list[i].list {
				hb, err := c14AsTypesHeader(hv)
				if err != nil {
					return "err:build:" + strings.ReplaceAll(err.Error(), " ", "_")
				}
				enc = append(enc, hb...)
			}
		}
	}
	return vu.Hex(enc) + " " + c14SafeDec(c14Codecs["PrimJustification"], s, enc)
}

func c14RunDec(typ string, hx string) string {
	s := c14SchemaOf(typ)
	codec := c14Codecs[typ]
	if codec.dec == nil {
		return "err:nodecoder"
	}
	return c14SafeDec(codec, s, vu.UnHex(hx))
}

func c14RunHashMut(v1, v2 string) string {
	s := c14SchemaOf("Header")
	h := types.NewEmptyHeader()
	if err := c14Build(s, c14ParseValue(v1), reflect.ValueOf(h).Elem()); err != nil {
		return "err:build:" + strings.ReplaceAll(err.Error(), " ", "_")
	}
	h0 := h.Hash()
	if err := c14Build(s, c14ParseValue(v2), reflect.ValueOf(h).Elem()); err != nil {
		return "err:build:" + strings.ReplaceAll(err.Error(), " ", "_")
	}
	h1 := h.Hash()
	enc, err := scale.Marshal(*h)
	if err != nil {
		return "err:marshal"
	}
	return vu.Hex(h0.ToBytes()) + " " + vu.Hex(h1.ToBytes()) + " " + vu.Hex(enc)
}

// breq <rd> <h:hex|n:num> <dir> <none|max>
func c14RunReq(f []string) string {
	var from *messages.FromBlock
	if strings.HasPrefix(f[2], "h:") {
		from = messages.NewFromBlock(common.BytesToHash(vu.UnHex(f[2][2:])))
	} else {
		from = messages.NewFromBlock(uint(vu.UnX(f[2][2:])))
	}
	m := &messages.BlockRequestMessage{
		RequestedData: byte(vu.UnX(f[1])),
		StartingBlock: *from,
		Direction:     messages.SyncDirection(vu.UnX(f[3])),
	}
	if f[4] != "none" {
		mx := uint32(vu.UnX(f[4]))
		m.Max = &mx
	}
	enc, err := m.Encode()
	if err != nil {
		return "err:encode"
	}
	if f[0] == "breqp" {
		enc = c14PermuteFields(enc, vu.UnX(f[5]))
		if enc == nil {
			return "err:tokenise"
		}
	}
	back := new(messages.BlockRequestMessage)
	if err := back.Decode(enc); err != nil {
		return vu.Hex(enc) + " err"
	}
	fs := ""
	switch x := back.StartingBlock.RawValue().(type) {
	case uint:
		fs = "n:" + vu.X(uint64(x))
	case common.Hash:
		fs = "h:" + vu.Hex(x.ToBytes())
	}
	mx := "none"
	if back.Max != nil {
		mx = vu.X(uint64(*back.Max))
	}
	return fmt.Sprintf("%s %s %s %s %s", vu.Hex(enc), vu.X(uint64(back.RequestedData)), fs, vu.X(uint64(back.Direction)), mx)
}

// c14PermuteFields re-orders the top-level fields of a protobuf message (Fisher-Yates driven by
// the digits of p); only the tokeniser of protowire is used.
func c14PermuteFields(enc []byte, p uint64) []byte {
	var fields [][]byte
	for rest := enc; len(rest) > 0; {
		_, _, n := protowire.ConsumeField(rest)
		if n <= 0 {
			return nil
		}
		fields = append(fields, rest[:n])
		rest = rest[n:]
	}
	for i := len(fields) - 1; i > 0; i-- {
		j := int(p % uint64(i+1))
		p /= uint64(i + 1)
		fields[i], fields[j] = fields[j], fields[i]
	}
	out := []byte{}
	for _, f := range fields {
		out = append(out, f...)
	}
	return out
}

// breqraw: the message is written with protowire from the field list, then decoded.
func c14RunReqRaw(spec string) string {
	var enc []byte
	if spec != "-" {
		for _, fld := range strings.Split(spec, ",") {
			kv := strings.SplitN(fld, ":", 2)
			if kv[0] == "x" {
				enc = append(enc, vu.UnHex(kv[1])...)
				continue
			}
			num := protowire.Number(vu.UnX(kv[0]))
			if kv[1][0] == 'v' {
				enc = protowire.AppendTag(enc, num, protowire.VarintType)
				enc = protowire.AppendVarint(enc, vu.UnX(kv[1][1:]))
			} else if kv[1][0] == 'q' {
				enc = protowire.AppendTag(enc, num, protowire.Fixed64Type)
				enc = append(enc, vu.UnHex(kv[1][1:])...)
			} else if kv[1][0] == 'f' {
				enc = protowire.AppendTag(enc, num, protowire.Fixed32Type)
				enc = append(enc, vu.UnHex(kv[1][1:])...)
			} else {
				enc = protowire.AppendTag(enc, num, protowire.BytesType)
				enc = protowire.AppendBytes(enc, vu.UnHex(kv[1][1:]))
			}
		}
	}
	return c14DecodeReq(enc)
}

func c14DecodeReq(enc []byte) string {
	back := new(messages.BlockRequestMessage)
	if err := back.Decode(enc); err != nil {
		return vu.Hex(enc) + " err"
	}
	fs := ""
	switch x := back.StartingBlock.RawValue().(type) {
	case uint:
		fs = "n:" + vu.X(uint64(x))
	case common.Hash:
		fs = "h:" + vu.Hex(x.ToBytes())
	}
	mx := "none"
	if back.Max != nil {
		mx = vu.X(uint64(*back.Max))
	}
	return fmt.Sprintf("%s %s %s %s %s", vu.Hex(enc), vu.X(uint64(back.RequestedData)), fs, vu.X(uint64(back.Direction)), mx)
}

// c14GenReqRaw: field lists around every branch of BlockRequestMessage.Decode.
func c14GenReqRaw(r *vu.RNG) string {
	var fl []string
	add := func(s string) { fl = append(fl, s) }
	num := func() string {
		l := []int{4, 4, 4, 0, 1, 3, 5, 8}[r.Intn(8)]
		return "3:b" + vu.Hex(r.Bytes(l))
	}
	hsh := func() string {
		l := []int{32, 32, 32, 0, 1, 31, 33, 40}[r.Intn(8)]
		return "2:b" + vu.Hex(r.Bytes(l))
	}
	if r.Chance(5, 6) {
		add("1:v" + vu.X([]uint64{0, 1 << 24, 19 << 24, 255 << 24, 1, 0xffffffff, 1 << 32, 1<<32 + 19<<24, r.U64()}[r.Intn(9)]))
	}
	switch r.Intn(6) {
	case 0:
	case 1:
		add(num())
		add(hsh())
	case 2:
		add(hsh())
		add(num())
	case 3:
		add(hsh())
	default:
		add(num())
	}
	if r.Chance(1, 2) {
		add("5:v" + vu.X([]uint64{0, 1, 2, 255, 256, 257, 1 << 31, 1<<32 + 1}[r.Intn(8)]))
	}
	if r.Chance(1, 2) {
		add("6:v" + vu.X([]uint64{0, 1, 128, 0xffffffff, 1 << 32, 1<<32 + 5}[r.Intn(6)]))
	}
	if r.Chance(1, 4) { // a repeated scalar field: the last one wins
		add([]string{"1:v" + vu.X(uint64(r.Intn(256))<<24), "5:v1", "6:v7"}[r.Intn(3)])
	}
	if r.Chance(1, 4) { // unknown fields are skipped; a known number with the other wire type too
		add([]string{"4:b" + vu.Hex(r.Bytes(r.Intn(5))), "9:v5", "63:b" + vu.Hex(r.Bytes(3)), "2:v7", "1:b00", "3:v1",
			"9:q" + vu.Hex(r.Bytes(8)), "d:f" + vu.Hex(r.Bytes(4)), "1:f" + vu.Hex(r.Bytes(4)), "3:q" + vu.Hex(r.Bytes(8)),
			"1fffffff:v1", "5:q0100000000000000"}[r.Intn(12)])
	}
	for i := len(fl) - 1; i > 0; i-- {
		j := r.Intn(i + 1)
		fl[i], fl[j] = fl[j], fl[i]
	}
	if r.Chance(1, 8) { // malformed tail: tag without value, length beyond the input, unterminated varint, field number 0, group tags
		fl = append(fl, "x:"+[]string{"08", "1a05aa", "ff", "00", "0b", "0c", "1a", "28ffffffffffffffffffff01", "0d", "09"}[r.Intn(10)])
	}
	if len(fl) == 0 {
		return "breqraw -"
	}
	return "breqraw " + strings.Join(fl, ",")
}

// A block data list is a value of
//   v<{Hash:f32,Header:o<@Header>,Body:o<v<b>>,Receipt:o<b>,MessageQueue:o<b>,Justification:o<b>}>
const c14BlockDataSchema = "v<{Hash:f32,Header:o<@Header>,Body:o<v<b>>,Receipt:o<b>,MessageQueue:o<b>,Justification:o<b>}>"

func init() { c14Schemas["BlockDataList"] = c14BlockDataSchema }

// c14Tokens splits a protobuf message into its top-level fields (tag + value bytes each).
func c14Tokens(b []byte) ([][]byte, bool) {
	var fields [][]byte
	for rest := b; len(rest) > 0; {
		_, _, n := protowire.ConsumeField(rest)
		if n <= 0 {
			return nil, false
		}
		fields = append(fields, rest[:n])
		rest = rest[n:]
	}
	return fields, true
}

// c14Foreign rewrites a BlockResponse encoding the way another implementation might emit it.
func c14Foreign(enc []byte, seed uint64) ([]byte, bool) {
	st := seed*0x9e3779b97f4a7c15 + 1
	next := func(n int) int {
		st = st*6364136223846793005 + 1442695040888963407
		return int((st >> 33) % uint64(n))
	}
	unknown := func() []byte {
		var u []byte
		switch next(7) {
		case 0:
			u = protowire.AppendTag(u, 9, protowire.Fixed64Type)
			u = protowire.AppendFixed64(u, st)
		case 1:
			u = protowire.AppendTag(u, 13, protowire.Fixed32Type)
			u = protowire.AppendFixed32(u, uint32(st))
		case 2:
			u = protowire.AppendTag(u, 15, protowire.VarintType)
			u = protowire.AppendVarint(u, st)
		case 3:
			u = protowire.AppendTag(u, 12, protowire.BytesType)
			u = protowire.AppendBytes(u, []byte("zz"))
		case 4: // a known bytes field carried as a varint
			u = protowire.AppendTag(u, protowire.Number(1+next(6)), protowire.VarintType)
			u = protowire.AppendVarint(u, 7)
		case 5: // the is_empty_justification flag carried as bytes
			u = protowire.AppendTag(u, 7, protowire.BytesType)
			u = protowire.AppendBytes(u, []byte{1})
		default:
			u = protowire.AppendTag(u, 8, protowire.Fixed32Type)
			u = protowire.AppendFixed32(u, 1)
		}
		return u
	}
	rewrite := func(msg []byte, keepOrderOf protowire.Number) ([]byte, bool) {
		fields, ok := c14Tokens(msg)
		if !ok {
			return nil, false
		}
		var kept [][]byte // the fields whose relative order is significant (repeated)
		for _, f := range fields {
			if n, _, _ := protowire.ConsumeTag(f); n == keepOrderOf {
				kept = append(kept, f)
			}
		}
		for i := len(fields) - 1; i > 0; i-- {
			j := next(i + 1)
			fields[i], fields[j] = fields[j], fields[i]
		}
		k := 0
		for i, f := range fields {
			if n, _, _ := protowire.ConsumeTag(f); n == keepOrderOf {
				fields[i] = kept[k]
				k++
			}
		}
		var out []byte
		for _, f := range fields {
			if next(3) == 0 {
				out = append(out, unknown()...)
			}
			out = append(out, f...)
		}
		if next(3) == 0 {
			out = append(out, unknown()...)
		}
		return out, true
	}
	blocks, ok := c14Tokens(enc)
	if !ok {
		return nil, false
	}
	var top []byte
	for _, b := range blocks {
		num, typ, n := protowire.ConsumeTag(b)
		if num != 1 || typ != protowire.BytesType {
			return nil, false
		}
		inner, m := protowire.ConsumeBytes(b[n:])
		if m <= 0 {
			return nil, false
		}
		ni, ok := rewrite(inner, 3)
		if !ok {
			return nil, false
		}
		if next(3) == 0 {
			top = append(top, unknown()...)
		}
		top = protowire.AppendTag(top, 1, protowire.BytesType)
		top = protowire.AppendBytes(top, ni)
	}
	if next(2) == 0 {
		top = append(top, unknown()...)
	}
	return top, true
}

func c14RunResp(vs string) string { return c14RunRespWith(vs, false, 0) }

func c14RunRespWith(vs string, foreign bool, seed uint64) string {
	s := c14SchemaOf("BlockDataList")
	var bds []*types.BlockData
	v := c14ParseValue(vs)
	for _, e := range v.list {
		bd := new(types.BlockData)
		if err := c14Build(s.elem, e, reflect.ValueOf(bd).Elem()); err != nil {
			if errors.Is(err, errC14Variant) {
				return "err:build:" + strings.ReplaceAll(err.Error(), " ", "_")
			}
			return "err:" + strings.ReplaceAll(err.Error(), " ", "_")
		}
		bds = append(bds, bd)
	}
	m := &messages.BlockResponseMessage{BlockData: bds}
	enc, err := m.Encode()
	if err != nil {
		return "err:encode"
	}
	if foreign {
		var ok bool
		if enc, ok = c14Foreign(enc, seed); !ok {
			return "err:tokenise"
		}
	}
	back := new(messages.BlockResponseMessage)
	if err := back.Decode(enc); err != nil {
		return vu.Hex(enc) + " err"
	}
	out := &c14V{kind: 'l'}
	for _, bd := range back.BlockData {
		e, err := c14Read(s.elem, reflect.ValueOf(bd).Elem())
		if err != nil {
			return vu.Hex(enc) + " err:read"
		}
		out.list = append(out.list, e)
	}
	return vu.Hex(enc) + " " + out.String()
}

type c14PreRuntimer interface {
	ToPreRuntimeDigest() (*types.PreRuntimeDigest, error)
}

func c14RunBabePre(vs string) string {
	s := c14SchemaOf("BabeDigest")
	d := new(types.BabeDigest)
	if err := c14Build(s, c14ParseValue(vs), reflect.ValueOf(d).Elem()); err != nil {
		return "err:build:" + strings.ReplaceAll(err.Error(), " ", "_")
	}
	inner, err := d.Value()
	if err != nil {
		return "err:value"
	}
	p, ok := inner.(c14PreRuntimer)
	if !ok {
		return "err:notpreruntimer"
	}
	pre, err := p.ToPreRuntimeDigest()
	if err != nil {
		return "err:topre"
	}
	back := "err"
	if v, err := types.DecodeBabePreDigest(pre.Data); err == nil {
		nd := new(types.BabeDigest)
		if err := nd.SetValue(v); err == nil {
			if r, err := c14Read(s, reflect.ValueOf(nd).Elem()); err == nil {
				back = r.String()
			}
		}
	}
	return vu.Hex(pre.ConsensusEngineID[:]) + " " + vu.Hex(pre.Data) + " " + back
}

func c14Run(in string) string {
	f := strings.Split(in, " ")
	switch f[0] {
	case "babepre":
		return c14RunBabePre(f[1])
	case "val":
		return c14RunVal(f[1], f[2])
	case "dec":
		return c14RunDec(f[1], f[2])
	case "hashmut":
		return c14RunHashMut(f[1], f[2])
	case "schema":
		return c14SchemaOf(f[1]).String()
	case "xhdr":
		return c14RunXHdr(f[1])
	case "xjust":
		return c14RunXJust(f[1])
	case "breq", "breqp":
		return c14RunReq(f)
	case "breqraw":
		return c14RunReqRaw(f[1])
	case "bresp":
		return c14RunResp(f[1])
	case "brespp":
		return c14RunRespWith(f[1], true, vu.UnX(f[2]))
	}
	return "err:badinput"
}

// c14Mutate returns a header value differing from v in one part.
func c14MutateHeader(r *vu.RNG, s *c14S, v *c14V) *c14V {
	w := &c14V{kind: 's', names: v.names, list: append([]*c14V{}, v.list...)}
	for i, n := range w.names {
		switch {
		case n == "Number" && r.Chance(1, 4):
			w.list[i] = &c14V{kind: 'n', num: (v.list[i].num + 1) & (1<<32 - 1)}
			return w
		case n == "Digest" && r.Chance(1, 2):
			d := &c14V{kind: 'l', list: append([]*c14V{}, v.list[i].list...)}
			if len(d.list) > 0 && r.Chance(1, 2) { // drop the last item (the seal), as BABE verification does
				d.list = d.list[:len(d.list)-1]
			} else {
				d.list = append(d.list, c14Gen(r, s.parts[i].elem, 8))
			}
			w.list[i] = d
			return w
		case n == "StateRoot" && r.Chance(1, 3):
			b := append([]byte{}, v.list[i].bytes...)
			b[r.Intn(32)] ^= 1 << uint(r.Intn(8))
			w.list[i] = &c14V{kind: 'x', bytes: b}
			return w
		}
	}
	return w // unchanged: the cache is legitimately valid
}

func c14GenCases(r *vu.RNG, n int, emit func(string)) {
	for _, t := range c14Types {
		emit("schema " + t)
	}
	emit("schema BlockDataList")
	hs := c14SchemaOf("Header")
	// every digest item kind, alone and together
	di := c14SchemaOf("DigestItem")
	for i := range di.idx {
		hv := c14Gen(r, hs, 8)
		for k, nme := range hv.names {
			if nme == "Digest" {
				hv.list[k] = &c14V{kind: 'l', list: []*c14V{{kind: 'e', idx: di.idx[i], list: []*c14V{c14Gen(r, di.parts[i], 8)}}}}
			}
		}
		emit("val Header " + hv.String())
	}
	for i := 0; i < n; i++ {
		switch k := r.Intn(20); {
		case k < 5:
			budget := 16
			if r.Chance(1, 25) {
				budget = 64
			}
			emit("val Header " + c14Gen(r, hs, budget).String())
		case k < 7:
			v1 := c14Gen(r, hs, 8)
			emit("hashmut " + v1.String() + " " + c14MutateHeader(r, hs, v1).String())
		case k < 9:
			if r.Chance(1, 4) {
				emit("babepre " + c14Gen(r, c14SchemaOf("BabeDigest"), 8).String())
			} else if r.Chance(1, 4) {
				if r.Chance(1, 2) {
					emit("xhdr " + c14Gen(r, c14SchemaOf("PrimHeader"), 8).String())
				} else {
					emit("xjust " + c14Gen(r, c14SchemaOf("PrimJustification"), 4).String())
				}
			} else if r.Chance(1, 3) {
				emit(c14GenReq(r))
			} else if r.Chance(1, 2) {
				emit(c14GenReqRaw(r))
			} else {
				emit("breqp" + strings.TrimPrefix(c14GenReq(r), "breq") + " " + vu.X(uint64(r.Intn(24))))
			}
		case k < 11:
			if r.Chance(1, 3) {
				emit("brespp " + c14Gen(r, c14SchemaOf("BlockDataList"), 8).String() + " " + vu.X(uint64(r.Intn(1<<30))))
			} else {
				emit("bresp " + c14Gen(r, c14SchemaOf("BlockDataList"), 8).String())
			}
		default:
			t := c14Types[r.Intn(len(c14Types))]
			budget := 16
			if r.Chance(1, 30) {
				budget = 64
			}
			emit("val " + t + " " + c14Gen(r, c14SchemaOf(t), budget).String())
		}
	}
}

func c14GenReq(r *vu.RNG) string {
	rd := []uint64{0, 1, 2, 3, 16, 19, 31, 255, uint64(r.Intn(256))}[r.Intn(9)]
	var from string
	if r.Chance(1, 2) {
		from = "h:" + vu.Hex(r.Bytes(32))
	} else {
		// 1<<32 and beyond are outside the u32 block number domain: Encode clamps them
		from = "n:" + vu.X([]uint64{0, 1, 255, 256, 1<<32 - 1, uint64(r.Intn(1 << 24)), r.U64() & (1<<32 - 1),
			uint64(r.Intn(1 << 24)), r.U64() & (1<<32 - 1), 1 << 32, 1 << 40}[r.Intn(11)])
	}
	dir := []uint64{0, 1, 0, 1, 2, 255}[r.Intn(6)]
	mx := "none"
	if r.Chance(2, 3) {
		// Max = 0 is outside the domain: on the wire it means "unspecified" and decodes to nil
		mx = vu.X([]uint64{1, 128, 1<<32 - 1, uint64(1 + r.Intn(1000)), 1, 128, uint64(1 + r.Intn(1000)), 0}[r.Intn(8)])
	}
	return fmt.Sprintf("breq %s %s %s %s", vu.X(rd), from, vu.X(dir), mx)
}

func TestVerifC14(t *testing.T) { vu.Run(t, "C14", 3000, c14GenCases, c14Run) }
