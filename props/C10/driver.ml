(* C10 driver: the host function result (null pointer or 32 bytes) against
   (a) spec_host_root / spec_host_ordered_root: the spec root of the map the decoded entry list
       denotes, failure for an unknown version or undecodable input   -> prop_ok
   (b) host_root / host_ordered_root: the model of the host function  -> model_eq *)
open Model
open Vutil

let str = function None -> "0" | Some r -> hex_of_bytes r

let check inp obs =
  let f = split_ws inp in
  let (ordered, version, data, v1) = (match f with
    | ["root"; v; d] -> (false, n_of_hex v, bytes_of_hex d, false)
    | ["root1"; d] -> (false, N0, bytes_of_hex d, true)
    | ["ord"; v; d] -> (true, n_of_hex v, bytes_of_hex d, false)
    | ["ord1"; d] -> (true, N0, bytes_of_hex d, true)
    | _ -> fail "C10: bad input %s" inp) in
  let spec = str ((if ordered then spec_host_ordered_root else spec_host_root) blake2b_256 version data) in
  let same_path = true in
  let model = if same_path then str ((if ordered then host_ordered_root else host_root) blake2b_256 version data) else spec in
  let nent = (if ordered then (match dec_values data with Some l -> List.length l | None -> -1)
              else (match dec_entries data with Some l -> List.length l | None -> -1)) in
  let tags = [(if ordered then "ordered" else "root") ^ (if v1 then "-v1fn" else "-v2fn");
              (match parse_version version with Some V0 -> "state-v0" | Some V1 -> "state-v1" | None -> "bad-version");
              (if nent < 0 then "undecodable" else if nent = 0 then "n-0" else if nent < 64 then "n-1..63"
               else if nent < 100 then "n-64..99" else "n-100+")] in
  let guard = if ordered then guard_values_overrun data else guard_entries_overrun data in
  let tags = tags @ (if guard then ["guard-bytes-overrun"] else []) in
  { prop_ok = (obs = spec); model_eq = (obs = model); nontrivial = (nent <> 0);
    finding = (if obs <> spec && guard then "bytes-overrun" else "-");
    tags = String.concat "," tags;
    detail = (if obs = spec && obs = model then "" else Printf.sprintf "host=%s spec=%s model=%s" obs spec model) }

let () = run_driver check
