(* C10 driver: the host function result (null pointer or 32 bytes) against
   (a) spec_host_root / spec_host_ordered_root: the spec root of the map the decoded entry list
       denotes, failure for an unknown version or undecodable input   -> prop_ok
   (b) host_root / host_ordered_root: the model of the host function  -> model_eq *)
open Model
open Vutil

let str = function None -> "0" | Some r -> hex_of_bytes r

(* the specification and the model hash the same node encodings: memoise BLAKE2b per case *)
let memo : (string, byte list) Hashtbl.t = Hashtbl.create 4096
let blake2b_256 (l : byte list) : byte list =
  let k = string_of_bytes l in
  match Hashtbl.find_opt memo k with
  | Some r -> r
  | None -> let r = Model.blake2b_256 l in Hashtbl.add memo k r; r

let check inp obs =
  Hashtbl.reset memo;
  let f = split_ws inp in
  let (ordered, version, data, v1) = (match f with
    | ["root"; v; d] -> (false, n_of_hex v, bytes_of_hex d, false)
    | ["root1"; d] -> (false, N0, bytes_of_hex d, true)
    | ["ord"; v; d] -> (true, n_of_hex v, bytes_of_hex d, false)
    | ["ord1"; d] -> (true, N0, bytes_of_hex d, true)
    | _ -> fail "C10: bad input %s" inp) in
  let spec = str ((if ordered then spec_host_ordered_root else spec_host_root) blake2b_256 version data) in
  let same_path = true in
  let model = if same_path then str ((if ordered then host_ordered_root else host_root) blake2b_256 version data) else spec in
  let nent = (if ordered then (match dec_values data with Some l -> List.length l | None -> -1)
              else (match dec_entries data with Some l -> List.length l | None -> -1)) in
  let tags = [(if ordered then "ordered" else "root") ^ (if v1 then "-v1fn" else "-v2fn");
              (match parse_version version with Some V0 -> "state-v0" | Some V1 -> "state-v1" | None -> "bad-version");
              (if nent < 0 then "undecodable" else if nent = 0 then "n-0" else if nent < 64 then "n-1..63"
               else if nent < 100 then "n-64..99" else if nent < 256 then "n-100..255" else "n-256+")] in
  let tags = tags @ (match data with
    | b :: _ when (int_of_byte b) land 3 = 3 -> ["count-bigint-mode"]
    | _ :: _ when dec_len data = None && nent < 0 && (match data with [_] -> false | _ -> true)
                  && (match dec_len_go data with None -> true | Some _ -> false) -> ["count-rejected"]
    | _ -> []) in
  let tags = tags @ (if int_of_n version > 255 then ["version-above-255"] else []) in
  let go_dec = if ordered then (match dec_values_go data with Some _ -> true | None -> false)
               else (match dec_entries_go data with Some _ -> true | None -> false) in
  let tags = tags @ (if nent < 0 && not go_dec then ["go-decoder-rejects"] else []) in
  let guard = if ordered then guard_values_overrun data else guard_entries_overrun data in
  let tags = tags @ (if guard then ["guard-bytes-overrun"] else []) in
  { prop_ok = (obs = spec); model_eq = (obs = model); nontrivial = (nent <> 0);
    finding = (if obs <> spec && guard then "bytes-overrun" else "-");
    tags = String.concat "," tags;
    detail = (if obs = spec && obs = model then "" else Printf.sprintf "host=%s spec=%s model=%s" obs spec model) }

(* vm_compute cross-check (small inputs only: BLAKE2b costs about 0.3 ms per block inside Coq) *)
let coq inp obs =
  let f = split_ws inp in
  let r = (match f with
    | ["root"; v; d] -> Some ("host_root", n_of_hex v, bytes_of_hex d)
    | ["root1"; d] -> Some ("host_root", N0, bytes_of_hex d)
    | ["ord"; v; d] -> Some ("host_ordered_root", n_of_hex v, bytes_of_hex d)
    | ["ord1"; d] -> Some ("host_ordered_root", N0, bytes_of_hex d)
    | _ -> None) in
  match r with
  | Some (fn, v, d) when List.length d <= 160 && (obs = "0" || String.length obs = 64) ->
    if obs = "0" then
      Some (Printf.sprintf "match %s blake2b_256 %s %s with None => true | Some _ => false end" fn (coq_n v) (coq_bytes d))
    else
      Some (Printf.sprintf "match %s blake2b_256 %s %s with Some r => bytes_eqb r %s | None => false end"
              fn (coq_n v) (coq_bytes d) (coq_bytes (bytes_of_hex obs)))
  | _ -> None

let () = run_driver ~coq check
