// C10 correspondence harness (injected into package lib/runtime/wazero by `go test -overlay`).
//
// The host functions are called directly with a real wazero api.Module (a generated minimal Wasm
// binary that only exports a 64-page memory) and a context carrying a runtime.Context with a fresh
// FreeingBumpHeapAllocator, exactly what the functions read from their arguments.
//
// input:   root  <version> <data>    ext_trie_blake2_256_root_version_2(data, version)
//          root1 <data>              ext_trie_blake2_256_root_version_1(data)
//          ord   <version> <data>    ext_trie_blake2_256_ordered_root_version_2(data, version)
//          ord1  <data>              ext_trie_blake2_256_ordered_root_version_1(data)
//   <version> hex number (uint32), <data> hex of the SCALE bytes placed in guest memory ("-" = empty)
// observed: "0" when the function returned the null pointer (failure), else the hex of the 32 bytes
//           at the returned pointer.
package wazero_runtime

import (
	"context"
	"fmt"
	"strings"
	"sync"
	"testing"

	vu "github.com/ChainSafe/gossamer/internal/verifutil"
	"github.com/ChainSafe/gossamer/lib/runtime"
	"github.com/ChainSafe/gossamer/lib/runtime/allocator"
	"github.com/tetratelabs/wazero"
	"github.com/tetratelabs/wazero/api"
)

// (module (memory (export "memory") 64))
var c10Wasm = []byte{
	0x00, 0x61, 0x73, 0x6d, 0x01, 0x00, 0x00, 0x00,
	0x05, 0x03, 0x01, 0x00, 0x40,
	0x07, 0x0a, 0x01, 0x06, 'm', 'e', 'm', 'o', 'r', 'y', 0x02, 0x00,
}

var (
	c10Once sync.Once
	c10Mod  api.Module
	c10Err  error
)

func c10Module() (api.Module, error) {
	c10Once.Do(func() {
		ctx := context.Background()
		rt := wazero.NewRuntime(ctx)
		c10Mod, c10Err = rt.Instantiate(ctx, c10Wasm)
	})
	return c10Mod, c10Err
}

const c10DataPtr = 16

func c10Run(in string) string {
	f := strings.Split(in, " ")
	m, err := c10Module()
	if err != nil {
		return "err:module:" + strings.ReplaceAll(err.Error(), " ", "_")
	}
	var data []byte
	var version uint32
	switch f[0] {
	case "root", "ord":
		version = uint32(vu.UnX(f[1]))
		data = vu.UnHex(f[2])
	case "root1", "ord1":
		data = vu.UnHex(f[1])
	default:
		return "err:badinput"
	}
	if !m.Memory().Write(c10DataPtr, data) {
		return "err:memwrite"
	}
	heapBase := uint32(c10DataPtr+len(data)+64) &^ 7
	rtCtx := &runtime.Context{Allocator: allocator.NewFreeingBumpHeapAllocator(heapBase)}
	ctx := context.WithValue(context.Background(), runtimeContextKey, rtCtx)
	span := newPointerSize(c10DataPtr, uint32(len(data)))
	var ptr uint32
	switch f[0] {
	case "root":
		ptr = ext_trie_blake2_256_root_version_2(ctx, m, span, version)
	case "root1":
		ptr = ext_trie_blake2_256_root_version_1(ctx, m, span)
	case "ord":
		ptr = ext_trie_blake2_256_ordered_root_version_2(ctx, m, span, version)
	case "ord1":
		ptr = ext_trie_blake2_256_ordered_root_version_1(ctx, m, span)
	}
	if ptr == 0 {
		return "0"
	}
	out, ok := m.Memory().Read(ptr, 32)
	if !ok {
		return "err:memread"
	}
	return vu.Hex(out)
}

// ---- generator ----
func c10Compact(n int) []byte {
	switch {
	case n < 1<<6:
		return []byte{byte(n << 2)}
	case n < 1<<14:
		v := uint16(n<<2) | 1
		return []byte{byte(v), byte(v >> 8)}
	default:
		v := uint32(n<<2) | 2
		return []byte{byte(v), byte(v >> 8), byte(v >> 16), byte(v >> 24)}
	}
}

func c10Bytes(b []byte) []byte { return append(c10Compact(len(b)), b...) }

func c10LE(v uint64, k int) []byte {
	out := make([]byte, k)
	for i := 0; i < k; i++ {
		out[i] = byte(v >> (8 * uint(i)))
	}
	return out
}

// c10Weird encodes the length n in a way the SCALE specification does not allow for a Vec length, or
// that pkg/scale's decodeUint treats specially: a mode wider than needed (non-canonical), the
// big-integer mode with 4, 5 or 8 payload bytes holding n, or a huge canonical value in the
// big-integer mode.  forCount: the prefix is the element count of the outer Vec (then a canonical
// four-byte payload 2^30.. is allowed too: decodeSlice only loops until the input ends; for a byte
// vector decodeBytes would allocate the declared 1..4 GiB, so it is never generated there).
func c10Weird(r *vu.RNG, n int, forCount bool) ([]byte, string) {
	for {
		switch r.Intn(9) {
		case 0:
			if n < 64 {
				v := uint16(n<<2) | 1
				return []byte{byte(v), byte(v >> 8)}, "len-noncanonical"
			}
		case 1:
			if n < 1<<14 {
				return c10LE(uint64(n<<2)|2, 4), "len-noncanonical"
			}
		case 2:
			return append([]byte{0x03}, c10LE(uint64(n), 4)...), "len-noncanonical" // 4-byte payload below 2^30
		case 3:
			return append([]byte{0x07}, c10LE(uint64(n), 5)...), "len-big5" // 5-byte payload, not canonical
		case 4:
			return append([]byte{0x13}, c10LE(uint64(n), 8)...), "len-big8-small" // 8-byte payload, top byte zero
		case 5:
			return append([]byte{0x13}, c10LE(uint64(n)|uint64(1+r.Intn(255))<<56, 8)...), "len-big8" // canonical, >= 2^56
		case 6:
			return append([]byte{0x07}, c10LE(uint64(n)|1<<32, 5)...), "len-big5" // canonical 2^32 + n
		case 7:
			return append([]byte{byte((9-4)<<2 | 3)}, c10LE(uint64(n), 9)...), "len-big9"
		case 8:
			if forCount {
				return append([]byte{0x03}, c10LE(uint64(n)|1<<30, 4)...), "count-big4" // canonical 2^30 + n
			}
		}
	}
}

var c10Alphabet = []byte{0x00, 0x01, 0x10, 0x1f, 0xf0, 0xff}
var c10ValueLens = []int{0, 0, 1, 2, 31, 32, 33, 70}

func c10Count(r *vu.RNG) int {
	switch r.Intn(10) {
	case 0:
		return 0
	case 1:
		return 1
	case 2:
		return 62 + r.Intn(5) // around the one-byte/two-byte compact boundary of the index
	case 3:
		if r.Chance(1, 2) {
			return 100 + r.Intn(120)
		}
		return 2 + r.Intn(20)
	case 4:
		if r.Chance(1, 2) {
			return 250 + r.Intn(60) // index crossing 255/256 (a one-byte index counter would wrap)
		}
		return 2 + r.Intn(20)
	default:
		return 2 + r.Intn(20)
	}
}

// weird >= 0: the weird-th length prefix of the input (0 = the count) is encoded by c10Weird
func c10Entries(r *vu.RNG, weird int) []byte {
	n := c10Count(r)
	if weird >= 0 && n > 8 {
		n = 1 + r.Intn(8)
	}
	pos := 0
	enc := func(l int) []byte {
		defer func() { pos++ }()
		if pos == weird {
			w, _ := c10Weird(r, l, pos == 0)
			return w
		}
		return c10Compact(l)
	}
	out := enc(n)
	for i := 0; i < n; i++ {
		kl := r.Intn(4)
		k := make([]byte, kl)
		for j := range k {
			k[j] = c10Alphabet[r.Intn(len(c10Alphabet))]
		}
		out = append(append(out, enc(len(k))...), k...)
		v := r.Bytes(c10ValueLens[r.Intn(len(c10ValueLens))])
		out = append(append(out, enc(len(v))...), v...)
	}
	return out
}

func c10Values(r *vu.RNG, weird int) []byte {
	n := c10Count(r)
	if weird >= 0 && n > 8 {
		n = 1 + r.Intn(8)
	}
	pos := 0
	enc := func(l int) []byte {
		defer func() { pos++ }()
		if pos == weird {
			w, _ := c10Weird(r, l, pos == 0)
			return w
		}
		return c10Compact(l)
	}
	out := enc(n)
	for i := 0; i < n; i++ {
		v := r.Bytes(c10ValueLens[r.Intn(len(c10ValueLens))])
		out = append(append(out, enc(len(v))...), v...)
	}
	return out
}

func c10Version(r *vu.RNG) uint32 {
	switch r.Intn(10) {
	case 0:
		return 2
	case 1:
		return uint32(3 + r.Intn(253))
	case 2:
		return 255
	case 3:
		if r.Chance(1, 3) {
			// outside the property's range 0..255: only the low byte is looked at (uint8(version))
			return uint32(r.Intn(4))<<8 | uint32(r.Intn(3))
		}
		return uint32(r.Intn(2))
	default:
		return uint32(r.Intn(2))
	}
}

func c10Mutate(r *vu.RNG, d []byte) []byte {
	switch r.Intn(3) {
	case 0: // truncate
		if len(d) > 0 {
			return append([]byte{}, d[:r.Intn(len(d))]...)
		}
	case 1: // trailing bytes after a complete value
		return append(append([]byte{}, d...), r.Bytes(1+r.Intn(4))...)
	case 2: // declare one more element than present (one-byte compact counts only)
		if len(d) > 0 && d[0]&3 == 0 && d[0] < 0xf8 {
			c := append([]byte{}, d...)
			c[0] += 4
			return c
		}
	}
	return d
}

func c10Generate(r *vu.RNG, n int, emit func(string)) {
	// verifutil.NewRNG(seed) starts at seed*golden+c and U64 advances by golden, so the streams of seed s and
	// s+1 are the same stream shifted by one draw; re-seeding from a mixed output decorrelates the seeds
	r = r.Fork()
	for _, s := range []string{
		"root 0 00", "root 1 00", "root 2 00", "root ff 00", "root 0 -", "ord 0 00", "ord 1 -", "root1 00", "ord1 00",
		"root 0 0804010402aa04010402bb", "root 0 0404010402", "ord 0 0804aa", "ord 1 0c04aa00",
		// length prefixes pkg/scale must reject: non-canonical count / key length / value length; 5-, 8-
		// and 9-byte big-integer payloads; a canonical 2^30+1 count; a value declaring 2^56 bytes
		"root 0 050004010402", "root 0 040500010402", "root 0 0404010500020000", "ord 0 0500040a",
		"root 0 07010000000004010402", "root 0 0404011301000000000000000102", "ord 0 04170100000000000000000a",
		"root 0 030100004004010402", "ord 0 0301000040040a", "ord 0 0413000000000000000111",
		"root 100 0404010402", "root 101 0404010402", "root 102 0404010402",
	} {
		emit(s)
	}
	// deterministic witnesses for index keys beyond the one-byte compact mode (65 values) and beyond one
	// byte (257 values), and for duplicate keys in a list of more than 12 entries (later value wins)
	for _, k := range []int{65, 257} {
		d := c10Compact(k)
		for i := 0; i < k; i++ {
			d = append(d, 0x04, byte(i))
		}
		emit("ord 0 " + vu.Hex(d))
		emit("ord 1 " + vu.Hex(d))
	}
	{
		d := c10Compact(16)
		for i := 0; i < 16; i++ {
			d = append(d, 0x04, byte(1+i%3), 0x04, byte(0xa0+i))
		}
		emit("root 0 " + vu.Hex(d))
	}
	for i := 0; i < n; i++ {
		ord := r.Chance(1, 2)
		weird := -1
		if r.Chance(1, 7) {
			weird = r.Intn(6) // one of the first length prefixes in a non-standard encoding
		}
		var d []byte
		if ord {
			d = c10Values(r, weird)
		} else {
			d = c10Entries(r, weird)
		}
		if weird < 0 && r.Chance(1, 5) {
			d = c10Mutate(r, d)
		}
		name := "root"
		if ord {
			name = "ord"
		}
		if r.Chance(1, 8) {
			emit(fmt.Sprintf("%s1 %s", name, vu.Hex(d)))
		} else {
			emit(fmt.Sprintf("%s %s %s", name, vu.X(uint64(c10Version(r))), vu.Hex(d)))
		}
	}
}

func TestVerifC10(t *testing.T) { vu.Run(t, "C10", 600, c10Generate, c10Run) }
