(* C28 driver: replays the Go trace of allocator calls on the extracted model (variant [fixed] =
   the repaired code) and evaluates the specification checker [Model.check] — the predicate the
   theorem C28_spec is about — on the implementation's own observables.
   Input / observed grammar: see props/C28/harness_test.go. *)
open Model
open Vutil

let err_of_string = function
  | "poisoned" -> EPoisoned | "shrunk" -> EShrunk | "toolarge" -> ETooLarge | "hdrptr" -> EHdrPtr
  | "readhdr" -> EReadHdr | "order" -> EInvalidOrder | "occfree" -> EOccInFree | "oos" -> EOOS
  | "grow" -> EGrow | "writehdr" -> EWriteHdr | "invalidptr" -> EInvalidPtr | "emptyhdr" -> EEmptyHdr
  | "underflow" -> EUnderflow | _ -> EPanic
let string_of_err = function
  | EPoisoned -> "poisoned" | EShrunk -> "shrunk" | ETooLarge -> "toolarge" | EHdrPtr -> "hdrptr"
  | EReadHdr -> "readhdr" | EInvalidOrder -> "order" | EOccInFree -> "occfree" | EOOS -> "oos"
  | EGrow -> "grow" | EWriteHdr -> "writehdr" | EInvalidPtr -> "invalidptr" | EEmptyHdr -> "emptyhdr"
  | EUnderflow -> "underflow" | EPanic -> "other"

let parse_res s =
  if s = "ok" then ROk else if s = "skip" then RSkip
  else if String.length s > 2 && String.sub s 0 2 = "e:" then RErr (err_of_string (String.sub s 2 (String.length s - 2)))
  else if s.[0] = 'p' then RPtr (n_of_hex (String.sub s 1 (String.length s - 1)))
  else if s.[0] = 'v' then RVal (n_of_hex (String.sub s 1 (String.length s - 1)))
  else fail "C28: bad result %s" s
let string_of_res = function
  | ROk -> "ok" | RSkip -> "skip" | RErr e -> "e:" ^ string_of_err e
  | RPtr p -> "p" ^ hex_of_n p | RVal v -> "v" ^ hex_of_n v
let parse_obs tok = match String.split_on_char ',' tok with
  | [r; pg] -> { o_res = parse_res r; o_pages = n_of_hex pg }
  | _ -> fail "C28: bad observation %s" tok
let string_of_obs o = string_of_res o.o_res ^ "," ^ hex_of_n o.o_pages

let mask32 = 0xffffffff
let int_of_hex s = int_of_string ("0x" ^ s)
let int_of_shex s =
  if String.length s > 0 && s.[0] = '-' then - (int_of_hex (String.sub s 1 (String.length s - 1))) else int_of_hex s

(* One harness op becomes one model op, except the multi-byte guest accesses
     W,<i>,<off>,<len>,<seed>   store of len bytes at ptr_i+off, byte j = (seed + 31*j) land 255
     R,<i>,<off>,<len>          load of len bytes
   which are the sequences of their single-byte stores / loads (linear memory is byte-addressed;
   each byte is performed iff its address lies inside the requested size of a live allocation).
   Observed: W -> one letter per byte, k (stored) or s (skipped); R -> two hex digits per byte,
   -- for a skipped one.  Returns the expanded ops, their observations, and for each expanded
   index the index of the harness op it comes from. *)
let expand ?(whole=false) tag optoks obtoks =
  let n = List.length optoks in
  let ptrs = Array.make (n + 1) 0 in
  let split_ob tok = match String.split_on_char ',' tok with
    | [r; pg] -> (r, n_of_hex pg) | _ -> fail "C28: bad observation %s" tok in
  let out = ref [] in
  List.iteri (fun i (tok, obtok) ->
    let (r, pg) = split_ob obtok in
    let base j = if j < i then ptrs.(j) else 0 in
    let one o = out := (i, o, { o_res = parse_res r; o_pages = pg }) :: !out in
    match String.split_on_char ',' tok with
    | ["a"; sz] -> tag "alloc";
      (match parse_res r with RPtr p -> ptrs.(i) <- int_of_n p | _ -> ());
      (* `sqr` cases: the property is evaluated for the guest that uses whole blocks (C28_whole_block) *)
      let sz = n_of_hex sz in
      one (OAlloc (if whole && int_of_n sz <= int_of_n max_alloc then rsz sz else sz))
    | ["f"; j; d] ->
      let d = int_of_shex d in
      tag (if d = 0 then "free" else if d land 7 <> 0 then "free-unaligned" else "free-offset");
      one (OFree (n_of_int ((base (int_of_hex j) + d) land mask32)))
    | ["F"; p] -> tag "free-raw"; one (OFree (n_of_hex p))
    | ["w"; j; off; v] -> tag "store"; one (OWrite (n_of_int ((base (int_of_hex j) + int_of_hex off) land mask32), n_of_hex v))
    | ["r"; j; off] -> tag "load"; one (ORead (n_of_int ((base (int_of_hex j) + int_of_hex off) land mask32)))
    | ["g"; k] -> tag "grow"; one (OGrow (n_of_hex k))
    | ["S"; k] -> tag "setpages"; one (OSetPages (n_of_hex k))
    | ["W"; j; off; len; seed] ->
      tag "store-multibyte";
      let len = int_of_hex len and seed = int_of_hex seed in
      if String.length r <> len then fail "C28: bad multi-byte store observation %s" obtok;
      let a0 = base (int_of_hex j) + int_of_hex off in
      for b = 0 to len - 1 do
        let res = (match r.[b] with 'k' -> ROk | 's' -> RSkip | _ -> fail "C28: bad multi-byte store observation %s" obtok) in
        out := (i, OWrite (n_of_int ((a0 + b) land mask32), n_of_int ((seed + 31 * b) land 255)), { o_res = res; o_pages = pg }) :: !out
      done
    | ["R"; j; off; len] ->
      tag "load-multibyte";
      let len = int_of_hex len in
      if String.length r <> 2 * len then fail "C28: bad multi-byte load observation %s" obtok;
      let a0 = base (int_of_hex j) + int_of_hex off in
      for b = 0 to len - 1 do
        let h = String.sub r (2 * b) 2 in
        let res = if h = "--" then RSkip else RVal (n_of_hex h) in
        out := (i, ORead (n_of_int ((a0 + b) land mask32)), { o_res = res; o_pages = pg }) :: !out
      done
    | _ -> fail "C28: bad op %s" tok) (List.combine optoks obtoks);
  let l = List.rev !out in
  (List.map (fun (_, o, _) -> o) l, List.map (fun (_, _, ob) -> ob) l, Array.of_list (List.map (fun (i, _, _) -> i) l))

let check inp obs =
  match split_ws inp with
  | (("seq" | "sqr") as kw) :: hb :: pages :: max :: optoks ->
    let whole = (kw = "sqr") in
    let c = { c_hb = n_of_hex hb; c_pages = n_of_hex pages; c_max = n_of_hex max } in
    let n = List.length optoks in
    let obtoks = if obs = "-" then [] else split_ws obs in
    if List.length obtoks <> n || (n > 0 && (obs = "panic" || obs = "hang")) then
      { prop_ok = false; model_eq = false; nontrivial = true; finding = "-"; tags = "abnormal-" ^ obs;
        detail = "implementation did not return (" ^ obs ^ ")" }
    else begin
      let tags = Hashtbl.create 16 in
      let tag t = Hashtbl.replace tags t () in
      if whole then tag "whole-block-guest";
      let (ops, obsl, origin) = expand ~whole tag optoks obtoks in
      let otok i = List.nth optoks origin.(i) and btok i = List.nth obtoks origin.(i) in
      let impl = List.combine ops obsl in
      (* the property on the implementation's observables; locate the first failing step *)
      let hba = align_up c.c_hb in
      let rec first_bad g i = function
        | [] -> None
        | (o, ob) :: r -> if step_ok hba g o ob then first_bad (track hba g o ob) (i + 1) r else Some (i, g) in
      (* C28_spec is stated for configurations that start with at most 65536 pages *)
      let in_scope = int_of_n c.c_pages <= 65536 in
      let prop_main = (not in_scope) || check c impl in
      let bad = if in_scope then first_bad (ghost0 c.c_pages) 0 impl else None in
      (match bad with Some _ when prop_main -> fail "C28: check/step_ok disagree" | None when not prop_main -> fail "C28: check/step_ok disagree" | _ -> ());
      (* the unconditional part (C28_unconditional): evaluated on every trace, void or not *)
      let rec first_bad_u dead pg i = function
        | [] -> None
        | (o, ob) :: r ->
          if uncond_ok dead pg o ob then first_bad_u (dead || (is_call o && is_err ob.o_res)) ob.o_pages (i + 1) r
          else Some i in
      let prop_u = check_uncond c impl in
      let bad_u = first_bad_u false c.c_pages 0 impl in
      (match bad_u with Some _ when prop_u -> fail "C28: check_uncond/uncond_ok disagree" | None when not prop_u -> fail "C28: check_uncond/uncond_ok disagree" | _ -> ());
      let prop = prop_main && prop_u in
      if int_of_n c.c_max > 65536 then tag "memory-max-above-4GiB";
      (* final ghost for tags *)
      let gfin = List.fold_left (fun g (o, ob) -> track hba g o ob) (ghost0 c.c_pages) impl in
      if gfin.g_void then tag "void-assumption-broken";
      if gfin.g_dead then tag "poisoned";
      let succ = ref 0 and freed = Hashtbl.create 8 and reuse = ref false and grew = ref false in
      let pg = ref (int_of_n c.c_pages) in
      List.iter (fun (o, ob) ->
        (match o, ob.o_res with
         | OAlloc _, RPtr p -> incr succ; if Hashtbl.mem freed p then (reuse := true; Hashtbl.remove freed p)
         | OFree p, ROk -> incr succ; Hashtbl.replace freed p ()
         | (OAlloc _ | OFree _), RErr e -> tag ("err-" ^ string_of_err e)
         | ORead _, RVal _ -> tag "load-live"
         | _ -> ());
        (match o with OAlloc _ -> if int_of_n ob.o_pages > !pg then grew := true | _ -> ());
        pg := int_of_n ob.o_pages) impl;
      if !reuse then tag "free-list-reuse";
      if !grew then tag "grow-by-allocator";
      if int_of_n c.c_hb >= 0xf0000000 then tag "top-of-address-space";
      if !pg = 65536 then tag "pages-65536";
      (* the model *)
      let mobs = List.map snd (run fixed c zero_mem ops) in
      let eq = (mobs = obsl) in
      let detail =
        if prop && eq then "" else begin
          let b = Buffer.create 100 in
          (match bad with Some (i, _) ->
             Buffer.add_string b (Printf.sprintf "property fails at op %d (%s -> %s); " origin.(i) (otok i) (btok i))
           | None -> ());
          (match bad_u with Some i ->
             Buffer.add_string b (Printf.sprintf "unconditional part (poisoning / 32 MiB / 4 GiB) fails at op %d (%s -> %s); " origin.(i) (otok i) (btok i))
           | None -> ());
          if not eq then begin
            let rec firstdiff i a b' = match a, b' with
              | x :: a', y :: b'' -> if x = y then firstdiff (i + 1) a' b'' else Some (i, x, y)
              | _ -> None in
            (match firstdiff 0 mobs obsl with
             | Some (i, m, o) -> Buffer.add_string b (Printf.sprintf "model differs at op %d (%s): model=%s impl=%s" origin.(i) (otok i) (string_of_obs m) (string_of_obs o))
             | None -> ());
            (* does the implementation still behave like the pinned tree before the fixes? *)
            if List.map snd (run prefix c zero_mem ops) = obsl then Buffer.add_string b " [impl = pre-fix model]"
          end;
          Buffer.contents b
        end in
      let tl = Hashtbl.fold (fun k () acc -> k :: acc) tags [] in
      { prop_ok = prop; model_eq = eq; nontrivial = (!succ >= 3); finding = "-";
        tags = String.concat "," (List.sort compare tl); detail }
    end
  | ["cst"] ->
    let model = String.concat " " (List.map hex_of_n
      [nil_marker; n_of_int 8; header_size; num_orders; min_alloc; max_alloc; page_size; max_wasm_pages;
       encode_header (HOcc (n_of_int 1)); encode_header (HFree None)]) in
    { prop_ok = true; model_eq = (model = obs); nontrivial = false; finding = "-"; tags = "constants";
      detail = if model = obs then "" else "constants differ: Model.v has " ^ model ^ ", the Go package has " ^ obs }
  | _ -> fail "C28: bad input %s" inp

(* vm_compute cross-check of the extraction: the same operations (pointer references resolved
   from the implementation's answers, as above) are run by Model.run inside Coq and compared
   with the implementation's observations (Model.vm_case) *)
let coq inp obs =
  match split_ws inp with
  | (("seq" | "sqr") as kw) :: hb :: pages :: max :: optoks ->
    let whole = (kw = "sqr") in
    let n = List.length optoks in
    let obtoks = if obs = "-" then [] else split_ws obs in
    if List.length obtoks <> n || n = 0 || n > 80 then None else begin
      let (mops, obsl, _) = expand ~whole (fun _ -> ()) optoks obtoks in
      if List.length mops > 160 then None else
      let ops = List.map (function
        | OAlloc sz -> "OAlloc " ^ coq_n sz | OFree p -> "OFree " ^ coq_n p
        | OWrite (a, v) -> Printf.sprintf "OWrite %s %s" (coq_n a) (coq_n v) | ORead a -> "ORead " ^ coq_n a
        | OGrow k -> "OGrow " ^ coq_n k | OSetPages k -> "OSetPages " ^ coq_n k) mops in
      let coq_err e = (match e with
        | EPoisoned -> "EPoisoned" | EShrunk -> "EShrunk" | ETooLarge -> "ETooLarge" | EHdrPtr -> "EHdrPtr"
        | EReadHdr -> "EReadHdr" | EInvalidOrder -> "EInvalidOrder" | EOccInFree -> "EOccInFree" | EOOS -> "EOOS"
        | EGrow -> "EGrow" | EWriteHdr -> "EWriteHdr" | EInvalidPtr -> "EInvalidPtr" | EEmptyHdr -> "EEmptyHdr"
        | EUnderflow -> "EUnderflow" | EPanic -> "EPanic") in
      let coq_res = function
        | ROk -> "ROk" | RSkip -> "RSkip" | RErr e -> "RErr " ^ coq_err e
        | RPtr p -> "RPtr " ^ coq_n p | RVal v -> "RVal " ^ coq_n v in
      let obs' = List.map (fun ob -> Printf.sprintf "mkObs (%s) %s" (coq_res ob.o_res) (coq_n ob.o_pages)) obsl in
      Some (Printf.sprintf "vm_case (mkCfg %s %s %s) [%s] [%s]" (coq_n (n_of_hex hb)) (coq_n (n_of_hex pages)) (coq_n (n_of_hex max))
              (String.concat "; " ops) (String.concat "; " obs'))
    end
  | _ -> None

let () = run_driver ~coq check
