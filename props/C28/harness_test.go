// C28 correspondence harness (external test package of lib/runtime/allocator, injected by
// `go test -overlay`). Drives FreeingBumpHeapAllocator.Allocate / Deallocate against a fake,
// sparse runtime.Memory (size in 64 KiB pages up to the 4 GiB wasm limit, ReadUint64Le /
// WriteUint64Le succeed iff offset+8 <= Size(), Grow succeeds iff the page maximum is respected).
//
// input (fields separated by one space, all numbers hex):
//
//	seq <heapBase> <initialPages> <maxPages> <op> <op> ...
//	sqr <heapBase> <initialPages> <maxPages> <op> <op> ...   same, but the guest may use the WHOLE
//	                           rounded-up block of every allocation (8 * 2^order bytes, also the slack
//	                           beyond the requested size): Allocate is called with the sizes as given,
//	                           the live range for w / r / W / R is the block (the driver checks the
//	                           property with every request rounded up to its block size, theorem
//	                           C28_whole_block; C28_request_size_irrelevant: the allocator cannot tell)
//	op :=  a,<size>            Allocate(mem, size)
//	       f,<i>,<delta>       Deallocate(mem, ptr_i + delta)   ptr_i = pointer returned by op number i
//	                           (0 if op i was not a successful allocation); delta signed; u32 wrap
//	       F,<ptr>             Deallocate(mem, ptr)
//	       w,<i>,<off>,<val>   the guest stores byte val at ptr_i+off   (performed only if that
//	       r,<i>,<off>         the guest loads the byte at ptr_i+off     address lies inside the
//	                           requested size of a live allocation; otherwise "skip")
//	       W,<i>,<off>,<len>,<seed>  the guest stores len bytes at ptr_i+off, byte j = (seed+31*j)&255
//	       R,<i>,<off>,<len>         the guest loads len bytes at ptr_i+off
//	                           (multi-byte accesses = the sequences of their byte accesses; each byte is
//	                           performed iff it lies inside the requested size of a live allocation;
//	                           when all of them do, the memory's Write / Read of the whole slice is used)
//	       g,<n>               the guest grows the memory by n pages
//	       S,<n>               the embedder swaps in a memory of min(n, maxPages) pages (may shrink)
//
// observed: one token per op: <res>,<pagesAfter>
//
//	res := p<ptr> | e:<class> | ok | v<byte> | skip
//	       | W: one letter per byte, k = stored, s = skipped | R: two hex digits per byte, -- = skipped
//
// input `cst`: observed = NilMarker Aligment HeaderSize NumOrders MinPossibleAllocations
// MaxPossibleAllocations PageSize MaxWasmPages, the raw occupied header of order 1 and the raw free
// header with a Nil link as found in memory (hex) — NilMarker is `math.MaxUint32`, which the
// constant translator (Gen.v) cannot read; the driver compares all of them with Model.v.
//	class := poisoned shrunk toolarge hdrptr readhdr order occfree oos grow writehdr invalidptr
//	         emptyhdr underflow other
package allocator_test

import (
	"errors"
	"fmt"
	"strings"
	"testing"

	vu "github.com/ChainSafe/gossamer/internal/verifutil"
	"github.com/ChainSafe/gossamer/lib/runtime/allocator"
)

const c28Page = 65536
const c28Chunk = 512 // granularity of the sparse backing store

type c28Mem struct {
	pages uint32
	max   uint32
	data  map[uint32]*[c28Chunk]byte
}

func (m *c28Mem) Size() uint64 { return uint64(m.pages) * c28Page }
func (m *c28Mem) Grow(delta uint32) (uint32, bool) {
	if uint64(m.pages)+uint64(delta) > uint64(m.max) {
		return 0, false
	}
	prev := m.pages
	m.pages += delta
	return prev, true
}
func (m *c28Mem) get(a uint64) byte {
	pg := m.data[uint32(a/c28Chunk)]
	if pg == nil {
		return 0
	}
	return pg[a%c28Chunk]
}
func (m *c28Mem) put(a uint64, v byte) {
	pg := m.data[uint32(a/c28Chunk)]
	if pg == nil {
		pg = new([c28Chunk]byte)
		m.data[uint32(a/c28Chunk)] = pg
	}
	pg[a%c28Chunk] = v
}
func (m *c28Mem) ReadByte(off uint32) (byte, bool) { //nolint:govet
	if uint64(off)+1 > m.Size() {
		return 0, false
	}
	return m.get(uint64(off)), true
}
func (m *c28Mem) ReadUint64Le(off uint32) (uint64, bool) {
	if uint64(off)+8 > m.Size() {
		return 0, false
	}
	var v uint64
	for i := uint64(0); i < 8; i++ {
		v |= uint64(m.get(uint64(off)+i)) << (8 * i)
	}
	return v, true
}
func (m *c28Mem) WriteUint64Le(off uint32, v uint64) bool {
	if uint64(off)+8 > m.Size() {
		return false
	}
	for i := uint64(0); i < 8; i++ {
		m.put(uint64(off)+i, byte(v>>(8*i)))
	}
	return true
}
func (m *c28Mem) Read(off uint32, n uint64) ([]byte, bool) {
	if uint64(off)+n > m.Size() {
		return nil, false
	}
	b := make([]byte, n)
	for i := uint64(0); i < n; i++ {
		b[i] = m.get(uint64(off) + i)
	}
	return b, true
}
func (m *c28Mem) WriteByte(off uint32, v byte) bool { //nolint:govet
	if uint64(off)+1 > m.Size() {
		return false
	}
	m.put(uint64(off), v)
	return true
}
func (m *c28Mem) Write(off uint32, v []byte) bool {
	if uint64(off)+uint64(len(v)) > m.Size() {
		return false
	}
	for i, b := range v {
		m.put(uint64(off)+uint64(i), b)
	}
	return true
}

func c28ErrClass(err error) string {
	switch {
	case errors.Is(err, allocator.ErrAllocatorPoisoned):
		return "poisoned"
	case errors.Is(err, allocator.ErrMemoryShrunk):
		return "shrunk"
	case errors.Is(err, allocator.ErrRequestedAllocationTooLarge):
		return "toolarge"
	case errors.Is(err, allocator.ErrInvalidHeaderPointerDetected):
		return "hdrptr"
	case errors.Is(err, allocator.ErrCannotReadHeader):
		return "readhdr"
	case errors.Is(err, allocator.ErrInvalidOrder):
		return "order"
	case errors.Is(err, allocator.ErrAllocatorOutOfSpace):
		return "oos"
	case errors.Is(err, allocator.ErrCannotGrowLinearMemory):
		return "grow"
	case errors.Is(err, allocator.ErrCannotWriteHeader):
		return "writehdr"
	case errors.Is(err, allocator.ErrInvalidPointerForDealocation):
		return "invalidptr"
	case errors.Is(err, allocator.ErrEmptyHeader):
		return "emptyhdr"
	case strings.Contains(err.Error(), "free list points to a occupied header"):
		return "occfree"
	case strings.Contains(err.Error(), "underflow of the current allocated bytes count"):
		return "underflow"
	}
	return "other"
}

type c28Live struct {
	ptr, size uint32
}

func c28InLive(live []c28Live, a uint64) bool {
	for _, l := range live {
		if uint64(l.ptr) <= a && a < uint64(l.ptr)+uint64(l.size) {
			return true
		}
	}
	return false
}

func c28Run(in string) string {
	if in == "cst" { // the constants of the package, compared by the driver with those of Model.v
		// ... and the two header encodings as they appear in memory (the occupied-bit mask is a literal
		// inside readHeaderFromMemory / writeHeaderInto): an occupied header of order 1, then the same
		// block freed as the only element of its list (link = Nil marker)
		m := &c28Mem{pages: 1, max: 1, data: map[uint32]*[c28Chunk]byte{}}
		h := allocator.NewFreeingBumpHeapAllocator(0)
		p, _ := h.Allocate(m, 9)
		occ, _ := m.ReadUint64Le(p - 8)
		_ = h.Deallocate(m, p)
		free, _ := m.ReadUint64Le(p - 8)
		return fmt.Sprintf("%x %x %x %x %x %x %x %x %x %x", uint64(allocator.NilMarker), uint64(allocator.Aligment), uint64(allocator.HeaderSize),
			uint64(allocator.NumOrders), uint64(allocator.MinPossibleAllocations), uint64(allocator.MaxPossibleAllocations),
			uint64(allocator.PageSize), uint64(allocator.MaxWasmPages), occ, free)
	}
	f := strings.Split(in, " ")
	if len(f) < 4 || (f[0] != "seq" && f[0] != "sqr") {
		return "err:badinput"
	}
	wholeBlock := f[0] == "sqr"
	hb := uint32(vu.UnX(f[1]))
	mem := &c28Mem{pages: uint32(vu.UnX(f[2])), max: uint32(vu.UnX(f[3])), data: map[uint32]*[c28Chunk]byte{}}
	heap := allocator.NewFreeingBumpHeapAllocator(hb)
	ops := f[4:]
	ptrs := make([]uint32, len(ops))
	var live []c28Live
	out := make([]string, 0, len(ops))
	free := func(p uint32) string {
		err := heap.Deallocate(mem, p)
		if err != nil {
			return "e:" + c28ErrClass(err)
		}
		isLive := false
		for _, l := range live {
			if l.ptr == p {
				isLive = true
			}
		}
		if isLive {
			nl := live[:0:0]
			for _, l := range live {
				if l.ptr != p {
					nl = append(nl, l)
				}
			}
			live = nl
		}
		return "ok"
	}
	for i, o := range ops {
		a := strings.Split(o, ",")
		var res string
		switch a[0] {
		case "a":
			size := uint32(vu.UnX(a[1]))
			p, err := heap.Allocate(mem, size)
			if err != nil {
				res = "e:" + c28ErrClass(err)
			} else {
				res = "p" + vu.X(uint64(p))
				ptrs[i] = p
				usable := size
				if wholeBlock && size <= 33554432 { // the block: next power of two, at least 8
					usable = 8
					for usable < size {
						usable <<= 1
					}
				}
				live = append([]c28Live{{p, usable}}, live...)
			}
		case "f":
			idx := int(vu.UnX(a[1]))
			var base uint32
			if idx < i {
				base = ptrs[idx]
			}
			res = free(base + uint32(vu.UnXI(a[2])))
		case "F":
			res = free(uint32(vu.UnX(a[1])))
		case "w", "r":
			idx := int(vu.UnX(a[1]))
			var base uint32
			if idx < i {
				base = ptrs[idx]
			}
			addr := uint64(base + uint32(vu.UnX(a[2])))
			if !c28InLive(live, addr) {
				res = "skip"
			} else if a[0] == "w" {
				mem.put(addr, byte(vu.UnX(a[3])))
				res = "ok"
			} else {
				res = "v" + vu.X(uint64(mem.get(addr)))
			}
		case "W", "R":
			idx := int(vu.UnX(a[1]))
			var base uint32
			if idx < i {
				base = ptrs[idx]
			}
			start := base + uint32(vu.UnX(a[2]))
			n := int(vu.UnX(a[3]))
			all := n > 0 && uint64(start)+uint64(n) <= 1<<32
			for j := 0; j < n; j++ {
				if !c28InLive(live, uint64(start+uint32(j))) {
					all = false
				}
			}
			var sb strings.Builder
			if a[0] == "W" {
				seed := int(vu.UnX(a[4]))
				buf := make([]byte, n)
				for j := range buf {
					buf[j] = byte(seed + 31*j)
				}
				if all && mem.Write(start, buf) { // the whole slice through the memory's own multi-byte store
					sb.WriteString(strings.Repeat("k", n))
				} else {
					for j := 0; j < n; j++ {
						ad := uint64(start + uint32(j))
						if c28InLive(live, ad) {
							mem.put(ad, buf[j])
							sb.WriteByte('k')
						} else {
							sb.WriteByte('s')
						}
					}
				}
			} else {
				var whole []byte
				if all {
					whole, _ = mem.Read(start, uint64(n))
				}
				for j := 0; j < n; j++ {
					ad := uint64(start + uint32(j))
					switch {
					case whole != nil:
						sb.WriteString(fmt.Sprintf("%02x", whole[j]))
					case c28InLive(live, ad):
						sb.WriteString(fmt.Sprintf("%02x", mem.get(ad)))
					default:
						sb.WriteString("--")
					}
				}
			}
			res = sb.String()
		case "g":
			if _, ok := mem.Grow(uint32(vu.UnX(a[1]))); ok {
				res = "ok"
			} else {
				res = "e:grow"
			}
		case "S":
			mem.pages = uint32(vu.UnX(a[1]))
			if mem.pages > mem.max {
				mem.pages = mem.max
			}
			res = "ok"
		default:
			return "err:badop"
		}
		out = append(out, res+","+vu.X(uint64(mem.pages)))
	}
	if len(out) == 0 {
		return "-"
	}
	return strings.Join(out, " ")
}

// ---------------------------------------------------------------- generator

func c28Size(r *vu.RNG) uint32 {
	switch r.Intn(10) {
	case 0, 1, 2: // tiny
		return uint32(r.Intn(41))
	case 3, 4, 5: // order boundaries 2^k-1, 2^k, 2^k+1 for small k
		k := uint(r.Intn(12))
		return uint32(int64(1)<<k) + uint32(r.Intn(3)) - 1
	case 6: // any order boundary up to 2^25 (+1 = too large)
		k := uint(r.Intn(26))
		return uint32(int64(1)<<k) + uint32(r.Intn(3)) - 1
	case 7: // around the 32 MiB limit and absurd sizes
		return []uint32{33554431, 33554432, 33554433, 0x7fffffff, 0x80000000, 0xffffffff, 0xfffffff8}[r.Intn(7)]
	case 8:
		return uint32(r.Intn(70000))
	default:
		return uint32(r.Intn(300))
	}
}

func c28HeapBase(r *vu.RNG) uint32 {
	switch r.Intn(8) {
	case 0:
		return 0
	case 1:
		return uint32([]int{1, 7, 8, 9, 15, 16}[r.Intn(6)])
	case 2:
		return uint32(65536*r.Intn(3)) + uint32([]int{0, 1, 65527, 65528, 65529, 65535}[r.Intn(6)])
	case 3:
		return uint32(r.Intn(200000))
	default:
		return uint32(r.Intn(4)) * 8
	}
}

// a pointer-relative delta for an invalid free
func c28Delta(r *vu.RNG) int64 {
	return []int64{-16, -12, -9, -8, -7, -4, -3, -1, 1, 2, 4, 7, 8, 12, 16, 24, 32, 64}[r.Intn(18)]
}

func c28Ops(r *vu.RNG, n int, allocBias int) []string {
	ops := make([]string, 0, n)
	var allocs []int // indices of allocation ops
	for len(ops) < n {
		i := len(ops)
		c := r.Intn(100)
		switch {
		case c < allocBias || len(allocs) == 0:
			ops = append(ops, "a,"+vu.X(uint64(c28Size(r))))
			allocs = append(allocs, i)
		case c < allocBias+22: // free of an earlier allocation (valid, or double when repeated)
			ops = append(ops, fmt.Sprintf("f,%x,0", allocs[r.Intn(len(allocs))]))
		case c < allocBias+27: // invalid free near an allocation
			ops = append(ops, fmt.Sprintf("f,%x,%s", allocs[r.Intn(len(allocs))], vu.XI(c28Delta(r))))
		case c < allocBias+29: // raw pointer
			ops = append(ops, "F,"+vu.X(uint64([]uint32{0, 1, 7, 8, 9, 16, 24, 65528, 65536, 65544, 131072, 0xfffffff8, 0xffffffff}[r.Intn(13)])))
		case c < allocBias+45: // store at the start / end / middle of the requested size
			off := uint64(r.Intn(24))
			if r.Chance(1, 3) {
				off = uint64(r.Intn(300))
			}
			ops = append(ops, fmt.Sprintf("w,%x,%x,%x", allocs[r.Intn(len(allocs))], off, 1+r.Intn(255)))
		case c < allocBias+60:
			off := uint64(r.Intn(24))
			if r.Chance(1, 3) {
				off = uint64(r.Intn(300))
			}
			ops = append(ops, fmt.Sprintf("r,%x,%x", allocs[r.Intn(len(allocs))], off))
		case c < allocBias+62:
			ops = append(ops, "g,"+vu.X(uint64(r.Intn(3))))
		case c < allocBias+66: // multi-byte store: inside, across the end of, or before an allocation
			ops = append(ops, fmt.Sprintf("W,%x,%s,%x,%x", allocs[r.Intn(len(allocs))], vu.X(uint64(r.Intn(40))), 1+r.Intn(48), r.Intn(256)))
		case c < allocBias+70:
			ops = append(ops, fmt.Sprintf("R,%x,%s,%x", allocs[r.Intn(len(allocs))], vu.X(uint64(r.Intn(40))), 1+r.Intn(64)))
		default:
			ops = append(ops, "a,"+vu.X(uint64(c28Size(r))))
			allocs = append(allocs, i)
		}
	}
	return ops
}

// c28ExactFit: requests whose blocks (header included) tile [hb, hb+65536) exactly when hb = 0:
// orders 12..4, 2 and 0; then the last block (it ends at the end of the page) is freed and
// re-allocated, the first one too, and one more request needs a second page.
func c28ExactFit(hb uint32) []string {
	var ops []string
	for o := 12; o >= 4; o-- {
		ops = append(ops, "a,"+vu.X(uint64(8)<<uint(o)))
	}
	ops = append(ops, "a,20", "a,8") // ops 9 and 10
	ops = append(ops, "w,a,0,5a", "f,a,0", "a,8", "r,d,0", "f,0,0", "a,8000", "r,a,0", "a,8", "a,1")
	return ops
}

func c28Gen(r *vu.RNG, n int, emit func(string)) {
	seq := func(hb uint32, pages, max uint32, ops []string) {
		emit(fmt.Sprintf("seq %x %x %x %s", hb, pages, max, strings.Join(ops, " ")))
	}
	// the guest uses whole blocks, slack included
	sqr := func(hb uint32, pages, max uint32, ops []string) {
		emit(fmt.Sprintf("sqr %x %x %x %s", hb, pages, max, strings.Join(ops, " ")))
	}
	// slack bytes: requests of 5 / 9 / 21 bytes (blocks 8 / 16 / 32), the last byte of each block and
	// the whole blocks written, churn, read back
	sqr(0, 1, 65536, []string{"a,5", "a,9", "a,15", "w,0,7,4d", "w,1,f,58", "W,2,15,b,21", "a,64", "r,1,f", "f,1,0", "a,3", "r,0,7", "R,2,0,20", "W,0,0,8,90", "a,8", "R,0,0,8"})
	emit("cst")
	// ---- fixed boundary cases
	for k := 0; k <= 26; k++ { // every order boundary: size 2^k-1, 2^k, 2^k+1, then reuse after free
		s := uint64(1) << uint(k)
		seq(0, 1, 65536, []string{"a," + vu.X(s-1), "a," + vu.X(s), "a," + vu.X(s+1), "f,1,0", "a," + vu.X(s), "f,0,0", "f,0,0", "a,1"})
	}
	for _, hb := range []uint32{0, 1, 7, 8, 65535, 65536, 0xfffffff0, 0xfffffff8, 0xffffffe8} {
		seq(hb, 1, 65536, []string{"a,8", "w,0,0,aa", "a,8", "r,0,0", "f,0,0", "a,8", "a,10"})
	}
	// unaligned frees next to a live header with an odd order
	seq(0, 1, 16, []string{"a,5", "a,9", "f,1,-4", "a,8", "a,8"})
	seq(8, 1, 16, []string{"a,10", "f,0,-4", "a,1", "w,0,0,7", "r,0,0"})
	// forged header inside a live payload
	seq(0, 1, 16, []string{"a,20", "w,0,4,1", "f,0,8", "a,8", "a,8"})
	// memory limits
	seq(0, 1, 1, []string{"a,7ff8", "a,8000", "a,8"})
	seq(0, 0, 2, []string{"a,8", "a,10000", "a,10000"})
	seq(0, 1, 65536, []string{"a,8", "S,0", "a,8", "a,8"})
	seq(0, 2, 65536, []string{"a,8", "S,1", "f,0,0"})
	// multi-byte stores over the whole requested size, read back whole after other allocations and frees
	seq(0, 1, 65536, []string{"a,21", "a,7", "a,c8", "W,0,0,21,11", "W,1,0,7,80", "W,2,0,c8,f3", "f,1,0", "a,5", "a,40", "f,4,0", "R,0,0,21", "R,2,0,c8", "R,3,0,8", "W,2,c0,10,1", "R,2,b8,18"})
	// the size seen by the LAST call counts (Deallocate records it too): grown by the guest, seen by a
	// free resp. an allocation, then a smaller memory object
	seq(0, 1, 65536, []string{"a,8", "g,1", "f,0,0", "S,1", "a,8"})
	seq(0, 1, 65536, []string{"a,8", "a,8", "g,2", "f,0,0", "S,2", "f,1,0", "a,8"})
	seq(0, 1, 65536, []string{"a,8", "g,1", "a,8", "S,1", "f,0,0"})
	// error branches that need a forged header (the guest breaks its discipline: the run is void for
	// `check`, the model must still agree and poisoning must still hold):
	// a forged order-12 block in the second half of a one-page memory (enough bytes are allocated for
	// the free to be accepted) -> the next order-12 request finds "invalid header pointer detected"
	seq(0, 1, 1, []string{"a,8000", "a,c8", "w,1,8,c", "w,1,c,1", "f,1,10", "a,8000", "a,8"})
	// a freed forged block whose header the guest turns back into "occupied" -> "free list points to a occupied header"
	seq(0, 1, 16, []string{"a,c8", "w,0,8,3", "w,0,c,1", "f,0,10", "w,0,8,3", "w,0,9,0", "w,0,a,0", "w,0,b,0", "w,0,c,1", "a,40", "a,8"})
	// ... or into an occupied header with an order >= 23 -> "invalid order"
	seq(0, 1, 16, []string{"a,c8", "w,0,8,3", "w,0,c,1", "f,0,10", "w,0,c,1", "a,40", "a,8"})
	// a forged block bigger than everything allocated -> "underflow of the current allocated bytes count"
	seq(0, 1, 16, []string{"a,14", "w,0,8,5", "w,0,c,1", "f,0,10", "a,8", "r,0,0"})
	// blocks that tile one page exactly: the last one ends at the end of the memory (no grow needed,
	// the free-list bound check `>` at its boundary), then reuse, then one more byte needs a grow
	for _, max := range []uint32{1, 2, 65536} {
		seq(0, 1, max, c28ExactFit(0))
	}
	// a memory object that would allow more than 65536 pages: the allocator itself must stop at 4 GiB
	seq(2621440000, 40000, 131072, []string{"a,8", "a,2000000", "f,0,0", "a,8"})
	seq(0xfffefff0, 65535, 0xffffffff, []string{"a,8", "a,fff0", "a,8", "a,8"})
	seq(0x80000000, 32768, 65537, []string{"a,8", "a,10", "g,1"})

	for i := 0; i < n; i++ {
		mode := r.Intn(26)
		switch {
		case mode < 12: // ordinary mixed sequences
			pages := uint32(r.Intn(4))
			max := []uint32{65536, 65536, 1, 2, 4, 16, 600}[r.Intn(7)]
			if max < pages {
				max = pages
			}
			seq(c28HeapBase(r), pages, max, c28Ops(r, 20+r.Intn(41), 30))
		case mode < 14: // the top of the address space
			hb := uint32(0xffffffff) - uint32(r.Intn(40)*8+r.Intn(8))
			if r.Chance(1, 3) {
				hb = uint32(0x100000000 - uint64(1+r.Intn(4))*33554440 - uint64(r.Intn(3))*8)
			}
			pages := []uint32{0, 1, 65535, 65536}[r.Intn(4)]
			ops := c28Ops(r, 10+r.Intn(20), 50)
			seq(hb, pages, 65536, ops)
		case mode < 15: // fill towards 4 GiB with maximal blocks, then small ones
			hb := uint32(r.Intn(3)) * 8
			var ops []string
			for k := 0; k < 126+r.Intn(3); k++ {
				ops = append(ops, "a,2000000")
			}
			for k := 0; k < 18; k++ {
				ops = append(ops, "a,"+vu.X(uint64(1)<<uint(24-r.Intn(22))))
			}
			seq(hb, 1, 65536, ops)
		case mode < 17: // many same-order blocks, frees in various orders, then reuse (free-list chains)
			sz := uint64(1) << uint(r.Intn(8))
			k := 3 + r.Intn(6)
			var ops []string
			for j := 0; j < k; j++ {
				ops = append(ops, "a,"+vu.X(sz))
				ops = append(ops, fmt.Sprintf("w,%x,0,%x", 2*j, j+1))
			}
			for j := 0; j < k; j++ {
				if r.Chance(2, 3) {
					ops = append(ops, fmt.Sprintf("f,%x,0", 2*r.Intn(k)))
				}
			}
			for j := 0; j < k; j++ {
				ops = append(ops, "a,"+vu.X(sz-uint64(r.Intn(2))))
			}
			for j := 0; j < k; j++ {
				ops = append(ops, fmt.Sprintf("r,%x,0", 2*j))
			}
			seq(c28HeapBase(r), 1, 65536, ops)
		case mode < 18: // unaligned / forged frees
			o1 := uint64(9 + r.Intn(8)) // odd order 1
			if r.Chance(1, 2) {
				o1 = uint64(33 + r.Intn(32)) // order 3
			}
			ops := []string{"a," + vu.X(uint64(r.Intn(9))), "a," + vu.X(o1)}
			if r.Chance(1, 2) {
				ops = append(ops, fmt.Sprintf("w,1,%x,%x", r.Intn(8), r.Intn(4)), fmt.Sprintf("w,1,%x,1", 4+8*r.Intn(2)))
			}
			ops = append(ops, fmt.Sprintf("f,1,%s", vu.XI([]int64{-4, 4, 8, 12, 16, -8}[r.Intn(6)])))
			ops = append(ops, "a,8", "a,8", "f,1,0", "a,"+vu.X(o1))
			seq(uint32(r.Intn(3))*8, 1, 16, ops)
		case mode < 19: // shrinking memory objects
			ops := c28Ops(r, 10+r.Intn(10), 40)
			ops[len(ops)/2] = "S," + vu.X(uint64(r.Intn(3)))
			pages := uint32(1 + r.Intn(3))
			if r.Chance(1, 2) { // grown by the guest first, then swapped back to at least the initial size
				ops[len(ops)/4] = "g," + vu.X(uint64(1+r.Intn(2)))
				ops[len(ops)/2] = "S," + vu.X(uint64(pages)+uint64(r.Intn(2)))
			}
			seq(c28HeapBase(r), pages, 65536, ops)
		case mode < 20: // large heap bases and page counts
			hb := uint32(r.U64())
			pages := uint32(r.Intn(65537))
			seq(hb, pages, 65536, c28Ops(r, 10+r.Intn(20), 40))
		case mode < 21: // forged headers with arbitrary orders, then requests of that order (hdrptr / occfree / order / underflow)
			o := r.Intn(26)
			sz := uint64(16 + r.Intn(240))
			ops := []string{"a," + vu.X(sz), fmt.Sprintf("w,0,8,%x", o), "w,0,c,1", "f,0,10"}
			if r.Chance(1, 2) { // a big block first: the forged free is accepted, the forged block overhangs the memory
				o = 10 + r.Intn(4)
				ops = []string{"a," + vu.X(uint64(8)<<uint(o)), "a," + vu.X(sz), fmt.Sprintf("w,1,8,%x", o), "w,1,c,1", "f,1,10"}
			}
			switch r.Intn(3) {
			case 0: // the guest re-forges the freed header
				ops = append(ops, fmt.Sprintf("w,0,8,%x", r.Intn(24)), "w,0,9,0", "w,0,a,0", "w,0,b,0", "w,0,c,1")
			case 1:
				ops = append(ops, "w,0,c,1")
			}
			if o <= 25 {
				ops = append(ops, "a,"+vu.X(uint64(8)<<uint(o%23)))
			}
			ops = append(ops, c28Ops(r, 3+r.Intn(5), 50)...)
			seq(uint32(r.Intn(3))*8, uint32(1+r.Intn(2)), []uint32{1, 2, 16, 65536}[r.Intn(4)], ops)
		case mode < 23 && mode >= 22: // every allocation filled over its whole requested size, churn, then read back whole
			k := 3 + r.Intn(4)
			var ops []string
			sizes := make([]int, k)
			for j := 0; j < k; j++ {
				sizes[j] = 1 + r.Intn(120)
				if r.Chance(1, 5) {
					sizes[j] = 1 + r.Intn(300)
				}
				ops = append(ops, "a,"+vu.X(uint64(sizes[j])))
			}
			for j := 0; j < k; j++ {
				ops = append(ops, fmt.Sprintf("W,%x,0,%x,%x", j, sizes[j], r.Intn(256)))
			}
			freed := map[int]bool{}
			for j := 0; j < 2+r.Intn(4); j++ {
				switch r.Intn(3) {
				case 0:
					v := r.Intn(k)
					if !freed[v] && len(freed) < k-2 {
						freed[v] = true
						ops = append(ops, fmt.Sprintf("f,%x,0", v))
					}
				default:
					ops = append(ops, "a,"+vu.X(uint64(1+r.Intn(200))))
				}
			}
			for j := 0; j < k; j++ {
				ops = append(ops, fmt.Sprintf("R,%x,0,%x", j, sizes[j]))
			}
			seq(c28HeapBase(r), 1, 65536, ops)
		case mode < 24 && mode >= 23: // whole blocks: every allocation filled up to its block size (slack included), churn, read back
			k := 3 + r.Intn(4)
			var ops []string
			blocks := make([]int, k)
			for j := 0; j < k; j++ {
				sz := 1 + r.Intn(200)
				b := 8
				for b < sz {
					b <<= 1
				}
				blocks[j] = b
				ops = append(ops, "a,"+vu.X(uint64(sz)))
			}
			for j := 0; j < k; j++ {
				ops = append(ops, fmt.Sprintf("W,%x,0,%x,%x", j, blocks[j], r.Intn(256)))
			}
			ops = append(ops, c28Ops(r, 4+r.Intn(8), 35)...)
			for j := 0; j < k; j++ {
				ops = append(ops, fmt.Sprintf("R,%x,0,%x", j, blocks[j]))
			}
			sqr(c28HeapBase(r), 1, 65536, ops)
		case mode < 22: // exact tiling of the first page(s), reuse of the block that ends at the end of memory
			hb := uint32(r.Intn(4)) * 8
			ops := c28ExactFit(hb)
			ops = append(ops, c28Ops(r, 5+r.Intn(10), 40)...)
			seq(hb, 1, []uint32{1, 2, 3, 65536}[r.Intn(4)], ops)
		default: // a memory object whose own maximum is above 65536 pages: only the allocator's arithmetic stops at 4 GiB
			pages := []uint32{32768, 32769, 40000, 50000, 65535, 65536}[r.Intn(6)]
			max := []uint32{65537, 131072, 0xffffffff}[r.Intn(3)]
			hb := uint32(uint64(pages)*c28Page - uint64(r.Intn(5))*8)
			if pages == 65536 || r.Chance(1, 4) {
				hb = uint32(uint64(pages)*c28Page - uint64(1+r.Intn(40))*33554440)
			}
			var ops []string
			for k := 0; k < 6+r.Intn(10); k++ {
				switch r.Intn(8) {
				case 0:
					ops = append(ops, "a,2000000")
				case 1:
					ops = append(ops, "a,"+vu.X(uint64(1)<<uint(10+r.Intn(15))))
				case 2:
					if len(ops) > 0 {
						ops = append(ops, fmt.Sprintf("f,%x,0", r.Intn(len(ops))))
					} else {
						ops = append(ops, "a,8")
					}
				case 3:
					if r.Chance(1, 4) {
						ops = append(ops, "g,"+vu.X(uint64(r.Intn(3))))
					} else {
						ops = append(ops, "a,"+vu.X(uint64(c28Size(r))))
					}
				default:
					ops = append(ops, "a,"+vu.X(uint64(r.Intn(70000))))
				}
			}
			seq(hb, pages, max, ops)
		}
	}
}

func TestVerifC28(t *testing.T) { vu.Run(t, "C28", 3000, c28Gen, c28Run) }
