// C28 third harness (thorough tier): exhaustive small scope. Every sequence of c28ExhLen
// operations over a fixed alphabet (allocations of orders 0, 1, 2 and one that is too large;
// frees of the first two operations' pointers, exact, at -4 (unaligned), +8 and +16; guest stores
// that can forge a header; loads; memory.grow) for heap bases 0 and 1, 0 or 1 initial pages
// and page maxima 1 and 16. Input and observed grammar: see harness_test.go (keyword `seq`).
package allocator_test

import (
	"fmt"
	"strings"
	"testing"

	vu "github.com/ChainSafe/gossamer/internal/verifutil"
)

var c28ExhAlphabet = []string{
	"a,1", "a,9", "a,11", "a,2000001",
	"f,0,0", "f,1,0", "f,1,-4", "f,0,8", "f,0,10",
	"w,0,4,1", "w,0,0,3", "r,0,0", "g,1",
}

const c28ExhLen = 4

func c28GenExhaustive(_ *vu.RNG, n int, emit func(string)) {
	count := 0
	for _, hb := range []int{0, 1} {
		for _, pages := range []int{0, 1} {
			for _, max := range []int{1, 16} {
				cfg := fmt.Sprintf("seq %x %x %x", hb, pages, max)
				var seqs func(prefix []string)
				seqs = func(prefix []string) {
					if count >= n {
						return
					}
					if len(prefix) == c28ExhLen {
						emit(cfg + " " + strings.Join(prefix, " "))
						count++
						return
					}
					for _, op := range c28ExhAlphabet {
						seqs(append(append([]string{}, prefix...), op))
					}
				}
				seqs(nil)
			}
		}
	}
}

func TestVerifC28Exhaustive(t *testing.T) {
	vu.Run(t, "C28", 300000, c28GenExhaustive, c28Run)
}
