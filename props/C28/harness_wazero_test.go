// C28 second harness (thorough tier): the same call sequences as harness_test.go, but on a real
// linear memory of the wazero runtime (the ChainSafe fork gossamer runs its runtimes on), to tie
// the fake memory of the main harness — and with it the memory model of coq/C28/Model.v — to the
// real runtime.Memory: Size in whole pages, Grow by exactly n pages or failure at the maximum,
// ReadUint64Le / WriteUint64Le in range iff offset+8 <= Size, fresh and grown pages zeroed.
// Inputs use small memories (<= 1024 pages) because the memory is really allocated; no `S` op.
// Input and observed grammar: see harness_test.go (keyword `seq`).
package allocator_test

import (
	"context"
	"fmt"
	"strings"
	"testing"

	vu "github.com/ChainSafe/gossamer/internal/verifutil"
	"github.com/ChainSafe/gossamer/lib/runtime/allocator"
	"github.com/tetratelabs/wazero"
)

func c28Leb(v uint32) []byte {
	var out []byte
	for {
		b := byte(v & 0x7f)
		v >>= 7
		if v != 0 {
			out = append(out, b|0x80)
		} else {
			return append(out, b)
		}
	}
}

// a module that only defines and exports a memory with the given limits
func c28MemoryModule(min, max uint32) []byte {
	limits := append([]byte{0x01}, c28Leb(min)...)
	limits = append(limits, c28Leb(max)...)
	memSec := append([]byte{0x01}, limits...)
	bin := []byte{0x00, 0x61, 0x73, 0x6d, 0x01, 0x00, 0x00, 0x00}
	bin = append(bin, 0x05, byte(len(memSec)))
	bin = append(bin, memSec...)
	exp := []byte{0x01, 0x06, 'm', 'e', 'm', 'o', 'r', 'y', 0x02, 0x00}
	bin = append(bin, 0x07, byte(len(exp)))
	bin = append(bin, exp...)
	return bin
}

func c28RunWazero(in string) string {
	f := strings.Split(in, " ")
	if len(f) < 4 || f[0] != "seq" {
		return "err:badinput"
	}
	ctx := context.Background()
	rt := wazero.NewRuntimeWithConfig(ctx, wazero.NewRuntimeConfigInterpreter())
	defer rt.Close(ctx)
	mod, err := rt.Instantiate(ctx, c28MemoryModule(uint32(vu.UnX(f[2])), uint32(vu.UnX(f[3]))))
	if err != nil {
		return "err:instantiate " + err.Error()
	}
	mem := mod.Memory()
	heap := allocator.NewFreeingBumpHeapAllocator(uint32(vu.UnX(f[1])))
	ops := f[4:]
	ptrs := make([]uint32, len(ops))
	var live []c28Live
	out := make([]string, 0, len(ops))
	free := func(p uint32) string {
		if err := heap.Deallocate(mem, p); err != nil {
			return "e:" + c28ErrClass(err)
		}
		isLive := false
		for _, l := range live {
			if l.ptr == p {
				isLive = true
			}
		}
		if isLive {
			nl := live[:0:0]
			for _, l := range live {
				if l.ptr != p {
					nl = append(nl, l)
				}
			}
			live = nl
		}
		return "ok"
	}
	for i, o := range ops {
		a := strings.Split(o, ",")
		var res string
		switch a[0] {
		case "a":
			size := uint32(vu.UnX(a[1]))
			p, err := heap.Allocate(mem, size)
			if err != nil {
				res = "e:" + c28ErrClass(err)
			} else {
				res = "p" + vu.X(uint64(p))
				ptrs[i] = p
				live = append([]c28Live{{p, size}}, live...)
			}
		case "f":
			idx := int(vu.UnX(a[1]))
			var base uint32
			if idx < i {
				base = ptrs[idx]
			}
			res = free(base + uint32(vu.UnXI(a[2])))
		case "F":
			res = free(uint32(vu.UnX(a[1])))
		case "w", "r":
			idx := int(vu.UnX(a[1]))
			var base uint32
			if idx < i {
				base = ptrs[idx]
			}
			addr := base + uint32(vu.UnX(a[2]))
			if !c28InLive(live, uint64(addr)) {
				res = "skip"
			} else if a[0] == "w" {
				if !mem.WriteByte(addr, byte(vu.UnX(a[3]))) {
					return "err:guest-store-out-of-memory"
				}
				res = "ok"
			} else {
				b, ok := mem.ReadByte(addr)
				if !ok {
					return "err:guest-load-out-of-memory"
				}
				res = "v" + vu.X(uint64(b))
			}
		case "g":
			if _, ok := mem.Grow(uint32(vu.UnX(a[1]))); ok {
				res = "ok"
			} else {
				res = "e:grow"
			}
		default:
			return "err:badop"
		}
		out = append(out, res+","+vu.X(mem.Size()/c28Page))
	}
	if len(out) == 0 {
		return "-"
	}
	return strings.Join(out, " ")
}

func c28GenWazero(r *vu.RNG, n int, emit func(string)) {
	size := func() uint32 {
		switch r.Intn(6) {
		case 0:
			return uint32(r.Intn(41))
		case 1, 2:
			k := uint(r.Intn(17))
			return uint32(int64(1)<<k) + uint32(r.Intn(3)) - 1
		case 3:
			return uint32(r.Intn(300000))
		case 4:
			return []uint32{33554432, 33554433, 0xffffffff}[r.Intn(3)] // too large for these memories
		default:
			return uint32(r.Intn(300))
		}
	}
	for i := 0; i < n; i++ {
		pages := uint32(r.Intn(4))
		max := []uint32{1, 2, 4, 16, 64, 1024}[r.Intn(6)]
		if max < pages {
			max = pages
		}
		hb := uint32([]int{0, 1, 7, 8, 65527, 65528, 65535, 65536, 70000}[r.Intn(9)])
		l := 15 + r.Intn(30)
		ops := make([]string, 0, l)
		var allocs []int
		for len(ops) < l {
			j := len(ops)
			c := r.Intn(100)
			switch {
			case c < 35 || len(allocs) == 0:
				ops = append(ops, "a,"+vu.X(uint64(size())))
				allocs = append(allocs, j)
			case c < 55:
				ops = append(ops, fmt.Sprintf("f,%x,0", allocs[r.Intn(len(allocs))]))
			case c < 60:
				ops = append(ops, fmt.Sprintf("f,%x,%s", allocs[r.Intn(len(allocs))], vu.XI(c28Delta(r))))
			case c < 62:
				ops = append(ops, "F,"+vu.X(uint64([]uint32{0, 8, 16, 65528, 65536, 131072, 0xfffffff8}[r.Intn(7)])))
			case c < 78:
				ops = append(ops, fmt.Sprintf("w,%x,%x,%x", allocs[r.Intn(len(allocs))], r.Intn(40), 1+r.Intn(255)))
			case c < 94:
				ops = append(ops, fmt.Sprintf("r,%x,%x", allocs[r.Intn(len(allocs))], r.Intn(40)))
			default:
				ops = append(ops, "g,"+vu.X(uint64(r.Intn(3))))
			}
		}
		emit(fmt.Sprintf("seq %x %x %x %s", hb, pages, max, strings.Join(ops, " ")))
	}
}

func TestVerifC28Wazero(t *testing.T) { vu.Run(t, "C28", 2000, c28GenWazero, c28RunWazero) }
