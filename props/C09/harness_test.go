// C09 correspondence harness (injected into package lib/runtime/wazero by `go test -overlay`).
//
// inputs  (fields separated by one space, byte strings in hex, "-" = empty):
//   append <current value> <item>     the key holds <current value> (Put, also when empty)
//   absent <item>                     the key was never written
//   twice <current value> <item1> <item2>   two appends in a row (second starts from the first's result)
// observables:
//   <stored value after storageAppend, hex> | err:<where> | panic
//
// The storage is a real storage.TrieState over an empty in-memory trie; half of the cases (chosen
// by the parity of the item length, so that run stays a pure function of the input) run inside
// a storage transaction, as block execution does.
package wazero_runtime

import (
	"encoding/binary"
	"math/big"
	"strings"
	"testing"

	vu "github.com/ChainSafe/gossamer/internal/verifutil"
	"github.com/ChainSafe/gossamer/lib/runtime/storage"
	inmemory_trie "github.com/ChainSafe/gossamer/pkg/trie/inmemory"
)

var c09Key = []byte(":c09:list")

// canonical Compact<u32>/big compact encoding written independently of pkg/scale
func c09Compact(n *big.Int) []byte {
	switch {
	case n.BitLen() <= 6:
		return []byte{byte(n.Uint64() << 2)}
	case n.BitLen() <= 14:
		b := make([]byte, 2)
		binary.LittleEndian.PutUint16(b, uint16(n.Uint64()<<2)|1)
		return b
	case n.BitLen() <= 30:
		b := make([]byte, 4)
		binary.LittleEndian.PutUint32(b, uint32(n.Uint64()<<2)|2)
		return b
	}
	be := n.Bytes()
	out := []byte{byte((len(be)-4)<<2) | 3}
	for i := len(be) - 1; i >= 0; i-- {
		out = append(out, be[i])
	}
	return out
}

// encoding of n in a chosen mode/width without minimality (mode 3: w payload bytes, 4<=w<=67)
func c09Forced(n *big.Int, mode int, w int) []byte {
	switch mode {
	case 0:
		return []byte{byte(n.Uint64() << 2)}
	case 1:
		b := make([]byte, 2)
		binary.LittleEndian.PutUint16(b, uint16(n.Uint64()<<2)|1)
		return b
	case 2:
		b := make([]byte, 4)
		binary.LittleEndian.PutUint32(b, uint32(n.Uint64()<<2)|2)
		return b
	}
	be := n.Bytes()
	out := make([]byte, 1+w)
	out[0] = byte((w-4)<<2) | 3
	for i := 0; i < len(be) && i < w; i++ {
		out[1+i] = be[len(be)-1-i]
	}
	return out
}

var c09Boundaries = func() []*big.Int {
	var l []*big.Int
	add := func(v *big.Int) {
		if v.Sign() >= 0 {
			l = append(l, v)
		}
	}
	for _, k := range []uint{0, 6, 8, 14, 16, 24, 30, 31, 32, 33, 40, 64, 128, 8 * 66, 8 * 67} {
		for d := int64(-2); d <= 1; d++ {
			v := new(big.Int).Lsh(big.NewInt(1), k)
			add(v.Add(v, big.NewInt(d)))
		}
	}
	return l
}()

func c09Len(r *vu.RNG) *big.Int {
	switch r.Intn(4) {
	case 0:
		return new(big.Int).Set(c09Boundaries[r.Intn(len(c09Boundaries))])
	case 1:
		return big.NewInt(int64(r.Intn(70)))
	case 2:
		return new(big.Int).SetBytes(r.Bytes(1 + r.Intn(4)))
	default:
		return new(big.Int).SetBytes(r.Bytes(1 + r.Intn(67)))
	}
}

func c09Payload(r *vu.RNG) []byte {
	if r.Chance(1, 4) {
		return nil
	}
	return r.Bytes(r.Intn(12))
}

func c09Value(r *vu.RNG) []byte {
	n := c09Len(r)
	switch r.Intn(8) {
	case 0, 1, 2: // canonical prefix + payload
		return append(c09Compact(n), c09Payload(r)...)
	case 3: // a mode too wide for the value (non-canonical)
		mode := r.Intn(4)
		w := 4 + r.Intn(64)
		if r.Chance(1, 2) {
			w = 4 + r.Intn(3)
		}
		switch {
		case mode == 0 && n.BitLen() > 6, mode == 1 && n.BitLen() > 14, mode == 2 && n.BitLen() > 30:
			mode = 3
		}
		if mode == 3 && len(n.Bytes()) > w {
			w = len(n.Bytes())
		}
		return append(c09Forced(n, mode, w), c09Payload(r)...)
	case 4: // truncated prefix (canonical or not)
		var p []byte
		if r.Chance(1, 2) {
			p = c09Compact(n)
		} else {
			p = c09Forced(n, 3, 4+r.Intn(8))
			if len(n.Bytes()) > len(p)-1 {
				p = c09Compact(n)
			}
		}
		if r.Chance(1, 3) { // force the high bytes to be non-zero so that the zero-filled read is large
			for i := 1; i < len(p); i++ {
				p[i] |= 0x80
			}
		}
		return p[:r.Intn(len(p)+1)]
	case 5: // prefix only
		return c09Compact(n)
	case 6: // random bytes
		return r.Bytes(r.Intn(10))
	default: // first byte chosen, rest random
		b := r.Bytes(1 + r.Intn(8))
		b[0] = byte(r.Intn(4)) | byte(r.Intn(3)<<2)
		return b
	}
}

func c09Gen(r *vu.RNG, n int, emit func(string)) {
	item := []byte{0xaa}
	// every boundary length, canonical, with and without payload
	for _, v := range c09Boundaries {
		emit("append " + vu.Hex(c09Compact(v)) + " " + vu.Hex(item))
		emit("append " + vu.Hex(append(c09Compact(v), 1, 2, 3)) + " " + vu.Hex(item))
	}
	emit("absent aa")
	emit("absent -")
	emit("append - aa")
	emit("append - -")
	// exhaustive one-byte values; two-byte values: all in the thorough tier, a stride sample otherwise
	for a := 0; a < 256; a++ {
		emit("append " + vu.Hex([]byte{byte(a)}) + " aa")
	}
	stride := 37
	if vu.Thorough() {
		stride = 1
	}
	for x := int(r.Intn(stride)); x < 65536; x += stride {
		emit("append " + vu.Hex([]byte{byte(x >> 8), byte(x)}) + " bb")
	}
	for i := 0; i < n; i++ {
		it := r.Bytes(r.Intn(6))
		switch r.Intn(10) {
		case 0:
			emit("twice " + vu.Hex(c09Value(r)) + " " + vu.Hex(it) + " " + vu.Hex(r.Bytes(r.Intn(4))))
		default:
			emit("append " + vu.Hex(c09Value(r)) + " " + vu.Hex(it))
		}
	}
}

func c09Append(ts *storage.TrieState, item []byte) string {
	if err := storageAppend(ts, c09Key, item); err != nil {
		return "err:append"
	}
	return ""
}

func c09Run(in string) string {
	f := strings.Split(in, " ")
	ts := storage.NewTrieState(inmemory_trie.NewEmptyTrie())
	var items [][]byte
	switch f[0] {
	case "append", "twice":
		if err := ts.Put(c09Key, vu.UnHex(f[1])); err != nil {
			return "err:put"
		}
		for _, x := range f[2:] {
			items = append(items, vu.UnHex(x))
		}
	case "absent":
		items = append(items, vu.UnHex(f[1]))
	default:
		return "err:badinput"
	}
	inTx := len(items[0])%2 == 1
	if inTx {
		ts.StartTransaction()
	}
	for _, it := range items {
		if e := c09Append(ts, it); e != "" {
			return e
		}
	}
	if inTx {
		ts.CommitTransaction()
	}
	return vu.Hex(ts.Get(c09Key))
}

func TestVerifC09(t *testing.T) { vu.Run(t, "C09", 5000, c09Gen, c09Run) }
