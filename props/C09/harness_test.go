// C09 correspondence harness (injected into package lib/runtime/wazero by `go test -overlay`).
//
// inputs  (fields separated by one space, byte strings in hex, "-" = empty):
//   append <current value> <item>     the key holds <current value> (Put, also when empty)
//   absent <item>                     the key was never written
//   twice <current value> <item1> <item2>   two appends in a row (second starts from the first's result)
//   host <memsize> <base> <blob> <keyspan> <valuespan> <current value|absent>
//        the real host function ext_storage_append_version_1 called with a wazero module that only
//        exports one page of memory (all zero except <blob> written at offset <base>); the spans are
//        ptr | size<<32 (hex numbers) and may overlap, be empty, or lie outside the memory. The key
//        the harness stores <current value> under is cut out of <blob> by the harness itself; when the
//        key is not empty a bystander entry 3a6f74686572 ("other") = 0411 is stored first.
//   dec <bytes>                       scale.Unmarshal(bytes, &bigIntPointer) — the length parser alone
// observables:
//   append/absent/twice: <stored value after storageAppend, hex> | err:<where> | panic
//   host: [panic ]<key>=<value>,... mem=<1 iff the guest memory is unchanged>   (all storage entries,
//         sorted by key; "()" if none)
//   dec:  ok:<big-endian magnitude, hex> | err
//
// The storage is a real storage.TrieState over an empty in-memory trie; half of the cases (chosen
// by the parity of the item length, so that run stays a pure function of the input) run inside
// a storage transaction, as block execution does.
package wazero_runtime

import (
	"bytes"
	"context"
	"encoding/binary"
	"fmt"
	"math/big"
	"sort"
	"strings"
	"sync"
	"testing"

	vu "github.com/ChainSafe/gossamer/internal/verifutil"
	"github.com/ChainSafe/gossamer/lib/runtime"
	"github.com/ChainSafe/gossamer/lib/runtime/storage"
	inmemory_trie "github.com/ChainSafe/gossamer/pkg/trie/inmemory"
	"github.com/ChainSafe/gossamer/pkg/scale"
	"github.com/tetratelabs/wazero"
	"github.com/tetratelabs/wazero/api"
)

var c09Key = []byte(":c09:list")

// canonical Compact<u32>/big compact encoding written independently of pkg/scale
func c09Compact(n *big.Int) []byte {
	switch {
	case n.BitLen() <= 6:
		return []byte{byte(n.Uint64() << 2)}
	case n.BitLen() <= 14:
		b := make([]byte, 2)
		binary.LittleEndian.PutUint16(b, uint16(n.Uint64()<<2)|1)
		return b
	case n.BitLen() <= 30:
		b := make([]byte, 4)
		binary.LittleEndian.PutUint32(b, uint32(n.Uint64()<<2)|2)
		return b
	}
	be := n.Bytes()
	out := []byte{byte((len(be)-4)<<2) | 3}
	for i := len(be) - 1; i >= 0; i-- {
		out = append(out, be[i])
	}
	return out
}

// encoding of n in a chosen mode/width without minimality (mode 3: w payload bytes, 4<=w<=67)
func c09Forced(n *big.Int, mode int, w int) []byte {
	switch mode {
	case 0:
		return []byte{byte(n.Uint64() << 2)}
	case 1:
		b := make([]byte, 2)
		binary.LittleEndian.PutUint16(b, uint16(n.Uint64()<<2)|1)
		return b
	case 2:
		b := make([]byte, 4)
		binary.LittleEndian.PutUint32(b, uint32(n.Uint64()<<2)|2)
		return b
	}
	be := n.Bytes()
	out := make([]byte, 1+w)
	out[0] = byte((w-4)<<2) | 3
	for i := 0; i < len(be) && i < w; i++ {
		out[1+i] = be[len(be)-1-i]
	}
	return out
}

var c09Boundaries = func() []*big.Int {
	var l []*big.Int
	add := func(v *big.Int) {
		if v.Sign() >= 0 {
			l = append(l, v)
		}
	}
	for _, k := range []uint{0, 6, 8, 14, 16, 24, 30, 31, 32, 33, 40, 64, 128, 8 * 66, 8 * 67} {
		for d := int64(-2); d <= 1; d++ {
			v := new(big.Int).Lsh(big.NewInt(1), k)
			add(v.Add(v, big.NewInt(d)))
		}
	}
	return l
}()

func c09Len(r *vu.RNG) *big.Int {
	switch r.Intn(4) {
	case 0:
		return new(big.Int).Set(c09Boundaries[r.Intn(len(c09Boundaries))])
	case 1:
		return big.NewInt(int64(r.Intn(70)))
	case 2:
		return new(big.Int).SetBytes(r.Bytes(1 + r.Intn(4)))
	default:
		return new(big.Int).SetBytes(r.Bytes(1 + r.Intn(67)))
	}
}

func c09Payload(r *vu.RNG) []byte {
	if r.Chance(1, 4) {
		return nil
	}
	return r.Bytes(r.Intn(12))
}

func c09Value(r *vu.RNG) []byte {
	n := c09Len(r)
	switch r.Intn(8) {
	case 0, 1, 2: // canonical prefix + payload
		return append(c09Compact(n), c09Payload(r)...)
	case 3: // a mode too wide for the value (non-canonical)
		mode := r.Intn(4)
		w := 4 + r.Intn(64)
		if r.Chance(1, 2) {
			w = 4 + r.Intn(3)
		}
		switch {
		case mode == 0 && n.BitLen() > 6, mode == 1 && n.BitLen() > 14, mode == 2 && n.BitLen() > 30:
			mode = 3
		}
		if mode == 3 && len(n.Bytes()) > w {
			w = len(n.Bytes())
		}
		return append(c09Forced(n, mode, w), c09Payload(r)...)
	case 4: // truncated prefix (canonical or not)
		var p []byte
		if r.Chance(1, 2) {
			p = c09Compact(n)
		} else {
			p = c09Forced(n, 3, 4+r.Intn(8))
			if len(n.Bytes()) > len(p)-1 {
				p = c09Compact(n)
			}
		}
		if r.Chance(1, 3) { // force the high bytes to be non-zero so that the zero-filled read is large
			for i := 1; i < len(p); i++ {
				p[i] |= 0x80
			}
		}
		return p[:r.Intn(len(p)+1)]
	case 5: // prefix only
		return c09Compact(n)
	case 6: // random bytes
		return r.Bytes(r.Intn(10))
	default: // first byte chosen, rest random
		b := r.Bytes(1 + r.Intn(8))
		b[0] = byte(r.Intn(4)) | byte(r.Intn(3)<<2)
		return b
	}
}

func c09Gen(r *vu.RNG, n int, emit func(string)) {
	// verifutil.NewRNG(seed) starts at seed*golden+c and U64 advances by golden, so the streams of seed s and
	// s+1 are the same stream shifted by one draw; re-seeding from a mixed output decorrelates the seeds
	r = r.Fork()
	item := []byte{0xaa}
	// every boundary length, canonical, with and without payload
	for _, v := range c09Boundaries {
		emit("append " + vu.Hex(c09Compact(v)) + " " + vu.Hex(item))
		emit("append " + vu.Hex(append(c09Compact(v), 1, 2, 3)) + " " + vu.Hex(item))
	}
	emit("absent aa")
	emit("absent -")
	emit("append - aa")
	emit("append - -")
	// exhaustive one-byte values; two-byte values: all in the thorough tier, a stride sample otherwise
	for a := 0; a < 256; a++ {
		emit("append " + vu.Hex([]byte{byte(a)}) + " aa")
	}
	stride := 37
	if vu.Thorough() {
		stride = 1
	}
	for x := int(r.Intn(stride)); x < 65536; x += stride {
		emit("append " + vu.Hex([]byte{byte(x >> 8), byte(x)}) + " bb")
	}
	for i := 0; i < n; i++ {
		it := r.Bytes(r.Intn(6))
		switch r.Intn(10) {
		case 0:
			emit("twice " + vu.Hex(c09Value(r)) + " " + vu.Hex(it) + " " + vu.Hex(r.Bytes(r.Intn(4))))
		default:
			emit("append " + vu.Hex(c09Value(r)) + " " + vu.Hex(it))
		}
	}
	// the host function with its memory marshalling
	for _, s := range c09HostFixed {
		emit(s)
	}
	for i := 0; i < n/3; i++ {
		emit(c09GenHost(r))
	}
	// the length parser alone: every boundary, canonical and not, truncated, random
	for _, v := range c09Boundaries {
		emit("dec " + vu.Hex(c09Compact(v)))
		emit("dec " + vu.Hex(append(c09Compact(v), 0)))
	}
	// every boundary length in every mode that is wider than its canonical one (non-canonical), for
	// the parser and for the append
	for _, v := range c09Boundaries {
		for mode := 1; mode <= 3; mode++ {
			if (mode == 1 && v.BitLen() > 14) || (mode == 2 && v.BitLen() > 30) {
				continue
			}
			w := len(v.Bytes())
			if w < 4 {
				w = 4
			}
			enc := c09Forced(v, mode, w)
			if bytes.Equal(enc, c09Compact(v)) {
				if mode != 3 || w >= 67 {
					continue
				}
				enc = c09Forced(v, mode, w+1) // one zero byte too many
			}
			emit("dec " + vu.Hex(enc))
			emit("append " + vu.Hex(append(append([]byte{}, enc...), 1, 2)) + " aa")
		}
	}
	for i := 0; i < n/8; i++ {
		emit("dec " + vu.Hex(c09Value(r)))
	}
}

// ---- host function cases ----

// (module (memory (export "memory") 1))
var c09Wasm = []byte{
	0x00, 0x61, 0x73, 0x6d, 0x01, 0x00, 0x00, 0x00,
	0x05, 0x03, 0x01, 0x00, 0x01,
	0x07, 0x0a, 0x01, 0x06, 'm', 'e', 'm', 'o', 'r', 'y', 0x02, 0x00,
}

const c09MemSize = 65536

var (
	c09Once sync.Once
	c09Mod  api.Module
	c09Err  error
)

func c09Module() (api.Module, error) {
	c09Once.Do(func() {
		ctx := context.Background()
		rt := wazero.NewRuntime(ctx)
		c09Mod, c09Err = rt.Instantiate(ctx, c09Wasm)
	})
	return c09Mod, c09Err
}

var c09Other = []byte(":other")

func c09Span(ptr, size uint64) string { return vu.X(ptr | size<<32) }

var c09HostFixed = []string{
	// key "ab" at 16, item "cd" at 18, absent / list of one
	"host 10000 10 abcd 100000010 100000011 absent",
	"host 10000 10 abcd 100000010 100000011 04ee",
	// empty item, empty key
	"host 10000 10 abcd 100000010 12 04ee",
	"host 10000 10 abcd 10 100000011 04ee",
	// both spans identical; overlapping spans
	"host 10000 0 abcdef 200000000 200000000 fc",
	"host 10000 0 abcdef 200000000 200000001 -",
	// spans ending exactly at the end of the memory; empty span at the end
	"host 10000 fffe abcd 10000fffe 10000ffff 08aabb",
	"host 10000 fffe abcd 10000fffe 10000 absent",
	// one byte beyond the memory: key span, value span; empty span beyond; huge size; huge pointer
	"host 10000 fffe abcd 20000ffff 10000fffe 04ee",
	"host 10000 fffe abcd 10000fffe 20000ffff 04ee",
	"host 10000 fffe abcd 10000fffe 10001 04ee",
	"host 10000 0 abcd 100000000 ffffffff00000001 04ee",
	"host 10000 0 abcd 100000000 1ffffffff 04ee",
	"host 10000 0 abcd ffffffff00000000 100000001 absent",
}

func c09GenHost(r *vu.RNG) string {
	var blob []byte
	var ko, ks, vo, vs int // offsets and sizes inside blob
	switch r.Intn(5) {
	case 0: // key then item, adjacent
		ks, vs = r.Intn(6), r.Intn(8)
		blob = r.Bytes(ks + vs)
		ko, vo = 0, ks
	case 1: // item, gap, key
		ks, vs = 1+r.Intn(5), r.Intn(8)
		gap := r.Intn(4)
		blob = r.Bytes(vs + gap + ks)
		vo, ko = 0, vs+gap
	case 2: // arbitrary, possibly overlapping
		blob = r.Bytes(1 + r.Intn(12))
		ko = r.Intn(len(blob) + 1)
		ks = r.Intn(len(blob) - ko + 1)
		vo = r.Intn(len(blob) + 1)
		vs = r.Intn(len(blob) - vo + 1)
	case 3: // identical spans
		blob = r.Bytes(1 + r.Intn(6))
		ko, ks = 0, len(blob)
		vo, vs = 0, len(blob)
	default: // item reaches beyond the blob into the zero memory (not at the end of the memory)
		ks = 1 + r.Intn(4)
		blob = r.Bytes(ks + r.Intn(4))
		ko = 0
		vo, vs = ks, len(blob)-ks+1+r.Intn(3)
	}
	base := []int{0, 1, 16, 1000, 40000, c09MemSize - len(blob)}[r.Intn(6)]
	if vo+vs > len(blob) && base+vo+vs > c09MemSize {
		base = 16
	}
	kp, kn := uint64(base+ko), uint64(ks)
	vp, vn := uint64(base+vo), uint64(vs)
	if r.Chance(1, 8) { // out of range (or just in range) on one of the spans
		var p, n uint64
		switch r.Intn(7) {
		case 0:
			p, n = c09MemSize, 1
		case 1:
			p, n = c09MemSize-1, 2
		case 2:
			p, n = c09MemSize, 0 // valid: empty span at the very end
		case 3:
			p, n = c09MemSize+1, 0
		case 4:
			p, n = uint64(base), 0xffffffff
		case 5:
			p, n = 0xffffffff, 1
		default:
			p, n = uint64(r.Intn(c09MemSize)), uint64(c09MemSize-r.Intn(3))
		}
		if r.Chance(1, 2) {
			kp, kn = p, n
		} else {
			vp, vn = p, n
		}
	}
	cur := "absent"
	if !r.Chance(1, 5) {
		cur = vu.Hex(c09Value(r))
	}
	return fmt.Sprintf("host %s %s %s %s %s %s", vu.X(c09MemSize), vu.X(uint64(base)), vu.Hex(blob),
		c09Span(kp, kn), c09Span(vp, vn), cur)
}

func c09Entries(ts *storage.TrieState) string {
	ents := ts.TrieEntries()
	keys := make([]string, 0, len(ents))
	for k := range ents {
		keys = append(keys, k)
	}
	sort.Strings(keys)
	if len(keys) == 0 {
		return "()"
	}
	parts := make([]string, len(keys))
	for i, k := range keys {
		parts[i] = vu.Hex([]byte(k)) + "=" + vu.Hex(ents[k])
	}
	return strings.Join(parts, ",")
}

func c09RunHost(f []string) (out string) {
	if len(f) != 7 {
		return "err:badinput"
	}
	m, err := c09Module()
	if err != nil {
		return "err:module"
	}
	mem := m.Memory()
	if uint64(mem.Size()) != vu.UnX(f[1]) {
		return "err:memsize"
	}
	base, blob := uint32(vu.UnX(f[2])), vu.UnHex(f[3])
	kspan, vspan := vu.UnX(f[4]), vu.UnX(f[5])
	image := make([]byte, c09MemSize)
	if int(base)+len(blob) > c09MemSize {
		return "err:badinput"
	}
	copy(image[base:], blob)
	if !mem.Write(0, image) {
		return "err:memwrite"
	}
	ts := storage.NewTrieState(inmemory_trie.NewEmptyTrie())
	// the key as the harness cuts it out of the image (nil when the span is out of range)
	kp, kn := kspan&0xffffffff, kspan>>32
	if kp+kn <= c09MemSize {
		key := append([]byte{}, image[kp:kp+kn]...)
		if len(key) > 0 {
			if err := ts.Put(c09Other, []byte{0x04, 0x11}); err != nil {
				return "err:put"
			}
		}
		if f[6] != "absent" {
			if err := ts.Put(key, vu.UnHex(f[6])); err != nil {
				return "err:put"
			}
		}
	}
	inTx := len(blob)%2 == 1
	if inTx {
		ts.StartTransaction()
	}
	finish := func(prefix string) string {
		if inTx {
			ts.CommitTransaction()
		}
		after, ok := mem.Read(0, c09MemSize)
		same := ok && bytes.Equal(after, image)
		memTok := " mem=0"
		if same {
			memTok = " mem=1"
		}
		return prefix + c09Entries(ts) + memTok
	}
	defer func() {
		if p := recover(); p != nil {
			out = finish("panic ")
		}
	}()
	rtCtx := &runtime.Context{Storage: ts}
	ctx := context.WithValue(context.Background(), runtimeContextKey, rtCtx)
	ext_storage_append_version_1(ctx, m, kspan, vspan)
	return finish("")
}

func c09RunDec(f []string) string {
	if len(f) != 2 {
		return "err:badinput"
	}
	var x *big.Int
	if err := scale.Unmarshal(vu.UnHex(f[1]), &x); err != nil {
		return "err"
	}
	if x == nil {
		return "err:nil"
	}
	return "ok:" + vu.Hex(x.Bytes())
}

func c09Append(ts *storage.TrieState, item []byte) string {
	if err := storageAppend(ts, c09Key, item); err != nil {
		return "err:append"
	}
	return ""
}

func c09Run(in string) string {
	f := strings.Split(in, " ")
	switch f[0] {
	case "host":
		return c09RunHost(f)
	case "dec":
		return c09RunDec(f)
	}
	ts := storage.NewTrieState(inmemory_trie.NewEmptyTrie())
	var items [][]byte
	switch f[0] {
	case "append", "twice":
		if err := ts.Put(c09Key, vu.UnHex(f[1])); err != nil {
			return "err:put"
		}
		for _, x := range f[2:] {
			items = append(items, vu.UnHex(x))
		}
	case "absent":
		items = append(items, vu.UnHex(f[1]))
	default:
		return "err:badinput"
	}
	inTx := len(items[0])%2 == 1
	if inTx {
		ts.StartTransaction()
	}
	for _, it := range items {
		if e := c09Append(ts, it); e != "" {
			return e
		}
	}
	if inTx {
		ts.CommitTransaction()
	}
	return vu.Hex(ts.Get(c09Key))
}

func TestVerifC09(t *testing.T) { vu.Run(t, "C09", 5000, c09Gen, c09Run) }
