(* C09 driver: replays storageAppend cases on the extracted model.
   prop_ok  : the stored value equals substrate_append (the predicate of theorem C09_append)
   model_eq : the stored value equals go_append (the model of the repaired storageAppend).
   On a property failure the detail says whether the pre-fix model (go_append_prefix, with the
   zero-filling or the strict reader) reproduces the observed value. *)
open Model
open Vutil

let show = function
  | Ok v -> hex_of_bytes v
  | Panic -> "panic"
  | Err _ -> "err"
  | OutOfFuel -> "fuel"

(* fold a list of items through an append function returning outcome *)
let rec fold_out f cur = function
  | [] -> Ok cur
  | it :: rest -> (match f cur it with Ok v -> fold_out f v rest | o -> o)

let classify cur =
  match cur with
  | [] -> "empty"
  | b :: _ ->
    let mode = (int_of_byte b) land 3 in
    let m = Printf.sprintf "mode%d" mode in
    (match compact_u32_decode cur, dec_big false cur with
     | Some (n, _), _ ->
       if n = u32_max then m ^ ",canonical-u32max" else m ^ ",canonical-extend"
     | None, None -> m ^ ",undecodable"
     | None, Some n ->
       let cls =
         if dec_big true cur = None then "truncated-zero-filled"
         else if mode = 3 && (match enc_big n with h :: _ -> int_of_byte h = int_of_byte b | [] -> false)
         then "big-beyond-u32" else "noncanonical" in
       m ^ "," ^ cls)

let check inp obs =
  let f = split_ws inp in
  let cur, items, kind = (match f with
    | ["append"; c; i] -> (bytes_of_hex c, [bytes_of_hex i], "append")
    | ["absent"; i] -> ([], [bytes_of_hex i], "absent")
    | ["twice"; c; i; j] -> (bytes_of_hex c, [bytes_of_hex i; bytes_of_hex j], "twice")
    | _ -> fail "C09: bad input %s" inp) in
  let spec = show (fold_out (fun c i -> Ok (substrate_append c i)) cur items) in
  let model = show (fold_out (fun c i -> Ok (go_append false c i)) cur items) in
  let prop = (obs = spec) and eq = (obs = model) in
  let detail =
    if prop && eq then "" else begin
      let pre_z = show (fold_out (go_append_prefix false) cur items) in
      let pre_s = show (fold_out (go_append_prefix true) cur items) in
      Printf.sprintf "spec=%s model=%s prefix-model(zero-fill)=%s%s prefix-model(strict)=%s%s"
        spec model pre_z (if pre_z = obs then "[=observed]" else "")
        pre_s (if pre_s = obs then "[=observed]" else "")
    end in
  let nontrivial = (cur <> []) in
  { prop_ok = prop; model_eq = eq; nontrivial; finding = "-";
    tags = kind ^ "," ^ classify cur; detail }

let () = run_driver check
