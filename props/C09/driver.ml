(* C09 driver: replays the cases of props/C09/harness_test.go on the extracted model.
   append/absent/twice (storageAppend called directly):
     prop_ok  : the stored value equals substrate_append (the predicate of theorem C09_append_cur)
     model_eq : the stored value equals go_append_cur, the model of storageAppend over the model
                dec_big_cur of the decodeBigInt now in the tree.
     On a property failure the detail says whether the pre-fix model (go_append_prefix, with the
     zero-filling or the strict reader) reproduces the observed value.
   host (ext_storage_append_version_1 through a wazero memory):
     prop_ok  : the whole storage after the call is spec_host_append of the storage before it, with
                key and item being the bytes the spans denote (theorem C09_host); a span outside the
                memory: panic and the storage unchanged; the guest memory is never written
     model_eq : the same against host_append (the model of the host function)
   dec (scale.Unmarshal into a big.Int pointer):
     prop_ok  : dec_complete_on, the hypothesis of C09_append_any_decoder on this input
     model_eq : the answer equals dec_big_cur. *)
open Model
open Vutil

let show = function
  | Ok v -> hex_of_bytes v
  | Panic -> "panic"
  | Err _ -> "err"
  | OutOfFuel -> "fuel"

(* fold a list of items through an append function returning outcome *)
let rec fold_out f cur = function
  | [] -> Ok cur
  | it :: rest -> (match f cur it with Ok v -> fold_out f v rest | o -> o)

let classify cur =
  match cur with
  | [] -> "empty"
  | b :: _ ->
    let mode = (int_of_byte b) land 3 in
    let m = Printf.sprintf "mode%d" mode in
    (match compact_u32_decode cur, dec_big false cur with
     | Some (n, _), _ ->
       if n = u32_max then m ^ ",canonical-u32max" else m ^ ",canonical-extend"
     | None, None -> m ^ ",undecodable"
     | None, Some n ->
       let cls =
         if dec_big true cur = None then "truncated-zero-filled"
         else if mode = 3 && (match enc_big n with h :: _ -> int_of_byte h = int_of_byte b | [] -> false)
         then "big-beyond-u32" else "noncanonical" in
       m ^ "," ^ cls)

(* did the extension change the width of the length prefix? (seeded defect C09-m2) *)
let width_tag cur = if prefix_grows cur then ",prefix-grows" else ""

let str_store (s : (byte list * byte list) list) =
  (* two hex digits per byte: comparing the hex strings is comparing the keys byte-wise *)
  let l = List.map (fun (k, v) -> ((if k = [] then "" else hex_of_bytes k), hex_of_bytes k, hex_of_bytes v)) s in
  let l = List.sort (fun (a, _, _) (b, _, _) -> compare a b) l in
  if l = [] then "()" else String.concat "," (List.map (fun (_, k, v) -> k ^ "=" ^ v) l)

let other_key = bytes_of_hex "3a6f74686572"
let other_val = bytes_of_hex "0411"

(* the storage the harness prepares, following the harness's own rule *)
let host_setup memsize base blob kspan cur =
  let m = { m_size = memsize; m_base = base; m_data = blob } in
  let st0 = (match mem_read m kspan with
    | Ok key ->
      let s = if key <> [] then st_put [] other_key other_val else [] in
      (match cur with Some c -> st_put s key c | None -> s)
    | _ -> []) in
  (m, st0)

let check_host f obs =
  match f with
  | [ms; base; blob; ks; vs; cur] ->
    let memsize = n_of_hex ms and base = n_of_hex base and blob = bytes_of_hex blob in
    let kspan = n_of_hex ks and vspan = n_of_hex vs in
    let cur = if cur = "absent" then None else Some (bytes_of_hex cur) in
    let (m, st0) = host_setup memsize base blob kspan cur in
    let render st0 = function
      | Ok st -> str_store st ^ " mem=1"
      | _ -> "panic " ^ str_store st0 ^ " mem=1" in
    let model = render st0 (host_append m kspan vspan st0) in
    let spec = (match mem_read m kspan, mem_read m vspan with
      | Ok key, Ok item -> str_store (spec_host_append st0 key item) ^ " mem=1"
      | _ -> "panic " ^ str_store st0 ^ " mem=1") in
    let ovl = (match mem_read m kspan, mem_read m vspan with
      | Ok key, Ok item ->
        let kp = int_of_n (span_ptr kspan) and vp = int_of_n (span_ptr vspan) in
        let kn = List.length key and vn = List.length item in
        (if key = [] then ",host-empty-key" else "") ^ (if item = [] then ",host-empty-item" else "")
        ^ (if kn > 0 && vn > 0 && kp < vp + vn && vp < kp + kn then ",host-overlap" else "")
        ^ (if kp + kn = int_of_n memsize || vp + vn = int_of_n memsize then ",host-at-end" else "")
        ^ (match cur with None -> ",host-absent" | Some c -> "," ^ classify c)
      | Ok _, _ -> ",host-value-span-out"
      | _, _ -> ",host-key-span-out") in
    { prop_ok = (obs = spec); model_eq = (obs = model); nontrivial = true; finding = "-";
      tags = "host" ^ ovl;
      detail = (if obs = spec && obs = model then "" else Printf.sprintf "spec=%s model=%s" spec model) }
  | _ -> fail "C09: bad host input"

let check_dec d obs =
  let l = bytes_of_hex d in
  let got = (if obs = "err" then Some None
             else if String.length obs >= 3 && String.sub obs 0 3 = "ok:" then
               (let h = String.sub obs 3 (String.length obs - 3) in
                Some (Some (if h = "-" then N0 else n_of_hex h)))
             else None) in
  let model = dec_big_cur l in
  let show_o = function None -> "err" | Some n -> "ok:" ^ hex_of_bytes (n_be_bytes n) in
  (match got with
   | None -> { prop_ok = false; model_eq = false; nontrivial = true; finding = "-"; tags = "dec";
               detail = "unparsable observation " ^ obs }
   | Some g ->
     let canon = (match compact_u32_decode l with Some _ -> true | None -> false) in
     { prop_ok = dec_complete_on l g; model_eq = (obs = show_o model); nontrivial = (l <> []); finding = "-";
       tags = "dec," ^ (if canon then "dec-canonical-u32" else if model = None then "dec-rejected" else "dec-beyond-u32");
       detail = (if obs = show_o model then "" else "model=" ^ show_o model) })

let check inp obs =
  let f = split_ws inp in
  match f with
  | "host" :: rest -> check_host rest obs
  | ["dec"; d] -> check_dec d obs
  | _ ->
  let cur, items, kind = (match f with
    | ["append"; c; i] -> (bytes_of_hex c, [bytes_of_hex i], "append")
    | ["absent"; i] -> ([], [bytes_of_hex i], "absent")
    | ["twice"; c; i; j] -> (bytes_of_hex c, [bytes_of_hex i; bytes_of_hex j], "twice")
    | _ -> fail "C09: bad input %s" inp) in
  let spec = show (fold_out (fun c i -> Ok (substrate_append c i)) cur items) in
  let model = show (fold_out (fun c i -> Ok (go_append_cur c i)) cur items) in
  let prop = (obs = spec) and eq = (obs = model) in
  let detail =
    if prop && eq then "" else begin
      let pre_z = show (fold_out (go_append_prefix false) cur items) in
      let pre_s = show (fold_out (go_append_prefix true) cur items) in
      Printf.sprintf "spec=%s model=%s prefix-model(zero-fill)=%s%s prefix-model(strict)=%s%s"
        spec model pre_z (if pre_z = obs then "[=observed]" else "")
        pre_s (if pre_s = obs then "[=observed]" else "")
    end in
  let nontrivial = (cur <> []) in
  { prop_ok = prop; model_eq = eq; nontrivial; finding = "-";
    tags = kind ^ "," ^ classify cur ^ width_tag cur; detail }

(* vm_compute cross-check: the stored value / the decoded length recomputed inside Coq *)
let coq inp obs =
  match split_ws inp with
  | ["append"; c; i] when obs <> "panic" && (String.length obs < 3 || String.sub obs 0 3 <> "err") ->
    Some (Printf.sprintf "bytes_eqb (go_append_cur %s %s) %s && bytes_eqb (substrate_append %s %s) %s"
            (coq_bytes (bytes_of_hex c)) (coq_bytes (bytes_of_hex i)) (coq_bytes (bytes_of_hex obs))
            (coq_bytes (bytes_of_hex c)) (coq_bytes (bytes_of_hex i)) (coq_bytes (bytes_of_hex obs)))
  | ["dec"; d] when obs = "err" ->
    Some (Printf.sprintf "match dec_big_cur %s with None => true | Some _ => false end" (coq_bytes (bytes_of_hex d)))
  | ["dec"; d] when String.length obs >= 3 && String.sub obs 0 3 = "ok:" ->
    Some (Printf.sprintf "match dec_big_cur %s with None => false | Some n => bytes_eqb (n_be_bytes n) %s end"
            (coq_bytes (bytes_of_hex d)) (coq_bytes (bytes_of_hex (String.sub obs 3 (String.length obs - 3)))))
  | _ -> None

let () = run_driver ~coq check
