// C24 correspondence harness (injected into package lib/babe by `go test -overlay`).
//
// The block is verified through VerificationManager.VerifyBlock with stub BlockState /
// EpochState / SlotState (the parent is the genesis block; the epoch data and configuration are
// the scenario's), i.e. through getVerifierInfo -> newVerifier -> verifyAuthorshipRight, with
// real sr25519 keys, VRF proofs and seals.
//
// inputs (fields separated by one space, all numbers in hex):
//   v <allowed> <n> <c1> <c2> <epoch> <slot> <rseed> <kseed> <badkey> <shape> <tag> <idx>
//     <vrfkey> <vrftamper> <sealkey> <sealtamper> <cut> <eq>
//     allowed    ConfigData.SecondarySlots (0 primary only, 1 secondary plain, 2 secondary VRF)
//     n          number of authorities; key i is derived from (kseed, i); key n is an outsider
//     c1 c2      ConfigData.C1/C2 (threshold via CalculateThreshold)
//     rseed      seed of the 32 randomness bytes
//     badkey     index of an authority whose raw key is not a valid sr25519 key (ff: none)
//     shape      digest layout: 0 [pre seal] 1 [pre cons seal] 2 [pre] 3 [seal pre]
//                4 [pre seal cons] 5 [] 6 [cons pre seal] 7 [pre pre' seal]
//                8 [pre seal' seal] 9 [pre renv seal] 10 [pre cons seal' renv seal]
//                (seal': a seal-typed item of another engine, renv: runtime-environment-updated);
//                the final seal is a signature over the header without its LAST digest item
//     tag idx    pre-digest kind byte (1 primary, 2 secondary plain, 3 secondary VRF) and
//                claimed authority index
//     vrfkey     index of the key producing the VRF output/proof
//     vrftamper  0 none 1 flip a bit of the output 2 flip a bit of the proof 3 VRF over slot+1
//                4 over epoch+1 5 over other randomness 6 all-zero output and proof
//     sealkey    index of the key signing the seal
//     sealtamper 0 none 1 flip a bit 2 signature over another header 3 63-byte signature
//                4 schnorrkel marker bit cleared 5 empty signature 6 signature over the header
//                without ANY seal-typed item (a seal item inserted after sealing)
//     cut        pre-digest data: 0 as encoded 1 tag only 2 tag+index 3 tag+index+slot
//                4 three trailing bytes appended 5 empty; cut INSIDE a field: 6 inside the index
//                7 inside the slot 8 inside the VRF output 9 inside the VRF proof
//     eq         SlotState.CheckEquivocation: 0 returns no proof, 1 returns an error, 2 returns a
//                proof that the (mock) runtime reports successfully, 3/4 returns a proof but
//                the runtime's key ownership proof fails / is nil
//   claim <allowed> <n> <c1> <c2> <epoch> <slot> <rseed> <kseed> <me>
//     claimSlot with authority me's keypair; a produced pre-digest is put into a header, sealed
//     as BlockBuilder.buildBlockSeal does and verified as above
//   seq <epoch> <allowedA> <nA> <c1A> <c2A> <rseedA> <kseedA> <allowedB> <nB> <c1B> <c2B> <rseedB> <kseedB>
//       then per step: <op> <fork> <sfork> <tag> <idx> <slot>
//     ONE VerificationManager over two forks (parents A, B; the stub EpochState answers
//     GetEpochDataRaw/GetConfigData by the fork of the queried header) that announce different
//     data for the same epoch number. op 0: VerifyBlock of a [pre seal] block on fork <fork>
//     whose claim and seal are made with the keys/randomness of fork <sfork>; op 1: SetOnDisabled
//     (idx, that header), executed only for its effect on the manager's state.
//     The block number of the step's header is 1 + slot%3; the stub IsDescendantOf answers
//     "same fork".
//   ep <allowed> <n> <c1> <c2> <rseed> <kseed> <pg> <pe> <ce> <tag> <idx> <slot> <sd> <se> <hm>
//     the choice of the epoch whose data governs the block.  The stub EpochState announces for
//     EVERY epoch number d its own data: SecondarySlots (allowed+d)%3, keys from kseed+101*d,
//     randomness from rseed+7*d.  pg: 0 the parent is an ordinary block of epoch <pe>, 1 the
//     parent is the genesis block, 2 GetHeader(parent) fails; <ce> the block's epoch.  The author
//     built the claim with the data of epoch <sd> and the number <se> in the VRF transcript
//     (honest: sd = the data epoch, se = ce).  hm: stub failure 0 none, 1 GetEpochForBlock(block)
//     2 GetEpochForBlock(parent) 3 GetSlotDuration 4 GetEpochDataRaw 5 GetConfigData.
// observables:
//   seq   -> per step, separated by " ; ": the v observable (oracles evaluated under the data of
//            the block's own fork) or "sd:<ok|badidx|already|err>" (result of SetOnDisabled)
//   ep    -> <class> <same> q=<epoch numbers asked of GetEpochDataRaw/GetConfigData, joined by
//            +, or -> w=<the epoch the HARNESS expects to govern the block (own formula)> then
//            the v oracle fields, evaluated under the data of epoch w with <ce> in the transcript
//            further classes: noparent epoch-err pepoch-err epoch-lower slotdur info-err
//   v     -> <class> <same> pre=<hex|-> key=<b> below=<t> vrf=<t> seal=<t>
//            class: ok missing nopre noseal decode badidx over badslot badsec badsig other
//                   equiv-err equivocated thr-err
//            same : 1 when the header's digest is the same after the call as before
//            pre  : the pre-runtime digest data of the first digest item (as built)
//            the remaining fields are the verdicts of the primitives called directly for the
//            claimed authority (b: 0|1|-, t: 0|1|e|-): key validity, VRF in/out below the
//            threshold, VRF proof, seal signature over the header without its last item
//   claim -> <P|SP|SV|err:notour|err:tech|err:other> <verify class|-> below=<t> pre=<hex|->
package babe

import (
	"bytes"
	"errors"
	"fmt"
	"math/big"
	"strings"
	"testing"
	"time"

	"github.com/ChainSafe/gossamer/dot/types"
	vu "github.com/ChainSafe/gossamer/internal/verifutil"
	"github.com/ChainSafe/gossamer/lib/babe/mocks"
	"github.com/ChainSafe/gossamer/lib/common"
	"github.com/ChainSafe/gossamer/lib/crypto/sr25519"
	"github.com/ChainSafe/gossamer/lib/runtime"
	"github.com/ChainSafe/gossamer/pkg/scale"
	"go.uber.org/mock/gomock"
)

var c24T *testing.T

type c24Block struct {
	BlockState
	parent  *types.Header
	genesis common.Hash
	eq      uint64
}

func (b *c24Block) GetHeader(common.Hash) (*types.Header, error) { return b.parent, nil }
func (b *c24Block) GenesisHash() common.Hash                      { return b.genesis }
func (b *c24Block) BestBlockHash() common.Hash                    { return b.genesis }
func (b *c24Block) GetRuntime(common.Hash) (runtime.Instance, error) {
	rt := mocks.NewMockInstance(gomock.NewController(c24T))
	switch b.eq {
	case 3:
		rt.EXPECT().BabeGenerateKeyOwnershipProof(gomock.Any(), gomock.Any()).
			Return(nil, errors.New("c24 stub: no proof")).AnyTimes()
	case 4:
		rt.EXPECT().BabeGenerateKeyOwnershipProof(gomock.Any(), gomock.Any()).Return(nil, nil).AnyTimes()
	default:
		rt.EXPECT().BabeGenerateKeyOwnershipProof(gomock.Any(), gomock.Any()).
			Return(types.OpaqueKeyOwnershipProof{1, 2, 3}, nil).AnyTimes()
	}
	rt.EXPECT().BabeSubmitReportEquivocationUnsignedExtrinsic(gomock.Any(), gomock.Any()).Return(nil).AnyTimes()
	return rt, nil
}

type c24Epoch struct {
	EpochState
	epoch uint64
	data  *types.EpochDataRaw
	cfg   *types.ConfigData
}

func (e *c24Epoch) GetEpochForBlock(*types.Header) (uint64, error) { return e.epoch, nil }
func (e *c24Epoch) GetSlotDuration() (time.Duration, error)         { return 6 * time.Second, nil }
func (e *c24Epoch) GetEpochDataRaw(uint64, *types.Header) (*types.EpochDataRaw, error) {
	return e.data, nil
}
func (e *c24Epoch) GetConfigData(uint64, *types.Header) (*types.ConfigData, error) {
	return e.cfg, nil
}

type c24Slot struct{ mode uint64 }

func (s *c24Slot) CheckEquivocation(_, slot uint64, h *types.Header, signer types.AuthorityID) (
	*types.BabeEquivocationProof, error) {
	switch s.mode {
	case 0:
		return nil, nil
	case 1:
		return nil, errors.New("c24 stub: equivocation check failed")
	}
	return &types.BabeEquivocationProof{Offender: signer, Slot: slot, FirstHeader: *h, SecondHeader: *h}, nil
}

type c24World struct {
	keys  []*sr25519.Keypair // n authorities + 1 outsider
	auths []types.AuthorityRaw
	rnd   Randomness
	cfg   *types.ConfigData
	epoch uint64
}

func c24Keys(kseed uint64, n int) []*sr25519.Keypair {
	keys := make([]*sr25519.Keypair, n+1)
	for i := range keys {
		kp, err := sr25519.NewKeypairFromSeed(vu.NewRNG(kseed*64 + uint64(i)).Bytes(32))
		if err != nil {
			panic(err)
		}
		keys[i] = kp
	}
	return keys
}

// c24RndBytes derives the 32 randomness bytes of a scenario from its seed. The driver recomputes
// them (props/C24/driver.ml rng_bytes), so the derivation is the harness's own splitmix64 and
// does not depend on the seeding of verifutil's generator.
func c24RndBytes(seed uint64) []byte {
	s := seed*0x9E3779B97F4A7C15 + 0x1234567
	b := make([]byte, 32)
	for i := range b {
		s += 0x9E3779B97F4A7C15
		z := s
		z = (z ^ (z >> 30)) * 0xBF58476D1CE4E5B9
		z = (z ^ (z >> 27)) * 0x94D049BB133111EB
		b[i] = byte(z ^ (z >> 31))
	}
	return b
}

func c24NewWorld(allowed, n, c1, c2, epoch, rseed, kseed, badkey uint64) *c24World {
	w := &c24World{keys: c24Keys(kseed, int(n)), epoch: epoch,
		cfg: &types.ConfigData{C1: c1, C2: c2, SecondarySlots: byte(allowed)}}
	copy(w.rnd[:], c24RndBytes(rseed))
	for i := 0; i < int(n); i++ {
		var a types.AuthorityRaw
		pk := w.keys[i].Public().(*sr25519.PublicKey).AsBytes()
		a.Key = pk
		a.Weight = 1
		if uint64(i) == badkey {
			for j := range a.Key {
				a.Key[j] = 0xff
			}
		}
		w.auths = append(w.auths, a)
	}
	return w
}

func (w *c24World) verify(header *types.Header, eq uint64) error {
	parent := types.NewEmptyHeader()
	bs := &c24Block{parent: parent, genesis: parent.Hash(), eq: eq}
	es := &c24Epoch{epoch: w.epoch, data: &types.EpochDataRaw{Authorities: w.auths, Randomness: w.rnd}, cfg: w.cfg}
	vm := NewVerificationManager(bs, &c24Slot{mode: eq}, es)
	return vm.VerifyBlock(header)
}

func c24Class(err error) string {
	switch {
	case err == nil:
		return "ok"
	case errors.Is(err, errMissingDigestItems):
		return "missing"
	case errors.Is(err, types.ErrNoFirstPreDigest):
		return "nopre"
	case errors.Is(err, errLastDigestItemNotSeal):
		return "noseal"
	case errors.Is(err, ErrInvalidBlockProducerIndex):
		return "badidx"
	case errors.Is(err, ErrVRFOutputOverThreshold):
		return "over"
	case errors.Is(err, ErrBadSlotClaim):
		return "badslot"
	case errors.Is(err, ErrBadSecondarySlotClaim):
		return "badsec"
	case errors.Is(err, ErrBadSignature):
		return "badsig"
	case errors.Is(err, ErrProducerEquivocated):
		return "equivocated"
	case errors.Is(err, errEpochLowerThanExpected):
		return "epoch-lower"
	}
	s := err.Error()
	switch {
	case strings.HasPrefix(s, "getting header"):
		return "noparent"
	case strings.HasPrefix(s, "getting epoch for block header"):
		return "epoch-err"
	case strings.HasPrefix(s, "getting epoch for parent header"):
		return "pepoch-err"
	case strings.HasPrefix(s, "getting current slot duration"):
		return "slotdur"
	case strings.HasPrefix(s, "getting verifier info") && !strings.Contains(s, "failed to calculate threshold"):
		return "info-err"
	case strings.Contains(s, "could not verify block equivocation"):
		return "equiv-err"
	case strings.Contains(s, "failed to calculate threshold"):
		return "thr-err"
	case strings.Contains(s, "failed to verify pre-runtime digest") &&
		(strings.Contains(s, "EOF") || strings.Contains(s, "VaryingDataTypeValue") ||
			strings.Contains(s, "decoding struct") || strings.Contains(s, "unmarshal")):
		return "decode"
	}
	return "other"
}

// c24Parse is the harness's own strict reading of a BABE pre-digest (to pick the oracle inputs).
func c24Parse(d []byte) (tag byte, idx uint32, slot uint64, out [32]byte, proof [64]byte, ok bool) {
	if len(d) < 13 || d[0] < 1 || d[0] > 3 {
		return
	}
	tag = d[0]
	for i := 0; i < 4; i++ {
		idx |= uint32(d[1+i]) << (8 * uint(i))
	}
	for i := 0; i < 8; i++ {
		slot |= uint64(d[5+i]) << (8 * uint(i))
	}
	if tag == 2 {
		return tag, idx, slot, out, proof, true
	}
	if len(d) < 13+96 {
		return
	}
	copy(out[:], d[13:45])
	copy(proof[:], d[45:109])
	return tag, idx, slot, out, proof, true
}

func c24Tri(ok bool, err error) string {
	if err != nil {
		return "e"
	}
	if ok {
		return "1"
	}
	return "0"
}

// c24Below: little-endian value of the 16 VRF in/out bytes < threshold, by the primitives.
func c24Below(rnd Randomness, slot, epoch uint64, out [32]byte, thr *scale.Uint128, pk *sr25519.PublicKey) string {
	inout, err := sr25519.AttachInput(out, pk, makeTranscript(rnd, slot, epoch))
	if err != nil {
		return "e"
	}
	res, err := inout.MakeBytes(16, babeVRFPrefix)
	if err != nil {
		return "e"
	}
	be := make([]byte, 16)
	for i := range res {
		be[15-i] = res[i]
	}
	v := new(big.Int).SetBytes(be)
	t := new(big.Int).Lsh(new(big.Int).SetUint64(thr.Upper), 64)
	t.Add(t, new(big.Int).SetUint64(thr.Lower))
	return c24Tri(v.Cmp(t) < 0, nil)
}

func c24SealMsg(h *types.Header, items []any) []byte {
	cp := types.NewHeader(h.ParentHash, h.StateRoot, h.ExtrinsicsRoot, h.Number, types.NewDigest())
	for _, it := range items {
		if err := cp.Digest.Add(it); err != nil {
			panic(err)
		}
	}
	enc, err := scale.Marshal(*cp)
	if err != nil {
		panic(err)
	}
	hash, err := common.Blake2bHash(enc)
	if err != nil {
		panic(err)
	}
	return hash[:]
}

func c24DigestBytes(h *types.Header) []byte {
	enc, err := scale.Marshal(h.Digest)
	if err != nil {
		return []byte("err")
	}
	return enc
}

type c24Params struct {
	slot, shape, tag, idx, vrfkey, vrftamper, sealkey, sealtamper, cut uint64
	t1, t2                                                                uint64 // positions of the bit flips
	num                                                                   uint64 // block number (0: 1)
}

// c24Build builds the header described by p on top of parentHash. The claim is made with the
// keys and randomness of world signer (normally w itself); the oracles are evaluated by the
// primitives under world w, i.e. under the epoch data that governs the block.
func c24Build(w, signer *c24World, parentHash common.Hash, p c24Params) (*types.Header, string, string) {
	n := uint64(len(w.auths))
	slot, epoch, tag, idx := p.slot, w.epoch, p.tag, p.idx
	// ---- the pre-digest
	vslot, vepoch, vrnd := slot, signer.epoch, signer.rnd
	switch p.vrftamper {
	case 3:
		vslot++
	case 4:
		vepoch++
	case 5:
		vrnd[0] ^= 1
	}
	var out [32]byte
	var proof [64]byte
	if tag != 2 {
		var err error
		out, proof, err = signer.keys[p.vrfkey].VrfSign(makeTranscript(vrnd, vslot, vepoch))
		if err != nil {
			return nil, "", "err:vrfsign"
		}
		switch p.vrftamper {
		case 1:
			out[int(p.t1%32)] ^= 1 << (p.t2 % 8)
		case 2:
			proof[int(p.t1%64)] ^= 1 << (p.t2 % 8)
		case 6:
			out, proof = [32]byte{}, [64]byte{}
		}
	}
	data := []byte{byte(tag)}
	data = append(data, byte(idx), byte(idx>>8), byte(idx>>16), byte(idx>>24))
	for i := 0; i < 8; i++ {
		data = append(data, byte(slot>>(8*uint(i))))
	}
	if tag != 2 {
		data = append(data, out[:]...)
		data = append(data, proof[:]...)
	}
	switch p.cut {
	case 1:
		data = data[:1]
	case 2:
		data = data[:5]
	case 3:
		data = data[:13]
	case 4:
		data = append(data, 7, 7, 7)
	case 5:
		data = []byte{}
	case 6:
		data = data[:3]
	case 7:
		data = data[:9]
	case 8:
		if len(data) > 30 {
			data = data[:30]
		} else {
			data = data[:12]
		}
	case 9:
		if len(data) > 100 {
			data = data[:100]
		} else {
			data = data[:6]
		}
	}
	pre := types.PreRuntimeDigest{ConsensusEngineID: types.BabeEngineID, Data: data}
	cons := types.ConsensusDigest{ConsensusEngineID: types.BabeEngineID, Data: []byte{1, 2, 3}}
	pre2 := types.PreRuntimeDigest{ConsensusEngineID: types.ConsensusEngineID{'a', 'u', 'r', 'a'}, Data: []byte{9}}
	// a seal-typed item of another engine, and the runtime-environment-updated item
	fseal := types.SealDigest{ConsensusEngineID: types.ConsensusEngineID{'a', 'u', 'r', 'a'}, Data: []byte{0xde, 0xad, byte(p.t1)}}
	renv := types.RuntimeEnvironmentUpdated{}

	// ---- header and seal
	r := vu.NewRNG(p.t1 ^ 0x5555)
	num := uint(1)
	if p.num != 0 {
		num = uint(p.num)
	}
	header := types.NewHeader(parentHash, common.BytesToHash(r.Bytes(32)),
		common.BytesToHash(r.Bytes(32)), num, types.NewDigest())
	var before []any // the items preceding the seal in the layouts that have one
	switch p.shape {
	case 0, 3, 4:
		before = []any{pre}
	case 1:
		before = []any{pre, cons}
	case 6:
		before = []any{cons, pre}
	case 7:
		before = []any{pre, pre2}
	case 8:
		before = []any{pre, fseal}
	case 9:
		before = []any{pre, renv}
	case 10:
		before = []any{pre, cons, fseal, renv}
	}
	signed := before
	if p.sealtamper == 6 {
		// the signature covers the header without ANY seal-typed item (a seal item inserted after sealing)
		signed = nil
		for _, it := range before {
			if _, isSeal := it.(types.SealDigest); !isSeal {
				signed = append(signed, it)
			}
		}
	}
	msg := c24SealMsg(header, signed)
	if p.sealtamper == 2 {
		other := *header
		other.Number = 2
		msg = c24SealMsg(&other, before)
	}
	sig, err := signer.keys[p.sealkey].Sign(msg)
	if err != nil {
		return nil, "", "err:sign"
	}
	switch p.sealtamper {
	case 1:
		sig[int(p.t1%63)] ^= 1 << (p.t2 % 8)
	case 3:
		sig = sig[:63]
	case 4:
		sig[63] &= 0x7f
	case 5:
		sig = []byte{}
	}
	seal := types.SealDigest{ConsensusEngineID: types.BabeEngineID, Data: sig}
	var items []any
	switch p.shape {
	case 0, 1, 6, 7, 8, 9, 10:
		items = append(append([]any{}, before...), seal)
	case 2:
		items = []any{pre}
	case 3:
		items = []any{seal, pre}
	case 4:
		items = []any{pre, seal, cons}
	case 5:
		items = nil
	}
	for _, it := range items {
		if err := header.Digest.Add(it); err != nil {
			return nil, "", "err:digest"
		}
	}

	// ---- oracles by the primitives, for the claimed authority, under the block's own epoch data;
	// the seal oracle is over the header without its LAST digest item
	key, below, vrf, sealv := "-", "-", "-", "-"
	first := "-"
	if len(items) > 0 {
		if pd, ok := items[0].(types.PreRuntimeDigest); ok {
			first = vu.Hex(pd.Data)
			if first == "-" {
				first = "e" // an empty data field
			}
			ptag, pidx, pslot, pout, pproof, ok := c24Parse(pd.Data)
			if ok && uint64(pidx) < n {
				pk, err := sr25519.NewPublicKey(w.auths[pidx].Key[:])
				if err != nil {
					key = "0"
				} else {
					key = "1"
					if ptag != 2 {
						if thr, err := CalculateThreshold(w.cfg.C1, w.cfg.C2, int(n)); err == nil {
							below = c24Below(w.rnd, pslot, epoch, pout, thr, pk)
						}
						vrf = c24Tri(pk.VrfVerify(makeTranscript(w.rnd, pslot, epoch), pout, pproof))
					}
					if s, ok := items[len(items)-1].(types.SealDigest); ok && len(items) >= 2 {
						sealv = c24Tri(pk.Verify(c24SealMsg(header, items[:len(items)-1]), s.Data))
					}
				}
			}
		}
	}
	return header, fmt.Sprintf("pre=%s key=%s below=%s vrf=%s seal=%s", first, key, below, vrf, sealv), ""
}

// c24Verified runs verify on the header and reports the class and whether the digest is unchanged.
func c24Verified(header *types.Header, verify func(*types.Header) error) string {
	dgBefore := c24DigestBytes(header)
	class := c24Class(verify(header))
	same := "0"
	if bytes.Equal(dgBefore, c24DigestBytes(header)) {
		same = "1"
	}
	return class + " " + same
}

func c24RunV(f []string) string {
	a := make([]uint64, len(f))
	for i := 1; i < len(f); i++ {
		a[i] = vu.UnX(f[i])
	}
	allowed, n, c1, c2, epoch, slot, rseed, kseed, badkey := a[1], a[2], a[3], a[4], a[5], a[6], a[7], a[8], a[9]
	p := c24Params{slot: slot, shape: a[10], tag: a[11], idx: a[12], vrfkey: a[13], vrftamper: a[14],
		sealkey: a[15], sealtamper: a[16], cut: a[17], t1: rseed, t2: kseed}
	eq := a[18]
	w := c24NewWorld(allowed, n, c1, c2, epoch, rseed, kseed, badkey)
	header, oracles, e := c24Build(w, w, types.NewEmptyHeader().Hash(), p)
	if e != "" {
		return e
	}
	return c24Verified(header, func(h *types.Header) error { return w.verify(h, eq) }) + " " + oracles
}

// ---- sequences on ONE VerificationManager over two forks with different epoch data for the
// same epoch number

type c24ForkBlock struct {
	BlockState
	parents map[common.Hash]*types.Header
	forkOf  map[common.Hash]uint64
}

func (b *c24ForkBlock) GetHeader(h common.Hash) (*types.Header, error) {
	if p, ok := b.parents[h]; ok {
		return p, nil
	}
	return nil, errors.New("c24 stub: unknown header")
}
func (b *c24ForkBlock) GenesisHash() common.Hash                          { return common.Hash{0xaa} }
func (b *c24ForkBlock) IsDescendantOf(a, d common.Hash) (bool, error) {
	fa, ok1 := b.forkOf[a]
	fd, ok2 := b.forkOf[d]
	if !ok1 || !ok2 {
		return false, errors.New("c24 stub: unknown block")
	}
	return fa == fd, nil
}
func (b *c24ForkBlock) BestBlockHash() common.Hash                        { return common.Hash{0xaa} }

type c24ForkEpoch struct {
	EpochState
	epoch  uint64
	worlds map[common.Hash]*c24World // by the hash of the fork's parent block
}

func (e *c24ForkEpoch) worldOf(h *types.Header) (*c24World, error) {
	if w, ok := e.worlds[h.ParentHash]; ok {
		return w, nil
	}
	if w, ok := e.worlds[h.Hash()]; ok {
		return w, nil
	}
	return nil, errors.New("c24 stub: header on no known fork")
}
func (e *c24ForkEpoch) GetEpochForBlock(*types.Header) (uint64, error) { return e.epoch, nil }
func (e *c24ForkEpoch) GetSlotDuration() (time.Duration, error)         { return 6 * time.Second, nil }
func (e *c24ForkEpoch) GetEpochDataRaw(_ uint64, h *types.Header) (*types.EpochDataRaw, error) {
	w, err := e.worldOf(h)
	if err != nil {
		return nil, err
	}
	return &types.EpochDataRaw{Authorities: w.auths, Randomness: w.rnd}, nil
}
func (e *c24ForkEpoch) GetConfigData(_ uint64, h *types.Header) (*types.ConfigData, error) {
	w, err := e.worldOf(h)
	if err != nil {
		return nil, err
	}
	return w.cfg, nil
}

func c24RunSeq(f []string) string {
	a := make([]uint64, len(f))
	for i := 1; i < len(f); i++ {
		a[i] = vu.UnX(f[i])
	}
	epoch := a[1]
	worlds := []*c24World{
		c24NewWorld(a[2], a[3], a[4], a[5], epoch, a[6], a[7], 0xff),
		c24NewWorld(a[8], a[9], a[10], a[11], epoch, a[12], a[13], 0xff),
	}
	parents := make([]*types.Header, 2)
	bs := &c24ForkBlock{parents: map[common.Hash]*types.Header{}, forkOf: map[common.Hash]uint64{}}
	es := &c24ForkEpoch{epoch: epoch, worlds: map[common.Hash]*c24World{}}
	for i := range parents {
		p := types.NewEmptyHeader()
		p.Number = 10
		p.StateRoot = common.Hash{byte(0xa + i)}
		parents[i] = p
		bs.parents[p.Hash()] = p
		es.worlds[p.Hash()] = worlds[i]
	}
	vm := NewVerificationManager(bs, &c24Slot{mode: 0}, es)
	var out []string
	for k := 14; k+5 < len(a); k += 6 {
		op, fork, sfork, tag, idx, slot := a[k], a[k+1]%2, a[k+2]%2, a[k+3], a[k+4], a[k+5]
		w, signer := worlds[fork], worlds[sfork]
		key := idx
		if key > uint64(len(signer.auths)) {
			key = uint64(len(signer.auths))
		}
		p := c24Params{slot: slot, tag: tag, idx: idx, vrfkey: key, sealkey: key, t1: a[6] + uint64(k), t2: a[7],
			num: 1 + slot%3}
		header, oracles, e := c24Build(w, signer, parents[fork].Hash(), p)
		if e != "" {
			return e
		}
		if op == 1 {
			// for its effect on the manager's state (epochInfo, onDisabled) and its own answer
			bs.forkOf[header.Hash()] = fork
			err := vm.SetOnDisabled(uint32(idx), header)
			cls := "err"
			switch {
			case err == nil:
				cls = "ok"
			case errors.Is(err, ErrInvalidBlockProducerIndex):
				cls = "badidx"
			case errors.Is(err, ErrAuthorityAlreadyDisabled):
				cls = "already"
			}
			out = append(out, "sd:"+cls)
			continue
		}
		out = append(out, c24Verified(header, vm.VerifyBlock)+" "+oracles)
	}
	return strings.Join(out, " ; ")
}

// ---- the epoch whose data governs the block

// c24EpochWorld: the data the stub announces for epoch number d, with epoch number te in the
// transcripts of whoever uses the world to sign / to evaluate the oracles.
func c24EpochWorld(allowed, n, c1, c2, rseed, kseed, d, te uint64) *c24World {
	return c24NewWorld((allowed+d)%3, n, c1, c2, te, rseed+7*d, kseed+101*d, 0xff)
}

type c24EpBlock struct {
	BlockState
	parent *types.Header
	pg     uint64
}

func (b *c24EpBlock) GetHeader(common.Hash) (*types.Header, error) {
	if b.pg == 2 {
		return nil, errors.New("c24 stub: unknown parent")
	}
	return b.parent, nil
}
func (b *c24EpBlock) GenesisHash() common.Hash {
	if b.pg == 1 {
		return b.parent.Hash()
	}
	return common.Hash{0xaa}
}
func (b *c24EpBlock) BestBlockHash() common.Hash { return common.Hash{0xaa} }

type c24EpEpoch struct {
	EpochState
	mk      func(d uint64) *c24World
	pe, ce  uint64
	hm      uint64
	queried []uint64
}

func (e *c24EpEpoch) GetEpochForBlock(h *types.Header) (uint64, error) {
	if h.Number == 10 { // the parent
		if e.hm == 2 {
			return 0, errors.New("c24 stub: no epoch for parent")
		}
		return e.pe, nil
	}
	if e.hm == 1 {
		return 0, errors.New("c24 stub: no epoch for block")
	}
	return e.ce, nil
}
func (e *c24EpEpoch) GetSlotDuration() (time.Duration, error) {
	if e.hm == 3 {
		return 0, errors.New("c24 stub: no slot duration")
	}
	return 6 * time.Second, nil
}
func (e *c24EpEpoch) note(d uint64) {
	for _, q := range e.queried {
		if q == d {
			return
		}
	}
	e.queried = append(e.queried, d)
}
func (e *c24EpEpoch) GetEpochDataRaw(d uint64, _ *types.Header) (*types.EpochDataRaw, error) {
	e.note(d)
	if e.hm == 4 {
		return nil, errors.New("c24 stub: no epoch data")
	}
	w := e.mk(d)
	return &types.EpochDataRaw{Authorities: w.auths, Randomness: w.rnd}, nil
}
func (e *c24EpEpoch) GetConfigData(d uint64, _ *types.Header) (*types.ConfigData, error) {
	e.note(d)
	if e.hm == 5 {
		return nil, errors.New("c24 stub: no config data")
	}
	return e.mk(d).cfg, nil
}

// c24WantEpoch is the harness's own statement of which epoch's data governs a block of epoch ce
// whose parent (genesis or not) lies in epoch pe.
func c24WantEpoch(pg, pe, ce uint64) (uint64, bool) {
	if pg == 1 {
		return ce, true
	}
	if ce < pe {
		return 0, false
	}
	if ce-pe > 1 {
		return pe + 1, true
	}
	return ce, true
}

func c24RunEp(f []string) string {
	a := make([]uint64, len(f))
	for i := 1; i < len(f); i++ {
		a[i] = vu.UnX(f[i])
	}
	allowed, n, c1, c2, rseed, kseed := a[1], a[2], a[3], a[4], a[5], a[6]
	pg, pe, ce, tag, idx, slot, sd, se, hm := a[7], a[8], a[9], a[10], a[11], a[12], a[13], a[14], a[15]
	want, ok := c24WantEpoch(pg, pe, ce)
	if !ok {
		want = ce
	}
	w := c24EpochWorld(allowed, n, c1, c2, rseed, kseed, want, ce)
	signer := c24EpochWorld(allowed, n, c1, c2, rseed, kseed, sd, se)
	parent := types.NewEmptyHeader()
	parent.Number = 10
	parent.StateRoot = common.Hash{0xb}
	key := idx
	if key > n {
		key = n
	}
	p := c24Params{slot: slot, tag: tag, idx: idx, vrfkey: key, sealkey: key, t1: rseed, t2: kseed}
	header, oracles, e := c24Build(w, signer, parent.Hash(), p)
	if e != "" {
		return e
	}
	es := &c24EpEpoch{pe: pe, ce: ce, hm: hm,
		mk: func(d uint64) *c24World { return c24EpochWorld(allowed, n, c1, c2, rseed, kseed, d, ce) }}
	vm := NewVerificationManager(&c24EpBlock{parent: parent, pg: pg}, &c24Slot{mode: 0}, es)
	res := c24Verified(header, vm.VerifyBlock)
	q := "-"
	if len(es.queried) > 0 {
		var qs []string
		for _, d := range es.queried {
			qs = append(qs, vu.X(d))
		}
		q = strings.Join(qs, "+")
	}
	return res + " q=" + q + " w=" + vu.X(want) + " " + oracles
}

func c24RunClaim(f []string) string {
	a := make([]uint64, len(f))
	for i := 1; i < len(f); i++ {
		a[i] = vu.UnX(f[i])
	}
	allowed, n, c1, c2, epoch, slot, rseed, kseed, me := a[1], a[2], a[3], a[4], a[5], a[6], a[7], a[8], a[9]
	w := c24NewWorld(allowed, n, c1, c2, epoch, rseed, kseed, 0xff)
	thr, err := CalculateThreshold(c1, c2, int(n))
	if err != nil {
		return "err:thr - below=- pre=-"
	}
	kp := w.keys[me]
	ed := &epochData{randomness: w.rnd, authorityIndex: uint32(me), authorities: w.auths,
		threshold: thr, allowedSlots: types.AllowedSlots(allowed)}
	below := "e"
	if out, _, err := kp.VrfSign(makeTranscript(w.rnd, slot, epoch)); err == nil {
		below = c24Below(w.rnd, slot, epoch, out, thr, kp.Public().(*sr25519.PublicKey))
	}
	prd, err := claimSlot(epoch, slot, ed, kp)
	if err != nil {
		c := "err:other"
		switch {
		case errors.Is(err, errNotOurTurnToPropose):
			c = "err:notour"
		case errors.Is(err, errInvalidSlotTechnique):
			c = "err:tech"
		}
		return fmt.Sprintf("%s - below=%s pre=-", c, below)
	}
	kind := "?"
	if len(prd.Data) > 0 {
		kind = map[byte]string{1: "P", 2: "SP", 3: "SV"}[prd.Data[0]]
	}
	r := vu.NewRNG(rseed ^ 0x5555)
	header := types.NewHeader(types.NewEmptyHeader().Hash(), common.BytesToHash(r.Bytes(32)),
		common.BytesToHash(r.Bytes(32)), 1, types.NewDigest())
	if err := header.Digest.Add(*prd); err != nil {
		return "err:digest"
	}
	bb := &BlockBuilder{keypair: kp}
	seal, err := bb.buildBlockSeal(header)
	if err != nil {
		return "err:seal"
	}
	if err := header.Digest.Add(*seal); err != nil {
		return "err:digest"
	}
	return fmt.Sprintf("%s %s below=%s pre=%s", kind, c24Class(w.verify(header, 0)), below, vu.Hex(prd.Data))
}

func c24Run(in string) string {
	f := strings.Split(in, " ")
	switch f[0] {
	case "v":
		return c24RunV(f)
	case "claim":
		return c24RunClaim(f)
	case "seq":
		return c24RunSeq(f)
	case "ep":
		return c24RunEp(f)
	}
	return "err:bad-input"
}

// c24Author computes the expected secondary slot author with the code under test's own function
// (only to direct the generator; the model recomputes it with the Gallina BLAKE2b).
func c24Author(rseed, slot, n uint64) uint64 {
	var rnd Randomness
	copy(rnd[:], c24RndBytes(rseed))
	a, err := getSecondarySlotAuthor(slot, int(n), rnd)
	if err != nil {
		return 0
	}
	return uint64(a)
}

// c24Sweep enumerates (thorough tier) every combination of configuration, claim kind, claimed
// index (the slot's author / another authority / out of range), VRF tampering, seal tampering
// and digest layout, for 1..3 authorities.
func c24Sweep(emit func(string)) {
	ctr := uint64(0)
	for allowed := uint64(0); allowed <= 2; allowed++ {
		for n := uint64(1); n <= 3; n++ {
			for tag := uint64(1); tag <= 3; tag++ {
				for im := 0; im < 3; im++ {
					vts := uint64(7)
					if tag == 2 {
						vts = 1
					}
					for vt := uint64(0); vt < vts; vt++ {
						for st := uint64(0); st <= 6; st++ {
							for shape := uint64(0); shape <= 10; shape++ {
								if shape >= 2 && shape <= 7 && (vt != 0 || st != 0) {
									continue
								}
								if shape >= 8 && vt != 0 {
									continue
								}
								for cut := uint64(0); cut <= 9; cut++ {
									if cut != 0 && (vt != 0 || st != 0 || shape != 0) {
										continue
									}
									ctr++
									rseed, kseed, slot := 1000+ctr, 77+ctr%5, ctr*7919
									author := c24Author(rseed, slot, n)
									idx := author
									switch im {
									case 1:
										idx = (author + 1) % n
									case 2:
										idx = n
									}
									key := idx
									if key > n {
										key = n
									}
									c1, c2 := uint64(1), uint64(1)
									if ctr%4 == 3 {
										c2 = 1 << 40
									}
									emit(fmt.Sprintf("v %x %x %x %x %x %x %x %x %x %x %x %x %x %x %x %x %x %x", allowed, n, c1, c2,
										ctr%9, slot, rseed, kseed, 0xff, shape, tag, idx, key, vt, key, st, cut, 0))
								}
							}
						}
					}
				}
			}
		}
	}
}

// c24GenSeq: two forks with different epoch data for the same epoch number (other authority keys,
// other randomness, other authority count, other configuration -- at least one differs), and 2-6
// steps on one manager: blocks of either fork, authored honestly under the data of the same or of
// the OTHER fork, and SetOnDisabled calls.
func c24GenSeq(r *vu.RNG) string {
	epoch := uint64(1 + r.Intn(40))
	type fk struct{ allowed, n, c1, c2, rseed, kseed uint64 }
	mk := func() fk {
		c2 := uint64(1)
		if r.Chance(1, 4) {
			c2 = 1 << 40
		}
		return fk{uint64(r.Intn(3)), uint64(1 + r.Intn(3)), 1, c2, uint64(r.Intn(1 << 30)), uint64(r.Intn(1 << 20))}
	}
	fa := mk()
	fb := fa
	switch r.Intn(5) {
	case 0: // everything differs
		fb = mk()
	case 1: // only the randomness
		fb.rseed = fa.rseed + 1
	case 2: // only the authority keys
		fb.kseed = fa.kseed + 1
	case 3: // only the configuration
		fb.allowed = (fa.allowed + 1 + uint64(r.Intn(2))) % 3
	default: // the authority count (the first authorities are shared)
		fb.n = 1 + fa.n%3
	}
	forks := []fk{fa, fb}
	s := fmt.Sprintf("seq %x %x %x %x %x %x %x %x %x %x %x %x %x", epoch, fa.allowed, fa.n, fa.c1, fa.c2, fa.rseed, fa.kseed,
		fb.allowed, fb.n, fb.c1, fb.c2, fb.rseed, fb.kseed)
	steps := 2 + r.Intn(5)
	first := uint64(r.Intn(2))
	for k := 0; k < steps; k++ {
		fork := uint64(r.Intn(2))
		if k == 0 {
			fork = first
		} else if k == 1 {
			fork = 1 - first
		}
		sfork := fork
		if r.Chance(1, 3) {
			sfork = 1 - fork
		}
		op := uint64(0)
		if r.Chance(1, 6) {
			op = 1
		}
		sf := forks[sfork]
		slot := uint64(r.Intn(1 << 20))
		author := c24Author(sf.rseed, slot, sf.n)
		// an honest claim under the signer fork's data
		tag := uint64(1)
		idx := uint64(r.Intn(int(sf.n)))
		if sf.allowed != 0 && (sf.c2 != 1 || r.Chance(1, 2)) {
			tag, idx = sf.allowed+1, author
		}
		s += fmt.Sprintf(" %x %x %x %x %x %x", op, fork, sfork, tag, idx, slot)
	}
	return s
}

// c24GenEp: parent epoch / block epoch relations (same epoch, next epoch, epochs skipped, block
// epoch below the parent's, genesis parent), the author using the data of the governing epoch or
// of another one (the block's own number when epochs were skipped, the parent's), and the
// block's epoch or the data epoch in the VRF transcript; stub failures.
func c24GenEp(r *vu.RNG) string {
	allowed, n := uint64(r.Intn(3)), uint64(1+r.Intn(3))
	c2 := uint64(1)
	if r.Chance(1, 4) {
		c2 = 1 << 40
	}
	rseed, kseed := uint64(r.Intn(1<<30)), uint64(r.Intn(1<<20))
	pe := uint64(r.Intn(30))
	var ce uint64
	switch r.Intn(6) {
	case 0:
		ce = pe
	case 1:
		ce = pe + 1
	case 2:
		ce = pe + 2
	case 3:
		ce = pe + 2 + uint64(r.Intn(9))
	case 4:
		if pe > 0 {
			ce = pe - 1 - uint64(r.Intn(int(pe)))
		}
	default:
		ce = uint64(r.Intn(40))
	}
	pg := uint64(0)
	if r.Chance(1, 5) {
		pg = 1
	}
	if r.Chance(1, 30) {
		pg = 2
	}
	want, ok := c24WantEpoch(pg, pe, ce)
	if !ok {
		want = ce
	}
	sd, se := want, ce
	switch r.Intn(8) {
	case 0:
		sd = ce // the block's own epoch number although epochs were skipped
	case 1:
		sd = pe
	case 2:
		se = want // the data epoch in the transcript
	case 3:
		sd, se = ce, want
	case 4:
		sd = want + 1
	}
	hm := uint64(0)
	if r.Chance(1, 8) {
		hm = uint64(1 + r.Intn(5))
	}
	slot := uint64(r.Intn(1 << 20))
	// an honest claim of the signer's world: the kind its configuration names, by the slot's author
	sa := (allowed + sd) % 3
	tag, idx := uint64(1), uint64(r.Intn(int(n)))
	if sa != 0 && (c2 != 1 || r.Chance(1, 2)) {
		tag, idx = sa+1, c24Author(rseed+7*sd, slot, n)
	}
	return fmt.Sprintf("ep %x %x %x %x %x %x %x %x %x %x %x %x %x %x %x", allowed, n, 1, c2, rseed, kseed,
		pg, pe, ce, tag, idx, slot, sd, se, hm)
}

func c24Gen(r *vu.RNG, total int, emit func(string)) {
	thresholds := [][2]uint64{{1, 1}, {1, 1}, {1, 4}, {1, 2}, {1, 1 << 40}, {3, 4}}
	if vu.Thorough() {
		c24Sweep(emit)
	}
	for i := 0; i < total; i++ {
		n := uint64(1 + r.Intn(5))
		allowed := uint64(r.Intn(3))
		if r.Chance(1, 40) {
			allowed = 3
		}
		th := thresholds[r.Intn(len(thresholds))]
		epoch := uint64(r.Intn(50))
		slot := r.U64() >> uint(r.Intn(64))
		rseed, kseed := uint64(r.Intn(1<<30)), uint64(r.Intn(1<<20))
		author := c24Author(rseed, slot, n)
		if r.Chance(1, 8) {
			emit(c24GenSeq(r))
			continue
		}
		if r.Chance(1, 9) {
			emit(c24GenEp(r))
			continue
		}
		if r.Chance(1, 6) {
			me := author
			if r.Chance(1, 3) {
				me = uint64(r.Intn(int(n)))
			}
			emit(fmt.Sprintf("claim %x %x %x %x %x %x %x %x %x", allowed, n, th[0], th[1], epoch, slot, rseed, kseed, me))
			continue
		}
		// an honest block first, then at most a few deviations
		tag := uint64(1 + r.Intn(3))
		if r.Chance(1, 2) { // the kind the configuration allows
			switch allowed {
			case 0:
				tag = 1
			case 1:
				tag = uint64(1 + r.Intn(2))
			case 2:
				tag = uint64(1 + 2*r.Intn(2))
			}
		}
		idx := author
		if tag == 1 {
			idx = uint64(r.Intn(int(n)))
		}
		vrfkey, sealkey := idx, idx
		var badkey, shape, vrftamper, sealtamper, cut, eq uint64 = 0xff, 0, 0, 0, 0, 0
		if r.Chance(1, 3) {
			shape = 1
		}
		if r.Chance(1, 6) {
			// further digest items before the final seal: a seal-typed item of another engine,
			// runtime-environment-updated, consensus; the author signs the header without the LAST item
			shape = uint64(8 + r.Intn(3))
			if r.Chance(1, 3) {
				sealtamper = 6 // ... or the seal only covers the header without any seal-typed item
			}
		}
		if r.Chance(1, 10) {
			// an otherwise untouched block whose equivocation check answers: error / proof / report failing
			eq = uint64(1 + r.Intn(4))
		}
		if r.Chance(1, 8) && n >= 2 && (allowed == 1 || allowed == 2) {
			// a secondary claim of the allowed kind by an authority that is not the slot's author
			tag = allowed + 1
			idx = (author + 1 + uint64(r.Intn(int(n)-1))) % n
			vrfkey, sealkey = idx, idx
		}
		for k := r.Intn(3); k > 0 && r.Chance(3, 4); k-- {
			switch r.Intn(12) {
			case 0: // wrong index: another authority, or out of bounds
				switch r.Intn(4) {
				case 0:
					idx = n
				case 1:
					idx = n + uint64(r.Intn(3))
				case 2:
					idx = 0xffffffff
				default:
					idx = uint64(r.Intn(int(n)))
				}
				if r.Chance(1, 2) && idx < n {
					vrfkey, sealkey = idx, idx
				}
			case 1: // wrong author for the slot (secondary), keys follow the claimed index
				idx = (author + 1 + uint64(r.Intn(int(n)))) % n
				vrfkey, sealkey = idx, idx
			case 2:
				vrfkey = uint64(r.Intn(int(n) + 1))
			case 3:
				sealkey = uint64(r.Intn(int(n) + 1))
			case 4:
				vrftamper = uint64(1 + r.Intn(6))
			case 5:
				sealtamper = uint64(1 + r.Intn(6))
			case 6:
				shape = uint64(r.Intn(11))
			case 7:
				cut = uint64(1 + r.Intn(9))
			case 8:
				tag = []uint64{0, 4, 1, 2, 3, 0xff}[r.Intn(6)]
			case 9:
				if r.Chance(1, 2) {
					badkey = uint64(r.Intn(int(n)))
				} else if idx < n {
					badkey = idx
				}
			case 10:
				eq = uint64(1 + r.Intn(4))
			case 11: // the other secondary kind than the configuration allows
				switch allowed {
				case 1:
					tag = 3
				case 2:
					tag = 2
				default:
					tag = uint64(2 + r.Intn(2))
				}
				idx, vrfkey, sealkey = author, author, author
			}
		}
		if vrfkey >= uint64(int(n)+1) {
			vrfkey = n
		}
		if sealkey >= uint64(int(n)+1) {
			sealkey = n
		}
		emit(fmt.Sprintf("v %x %x %x %x %x %x %x %x %x %x %x %x %x %x %x %x %x %x", allowed, n, th[0], th[1], epoch, slot,
			rseed, kseed, badkey, shape, tag, idx, vrfkey, vrftamper, sealkey, sealtamper, cut, eq))
	}
}

func TestVerifC24(t *testing.T) {
	c24T = t
	vu.Run(t, "C24", 1500, c24Gen, c24Run)
}
