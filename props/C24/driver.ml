(* C24 driver: replays the Go trace on the extracted model.  The cryptographic verdicts are
   supplied to the model as the oracles recorded by the harness (computed there by calling the
   sr25519 primitives directly); an oracle answers only for the authority index, the verifier
   info (fork / data epoch) and the transcript epoch the harness evaluated it for, any other
   query is flagged.

   v / claim cases run verifyAuthorshipRight's model (Model.verify, claim_slot); ep cases run
   VerificationManager.VerifyBlock's model (Manager.verify_block: choice of the data epoch,
   stub failures); seq cases thread ONE model state (Manager.mstep: epochInfo cache and
   onDisabled table) through the VerifyBlock / SetOnDisabled steps. *)
open Model
open Vutil

let class_of (o : unit outcome) = match o with
  | Ok _ -> "ok"
  | Err c ->
    let c = int_of_nat c in
    let tbl = [ (e_missing, "missing"); (e_nopre, "nopre"); (e_noseal, "noseal"); (e_decode, "decode");
                (e_badidx, "badidx"); (e_over, "over"); (e_badslot, "badslot"); (e_badsec, "badsec");
                (e_badsig, "badsig"); (e_other, "other"); (e_equiv_err, "equiv-err");
                (e_equivocated, "equivocated");
                (m_noparent, "noparent"); (m_epoch, "epoch-err"); (m_parent_epoch, "pepoch-err");
                (m_epoch_lower, "epoch-lower"); (m_slotdur, "slotdur"); (m_info, "info-err") ] in
    (try List.assoc c (List.map (fun (a, b) -> (int_of_nat a, b)) tbl) with Not_found -> "err?")
  | Panic -> "panic"
  | OutOfFuel -> "fuel"

let sd_class_of (o : unit outcome) = match o with
  | Ok _ -> "ok"
  | Err c ->
    let c = int_of_nat c in
    if c = int_of_nat s_badidx then "badidx" else if c = int_of_nat s_already then "already" else "err"
  | _ -> "panic"

let field key s =
  let k = key ^ "=" in
  let kl = String.length k in
  if String.length s >= kl && String.sub s 0 kl = k then String.sub s kl (String.length s - kl)
  else fail "C24: expected field %s in %s" key s

(* the harness's own splitmix64 derivation of the randomness bytes (c24RndBytes) *)
let rng_bytes (seed : int64) (k : int) : byte list =
  let s = ref (Int64.add (Int64.mul seed 0x9E3779B97F4A7C15L) 0x1234567L) in
  let next () =
    s := Int64.add !s 0x9E3779B97F4A7C15L;
    let z = !s in
    let z = Int64.mul (Int64.logxor z (Int64.shift_right_logical z 30)) 0xBF58476D1CE4E5B9L in
    let z = Int64.mul (Int64.logxor z (Int64.shift_right_logical z 27)) 0x94D049BB133111EBL in
    Int64.logxor z (Int64.shift_right_logical z 31) in
  List.init k (fun _ -> byte_of_int (Int64.to_int (Int64.logand (next ()) 0xffL)))

let tri_of flag (s : string) = match s with
  | "1" -> T | "0" -> F | "e" -> E
  | _ -> flag := true; E

let babe = bytes_of_string "BABE"

let rec but_last = function [] -> [] | [_] -> [] | x :: r -> x :: but_last r

(* the header fields other than the digest, as far as the models look at them:
   (fork or 0, block number, step number or -1 for a parent) *)
type rest = int * int * int

(* the recorded oracles of one block as the closures the model takes *)
type blk = {
  data : byte list;
  digest : item list;
  c : cfg;
  claimed : n option;
  mismatch : bool ref;
  kv : n -> bool;
  bl : n -> n -> byte list -> tri;
  vv : n -> n -> byte list -> byte list -> tri;
  sv : n -> rest -> item list -> byte list -> tri;
}

let mk_cfg allowed n rseed =
  { n_auth = n; allowed = allowed; randomness = rng_bytes rseed 32 }

let mk_block (c : cfg) digest_of pre key below vrf seal : blk =
  let pre = field "pre" pre and key = field "key" key and below = field "below" below
  and vrf = field "vrf" vrf and seal = field "seal" seal in
  let data = if pre = "-" || pre = "e" then [] else bytes_of_hex pre in
  let digest = digest_of (PreRuntime (babe, data)) in
  let claimed = (match decode_predigest data with Some d -> Some (pd_idx d) | None -> None) in
  let mismatch = ref false in
  let for_claimed i v = if Some i = claimed then v () else (mismatch := true; E) in
  let kv i = if Some i = claimed then (match key with "1" -> true | "0" -> false | _ -> mismatch := true; false)
             else (mismatch := true; false) in
  let bl i _ _ = for_claimed i (fun () -> tri_of mismatch below) in
  let vv i _ _ _ = for_claimed i (fun () -> tri_of mismatch vrf) in
  (* the harness evaluated the seal over the header without its LAST digest item: the model must
     ask for exactly that pre-image *)
  let sv i _ dg _ = if dg <> but_last digest then (mismatch := true; E)
                    else for_claimed i (fun () -> tri_of mismatch seal) in
  { data; digest; c; claimed; mismatch; kv; bl; vv; sv }

let equiv_of eq = fun _ _ -> (match eq with "0" -> F | "2" -> T | _ -> E)

(* one verified block against Model.verify: configuration, digest layout (as the model sees it),
   equivocation stub mode and the observable fields;
   returns (prop, model_eq, in_scope, finding, tags, detail) *)
let eval_block (b : blk) allowed eq cls same =
  let equiv_o = equiv_of eq in
  let h = { h_rest = (0, 1, 0); h_digest = b.digest } in
  let m = class_of (verify b.kv b.bl b.vv b.sv equiv_o b.c h) in
  let mm1 = !(b.mismatch) in
  let mp = class_of (verify_prefix b.kv b.bl b.vv b.sv equiv_o b.c h) in
  b.mismatch := false;
  let auth = authorised_b b.kv b.bl b.vv b.sv equiv_o b.c h in
  let mm2 = !(b.mismatch) in
  b.mismatch := false;
  (* property predicate on the implementation's observable: passes <-> authorised.
     SecondarySlots > 2 is not one of the property's configurations: only the correspondence
     is checked there *)
  let in_scope = (allowed = "0" || allowed = "1" || allowed = "2") in
  let prop = (not in_scope || (cls = "ok") = auth) && same = "1" && not mm2 in
  (* guard of the finding: a well-formed secondary claim of the kind the configuration does not
     name.  Inside the guard a REJECTION may carry either the repaired code's error class
     (ErrBadSlotClaim) or the one the pinned code reaches later; an ACCEPTANCE there is the
     finding secondary-kind-not-checked (fixes/C24-secondary-kind.patch repairs it). *)
  let wrong = wrong_kind b.c b.digest in
  let eq_ = (m = cls || (wrong && cls <> "ok" && mp = cls)) && same = "1" && not mm1 in
  let finding = if not prop && wrong && in_scope && cls = "ok" && mp = cls then "secondary-kind-not-checked" else "-" in
  let kind = (match decode_predigest b.data with
    | Some (Primary _) -> "primary" | Some (SecPlain _) -> "plain" | Some (SecVRF _) -> "vrf" | None -> "undecodable") in
  let tags = ["class-" ^ m; "kind-" ^ kind; "allowed-" ^ allowed] @
             (if wrong then ["wrong-kind"] else []) @ (if auth then ["authorised"] else []) in
  let detail = if prop && eq_ then "" else
      Printf.sprintf "go=%s model=%s prefix-model=%s authorised=%b%s" cls m mp auth (if mm1 || mm2 then " ORACLE-MISMATCH" else "") in
  (prop, eq_, in_scope, finding, tags, detail)

let rec chunks6 = function
  | a :: b :: c :: d :: e :: f :: r -> (a, b, c, d, e, f) :: chunks6 r
  | [] -> []
  | _ -> fail "C24: bad seq steps"

let rec split_on_semi acc cur = function
  | [] -> List.rev (List.rev cur :: acc)
  | ";" :: r -> split_on_semi (List.rev cur :: acc) [] r
  | x :: r -> split_on_semi acc (x :: cur) r

let hexi s = int_of_string ("0x" ^ s)
let n_of_i = n_of_int

let digest_of_shape shape prei =
  let cons = Consensus (babe, []) and sl = Seal (babe, []) and pre2 = PreRuntime (bytes_of_string "aura", [])
  and fseal = Seal (bytes_of_string "aura", []) in
  match shape with
  | 0 -> [prei; sl] | 1 -> [prei; cons; sl] | 2 -> [prei] | 3 -> [sl; PreRuntime (babe, [])]
  | 4 -> [prei; sl; cons] | 5 -> [] | 6 -> [cons; PreRuntime (babe, []); sl] | 7 -> [prei; pre2; sl]
  | 8 -> [prei; fseal; sl] | 9 -> [prei; RuntimeEnvUpdated; sl]
  | 10 -> [prei; cons; fseal; RuntimeEnvUpdated; sl]
  | _ -> fail "C24: bad shape"

let sort_uniq_n (l : n list) = List.sort_uniq compare (List.map hex_of_n l)

let check inp obs =
  let f = split_ws inp and o = split_ws obs in
  match f with
  | ["v"; allowed; n; _c1; _c2; _epoch; _slot; rseed; _kseed; _badkey; shape; _tag; _idx; _vrfkey; _vrft; _sealkey;
     _sealt; cut; eq] ->
    (match o with
     | [cls; same; pre; key; below; vrf; seal] ->
       let shape = hexi shape in
       let c = mk_cfg (n_of_hex allowed) (n_of_hex n) (Int64.of_string ("0x" ^ rseed)) in
       let b = mk_block c (digest_of_shape shape) pre key below vrf seal in
       let (prop, eq_, in_scope, finding, tags, detail) = eval_block b allowed eq cls same in
       (* the same block through the manager model (genesis parent, own epoch, no stub failure) *)
       let hdr = { h_rest = (0, 1, 0); h_digest = b.digest } in
       let mb = class_of (verify_block (fun () -> c) (fun () -> b.kv) (fun () _ -> b.bl) (fun () _ -> b.vv)
                            (fun () -> b.sv) (equiv_of eq) (fun _ -> Some { h_rest = (0, 10, -1); h_digest = [] })
                            (fun _ -> true) (fun _ -> Some N0) true (fun _ _ -> Some ()) hdr) in
       let wrong = List.mem "wrong-kind" tags in
       let eq_ = eq_ && (mb = cls || (wrong && cls <> "ok")) in
       { prop_ok = prop; model_eq = eq_; nontrivial = in_scope; finding;
         tags = String.concat "," (tags @ (if shape >= 8 then ["extra-items-before-seal"] else [])
                                   @ (if hexi cut >= 6 then ["cut-inside-field"] else [])
                                   @ (if eq <> "0" then ["eq-mode-" ^ eq] else []));
         detail = if detail = "" && not eq_ then "manager-model=" ^ mb else detail }
     | _ -> { (ok ()) with model_eq = false; prop_ok = false; detail = "shape: " ^ obs })
  | ["ep"; allowed; n; _c1; _c2; rseed; _kseed; pg; pe; ce; _tag; _idx; _slot; _sd; _se; hm] ->
    (match o with
     | [cls; same; q; w; pre; key; below; vrf; seal] ->
       let q = field "q" q and w = n_of_hex (field "w" w) in
       let allowed = hexi allowed and n = n_of_hex n and rseed = Int64.of_string ("0x" ^ rseed) in
       let pg = hexi pg and hm = hexi hm in
       let pe = n_of_hex pe and ce = n_of_hex ce in
       (* the data the stub announces for epoch number d *)
       let cfg_of (d : n) =
         let di = Int64.of_string ("0x" ^ hex_of_n d) in
         mk_cfg (n_of_i ((allowed + Int64.to_int (Int64.rem di 3L)) mod 3)) n (Int64.add rseed (Int64.mul 7L di)) in
       (* the oracles were evaluated under the data of epoch w with ce in the transcript *)
       let b = mk_block (cfg_of w) (digest_of_shape 0) pre key below vrf seal in
       let for_info k v = if k = w then v () else (b.mismatch := true; v ()) in
       let for_tr k e v = if k = w && e = ce then v () else (b.mismatch := true; v ()) in
       let asked = ref [] in
       let info d _ = asked := d :: !asked; if hm = 4 || hm = 5 then None else Some d in
       let parent_h = { h_rest = (0, 10, -1); h_digest = [] } in
       let parent _ = if pg = 2 then None else Some parent_h in
       let is_genesis _ = (pg = 1) in
       let epoch_of (h : rest header) = (match h.h_rest with
         | (_, _, -1) -> if hm = 2 then None else Some pe
         | _ -> if hm = 1 then None else Some ce) in
       let hdr = { h_rest = (0, 1, 0); h_digest = b.digest } in
       let run g =
         g cfg_of (fun k i -> for_info k (fun () -> b.kv i)) (fun k e i s o -> for_tr k e (fun () -> b.bl i s o))
           (fun k e i s o p -> for_tr k e (fun () -> b.vv i s o p)) (fun k i r dg sg -> for_info k (fun () -> b.sv i r dg sg))
           (equiv_of "0") parent is_genesis epoch_of (hm <> 3) info hdr in
       let m = class_of (run verify_block) in
       let mm1 = !(b.mismatch) in
       let model_asked = sort_uniq_n !asked in
       b.mismatch := false;
       let auth = run block_authorised_b in
       let mm2 = !(b.mismatch) in
       let go_asked = if q = "-" then [] else List.sort_uniq compare (String.split_on_char '+' q) in
       (* property predicate on the implementation's observables: VerifyBlock passes <-> the block is
          authorised under the data of the epoch that governs it (C24_verify_block_iff) *)
       let prop = ((cls = "ok") = auth) && same = "1" && not mm2 in
       let eq_ = m = cls && same = "1" && not mm1 && model_asked = go_asked in
       let sel = (match select_epoch (pg = 1) (if pg = 1 then None else Some pe) ce with
           | Ok d -> if d = ce then "ep-own-epoch" else "ep-skipped-epochs"
           | _ -> "ep-refused") in
       { prop_ok = prop; model_eq = eq_; nontrivial = true; finding = "-";
         tags = String.concat "," (["ep"; "class-" ^ m; sel] @ (if auth then ["ep-authorised"] else [])
                                   @ (if pg = 1 then ["ep-genesis-parent"] else [])
                                   @ (if hm <> 0 || pg = 2 then ["ep-stub-failure"] else []));
         detail = if prop && eq_ then "" else
             Printf.sprintf "go=%s model=%s authorised=%b go-asked=%s model-asked=%s%s" cls m auth q
               (String.concat "+" model_asked) (if mm1 || mm2 then " ORACLE-MISMATCH" else "") }
     | _ -> { (ok ()) with model_eq = false; prop_ok = false; detail = "shape: " ^ obs })
  | "seq" :: epoch :: aA :: nA :: _ :: _ :: rA :: _kA :: aB :: nB :: _ :: _ :: rB :: _kB :: steps ->
    (* every block is judged by the epoch data of ITS OWN fork, whatever the manager verified before;
       the model state (epochInfo cache, onDisabled table) is threaded through all the steps *)
    let steps = chunks6 steps in
    let outs = split_on_semi [] [] o in
    if List.length steps <> List.length outs then
      { (ok ()) with model_eq = false; prop_ok = false; detail = "shape: " ^ obs }
    else begin
      let sl = Seal (babe, []) in
      let epoch = n_of_hex epoch in
      let cfg_fork k = if k = 1 then mk_cfg (n_of_hex aB) (n_of_hex nB) (Int64.of_string ("0x" ^ rB))
                       else mk_cfg (n_of_hex aA) (n_of_hex nA) (Int64.of_string ("0x" ^ rA)) in
      let st = ref ms_init in
      let sd_tags = ref [] in
      let stepno = ref 0 in
      let results = List.map2 (fun (op, fork, _sfork, _tag, idx, slot) out ->
          incr stepno;
          let fork = (hexi fork) mod 2 in
          let allowed = if fork = 1 then aB else aA in
          let num = 1 + (Int64.to_int (Int64.unsigned_rem (Int64.of_string ("0x" ^ slot)) 3L)) in
          let manager (b : blk option) hdr opv =
            let for_info k v dflt = (match b with
                | Some b -> if k = fork then v b else (b.mismatch := true; dflt)
                | None -> dflt) in
            mstep cfg_fork (fun k i -> for_info k (fun b -> b.kv i) false)
              (fun k e i s o -> for_info k (fun b -> if e = epoch then b.bl i s o else (b.mismatch := true; E)) E)
              (fun k e i s o p -> for_info k (fun b -> if e = epoch then b.vv i s o p else (b.mismatch := true; E)) E)
              (fun k i r dg sg -> for_info k (fun b -> b.sv i r dg sg) E)
              (equiv_of "0")
              (fun (h : rest header) -> let (fk, _, _) = h.h_rest in Some { h_rest = (fk, 10, -1); h_digest = [] })
              (fun _ -> false) (fun _ -> Some epoch) true
              (fun _ (h : rest header) -> let (fk, _, _) = h.h_rest in Some fk)
              (fun (a : rest header) (d : rest header) -> let (fa, _, _) = a.h_rest and (fd, _, _) = d.h_rest in Some (fa = fd))
              (fun (h : rest header) -> let (_, nm, _) = h.h_rest in n_of_i nm)
              !st opv in
          match op, out with
          | "1", [sd] ->
            let hdr = { h_rest = (fork, num, !stepno); h_digest = [] } in
            let idx32 = n_of_hex (Printf.sprintf "%Lx" (Int64.logand (Int64.of_string ("0x" ^ idx)) 0xffffffffL)) in
            let (st', res) = manager None hdr (OpDisable (idx32, hdr)) in
            st := st';
            let m = "sd:" ^ sd_class_of res in
            sd_tags := ("seq-" ^ (String.map (fun ch -> if ch = ':' then '-' else ch) m)) :: !sd_tags;
            (true, m = sd, true, "-", [], if m = sd then "" else Printf.sprintf "go=%s model=%s" sd m)
          | "0", [cls; same; pre; key; below; vrf; seal] ->
            let b = mk_block (cfg_fork fork) (fun prei -> [prei; sl]) pre key below vrf seal in
            let (prop, eq_, sc, fd, tags, detail) = eval_block b allowed "0" cls same in
            let hdr = { h_rest = (fork, num, !stepno); h_digest = b.digest } in
            let (st', res) = manager (Some b) hdr (OpVerify hdr) in
            st := st';
            let mb = class_of res in
            let wrong = List.mem "wrong-kind" tags in
            let eq2 = (mb = cls || (wrong && cls <> "ok")) && not !(b.mismatch) in
            (prop, eq_ && eq2, sc, fd, tags, if detail = "" && not eq2 then "manager-model=" ^ mb else detail)
          | _ -> fail "C24: bad seq observable %s" obs) steps outs in
      let blocks = results in
      let prop = List.for_all (fun (p, _, _, _, _, _) -> p) blocks
      and eq_ = List.for_all (fun (_, e, _, _, _, _) -> e) blocks in
      let finding = (match List.filter (fun (_, _, _, fd, _, _) -> fd <> "-") blocks with
          | (_, _, _, fd, _, _) :: _ when List.for_all (fun (p, e, _, fd', _, _) -> (p && e) || fd' <> "-") blocks -> fd
          | _ -> "-") in
      let n_ok = List.length (List.filter (fun (_, _, _, _, tags, _) -> List.mem "class-ok" tags) blocks) in
      { prop_ok = prop; model_eq = eq_; nontrivial = true; finding;
        tags = String.concat "," ([Printf.sprintf "seq,seq-accepted-%d" (min n_ok 3)] @ List.sort_uniq compare !sd_tags);
        detail = if prop && eq_ then "" else
            String.concat " | " (List.mapi (fun i (p, e, _, _, _, d) -> if p && e then Printf.sprintf "step%d ok" i else Printf.sprintf "step%d %s" i d) blocks) }
    end
  | ["claim"; allowed; n; _c1; _c2; _epoch; slot; rseed; _kseed; me] ->
    (match o with
     | [kind; vcls; below; pre] ->
       let below = field "below" below and pre = field "pre" pre in
       let c = mk_cfg (n_of_hex allowed) (n_of_hex n) (Int64.of_string ("0x" ^ rseed)) in
       let me = n_of_hex me and slot = n_of_hex slot in
       let mismatch = ref false in
       (* the VRF output/proof the Go claim produced (when it produced a VRF claim) *)
       let produced = (if pre = "-" then None else decode_predigest (bytes_of_hex pre)) in
       let outp = (match produced with
         | Some (Primary (_, _, o, p)) | Some (SecVRF (_, _, o, p)) -> (o, p)
         | _ -> ([], [])) in
       let below_o i _ _ = if i = me then tri_of mismatch below else (mismatch := true; E) in
       let vrf_sign _ _ _ = outp in
       let mc = claim_slot below_o vrf_sign c me slot in
       let mkind = (match mc with
         | Ok (Primary _) -> "P" | Ok (SecPlain _) -> "SP" | Ok (SecVRF _) -> "SV"
         | Err e -> let e = int_of_nat e in
           if e = int_of_nat c_notour then "err:notour" else if e = int_of_nat c_tech then "err:tech" else "err:other"
         | Panic -> "panic" | OutOfFuel -> "fuel") in
       (* own claims pass: under the hypotheses of C24_own_claims_pass (honest VRF proof and seal
          verify) the model verifies the sealed header of every produced claim *)
       let mv = (match mc with
         | Ok d ->
           let h = { h_rest = (0, 1, 0); h_digest = [PreRuntime (babe, encode_predigest d); Seal (babe, [])] } in
           class_of (verify (fun _ -> true) below_o (fun _ _ _ _ -> T) (fun _ _ _ _ -> T) (fun _ _ -> F) c h)
         | _ -> "-") in
       let claim_eq = (mkind = kind) && (match mc, produced with
           | Ok d, Some d' -> d = d'
           | Ok _, None -> false
           | _, _ -> pre = "-") in
       let eq_ = claim_eq && mv = vcls && not !mismatch in
       let prop = (vcls = "ok" || vcls = "-") && (pre = "-") = (vcls = "-") in
       { prop_ok = prop; model_eq = eq_; nontrivial = (pre <> "-"); finding = "-";
         tags = "claim-" ^ mkind ^ ",allowed-" ^ allowed;
         detail = if prop && eq_ then "" else Printf.sprintf "model claim=%s verify=%s%s" mkind mv (if !mismatch then " ORACLE-MISMATCH" else "") }
     | _ -> { (ok ()) with model_eq = false; prop_ok = false; detail = "shape: " ^ obs })
  | _ -> fail "C24: bad input %s" inp

(* ---- vm_compute cross-check: a v case re-evaluated inside Coq.  The oracles become Gallina
   functions that answer the recorded verdict for the claimed authority and E otherwise; the
   term compares Model.verify's outcome with the implementation's class (helpers oc_is /
   tri3 come from meta.json's vm_header). *)
let coq inp obs =
  match split_ws inp, split_ws obs with
  | ["v"; allowed; n; _; _; _; _; rseed; _; _; shape; _; _; _; _; _; _; _; eq],
    [cls; _same; pre; key; below; vrf; seal]
    when List.mem allowed ["0"; "1"; "2"] ->
    let shape = hexi shape in
    let c = mk_cfg (n_of_hex allowed) (n_of_hex n) (Int64.of_string ("0x" ^ rseed)) in
    let b = mk_block c (digest_of_shape shape) pre key below vrf seal in
    if wrong_kind b.c b.digest && cls <> "ok" then None else begin
      let code = (match cls with
        | "ok" -> Some 0 | "missing" -> Some 1 | "nopre" -> Some 2 | "noseal" -> Some 3 | "decode" -> Some 4
        | "badidx" -> Some 5 | "over" -> Some 6 | "badslot" -> Some 7 | "badsec" -> Some 8 | "badsig" -> Some 9
        | "other" -> Some 10 | "equiv-err" -> Some 11 | "equivocated" -> Some 12 | _ -> None) in
      match code with
      | None -> None
      | Some code ->
        let tri s = (match s with "1" -> "T" | "0" -> "F" | _ -> "E") in
        let item = function
          | PreRuntime (e, d) -> Printf.sprintf "PreRuntime %s %s" (coq_bytes e) (coq_bytes d)
          | Consensus (e, d) -> Printf.sprintf "Consensus %s %s" (coq_bytes e) (coq_bytes d)
          | Seal (e, d) -> Printf.sprintf "Seal %s %s" (coq_bytes e) (coq_bytes d)
          | RuntimeEnvUpdated -> "RuntimeEnvUpdated" in
        let cl = (match b.claimed with Some i -> coq_n i | None -> "(0xffffffffffffffffffff)%N") in
        Some (Printf.sprintf
          "oc_is (verify unit (fun i => andb (N.eqb i %s) %s) (fun i _ _ => tri3 (N.eqb i %s) %s) (fun i _ _ _ => tri3 (N.eqb i %s) %s) (fun i _ _ _ => tri3 (N.eqb i %s) %s) (fun _ _ => %s) {| n_auth := %s; allowed := %s; randomness := %s |} {| h_rest := tt; h_digest := [%s] |}) %d"
          cl (if field "key" key = "1" then "true" else "false")
          cl (tri (field "below" below)) cl (tri (field "vrf" vrf)) cl (tri (field "seal" seal))
          (match eq with "0" -> "F" | "2" -> "T" | _ -> "E")
          (coq_n b.c.n_auth) (coq_n b.c.allowed) (coq_bytes b.c.randomness)
          (String.concat "; " (List.map item b.digest)) code)
    end
  | _ -> None

let () = run_driver ~coq check
