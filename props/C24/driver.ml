(* C24 driver: replays the Go trace on the extracted model.  The cryptographic verdicts are
   supplied to the model as the oracles recorded by the harness (computed there by calling the
   sr25519 primitives directly); an oracle answers only for the authority index the harness
   evaluated it for, any other query is flagged. *)
open Model
open Vutil

let class_of (o : unit outcome) = match o with
  | Ok _ -> "ok"
  | Err c ->
    let c = int_of_nat c in
    let tbl = [ (e_missing, "missing"); (e_nopre, "nopre"); (e_noseal, "noseal"); (e_decode, "decode");
                (e_badidx, "badidx"); (e_over, "over"); (e_badslot, "badslot"); (e_badsec, "badsec");
                (e_badsig, "badsig"); (e_other, "other"); (e_equiv_err, "equiv-err");
                (e_equivocated, "equivocated") ] in
    (try List.assoc c (List.map (fun (a, b) -> (int_of_nat a, b)) tbl) with Not_found -> "err?")
  | Panic -> "panic"
  | OutOfFuel -> "fuel"

let field key s =
  let k = key ^ "=" in
  let kl = String.length k in
  if String.length s >= kl && String.sub s 0 kl = k then String.sub s kl (String.length s - kl)
  else fail "C24: expected field %s in %s" key s

(* splitmix64 as in harness/verifutil (NewRNG(seed).Bytes(32)) *)
let rng_bytes (seed : int64) (k : int) : byte list =
  let s = ref (Int64.add (Int64.mul seed 0x9E3779B97F4A7C15L) 0x1234567L) in
  let next () =
    s := Int64.add !s 0x9E3779B97F4A7C15L;
    let z = !s in
    let z = Int64.mul (Int64.logxor z (Int64.shift_right_logical z 30)) 0xBF58476D1CE4E5B9L in
    let z = Int64.mul (Int64.logxor z (Int64.shift_right_logical z 27)) 0x94D049BB133111EBL in
    Int64.logxor z (Int64.shift_right_logical z 31) in
  List.init k (fun _ -> byte_of_int (Int64.to_int (Int64.logand (next ()) 0xffL)))

let tri_of flag (s : string) = match s with
  | "1" -> T | "0" -> F | "e" -> E
  | _ -> flag := true; E

let babe = bytes_of_string "BABE"

let rec but_last = function [] -> [] | [_] -> [] | x :: r -> x :: but_last r

(* one verified block: configuration, digest layout (as the model sees it), equivocation stub mode
   and the observable fields; returns (prop, model_eq, finding, tags, detail) *)
let eval_block allowed n rseed digest_of eq cls same pre key below vrf seal =
  let pre = field "pre" pre and key = field "key" key and below = field "below" below
  and vrf = field "vrf" vrf and seal = field "seal" seal in
  let data = if pre = "-" || pre = "e" then [] else bytes_of_hex pre in
  let digest = digest_of (PreRuntime (babe, data)) in
  let c = { n_auth = n_of_hex n; allowed = n_of_hex allowed;
            randomness = rng_bytes (Int64.of_string ("0x" ^ rseed)) 32 } in
  let claimed = (match decode_predigest data with Some d -> Some (pd_idx d) | None -> None) in
  let mismatch = ref false in
  let for_claimed i v = if Some i = claimed then v () else (mismatch := true; E) in
  let key_valid i = if Some i = claimed then (match key with "1" -> true | "0" -> false | _ -> mismatch := true; false)
                    else (mismatch := true; false) in
  let below_o i _ _ = for_claimed i (fun () -> tri_of mismatch below) in
  let vrf_o i _ _ _ = for_claimed i (fun () -> tri_of mismatch vrf) in
  (* the harness evaluated the seal over the header without its LAST digest item: the model must
     ask for exactly that pre-image *)
  let seal_o i _ dg _ = if dg <> but_last digest then (mismatch := true; E)
                        else for_claimed i (fun () -> tri_of mismatch seal) in
  let equiv_o _ _ = (match eq with "0" -> F | "2" -> T | _ -> E) in
  let h = { h_rest = (); h_digest = digest } in
  let m = class_of (verify key_valid below_o vrf_o seal_o equiv_o c h) in
  let mm1 = !mismatch in
  let mp = class_of (verify_prefix key_valid below_o vrf_o seal_o equiv_o c h) in
  mismatch := false;
  let auth = authorised_b key_valid below_o vrf_o seal_o equiv_o c h in
  let mm2 = !mismatch in
  (* property predicate on the implementation's observable: passes <-> authorised.
     SecondarySlots > 2 is not one of the property's configurations: only the correspondence
     is checked there *)
  let in_scope = (allowed = "0" || allowed = "1" || allowed = "2") in
  let prop = (not in_scope || (cls = "ok") = auth) && same = "1" && not mm2 in
  (* guard of the finding: a well-formed secondary claim of the kind the configuration does not
     name.  Inside the guard a REJECTION may carry either the repaired code's error class
     (ErrBadSlotClaim) or the one the pinned code reaches later; an ACCEPTANCE there is the
     finding secondary-kind-not-checked (fixes/C24-secondary-kind.patch repairs it). *)
  let wrong = wrong_kind c digest in
  let eq_ = (m = cls || (wrong && cls <> "ok" && mp = cls)) && same = "1" && not mm1 in
  let finding = if not prop && wrong && in_scope && cls = "ok" && mp = cls then "secondary-kind-not-checked" else "-" in
  let kind = (match decode_predigest data with
    | Some (Primary _) -> "primary" | Some (SecPlain _) -> "plain" | Some (SecVRF _) -> "vrf" | None -> "undecodable") in
  let tags = ["class-" ^ m; "kind-" ^ kind; "allowed-" ^ allowed] @
             (if wrong then ["wrong-kind"] else []) @ (if auth then ["authorised"] else []) in
  let detail = if prop && eq_ then "" else
      Printf.sprintf "go=%s model=%s prefix-model=%s authorised=%b%s" cls m mp auth (if mm1 || mm2 then " ORACLE-MISMATCH" else "") in
  (prop, eq_, in_scope, finding, tags, detail)

let rec chunks6 = function
  | a :: b :: c :: d :: e :: f :: r -> (a, b, c, d, e, f) :: chunks6 r
  | [] -> []
  | _ -> fail "C24: bad seq steps"

let rec split_on_semi acc cur = function
  | [] -> List.rev (List.rev cur :: acc)
  | ";" :: r -> split_on_semi (List.rev cur :: acc) [] r
  | x :: r -> split_on_semi acc (x :: cur) r

let check inp obs =
  let f = split_ws inp and o = split_ws obs in
  match f with
  | ["v"; allowed; n; _c1; _c2; _epoch; _slot; rseed; _kseed; _badkey; shape; _tag; _idx; _vrfkey; _vrft; _sealkey;
     _sealt; _cut; eq] ->
    (match o with
     | [cls; same; pre; key; below; vrf; seal] ->
       let cons = Consensus (babe, []) and sl = Seal (babe, []) and pre2 = PreRuntime (bytes_of_string "aura", [])
       and fseal = Seal (bytes_of_string "aura", []) in
       let shape = int_of_string ("0x" ^ shape) in
       let digest_of prei = (match shape with
         | 0 -> [prei; sl] | 1 -> [prei; cons; sl] | 2 -> [prei] | 3 -> [sl; PreRuntime (babe, [])]
         | 4 -> [prei; sl; cons] | 5 -> [] | 6 -> [cons; PreRuntime (babe, []); sl] | 7 -> [prei; pre2; sl]
         | 8 -> [prei; fseal; sl] | 9 -> [prei; RuntimeEnvUpdated; sl]
         | 10 -> [prei; cons; fseal; RuntimeEnvUpdated; sl]
         | _ -> fail "C24: bad shape") in
       let (prop, eq_, in_scope, finding, tags, detail) =
         eval_block allowed n rseed digest_of eq cls same pre key below vrf seal in
       { prop_ok = prop; model_eq = eq_; nontrivial = in_scope; finding;
         tags = String.concat "," (tags @ (if shape >= 8 then ["extra-items-before-seal"] else [])); detail }
     | _ -> { (ok ()) with model_eq = false; prop_ok = false; detail = "shape: " ^ obs })
  | "seq" :: _epoch :: aA :: nA :: _ :: _ :: rA :: _kA :: aB :: nB :: _ :: _ :: rB :: _kB :: steps ->
    (* every block is judged by the epoch data of ITS OWN fork, whatever the manager verified before *)
    let steps = chunks6 steps in
    let outs = split_on_semi [] [] o in
    if List.length steps <> List.length outs then
      { (ok ()) with model_eq = false; prop_ok = false; detail = "shape: " ^ obs }
    else begin
      let sl = Seal (babe, []) in
      let results = List.map2 (fun (op, fork, _sfork, _tag, _idx, _slot) out ->
          let second = (int_of_string ("0x" ^ fork)) mod 2 = 1 in
          let (allowed, n, rseed) = if second then (aB, nB, rB) else (aA, nA, rA) in
          match op, out with
          | "1", ["sd"] -> None
          | "0", [cls; same; pre; key; below; vrf; seal] ->
            Some (eval_block allowed n rseed (fun prei -> [prei; sl]) "0" cls same pre key below vrf seal)
          | _ -> fail "C24: bad seq observable %s" obs) steps outs in
      let blocks = List.filter_map (fun x -> x) results in
      let prop = List.for_all (fun (p, _, _, _, _, _) -> p) blocks
      and eq_ = List.for_all (fun (_, e, _, _, _, _) -> e) blocks in
      let finding = (match List.filter (fun (_, _, _, fd, _, _) -> fd <> "-") blocks with
          | (_, _, _, fd, _, _) :: _ when List.for_all (fun (p, e, _, fd', _, _) -> (p && e) || fd' <> "-") blocks -> fd
          | _ -> "-") in
      let n_ok = List.length (List.filter (fun (_, _, _, _, tags, _) -> List.mem "class-ok" tags) blocks) in
      { prop_ok = prop; model_eq = eq_; nontrivial = true; finding;
        tags = Printf.sprintf "seq,seq-accepted-%d" (min n_ok 3);
        detail = if prop && eq_ then "" else
            String.concat " | " (List.mapi (fun i (p, e, _, _, _, d) -> if p && e then Printf.sprintf "step%d ok" i else Printf.sprintf "step%d %s" i d) blocks) }
    end
  | ["claim"; allowed; n; _c1; _c2; _epoch; slot; rseed; _kseed; me] ->
    (match o with
     | [kind; vcls; below; pre] ->
       let below = field "below" below and pre = field "pre" pre in
       let c = { n_auth = n_of_hex n; allowed = n_of_hex allowed;
                 randomness = rng_bytes (Int64.of_string ("0x" ^ rseed)) 32 } in
       let me = n_of_hex me and slot = n_of_hex slot in
       let mismatch = ref false in
       (* the VRF output/proof the Go claim produced (when it produced a VRF claim) *)
       let produced = (if pre = "-" then None else decode_predigest (bytes_of_hex pre)) in
       let outp = (match produced with
         | Some (Primary (_, _, o, p)) | Some (SecVRF (_, _, o, p)) -> (o, p)
         | _ -> ([], [])) in
       let below_o i _ _ = if i = me then tri_of mismatch below else (mismatch := true; E) in
       let vrf_sign _ _ _ = outp in
       let mc = claim_slot below_o vrf_sign c me slot in
       let mkind = (match mc with
         | Ok (Primary _) -> "P" | Ok (SecPlain _) -> "SP" | Ok (SecVRF _) -> "SV"
         | Err e -> let e = int_of_nat e in
           if e = int_of_nat c_notour then "err:notour" else if e = int_of_nat c_tech then "err:tech" else "err:other"
         | Panic -> "panic" | OutOfFuel -> "fuel") in
       (* own claims pass: under the hypotheses of C24_own_claims_pass (honest VRF proof and seal
          verify) the model verifies the sealed header of every produced claim *)
       let mv = (match mc with
         | Ok d ->
           let h = { h_rest = (); h_digest = [PreRuntime (babe, encode_predigest d); Seal (babe, [])] } in
           class_of (verify (fun _ -> true) below_o (fun _ _ _ _ -> T) (fun _ _ _ _ -> T) (fun _ _ -> F) c h)
         | _ -> "-") in
       let claim_eq = (mkind = kind) && (match mc, produced with
           | Ok d, Some d' -> d = d'
           | Ok _, None -> false
           | _, _ -> pre = "-") in
       let eq_ = claim_eq && mv = vcls && not !mismatch in
       let prop = (vcls = "ok" || vcls = "-") && (pre = "-") = (vcls = "-") in
       { prop_ok = prop; model_eq = eq_; nontrivial = (pre <> "-"); finding = "-";
         tags = "claim-" ^ mkind ^ ",allowed-" ^ allowed;
         detail = if prop && eq_ then "" else Printf.sprintf "model claim=%s verify=%s%s" mkind mv (if !mismatch then " ORACLE-MISMATCH" else "") }
     | _ -> { (ok ()) with model_eq = false; prop_ok = false; detail = "shape: " ^ obs })
  | _ -> fail "C24: bad input %s" inp

let () = run_driver check
