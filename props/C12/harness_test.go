// C12 correspondence harness (injected into package pkg/scale by `go test -overlay`, together
// with props/C11/univ_test.go which documents the type / value grammar).
//
// inputs:
//   dec <kind> <type> <hex bytes> [<dirt>]   decode the bytes into a fresh destination of the described Go
//                                     type with scale.NewDecoder(bytes.NewBuffer(b)).Decode; with the fourth
//                                     field the destination already holds the value <dirt> (kind dirty)
//       kind (how the generator made the bytes; a coverage tag only): valid trail trunc flip
//       subst rand noncanon hostile mapdup bigvalid
// observables:
//   ok <value text> <consumed bytes, hex> <s|L>   |   err <s|L>   |   panic
//       s|L: runtime.MemStats.TotalAlloc grew by at most / by more than 256 KiB + 2048 * len(input)
//       during the decode ("allocates much more memory than the input could describe" = L)
package scale

import (
	"bytes"
	"fmt"
	"math/big"
	"reflect"
	"runtime"
	"runtime/debug"
	"strings"
	"testing"

	vu "github.com/ChainSafe/gossamer/internal/verifutil"
)

func c12Compact(n uint64) []byte {
	b, err := Marshal(new(big.Int).SetUint64(n))
	if err != nil {
		panic(err)
	}
	return b
}

// a non-canonical compact form of n: a longer mode than needed, or a big mode with zero top bytes
func c12NonCanonical(r *vu.RNG, n uint64) []byte {
	switch r.Intn(4) {
	case 0: // two-byte mode
		if n < 1<<14 {
			v := uint16(n<<2) | 1
			return []byte{byte(v), byte(v >> 8)}
		}
	case 1: // four-byte mode
		if n < 1<<30 {
			v := uint32(n<<2) | 2
			return []byte{byte(v), byte(v >> 8), byte(v >> 16), byte(v >> 24)}
		}
	}
	// big mode with k bytes, k in 4..12 (top bytes zero unless n needs them)
	k := r.Range(4, 12)
	out := []byte{byte((k-4)<<2 | 3)}
	for i := 0; i < k; i++ {
		if i < 8 {
			out = append(out, byte(n>>(8*uint(i))))
		} else {
			out = append(out, 0)
		}
	}
	return out
}

func c12Emit(emit func(string), kind, d string, b []byte) {
	if c12MaxDeclared(svuParseTy(d), b) > 1<<20 {
		return
	}
	emit("dec " + kind + " " + d + " " + vu.Hex(b))
}
// c12MaxDeclared walks the input the way the decoder does (short reads taken as zero-filled, the
// superset of both trees) and returns the largest byte-string length the input declares.  The
// generator drops inputs declaring more than 1 MiB: decodeBytes really allocates (and clears)
// the declared length, up to 4 GiB per case.
type c12Walk struct {
	data []byte
	pos  int
	max  uint64
	stop bool
}

func (w *c12Walk) read(k int) []byte {
	buf := make([]byte, k)
	if k == 0 {
		return buf
	}
	if w.pos >= len(w.data) {
		w.stop = true
		return buf
	}
	n := copy(buf, w.data[w.pos:])
	w.pos += n
	return buf
}

func (w *c12Walk) compact(bigOK bool) uint64 {
	p := w.read(1)
	if w.stop {
		return 0
	}
	le := func(b []byte) uint64 {
		var v uint64
		for i := len(b) - 1; i >= 0; i-- {
			v = v<<8 | uint64(b[i])
		}
		return v
	}
	switch p[0] & 3 {
	case 0:
		return uint64(p[0] >> 2)
	case 1:
		b := w.read(1)
		return (uint64(p[0]) | uint64(b[0])<<8) >> 2
	case 2:
		b := w.read(3)
		return (uint64(p[0]) | le(b)<<8) >> 2
	}
	k := int(p[0]>>2) + 4
	b := w.read(k)
	if k > 8 {
		if !bigOK {
			w.stop = true
		}
		return 0
	}
	return le(b)
}

func (w *c12Walk) walk(t *svuTy) {
	if w.stop {
		return
	}
	switch t.kind {
	case svuPrim:
		switch t.prim {
		case "u8", "i8", "bool":
			w.read(1)
		case "u16", "i16":
			w.read(2)
		case "u32", "i32":
			w.read(4)
		case "u64", "i64":
			w.read(8)
		case "u128":
			w.read(16)
		case "uint", "int":
			w.compact(false)
		case "big":
			w.compact(true)
		default: // bytes, str
			l := w.compact(false)
			if w.stop || l > 1<<32-1 {
				w.stop = true
				return
			}
			if l > w.max {
				w.max = l
			}
			if l > uint64(len(w.data)-w.pos) {
				if l > 0 && w.pos >= len(w.data) {
					w.stop = true
				}
				w.pos = len(w.data)
			} else {
				w.pos += int(l)
			}
		}
	case svuOpt:
		b := w.read(1)
		if !w.stop && b[0] == 1 {
			w.walk(t.a)
		} else if b[0] != 0 {
			w.stop = true
		}
	case svuRes:
		b := w.read(1)
		if w.stop {
			return
		}
		switch b[0] {
		case 0:
			w.walk(t.a)
		case 1:
			w.walk(t.b)
		default:
			w.stop = true
		}
	case svuEnum:
		b := w.read(1)
		if w.stop {
			return
		}
		for i, ix := range t.idx {
			if ix == uint(b[0]) {
				w.walk(t.fs[i])
				return
			}
		}
		w.stop = true
	case svuArr:
		for i := 0; i < t.n && !w.stop; i++ {
			w.walk(t.a)
		}
	case svuSl:
		n := w.compact(false)
		for i := uint64(0); i < n && !w.stop; i++ {
			w.walk(t.a)
		}
	case svuMap:
		n := w.compact(false)
		for i := uint64(0); i < n && !w.stop; i++ {
			w.walk(t.a)
			w.walk(t.b)
		}
	case svuSt:
		// wire order: tagged fields by ascending tag, then the untagged ones
		done := make([]bool, len(t.fs))
		for {
			best := -1
			for i, tg := range t.tags {
				if !done[i] && tg >= 0 && (best < 0 || tg < t.tags[best]) {
					best = i
				}
			}
			if best < 0 {
				break
			}
			done[best] = true
			w.walk(t.fs[best])
		}
		for i, tg := range t.tags {
			if tg < 0 {
				w.walk(t.fs[i])
			}
		}
	}
}

func c12MaxDeclared(t *svuTy, data []byte) uint64 {
	w := &c12Walk{data: data}
	w.walk(t)
	return w.max
}


func c12Gen(r *vu.RNG, n int, emit func(string)) {
	// fixed corpus: the confirmed defects of the pinned tree and boundary cases
	c12Emit(emit, "trunc", "u32", []byte{1, 2})
	c12Emit(emit, "trunc", "u16", []byte{1})
	c12Emit(emit, "trunc", "u64", []byte{1, 2, 3, 4, 5, 6, 7})
	c12Emit(emit, "trunc", "i32", []byte{0xff})
	c12Emit(emit, "trunc", "uint", []byte{0x02, 0x00, 0x01})
	c12Emit(emit, "trunc", "arr(3,u16)", []byte{1, 0, 2, 0, 3})
	c12Emit(emit, "trunc", "bytes", []byte{0x08, 0x41})
	c12Emit(emit, "trunc", "str", []byte{0x0c, 0x41})
	c12Emit(emit, "trunc", "u128", []byte{1, 2, 3})
	c12Emit(emit, "noncanon", "big", []byte{0x01, 0x00})
	c12Emit(emit, "noncanon", "big", []byte{0x02, 0x00, 0x00, 0x00})
	c12Emit(emit, "noncanon", "big", []byte{0x03, 0x01, 0x00, 0x00, 0x00})
	c12Emit(emit, "noncanon", "big", []byte{0x07, 0x00, 0x00, 0x00, 0x40, 0x00})
	c12Emit(emit, "noncanon", "uint", []byte{0x01, 0x00})
	c12Emit(emit, "noncanon", "uint", []byte{0x03, 0x01, 0x00, 0x00, 0x00})
	c12Emit(emit, "noncanon", "uint", []byte{0x13, 1, 0, 0, 0, 0, 0, 0, 0})
	c12Emit(emit, "valid", "uint", []byte{0x07, 0, 0, 0, 0, 1})
	// every compact boundary, in the mode just above (non-canonical) and just at (canonical)
	for _, d := range []string{"uint", "int", "big", "bytes", "sl(u16)", "map(u8,u8)", "opt(uint)"} {
		pre := []byte{}
		if d == "opt(uint)" {
			pre = []byte{1}
		}
		for _, b := range [][]byte{
			{0xfd, 0x00}, {0x01, 0x01}, // 63 / 64 in two-byte mode
			{0xfe, 0xff, 0x00, 0x00}, {0x02, 0x00, 0x01, 0x00}, // 16383 / 16384 in four-byte mode
			{0x03, 0xff, 0xff, 0xff, 0x3f}, {0x03, 0x00, 0x00, 0x00, 0x40}, // 2^30-1 / 2^30 in big mode, 4 bytes
			{0x07, 0xff, 0xff, 0xff, 0xff, 0x00}, {0x07, 0x00, 0x00, 0x00, 0x00, 0x01}, // 5 bytes: zero top byte / 2^32
			{0x13, 0xff, 0xff, 0xff, 0xff, 0xff, 0xff, 0xff, 0x00}, {0x13, 0, 0, 0, 0, 0, 0, 0, 0x01}, // 2^56-1 / 2^56 in 8 bytes
			{0x17, 0xff, 0xff, 0xff, 0xff, 0xff, 0xff, 0xff, 0xff, 0x00}, {0x17, 0, 0, 0, 0, 0, 0, 0, 0, 0x01}, // 9 bytes
		} {
			if d != "uint" && d != "int" && d != "big" && d != "opt(uint)" && len(b) > 2 {
				continue // length prefixes: only the small ones (no huge declared lengths)
			}
			c12Emit(emit, "noncanon", d, append(append([]byte{}, pre...), b...))
		}
	}
	c12Emit(emit, "hostile", "bytes", []byte{0x02, 0x00, 0x20, 0x00, 0x41})             // 512 KiB declared
	c12Emit(emit, "hostile", "str", []byte{0x02, 0x00, 0x40, 0x00, 0x41})               // 1 MiB declared
	c12Emit(emit, "hostile", "sl(bytes)", []byte{0x04, 0x02, 0x00, 0x30, 0x00, 0x41})   // 768 KiB declared
	c12Emit(emit, "hostile", "sl(u16)", []byte{0x03, 0xff, 0xff, 0xff, 0xff, 0x41})      // 4 Gi elements declared
	c12Emit(emit, "hostile", "sl(nm(u8))", []byte{0x02, 0x00, 0x28, 0x00, 0x41})             // []byte: 640 KiB declared
	c12Emit(emit, "hostile", "sl(u64)", []byte{0x13, 0xff, 0xff, 0xff, 0xff, 0xff, 0xff, 0xff, 0xff, 0x41})
	c12Emit(emit, "hostile", "map(u8,u8)", []byte{0x03, 0xff, 0xff, 0xff, 0xff, 1, 2})
	c12Emit(emit, "mapdup", "map(u8,u8)", []byte{0x04, 1, 2})
	c12Emit(emit, "mapdup", "map(u8,u8)", []byte{0x08, 1, 1, 1, 2})
	c12Emit(emit, "mapdup", "map(u8,u8)", []byte{0x08, 2, 1, 1, 2})
	c12Emit(emit, "mapdup", "map(u8,u8)", []byte{0x08, 1, 1, 2, 2})
	// reused destinations (the result must not depend on what the destination held)
	emit("dec dirty opt(u16) 00 S7")
	emit("dec dirty opt(u16) 010500 S7")
	emit("dec dirty st(_:bytes,_:opt(str),_:uint) 000000 [010203,S616263,7]")
	emit("dec dirty sl(opt(u64)) 0400 [S1,S2,S3]")
	emit("dec dirty sl(u16) 00 [1,2,3]")
	emit("dec dirty arr(2,opt(bool)) 000100 [St,St]")
	emit("dec dirty st(_:res(u8,bool),_:u16) 01010000 [U,7]")
	emit("dec dirty " + svuEnumC + " 0900 V9:S5")
	emit("dec dirty bytes 00 aabbcc")
	emit("dec dirty big 00 ffffffffffffffffffff")
	emit("dec dirty opt(bytes) 00 Saabb")
	emit("dec dirty st(_:u8,_:u16,_:u32) 01 [9,9,9]") // truncated: fails whatever the destination held
	// finding dirty-nested-option: Some into a destination holding Some of a pointer-represented type
	emit("dec dirty opt(opt(u16)) 01010500 SN")    // panics
	emit("dec dirty opt(opt(u16)) 01010500 SS7")   // decodes the u16 from the inner option byte
	emit("dec dirty opt(big) 0114 S4d")            // keeps 0x4d, consumes one byte
	emit("dec dirty opt(u128) 0101000000000000000000000000000000 S7")
	// maps with two entries in ascending / equal / descending key order, every map type of the table
	for _, d := range svuTable {
		t := svuParseTy(d)
		if t.kind != svuMap {
			continue
		}
		for i := 0; i < 8; i++ {
			c12MapDup(r, emit, d, t)
		}
	}
	c12Emit(emit, "rand", "bool", []byte{2})
	c12Emit(emit, "rand", "opt(u8)", []byte{2, 0})
	c12Emit(emit, "rand", "res(u8,u8)", []byte{2, 0})
	c12Emit(emit, "rand", svuEnumA, []byte{2, 0})
	for _, d := range svuTable {
		c12Emit(emit, "rand", d, nil)
	}
	// every truncation of a valid encoding of every table type
	for _, d := range svuTable {
		t := svuParseTy(d)
		budget := 60
		v := svuBuild(t, svuGenVal(r, t, &budget))
		if c11HasNilVDTOption(t, v) {
			continue
		}
		enc, err := Marshal(v.Interface())
		if err != nil || len(enc) > 300 {
			continue
		}
		for i := 0; i < len(enc); i++ {
			c12Emit(emit, "trunc", d, enc[:i])
		}
		c12Emit(emit, "valid", d, enc)
	}
	// a few large valid byte strings: allocation proportional to the input is fine
	for _, l := range []int{4095, 4096, 4097, 8192, 12289, 30000} {
		b := append(c12Compact(uint64(l)), bytes.Repeat([]byte{0x5a}, l)...)
		c12Emit(emit, "bigvalid", "bytes", b)
		c12Emit(emit, "trunc", "bytes", b[:len(b)-1])
		c12Emit(emit, "trunc", "str", b[:len(b)/2])
	}
	for i := 0; i < n; i++ {
		d := svuPickTy(r)
		t := svuParseTy(d)
		budget := 120
		var enc []byte
		if !r.Chance(1, 12) {
			v := svuBuild(t, svuGenVal(r, t, &budget))
			if c11HasNilVDTOption(t, v) {
				continue
			}
			var err error
			enc, err = Marshal(v.Interface())
			if err != nil {
				continue
			}
		}
		sel := r.Intn(24)
		if sel == 21 {
			sel = 4 // hostile lengths are expensive to replay on the model: 1 in 24
		}
		switch sel / 2 {
		case 0:
			c12Emit(emit, "valid", d, enc)
		case 1:
			c12Emit(emit, "trail", d, append(append([]byte{}, enc...), r.Bytes(1+r.Intn(4))...))
		case 2, 3, 4:
			if len(enc) > 0 {
				c12Emit(emit, "trunc", d, enc[:r.Intn(len(enc))])
			}
		case 5, 6:
			if len(enc) > 0 {
				b := append([]byte{}, enc...)
				for k := 0; k <= r.Intn(2); k++ {
					b[r.Intn(len(b))] ^= 1 << uint(r.Intn(8))
				}
				c12Emit(emit, "flip", d, b)
			}
		case 7:
			if len(enc) > 0 {
				b := append([]byte{}, enc...)
				b[r.Intn(len(b))] = []byte{0, 1, 2, 3, 0xfc, 0xfd, 0xfe, 0xff, 0x80}[r.Intn(9)]
				c12Emit(emit, "subst", d, b)
			}
		case 8:
			c12Emit(emit, "rand", d, r.Bytes(r.Intn(12)))
		case 9: // a non-canonical compact integer where the type starts with one
			switch t.kind {
			case svuPrim:
				if t.prim == "uint" || t.prim == "big" || t.prim == "int" || t.prim == "bytes" || t.prim == "str" {
					x := svuGenU(r, 64)
					if r.Chance(1, 2) { // just below a mode boundary: the longer mode is non-canonical
						x = []uint64{63, 16383, 1<<30 - 1, 1<<32 - 1, 1<<56 - 1}[r.Intn(5)] - uint64(r.Intn(2))
					}
					if t.prim == "bytes" || t.prim == "str" {
						x = uint64(r.Intn(5))
					}
					b := c12NonCanonical(r, x)
					c12Emit(emit, "noncanon", d, append(b, r.Bytes(int(x%6))...))
				}
			case svuSl, svuMap:
				x := uint64(r.Intn(3))
				c12Emit(emit, "noncanon", d, append(c12NonCanonical(r, x), r.Bytes(r.Intn(8))...))
			}
		case 10: // hostile length prefix: a huge declared length and a few bytes
			// (declared byte-string lengths between 512 KiB and 1 MiB: decodeBytes really allocates them)
			l := uint64(512<<10 + r.Intn(512<<10))
			bytesLike := t.kind == svuPrim && (t.prim == "bytes" || t.prim == "str") ||
				t.kind == svuSl && t.a.kind == svuPrim && t.a.prim == "u8" && !t.a.named
			if (t.kind == svuSl || t.kind == svuMap) && !bytesLike && r.Chance(1, 2) {
				if r.Chance(1, 2) {
					l = 1<<32 - 1 - uint64(r.Intn(3))
				} else {
					l = svuGenU(r, 64) | 1<<33
				}
			}
			pre := c12Compact(l)
			tail := r.Bytes(r.Intn(6))
			if bytesLike || t.kind == svuSl || t.kind == svuMap {
				c12Emit(emit, "hostile", d, append(pre, tail...))
			} else if len(enc) > 0 {
				// put the hostile prefix somewhere inside
				p := r.Intn(len(enc))
				c12Emit(emit, "hostile", d, append(append(append([]byte{}, enc[:p]...), pre...), tail...))
			}
		default: // maps with duplicate / descending keys; decoding into a reused destination
			if t.kind == svuMap {
				c12MapDup(r, emit, d, t)
			} else if len(enc) > 0 {
				db := 60
				dirt := svuGenDirt(r, t, &db)
				b := enc
				if r.Chance(1, 4) {
					b = enc[:r.Intn(len(enc))]
				}
				if c12MaxDeclared(t, b) <= 1<<20 {
					emit("dec dirty " + d + " " + vu.Hex(b) + " " + dirt)
				}
			}
		}
	}
}

// c12MapDup emits a two-entry map encoding whose keys come from a small range, in any order
// (ascending = canonical, equal = duplicate, descending), for any map type.
func c12MapDup(r *vu.RNG, emit func(string), d string, t *svuTy) {
	b := []byte{8}
	for i := 0; i < 2; i++ {
		k := svuBuild(t.a, vu.X(uint64(r.Intn(3))))
		ek, err := Marshal(k.Interface())
		if err != nil {
			return
		}
		budget := 20
		v := svuBuild(t.b, svuGenVal(r, t.b, &budget))
		if c11HasNilVDTOption(t.b, v) {
			return
		}
		ev, err := Marshal(v.Interface())
		if err != nil {
			return
		}
		b = append(append(b, ek...), ev...)
	}
	c12Emit(emit, "mapdup", d, b)
}

// Marshal panics on a nil pointer to a VaryingDataType on the pinned tree (C11 nil-option); the
// C12 generator only uses Marshal to obtain well-formed bytes, so it avoids those values.
func c11HasNilVDTOption(t *svuTy, v reflect.Value) bool {
	return strings.Contains(svuRender(t, v), "N") && strings.Contains(fmt.Sprint(t.gt), "svuVDT")
}

// cumulative bytes allocated on the heap; ReadMemStats flushes the per-P caches first, so the
// difference around a call is exact
func c12AllocBytes() uint64 {
	var ms runtime.MemStats
	runtime.ReadMemStats(&ms)
	return ms.TotalAlloc
}

func c12Run(in string) string {
	f := strings.Split(in, " ")
	if (len(f) != 4 && len(f) != 5) || f[0] != "dec" {
		return "err:badinput"
	}
	t := svuParseTy(f[2])
	data := vu.UnHex(f[3])
	dst := reflect.New(t.gt)
	if len(f) == 5 {
		dst.Elem().Set(svuBuild(t, f[4]))
	} else {
		dst.Elem().Set(svuFresh(t))
	}
	buf := bytes.NewBuffer(data)
	dec := NewDecoder(buf)
	before := c12AllocBytes()
	err := dec.Decode(dst.Interface())
	after := c12AllocBytes()
	bucket := "s"
	if after-before > 256<<10+2048*uint64(len(data)) {
		bucket = "L"
	}
	if err != nil {
		return "err " + bucket
	}
	return "ok " + svuRender(t, dst.Elem()) + " " + vu.X(uint64(len(data)-buf.Len())) + " " + bucket
}

func TestVerifC12(t *testing.T) {
	debug.SetMemoryLimit(3 << 30)
	vu.Run(t, "C12", 30000, c12Gen, c12Run)
}
