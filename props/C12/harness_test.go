// C12 correspondence harness (injected into package pkg/scale by `go test -overlay`, together
// with props/C11/univ_test.go which documents the type / value grammar).
//
// inputs:
//   dec <kind> <type> <hex bytes>     decode the bytes into a fresh destination of the described Go
//                                     type with scale.NewDecoder(bytes.NewBuffer(b)).Decode
//       kind (how the generator made the bytes; a coverage tag only): valid trail trunc flip
//       subst rand noncanon hostile mapdup bigvalid
// observables:
//   ok <value text> <consumed bytes, hex> <s|L>   |   err <s|L>   |   panic
//       s|L: runtime.MemStats.TotalAlloc grew by at most / by more than 1 MiB + 2048 * len(input)
//       during the decode ("allocates much more memory than the input could describe" = L)
package scale

import (
	"bytes"
	"fmt"
	"math/big"
	"reflect"
	"runtime"
	"runtime/debug"
	"strings"
	"testing"

	vu "github.com/ChainSafe/gossamer/internal/verifutil"
)

func c12Compact(n uint64) []byte {
	b, err := Marshal(new(big.Int).SetUint64(n))
	if err != nil {
		panic(err)
	}
	return b
}

// a non-canonical compact form of n: a longer mode than needed, or a big mode with zero top bytes
func c12NonCanonical(r *vu.RNG, n uint64) []byte {
	switch r.Intn(4) {
	case 0: // two-byte mode
		if n < 1<<14 {
			v := uint16(n<<2) | 1
			return []byte{byte(v), byte(v >> 8)}
		}
	case 1: // four-byte mode
		if n < 1<<30 {
			v := uint32(n<<2) | 2
			return []byte{byte(v), byte(v >> 8), byte(v >> 16), byte(v >> 24)}
		}
	}
	// big mode with k bytes, k in 4..12 (top bytes zero unless n needs them)
	k := r.Range(4, 12)
	out := []byte{byte((k-4)<<2 | 3)}
	for i := 0; i < k; i++ {
		if i < 8 {
			out = append(out, byte(n>>(8*uint(i))))
		} else {
			out = append(out, 0)
		}
	}
	return out
}

func c12Emit(emit func(string), kind, d string, b []byte) {
	emit("dec " + kind + " " + d + " " + vu.Hex(b))
}

func c12Gen(r *vu.RNG, n int, emit func(string)) {
	// fixed corpus: the confirmed defects of the pinned tree and boundary cases
	c12Emit(emit, "trunc", "u32", []byte{1, 2})
	c12Emit(emit, "trunc", "u16", []byte{1})
	c12Emit(emit, "trunc", "u64", []byte{1, 2, 3, 4, 5, 6, 7})
	c12Emit(emit, "trunc", "i32", []byte{0xff})
	c12Emit(emit, "trunc", "uint", []byte{0x02, 0x00, 0x01})
	c12Emit(emit, "trunc", "arr(3,u16)", []byte{1, 0, 2, 0, 3})
	c12Emit(emit, "trunc", "bytes", []byte{0x08, 0x41})
	c12Emit(emit, "trunc", "str", []byte{0x0c, 0x41})
	c12Emit(emit, "trunc", "u128", []byte{1, 2, 3})
	c12Emit(emit, "noncanon", "big", []byte{0x01, 0x00})
	c12Emit(emit, "noncanon", "big", []byte{0x02, 0x00, 0x00, 0x00})
	c12Emit(emit, "noncanon", "big", []byte{0x03, 0x01, 0x00, 0x00, 0x00})
	c12Emit(emit, "noncanon", "big", []byte{0x07, 0x00, 0x00, 0x00, 0x40, 0x00})
	c12Emit(emit, "noncanon", "uint", []byte{0x01, 0x00})
	c12Emit(emit, "noncanon", "uint", []byte{0x03, 0x01, 0x00, 0x00, 0x00})
	c12Emit(emit, "noncanon", "uint", []byte{0x13, 1, 0, 0, 0, 0, 0, 0, 0})
	c12Emit(emit, "valid", "uint", []byte{0x07, 0, 0, 0, 0, 1})
	c12Emit(emit, "hostile", "bytes", []byte{0x02, 0x00, 0x80, 0x00, 0x41})             // 2 MiB declared
	c12Emit(emit, "hostile", "str", []byte{0x03, 0x00, 0x00, 0x00, 0x01, 0x41})          // 16 MiB declared
	c12Emit(emit, "hostile", "sl(bytes)", []byte{0x04, 0x02, 0x00, 0x00, 0x01, 0x41})    // 4 MiB declared
	c12Emit(emit, "hostile", "sl(u16)", []byte{0x03, 0xff, 0xff, 0xff, 0xff, 0x41})      // 4 Gi elements declared
	c12Emit(emit, "hostile", "sl(u8)", []byte{0x03, 0x00, 0x00, 0x00, 0x02, 0x41})       // []byte: 32 MiB declared
	c12Emit(emit, "hostile", "sl(u64)", []byte{0x13, 0xff, 0xff, 0xff, 0xff, 0xff, 0xff, 0xff, 0xff, 0x41})
	c12Emit(emit, "hostile", "map(u8,u8)", []byte{0x03, 0xff, 0xff, 0xff, 0xff, 1, 2})
	c12Emit(emit, "mapdup", "map(u8,u8)", []byte{0x04, 1, 2})
	c12Emit(emit, "mapdup", "map(u8,u8)", []byte{0x08, 1, 1, 1, 2})
	c12Emit(emit, "mapdup", "map(u8,u8)", []byte{0x08, 2, 1, 1, 2})
	c12Emit(emit, "mapdup", "map(u8,u8)", []byte{0x08, 1, 1, 2, 2})
	c12Emit(emit, "rand", "bool", []byte{2})
	c12Emit(emit, "rand", "opt(u8)", []byte{2, 0})
	c12Emit(emit, "rand", "res(u8,u8)", []byte{2, 0})
	c12Emit(emit, "rand", svuEnumA, []byte{2, 0})
	for _, d := range svuTable {
		c12Emit(emit, "rand", d, nil)
	}
	// every truncation of a valid encoding of every table type
	for _, d := range svuTable {
		t := svuParseTy(d)
		budget := 60
		v := svuBuild(t, svuGenVal(r, t, &budget))
		if c11HasNilVDTOption(t, v) {
			continue
		}
		enc, err := Marshal(v.Interface())
		if err != nil || len(enc) > 300 {
			continue
		}
		for i := 0; i < len(enc); i++ {
			c12Emit(emit, "trunc", d, enc[:i])
		}
		c12Emit(emit, "valid", d, enc)
	}
	// a few large valid byte strings: allocation proportional to the input is fine
	for _, l := range []int{4095, 4096, 4097, 8192, 12289, 30000} {
		b := append(c12Compact(uint64(l)), bytes.Repeat([]byte{0x5a}, l)...)
		c12Emit(emit, "bigvalid", "bytes", b)
		c12Emit(emit, "trunc", "bytes", b[:len(b)-1])
		c12Emit(emit, "trunc", "str", b[:len(b)/2])
	}
	for i := 0; i < n; i++ {
		d := svuPickTy(r)
		t := svuParseTy(d)
		budget := 120
		var enc []byte
		if !r.Chance(1, 12) {
			v := svuBuild(t, svuGenVal(r, t, &budget))
			if c11HasNilVDTOption(t, v) {
				continue
			}
			var err error
			enc, err = Marshal(v.Interface())
			if err != nil {
				continue
			}
		}
		switch r.Intn(12) {
		case 0:
			c12Emit(emit, "valid", d, enc)
		case 1:
			c12Emit(emit, "trail", d, append(append([]byte{}, enc...), r.Bytes(1+r.Intn(4))...))
		case 2, 3, 4:
			if len(enc) > 0 {
				c12Emit(emit, "trunc", d, enc[:r.Intn(len(enc))])
			}
		case 5, 6:
			if len(enc) > 0 {
				b := append([]byte{}, enc...)
				for k := 0; k <= r.Intn(2); k++ {
					b[r.Intn(len(b))] ^= 1 << uint(r.Intn(8))
				}
				c12Emit(emit, "flip", d, b)
			}
		case 7:
			if len(enc) > 0 {
				b := append([]byte{}, enc...)
				b[r.Intn(len(b))] = []byte{0, 1, 2, 3, 0xfc, 0xfd, 0xfe, 0xff, 0x80}[r.Intn(9)]
				c12Emit(emit, "subst", d, b)
			}
		case 8:
			c12Emit(emit, "rand", d, r.Bytes(r.Intn(12)))
		case 9: // a non-canonical compact integer where the type starts with one
			switch t.kind {
			case svuPrim:
				if t.prim == "uint" || t.prim == "big" || t.prim == "int" || t.prim == "bytes" || t.prim == "str" {
					x := svuGenU(r, 64)
					if t.prim == "bytes" || t.prim == "str" {
						x = uint64(r.Intn(5))
					}
					b := c12NonCanonical(r, x)
					c12Emit(emit, "noncanon", d, append(b, r.Bytes(int(x%6))...))
				}
			case svuSl, svuMap:
				x := uint64(r.Intn(3))
				c12Emit(emit, "noncanon", d, append(c12NonCanonical(r, x), r.Bytes(r.Intn(8))...))
			}
		case 10: // hostile length prefix: a huge declared length and a few bytes
			// (byte strings: at most 64 MiB, the pinned decodeBytes really allocates it)
			l := uint64(2<<20 + r.Intn(1<<20))
			if r.Chance(1, 2) {
				l = uint64(8<<20 + r.Intn(56<<20))
			}
			bytesLike := t.kind == svuPrim && (t.prim == "bytes" || t.prim == "str") ||
				t.kind == svuSl && t.a.kind == svuPrim && t.a.prim == "u8" && !t.a.named
			if (t.kind == svuSl || t.kind == svuMap) && !bytesLike && r.Chance(1, 2) {
				if r.Chance(1, 2) {
					l = 1<<32 - 1 - uint64(r.Intn(3))
				} else {
					l = svuGenU(r, 64) | 1<<33
				}
			}
			pre := c12Compact(l)
			tail := r.Bytes(r.Intn(6))
			if bytesLike || t.kind == svuSl || t.kind == svuMap {
				c12Emit(emit, "hostile", d, append(pre, tail...))
			} else if len(enc) > 0 {
				// put the hostile prefix somewhere inside
				p := r.Intn(len(enc))
				c12Emit(emit, "hostile", d, append(append(append([]byte{}, enc[:p]...), pre...), tail...))
			}
		default: // maps with duplicate / descending keys
			if t.kind == svuMap && t.b.kind == svuPrim && t.b.prim == "u8" {
				k1 := svuBuild(t.a, vu.X(uint64(r.Intn(4))))
				k2 := svuBuild(t.a, vu.X(uint64(r.Intn(4))))
				e1, _ := Marshal(k1.Interface())
				e2, _ := Marshal(k2.Interface())
				b := []byte{8}
				b = append(append(b, e1...), byte(r.Intn(3)))
				b = append(append(b, e2...), byte(r.Intn(3)))
				c12Emit(emit, "mapdup", d, b)
			} else if len(enc) > 0 {
				c12Emit(emit, "trunc", d, enc[:len(enc)-1])
			}
		}
	}
}

// Marshal panics on a nil pointer to a VaryingDataType on the pinned tree (C11 nil-option); the
// C12 generator only uses Marshal to obtain well-formed bytes, so it avoids those values.
func c11HasNilVDTOption(t *svuTy, v reflect.Value) bool {
	return strings.Contains(svuRender(t, v), "N") && strings.Contains(fmt.Sprint(t.gt), "svuVDT")
}

func c12Run(in string) string {
	f := strings.Split(in, " ")
	if len(f) != 4 || f[0] != "dec" {
		return "err:badinput"
	}
	t := svuParseTy(f[2])
	data := vu.UnHex(f[3])
	dst := reflect.New(t.gt)
	dst.Elem().Set(svuFresh(t))
	buf := bytes.NewBuffer(data)
	dec := NewDecoder(buf)
	var ms, me runtime.MemStats
	runtime.ReadMemStats(&ms)
	err := dec.Decode(dst.Interface())
	runtime.ReadMemStats(&me)
	bucket := "s"
	if me.TotalAlloc-ms.TotalAlloc > 1<<20+2048*uint64(len(data)) {
		bucket = "L"
	}
	if err != nil {
		return "err " + bucket
	}
	return "ok " + svuRender(t, dst.Elem()) + " " + vu.X(uint64(len(data)-buf.Len())) + " " + bucket
}

func TestVerifC12(t *testing.T) {
	debug.SetMemoryLimit(3 << 30)
	vu.Run(t, "C12", 30000, c12Gen, c12Run)
}
