(* C12 driver: replays the Go trace (props/C12/harness_test.go) on the extracted model
   (Scale.Codec.decode at cfg [current]) and evaluates the property predicate Model.c12_prop on
   the implementation's observables. *)
open Model
open Vutil
open Scaleuniv

let n_lt a b = (match N.compare a b with Lt -> true | _ -> false)

let check inp obs =
  match split_ws inp with
  | "dec" :: kind :: ds :: hx :: dirt ->
    (* dirt (optional): what the Go destination held before the decode; the model ignores it *)
    let d = parse_dty ds in
    let nested = (match dirt with
        | [dv] -> (try dirty_nested (wire_ty d) (parse_value d dv) with Parse _ -> false)
        | _ -> false) in
    let t = wire_ty d in
    let bs = bytes_of_hex hx in
    let len = List.length bs in
    let (res, cost) = run_decode current t bs in
    (* allocation bucket the model predicts: requested bytes above the budget => L for sure;
       far below (the Go side adds reflection overhead per unmarshal call) => s for sure *)
    let budget = alloc_budget bs in
    let sure_large = n_lt budget cost in
    let sure_small = n_lt (N.mul cost (n_of_int 2000)) budget in
    let bucket_ok b = if sure_large then b = "L" else if sure_small then b = "s" else true in
    let model_str = (match res with
        | Ok (v, rest) ->
          if n_lt (n_of_int 131072) cost then Printf.sprintf "ok ?big %x" (len - List.length rest)
          else Printf.sprintf "ok %s %x" (render_value d v) (len - List.length rest)
        | Err _ -> "err" | Panic -> "panic" | OutOfFuel -> "hang") in
    let (impl, obs_core, obs_bucket) = (match split_ws obs with
        | ["ok"; vt; c; bk] ->
          let consumed = int_of_string ("0x" ^ c) in
          (* values with a huge zero-filled byte string are not rendered by the harness (?big<len>) *)
          let unrendered = String.contains vt '?' in
          ((if unrendered then Some (IOk (VNone, nat_of_int consumed, bk = "L"))
            else (try Some (IOk (parse_value d vt, nat_of_int consumed, bk = "L")) with Parse _ -> None)),
           (if unrendered then Printf.sprintf "ok ?big %x" consumed else Printf.sprintf "ok %s %x" vt consumed), bk)
        | ["err"; bk] -> (Some (IErr (bk = "L")), "err", bk)
        | ["panic"] -> (Some IPanic, "panic", "s")
        | _ -> (None, obs, "?")) in
    let prop = (match impl with Some o -> c12_prop t bs o | None -> false) in
    let model_eq = (model_str = obs_core) && bucket_ok obs_bucket in
    let finding = if prop then "-" else if nested then "dirty-nested-option"
      else if bytes_overrun t bs then "bytes-overrun"
      else if map_noncanonical t bs then "map-noncanonical" else "-" in
    let outcome_tag = (match res with Ok _ -> "m-ok" | Err _ -> "m-err" | Panic -> "m-panic" | OutOfFuel -> "m-nofuel") in
    (* which branch of the model's dec_uint / dec_big the first byte selects (types that start
       with a compact integer), with the outcome: one bucket per modelled branch *)
    let compact_tag = (match t, bs with
        | (TUint | TInt | TBig | TBytes | TStr | TSlice _ | TMap _), b0 :: _ ->
          let p = int_of_byte b0 in
          let who = (match t with TBig -> "cb" | TUint | TInt -> "cu" | _ -> "cl") in
          let mode = (match p land 3 with
              | 0 -> "1b" | 1 -> "2b" | 2 -> "4b"
              | _ -> let k = (p lsr 2) + 4 in
                if k = 4 then "big4" else if k = 8 then "big8" else if k < 8 then "big5to7" else "big9up") in
          [Printf.sprintf "%s-%s-%s" who mode (match res with Ok _ -> "ok" | _ -> "err")]
        | _ -> []) in
    let tags = String.concat "," (
        ["dec"; "gen-" ^ kind; outcome_tag] @ (if nested then ["dirty-nested"] else []) @ [ (if wf_ty t then "wf" else "NOT-WF")]
        @ (if sure_large then ["alloc-large"] else if sure_small then ["alloc-small"] else ["alloc-mid"])
        @ compact_tag
        @ (if not prop then ["PROP-FAIL-" ^ finding] else [])
        @ ty_kinds d []) in
    { prop_ok = prop; model_eq; nontrivial = (len >= 1); finding; tags;
      detail = (if prop && model_eq then "" else
                  Printf.sprintf "model=%s cost=%s"
                    (if String.length model_str > 300 then String.sub model_str 0 300 else model_str)
                    (hex_of_n cost)) }
  | _ -> fail "C12: bad input %s" (if String.length inp > 200 then String.sub inp 0 200 else inp)

(* vm_compute cross-check: the decode of the same bytes recomputed inside Coq and compared with
   what the implementation returned (small inputs only; cases inside the dirty-nested guard, where
   the implementation is known to differ, are not rendered) *)
let coq inp obs =
  match split_ws inp with
  | "dec" :: _ :: ds :: hx :: dirt ->
    let d = parse_dty ds in
    let t = wire_ty d in
    let bs = bytes_of_hex hx in
    let len = List.length bs in
    let nested = (match dirt with
        | [dv] -> (try dirty_nested t (parse_value d dv) with Parse _ -> true)
        | _ -> false) in
    if len > 200 || nested then None else
    let (_, cost) = run_decode current t bs in
    if n_lt (n_of_int 20000) cost then None else
    (match split_ws obs with
     | ["ok"; vt; c; _] when not (String.contains vt '?') ->
       (try
          let v = parse_value d vt in
          let consumed = int_of_string ("0x" ^ c) in
          Some (Printf.sprintf "dec_matches (decode_res current %s %s) (Some (%s, %d%%nat))"
                  (coq_ty t) (coq_bytes bs) (coq_value v) (len - consumed))
        with Parse _ -> None)
     | ["err"; _] ->
       Some (Printf.sprintf "dec_matches (decode_res current %s %s) None" (coq_ty t) (coq_bytes bs))
     | _ -> None)
  | _ -> None

(* the model materialises byte strings of up to 1 MiB as lists: the extracted list functions are
   not tail recursive, so re-execute under a large stack *)
let () =
  if Sys.getenv_opt "VERIF_BIGSTACK" = None then
    exit (Sys.command ("ulimit -s 4000000 2>/dev/null || ulimit -s unlimited 2>/dev/null; ulimit -v 12000000 2>/dev/null; VERIF_BIGSTACK=1 exec "
                       ^ Filename.quote Sys.executable_name
                       ^ (if Array.length Sys.argv > 1 then " " ^ Filename.quote Sys.argv.(1) else "")))
  else run_driver ~coq check
