(* C37 driver: replays the Go trace of lib/keystore on the extracted model (GCM over the Gallina
   AES-256, key = BLAKE2b-256(password)) and evaluates the property predicates of
   coq/C37/Model.v (prop_roundtrip / prop_decrypt / prop_refused) on the implementation's
   observables. *)
open Model
open Vutil

(* the block cipher with its key schedule, and the password-derived key, are computed once per
   distinct key / password (the model functions used below are the [_k] forms of Model.v, of
   which encrypt / decrypt / ... are the instances at key_of password) *)
let cipher_tbl : (byte list, byte list -> byte list) Hashtbl.t = Hashtbl.create 64
let cipher k = match Hashtbl.find_opt cipher_tbl k with
  | Some e -> e
  | None -> let e = aes256 k in
    if Hashtbl.length cipher_tbl > 5000 then Hashtbl.reset cipher_tbl;
    Hashtbl.add cipher_tbl k e; e
let key_tbl : (byte list, byte list) Hashtbl.t = Hashtbl.create 64
let key_of_pw pw = match Hashtbl.find_opt key_tbl pw with
  | Some k -> k
  | None -> let k = key_of pw in
    if Hashtbl.length key_tbl > 5000 then Hashtbl.reset key_tbl;
    Hashtbl.add key_tbl pw k; k
let encrypt c pw = encrypt_k c (key_of_pw pw)
let decrypt c pw = decrypt_k c (key_of_pw pw)
let decrypt_private_key c pw = decrypt_private_key_k c (key_of_pw pw)
let encrypt_private_key = encrypt
let genuine c pw = genuine_k c (key_of_pw pw)
let prop_decrypt c pw = prop_decrypt_k c (key_of_pw pw)
let prop_roundtrip c pw = prop_roundtrip_k c (key_of_pw pw)

(* error classes: err:auth = gcm.Open's authentication failure (model Err 1), err:other = every
   other error return (Decrypt's length check Err 2, key decoding Err 3 / Err 4) *)
let res_of_string s : byte list outcome =
  if s = "err:auth" then Err (S O)
  else if s = "err:other" then Err (S (S O))
  else if s = "panic" then Panic
  else if String.length s >= 3 && String.sub s 0 3 = "ok:" then
    Ok (bytes_of_hex (String.sub s 3 (String.length s - 3)))
  else fail "bad result %s" s
let string_of_res (r : byte list outcome) = match r with
  | Ok p -> "ok:" ^ hex_of_bytes p
  | Err (S O) -> "err:auth"
  | Err _ -> "err:other"
  | Panic -> "panic"
  | OutOfFuel -> "fuel"

let scheme_of = function "ed" -> Ed25519 | "sr" -> Sr25519 | "secp" -> Secp256k1 | s -> fail "scheme %s" s
(* the harness prefixes Encode() of a decoded key with a byte naming its Go type *)
let type_byte = function Ed25519 -> byte_of_int 1 | Sr25519 -> byte_of_int 2 | Secp256k1 -> byte_of_int 3
let typed sc (r : byte list outcome) = match r with Ok k -> Ok (type_byte sc :: k) | x -> x

let verdict ~prop ~model ~obs ~tags ?(finding="-") ?(nontrivial=true) why =
  { prop_ok = prop; model_eq = (model = obs); nontrivial; finding; tags;
    detail = (if prop && model = obs then "" else Printf.sprintf "%s model=%s" why model) }

(* the structural modifications of the harness's c37Mutate, mirrored on the model's ciphertext *)
let mutate (d : byte list) (op : string) (a : int) (b : int) : byte list =
  let n = List.length d in
  let arr = Array.of_list d in
  let sub i j = Array.to_list (Array.sub arr i (j - i)) in
  match op with
  | "set" -> if a < n then (arr.(a) <- byte_of_int b; Array.to_list arr) else d
  | "swap" -> if a < n && b < n then (let t = arr.(a) in arr.(a) <- arr.(b); arr.(b) <- t; Array.to_list arr) else d
  | "del" -> if a < n then sub 0 a @ sub (a + 1) n else d
  | "ins" -> if a <= n then sub 0 a @ [byte_of_int b] @ sub a n else d
  | "front" -> if a <= n then sub a n else d
  | "dup" -> if a <= n then d @ sub (n - a) n else d
  | "zerotag" -> if n >= 16 then sub 0 (n - 16) @ List.init 16 (fun _ -> byte_of_int 0) else d
  | _ -> fail "C37: unknown modification %s" op

let size_tag n = if n = 0 then "len0" else if n < 16 then "len<16" else if n mod 16 = 0 then "len%16=0" else "len>16"

let check inp obs =
  let f = split_ws inp in
  let o = split_ws obs in
  match f with
  | ["dec"; data; pw] ->
    let data = bytes_of_hex data and pw = bytes_of_hex pw in
    let m = decrypt cipher pw data in
    let model = string_of_res m in
    let r = res_of_string obs in
    let n = List.length data in
    let prop = prop_decrypt cipher pw data r in
    verdict ~prop ~model ~obs
      ~tags:("dec," ^ (if n < 12 then "dec-short<12" else if n < 28 then "dec-short<28" else "dec-long") ^ ",dec-res-" ^ (String.sub model 0 (min 3 (String.length model))))
      (if r = Panic then "Decrypt panicked" else "Decrypt accepted a non-genuine ciphertext")
  | _ ->
  match f, o with
  | ["again"; nonce; msg; pw; pw1], [ct; res1; res2; same] ->
    (* the stored ciphertext is decrypted twice from the same buffer: the property's "decrypting
       the stored ciphertext with the same password returns the same key" must still hold after
       an earlier (failed or successful) attempt *)
    let nonce = bytes_of_hex nonce and msg = bytes_of_hex msg and pw = bytes_of_hex pw and pw1 = bytes_of_hex pw1 in
    let ctb = bytes_of_hex ct and r1 = res_of_string res1 and r2 = res_of_string res2 in
    let mct = (match encrypt cipher pw nonce msg with Ok c -> c | _ -> []) in
    (* the model threads the buffer through both calls (Model.attempts at DstFresh, the subject of
       C37_repeated_attempts) *)
    let (mrs, mbuf) = attempts cipher DstFresh mct [pw1; pw] in
    let model = hex_of_bytes mct ^ " " ^ String.concat " " (List.map string_of_res mrs) ^ (if mbuf = mct then " 1" else " 0") in
    let prop = out_eqb (Ok mct) (Ok ctb) && prop_decrypt cipher pw1 mct r1 && out_eqb r2 (Ok msg)
               && (pw1 <> pw || out_eqb r1 (Ok msg)) in
    ignore same;
    verdict ~prop ~model ~obs ~tags:("again," ^ (if pw1 = pw then "again-same-pw" else "again-other-pw"))
      "a second decryption of the stored ciphertext (same buffer) does not return the key"
  | ["enc"; nonce; msg; pw], [ct; res] ->
    let nonce = bytes_of_hex nonce and msg = bytes_of_hex msg and pw = bytes_of_hex pw in
    let ctb = bytes_of_hex ct and r = res_of_string res in
    let mct = encrypt cipher pw nonce msg in
    let model = (match mct with Ok c -> hex_of_bytes c ^ " " ^ string_of_res (decrypt cipher pw c) | _ -> "panic") in
    let prop = prop_roundtrip cipher pw msg ctb r in
    verdict ~prop ~model ~obs ~tags:("enc," ^ size_tag (List.length msg) ^ (if pw = [] then ",pw-empty" else "")) "round trip"
  | [("flip" | "trunc" | "ext" | "wrongpw") as kind; nonce; msg; pw; a], [ct; res]
  | [("flip") as kind; nonce; msg; pw; a; _], [ct; res]
  | [("mut") as kind; nonce; msg; pw; a; _; _], [ct; res] ->
    let nonce = bytes_of_hex nonce and msg = bytes_of_hex msg and pw = bytes_of_hex pw in
    let ctb = bytes_of_hex ct and r = res_of_string res in
    let mct = (match encrypt cipher pw nonce msg with Ok c -> c | _ -> []) in
    let total = List.length mct in
    let data, pw2, tag = (match kind, f with
      | "flip", [_; _; _; _; pos; bit] ->
        let p = int_of_n (n_of_hex pos) in
        (flip_bit mct (nat_of_int p) (n_of_hex bit), pw,
         if p < 12 then "flip-nonce" else if p >= total - 16 then "flip-tag" else "flip-body")
      | "trunc", _ ->
        let l = int_of_n (n_of_hex a) in
        (truncate mct (nat_of_int l), pw,
         if l < 12 then "trunc<12" else if l < 28 then "trunc<28" else if l >= total then "trunc-none" else "trunc>=28")
      | "ext", _ -> (mct @ bytes_of_hex a, pw, "ext")
      | "mut", [_; _; _; _; op; x; y] ->
        let d = mutate mct op (int_of_n (n_of_hex x)) (int_of_n (n_of_hex y)) in
        (d, pw, "mut-" ^ op ^ (if d = mct then ",mut-none" else ""))
      | "wrongpw", _ -> (mct, bytes_of_hex a, if bytes_of_hex a = pw then "wrongpw-same" else "wrongpw")
      | _ -> fail "C37: bad input %s" inp) in
    let model = hex_of_bytes mct ^ " " ^ string_of_res (decrypt cipher pw2 data) in
    let changed = not (data = mct && pw2 = pw) in
    (* the implementation's ciphertext must be the genuine one; the mutated copy must be refused
       (an unchanged copy must decrypt to the message) *)
    let prop = out_eqb (Ok mct) (Ok ctb)
               && prop_refused changed r
               && (changed || out_eqb r (Ok msg))
               && prop_decrypt cipher pw2 data r in
    verdict ~prop ~model ~obs ~tags:(kind ^ "," ^ tag)
      (if r = Panic then "Decrypt panicked on a tampered ciphertext" else "tampered ciphertext / wrong password not refused")
  | ["key"; s; nonce; kb; pw], [enc; ct; res] ->
    let sc = scheme_of s in
    let nonce = bytes_of_hex nonce and kb = bytes_of_hex kb and pw = bytes_of_hex pw in
    let encb = bytes_of_hex enc and ctb = bytes_of_hex ct and r = res_of_string res in
    let mct = encrypt_private_key cipher pw nonce encb in
    let model = hex_of_bytes kb ^ " " ^ (match mct with
      | Ok c -> hex_of_bytes c ^ " " ^ string_of_res (typed sc (decrypt_private_key cipher pw c sc))
      | _ -> "panic") in
    (* property: the key's encoding comes back, through a genuine ciphertext *)
    let prop = valid_key sc kb && genuine cipher pw ctb kb && out_eqb r (typed sc (Ok encb)) && encb = kb in
    verdict ~prop ~model ~obs ~tags:("key-" ^ s) "private key round trip"
  | ["keydec"; s; nonce; raw; pw], [ct; res] ->
    let sc = scheme_of s in
    let nonce = bytes_of_hex nonce and raw = bytes_of_hex raw and pw = bytes_of_hex pw in
    let r = res_of_string res in
    let mct = encrypt cipher pw nonce raw in
    let model = (match mct with
      | Ok c -> hex_of_bytes c ^ " " ^ string_of_res (typed sc (decrypt_private_key cipher pw c sc))
      | _ -> "panic") in
    let valid = valid_key sc raw in
    (* the encoding of a key must come back; anything else must be refused with an error, never
       a crash and never a key (C37_key_total, C37_non_key_refused) *)
    let prop = if valid then out_eqb r (typed sc (Ok raw)) else (match r with Err _ -> true | _ -> false) in
    verdict ~prop ~model ~obs
      ~tags:("keydec-" ^ s ^ (if valid then "-valid" else if List.length raw = 32 && s = "secp" then "-invalid-scalar" else "-invalid-length"))
      (if r = Panic then "DecryptPrivateKey crashed on a decrypted byte string that is not a key" else "decoding a decrypted key")
  | ["file"; s; _seed; pw], [enc; ct; res] ->
    let sc = scheme_of s in
    let pw = bytes_of_hex pw and encb = bytes_of_hex enc and ctb = bytes_of_hex ct in
    let r = res_of_string res in
    let m = typed sc (decrypt_private_key cipher pw ctb sc) in
    let model = enc ^ " " ^ ct ^ " " ^ string_of_res m in
    let prop = genuine cipher pw ctb encb && out_eqb r (typed sc (Ok encb)) in
    verdict ~prop ~model ~obs ~tags:("file-" ^ s) "file round trip"
  | ["filemut"; s; _seed; pw; what; a; b], [enc; ct; res] ->
    let sc = scheme_of s in
    let pw = bytes_of_hex pw and encb = bytes_of_hex enc and ctb = bytes_of_hex ct in
    let r = res_of_string res in
    let data, pw2, sc2 = (match what with
      | "pw" -> (ctb, bytes_of_hex a, sc)
      | "flip" -> (flip_bit ctb (nat_of_int (int_of_n (n_of_hex a))) (n_of_hex b), pw, sc)
      | "trunc" -> (truncate ctb (nat_of_int (int_of_n (n_of_hex a))), pw, sc)
      | "type" -> (ctb, pw, (match int_of_n (n_of_hex a) mod 3 with 0 -> Ed25519 | 1 -> Sr25519 | _ -> Secp256k1))
      | _ -> fail "C37: bad input %s" inp) in
    let m = typed sc2 (decrypt_private_key cipher pw2 data sc2) in
    let model = enc ^ " " ^ ct ^ " " ^ string_of_res m in
    let changed = not (data = ctb && pw2 = pw) in
    (* the stored ciphertext is genuine; a modified ciphertext or another password is refused; a
       changed Type field is not a modification of the ciphertext: whatever comes back must be
       the stored key bytes or an error, never a crash *)
    let prop = genuine cipher pw ctb encb
               && (if changed then (match r with Err _ -> true | _ -> false)
                   else if sc2 = sc then out_eqb r (typed sc (Ok encb))
                   else (match r with Ok k -> k = type_byte sc2 :: encb | Err _ -> true | _ -> false)) in
    verdict ~prop ~model ~obs ~tags:("filemut-" ^ what ^ (if changed then "" else ",filemut-unchanged"))
      "tampered key file / other password not refused"
  | _ ->
    (* an Encrypt error or a shape we do not know: never expected *)
    { prop_ok = false; model_eq = false; nontrivial = false; finding = "-"; tags = "bad-shape";
      detail = "unexpected observation shape" }

(* vm_compute cross-check: the model's observables recomputed inside Coq from the Gallina
   definitions (AES-256, GCM, BLAKE2b) and compared with the implementation's *)
let coq inp obs =
  let cb h = coq_bytes (bytes_of_hex h) in
  let cres (r : string) = match res_of_string r with
    | Ok p -> "0%N " ^ coq_bytes p | Err (S O) -> "1%N []" | Err _ -> "2%N []" | _ -> "3%N []" in
  let scn = function "ed" -> "Ed25519" | "sr" -> "Sr25519" | _ -> "Secp256k1" in
  let tb = function "ed" -> "1" | "sr" -> "2" | _ -> "3" in
  match split_ws inp, split_ws obs with
  | ["dec"; data; pw], [res] ->
    Some (Printf.sprintf "res_is (decrypt aes256 %s %s) %s" (cb pw) (cb data) (cres res))
  | ["enc"; nonce; msg; pw], [ct; res] ->
    Some (Printf.sprintf "match encrypt aes256 %s %s %s with Ok c => bytes_eqb c %s && res_is (decrypt aes256 %s c) %s | _ => false end"
      (cb pw) (cb nonce) (cb msg) (cb ct) (cb pw) (cres res))
  | ["flip"; nonce; msg; pw; pos; bit], [ct; res] ->
    Some (Printf.sprintf "match encrypt aes256 %s %s %s with Ok c => bytes_eqb c %s && res_is (decrypt aes256 %s (flip_bit c %d %s)) %s | _ => false end"
      (cb pw) (cb nonce) (cb msg) (cb ct) (cb pw) (int_of_n (n_of_hex pos)) (coq_n (n_of_hex bit)) (cres res))
  | ["trunc"; nonce; msg; pw; l], [ct; res] ->
    Some (Printf.sprintf "match encrypt aes256 %s %s %s with Ok c => bytes_eqb c %s && res_is (decrypt aes256 %s (truncate c %d)) %s | _ => false end"
      (cb pw) (cb nonce) (cb msg) (cb ct) (cb pw) (int_of_n (n_of_hex l)) (cres res))
  | ["wrongpw"; nonce; msg; pw; pw2], [ct; res] ->
    Some (Printf.sprintf "match encrypt aes256 %s %s %s with Ok c => bytes_eqb c %s && res_is (decrypt aes256 %s c) %s | _ => false end"
      (cb pw) (cb nonce) (cb msg) (cb ct) (cb pw2) (cres res))
  | ["ext"; nonce; msg; pw; extra], [ct; res] ->
    Some (Printf.sprintf "match encrypt aes256 %s %s %s with Ok c => bytes_eqb c %s && res_is (decrypt aes256 %s (c ++ %s)) %s | _ => false end"
      (cb pw) (cb nonce) (cb msg) (cb ct) (cb pw) (cb extra) (cres res))
  | ["keydec"; s; nonce; raw; pw], [ct; res] ->
    Some (Printf.sprintf "match encrypt aes256 %s %s %s with Ok c => bytes_eqb c %s && res_is (typed_res %s%%N (decrypt_private_key aes256 %s c %s)) %s | _ => false end"
      (cb pw) (cb nonce) (cb raw) (cb ct) (tb s) (cb pw) (scn s) (cres res))
  | ["key"; s; nonce; kb; pw], [_; ct; res] ->
    Some (Printf.sprintf "match encrypt_private_key aes256 %s %s %s with Ok c => bytes_eqb c %s && res_is (typed_res %s%%N (decrypt_private_key aes256 %s c %s)) %s | _ => false end"
      (cb pw) (cb nonce) (cb kb) (cb ct) (tb s) (cb pw) (scn s) (cres res))
  | _ -> None

let () = run_driver ~coq check
