(* C37 driver: replays the Go trace of lib/keystore on the extracted model (GCM over the Gallina
   AES-256, key = BLAKE2b-256(password)) and evaluates the property predicates of
   coq/C37/Model.v (prop_roundtrip / prop_decrypt / prop_refused) on the implementation's
   observables. *)
open Model
open Vutil

(* the block cipher with its key schedule, and the password-derived key, are computed once per
   distinct key / password (the model functions used below are the [_k] forms of Model.v, of
   which encrypt / decrypt / ... are the instances at key_of password) *)
let cipher_tbl : (byte list, byte list -> byte list) Hashtbl.t = Hashtbl.create 64
let cipher k = match Hashtbl.find_opt cipher_tbl k with
  | Some e -> e
  | None -> let e = aes256 k in
    if Hashtbl.length cipher_tbl > 5000 then Hashtbl.reset cipher_tbl;
    Hashtbl.add cipher_tbl k e; e
let key_tbl : (byte list, byte list) Hashtbl.t = Hashtbl.create 64
let key_of_pw pw = match Hashtbl.find_opt key_tbl pw with
  | Some k -> k
  | None -> let k = key_of pw in
    if Hashtbl.length key_tbl > 5000 then Hashtbl.reset key_tbl;
    Hashtbl.add key_tbl pw k; k
let encrypt c pw = encrypt_k c (key_of_pw pw)
let decrypt c pw = decrypt_k c (key_of_pw pw)
let decrypt_private_key c pw = decrypt_private_key_k c (key_of_pw pw)
let encrypt_private_key = encrypt
let genuine c pw = genuine_k c (key_of_pw pw)
let prop_decrypt c pw = prop_decrypt_k c (key_of_pw pw)
let prop_roundtrip c pw = prop_roundtrip_k c (key_of_pw pw)

let res_of_string s : byte list outcome =
  if s = "err" then Err O
  else if s = "panic" then Panic
  else if String.length s >= 3 && String.sub s 0 3 = "ok:" then
    Ok (bytes_of_hex (String.sub s 3 (String.length s - 3)))
  else fail "bad result %s" s
let string_of_res (r : byte list outcome) = match r with
  | Ok p -> "ok:" ^ hex_of_bytes p
  | Err _ -> "err"
  | Panic -> "panic"
  | OutOfFuel -> "fuel"

let scheme_of = function "ed" -> Ed25519 | "sr" -> Sr25519 | "secp" -> Secp256k1 | s -> fail "scheme %s" s
(* the harness prefixes Encode() of a decoded key with a byte naming its Go type *)
let type_byte = function Ed25519 -> byte_of_int 1 | Sr25519 -> byte_of_int 2 | Secp256k1 -> byte_of_int 3
let typed sc (r : byte list outcome) = match r with Ok k -> Ok (type_byte sc :: k) | x -> x

let verdict ~prop ~model ~obs ~tags ?(finding="-") ?(nontrivial=true) why =
  { prop_ok = prop; model_eq = (model = obs); nontrivial; finding; tags;
    detail = (if prop && model = obs then "" else Printf.sprintf "%s model=%s" why model) }

let size_tag n = if n = 0 then "len0" else if n < 16 then "len<16" else if n mod 16 = 0 then "len%16=0" else "len>16"

let check inp obs =
  let f = split_ws inp in
  let o = split_ws obs in
  match f with
  | ["dec"; data; pw] ->
    let data = bytes_of_hex data and pw = bytes_of_hex pw in
    let m = decrypt cipher pw data in
    let model = string_of_res m in
    let r = res_of_string obs in
    let n = List.length data in
    let prop = prop_decrypt cipher pw data r in
    verdict ~prop ~model ~obs
      ~tags:("dec," ^ (if n < 12 then "dec-short<12" else if n < 28 then "dec-short<28" else "dec-long") ^ ",res-" ^ (String.sub model 0 (min 3 (String.length model))))
      (if r = Panic then "Decrypt panicked" else "Decrypt accepted a non-genuine ciphertext")
  | _ ->
  match f, o with
  | ["enc"; nonce; msg; pw], [ct; res] ->
    let nonce = bytes_of_hex nonce and msg = bytes_of_hex msg and pw = bytes_of_hex pw in
    let ctb = bytes_of_hex ct and r = res_of_string res in
    let mct = encrypt cipher pw nonce msg in
    let model = (match mct with Ok c -> hex_of_bytes c ^ " " ^ string_of_res (decrypt cipher pw c) | _ -> "panic") in
    let prop = prop_roundtrip cipher pw msg ctb r in
    verdict ~prop ~model ~obs ~tags:("enc," ^ size_tag (List.length msg) ^ (if pw = [] then ",pw-empty" else "")) "round trip"
  | [("flip" | "trunc" | "ext" | "wrongpw") as kind; nonce; msg; pw; a], [ct; res]
  | [("flip") as kind; nonce; msg; pw; a; _], [ct; res] ->
    let nonce = bytes_of_hex nonce and msg = bytes_of_hex msg and pw = bytes_of_hex pw in
    let ctb = bytes_of_hex ct and r = res_of_string res in
    let mct = (match encrypt cipher pw nonce msg with Ok c -> c | _ -> []) in
    let total = List.length mct in
    let data, pw2, tag = (match kind, f with
      | "flip", [_; _; _; _; pos; bit] ->
        let p = int_of_n (n_of_hex pos) in
        (flip_bit mct (nat_of_int p) (n_of_hex bit), pw,
         if p < 12 then "flip-nonce" else if p >= total - 16 then "flip-tag" else "flip-body")
      | "trunc", _ ->
        let l = int_of_n (n_of_hex a) in
        (truncate mct (nat_of_int l), pw,
         if l < 12 then "trunc<12" else if l < 28 then "trunc<28" else if l >= total then "trunc-none" else "trunc>=28")
      | "ext", _ -> (mct @ bytes_of_hex a, pw, "ext")
      | "wrongpw", _ -> (mct, bytes_of_hex a, if bytes_of_hex a = pw then "wrongpw-same" else "wrongpw")
      | _ -> fail "C37: bad input %s" inp) in
    let model = hex_of_bytes mct ^ " " ^ string_of_res (decrypt cipher pw2 data) in
    let changed = not (data = mct && pw2 = pw) in
    (* the implementation's ciphertext must be the genuine one; the mutated copy must be refused
       (an unchanged copy must decrypt to the message) *)
    let prop = out_eqb (Ok mct) (Ok ctb)
               && prop_refused changed r
               && (changed || out_eqb r (Ok msg))
               && prop_decrypt cipher pw2 data r in
    verdict ~prop ~model ~obs ~tags:(kind ^ "," ^ tag)
      (if r = Panic then "Decrypt panicked on a tampered ciphertext" else "tampered ciphertext / wrong password not refused")
  | ["key"; s; nonce; kb; pw], [enc; ct; res] ->
    let sc = scheme_of s in
    let nonce = bytes_of_hex nonce and kb = bytes_of_hex kb and pw = bytes_of_hex pw in
    let encb = bytes_of_hex enc and ctb = bytes_of_hex ct and r = res_of_string res in
    let mct = encrypt_private_key cipher pw nonce encb in
    let model = hex_of_bytes kb ^ " " ^ (match mct with
      | Ok c -> hex_of_bytes c ^ " " ^ string_of_res (typed sc (decrypt_private_key cipher pw c sc))
      | _ -> "panic") in
    (* property: the key's encoding comes back, through a genuine ciphertext *)
    let prop = valid_key sc kb && genuine cipher pw ctb kb && out_eqb r (typed sc (Ok encb)) && encb = kb in
    verdict ~prop ~model ~obs ~tags:("key-" ^ s) "private key round trip"
  | ["keydec"; s; nonce; raw; pw], [ct; res] ->
    let sc = scheme_of s in
    let nonce = bytes_of_hex nonce and raw = bytes_of_hex raw and pw = bytes_of_hex pw in
    let r = res_of_string res in
    let mct = encrypt cipher pw nonce raw in
    let model = (match mct with
      | Ok c -> hex_of_bytes c ^ " " ^ string_of_res (typed sc (decrypt_private_key cipher pw c sc))
      | _ -> "panic") in
    let valid = valid_key sc raw in
    (* in scope of the property only when [raw] is the encoding of a key: then it must come
       back.  Otherwise (not a key of the scheme) the outcome is compared with the model only. *)
    let prop = if valid then out_eqb r (typed sc (Ok raw)) else true in
    verdict ~prop ~model ~obs
      ~tags:("keydec-" ^ s ^ (if valid then "-valid" else if r = Panic then "-invalid-panic" else "-invalid-err"))
      "decoding a decrypted key"
  | ["file"; s; _seed; pw], [enc; ct; res] ->
    let sc = scheme_of s in
    let pw = bytes_of_hex pw and encb = bytes_of_hex enc and ctb = bytes_of_hex ct in
    let r = res_of_string res in
    let m = typed sc (decrypt_private_key cipher pw ctb sc) in
    let model = enc ^ " " ^ ct ^ " " ^ string_of_res m in
    let prop = genuine cipher pw ctb encb && out_eqb r (typed sc (Ok encb)) in
    verdict ~prop ~model ~obs ~tags:("file-" ^ s) "file round trip"
  | _ ->
    (* an Encrypt error or a shape we do not know: never expected *)
    { prop_ok = false; model_eq = false; nontrivial = false; finding = "-"; tags = "bad-shape";
      detail = "unexpected observation shape" }

let () = run_driver check
