// C37 correspondence harness (injected into package lib/keystore by `go test -overlay`).
//
// Encrypt draws its nonce from crypto/rand.Reader; the harness substitutes a reader that yields
// the nonce given in the input, so that every case is a pure function of its input string.
//
// inputs (fields separated by one space, byte strings hex with "-" for empty, numbers hex):
//   enc <nonce12> <msg> <pw>                 Encrypt then Decrypt with the same password
//   dec <data> <pw>                          Decrypt of an arbitrary byte string
//   flip <nonce12> <msg> <pw> <pos> <bit>    Encrypt, flip bit <bit> of byte <pos>, Decrypt
//   trunc <nonce12> <msg> <pw> <len>         Encrypt, keep the first <len> bytes, Decrypt
//   ext <nonce12> <msg> <pw> <extra>         Encrypt, append <extra>, Decrypt
//   wrongpw <nonce12> <msg> <pw> <pw2>       Encrypt with pw, Decrypt with pw2
//   again <nonce12> <msg> <pw> <pw1>         Encrypt with pw, then Decrypt the SAME in-memory
//                                            ciphertext buffer twice: first with pw1, then with pw
//   key <ed|sr|secp> <nonce12> <keybytes> <pw>     NewPrivateKey(keybytes), EncryptPrivateKey,
//                                                  DecryptPrivateKey with the scheme's type
//   keydec <ed|sr|secp> <nonce12> <raw> <pw>       Encrypt(raw) then DecryptPrivateKey
//   file <ed|sr|secp> <seed32> <pw>                EncryptAndWriteToFile / ReadFromFileAndDecrypt
//                                                  (nonce from the real rand.Reader)
//   mut <nonce12> <msg> <pw> <op> <a> <b>    Encrypt, modify the ciphertext, Decrypt.  <op>:
//        set (byte a := b)  swap (bytes a and b)  del (remove byte a)  ins (insert b before a)
//        front (drop the first a bytes)  dup (append a copy of the last a bytes)  zerotag
//   filemut <ed|sr|secp> <seed32> <pw> <what> <a> <b>   EncryptAndWriteToFile, then rewrite the
//        key file and ReadFromFileAndDecrypt.  <what>: pw (read with password <a>, hex)
//        flip (bit b of ciphertext byte a)  trunc (keep a ciphertext bytes)
//        type (Type field := scheme number a: 0 ed, 1 sr, 2 secp)
// observables:
//   enc, flip, trunc, ext, wrongpw, keydec, mut -> <ciphertext> <res>
//   dec                                    -> <res>
//   again                                  -> <ciphertext> <res of first> <res of second> <1 if the buffer is unchanged else 0>
//   key                                    -> <encoded private key> <ciphertext> <res>
//   file, filemut                          -> <encoded private key> <ciphertext in the file> <res>
//   <res> = ok:<hex of plaintext> | ok:<type byte 01 ed/02 sr/03 secp><Encode() of the decoded key>
//         | err:auth (gcm.Open's "message authentication failed") | err:other | panic
package keystore

import (
	"bytes"
	"crypto/rand"
	"encoding/json"
	"fmt"
	"os"
	"path/filepath"
	"strings"
	"testing"

	"github.com/ChainSafe/gossamer/lib/crypto"
	"github.com/ChainSafe/gossamer/lib/crypto/ed25519"
	"github.com/ChainSafe/gossamer/lib/crypto/secp256k1"
	"github.com/ChainSafe/gossamer/lib/crypto/sr25519"

	vu "github.com/ChainSafe/gossamer/internal/verifutil"
)

// c37Encrypt calls Encrypt with rand.Reader yielding exactly the given nonce.
func c37Encrypt(msg, pw, nonce []byte) ([]byte, error) {
	old := rand.Reader
	rand.Reader = bytes.NewReader(nonce)
	defer func() { rand.Reader = old }()
	return Encrypt(msg, pw)
}

func c37Res(f func() ([]byte, error)) (res string) {
	defer func() {
		if p := recover(); p != nil {
			res = "panic"
		}
	}()
	out, err := f()
	if err != nil {
		if strings.Contains(err.Error(), "message authentication failed") {
			return "err:auth"
		}
		return "err:other"
	}
	return "ok:" + vu.Hex(out)
}

func c37Dec(data, pw []byte) string {
	// hand Decrypt a slice whose capacity equals its length, as a freshly read file would be
	d := make([]byte, len(data))
	copy(d, data)
	return c37Res(func() ([]byte, error) { return Decrypt(d, pw) })
}

func c37KeyType(s string) string {
	switch s {
	case "ed":
		return crypto.Ed25519Type
	case "sr":
		return crypto.Sr25519Type
	default:
		return crypto.Secp256k1Type
	}
}

func c37DecKey(data, pw []byte, scheme string) string {
	return c37Res(func() ([]byte, error) {
		k, err := DecryptPrivateKey(data, pw, c37KeyType(scheme))
		if err != nil {
			return nil, err
		}
		return c37Typed(k), nil
	})
}

// c37Typed is Encode() of the key prefixed with a byte naming its Go type (01 ed25519,
// 02 sr25519, 03 secp256k1, 00 anything else).
func c37Typed(k crypto.PrivateKey) []byte {
	t := byte(0)
	switch k.(type) {
	case *ed25519.PrivateKey:
		t = 1
	case *sr25519.PrivateKey:
		t = 2
	case *secp256k1.PrivateKey:
		t = 3
	}
	return append([]byte{t}, k.Encode()...)
}

func c37NewKey(scheme string, b []byte) (crypto.PrivateKey, error) {
	switch scheme {
	case "ed":
		return ed25519.NewPrivateKey(b)
	case "sr":
		return sr25519.NewPrivateKey(b)
	default:
		return secp256k1.NewPrivateKey(b)
	}
}

var c37SecpN = vu.UnHex("fffffffffffffffffffffffffffffffebaaedce6af48a03bbfd25e8cd0364141")

func c37Password(r *vu.RNG) []byte {
	switch r.Intn(12) {
	case 0:
		return []byte{}
	case 1, 8, 9:
		return []byte("noot")
	case 2: // unicode
		return []byte([]string{"пароль", "密码🔑", "pässwörd\u0000x", "‮ "}[r.Intn(4)])
	case 3: // long: crosses BLAKE2b block boundaries
		return r.Bytes([]int{127, 128, 129, 255, 256, 257}[r.Intn(6)])
	case 4:
		return r.Bytes(1)
	case 5: // ends or starts with white space, a newline, a NUL
		return [][]byte{[]byte("noot\n"), []byte("noot "), []byte(" noot"), []byte("noot\r\n"), []byte("noot\x00"),
			[]byte("\n"), []byte(" "), []byte("Noot"), []byte("NOOT"), []byte("no\tot")}[r.Intn(10)]
	default:
		return r.Bytes(1 + r.Intn(40))
	}
}

// c37NearMiss returns a password a careless implementation might treat as equal to pw.
func c37NearMiss(r *vu.RNG, pw []byte) []byte {
	pw2 := append([]byte{}, pw...)
	switch r.Intn(9) {
	case 0:
		if len(pw2) > 0 {
			pw2[r.Intn(len(pw2))] ^= 1 << uint(r.Intn(8))
		}
	case 1:
		if len(pw2) > 0 {
			pw2 = pw2[:len(pw2)-1]
		}
	case 2:
		pw2 = append(pw2, 0)
	case 3:
		pw2 = append(pw2, '\n')
	case 4:
		pw2 = append(pw2, ' ')
	case 5:
		pw2 = bytes.TrimSpace(pw2)
	case 6:
		pw2 = bytes.ToUpper(pw2)
	case 7:
		pw2 = bytes.ToLower(pw2)
	default:
		pw2 = append([]byte{' '}, pw2...)
	}
	return pw2
}

func c37Msg(r *vu.RNG) []byte {
	switch r.Intn(8) {
	case 0:
		return []byte{}
	case 1: // around the AES block size
		return r.Bytes([]int{1, 15, 16, 17, 31, 32, 33, 47, 48, 49, 63, 64, 65}[r.Intn(13)])
	case 2:
		return r.Bytes(32)
	case 3:
		return r.Bytes(64)
	case 4:
		return make([]byte, r.Intn(70))
	default:
		return r.Bytes(r.Intn(100))
	}
}

func c37Nonce(r *vu.RNG) []byte {
	switch r.Intn(6) {
	case 0:
		return make([]byte, 12)
	case 1:
		return bytes.Repeat([]byte{0xff}, 12)
	default:
		return r.Bytes(12)
	}
}

func c37KeyBytes(r *vu.RNG, scheme string) []byte {
	switch scheme {
	case "ed":
		return r.Bytes(64)
	case "sr":
		return r.Bytes(32)
	default:
		switch r.Intn(6) {
		case 0: // 1
			b := make([]byte, 32)
			b[31] = 1
			return b
		case 1: // n-1
			b := append([]byte{}, c37SecpN...)
			b[31]--
			return b
		case 2: // leading zero bytes
			b := r.Bytes(32)
			for i := 0; i < 1+r.Intn(8); i++ {
				b[i] = 0
			}
			b[31] |= 1
			return b
		default:
			b := r.Bytes(32)
			if b[0] == 0xff {
				b[0] = 0x7f
			}
			b[31] |= 1
			return b
		}
	}
}

var c37Schemes = []string{"ed", "sr", "secp"}

func c37Gen(r *vu.RNG, n int, emit func(string)) {
	h := vu.Hex
	// ---- fixed part: every truncation length and every single-bit flip of two ciphertexts,
	// Decrypt of every short length
	for l := 0; l <= 30; l++ {
		emit(fmt.Sprintf("dec %s %s", h(make([]byte, l)), h([]byte("pw"))))
	}
	for _, msg := range [][]byte{{}, []byte("helloworld"), bytes.Repeat([]byte{7}, 33)} {
		nonce := []byte("0123456789ab")
		pw := []byte("noot")
		total := 12 + len(msg) + 16
		emit(fmt.Sprintf("enc %s %s %s", h(nonce), h(msg), h(pw)))
		for l := 0; l <= total; l++ {
			emit(fmt.Sprintf("trunc %s %s %s %s", h(nonce), h(msg), h(pw), vu.X(uint64(l))))
		}
		for pos := 0; pos < total; pos++ {
			for bit := 0; bit < 8; bit++ {
				if len(msg) > 20 && bit != pos%8 {
					continue
				}
				emit(fmt.Sprintf("flip %s %s %s %s %s", h(nonce), h(msg), h(pw), vu.X(uint64(pos)), vu.X(uint64(bit))))
			}
		}
	}
	for _, s := range c37Schemes {
		// invalid encodings under the right password
		for _, l := range []int{0, 1, 31, 32, 33, 63, 64, 65} {
			raw := bytes.Repeat([]byte{3}, l)
			emit(fmt.Sprintf("keydec %s %s %s %s", s, h([]byte("0123456789ab")), h(raw), h([]byte("pw"))))
		}
	}
	// secp256k1 scalars outside [1, n-1]
	for _, raw := range [][]byte{make([]byte, 32), c37SecpN, bytes.Repeat([]byte{0xff}, 32)} {
		emit(fmt.Sprintf("keydec secp %s %s %s", h([]byte("0123456789ab")), h(raw), h([]byte("pw"))))
	}
	for _, s := range c37Schemes {
		emit(fmt.Sprintf("file %s %s %s", s, h(bytes.Repeat([]byte{9}, 32)), h([]byte("noot"))))
		emit(fmt.Sprintf("filemut %s %s %s pw %s 0", s, h(bytes.Repeat([]byte{9}, 32)), h([]byte("noot")), h([]byte("noot\n"))))
		emit(fmt.Sprintf("filemut %s %s %s trunc 0 0", s, h(bytes.Repeat([]byte{9}, 32)), h([]byte("noot"))))
		emit(fmt.Sprintf("filemut %s %s %s trunc b 0", s, h(bytes.Repeat([]byte{9}, 32)), h([]byte("noot"))))
		emit(fmt.Sprintf("filemut %s %s %s flip c 0", s, h(bytes.Repeat([]byte{9}, 32)), h([]byte("noot"))))
		for t := 0; t < 3; t++ {
			emit(fmt.Sprintf("filemut %s %s %s type %x 0", s, h(bytes.Repeat([]byte{9}, 32)), h([]byte("noot")), t))
		}
	}
	// the near-miss passwords of "noot"
	for _, pw2 := range []string{"noot\n", "noot ", " noot", "Noot", "NOOT", "noo", "noot\x00", ""} {
		emit(fmt.Sprintf("wrongpw %s %s %s %s", h([]byte("0123456789ab")), h([]byte("helloworld")), h([]byte("noot")), h([]byte(pw2))))
		emit(fmt.Sprintf("wrongpw %s %s %s %s", h([]byte("0123456789ab")), h([]byte("helloworld")), h([]byte(pw2)), h([]byte("noot"))))
	}
	// structural modifications of a three-block ciphertext
	{
		nonce, msg, pw := []byte("0123456789ab"), bytes.Repeat([]byte{7}, 33), []byte("noot")
		total := 12 + len(msg) + 16
		for _, c := range [][3]interface{}{{"zerotag", 0, 0}, {"swap", 12, 13}, {"swap", 0, 11}, {"swap", total - 1, total - 2},
			{"swap", 12, 28}, {"del", 0, 0}, {"del", 12, 0}, {"del", total - 17, 0}, {"del", total - 16, 0}, {"del", total - 1, 0},
			{"ins", 0, 0}, {"ins", 12, 0}, {"ins", total - 16, 7}, {"ins", total, 0}, {"front", 1, 0}, {"front", 12, 0},
			{"front", 16, 0}, {"front", 28, 0}, {"dup", 16, 0}, {"dup", 1, 0}, {"dup", total, 0}, {"set", 12, 7}, {"set", 12, 0}} {
			emit(fmt.Sprintf("mut %s %s %s %s %x %x", h(nonce), h(msg), h(pw), c[0], c[1], c[2]))
		}
	}

	for i := 0; i < n; i++ {
		nonce, msg, pw := c37Nonce(r), c37Msg(r), c37Password(r)
		total := 12 + len(msg) + 16
		switch r.Intn(20) {
		case 0, 1, 2:
			emit(fmt.Sprintf("enc %s %s %s", h(nonce), h(msg), h(pw)))
		case 3, 4: // arbitrary data, all lengths around the 12 and 28 byte boundaries
			var l int
			if r.Chance(1, 2) {
				l = r.Intn(32)
			} else {
				l = r.Intn(120)
			}
			emit(fmt.Sprintf("dec %s %s", h(r.Bytes(l)), h(pw)))
		case 8: // structural modifications
			op := []string{"set", "swap", "del", "ins", "front", "dup", "zerotag"}[r.Intn(7)]
			a, b := r.Intn(total+1), r.Intn(total+1)
			if op == "set" || op == "ins" {
				b = r.Intn(256)
			}
			if op == "del" || op == "set" || op == "swap" {
				a = r.Intn(total)
				if op == "swap" {
					b = r.Intn(total)
				}
			}
			emit(fmt.Sprintf("mut %s %s %s %s %x %x", h(nonce), h(msg), h(pw), op, a, b))
		case 5, 6, 7:
			pos := r.Intn(total)
			switch r.Intn(4) {
			case 0: // in the nonce
				pos = r.Intn(12)
			case 1: // in the tag
				pos = total - 16 + r.Intn(16)
			}
			emit(fmt.Sprintf("flip %s %s %s %s %s", h(nonce), h(msg), h(pw), vu.X(uint64(pos)), vu.X(uint64(r.Intn(8)))))
		case 9, 10, 11:
			l := r.Intn(total)
			if r.Chance(1, 3) {
				l = r.Intn(30)
				if l >= total {
					l = total - 1
				}
			}
			emit(fmt.Sprintf("trunc %s %s %s %s", h(nonce), h(msg), h(pw), vu.X(uint64(l))))
		case 12:
			extra := r.Bytes(1 + r.Intn(20))
			if r.Chance(1, 2) { // what a text editor or a copy would add
				extra = [][]byte{{'\n'}, {0}, {' '}, {'\r', '\n'}, {'\n', '\n'}, {0, 0, 0, 0}}[r.Intn(6)]
			}
			emit(fmt.Sprintf("ext %s %s %s %s", h(nonce), h(msg), h(pw), h(extra)))
		case 13, 14:
			pw2 := c37Password(r)
			if r.Chance(1, 2) { // near miss
				pw2 = c37NearMiss(r, pw)
			}
			emit(fmt.Sprintf("wrongpw %s %s %s %s", h(nonce), h(msg), h(pw), h(pw2)))
			// and: a second attempt on the same in-memory ciphertext, after a wrong or a right one
			if r.Chance(1, 2) {
				pw2 = pw
			}
			emit(fmt.Sprintf("again %s %s %s %s", h(nonce), h(msg), h(pw), h(pw2)))
		case 15, 16, 17:
			s := c37Schemes[r.Intn(3)]
			emit(fmt.Sprintf("key %s %s %s %s", s, h(nonce), h(c37KeyBytes(r, s)), h(pw)))
		case 18:
			s := c37Schemes[r.Intn(3)]
			l := []int{0, 31, 32, 33, 63, 64, 65}[r.Intn(7)]
			raw := r.Bytes(l)
			if s == "secp" && l == 32 {
				raw = c37KeyBytes(r, s)
			}
			emit(fmt.Sprintf("keydec %s %s %s %s", s, h(nonce), h(raw), h(pw)))
		default:
			if i%4 == 0 {
				s := c37Schemes[r.Intn(3)]
				emit(fmt.Sprintf("file %s %s %s", s, h(r.Bytes(32)), h(pw)))
			} else if i%4 == 2 {
				s := c37Schemes[r.Intn(3)]
				klen := 32
				if s == "ed" {
					klen = 64
				}
				switch r.Intn(4) {
				case 0:
					emit(fmt.Sprintf("filemut %s %s %s pw %s 0", s, h(r.Bytes(32)), h(pw), h(c37NearMiss(r, pw))))
				case 1:
					emit(fmt.Sprintf("filemut %s %s %s flip %x %x", s, h(r.Bytes(32)), h(pw), r.Intn(28+klen), r.Intn(8)))
				case 2:
					emit(fmt.Sprintf("filemut %s %s %s trunc %x 0", s, h(r.Bytes(32)), h(pw), r.Intn(28+klen)))
				default:
					emit(fmt.Sprintf("filemut %s %s %s type %x 0", s, h(r.Bytes(32)), h(pw), r.Intn(3)))
				}
			} else {
				emit(fmt.Sprintf("enc %s %s %s", h(nonce), h(msg), h(pw)))
			}
		}
	}
}

// c37Mutate applies a structural modification to a copy of the ciphertext (out-of-range
// positions leave it unchanged; the driver mirrors this function).
func c37Mutate(d []byte, op string, a, b int) []byte {
	n := len(d)
	switch op {
	case "set":
		if a < n {
			d[a] = byte(b)
		}
	case "swap":
		if a < n && b < n {
			d[a], d[b] = d[b], d[a]
		}
	case "del":
		if a < n {
			d = append(d[:a:a], d[a+1:]...)
		}
	case "ins":
		if a <= n {
			d = append(d[:a:a], append([]byte{byte(b)}, d[a:]...)...)
		}
	case "front":
		if a <= n {
			d = d[a:]
		}
	case "dup":
		if a <= n {
			d = append(d, d[n-a:]...)
		}
	case "zerotag":
		if n >= 16 {
			for i := n - 16; i < n; i++ {
				d[i] = 0
			}
		}
	}
	return d
}

func c37Run(in string) string {
	f := strings.Split(in, " ")
	u := vu.UnHex
	switch f[0] {
	case "dec":
		return c37Dec(u(f[1]), u(f[2]))
	case "again":
		nonce, msg, pw, pw1 := u(f[1]), u(f[2]), u(f[3]), u(f[4])
		ct, err := c37Encrypt(msg, pw, nonce)
		if err != nil {
			return "err:encrypt"
		}
		buf := append([]byte{}, ct...)
		r1 := c37Res(func() ([]byte, error) { return Decrypt(buf, pw1) })
		r2 := c37Res(func() ([]byte, error) { return Decrypt(buf, pw) })
		same := "0"
		if bytes.Equal(buf, ct) {
			same = "1"
		}
		return vu.Hex(ct) + " " + r1 + " " + r2 + " " + same
	case "enc", "flip", "trunc", "ext", "wrongpw", "mut":
		nonce, msg, pw := u(f[1]), u(f[2]), u(f[3])
		ct, err := c37Encrypt(msg, pw, nonce)
		if err != nil {
			return "err:encrypt"
		}
		data := append([]byte{}, ct...)
		pw2 := pw
		switch f[0] {
		case "flip":
			pos, bit := int(vu.UnX(f[4])), uint(vu.UnX(f[5]))
			if pos < len(data) {
				data[pos] ^= 1 << bit
			}
		case "trunc":
			l := int(vu.UnX(f[4]))
			if l < len(data) {
				data = data[:l]
			}
		case "ext":
			data = append(data, u(f[4])...)
		case "wrongpw":
			pw2 = u(f[4])
		case "mut":
			data = c37Mutate(data, f[4], int(vu.UnX(f[5])), int(vu.UnX(f[6])))
		}
		return vu.Hex(ct) + " " + c37Dec(data, pw2)
	case "key":
		nonce, kb, pw := u(f[2]), u(f[3]), u(f[4])
		pk, err := c37NewKey(f[1], kb)
		if err != nil {
			return "err:newkey"
		}
		old := rand.Reader
		rand.Reader = bytes.NewReader(nonce)
		ct, err := EncryptPrivateKey(pk, pw)
		rand.Reader = old
		if err != nil {
			return "err:encrypt"
		}
		return vu.Hex(pk.Encode()) + " " + vu.Hex(ct) + " " + c37DecKey(ct, pw, f[1])
	case "keydec":
		nonce, raw, pw := u(f[2]), u(f[3]), u(f[4])
		ct, err := c37Encrypt(raw, pw, nonce)
		if err != nil {
			return "err:encrypt"
		}
		return vu.Hex(ct) + " " + c37DecKey(ct, pw, f[1])
	case "file", "filemut":
		seed, pw := u(f[2]), u(f[3])
		var pk crypto.PrivateKey
		switch f[1] {
		case "ed":
			kp, err := ed25519.NewKeypairFromSeed(seed)
			if err != nil {
				return "err:seed"
			}
			pk = kp.Private()
		case "sr":
			kp, err := sr25519.NewKeypairFromSeed(seed)
			if err != nil {
				return "err:seed"
			}
			pk = kp.Private()
		default:
			seed[0] &= 0x7f
			seed[31] |= 1
			k, err := secp256k1.NewPrivateKey(seed)
			if err != nil {
				return "err:seed"
			}
			pk = k
		}
		dir, err := os.MkdirTemp("", "verif-c37-")
		if err != nil {
			return "err:tmp"
		}
		defer os.RemoveAll(dir)
		path := filepath.Join(dir, "k.key")
		if err := EncryptAndWriteToFile(path, pk, pw); err != nil {
			return "err:write"
		}
		raw, err := os.ReadFile(path)
		if err != nil {
			return "err:read"
		}
		ks := new(EncryptedKeystore)
		if err := json.Unmarshal(raw, ks); err != nil {
			return "err:json"
		}
		stored := append([]byte{}, ks.Ciphertext...)
		pw2 := pw
		if f[0] == "filemut" {
			a, b := f[5], f[6]
			switch f[4] {
			case "pw":
				pw2 = u(a)
			case "flip":
				if p := int(vu.UnX(a)); p < len(ks.Ciphertext) {
					ks.Ciphertext[p] ^= 1 << uint(vu.UnX(b))
				}
			case "trunc":
				if l := int(vu.UnX(a)); l < len(ks.Ciphertext) {
					ks.Ciphertext = ks.Ciphertext[:l]
				}
			case "type":
				ks.Type = c37KeyType(c37Schemes[int(vu.UnX(a))%3])
			}
			out, err := json.Marshal(ks)
			if err != nil {
				return "err:json"
			}
			if err := os.WriteFile(path, out, 0600); err != nil {
				return "err:write"
			}
		}
		res := c37Res(func() ([]byte, error) {
			k, err := ReadFromFileAndDecrypt(path, pw2)
			if err != nil {
				return nil, err
			}
			return c37Typed(k), nil
		})
		return vu.Hex(pk.Encode()) + " " + vu.Hex(stored) + " " + res
	}
	return "err:badinput"
}

func TestVerifC37(t *testing.T) { vu.Run(t, "C37", 3000, c37Gen, c37Run) }
