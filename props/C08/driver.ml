(* C08 driver: replays an operation sequence on the extracted model of TrieState/storageDiff
   (cfg_fixed = the code in /repo after fixes C08-1..6; cfg_pinned for diagnostics) and on the
   Substrate overlay specification.
   The implementation's tokens are parsed back into an [impl_view] (observations + final contents)
   and both verdicts are the extracted Gallina predicates of coq/C08/ModelCheck.v evaluated on it:
   model_eq : model_ok view ops  (and, redundantly, the rendered model string equals the trace)
   prop_ok  : agrees_b view ops  (reads = the specification's reads, final contents = the
              specification's, root flag set); ProofsCheck.v ties agrees_b to [agrees].
   tags     : op kinds, nesting depth, guard hits, generator-independent branch buckets of the
              model ("b-..."): one per branch of Model.step that the history reaches. *)
open Model
open Vutil

let parse_op (s : string) : op =
  let f = String.split_on_char ':' s in
  let b = bytes_of_hex in
  match f with
  | ["S"] -> OStart | ["C"] -> OCommit | ["R"] -> ORollback
  | ["p"; k; v] -> OPut (b k, b v) | ["g"; k] -> OGet (b k) | ["d"; k] -> ODel (b k)
  | ["cp"; p] -> OClearPrefix (b p) | ["cl"; p; n] -> OClearPrefixLimit (b p, n_of_hex n)
  | ["n"; k] -> ONext (b k) | ["e"] -> OEntries
  | ["cs"; c; k; v] -> OCSet (b c, b k, b v) | ["cg"; c; k] -> OCGet (b c, b k)
  | ["cd"; c; k] -> OCDel (b c, b k)
  | ["ccp"; c; p] -> OCClearPrefix (b c, b p)
  | ["ccl"; c; p; n] -> OCClearPrefixLimit (b c, b p, n_of_hex n)
  | ["cn"; c; k] -> OCNext (b c, b k)
  | ["ck"; c] -> OKill (b c)
  | ["ckl"; c; "-"] -> OKillLimit (b c, None)
  | ["ckl"; c; n] -> OKillLimit (b c, Some (n_of_hex n))
  | ["cks"; c; p] -> OCKeys (b c, b p)
  | _ -> fail "C08: bad op %s" s

let kv_str l = "[" ^ String.concat "," (List.map (fun (k, v) -> hex_of_bytes k ^ "=" ^ hex_of_bytes v) l) ^ "]"

let show_obs = function
  | RUnit -> "ok" | RErr -> "err" | RPanic -> "panic"
  | RVal None -> "none" | RVal (Some v) -> "v=" ^ hex_of_bytes v
  | RCount (n, a) -> hex_of_n n ^ "," ^ (if a then "1" else "0")
  | REntries l -> "E" ^ kv_str l
  | RKeys l -> "K[" ^ String.concat "," (List.map hex_of_bytes l) ^ "]"

(* the child tries the harness prints in the final token (same list, same order) *)
let children = ["11"; "22"; "33"]

let show_final ((m, ch), root) =
  "F" ^ kv_str m ^
  String.concat "" (List.map (fun c ->
    match om_get (bytes_of_hex c) ch with
    | None -> "/" ^ c ^ "=absent"
    | Some cm -> "/" ^ c ^ "=" ^ kv_str cm) children) ^
  "/root=" ^ (if root then "1" else "0")

(* ---- parsing the implementation's tokens back *)
let parse_kv s =
  (* "[k=v,k=v]" *)
  let inner = String.sub s 1 (String.length s - 2) in
  if inner = "" then [] else
  List.map (fun e -> match String.split_on_char '=' e with
    | [k; v] -> (bytes_of_hex k, bytes_of_hex v)
    | _ -> fail "C08: bad entry %s" e) (String.split_on_char ',' inner)

let parse_obs (t : string) : obs =
  let n = String.length t in
  if t = "ok" then RUnit else if t = "err" then RErr else if t = "panic" then RPanic
  else if t = "none" then RVal None
  else if n >= 2 && String.sub t 0 2 = "v=" then RVal (Some (bytes_of_hex (String.sub t 2 (n - 2))))
  else if n >= 1 && t.[0] = 'E' then REntries (parse_kv (String.sub t 1 (n - 1)))
  else if n >= 1 && t.[0] = 'K' then begin
    let inner = String.sub t 2 (n - 3) in
    RKeys (if inner = "" then [] else List.map bytes_of_hex (String.split_on_char ',' inner))
  end else match String.split_on_char ',' t with
    | [d; a] -> RCount (n_of_hex d, a = "1")
    | _ -> fail "C08: bad token %s" t

(* final token -> ((main, children (present ones, in key order)), root) *)
let parse_final (t : string) =
  match String.split_on_char '/' t with
  | m :: rest ->
    let main = parse_kv (String.sub m 1 (String.length m - 1)) in
    let ch = ref [] and root = ref false in
    List.iter (fun p -> match String.split_on_char '=' p with
      | ["root"; r] -> root := (r = "1")
      | c :: _ ->
        let v = String.sub p (String.length c + 1) (String.length p - String.length c - 1) in
        if v <> "absent" then ch := (bytes_of_hex c, parse_kv v) :: !ch
      | _ -> fail "C08: bad final %s" t) rest;
    ((main, List.rev !ch), !root)
  | _ -> fail "C08: bad final %s" t

(* the implementation's view of a history: observations, final contents if printed *)
let parse_view (obs : string) =
  let otoks = split_ws obs in
  let is_final t = String.length t > 0 && t.[0] = 'F' in
  let fin = (match List.rev otoks with t :: _ when is_final t -> Some (parse_final t) | _ -> None) in
  let otoks' = List.filter (fun t -> not (is_final t)) otoks in
  (List.map parse_obs otoks', fin)

let op_name s = List.hd (String.split_on_char ':' s)

(* ---- coverage buckets: which branch of Model.step (cfg_fixed) an operation takes in state s *)
let mem k m = om_mem k m
let n_lt (a : n) (b : n) = int_of_n a < int_of_n b
let hit = function Some _ -> "hit" | None -> "miss"
let branch (o : op) (s : tstate) : string list =
  let b = s.ts_state in
  let depth = List.length s.ts_txs in
  let outer = if depth = 1 then "outer" else "nested" in
  let tx = (match s.ts_txs with [] -> None | d :: _ -> Some d) in
  let lim_bucket p (d : sdiff) (sk : key list) (n : n) =
    (* which clause of the limit proof (or the guard) a limited in-transaction clear falls in *)
    let nk = n_of_int (List.length sk) in
    let pend = List.exists (has_prefix p) (om_keys d.ups) in
    let deleted_in_range = List.exists (fun k -> ks_mem k d.dels) sk in
    [ (if limit_guard d p sk n then "lim-guard"
       else if pend then "lim-all-pending" else if n_lt nk n then "lim-all" else "lim-first") ]
    @ (if deleted_in_range && not (n_lt nk n) then ["lim-counts-deleted"] else [])
    @ (if n = n_of_int 0 then ["lim-zero"] else []) in
  match o, tx with
  | OStart, None -> ["S-outer"] | OStart, Some _ -> ["S-nested"]
  | OCommit, None -> ["C-panic"] | OCommit, Some _ -> ["C-" ^ outer]
  | ORollback, None -> ["R-panic"] | ORollback, Some _ -> ["R-" ^ outer]
  | OPut (_, v), None -> ["p-direct" ^ (if v = [] then "-emptyval" else "")]
  | OPut (k, v), Some d ->
    [(if ks_mem k d.d_main.dels then "p-tx-undelete" else if mem k d.d_main.ups then "p-tx-overwrite"
      else if mem k b.bk_main then "p-tx-shadow" else "p-tx-new")] @ (if v = [] then ["p-tx-emptyval"] else [])
  | OGet k, None -> ["g-direct-" ^ hit (om_get k b.bk_main)]
  | OGet k, Some d ->
    (match sd_get d.d_main k with
     | (Some _, _) -> ["g-tx-pending"] | (None, true) -> ["g-tx-deleted"]
     | _ -> ["g-tx-state-" ^ hit (om_get k b.bk_main)])
  | ODel k, None -> ["d-direct-" ^ hit (om_get k b.bk_main)]
  | ODel k, Some d ->
    [(if mem k d.d_main.ups then "d-tx-pending" else if ks_mem k d.d_main.dels then "d-tx-again"
      else if mem k b.bk_main then "d-tx-state" else "d-tx-absent")]
  | OClearPrefix p, _ when covers_child_keys p -> ["cp-refused-" ^ (if tx = None then "direct" else "tx")]
  | OClearPrefixLimit (p, _), _ when covers_child_keys p -> ["cl-refused-" ^ (if tx = None then "direct" else "tx")]
  | OClearPrefix p, None ->
    ["cp-direct" ^ (if mem p b.bk_main then "-keyeqprefix" else "")]
  | OClearPrefix p, Some d ->
    let sk = state_keys_with_prefix cfg_fixed b.bk_main p in
    let pend = List.exists (has_prefix p) (om_keys d.d_main.ups) in
    ["cp-tx-" ^ (match sk, pend with [], false -> "nothing" | [], true -> "pending" | _, false -> "state" | _, true -> "both")]
    @ (if mem p b.bk_main then ["cp-tx-keyeqprefix"] else [])
  | OClearPrefixLimit (p, n), None ->
    let ks = keys_with_prefix p (om_keys b.bk_main) in
    [(if n = n_of_int 0 then "cl-direct-zero" else if order_guard b.bk_main p n then "cl-direct-order-guard"
      else if n_lt n (n_of_int (List.length ks)) then "cl-direct-partial" else "cl-direct-all")]
  | OClearPrefixLimit (p, n), Some d ->
    List.map (fun t -> "cl-tx-" ^ t) (lim_bucket p d.d_main (state_keys_with_prefix cfg_fixed b.bk_main p) n)
  | ONext k, None -> ["n-direct-" ^ hit (om_next k b.bk_main)]
  | ONext k, Some d ->
    let pn = om_next k d.d_main.ups and sn = next_not_deleted k b.bk_main d.d_main.dels in
    let skipped = (om_next k b.bk_main <> sn) in
    [(match pn, sn with
      | None, None -> "n-tx-none" | Some _, None -> "n-tx-pending-only" | None, Some _ -> "n-tx-state-only"
      | Some a, Some c -> if kltb c a then "n-tx-state-first" else if keqb a c then "n-tx-same" else "n-tx-pending-first")]
    @ (if skipped then ["n-tx-skips-deleted"] else [])
  | OEntries, None -> ["e-direct"]
  | OEntries, Some d -> ["e-tx" ^ (if d.d_main.dels <> [] then "-dels" else "") ^ (if d.d_main.ups <> [] then "-ups" else "")]
  | OCSet (c, _, _), None -> ["cs-direct-" ^ (match bk_get_child b c with None -> "newchild" | Some _ -> "child")]
  | OCSet (c, k, _), Some d ->
    [(match om_get c d.d_children with
      | None -> if ks_mem c d.d_killed then "cs-tx-recreate-killed" else "cs-tx-first"
      | Some cd -> if ks_mem k cd.dels then "cs-tx-undelete" else "cs-tx-more")]
  | OCGet (c, k), None ->
    [(match bk_get_child b c with None -> "cg-direct-nochild" | Some m -> "cg-direct-" ^ hit (om_get k m))]
  | OCGet (c, k), Some d ->
    if child_gone cfg_fixed d c then ["cg-tx-gone"] else
    let killed = ks_mem c d.d_killed in
    let st () = if killed then "cg-tx-killed-none" else
        (match bk_get_child b c with None -> "cg-tx-state-nochild" | Some m -> "cg-tx-state-" ^ hit (om_get k m)) in
    (match om_get c d.d_children with
     | None -> [st () ^ "-nochanges"]
     | Some cd -> (match sd_get cd k with
         | (Some _, _) -> ["cg-tx-pending"] | (None, true) -> ["cg-tx-deleted"] | _ -> [st ()]))
  | OCDel (c, k), None ->
    [(match bk_get_child b c with
      | None -> "cd-direct-nochild"
      | Some m -> if not (mem k m) then "cd-direct-absent" else if List.length m = 1 then "cd-direct-lastkey" else "cd-direct")]
  | OCDel (c, _), Some d -> ["cd-tx" ^ (if ks_mem c d.d_killed then "-killed" else "")]
  | OCClearPrefix (c, _), None -> ["ccp-direct-" ^ (match bk_get_child b c with None -> "nochild" | Some _ -> "child")]
  | OCClearPrefix (c, _), Some d ->
    ["ccp-tx-" ^ (match child_on_state cfg_fixed d b c with
        | None -> if ks_mem c d.d_killed then "killed" else "nochild"
        | Some _ -> "child")]
  | OCClearPrefixLimit (c, p, n), None ->
    [(match bk_get_child b c with
      | None -> "ccl-direct-nochild"
      | Some m -> let ks = keys_with_prefix p (om_keys m) in
        if n = n_of_int 0 then "ccl-direct-zero"
        else if n_lt n (n_of_int (List.length ks)) then "ccl-direct-partial"
        else if List.length ks = List.length m && ks <> [] then "ccl-direct-empties-child" else "ccl-direct-all")]
  | OCClearPrefixLimit (c, p, n), Some d ->
    (match child_on_state cfg_fixed d b c with
     | None -> ["ccl-tx-" ^ (if ks_mem c d.d_killed then "killed" else "nochild") ^ "-unlimited"]
     | Some m -> List.map (fun t -> "ccl-tx-" ^ t)
                   (lim_bucket p (child_changes d c) (state_keys_with_prefix cfg_fixed m p) n))
  | OCNext (c, k), None ->
    [(match bk_get_child b c with None -> "cn-direct-nochild" | Some m -> "cn-direct-" ^ hit (om_next k m))]
  | OCNext (c, k), Some d ->
    if child_gone cfg_fixed d c then ["cn-tx-gone"] else
    (match om_get c d.d_children with
     | None -> [(match bk_get_child b c with None -> "cn-tx-nochanges-nochild" | Some _ -> "cn-tx-nochanges-state")]
     | Some cd ->
       (match child_on_state cfg_fixed d b c with
        | None -> ["cn-tx-pending-only-" ^ (if ks_mem c d.d_killed then "killed" else "nochild")]
        | Some m ->
          let pn = om_next k cd.ups and sn = next_not_deleted k m cd.dels in
          [(match pn, sn with
            | None, None -> "cn-tx-none" | Some _, None -> "cn-tx-pending" | None, Some _ -> "cn-tx-state"
            | Some a, Some c' -> if kltb c' a then "cn-tx-state-first" else "cn-tx-pending-first")]
          @ (if om_next k m <> sn then ["cn-tx-skips-deleted"] else [])))
  | OKill c, None -> ["ck-direct-" ^ (match bk_get_child b c with None -> "nochild" | Some _ -> "child")]
  | OKill c, Some d ->
    ["ck-tx" ^ (if om_get c d.d_children <> None then "-drops-changes" else "") ^ (if ks_mem c d.d_killed then "-again" else "")]
  | OKillLimit (c, lim), None ->
    [(match bk_get_child b c, lim with
      | None, _ -> "ckl-direct-nochild" | Some _, None -> "ckl-direct-nil"
      | Some m, Some n -> if n = n_of_int 0 then "ckl-direct-zero"
        else if n_lt n (n_of_int (List.length m)) then "ckl-direct-partial" else "ckl-direct-all")]
  | OKillLimit (c, lim), Some d ->
    (match child_on_state cfg_fixed d b c, om_get c d.d_children with
     | None, None -> ["ckl-tx-err"]
     | mo, _ ->
       let cur = (match mo with Some m -> om_keys m | None -> []) in
       (match lim with
        | None -> ["ckl-tx-nil" ^ (if mo = None then "-nostate" else "")]
        | Some n -> List.map (fun t -> "ckl-tx-" ^ t) (lim_bucket [] (child_changes d c) cur n)
                    @ (if mo = None then ["ckl-tx-nostate"] else [])))
  | OCKeys (c, _), None -> ["cks-direct-" ^ (match bk_get_child b c with None -> "nochild" | Some _ -> "child")]
  | OCKeys (c, _), Some d ->
    if child_gone cfg_fixed d c then ["cks-tx-gone"] else
    (match om_get c d.d_children with
     | None -> [(match bk_get_child b c with None -> "cks-tx-nochanges-nochild" | Some _ -> "cks-tx-nochanges-state")]
     | Some cd ->
       (match child_on_state cfg_fixed d b c with
        | None -> [if cd.ups = [] then "cks-tx-err-empty" else
                     "cks-tx-pending-only-" ^ (if ks_mem c d.d_killed then "killed" else "nochild")]
        | Some m ->
          ["cks-tx-merged" ^ (if List.exists (fun k -> ks_mem k cd.dels) (om_keys m) then "-dels" else "")
           ^ (if cd.ups <> [] then "-ups" else "")]))

let rec branches ops s acc =
  match ops with
  | [] -> acc
  | o :: r ->
    let tg = branch o s in
    let (x, s') = step cfg_fixed o s in
    if x = RPanic then tg @ acc else branches r s' (tg @ acc)

(* two child tries with the same non-empty contents in the committed state at some point
   (the in-memory trie keeps child tries by root hash: fix C08-6) *)
let rec twins ops s =
  let ms = List.filter (fun m -> m <> []) (List.map snd s.ts_state.bk_children) in
  let rec dup = function [] -> false | a :: r -> List.mem a r || dup r in
  dup ms || (match ops with
      | [] -> false
      | o :: r -> let (x, s') = step cfg_fixed o s in if x = RPanic then false else twins r s')

module Str_find = struct
  let find (s : string) (sub : string) : int =
    let n = String.length s and m = String.length sub in
    let rec go i = if i + m > n then raise Not_found else if String.sub s i m = sub then i else go (i + 1) in
    go 0
end

(* ---- heap cases ("H ..."): the hash-keyed child-trie store of the in-memory trie
   (coq/C08/ModelHeap.v); C08_childtries_refine is the theorem behind prop_ok = model_eq here *)
let parse_hop (s : string) : hop =
  let b = bytes_of_hex in
  match String.split_on_char ':' s with
  | ["cs"; c; k; v] -> HPut (b c, b k, b v) | ["cd"; c; k] -> HClear (b c, b k)
  | ["ck"; c] -> HDelete (b c) | ["cg"; c; k] -> HGet (b c, b k)
  | _ -> fail "C08: bad heap op %s" s
let parse_hobs (t : string) : hobs =
  let n = String.length t in
  if t = "ok" then HOk else if t = "err" then HErr else if t = "panic" then HPanic
  else if t = "none" then HVal None
  else if n >= 2 && String.sub t 0 2 = "v=" then HVal (Some (bytes_of_hex (String.sub t 2 (n - 2))))
  else fail "C08: bad heap token %s" t
let show_hobs = function
  | HOk -> "ok" | HErr -> "err" | HPanic -> "panic" | HVal None -> "none" | HVal (Some v) -> "v=" ^ hex_of_bytes v

let check_heap ops_toks obs =
  let ops = List.map parse_hop ops_toks in
  let otoks = split_ws obs in
  let is_final t = String.length t > 0 && t.[0] = 'F' in
  let fin = (match List.rev otoks with t :: _ when is_final t -> Some t | _ -> None) in
  let xs = List.map parse_hobs (List.filter (fun t -> not (is_final t)) otoks) in
  (* final: F[main]/11=..../root=r/T=c;c *)
  let reg, tries, root = (match fin with
    | None -> ([], [], true)
    | Some t ->
      let i = (try Some (Str_find.find t "/T=") with Not_found -> None) in
      (match i with
       | None -> fail "C08: heap final without /T= : %s" t
       | Some i ->
         let head = String.sub t 0 i and tl = String.sub t (i + 3) (String.length t - i - 3) in
         let ((_, ch), root) = parse_final head in
         (ch, (if tl = "" then [] else List.map parse_kv (String.split_on_char ';' tl)), root))) in
  let panicked = List.exists (fun x -> x = HPanic) xs in
  let ok fixed = heap_ok fixed ops xs reg tries && (fin <> None || panicked) in
  let eq = ok true in
  let prop = heap_prop ops xs reg && root && not panicked in
  let (ms, st) = hrun true ops hs_empty in
  (* coverage: a put/clear on a child whose root another child shares; stale entries *)
  let rec shared ops s = (match ops with
    | [] -> false
    | o :: r ->
      let hit = (match o with
        | HPut (c, _, _) | HClear (c, _) ->
          (match hs_lookup s c with LChild h -> shared_root s c h | _ -> false)
        | _ -> false) in
      let (x, s') = hstep true o s in
      hit || (x <> HPanic && shared r s')) in
  let stale = List.exists (fun h -> not (List.exists (fun (_, m) -> m = h) st.hs_reg)) st.hs_present in
  let tags = String.concat "," (["heap"] @ (if shared ops hs_empty then ["heap-shared-write"] else [])
                                @ (if stale then ["heap-stale-entry"] else [])) in
  let detail = if eq && prop then "" else
      Printf.sprintf "HEAP MODEL(fixed)=%s reg=%s tries=%d; %s"
        (String.concat " " (List.map show_hobs ms))
        (String.concat "/" (List.map (fun (c, m) -> hex_of_bytes c ^ "=" ^ kv_str m) st.hs_reg))
        (List.length st.hs_present)
        (let (ps, pst) = hrun false ops hs_empty in
         (* what the harness can see of the pre-fix store: a dangling root shows as "absent" *)
         let vis = List.filter (fun (_, h) -> List.mem h pst.hs_present) pst.hs_reg in
         let same_set a b = List.for_all (fun x -> List.mem x b) a && List.for_all (fun x -> List.mem x a) b in
         if ps = xs && (panicked || (vis = reg && same_set tries pst.hs_present))
         then "pre-C08-6-heap-model=observed" else "pre-C08-6-heap-model-differs") in
  { prop_ok = prop; model_eq = eq; nontrivial = (List.length ops >= 3); finding = "-"; tags; detail }

(* ---- "W exec" / "W init": Instance.ExecuteBlock / InitializeBlock with the hand-assembled guest of
   props/C08/harness_wazero_test.go.  The storage must have seen  S p:11:01 S p:22:01 R S p:1122:01 C
   (the leading S being the StartTransaction of ExecuteBlock / InitializeBlock) and be left with
   exactly one open transaction. *)
let check_wazero kind obs =
  let b = bytes_of_hex in
  let k11 = b "11" and k22 = b "22" and k1122 = b "1122" and v01 = b "01" in
  let script = [OStart; OPut (k11, v01); OStart; OPut (k22, v01); ORollback; OStart; OPut (k1122, v01); OCommit;
                OGet k11; OGet k22; OGet k1122] in
  let sv = function Some v -> "v=" ^ hex_of_bytes v | None -> "none" in
  let rd = function RVal v -> sv v | x -> show_obs x in
  let last3 xs = (match List.rev xs with c :: b' :: a :: _ -> [a; b'; c] | _ -> []) in
  (* expected from the model of TrieState *)
  let (xs, st) = run cfg_fixed script ts_init in
  let (c1, st1) = step cfg_fixed OCommit st in
  let (c2, _) = step cfg_fixed OCommit st1 in
  let expect reads m0 c1 m1 c2 =
    String.concat " " (["call=ok"] @
      List.map2 (fun k r -> "g:" ^ k ^ "=" ^ r) ["11"; "22"; "1122"] reads @
      ["t:11=" ^ sv (om_get k11 m0); "t:1122=" ^ sv (om_get k1122 m0); "C=" ^ c1;
       "t:11=" ^ sv (om_get k11 m1); "t:22=" ^ sv (om_get k22 m1); "t:1122=" ^ sv (om_get k1122 m1); "C=" ^ c2]) in
  let m_model = expect (List.map rd (last3 xs)) st.ts_state.bk_main (show_obs c1) st1.ts_state.bk_main (show_obs c2) in
  (* expected from the Substrate specification *)
  let (sx, sst) = srun script ss_init in
  let (d1, sst1) = sstep OCommit sst in
  let (d2, _) = sstep OCommit sst1 in
  let m_spec = expect (List.map rd (last3 sx)) sst.backend.c_main (show_obs d1) sst1.backend.c_main (show_obs d2) in
  let open_tx = List.length st.ts_txs in
  { prop_ok = (obs = m_spec); model_eq = (obs = m_model) && open_tx = 1; nontrivial = true; finding = "-";
    tags = "wazero-" ^ kind ^ ",wazero-open-tx-" ^ string_of_int open_tx;
    detail = if obs = m_spec && obs = m_model then "" else "WAZERO expected(model)=" ^ m_model ^ " expected(spec)=" ^ m_spec }

let check inp obs =
  match split_ws inp with
  | "H" :: rest -> check_heap rest obs
  | ["W"; kind] -> check_wazero kind obs
  | _ ->
  let toks = split_ws inp in
  let ops = List.map parse_op toks in
  (* model (fixed and pinned), rendered for diagnostics *)
  let render cf =
    let (xs, st) = run cf ops ts_init in
    let panicked = List.exists (fun x -> x = RPanic) xs in
    let closed = (st.ts_txs = []) in
    String.concat " " (List.map show_obs xs @
      (if closed && not panicked then [show_final (final_obs st)] else [])) in
  let m_fixed = render cfg_fixed in
  let view = (try Some (parse_view obs) with _ -> None) in
  let eq = (obs = m_fixed) && (match view with Some v -> model_ok v ops | None -> false) in
  let prop = (match view with Some v -> agrees_b v ops | None -> false) in
  (* first differing read, for the detail *)
  let (sx, _) = srun ops ss_init in
  let first_diff =
    let rec go i os a b = match os, a, b with
      | o :: r, x :: xr, y :: yr ->
        if norm_obs o x <> norm_obs o y then
          Printf.sprintf "op#%d %s impl=%s spec=%s" i (List.nth toks i) (show_obs x) (show_obs y)
        else go (i + 1) r xr yr
      | _ -> "" in
    (match view with Some (xs, _) -> go 0 ops xs sx | None -> "unparsable") in
  let depth_max =
    let d = ref 0 and mx = ref 0 in
    List.iter (fun t -> if t = "S" then (incr d; if !d > !mx then mx := !d)
                        else if t = "C" || t = "R" then decr d) toks; !mx in
  let nops = List.length ops in
  let guards = run_guards cfg_fixed ops ts_init in
  let slug = function FTxLimit -> "tx-limit" | FDirectLimitOrder -> "direct-limit-order" in
  let finding = if prop then "-" else (match guards with g :: _ -> slug g | [] -> "-") in
  (* informational only (the property speaks of reads): do the returned (deleted, allDeleted) of
     limited clears equal Substrate's (loops, all-removed) of ModelSpec? *)
  let cnt_tags =
    let rec go os a b acc = (match os, a, b with
      | o :: r, x :: xr, y :: yr ->
        let acc' = (match o, x, y with
          | (OClearPrefixLimit _ | OCClearPrefixLimit _ | OKillLimit _), RCount (n1, a1), RCount (n2, a2) ->
            (if n1 = n2 && a1 = a2 then "cnt-eq-substrate" else if n1 = n2 then "cnt-flag-neq-substrate"
             else "cnt-neq-substrate") :: acc
          | _ -> acc) in
        go r xr yr acc'
      | _ -> acc) in
    (match view with Some (xs, _) -> List.sort_uniq compare (go ops xs sx []) | None -> []) in
  let kinds = List.sort_uniq compare (List.map op_name toks) in
  let tags = String.concat "," (List.map (fun k -> "op-" ^ k) kinds @
             [Printf.sprintf "depth%d" depth_max] @
             List.sort_uniq compare (List.map (fun g -> "guard-" ^ slug g) guards) @
             (if twins ops ts_init then ["twin-children"] else []) @ cnt_tags @
             List.map (fun t -> "b-" ^ t) (List.sort_uniq compare (branches ops ts_init []))) in
  let detail =
    if prop && eq then "" else begin
      let m_pinned = render cfg_pinned and m_pre7 = render cfg_pre7 in
      Printf.sprintf "%s%s%s%s"
        (if prop then "" else "PROP: " ^ first_diff ^ "; ")
        (if eq then "" else "MODEL(fixed)=" ^ m_fixed ^ "; ")
        (if obs = m_pre7 then "pre-C08-7-model=observed" else if obs = m_pinned then "pinned-model=observed"
         else "pinned-model-differs")
        (if eq || obs = m_pinned || obs = m_pre7 then "" else " MODEL(pinned)=" ^ m_pinned)
    end in
  { prop_ok = prop; model_eq = eq; nontrivial = (depth_max > 0 && nops >= 3);
    finding; tags; detail }

(* ---- vm_compute cross-check: the same two predicates re-evaluated inside Coq on the parsed view *)
let coq_key k = "(" ^ coq_bytes k ^ ")"
let coq_list f l = "[" ^ String.concat "; " (List.map f l) ^ "]"
let coq_opt f = function None -> "None" | Some x -> "(Some " ^ f x ^ ")"
let coq_kv (k, v) = "(" ^ coq_bytes k ^ ", " ^ coq_bytes v ^ ")"
let coq_map m = coq_list coq_kv m
let coq_bool b = if b then "true" else "false"
let coq_op = function
  | OStart -> "OStart" | OCommit -> "OCommit" | ORollback -> "ORollback" | OEntries -> "OEntries"
  | OPut (k, v) -> Printf.sprintf "(OPut %s %s)" (coq_key k) (coq_key v)
  | OGet k -> "(OGet " ^ coq_key k ^ ")" | ODel k -> "(ODel " ^ coq_key k ^ ")"
  | OClearPrefix p -> "(OClearPrefix " ^ coq_key p ^ ")"
  | OClearPrefixLimit (p, n) -> Printf.sprintf "(OClearPrefixLimit %s %s)" (coq_key p) (coq_n n)
  | ONext k -> "(ONext " ^ coq_key k ^ ")"
  | OCSet (c, k, v) -> Printf.sprintf "(OCSet %s %s %s)" (coq_key c) (coq_key k) (coq_key v)
  | OCGet (c, k) -> Printf.sprintf "(OCGet %s %s)" (coq_key c) (coq_key k)
  | OCDel (c, k) -> Printf.sprintf "(OCDel %s %s)" (coq_key c) (coq_key k)
  | OCClearPrefix (c, p) -> Printf.sprintf "(OCClearPrefix %s %s)" (coq_key c) (coq_key p)
  | OCClearPrefixLimit (c, p, n) -> Printf.sprintf "(OCClearPrefixLimit %s %s %s)" (coq_key c) (coq_key p) (coq_n n)
  | OCNext (c, k) -> Printf.sprintf "(OCNext %s %s)" (coq_key c) (coq_key k)
  | OKill c -> "(OKill " ^ coq_key c ^ ")"
  | OKillLimit (c, l) -> Printf.sprintf "(OKillLimit %s %s)" (coq_key c) (coq_opt coq_n l)
  | OCKeys (c, p) -> Printf.sprintf "(OCKeys %s %s)" (coq_key c) (coq_key p)
let coq_obs = function
  | RUnit -> "RUnit" | RErr -> "RErr" | RPanic -> "RPanic"
  | RVal v -> "(RVal " ^ coq_opt coq_key v ^ ")"
  | RCount (n, a) -> Printf.sprintf "(RCount %s %s)" (coq_n n) (coq_bool a)
  | REntries l -> "(REntries " ^ coq_map l ^ ")"
  | RKeys l -> "(RKeys " ^ coq_list coq_key l ^ ")"
let coq_final ((m, ch), root) =
  Printf.sprintf "(%s, %s, %s)" (coq_map m)
    (coq_list (fun (c, cm) -> "(" ^ coq_bytes c ^ ", " ^ coq_map cm ^ ")") ch) (coq_bool root)

let coq inp obs =
  if String.length inp >= 2 && (String.sub inp 0 2 = "H " || String.sub inp 0 2 = "W ") then None else
  match (try Some (parse_view obs) with _ -> None) with
  | None -> None
  | Some (xs, fin) ->
    let ops = List.map parse_op (split_ws inp) in
    let v = (xs, fin) in
    (* the verdicts computed by the extracted code must be reproduced by vm_compute *)
    Some (Printf.sprintf
      "let ops := %s in let v : impl_view := (%s, %s) in Bool.eqb (model_ok v ops) %s && Bool.eqb (agrees_b v ops) %s"
      (coq_list coq_op ops) (coq_list coq_obs xs) (coq_opt coq_final fin)
      (coq_bool (model_ok v ops)) (coq_bool (agrees_b v ops)))

let () = run_driver ~coq check
