(* C08 driver: replays an operation sequence on the extracted model of TrieState/storageDiff
   (cfg_fixed = the code after the proposed fixes; cfg_pinned for diagnostics) and on the
   Substrate overlay specification.
   model_eq : every observed token equals the model's.
   prop_ok  : the reads (norm_obs) and the final contents equal the specification's, and the
              final root is the root of the contents. *)
open Model
open Vutil

let parse_op (s : string) : op =
  let f = String.split_on_char ':' s in
  let b = bytes_of_hex in
  match f with
  | ["S"] -> OStart | ["C"] -> OCommit | ["R"] -> ORollback
  | ["p"; k; v] -> OPut (b k, b v) | ["g"; k] -> OGet (b k) | ["d"; k] -> ODel (b k)
  | ["cp"; p] -> OClearPrefix (b p) | ["cl"; p; n] -> OClearPrefixLimit (b p, n_of_hex n)
  | ["n"; k] -> ONext (b k) | ["e"] -> OEntries
  | ["cs"; c; k; v] -> OCSet (b c, b k, b v) | ["cg"; c; k] -> OCGet (b c, b k)
  | ["cd"; c; k] -> OCDel (b c, b k)
  | ["ccp"; c; p] -> OCClearPrefix (b c, b p)
  | ["ccl"; c; p; n] -> OCClearPrefixLimit (b c, b p, n_of_hex n)
  | ["cn"; c; k] -> OCNext (b c, b k)
  | ["ck"; c] -> OKill (b c)
  | ["ckl"; c; "-"] -> OKillLimit (b c, None)
  | ["ckl"; c; n] -> OKillLimit (b c, Some (n_of_hex n))
  | ["cks"; c; p] -> OCKeys (b c, b p)
  | _ -> fail "C08: bad op %s" s

let kv_str l = "[" ^ String.concat "," (List.map (fun (k, v) -> hex_of_bytes k ^ "=" ^ hex_of_bytes v) l) ^ "]"

let show_obs = function
  | RUnit -> "ok" | RErr -> "err" | RPanic -> "panic"
  | RVal None -> "none" | RVal (Some v) -> "v=" ^ hex_of_bytes v
  | RCount (n, a) -> hex_of_n n ^ "," ^ (if a then "1" else "0")
  | REntries l -> "E" ^ kv_str l
  | RKeys l -> "K[" ^ String.concat "," (List.map hex_of_bytes l) ^ "]"

let children = ["11"; "22"]

let show_final ((m, ch), root) =
  "F" ^ kv_str m ^
  String.concat "" (List.map (fun c ->
    match om_get (bytes_of_hex c) ch with
    | None -> "/" ^ c ^ "=absent"
    | Some cm -> "/" ^ c ^ "=" ^ kv_str cm) children) ^
  "/root=" ^ (if root then "1" else "0")

(* ---- parsing the implementation's tokens back *)
let parse_kv s =
  (* "[k=v,k=v]" *)
  let inner = String.sub s 1 (String.length s - 2) in
  if inner = "" then [] else
  List.map (fun e -> match String.split_on_char '=' e with
    | [k; v] -> (bytes_of_hex k, bytes_of_hex v)
    | _ -> fail "C08: bad entry %s" e) (String.split_on_char ',' inner)

let parse_obs (t : string) : obs =
  let n = String.length t in
  if t = "ok" then RUnit else if t = "err" then RErr else if t = "panic" then RPanic
  else if t = "none" then RVal None
  else if n >= 2 && String.sub t 0 2 = "v=" then RVal (Some (bytes_of_hex (String.sub t 2 (n - 2))))
  else if n >= 1 && t.[0] = 'E' then REntries (parse_kv (String.sub t 1 (n - 1)))
  else if n >= 1 && t.[0] = 'K' then begin
    let inner = String.sub t 2 (n - 3) in
    RKeys (if inner = "" then [] else List.map bytes_of_hex (String.split_on_char ',' inner))
  end else match String.split_on_char ',' t with
    | [d; a] -> RCount (n_of_hex d, a = "1")
    | _ -> fail "C08: bad token %s" t

(* final token -> (main, children (present ones), root) *)
let parse_final (t : string) =
  match String.split_on_char '/' t with
  | m :: rest ->
    let main = parse_kv (String.sub m 1 (String.length m - 1)) in
    let ch = ref [] and root = ref false in
    List.iter (fun p -> match String.split_on_char '=' p with
      | ["root"; r] -> root := (r = "1")
      | c :: _ ->
        let v = String.sub p (String.length c + 1) (String.length p - String.length c - 1) in
        if v <> "absent" then ch := (bytes_of_hex c, parse_kv v) :: !ch
      | _ -> fail "C08: bad final %s" t) rest;
    (main, List.rev !ch, !root)
  | _ -> fail "C08: bad final %s" t

let rec norm_list ops xs = match ops, xs with
  | o :: r, x :: xr -> norm_obs o x :: norm_list r xr
  | _, _ -> []

let op_name s = List.hd (String.split_on_char ':' s)

let check inp obs =
  let toks = split_ws inp in
  let ops = List.map parse_op toks in
  let otoks = split_ws obs in
  (* model (fixed and pinned) *)
  let render cf =
    let (xs, st) = run cf ops ts_init in
    let panicked = List.exists (fun x -> x = RPanic) xs in
    let closed = (st.ts_txs = []) in
    String.concat " " (List.map show_obs xs @
      (if closed && not panicked then [show_final (final_obs st)] else [])) in
  let m_fixed = render cfg_fixed in
  let m_pinned = render cfg_pinned in
  let eq = (obs = m_fixed) in
  (* spec *)
  let (sx, sst) = srun ops ss_init in
  let nops = List.length ops in
  let impl_ops_toks = List.filteri (fun i _ -> i < nops) otoks in
  let impl_obs = List.map parse_obs impl_ops_toks in
  let reads_ok = (List.length impl_obs = List.length sx) &&
                 (norm_list ops impl_obs = norm_list ops sx) in
  let final_ok, final_detail =
    if List.length otoks > nops then begin
      let (m, ch, root) = parse_final (List.nth otoks nops) in
      let sb = sst.backend in
      let ok_contents = (sst.levels = []) && m = sb.c_main &&
                        norm_children ch = norm_children sb.c_children in
      (ok_contents && root,
       (if ok_contents then "" else "contents ") ^ (if root then "" else "root "))
    end else ((sst.levels <> [] || List.exists (fun x -> x = RPanic) sx), "no-final") in
  let prop = reads_ok && final_ok in
  (* first differing read, for the detail *)
  let first_diff =
    let rec go i os a b = match os, a, b with
      | o :: r, x :: xr, y :: yr ->
        if norm_obs o x <> norm_obs o y then
          Printf.sprintf "op#%d %s impl=%s spec=%s" i (List.nth toks i) (show_obs x) (show_obs y)
        else go (i + 1) r xr yr
      | _ -> "" in
    go 0 ops impl_obs sx in
  let depth_max =
    let d = ref 0 and mx = ref 0 in
    List.iter (fun t -> if t = "S" then (incr d; if !d > !mx then mx := !d)
                        else if t = "C" || t = "R" then decr d) toks; !mx in
  let guards = run_guards cfg_fixed ops ts_init in
  let slug = function FTxLimit -> "tx-limit" | FDirectLimitOrder -> "direct-limit-order" in
  let finding = if prop then "-" else (match guards with g :: _ -> slug g | [] -> "-") in
  let kinds = List.sort_uniq compare (List.map op_name toks) in
  let tags = String.concat "," (List.map (fun k -> "op-" ^ k) kinds @
             [Printf.sprintf "depth%d" depth_max] @
             List.sort_uniq compare (List.map (fun g -> "guard-" ^ slug g) guards)) in
  let detail =
    if prop && eq then "" else
      Printf.sprintf "%s%s%s%s"
        (if prop then "" else "PROP: " ^ first_diff ^ " " ^ final_detail ^ "; ")
        (if eq then "" else "MODEL(fixed)=" ^ m_fixed ^ "; ")
        (if obs = m_pinned then "pinned-model=observed" else "pinned-model-differs")
        (if eq || obs = m_pinned then "" else " MODEL(pinned)=" ^ m_pinned) in
  { prop_ok = prop; model_eq = eq; nontrivial = (depth_max > 0 && nops >= 3);
    finding; tags; detail }

let () = run_driver check
