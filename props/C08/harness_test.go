// C08 correspondence harness (injected into package lib/runtime/storage by `go test -overlay`).
//
// input: a sequence of operations separated by single spaces, executed on one
// storage.TrieState over an empty in-memory trie; fields of an operation are separated by ':'
// (byte strings in hex, "-" = empty; numbers in hex):
//
//	S | C | R                     StartTransaction / CommitTransaction / RollbackTransaction
//	p:<k>:<v>  g:<k>  d:<k>       Put / Get / Delete
//	cp:<p>  cl:<p>:<n>            ClearPrefix / ClearPrefixLimit
//	n:<k>  e                      NextKey / TrieEntries
//	cs:<c>:<k>:<v>  cg:<c>:<k>  cd:<c>:<k>    SetChildStorage / GetChildStorage / ClearChildStorage
//	ccp:<c>:<p>  ccl:<c>:<p>:<n>  ClearPrefixInChild / ClearPrefixInChildWithLimit
//	cn:<c>:<k>                    GetChildNextKey
//	ck:<c>  ckl:<c>:<n|->        DeleteChild / DeleteChildLimit (- = nil limit)
//	cks:<c>:<p>                   GetKeysWithPrefixFromChild
//
// A history may start with the token "H" (heap case, see c08HeapSeq): its final token carries
// "/T=<contents>;<contents>..." = the contents of every entry of the trie's childTries map.
// observed: one token per operation, then the final token (only when every transaction was
// closed and nothing panicked):
//
//	ok | err | panic              (after panic nothing more is printed)
//	v=<hex> | none                values / keys (a key under ":child_storage:" is printed as none)
//	<deleted>,<0|1>               (deleted, allDeleted)
//	E[k=v,k=v]                    entries sorted by key, without the ":child_storage:" keys
//	K[k,k]                        keys, sorted
//	F[main entries]/<child>=[entries]|<child>=absent/.../root=<0|1>
//	                              contents of the backing trie; root=1 iff Trie().Hash() equals the
//	                              root of a fresh trie filled with exactly these contents
//
// Alphabet (see c08Gen): main keys, child-trie names, child keys and prefixes are all drawn
// from the same few byte strings (11, 1122, 112233, 112244, 22, 2255), so that main keys,
// child names and prefixes collide, keys are prefixes of other keys and equal to cleared
// prefixes. Child tries 11, 22 and 33 take their values from the same two values, and the
// "twins" mode mirrors writes into two child tries: child tries with equal contents are common
// (the in-memory trie keeps child tries by root hash: fix C08-6; tag twin-children).
// The bytes differ in their high nibble only, so that the backing trie never has a branch at an
// odd nibble position (pkg/trie findings get-exhausted-key / delete-exhausted-key, C02);
// prefixes never end in a zero low nibble (pkg/trie prefix defect, C02). The empty prefix / key
// is generated in the mode "empty prefixes" (refused by ClearPrefix / ClearPrefixLimit on main
// storage: fix C08-7; everything in a child trie for the child-trie operations).
// With fixes/C02-{get,delete}-diverging-key and C02-keys-prefix-descent applied the in-memory
// trie was checked to behave as an ordered map on every subset of this alphabet.
package storage

import (
	"bytes"
	"encoding/binary"
	"sort"
	"strings"
	"testing"

	vu "github.com/ChainSafe/gossamer/internal/verifutil"
	"github.com/ChainSafe/gossamer/pkg/trie"
	inmemory_trie "github.com/ChainSafe/gossamer/pkg/trie/inmemory"
)

var c08Keys = []string{"11", "1122", "112233", "112244", "22", "2255"}
var c08Prefixes = []string{"11", "1122", "22", "33", "112233", "1133"}
var c08Children = []string{"11", "22", "33"}

func c08Pick(r *vu.RNG, l []string) string { return l[r.Intn(len(l))] }

// child trie names: 11 and 22 mostly (they are main keys too), 33 now and then
func c08Child(r *vu.RNG, m c08Mode) string {
	if m.oneChild && r.Chance(3, 4) {
		return "11"
	}
	if r.Chance(1, 8) {
		return "33"
	}
	return c08Children[r.Intn(2)]
}

// values: main 01..03 or empty; every child trie: a1, a2 or (rarely) empty
func c08Val(r *vu.RNG, where string) string {
	if where == "main" {
		if r.Chance(1, 6) {
			return "-"
		}
		return []string{"01", "02", "03"}[r.Intn(3)]
	}
	if r.Chance(1, 10) {
		return "-"
	}
	return []string{"a1", "a2"}[r.Intn(2)]
}

func c08Lim(r *vu.RNG) string { return vu.X(uint64(r.Intn(4))) }

// generator modes
type c08Mode struct {
	childWeight int  // out of 10: share of child-storage operations
	limitFree   bool // no limited clears (the histories C08_commit speaks about)
	limitHeavy  bool // mostly deletions and limited clears over a populated backend
	twins       bool // writes to child trie 11 / 22 are mirrored into the other one
	emptyPrefix bool // the empty prefix / key for child-trie clears, listings and next-key
	emptyMain   bool // the empty prefix for ClearPrefix / ClearPrefixLimit on main storage too
	directMax   int  // up to this many operations before the first StartTransaction
	prelude     int  // this many direct writes first (a populated backend)
	unbalanced  bool // a CommitTransaction / RollbackTransaction without a transaction (panics)
	oneChild    bool // three quarters of the child operations go to child trie 11
}

func c08Prefix(r *vu.RNG, m c08Mode, main bool) string {
	if (main && m.emptyMain || !main && m.emptyPrefix) && r.Chance(1, 4) {
		return "-"
	}
	return c08Pick(r, c08Prefixes)
}

func c08NextArg(r *vu.RNG, m c08Mode) string {
	if m.emptyPrefix && r.Chance(1, 4) {
		return "-"
	}
	return c08Pick(r, c08Keys)
}

func c08Op(r *vu.RNG, m c08Mode) string {
	if r.Intn(10) < m.childWeight {
		c := c08Child(r, m)
		x := r.Intn(14)
		if m.limitHeavy {
			x = []int{0, 0, 4, 6, 6, 8, 8, 8, 9, 11, 11, 12, 7, 10}[x]
		}
		switch x {
		case 0, 1, 2, 3:
			return "cs:" + c + ":" + c08Pick(r, c08Keys) + ":" + c08Val(r, c)
		case 4, 5:
			return "cg:" + c + ":" + c08Pick(r, c08Keys)
		case 6:
			return "cd:" + c + ":" + c08Pick(r, c08Keys)
		case 7:
			return "ccp:" + c + ":" + c08Prefix(r, m, false)
		case 8:
			return "ccl:" + c + ":" + c08Prefix(r, m, false) + ":" + c08Lim(r)
		case 9:
			return "cn:" + c + ":" + c08NextArg(r, m)
		case 10:
			return "ck:" + c
		case 11:
			if r.Chance(1, 2) && !m.limitHeavy {
				return "ckl:" + c + ":-"
			}
			return "ckl:" + c + ":" + c08Lim(r)
		default:
			return "cks:" + c + ":" + c08Prefix(r, m, false)
		}
	}
	x := r.Intn(12)
	if m.limitHeavy {
		x = []int{0, 0, 4, 6, 6, 6, 8, 8, 8, 8, 9, 11}[x]
	}
	switch x {
	case 0, 1, 2, 3:
		return "p:" + c08Pick(r, c08Keys) + ":" + c08Val(r, "main")
	case 4, 5:
		return "g:" + c08Pick(r, c08Keys)
	case 6:
		return "d:" + c08Pick(r, c08Keys)
	case 7:
		return "cp:" + c08Prefix(r, m, true)
	case 8:
		return "cl:" + c08Prefix(r, m, true) + ":" + c08Lim(r)
	case 9, 10:
		return "n:" + c08NextArg(r, m)
	default:
		return "e"
	}
}

// the same write on the other one of the child tries 11 / 22
func c08Mirror(o string) string {
	f := strings.Split(o, ":")
	if len(f) < 3 || (f[0] != "cs" && f[0] != "cd") {
		return ""
	}
	switch f[1] {
	case "11":
		f[1] = "22"
	case "22":
		f[1] = "11"
	default:
		return ""
	}
	return strings.Join(f, ":")
}

// one well-nested history: a few direct operations (they build the backend), then
// transactions up to depth 4; every transaction is closed at the end
func c08Seq(r *vu.RNG, nops int, m c08Mode) string {
	var ops []string
	depth := 0
	for i := 0; i < m.prelude; i++ {
		if r.Intn(10) < m.childWeight {
			c := c08Child(r, m)
			ops = append(ops, "cs:"+c+":"+c08Pick(r, c08Keys)+":"+c08Val(r, c))
		} else {
			ops = append(ops, "p:"+c08Pick(r, c08Keys)+":"+c08Val(r, "main"))
		}
	}
	direct := r.Intn(m.directMax + 1)
	for i := 0; i < nops; i++ {
		if m.unbalanced && depth == 0 && r.Chance(1, 6) {
			// panics in the code and in the model: nothing runs after it
			ops = append(ops, []string{"C", "R"}[r.Intn(2)])
			break
		}
		if i == direct && depth == 0 {
			ops = append(ops, "S")
			depth++
			continue
		}
		x := r.Intn(20)
		switch {
		case x == 0 && depth < 4 && i > direct:
			ops = append(ops, "S")
			depth++
		case x == 1 && depth > 0:
			ops = append(ops, "C")
			depth--
		case x == 2 && depth > 0:
			ops = append(ops, "R")
			depth--
		default:
			o := c08Op(r, m)
			if m.limitFree && (strings.HasPrefix(o, "cl:") || strings.HasPrefix(o, "ccl:") || strings.HasPrefix(o, "ckl:")) {
				o = "e"
			}
			ops = append(ops, o)
			if m.twins && r.Chance(3, 4) {
				if o2 := c08Mirror(o); o2 != "" {
					ops = append(ops, o2)
				}
			}
		}
	}
	for depth > 0 {
		if r.Chance(3, 4) {
			ops = append(ops, "C")
		} else {
			ops = append(ops, "R")
		}
		depth--
	}
	return strings.Join(ops, " ")
}

// thorough tier: every history of up to four operations over a reduced alphabet (two keys, one
// of them a prefix of the other, both in main storage and in child trie 11), and every history
// "S a b c d C" of four such operations inside a committed transaction
var c08SmallOps = []string{"S", "C", "R",
	"p:11:01", "p:1122:02", "g:11", "g:1122", "d:11", "d:1122", "cp:11", "cl:11:1", "n:11", "e",
	"cs:11:11:a1", "cs:11:1122:a2", "cg:11:11", "cg:11:1122", "cd:11:11", "ccp:11:11", "ccl:11:11:1",
	"cn:11:11", "ck:11", "ckl:11:1", "ckl:11:-", "cks:11:11"}

func c08Exhaustive(emit func(string)) {
	var rec func(prefix []string, depth int, wrap bool)
	rec = func(prefix []string, depth int, wrap bool) {
		if len(prefix) > 0 && !wrap {
			emit(strings.Join(prefix, " "))
		}
		if depth == 0 {
			if wrap {
				emit("S " + strings.Join(prefix, " ") + " C")
			}
			return
		}
		for _, o := range c08SmallOps {
			rec(append(prefix[:len(prefix):len(prefix)], o), depth-1, wrap)
		}
	}
	rec(nil, 4, false)
	rec(nil, 4, true)
}

// "H" cases: only SetChildStorage / ClearChildStorage / DeleteChild / GetChildStorage outside any
// transaction (= PutIntoChild / ClearFromChild / DeleteChild / GetFromChild of the trie), few keys
// and values so that child tries with equal contents come and go; the final token also lists the
// contents of the trie's childTries map (model: coq/C08/ModelHeap.v)
func c08HeapSeq(r *vu.RNG, nops int) string {
	keys := []string{"22", "1122", "11"}
	ops := []string{"H"}
	for i := 0; i < nops; i++ {
		c := c08Children[r.Intn(3)]
		k := keys[r.Intn(3)]
		switch r.Intn(10) {
		case 0, 1, 2, 3, 4:
			ops = append(ops, "cs:"+c+":"+k+":"+[]string{"a1", "a1", "a2"}[r.Intn(3)])
		case 5, 6:
			ops = append(ops, "cd:"+c+":"+k)
		case 7:
			ops = append(ops, "ck:"+c)
		default:
			ops = append(ops, "cg:"+c+":"+k)
		}
	}
	return strings.Join(ops, " ")
}

func c08Gen(r *vu.RNG, n int, emit func(string)) {
	// restart from a mixed value: with the first verifutil.NewRNG the streams of seeds s and s+1
	// were the same sequence shifted by one draw (repaired since; the restart is kept, it is harmless)
	r = vu.NewRNG(r.U64())
	// only in the main run of the thorough tier (n_thorough), not in bin/check's search runs
	if vu.Thorough() && n >= 50000 {
		c08Exhaustive(emit)
	}
	for i := 0; i < n; i++ {
		nops := 6 + r.Intn(25)
		if r.Chance(1, 12) {
			emit(c08HeapSeq(r, 4+r.Intn(14)))
			continue
		}
		switch r.Intn(12) {
		case 0: // main storage only
			emit(c08Seq(r, nops, c08Mode{childWeight: 0, directMax: 5}))
		case 1: // child storage mostly
			emit(c08Seq(r, nops, c08Mode{childWeight: 8, directMax: 5}))
		case 2, 3: // no limited operations
			emit(c08Seq(r, nops, c08Mode{childWeight: 4, limitFree: true, directMax: 5}))
		case 4: // short
			emit(c08Seq(r, 3+r.Intn(5), c08Mode{childWeight: 4, directMax: 5}))
		case 5: // twin child tries
			emit(c08Seq(r, nops, c08Mode{childWeight: 8, twins: true, directMax: 8}))
		case 6: // limited clears over a populated backend, main storage
			emit(c08Seq(r, nops, c08Mode{childWeight: 0, limitHeavy: true, directMax: 8}))
		case 7: // limited clears over a populated backend, child storage
			emit(c08Seq(r, nops, c08Mode{childWeight: 9, limitHeavy: true, directMax: 8}))
		case 9: // reads and clears inside transactions over a populated backend
			emit(c08Seq(r, nops, c08Mode{childWeight: 5 + r.Intn(5), prelude: 4 + r.Intn(6), directMax: 0,
				oneChild: r.Chance(2, 3)}))
		case 11: // limited clears outside and inside transactions over a populated backend
			emit(c08Seq(r, nops, c08Mode{childWeight: []int{0, 9}[r.Intn(2)], limitHeavy: true,
				prelude: 4 + r.Intn(5), directMax: 6}))
		case 10: // commit / rollback without a transaction
			if r.Chance(1, 3) {
				emit(c08Seq(r, nops, c08Mode{childWeight: 4, unbalanced: true, directMax: 5}))
			} else {
				emit(c08Seq(r, nops, c08Mode{childWeight: 4, directMax: 5}))
			}
		case 8: // empty prefixes and keys
			emit(c08Seq(r, nops, c08Mode{childWeight: 5, emptyPrefix: true, emptyMain: c08EmptyMain, directMax: 5}))
		default:
			emit(c08Seq(r, nops, c08Mode{childWeight: 4, directMax: 5}))
		}
	}
}

// the empty prefix on main storage: it is part of ":child_storage:", the prefix of the child trie
// roots kept in the main trie; Substrate refuses to clear it (fix C08-7)
const c08EmptyMain = true

var c08ChildPrefix = []byte(":child_storage:")

func c08KV(m map[string][]byte) string {
	keys := make([]string, 0, len(m))
	for k := range m {
		if bytes.HasPrefix([]byte(k), c08ChildPrefix) {
			continue
		}
		keys = append(keys, k)
	}
	sort.Strings(keys)
	var sb strings.Builder
	sb.WriteString("[")
	for i, k := range keys {
		if i > 0 {
			sb.WriteString(",")
		}
		sb.WriteString(vu.Hex([]byte(k)) + "=" + vu.Hex(m[k]))
	}
	sb.WriteString("]")
	return sb.String()
}

func c08Value(v []byte) string {
	if v == nil {
		return "none"
	}
	return "v=" + vu.Hex(v)
}

func c08Key(v []byte) string {
	if v == nil || bytes.HasPrefix(v, c08ChildPrefix) {
		return "none"
	}
	return "v=" + vu.Hex(v)
}

func c08Err(err error) string {
	if err != nil {
		return "err"
	}
	return "ok"
}

func c08Count(d uint32, all bool, err error) string {
	if err != nil {
		return "err"
	}
	a := "0"
	if all {
		a = "1"
	}
	return vu.X(uint64(d)) + "," + a
}

func c08Final(ts *TrieState) string {
	st := ts.Trie()
	fresh := inmemory_trie.NewEmptyTrie()
	var sb strings.Builder
	entries := st.Entries()
	sb.WriteString("F" + c08KV(entries))
	for k, v := range entries {
		if !bytes.HasPrefix([]byte(k), c08ChildPrefix) {
			if err := fresh.Put([]byte(k), v); err != nil {
				return "err:fresh"
			}
		}
	}
	for _, c := range c08Children {
		name := vu.UnHex(c)
		child, err := st.GetChild(name)
		if err != nil || child == nil {
			sb.WriteString("/" + c + "=absent")
			continue
		}
		ce := child.Entries()
		sb.WriteString("/" + c + "=" + c08KV(ce))
		keys := make([]string, 0, len(ce))
		for k := range ce {
			keys = append(keys, k)
		}
		sort.Strings(keys)
		for _, k := range keys {
			if err := fresh.PutIntoChild(name, []byte(k), ce[k]); err != nil {
				return "err:fresh"
			}
		}
	}
	h1, err1 := st.Hash()
	h2, err2 := fresh.Hash()
	if err1 != nil || err2 != nil {
		return "err:hash"
	}
	if h1 == h2 {
		sb.WriteString("/root=1")
	} else {
		sb.WriteString("/root=0")
	}
	return sb.String()
}

func c08Run(in string) string {
	ts := NewTrieState(inmemory_trie.NewEmptyTrie())
	ts.SetVersion(trie.V0)
	var out []string
	depth := 0
	panicked := false
	exec := func(o string) (res string) {
		defer func() {
			if p := recover(); p != nil {
				panicked = true
				res = "panic"
			}
		}()
		f := strings.Split(o, ":")
		b := func(i int) []byte { return vu.UnHex(f[i]) }
		switch f[0] {
		case "S":
			ts.StartTransaction()
			depth++
			return "ok"
		case "C":
			ts.CommitTransaction()
			depth--
			return "ok"
		case "R":
			ts.RollbackTransaction()
			depth--
			return "ok"
		case "p":
			return c08Err(ts.Put(b(1), b(2)))
		case "g":
			return c08Value(ts.Get(b(1)))
		case "d":
			return c08Err(ts.Delete(b(1)))
		case "cp":
			return c08Err(ts.ClearPrefix(b(1)))
		case "cl":
			return c08Count(ts.ClearPrefixLimit(b(1), uint32(vu.UnX(f[2]))))
		case "n":
			return c08Key(ts.NextKey(b(1)))
		case "e":
			return "E" + c08KV(ts.TrieEntries())
		case "cs":
			return c08Err(ts.SetChildStorage(b(1), b(2), b(3)))
		case "cg":
			v, err := ts.GetChildStorage(b(1), b(2))
			if err != nil {
				return "err"
			}
			return c08Value(v)
		case "cd":
			return c08Err(ts.ClearChildStorage(b(1), b(2)))
		case "ccp":
			return c08Err(ts.ClearPrefixInChild(b(1), b(2)))
		case "ccl":
			return c08Count(ts.ClearPrefixInChildWithLimit(b(1), b(2), uint32(vu.UnX(f[3]))))
		case "cn":
			v, err := ts.GetChildNextKey(b(1), b(2))
			if err != nil {
				return "err"
			}
			return c08Key(v)
		case "ck":
			return c08Err(ts.DeleteChild(b(1)))
		case "ckl":
			var lim *[]byte
			if f[2] != "-" {
				lb := make([]byte, 4)
				binary.LittleEndian.PutUint32(lb, uint32(vu.UnX(f[2])))
				lim = &lb
			}
			return c08Count(ts.DeleteChildLimit(b(1), lim))
		case "cks":
			ks, err := ts.GetKeysWithPrefixFromChild(b(1), b(2))
			if err != nil {
				return "err"
			}
			ss := make([]string, 0, len(ks))
			for _, k := range ks {
				ss = append(ss, string(k))
			}
			sort.Strings(ss)
			for i := range ss {
				ss[i] = vu.Hex([]byte(ss[i]))
			}
			return "K[" + strings.Join(ss, ",") + "]"
		}
		return "err:badop"
	}
	heap := strings.HasPrefix(in, "H ")
	for _, o := range strings.Split(strings.TrimPrefix(in, "H "), " ") {
		if o == "" {
			continue
		}
		out = append(out, exec(o))
		if panicked {
			return strings.Join(out, " ")
		}
	}
	if depth == 0 {
		fin := c08Final(ts)
		if heap {
			fin += "/T=" + c08ChildTries(ts)
		}
		out = append(out, fin)
	}
	return strings.Join(out, " ")
}

// the contents of every entry of the in-memory trie's childTries map (keyed by root hash; also
// entries no child storage key refers to any more), sorted
func c08ChildTries(ts *TrieState) string {
	var l []string
	for _, c := range ts.Trie().GetChildTries() {
		l = append(l, c08KV(c.Entries()))
	}
	sort.Strings(l)
	return strings.Join(l, ";")
}

func TestVerifC08(t *testing.T) { vu.Run(t, "C08", 2000, c08Gen, c08Run) }
