// C33 correspondence harness for package dot/network (injected by `go test -overlay`); inputs
// of the kinds documented in props/C33/harness_messages_test.go are passed on to c33mRun.
//
// inputs:   shape <decoder>                       -> the exported field names of the decoder's Go
//                                                  destination type (verifc33.Names)
//           dec <decoder> <kind> <hex bytes>      decoder: bam bah txm lreq lresp
//           (kind = how the generator made the bytes: valid trail trunc flip subst rand hostile)
// observables:
//   ok <value text> <re1|re0|re~> <s|L> <t|T>  |  err <s|L> <t|T>  |  panic
//     value text: internal/verifc33.Render of the decoded message (grammar of props/C11/univ_test.go)
//     re1/re0: the decoded message, encoded with its own Encode and decoded again, is / is not equal
//     s|L, t|T: allocation and wall-clock buckets (see verifc33.Measure)
package network

import (
	"strings"
	"testing"

	vc "github.com/ChainSafe/gossamer/internal/verifc33"
	vu "github.com/ChainSafe/gossamer/internal/verifutil"
)

const (
	c33Hash       = "arr(32,u8)"
	c33DigestData = "st(_:arr(4,u8),_:bytes)"
	c33DigestItem = "enum(D;0:sl(u8),4:" + c33DigestData + ",5:" + c33DigestData + ",6:" + c33DigestData + ",8:st())"
	c33Digest     = "sl(" + c33DigestItem + ")"
	c33Header     = "st(_:" + c33Hash + ",_:uint,_:" + c33Hash + ",_:" + c33Hash + ",_:" + c33Digest + ")"
	c33Pair       = "st(_:bytes,_:bytes)"
)

var c33Descs = map[string]string{
	"bam": "st(_:" + c33Hash + ",_:uint,_:" + c33Hash + ",_:" + c33Hash + ",_:" + c33Digest + ",_:bool)",
	"bah": "st(_:u8,_:u32,_:" + c33Hash + ",_:" + c33Hash + ")",
	"txm": "sl(sl(u8))",
	"lreq": "st(_:st(_:bytes,_:str,_:bytes),_:st(_:bytes,_:sl(bytes)),_:st(_:bytes),_:st(_:bytes,_:bytes,_:sl(bytes))," +
		"_:st(_:opt(" + c33Hash + "),_:opt(" + c33Hash + "),_:bytes,_:bytes,_:opt(bytes)))",
	"lresp": "st(_:st(_:bytes),_:st(_:bytes),_:st(_:sl(opt(" + c33Header + "))),_:st(_:bytes,_:sl(bytes),_:sl(sl(" + c33Pair + ")),_:bytes))",
}
var c33Names = []string{"bam", "bah", "txm", "lreq", "lresp"}

func c33Gen(r *vu.RNG, n int, emit func(string)) {
	// 5/11 of the cases go to the decoders of dot/network/messages and dot/types
	// (props/C33/harness_messages_test.go), the rest to the decoders of this package
	c33mGen(r.Fork(), n*5/11, emit)
	n -= n * 5 / 11
	for _, name := range c33Names {
		emit("shape " + name)
	}
	for _, name := range c33Names { // fixed corpus
		for _, b := range [][]byte{nil, {0}, {1}, {0xff}, {0xff, 0xff, 0xff, 0xff}} {
			emit("dec " + name + " rand " + vu.Hex(b))
		}
	}
	for i := 0; i < n; i++ {
		name := c33Names[r.Intn(len(c33Names))]
		vc.Mutations(r, vc.ParseDesc(c33Descs[name]), func(kind string, b []byte) {
			emit("dec " + name + " " + kind + " " + vu.Hex(b))
		})
	}
}

// decode runs the decoder and returns the rendering of the message and, for re-encoding, its bytes
func c33Decode(name string, in []byte) (text string, reenc []byte, hasRe bool, err error) {
	switch name {
	case "bam":
		m, err := decodeBlockAnnounceMessage(in)
		if err != nil {
			return "", nil, false, err
		}
		bm := m.(*BlockAnnounceMessage)
		enc, eerr := bm.Encode()
		return vc.Render(*bm), enc, eerr == nil, nil
	case "bah":
		h, err := decodeBlockAnnounceHandshake(in)
		if err != nil {
			return "", nil, false, err
		}
		hs := h.(*BlockAnnounceHandshake)
		enc, eerr := hs.Encode()
		return vc.Render(*hs), enc, eerr == nil, nil
	case "txm":
		m, err := decodeTransactionMessage(in)
		if err != nil {
			return "", nil, false, err
		}
		tm := m.(*TransactionMessage)
		enc, eerr := tm.Encode()
		return vc.Render(tm.Extrinsics), enc, eerr == nil, nil
	case "lreq":
		l, err := newLightRequestFromBytes(in)
		if err != nil {
			return "", nil, false, err
		}
		req := request{*l.RemoteCallRequest, *l.RemoteReadRequest, *l.RemoteHeaderRequest,
			*l.RemoteReadChildRequest, *l.RemoteChangesRequest}
		enc, eerr := l.Encode()
		return vc.Render(req), enc, eerr == nil, nil
	case "lresp":
		l, err := newLightResponseFromBytes(in)
		if err != nil {
			return "", nil, false, err
		}
		resp := response{*l.RemoteCallResponse, *l.RemoteReadResponse, *l.RemoteHeaderResponse,
			*l.RemoteChangesResponse}
		enc, eerr := l.Encode()
		return vc.Render(resp), enc, eerr == nil, nil
	}
	panic("c33: unknown decoder " + name)
}

func c33Run(in string) string {
	f := strings.Split(in, " ")
	if f[0] == "shape" {
		switch f[1] {
		case "bam":
			return vc.Names(BlockAnnounceMessage{})
		case "bah":
			return vc.Names(BlockAnnounceHandshake{})
		case "lreq":
			return vc.Names(request{})
		case "lresp":
			return vc.Names(response{})
		case "txm":
			return vc.Names(TransactionMessage{})
		}
		return c33mRun(in)
	}
	if f[0] != "dec" || (len(f) == 4 && (f[1] == "warp" || f[1] == "body")) {
		return c33mRun(in)
	}
	if len(f) != 4 {
		return "err:badinput"
	}
	data := vu.UnHex(f[3])
	var text string
	var reenc []byte
	var hasRe bool
	var err error
	buckets := vc.Measure(len(data), func() { text, reenc, hasRe, err = c33Decode(f[1], data) })
	if err != nil {
		return "err " + buckets
	}
	re := "re0"
	if hasRe {
		text2, _, _, err2 := c33Decode(f[1], reenc)
		if err2 == nil && text2 == text {
			re = "re1"
		}
	}
	return "ok " + text + " " + re + " " + buckets
}

func TestVerifC33Network(t *testing.T) { vu.Run(t, "C33", 12000, c33Gen, c33Run) }
