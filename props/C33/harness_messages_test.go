// C33 correspondence harness for the decoders of package dot/network/messages and for
// types.NewBodyFromBytes.  It is compiled into the dot/network test binary together with
// props/C33/harness_network_test.go (one test binary less to link: the quick tier budget), which
// dispatches the inputs below to c33mRun; everything used here is exported by package messages.
//
// inputs:
//   dec warp|body <kind> <hex bytes>             WarpProofRequest.Decode / types.NewBodyFromBytes
//   breq <fields> <h|n|-> <hex> <dir> <max>      a protobuf BlockRequest with these fields (numbers hex;
//                                                h/n: from_block hash/number bytes, -: none) is marshalled
//                                                and given to BlockRequestMessage.Decode
//   bresp <block>;<block>;...                    block = <header hex>/<entry hex>,<entry hex>,...  (- = absent)
//                                                optionally followed by /<hash>/<receipt>/<message queue>/<justification>/<0|1>
//                                                (the last: is_empty_justification; hash defaults to 32 zero bytes);
//                                                a protobuf BlockResponse, BlockResponseMessage.Decode
//   pbraw <breq|bresp|sreq|sresp> <hex>          raw bytes to the protobuf-based decoders
// observables:
//   dec   -> as in props/C33/harness_network_test.go
//   breq  -> ok <data> <h:hex|n:number> <dir> <max|-> <re1|re0> <s|L> <t|T>  |  err <s|L> <t|T>
//   bresp -> ok <number of blocks> <re1|re0> <s|L> <t|T> <view>  |  err <s|L> <t|T>
//            view = the decoded blocks, `;`-separated (`-` for none), each
//            <hash hex>|<header>|<body>|<receipt>|<message queue>|<justification>  with N for nil,
//            S<rendering> otherwise (header: verifc33.Render of the types.Header, body: of the [][]byte)
//   pbraw -> ok|err <s|L> <t|T>
package network

import (
	"fmt"
	"strings"

	"github.com/ChainSafe/gossamer/dot/network/messages"
	pb "github.com/ChainSafe/gossamer/dot/network/proto"
	"github.com/ChainSafe/gossamer/dot/types"
	"github.com/ChainSafe/gossamer/lib/common"
	vc "github.com/ChainSafe/gossamer/internal/verifc33"
	vu "github.com/ChainSafe/gossamer/internal/verifutil"
	"google.golang.org/protobuf/proto"
)


var c33mDescs = map[string]string{"warp": "st(_:" + c33Hash + ")", "body": "sl(bytes)"}

func c33mGen(r *vu.RNG, n int, emit func(string)) {
	for _, name := range []string{"warp", "body"} {
		for _, b := range [][]byte{nil, {0}, {4}, {4, 4}, {0xff, 0xff}} {
			emit("dec " + name + " rand " + vu.Hex(b))
		}
	}
	emit("shape warp")
	emit("shape breq")
	emit("shape bresp")
	emit("breq 1000000 n 01000000 0 0")
	emit("breq 13000000 n 0100 1 80")
	emit("breq 0 - - 0 0")
	emit("breq ffffffff h " + strings.Repeat("ab", 32) + " 1 1")
	emit("breq 1000000 h " + strings.Repeat("cd", 40) + " 2 ffffffff")
	emit("breq 1000000 h 0102 100 0")
	emit("bresp -/-")
	emit("bresp")
	hdr := vc.ParseDesc(c33Header)
	body := vc.ParseDesc("bytes")
	for i := 0; i < n; i++ {
		switch r.Intn(10) {
		case 0, 1, 2:
			name := []string{"warp", "body", "body"}[r.Intn(3)]
			vc.Mutations(r, vc.ParseDesc(c33mDescs[name]), func(kind string, b []byte) {
				emit("dec " + name + " " + kind + " " + vu.Hex(b))
			})
		case 3, 4:
			from := "-"
			b := []byte{}
			switch r.Intn(5) {
			case 0:
				from, b = "h", r.Bytes(32)
			case 1:
				from, b = "h", r.Bytes(r.Intn(70))
			case 2, 3:
				from, b = "n", r.Bytes(4)
			case 4:
				from, b = "n", r.Bytes(r.Intn(9))
			}
			if r.Chance(1, 10) {
				from, b = "-", nil
			}
			fields := uint64(r.U64() & 0xffffffff)
			if r.Chance(1, 2) {
				fields = uint64(r.Intn(32)) << 24
			}
			dir := uint64(r.Intn(3))
			if r.Chance(1, 8) {
				dir = r.U64() & 0x7fffffff
			}
			max := uint64(0)
			if r.Chance(2, 3) {
				max = uint64(r.Intn(300))
			}
			emit(fmt.Sprintf("breq %x %s %s %x %x", fields, from, vu.Hex(b), dir, max))
		case 5, 6, 7:
			nb := r.Intn(4)
			var blocks []string
			for j := 0; j < nb; j++ {
				h := "-"
				if r.Chance(3, 4) {
					var hb []byte
					vc.Mutations(r, hdr, func(kind string, b []byte) { hb = b })
					if len(hb) > 0 {
						h = vu.Hex(hb)
					}
				}
				ne := r.Intn(4)
				var es []string
				for k := 0; k < ne; k++ {
					var eb []byte
					vc.Mutations(r, body, func(kind string, b []byte) { eb = b })
					if len(eb) > 0 {
						es = append(es, vu.Hex(eb))
					}
				}
				e := "-"
				if len(es) > 0 {
					e = strings.Join(es, ",")
				}
				// the entries are decoded again as one [][]byte behind their count: screen that too
				var cat []byte
				for _, x := range es {
					cat = append(cat, vu.UnHex(x)...)
				}
				if vc.MaxDeclared(vc.ParseDesc("sl(bytes)"), append(vc.Compact(uint64(len(es))), cat...)) > 1<<20 {
					e = "-"
				}
				blk := h + "/" + e
				if r.Chance(1, 2) { // the pass-through fields and the hash
					hash := r.Bytes([]int{32, 32, 0, 5, 40}[r.Intn(5)])
					opt := func() string {
						switch r.Intn(3) {
						case 0:
							return "-"
						default:
							return vu.Hex(r.Bytes(1 + r.Intn(4)))
						}
					}
					blk += "/" + vu.Hex(hash) + "/" + opt() + "/" + opt() + "/" + opt() + "/" + []string{"0", "1"}[r.Intn(2)]
				}
				blocks = append(blocks, blk)
			}
			emit(strings.TrimSpace("bresp " + strings.Join(blocks, ";")))
		default:
			which := []string{"breq", "bresp", "sreq", "sresp"}[r.Intn(4)]
			var b []byte
			if r.Chance(1, 2) {
				b = r.Bytes(r.Intn(30))
			} else { // plausible protobuf: a few length-delimited / varint fields
				for k := 0; k < r.Intn(5); k++ {
					fn := byte(1 + r.Intn(7))
					if r.Chance(1, 2) {
						l := r.Intn(6)
						b = append(append(b, fn<<3|2, byte(l)), r.Bytes(l)...)
					} else {
						b = append(b, fn<<3|0, byte(r.Intn(128)))
					}
				}
				if r.Chance(1, 3) { // a length-delimited field claiming more than there is
					b = append(b, byte(1+r.Intn(3))<<3|2, 0xff, 0xff, 0xff, 0x7f)
				}
			}
			emit("pbraw " + which + " " + vu.Hex(b))
		}
	}
}

// c33mBlocksView renders what BlockResponseMessage.Decode returned.
func c33mBlocksView(bm *messages.BlockResponseMessage) string {
	if len(bm.BlockData) == 0 {
		return "-"
	}
	optBytes := func(p *[]byte) string {
		if p == nil {
			return "N"
		}
		return "S" + vu.Hex(*p)
	}
	var out []string
	for _, bd := range bm.BlockData {
		if bd == nil {
			out = append(out, "?nil")
			continue
		}
		h, b := "N", "N"
		if bd.Header != nil {
			h = "S" + vc.Render(*bd.Header)
		}
		if bd.Body != nil {
			b = "S" + vc.Render(types.ExtrinsicsArrayToBytesArray(*bd.Body))
		}
		out = append(out, strings.Join([]string{vu.Hex(bd.Hash[:]), h, b, optBytes(bd.Receipt),
			optBytes(bd.MessageQueue), optBytes(bd.Justification)}, "|"))
	}
	return strings.Join(out, ";")
}

func c33mRun(in string) string {
	f := strings.Split(in, " ")
	switch f[0] {
	case "shape":
		switch f[1] {
		case "warp":
			return vc.Names(messages.WarpProofRequest{})
		case "breq":
			return vc.Names(messages.BlockRequestMessage{})
		case "bresp":
			return vc.Names(types.BlockData{}) + ";" + vc.Names(types.Header{})
		}
		return "?"
	case "dec":
		data := vu.UnHex(f[3])
		var text string
		var err error
		buckets := vc.Measure(len(data), func() {
			switch f[1] {
			case "warp":
				w := &messages.WarpProofRequest{}
				err = w.Decode(data)
				if err == nil {
					text = vc.Render(*w)
				}
			case "body":
				var b *types.Body
				b, err = types.NewBodyFromBytes(data)
				if err == nil {
					text = vc.Render(types.ExtrinsicsArrayToBytesArray(*b))
				}
			}
		})
		if err != nil {
			return "err " + buckets
		}
		re := "re~"
		if f[1] == "warp" {
			re = "re0"
			w := &messages.WarpProofRequest{}
			if w.Decode(data) == nil {
				if enc, e := w.Encode(); e == nil {
					w2 := &messages.WarpProofRequest{}
					if w2.Decode(enc) == nil && vc.Render(*w2) == text {
						re = "re1"
					}
				}
			}
		}
		return "ok " + text + " " + re + " " + buckets
	case "breq":
		msg := &pb.BlockRequest{Fields: uint32(vu.UnX(f[1])), Direction: pb.Direction(int32(vu.UnX(f[4]))),
			MaxBlocks: uint32(vu.UnX(f[5]))}
		switch f[2] {
		case "h":
			msg.FromBlock = &pb.BlockRequest_Hash{Hash: vu.UnHex(f[3])}
		case "n":
			msg.FromBlock = &pb.BlockRequest_Number{Number: vu.UnHex(f[3])}
		}
		data, err := proto.Marshal(msg)
		if err != nil {
			return "err:marshal"
		}
		bm := &messages.BlockRequestMessage{}
		buckets := vc.Measure(len(data), func() { err = bm.Decode(data) })
		if err != nil {
			return "err " + buckets
		}
		show := func(m *messages.BlockRequestMessage) string {
			start := "?"
			switch v := m.StartingBlock.RawValue().(type) {
			case uint:
				start = "n:" + vu.X(uint64(v))
			case common.Hash:
				start = "h:" + vu.Hex(v[:])
			}
			max := "-"
			if m.Max != nil {
				max = vu.X(uint64(*m.Max))
			}
			return fmt.Sprintf("%x %s %x %s", m.RequestedData, start, byte(m.Direction), max)
		}
		re := "re0"
		if enc, e := bm.Encode(); e == nil {
			bm2 := &messages.BlockRequestMessage{}
			if bm2.Decode(enc) == nil && show(bm2) == show(bm) {
				re = "re1"
			}
		}
		return "ok " + show(bm) + " " + re + " " + buckets
	case "bresp":
		msg := &pb.BlockResponse{}
		payload := 0 // header and body bytes: the length the allocation budget is measured against
		if len(f) > 1 {
			for _, blk := range strings.Split(f[1], ";") {
				parts := strings.Split(blk, "/")
				bd := &pb.BlockData{Hash: make([]byte, 32)}
				if parts[0] != "-" {
					bd.Header = vu.UnHex(parts[0])
					payload += len(bd.Header)
				}
				if parts[1] != "-" {
					for _, e := range strings.Split(parts[1], ",") {
						bd.Body = append(bd.Body, vu.UnHex(e))
						payload += len(vu.UnHex(e))
					}
				}
				if len(parts) == 7 {
					bd.Hash = vu.UnHex(parts[2])
					bd.Receipt = vu.UnHex(parts[3])
					bd.MessageQueue = vu.UnHex(parts[4])
					bd.Justification = vu.UnHex(parts[5])
					bd.IsEmptyJustification = parts[6] == "1"
				}
				msg.Blocks = append(msg.Blocks, bd)
			}
		}
		data, err := proto.Marshal(msg)
		if err != nil {
			return "err:marshal"
		}
		bm := &messages.BlockResponseMessage{}
		buckets := vc.Measure(payload, func() { err = bm.Decode(data) })
		if err != nil {
			return "err " + buckets
		}
		view := c33mBlocksView(bm)
		re := "re0"
		if enc, e := bm.Encode(); e == nil {
			bm2 := &messages.BlockResponseMessage{}
			if bm2.Decode(enc) == nil && c33mBlocksView(bm2) == view {
				re = "re1"
			}
		}
		return fmt.Sprintf("ok %x %s %s %s", len(bm.BlockData), re, buckets, view)
	case "pbraw":
		data := vu.UnHex(f[2])
		var err error
		buckets := vc.Measure(len(data), func() {
			switch f[1] {
			case "breq":
				err = (&messages.BlockRequestMessage{}).Decode(data)
			case "bresp":
				err = (&messages.BlockResponseMessage{}).Decode(data)
			case "sreq":
				err = (&messages.StateRequest{}).Decode(data)
			default:
				err = (&messages.StateResponse{}).Decode(data)
			}
		})
		if err != nil {
			return "err " + buckets
		}
		return "ok " + buckets
	}
	return "err:badinput"
}

