// Package verifc33 is the shared part of the C33 correspondence harnesses. It is NOT part of
// gossamer: it is injected with `go test -overlay` as
// github.com/ChainSafe/gossamer/internal/verifc33 and imports nothing from gossamer.
//
// It provides
//   - Render: a structural rendering of a decoded Go message in the value grammar of
//     props/C11/univ_test.go (unsigned: hex, signed: [-]hex, bool: t|f, []byte and string: hex or -,
//     pointer: N | S<v>, varying data type: V<idx hex>:<v>, array/slice/struct: [v,...] with the
//     exported fields of a struct in declaration order),
//   - a parser of the schema descriptions (same grammar as C11; `enum(<name>;idx:T,...)`),
//     a generator of valid encodings of a schema and the walker MaxDeclared that finds the largest
//     byte-string length an input declares (the generators drop inputs declaring more than 1 MiB:
//     decodeBytes really allocates and clears the declared length),
//   - Measure: allocation and wall-clock buckets of one decoder call.
package verifc33

import (
	"fmt"
	"reflect"
	"runtime"
	"strconv"
	"strings"
	"time"
)

// ---------------------------------------------------------------- rendering
var bytesType = reflect.TypeOf([]byte(nil))

func Render(x any) string {
	var sb strings.Builder
	render(&sb, reflect.ValueOf(x))
	return sb.String()
}

func hexOrDash(b []byte) string {
	if len(b) == 0 {
		return "-"
	}
	return fmt.Sprintf("%x", b)
}

func render(sb *strings.Builder, v reflect.Value) {
	if !v.IsValid() {
		sb.WriteString("?invalid")
		return
	}
	switch v.Kind() {
	case reflect.Bool:
		if v.Bool() {
			sb.WriteByte('t')
		} else {
			sb.WriteByte('f')
		}
	case reflect.Uint, reflect.Uint8, reflect.Uint16, reflect.Uint32, reflect.Uint64:
		sb.WriteString(strconv.FormatUint(v.Uint(), 16))
	case reflect.Int, reflect.Int8, reflect.Int16, reflect.Int32, reflect.Int64:
		sb.WriteString(strconv.FormatInt(v.Int(), 16))
	case reflect.String:
		sb.WriteString(hexOrDash([]byte(v.String())))
	case reflect.Slice:
		if v.Type() == bytesType {
			if v.Len() > 1<<17 {
				fmt.Fprintf(sb, "?big%x", v.Len())
			} else {
				sb.WriteString(hexOrDash(v.Bytes()))
			}
			return
		}
		fallthrough
	case reflect.Array:
		if v.Len() > 1<<17 {
			fmt.Fprintf(sb, "?big%x", v.Len())
			return
		}
		sb.WriteByte('[')
		for i := 0; i < v.Len(); i++ {
			if i > 0 {
				sb.WriteByte(',')
			}
			render(sb, v.Index(i))
		}
		sb.WriteByte(']')
	case reflect.Ptr:
		if v.IsNil() {
			sb.WriteByte('N')
		} else {
			sb.WriteByte('S')
			render(sb, v.Elem())
		}
	case reflect.Interface:
		if v.IsNil() {
			sb.WriteString("?nil")
		} else {
			render(sb, v.Elem())
		}
	case reflect.Struct:
		if m := v.MethodByName("IndexValue"); m.IsValid() && m.Type().NumIn() == 0 && m.Type().NumOut() == 3 {
			out := m.Call(nil)
			if !out[2].IsNil() {
				sb.WriteString("?unset")
				return
			}
			fmt.Fprintf(sb, "V%x:", out[0].Uint())
			render(sb, out[1])
			return
		}
		sb.WriteByte('[')
		first := true
		for i := 0; i < v.NumField(); i++ {
			if v.Type().Field(i).PkgPath != "" { // unexported: pkg/scale skips it
				continue
			}
			if !first {
				sb.WriteByte(',')
			}
			first = false
			render(sb, v.Field(i))
		}
		sb.WriteByte(']')
	default:
		sb.WriteString("?kind")
	}
}

// Names returns the exported field names of a struct type in declaration order, recursively
// through pointers, slices, arrays and nested structs: `Round,SetID,Message(Stage,BlockHash)`.
// Render shows values by position only; Names ties the positions to the Go field names, so that
// two same-typed fields exchanged in a struct definition are noticed.
func Names(x any) string {
	var sb strings.Builder
	names(&sb, reflect.TypeOf(x), 0)
	return sb.String()
}

func names(sb *strings.Builder, t reflect.Type, depth int) {
	for t.Kind() == reflect.Ptr || t.Kind() == reflect.Slice || t.Kind() == reflect.Array {
		t = t.Elem()
	}
	if t.Kind() != reflect.Struct || depth > 6 {
		return
	}
	first := true
	for i := 0; i < t.NumField(); i++ {
		f := t.Field(i)
		if f.PkgPath != "" {
			continue
		}
		if !first {
			sb.WriteByte(',')
		}
		first = false
		sb.WriteString(f.Name)
		var sub strings.Builder
		names(&sub, f.Type, depth+1)
		if sub.Len() > 0 {
			sb.WriteByte('(')
			sb.WriteString(sub.String())
			sb.WriteByte(')')
		}
	}
}

// ---------------------------------------------------------------- schema descriptions
type Kind int

const (
	KPrim Kind = iota
	KOpt
	KEnum
	KArr
	KSl
	KSt
)

type Ty struct {
	Kind Kind
	Prim string
	N    int
	A    *Ty
	Fs   []*Ty
	Idx  []uint
}

type parser struct {
	s   string
	pos int
}

func (p *parser) peek() byte {
	if p.pos < len(p.s) {
		return p.s[p.pos]
	}
	return 0
}
func (p *parser) eat(c byte) {
	if p.peek() != c {
		panic(fmt.Sprintf("verifc33: expected %c at %d in %q", c, p.pos, p.s))
	}
	p.pos++
}
func (p *parser) ident() string {
	st := p.pos
	for p.pos < len(p.s) {
		c := p.s[p.pos]
		if (c >= 'a' && c <= 'z') || (c >= 'A' && c <= 'Z') || (c >= '0' && c <= '9') || c == '_' {
			p.pos++
		} else {
			break
		}
	}
	return p.s[st:p.pos]
}

var tyCache = map[string]*Ty{}

func ParseDesc(desc string) *Ty {
	if t, ok := tyCache[desc]; ok {
		return t
	}
	p := &parser{s: desc}
	t := p.ty()
	if p.pos != len(desc) {
		panic("verifc33: trailing input in " + desc)
	}
	tyCache[desc] = t
	return t
}

func (p *parser) ty() *Ty {
	id := p.ident()
	switch id {
	case "u8", "u16", "u32", "u64", "uint", "bool", "bytes", "str":
		return &Ty{Kind: KPrim, Prim: id}
	case "opt", "sl":
		p.eat('(')
		a := p.ty()
		p.eat(')')
		if id == "opt" {
			return &Ty{Kind: KOpt, A: a}
		}
		return &Ty{Kind: KSl, A: a}
	case "arr":
		p.eat('(')
		n, err := strconv.Atoi(p.ident())
		if err != nil {
			panic("verifc33: array length")
		}
		p.eat(',')
		a := p.ty()
		p.eat(')')
		return &Ty{Kind: KArr, N: n, A: a}
	case "st":
		p.eat('(')
		t := &Ty{Kind: KSt}
		if p.peek() == ')' {
			p.pos++
			return t
		}
		for {
			p.ident() // tag: always _
			p.eat(':')
			t.Fs = append(t.Fs, p.ty())
			if p.peek() == ',' {
				p.pos++
				continue
			}
			p.eat(')')
			return t
		}
	case "enum":
		p.eat('(')
		p.ident()
		p.eat(';')
		t := &Ty{Kind: KEnum}
		for {
			ix, err := strconv.ParseUint(p.ident(), 16, 32)
			if err != nil {
				panic("verifc33: enum index")
			}
			p.eat(':')
			t.Idx = append(t.Idx, uint(ix))
			t.Fs = append(t.Fs, p.ty())
			if p.peek() == ',' {
				p.pos++
				continue
			}
			p.eat(')')
			return t
		}
	}
	panic(fmt.Sprintf("verifc33: unknown type %q in %q", id, p.s))
}

// ---------------------------------------------------------------- generation of valid encodings
type RNG interface {
	Intn(n int) int
	U64() uint64
	Bytes(n int) []byte
	Chance(num, den int) bool
}

func Compact(n uint64) []byte {
	switch {
	case n < 1<<6:
		return []byte{byte(n << 2)}
	case n < 1<<14:
		v := uint16(n<<2) | 1
		return []byte{byte(v), byte(v >> 8)}
	case n < 1<<30:
		v := uint32(n<<2) | 2
		return []byte{byte(v), byte(v >> 8), byte(v >> 16), byte(v >> 24)}
	}
	k := 0
	for m := n; m != 0; m >>= 8 {
		k++
	}
	out := []byte{byte((k-4)<<2 | 3)}
	for i := 0; i < k; i++ {
		out = append(out, byte(n>>(8*uint(i))))
	}
	return out
}

func genU(r RNG, bits uint) uint64 {
	var v uint64
	switch r.Intn(6) {
	case 0:
		v = uint64(r.Intn(70))
	case 1:
		b := []uint64{1 << 6, 1 << 14, 1 << 30, 1 << 32, 1 << 56}[r.Intn(5)]
		v = b - 1 + uint64(r.Intn(3))
	case 2:
		v = ^uint64(0) - uint64(r.Intn(2))
	default:
		v = r.U64() >> uint(r.Intn(64))
	}
	if bits < 64 {
		v &= (uint64(1) << bits) - 1
	}
	return v
}

func le(v uint64, k int) []byte {
	out := make([]byte, k)
	for i := range out {
		out[i] = byte(v >> (8 * uint(i)))
	}
	return out
}

func genLen(r RNG) int {
	switch r.Intn(8) {
	case 0:
		return 0
	case 1:
		return 60 + r.Intn(10)
	default:
		return r.Intn(5)
	}
}

// GenValid returns a valid encoding of a random value of the schema.
func GenValid(r RNG, t *Ty) []byte {
	switch t.Kind {
	case KPrim:
		switch t.Prim {
		case "u8":
			return le(genU(r, 8), 1)
		case "u16":
			return le(genU(r, 16), 2)
		case "u32":
			return le(genU(r, 32), 4)
		case "u64":
			return le(genU(r, 64), 8)
		case "uint":
			return Compact(genU(r, 64))
		case "bool":
			return []byte{byte(r.Intn(2))}
		default:
			n := genLen(r)
			return append(Compact(uint64(n)), r.Bytes(n)...)
		}
	case KOpt:
		if r.Chance(1, 3) {
			return []byte{0}
		}
		return append([]byte{1}, GenValid(r, t.A)...)
	case KEnum:
		i := r.Intn(len(t.Fs))
		return append([]byte{byte(t.Idx[i])}, GenValid(r, t.Fs[i])...)
	case KArr:
		var out []byte
		for i := 0; i < t.N; i++ {
			out = append(out, GenValid(r, t.A)...)
		}
		return out
	case KSl:
		n := genLen(r)
		if n > 8 {
			n = 8
		}
		out := Compact(uint64(n))
		for i := 0; i < n; i++ {
			out = append(out, GenValid(r, t.A)...)
		}
		return out
	default:
		var out []byte
		for _, f := range t.Fs {
			out = append(out, GenValid(r, f)...)
		}
		return out
	}
}

// ---------------------------------------------------------------- declared byte-string lengths
type walk struct {
	data []byte
	pos  int
	max  uint64
	stop bool
}

func (w *walk) read(k int) []byte {
	buf := make([]byte, k)
	if k == 0 {
		return buf
	}
	if w.pos >= len(w.data) {
		w.stop = true
		return buf
	}
	w.pos += copy(buf, w.data[w.pos:])
	return buf
}

func (w *walk) compact() uint64 {
	p := w.read(1)
	if w.stop {
		return 0
	}
	lev := func(b []byte) uint64 {
		var v uint64
		for i := len(b) - 1; i >= 0; i-- {
			v = v<<8 | uint64(b[i])
		}
		return v
	}
	switch p[0] & 3 {
	case 0:
		return uint64(p[0] >> 2)
	case 1:
		b := w.read(1)
		return (uint64(p[0]) | uint64(b[0])<<8) >> 2
	case 2:
		b := w.read(3)
		return (uint64(p[0]) | lev(b)<<8) >> 2
	}
	k := int(p[0]>>2) + 4
	b := w.read(k)
	if k > 8 {
		w.stop = true
		return 0
	}
	return lev(b)
}

func (w *walk) walk(t *Ty) {
	if w.stop {
		return
	}
	switch t.Kind {
	case KPrim:
		switch t.Prim {
		case "u8", "bool":
			w.read(1)
		case "u16":
			w.read(2)
		case "u32":
			w.read(4)
		case "u64":
			w.read(8)
		case "uint":
			w.compact()
		default:
			l := w.compact()
			if w.stop || l > 1<<32-1 {
				w.stop = true
				return
			}
			if l > w.max {
				w.max = l
			}
			if l > uint64(len(w.data)-w.pos) {
				if l > 0 && w.pos >= len(w.data) {
					w.stop = true
				}
				w.pos = len(w.data)
			} else {
				w.pos += int(l)
			}
		}
	case KOpt:
		b := w.read(1)
		if !w.stop && b[0] == 1 {
			w.walk(t.A)
		} else if b[0] != 0 {
			w.stop = true
		}
	case KEnum:
		b := w.read(1)
		if w.stop {
			return
		}
		for i, ix := range t.Idx {
			if ix == uint(b[0]) {
				w.walk(t.Fs[i])
				return
			}
		}
		w.stop = true
	case KArr:
		for i := 0; i < t.N && !w.stop; i++ {
			w.walk(t.A)
		}
	case KSl:
		n := w.compact()
		for i := uint64(0); i < n && !w.stop; i++ {
			w.walk(t.A)
		}
	default:
		for _, f := range t.Fs {
			w.walk(f)
		}
	}
}

// MaxDeclared returns the largest byte-string length the input declares for the schema.
func MaxDeclared(t *Ty, data []byte) uint64 {
	w := &walk{data: data}
	w.walk(t)
	return w.max
}

// ---------------------------------------------------------------- inputs
// Mutations derives the inputs for one schema: valid, truncated, bit-flipped, substituted,
// random, and crafted length prefixes (at most 1 MiB declared).
func Mutations(r RNG, t *Ty, emit func(kind string, b []byte)) {
	out := func(kind string, b []byte) {
		if MaxDeclared(t, b) <= 1<<20 {
			emit(kind, b)
		}
	}
	enc := GenValid(r, t)
	if len(enc) >= 2 && r.Chance(1, 10) {
		// a small value in one of the first two bytes: enum indices, option / bool bytes, counts
		b := append([]byte{}, enc...)
		b[r.Intn(2)] = []byte{0, 1, 2, 3, 4, 5, 6, 7, 8, 9, 0xff}[r.Intn(11)]
		out("idx", b)
		return
	}
	switch r.Intn(12) {
	case 0, 1:
		out("valid", enc)
	case 2:
		out("trail", append(append([]byte{}, enc...), r.Bytes(1+r.Intn(3))...))
	case 3, 4, 5:
		if len(enc) > 0 {
			out("trunc", enc[:r.Intn(len(enc))])
		}
	case 6, 7:
		if len(enc) > 0 {
			b := append([]byte{}, enc...)
			b[r.Intn(len(b))] ^= 1 << uint(r.Intn(8))
			out("flip", b)
		}
	case 8:
		if len(enc) > 0 {
			b := append([]byte{}, enc...)
			b[r.Intn(len(b))] = []byte{0, 1, 2, 3, 0xfc, 0xfd, 0xfe, 0xff, 0x80}[r.Intn(9)]
			out("subst", b)
		}
	case 9:
		out("rand", r.Bytes(r.Intn(40)))
	default: // crafted length prefix somewhere in the message
		var l uint64
		switch r.Intn(4) {
		case 0: // above the allocation budget for short inputs, cheap enough to really allocate
			l = uint64(320<<10 + r.Intn(128<<10))
		case 1:
			l = 1<<32 - 1 - uint64(r.Intn(3))
		case 2:
			l = uint64(1)<<30 + uint64(r.Intn(100))
		default:
			l = r.U64() | 1<<40
		}
		pre := Compact(l)
		p := 0
		if len(enc) > 0 {
			p = r.Intn(len(enc))
		}
		b := append(append(append([]byte{}, enc[:p]...), pre...), r.Bytes(r.Intn(6))...)
		out("hostile", b)
	}
}

// ---------------------------------------------------------------- measuring
// Measure runs f and returns its allocation bucket (s|L: TotalAlloc grew by at most / more than
// 256 KiB + 2048 * n) and time bucket (t|T: at most / more than 2 s + 100 us * n).
func Measure(n int, f func()) string {
	var ms, me runtime.MemStats
	runtime.ReadMemStats(&ms)
	start := time.Now()
	f()
	el := time.Since(start)
	runtime.ReadMemStats(&me)
	a, t := "s", "t"
	if me.TotalAlloc-ms.TotalAlloc > 256<<10+2048*uint64(n) {
		a = "L"
	}
	if el > 2*time.Second+time.Duration(n)*100*time.Microsecond {
		t = "T"
	}
	return a + " " + t
}
