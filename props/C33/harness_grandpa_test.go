// C33 correspondence harness for package lib/grandpa (injected by `go test -overlay`).
//
// inputs:   shape <decoder>                       -> exported field names of the destination types
//           dec <decoder> <kind> <hex bytes>      decoder: ghs (Service.decodeHandshake)
//                                                          gmsg (Service.decodeMessage + decodeMessage)
// observables: as in props/C33/harness_network_test.go; a GRANDPA message is rendered as the
//   varying data type it was decoded from: V0:<vote message> V1:<commit> V2:V1:<neighbour packet>
//   V3:<catch-up request> V4:<catch-up response>
package grandpa

import (
	"strings"
	"testing"

	"github.com/ChainSafe/gossamer/dot/network"
	vc "github.com/ChainSafe/gossamer/internal/verifc33"
	vu "github.com/ChainSafe/gossamer/internal/verifutil"
)

const (
	c33Hash       = "arr(32,u8)"
	c33Sig        = "arr(64,u8)"
	c33Vote       = "st(_:" + c33Hash + ",_:u32)"
	c33SignedMsg  = "st(_:u8,_:" + c33Hash + ",_:u32,_:" + c33Sig + ",_:" + c33Hash + ")"
	c33VoteMsg    = "st(_:u64,_:u64,_:" + c33SignedMsg + ")"
	c33AuthData   = "st(_:" + c33Sig + ",_:" + c33Hash + ")"
	c33Commit     = "st(_:u64,_:u64,_:" + c33Vote + ",_:sl(" + c33Vote + "),_:sl(" + c33AuthData + "))"
	c33Neighbour  = "enum(N;1:st(_:u64,_:u64,_:u32))"
	c33CatchReq   = "st(_:u64,_:u64)"
	c33SignedVote = "st(_:" + c33Vote + ",_:" + c33Sig + ",_:" + c33Hash + ")"
	c33CatchResp  = "st(_:u64,_:u64,_:sl(" + c33SignedVote + "),_:sl(" + c33SignedVote + "),_:" + c33Hash + ",_:u32)"
)

var c33Descs = map[string]string{
	"ghs":  "st(_:u8)",
	"gmsg": "enum(G;0:" + c33VoteMsg + ",1:" + c33Commit + ",2:" + c33Neighbour + ",3:" + c33CatchReq + ",4:" + c33CatchResp + ")",
}
var c33Names = []string{"ghs", "gmsg", "gmsg", "gmsg"}

func c33Gen(r *vu.RNG, n int, emit func(string)) {
	emit("shape ghs")
	emit("shape gmsg")
	for _, name := range []string{"ghs", "gmsg"} {
		for _, b := range [][]byte{nil, {0}, {1}, {2}, {2, 0}, {2, 1}, {5}, {0xff}, {1, 0xff, 0xff, 0xff, 0xff}} {
			emit("dec " + name + " rand " + vu.Hex(b))
		}
	}
	for i := 0; i < n; i++ {
		name := c33Names[r.Intn(len(c33Names))]
		vc.Mutations(r, vc.ParseDesc(c33Descs[name]), func(kind string, b []byte) {
			emit("dec " + name + " " + kind + " " + vu.Hex(b))
		})
	}
}

func c33Decode(name string, in []byte) (text string, reenc []byte, hasRe bool, err error) {
	var s *Service
	switch name {
	case "ghs":
		h, err := s.decodeHandshake(in)
		if err != nil {
			return "", nil, false, err
		}
		hs := h.(*GrandpaHandshake)
		enc, eerr := hs.Encode()
		return vc.Render(*hs), enc, eerr == nil, nil
	case "gmsg":
		nm, err := s.decodeMessage(in)
		if err != nil {
			return "", nil, false, err
		}
		m, err := decodeMessage(nm.(*network.ConsensusMessage))
		if err != nil {
			return "", nil, false, err
		}
		switch v := m.(type) {
		case *VoteMessage:
			text = "V0:" + vc.Render(*v)
		case *CommitMessage:
			text = "V1:" + vc.Render(*v)
		case *NeighbourPacketV1:
			text = "V2:V1:" + vc.Render(*v)
		case *CatchUpRequest:
			text = "V3:" + vc.Render(*v)
		case *CatchUpResponse:
			text = "V4:" + vc.Render(*v)
		default:
			text = "?type"
		}
		cm, eerr := m.ToConsensusMessage()
		if eerr != nil {
			return text, nil, false, nil
		}
		return text, cm.Data, true, nil
	}
	panic("c33: unknown decoder " + name)
}

func c33Run(in string) string {
	f := strings.Split(in, " ")
	if f[0] == "shape" {
		if f[1] == "ghs" {
			return vc.Names(GrandpaHandshake{})
		}
		return strings.Join([]string{vc.Names(VoteMessage{}), vc.Names(CommitMessage{}), vc.Names(NeighbourPacketV1{}),
			vc.Names(CatchUpRequest{}), vc.Names(CatchUpResponse{})}, ";")
	}
	if len(f) != 4 || f[0] != "dec" {
		return "err:badinput"
	}
	data := vu.UnHex(f[3])
	var text string
	var reenc []byte
	var hasRe bool
	var err error
	buckets := vc.Measure(len(data), func() { text, reenc, hasRe, err = c33Decode(f[1], data) })
	if err != nil {
		return "err " + buckets
	}
	re := "re0"
	if hasRe {
		text2, _, _, err2 := c33Decode(f[1], reenc)
		if err2 == nil && text2 == text {
			re = "re1"
		}
	}
	return "ok " + text + " " + re + " " + buckets
}

func TestVerifC33Grandpa(t *testing.T) { vu.Run(t, "C33", 8000, c33Gen, c33Run) }
