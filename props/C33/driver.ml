(* C33 driver: replays the traces of the three C33 harnesses on the extracted model: the SCALE
   decoder model (Scale.Codec.decode at cfg [current]) instantiated at the message schemas of
   coq/C33/Model.v, plus the models of the gossamer layer above protobuf (breq_decode,
   bresp_decode); evaluates the property predicate Model.c33_prop on the implementation's
   observables. *)
open Model
open Vutil
open Scaleuniv

let hash = "arr(32,u8)"
let sigd = "arr(64,u8)"
let digestdata = "st(_:arr(4,u8),_:bytes)"
let digestitem = "enum(D;0:sl(u8),4:" ^ digestdata ^ ",5:" ^ digestdata ^ ",6:" ^ digestdata ^ ",8:st())"
let digest = "sl(" ^ digestitem ^ ")"
let header = "st(_:" ^ hash ^ ",_:uint,_:" ^ hash ^ ",_:" ^ hash ^ ",_:" ^ digest ^ ")"
let pair = "st(_:bytes,_:bytes)"
let vote = "st(_:" ^ hash ^ ",_:u32)"
let signedmsg = "st(_:u8,_:" ^ hash ^ ",_:u32,_:" ^ sigd ^ ",_:" ^ hash ^ ")"
let votemsg = "st(_:u64,_:u64,_:" ^ signedmsg ^ ")"
let authdata = "st(_:" ^ sigd ^ ",_:" ^ hash ^ ")"
let commit = "st(_:u64,_:u64,_:" ^ vote ^ ",_:sl(" ^ vote ^ "),_:sl(" ^ authdata ^ "))"
let neighbour = "enum(N;1:st(_:u64,_:u64,_:u32))"
let catchreq = "st(_:u64,_:u64)"
let signedvote = "st(_:" ^ vote ^ ",_:" ^ sigd ^ ",_:" ^ hash ^ ")"
let catchresp = "st(_:u64,_:u64,_:sl(" ^ signedvote ^ "),_:sl(" ^ signedvote ^ "),_:" ^ hash ^ ",_:u32)"

let table : (string * (string * ty)) list = [
  "bam", ("st(_:" ^ hash ^ ",_:uint,_:" ^ hash ^ ",_:" ^ hash ^ ",_:" ^ digest ^ ",_:bool)", s_bam);
  "bah", ("st(_:u8,_:u32,_:" ^ hash ^ ",_:" ^ hash ^ ")", s_bah);
  "txm", ("sl(sl(u8))", s_txm);
  "body", ("sl(bytes)", s_body);
  "ghs", ("st(_:u8)", s_ghs);
  "gmsg", ("enum(G;0:" ^ votemsg ^ ",1:" ^ commit ^ ",2:" ^ neighbour ^ ",3:" ^ catchreq ^ ",4:" ^ catchresp ^ ")", s_gmsg);
  "warp", ("st(_:" ^ hash ^ ")", s_warp);
  "lreq", ("st(_:st(_:bytes,_:str,_:bytes),_:st(_:bytes,_:sl(bytes)),_:st(_:bytes),_:st(_:bytes,_:bytes,_:sl(bytes)),"
           ^ "_:st(_:opt(" ^ hash ^ "),_:opt(" ^ hash ^ "),_:bytes,_:bytes,_:opt(bytes)))", s_lreq);
  "lresp", ("st(_:st(_:bytes),_:st(_:bytes),_:st(_:sl(opt(" ^ header ^ "))),_:st(_:bytes,_:sl(bytes),_:sl(sl(" ^ pair ^ ")),_:bytes))", s_lresp);
]

(* the textual schemas used to read the Go side's value text must denote the Coq schemas *)
let dtys : (string * (dty * ty)) list =
  List.map (fun (name, (desc, t)) ->
      let d = parse_dty desc in
      if wire_ty d <> t then fail "schema %s: description and Model.s_%s differ" name name;
      (name, (d, t))) table

let shapes : (string * string) list = [
  "ghs", "Role";
  "gmsg", "Round,SetID,Message(Stage,BlockHash,Number,Signature,AuthorityID);Round,SetID,Vote(Hash,Number),Precommits(Hash,Number),AuthData(Signature,AuthorityID);Round,SetID,Number;Round,SetID;SetID,Round,PreVoteJustification(Vote(Hash,Number),Signature,AuthorityID),PreCommitJustification(Vote(Hash,Number),Signature,AuthorityID),Hash,Number";
  "warp", "Begin";
  "breq", "RequestedData,StartingBlock,Direction,Max";
  "bresp", "Hash,Header(ParentHash,Number,StateRoot,ExtrinsicsRoot,Digest),Body,Receipt,MessageQueue,Justification;ParentHash,Number,StateRoot,ExtrinsicsRoot,Digest";
  "bam", "ParentHash,Number,StateRoot,ExtrinsicsRoot,Digest,BestBlock";
  "bah", "Roles,BestBlockNumber,BestBlockHash,GenesisHash";
  "txm", "Extrinsics";
  "lreq", "RemoteCallRequest(Block,Method,Data),RemoteReadRequest(Block,Keys),RemoteHeaderRequest(Block),RemoteReadChildRequest(Block,StorageKey,Keys),RemoteChangesRequest(FirstBlock,LastBlock,Min,Max,StorageKey)";
  "lresp", "RemoteCallResponse(Proof),RemoteReadResponse(Proof),RemoteHeaderResponse(Header(ParentHash,Number,StateRoot,ExtrinsicsRoot,Digest)),RemoteChangesResponse(Max,Proof,Roots(First,Second),RootsProof)";
]

let n_lt a b = (match N.compare a b with Lt -> true | _ -> false)

let buckets_of (bs : byte list) (cost : n) =
  let budget = alloc_budget bs in
  let sure_large = n_lt budget cost in
  let sure_small = n_lt (N.mul cost (n_of_int 2000)) budget in
  (sure_large, sure_small)

let bucket_ok (sure_large, sure_small) a t =
  (if sure_large then a = "L" else if sure_small then a = "s" else true) && t = "t"

let outcome_tag = function Ok _ -> "m-ok" | Err _ -> "m-err" | Panic -> "m-panic" | OutOfFuel -> "m-nofuel"

let check inp obs =
  let f = split_ws inp in
  let o = split_ws obs in
  match f with
  | ["shape"; name] ->
    (* field names of the Go destination types, by wire position (golden: written from the
       Polkadot network specification / the struct definitions at the pinned commit) *)
    let expected = (try List.assoc name shapes with Not_found -> "?unknown") in
    { prop_ok = true; model_eq = (obs = expected); nontrivial = true; finding = "-"; tags = "shape";
      detail = (if obs = expected then "" else "expected field names " ^ expected) }
  | ["dec"; name; kind; hx] ->
    let (d, t) = (try List.assoc name dtys with Not_found -> fail "C33: unknown decoder %s" name) in
    let bs = bytes_of_hex hx in
    let len = List.length bs in
    let (res, cost) = if name = "body" then dec_body current bs else run_decode current t bs in
    let bk = buckets_of bs cost in
    let model_core = (match res with
        | Ok (v, _) -> if n_lt (n_of_int 131072) cost then "ok ?big" else "ok " ^ render_value d v
        | Err _ -> "err" | Panic -> "panic" | OutOfFuel -> "hang") in
    let (impl, obs_core, a, tm) = (match o with
        | ["ok"; vt; re; a; tm] ->
          (Some (IOk ((re = "re1" || re = "re~"), a = "L", tm = "T")),
           (if String.contains vt '?' then "ok ?big" else "ok " ^ vt), a, tm)
        | ["err"; a; tm] -> (Some (IErr (a = "L", tm = "T")), "err", a, tm)
        | ["panic"] -> (Some IPanic, "panic", "s", "t")
        | ["hang"] -> (Some (IErr (false, true)), "hang", "s", "T")
        | _ -> (None, obs, "?", "?")) in
    let prop = (match impl with Some x -> c33_prop x | None -> false) in
    let model_eq = (model_core = obs_core) && bucket_ok bk a tm in
    let finding = if prop then "-" else if bytes_alloc t bs then "bytes-alloc" else "-" in
    { prop_ok = prop; model_eq; nontrivial = (len >= 1); finding;
      tags = String.concat "," ["dec-" ^ name; "gen-" ^ kind; outcome_tag res;
                                (if fst bk then "alloc-large" else if snd bk then "alloc-small" else "alloc-mid")];
      detail = (if prop && model_eq then "" else
                  Printf.sprintf "model=%s cost=%s" (if String.length model_core > 300 then String.sub model_core 0 300 else model_core)
                    (hex_of_n cost)) }
  | ["breq"; fields; from; hx; dir; maxb] ->
    let fb = (match from with
        | "h" -> FromHash (bytes_of_hex hx) | "n" -> FromNumber (bytes_of_hex hx) | _ -> FromNone) in
    let m = breq_decode (n_of_hex fields) fb (n_of_hex dir) (n_of_hex maxb) in
    let model_core = (match m with
        | None -> "err"
        | Some (((data, start), d), mx) ->
          Printf.sprintf "ok %s %s %s %s" (hex_of_n data)
            (match start with StartHash h -> "h:" ^ hex_of_bytes h | StartNumber k -> "n:" ^ hex_of_n k)
            (hex_of_n d) (match mx with None -> "-" | Some k -> hex_of_n k)) in
    let (impl, obs_core, a, tm) = (match o with
        | ["ok"; data; start; d; mx; re; a; tm] ->
          (Some (IOk (re = "re1", a = "L", tm = "T")), String.concat " " ["ok"; data; start; d; mx], a, tm)
        | ["err"; a; tm] -> (Some (IErr (a = "L", tm = "T")), "err", a, tm)
        | ["panic"] -> (Some IPanic, "panic", "s", "t")
        | _ -> (None, obs, "?", "?")) in
    let prop = (match impl with Some x -> c33_prop x | None -> false) in
    { prop_ok = prop; model_eq = (model_core = obs_core && a = "s" && tm = "t"); nontrivial = true; finding = "-";
      tags = "breq,breq-" ^ from ^ (if m = None then ",m-err" else ",m-ok");
      detail = (if prop && model_core = obs_core then "" else "model=" ^ model_core) }
  | "bresp" :: rest ->
    (* block = header/entries[/hash/receipt/mq/justification/flag] *)
    let full = (match rest with
        | [] -> []
        | [s] -> List.map (fun blk ->
            let opt x = if x = "-" then [] else bytes_of_hex x in
            match String.split_on_char '/' blk with
            | [h; e] ->
              (opt h, (if e = "-" then [] else List.map bytes_of_hex (String.split_on_char ',' e)),
               List.init 32 (fun _ -> byte_of_int 0), [], [], [], false)
            | [h; e; hash; rc; mq; ju; fl] ->
              (opt h, (if e = "-" then [] else List.map bytes_of_hex (String.split_on_char ',' e)),
               opt hash, opt rc, opt mq, opt ju, fl = "1")
            | _ -> fail "bresp: bad block %s" blk) (String.split_on_char ';' s)
        | _ -> fail "bresp: bad input") in
    let blocks = List.map (fun (h, es, _, _, _, _, _) -> (h, es)) full in
    let (res, cost) = bresp_decode current blocks in
    let all_bytes = List.concat (List.map (fun (h, es) -> h @ List.concat es) blocks) in
    let bk = buckets_of all_bytes cost in
    let hdr_d = parse_dty header and body_d = parse_dty "sl(bytes)" in
    let optb = function None -> "N" | Some b -> "S" ^ hex_of_bytes b in
    let model_view = (match bresp_view current blocks with
        | Ok l ->
          if l = [] then "-" else
          String.concat ";" (List.map2 (fun (hv, bv) (_, _, hash, rc, mq, ju, fl) ->
              String.concat "|" [
                hex_of_bytes (bytes_to_hash hash);
                (match hv with None -> "N" | Some v -> "S" ^ render_value hdr_d v);
                (match bv with None -> "N" | Some v -> "S" ^ render_value body_d v);
                optb (pb_opt rc); optb (pb_opt mq); optb (pb_just ju fl) ]) l full)
        | _ -> "?") in
    let model_core = (match res with
        | Ok _ -> Printf.sprintf "ok %x %s" (List.length blocks) model_view
        | Err _ -> "err" | Panic -> "panic" | OutOfFuel -> "hang") in
    let (impl, obs_core, a, tm) = (match o with
        | ["ok"; k; re; a; tm; view] -> (Some (IOk (re = "re1", a = "L", tm = "T")), "ok " ^ k ^ " " ^ view, a, tm)
        | ["err"; a; tm] -> (Some (IErr (a = "L", tm = "T")), "err", a, tm)
        | ["panic"] -> (Some IPanic, "panic", "s", "t")
        | _ -> (None, obs, "?", "?")) in
    let prop = (match impl with Some x -> c33_prop x | None -> false) in
    (* the body entries are copied once more (BytesArrayToExtrinsics): factor 2, as in Model.bytes_alloc *)
    let hostile = n_lt (alloc_budget all_bytes) (N.mul (n_of_int 2) cost) in
    (* a view with an unrendered huge byte string (?big) cannot be compared *)
    let core_eq = (model_core = obs_core) || (String.contains obs_core '?' && n_lt (n_of_int 131072) cost) in
    { prop_ok = prop; model_eq = core_eq && bucket_ok bk a tm;
      nontrivial = (blocks <> []); finding = (if prop then "-" else if hostile then "bytes-alloc" else "-");
      tags = "bresp," ^ outcome_tag res ^ (if List.exists (fun (_, _, _, rc, mq, ju, _) -> rc <> [] || mq <> [] || ju <> []) full then ",bresp-extra" else "");
      detail = (if prop && core_eq then "" else "model=" ^ (if String.length model_core > 300 then String.sub model_core 0 300 else model_core) ^ " cost=" ^ hex_of_n cost) }
  | ["pbraw"; which; hx] ->
    let (impl, okshape) = (match o with
        | ["ok"; a; tm] -> (Some (IOk (true, a = "L", tm = "T")), a = "s" && tm = "t")
        | ["err"; a; tm] -> (Some (IErr (a = "L", tm = "T")), a = "s" && tm = "t")
        | ["panic"] -> (Some IPanic, false)
        | _ -> (None, false)) in
    let prop = (match impl with Some x -> c33_prop x | None -> false) in
    { prop_ok = prop; model_eq = okshape; nontrivial = (hx <> "-"); finding = "-";
      tags = "pbraw-" ^ which ^ (match o with "ok" :: _ -> ",go-ok" | _ -> ",go-err"); detail = "" }
  | _ -> fail "C33: bad input %s" (if String.length inp > 200 then String.sub inp 0 200 else inp)

(* vm_compute cross-check of the SCALE decoders: the decode recomputed inside Coq at the schema
   constants of C33.Model (small inputs) *)
let coq inp obs =
  match split_ws inp with
  | ["dec"; name; _; hx] when name <> "body" ->
    (match List.assoc_opt name dtys with
     | None -> None
     | Some (d, t) ->
       let bs = bytes_of_hex hx in
       if List.length bs > 400 then None else
       let (_, cost) = run_decode current t bs in
       if n_lt (n_of_int 20000) cost then None else
       (match split_ws obs with
        | "ok" :: vt :: _ when not (String.contains vt '?') ->
          (try Some (Printf.sprintf "dec_value_matches (decode_res current s_%s %s) (Some %s)"
                       name (coq_bytes bs) (coq_value (parse_value d vt)))
           with Parse _ -> None)
        | "err" :: _ -> Some (Printf.sprintf "dec_value_matches (decode_res current s_%s %s) None" name (coq_bytes bs))
        | _ -> None))
  | _ -> None

let () =
  if Sys.getenv_opt "VERIF_BIGSTACK" = None then
    exit (Sys.command ("ulimit -s 4000000 2>/dev/null || ulimit -s unlimited 2>/dev/null; ulimit -v 12000000 2>/dev/null; VERIF_BIGSTACK=1 exec "
                       ^ Filename.quote Sys.executable_name
                       ^ (if Array.length Sys.argv > 1 then " " ^ Filename.quote Sys.argv.(1) else "")))
  else run_driver ~coq check
