// C07 correspondence harness for pkg/trie/triedb/codec (injected by `go test -overlay`).
//
// inputs (same conventions as props/C07/harness_test.go):
//   cdec <bytes>                codec.Decode[hash.H256](bytes.NewReader(bytes))
//   cenc <tree>                 build the pkg/trie/node tree, node.Encode it, codec.Decode the encoding
//   chdr <variant 0..4> <len>   codec.EncodeHeader for that node kind with <len> nibbles, then decodeHeader
// observables (first token p<u><b> as in the node harness):
//   cdec -> <result>            <result> ::= E | err:<class> | panic | <cnode>
//   cenc -> <encoding hex> <result>
//   chdr -> <header bytes> <variant name> <len> | hdr-err:<class> | panic
//   <cnode> ::= L <nibbles> <val> | B <nibbles> <val|none> <c>*16
//   <c>     ::= _ | i:<zb> | h:<hex of H256.Bytes()>      <val> ::= i:<zb> | h:<hex>
package codec

import (
	"bytes"
	"errors"
	"fmt"
	"io"
	"strings"
	"sync"
	"testing"

	"github.com/ChainSafe/gossamer/internal/primitives/core/hash"
	vu "github.com/ChainSafe/gossamer/internal/verifutil"
	"github.com/ChainSafe/gossamer/pkg/scale"
	"github.com/ChainSafe/gossamer/pkg/trie/node"
	"github.com/ChainSafe/gossamer/pkg/trie/triedb/nibbles"
)

var c07probeOnce sync.Once
var c07probe string

func c07Probe() string {
	c07probeOnce.Do(func() {
		u, b := "0", "0"
		var x []byte
		var y uint
		if err := scale.Unmarshal([]byte{0x02, 0x00, 0x01}, &y); err != nil {
			u = "1"
		}
		if err := scale.Unmarshal([]byte{0x08, 0x01}, &x); err != nil {
			b = "1"
		}
		c07probe = "p" + u + b
	})
	return c07probe
}

func c07class(err error) string {
	for e := err; e != nil; e = errors.Unwrap(e) {
		switch e {
		case io.EOF:
			return "err:eof"
		case ErrVariantUnknown:
			return "err:variant"
		case ErrPartialKeyTooBig:
			return "err:keybig"
		case ErrReaderMismatchCount:
			return "err:mismatch"
		case ErrDecodeStorageValue:
			return "err:storage"
		case ErrDecodeHashedValueTooShort:
			return "err:short"
		case ErrReadChildrenBitmap:
			return "err:bitmap"
		case ErrDecodeChildHash:
			return "err:child"
		}
	}
	return "err:other"
}

func c07nibs(n nibbles.Nibbles) string {
	if n.Len() == 0 {
		return "-"
	}
	var sb strings.Builder
	for i := uint(0); i < n.Len(); i++ {
		sb.WriteByte("0123456789abcdef"[n.At(i)&15])
	}
	return sb.String()
}

func c07zb(b []byte) string {
	if len(b) <= 64 {
		return vu.Hex(b)
	}
	if len(b) > 1<<18 {
		return "big:" + vu.X(uint64(len(b))) + ":" + vu.Hex(b[:32]) + ":" + vu.Hex(b[len(b)-32:])
	}
	n := len(b)
	for n > 0 && b[n-1] == 0 {
		n--
	}
	return vu.Hex(b[:n]) + "+" + vu.X(uint64(len(b)-n))
}

func c07val(v EncodedValue) string {
	switch x := v.(type) {
	case nil:
		return "none"
	case InlineValue:
		return "i:" + c07zb([]byte(x))
	case HashedValue[hash.H256]:
		return "h:" + vu.Hex(x.Hash.Bytes())
	}
	return "?"
}

func c07decode(b []byte) (res string) {
	defer func() {
		if p := recover(); p != nil {
			res = "panic"
		}
	}()
	n, err := Decode[hash.H256](bytes.NewReader(b))
	if err != nil {
		return c07class(err)
	}
	switch x := n.(type) {
	case Empty:
		return "E"
	case Leaf:
		return "L " + c07nibs(x.PartialKey) + " " + c07val(x.Value)
	case Branch:
		var sb strings.Builder
		sb.WriteString("B " + c07nibs(x.PartialKey) + " " + c07val(x.Value))
		for _, c := range x.Children {
			switch y := c.(type) {
			case nil:
				sb.WriteString(" _")
			case InlineNode:
				sb.WriteString(" i:" + c07zb([]byte(y)))
			case HashedNode[hash.H256]:
				sb.WriteString(" h:" + vu.Hex(y.Hash.Bytes()))
			default:
				sb.WriteString(" ?")
			}
		}
		return sb.String()
	}
	return "?"
}

func c07unnib(s string) []byte {
	if s == "-" {
		return []byte{}
	}
	out := make([]byte, len(s))
	for i := 0; i < len(s); i++ {
		out[i] = byte(vu.UnX(s[i : i+1]))
	}
	return out
}

func c07parse(tok []string, pos *int) *node.Node {
	t := tok[*pos]
	*pos++
	switch t {
	case "L":
		pk := c07unnib(tok[*pos])
		v := vu.UnHex(tok[*pos+1])
		mbh := tok[*pos+2] == "1"
		*pos += 3
		return &node.Node{PartialKey: pk, StorageValue: v, MustBeHashed: mbh, Dirty: true}
	case "B":
		pk := c07unnib(tok[*pos])
		var v []byte
		if tok[*pos+1] != "none" {
			v = vu.UnHex(tok[*pos+1])
		}
		mbh := tok[*pos+2] == "1"
		*pos += 3
		n := &node.Node{PartialKey: pk, StorageValue: v, MustBeHashed: mbh, Dirty: true,
			Children: make([]*node.Node, node.ChildrenCapacity)}
		for i := 0; i < node.ChildrenCapacity; i++ {
			if tok[*pos] == "_" {
				*pos++
				continue
			}
			n.Children[i] = c07parse(tok, pos)
		}
		return n
	}
	panic("c07parse: bad token " + t)
}

func c07hdr(variant int, l int) (res string) {
	defer func() {
		if p := recover(); p != nil {
			res = "panic"
		}
	}()
	kinds := []NodeKind{LeafNode, BranchWithoutValue, BranchWithValue, LeafWithHashedValue, BranchWithHashedValue}
	buf := bytes.NewBuffer(nil)
	if err := EncodeHeader(nil, uint(l), kinds[variant], buf); err != nil {
		return "hdr-err:enc"
	}
	enc := append([]byte{}, buf.Bytes()...)
	v, pkl, err := decodeHeader(bytes.NewReader(enc))
	if err != nil {
		return "hdr-" + c07class(err)
	}
	return vu.Hex(enc) + " " + v.String() + " " + vu.X(uint64(pkl))
}

func c07Run(in string) string {
	f := strings.Split(in, " ")
	switch f[0] {
	case "cdec":
		return c07Probe() + " " + c07decode(vu.UnHex(f[1]))
	case "cenc":
		pos := 1
		n := c07parse(f, &pos)
		buf := bytes.NewBuffer(nil)
		if err := n.Encode(buf); err != nil {
			return c07Probe() + " encerr"
		}
		return c07Probe() + " " + vu.Hex(buf.Bytes()) + " " + c07decode(buf.Bytes())
	case "chdr":
		return c07Probe() + " " + c07hdr(int(vu.UnX(f[1])), int(vu.UnX(f[2])))
	}
	return "bad-input"
}

// ---------------------------------------------------------------- generators

func c07randNib(r *vu.RNG, l int) string {
	if l == 0 {
		return "-"
	}
	b := make([]byte, l)
	for i := range b {
		b[i] = "0123456789abcdef"[r.Intn(16)]
	}
	return string(b)
}

var c07pkLens = []int{0, 1, 2, 3, 14, 15, 16, 30, 31, 32, 62, 63, 64, 65, 317, 318, 319, 573, 65534, 65535}
var c07valLens = []int{0, 1, 2, 26, 27, 28, 29, 30, 31, 32, 33, 63, 64, 65, 300}

func c07tree(r *vu.RNG, depth int, small bool) string {
	pkl := r.Intn(6)
	if !small && r.Chance(1, 5) {
		pkl = c07pkLens[r.Intn(len(c07pkLens)-2)]
	}
	vl := r.Intn(5)
	if !small {
		vl = c07valLens[r.Intn(len(c07valLens))]
	}
	v := r.Bytes(vl)
	if r.Chance(1, 5) {
		for i := range v {
			v[i] = 0
		}
	}
	mbh := "0"
	if !small && r.Chance(1, 3) {
		mbh = "1"
	}
	if depth == 0 || r.Chance(1, 2) {
		return "L " + c07randNib(r, pkl) + " " + vu.Hex(v) + " " + mbh
	}
	val := "none"
	if r.Chance(1, 2) {
		val = vu.Hex(v)
	} else {
		mbh = "0"
	}
	s := "B " + c07randNib(r, pkl) + " " + val + " " + mbh
	mask := 0
	for i := 0; i < r.Intn(4); i++ {
		mask |= 1 << uint(r.Intn(16))
	}
	if r.Chance(1, 10) {
		mask = 0xffff
	}
	for i := 0; i < 16; i++ {
		if mask&(1<<uint(i)) == 0 {
			s += " _"
			continue
		}
		s += " " + c07tree(r, depth-1, small || r.Chance(1, 2))
	}
	return s
}

func c07encodeTree(tree string) []byte {
	f := strings.Split(tree, " ")
	pos := 0
	n := c07parse(f, &pos)
	buf := bytes.NewBuffer(nil)
	if err := n.Encode(buf); err != nil {
		return nil
	}
	return buf.Bytes()
}

var c07interesting = []byte{0x00, 0x01, 0x02, 0x03, 0x04, 0x07, 0x0f, 0x10, 0x1f, 0x20, 0x3f, 0x40, 0x41, 0x7c, 0x7f,
	0x80, 0x81, 0xbf, 0xc0, 0xc1, 0xfc, 0xfd, 0xfe, 0xff, 0x13}

func c07mutate(r *vu.RNG, b []byte) []byte {
	b = append([]byte{}, b...)
	switch r.Intn(6) {
	case 0:
		if len(b) > 0 {
			b = b[:r.Intn(len(b))]
		}
	case 1:
		if len(b) > 0 {
			b[r.Intn(len(b))] ^= 1 << uint(r.Intn(8))
		}
	case 2, 3:
		if len(b) > 0 {
			i := r.Intn(len(b))
			if i > 6 && r.Chance(1, 2) {
				i = r.Intn(6)
			}
			b[i] = c07interesting[r.Intn(len(c07interesting))]
			if r.Chance(1, 3) {
				b = b[:i+1+r.Intn(len(b)-i)]
			}
		}
	case 4:
		b = append(b, r.Bytes(1+r.Intn(4))...)
	default:
		b = c07mutate(r, c07mutate(r, b))
	}
	return b
}

// c07big reports whether some 4-byte window could be read as a compact length above 4 MiB
// (over-approximation; used only to ration slow multi-hundred-megabyte allocations).
func c07big(b []byte) bool {
	for i := 0; i+3 < len(b); i++ {
		if b[i]&3 == 2 && (b[i+3] != 0 || b[i+2] >= 0x40) {
			return true
		}
		if b[i] == 3 && i+4 < len(b) {
			return true
		}
	}
	return false
}

func c07Gen(r *vu.RNG, n int, emit0 func(string)) {
	giants := 0
	emit := func(in string) {
		if strings.HasPrefix(in, "cdec ") {
			b := vu.UnHex(in[5:])
			if c07big(b) {
				giants++
				if giants > c07giantBudget() {
					// keep the front, drop what could be read as a huge length
					for len(b) > 0 && c07big(b) {
						b = b[:len(b)-1]
					}
					in = "cdec " + vu.Hex(b)
				}
			}
		}
		emit0(in)
	}
	for a := 0; a < 256; a++ {
		emit("cdec " + vu.Hex([]byte{byte(a)}))
	}
	emit("cdec -")
	for a := 0; a < 256; a++ {
		for b := 0; b < 256; b += 1 {
			if vu.Thorough() || a < 0x14 || b%5 == 0 || a >= 0xfc || (a&0x3f) >= 0x3e {
				emit("cdec " + vu.Hex([]byte{byte(a), byte(b)}))
			}
		}
	}
	for v := 0; v < 5; v++ {
		masks := []int{63, 63, 63, 31, 15}
		m := masks[v]
		for _, l := range []int{0, 1, m - 1, m, m + 1, m + 254, m + 255, m + 256, m + 510, 65534, 65535} {
			emit(fmt.Sprintf("chdr %x %x", v, l))
		}
	}
	rk := r.Fork()
	for _, l := range c07pkLens {
		emit("cenc L " + c07randNib(rk, l) + " 2a 0")
		emit("cenc B " + c07randNib(rk, l) + " " + vu.Hex(rk.Bytes(40)) + " 1 _ _ L 1 01 0 _ _ _ _ _ _ _ _ _ _ _ _ L - " + vu.Hex(rk.Bytes(40)) + " 0")
	}
	for i := 0; i < n; i++ {
		switch r.Intn(10) {
		case 0, 1, 2:
			emit("cenc " + c07tree(r, 2, false))
		case 3:
			emit(fmt.Sprintf("chdr %x %x", r.Intn(5), r.Intn(65536)))
		case 4, 5, 6, 7, 8:
			enc := c07encodeTree(c07tree(r, 2, r.Chance(1, 2)))
			if len(enc) > 2048 {
				enc = enc[:2048]
			}
			emit("cdec " + vu.Hex(c07mutate(r, enc)))
		default:
			emit("cdec " + vu.Hex(r.Bytes(1+r.Intn(12))))
		}
	}
}

func TestVerifC07Codec(t *testing.T) {
	vu.Run(t, "C07", 3000, c07Gen, c07Run)
}

func c07giantBudget() int {
	if vu.Thorough() {
		return 16
	}
	return 0
}
