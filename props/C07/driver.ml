(* C07 driver: replays the Go trace on the extracted codec model.
   Property predicate (the one the theorems C07_total / C07_roundtrip / C07_header_roundtrip are
   about) evaluated on the implementation's observables:
     dec/cdec : the result is a node, nil or an error — never "panic" or "hang";
     enc/cenc : the decoded result equals the decoded view (view / cview) of the input tree;
     hdr/chdr : decodeHeader (encodeHeader v l) = (v, l). *)
open Model
open Vutil

(* Blake2b-256 of the model, memoised (the extracted functions take the hash as a parameter) *)
let hash_tbl : (string, byte list) Hashtbl.t = Hashtbl.create 4096
let hash_memo (x : byte list) : byte list =
  let k = string_of_bytes x in
  match Hashtbl.find_opt hash_tbl k with
  | Some h -> h
  | None -> let h = hash256 x in Hashtbl.add hash_tbl k h; h

(* ---------------------------------------------------------------- rendering *)
let nib_of_bytes (l : byte list) : string =
  if l = [] then "-" else begin
    let b = Buffer.create 64 in
    List.iter (fun x -> let v = int_of_byte x in
                if v < 16 then Buffer.add_char b "0123456789abcdef".[v]
                else Buffer.add_string b (Printf.sprintf "<%02x>" v)) l;
    Buffer.contents b
  end
let bytes_of_nib (s : string) : byte list =
  if s = "-" then [] else List.init (String.length s) (fun i -> byte_of_int (hexval s.[i]))

let rec strip_rev = function (x :: t) when int_of_byte x = 0 -> strip_rev t | l -> l
let zb_str ((d, zf) : byte list * n) : string =
  let total = int_of_n (zb_len (d, zf)) in
  if total <= 64 then hex_of_bytes (zb_bytes (d, zf))
  else if total > 262144 then begin
    let z = int_of_n zf in
    let rec take k l = if k = 0 then [] else (match l with [] -> [] | x :: t -> x :: take (k - 1) t) in
    let zeros k = List.init k (fun _ -> byte_of_int 0) in
    let first = let f = take 32 d in f @ zeros (32 - List.length f) in
    let last = if z >= 32 then zeros 32 else
        (let keep = 32 - z in let ld = List.length d in
         let rec drop k l = if k <= 0 then l else (match l with [] -> [] | _ :: t -> drop (k - 1) t) in
         drop (ld - keep) d @ zeros z) in
    Printf.sprintf "big:%x:%s:%s" total (hex_of_bytes first) (hex_of_bytes last)
  end else begin
    let kept = List.rev (strip_rev (List.rev d)) in
    hex_of_bytes kept ^ "+" ^ Printf.sprintf "%x" (total - List.length kept)
  end
let dval_str = function
  | DVInline z -> "i:" ^ zb_str z
  | DVHashed h -> "h:" ^ hex_of_bytes h
let oval_str = function None -> "none" | Some v -> dval_str v

let rec dnode_str (n : dnode) : string =
  match n with
  | DStub mv -> "S " ^ zb_str mv
  | DLeaf (pk, v) -> "L " ^ nib_of_bytes pk ^ " " ^ dval_str v
  | DBranch (pk, v, d, cs) ->
    "B " ^ nib_of_bytes pk ^ " " ^ oval_str v ^ " " ^ hex_of_n d
    ^ String.concat "" (List.map (function None -> " _" | Some c -> " " ^ dnode_str c) cs)

let cnode_str (n : cnode) : string =
  match n with
  | CEmpty -> "E"
  | CLeaf (pk, v) -> "L " ^ nib_of_bytes pk ^ " " ^ dval_str v
  | CBranch (pk, v, cs) ->
    "B " ^ nib_of_bytes pk ^ " " ^ oval_str v
    ^ String.concat "" (List.map (function
        | None -> " _"
        | Some (CInline z) -> " i:" ^ zb_str z
        | Some (CHashed h) -> " h:" ^ hex_of_bytes h) cs)

let class_str c = match int_of_nat c with
  | 1 -> "err:eof" | 2 -> "err:variant" | 3 -> "err:keybig" | 4 -> "err:mismatch" | 5 -> "err:storage"
  | 6 -> "err:short" | 7 -> "err:bitmap" | 8 -> "err:child" | k -> Printf.sprintf "err:%d" k

let outcome_str f = function
  | Ok x -> f x
  | Err c -> class_str c
  | Panic -> "panic"
  | OutOfFuel -> "hang"

let dres_str = outcome_str (function None -> "nil" | Some n -> dnode_str n)
let cres_str = outcome_str cnode_str

(* ---------------------------------------------------------------- input trees *)
let rec parse_tree (tok : string array) (pos : int ref) : tnode =
  let t = tok.(!pos) in
  incr pos;
  match t with
  | "L" ->
    let pk = bytes_of_nib tok.(!pos) and v = bytes_of_hex tok.(!pos + 1) and mbh = tok.(!pos + 2) = "1" in
    pos := !pos + 3;
    TN (pk, Some v, mbh, [])
  | "B" ->
    let pk = bytes_of_nib tok.(!pos) in
    let v = if tok.(!pos + 1) = "none" then None else Some (bytes_of_hex tok.(!pos + 1)) in
    let mbh = tok.(!pos + 2) = "1" in
    pos := !pos + 3;
    let cs = ref [] in
    for _ = 0 to 15 do
      if tok.(!pos) = "_" then (incr pos; cs := None :: !cs)
      else cs := Some (parse_tree tok pos) :: !cs
    done;
    TN (pk, v, mbh, List.rev !cs)
  | _ -> fail "C07: bad tree token %s" t

let rec tree_depth (TN (_, _, _, cs)) =
  1 + List.fold_left (fun m -> function None -> m | Some c -> max m (tree_depth c)) 0 cs

(* p<u><b>[<e>]: the codec harness has no <e> *)
let probe_of s =
  if (String.length s = 3 || String.length s = 4) && s.[0] = 'p' then (s.[1] = '1', s.[2] = '1')
  else fail "C07: bad probe %s" s
let efix_of s = String.length s = 4 && s.[3] = '1'

(* "<result> R <reenc>" -> (result, Some reenc) *)
let split_reenc (s : string) : string * string option =
  let n = String.length s in
  let rec find i = if i + 3 > n then None else if String.sub s i 3 = " R " then Some i else find (i + 1) in
  match find 0 with
  | Some i -> (String.sub s 0 i, Some (String.sub s (i + 3) (n - i - 3)))
  | None -> (s, None)

(* Encode applied to the decoded node, as the harness does it *)
let reenc_str (efix : bool) (d : dnode) : string =
  if dnode_big d then "skip" else hex_of_bytes (dencode hash_memo efix d)

let first_tok s = match String.index_opt s ' ' with Some i -> String.sub s 0 i | None -> s
let rest_after s = match String.index_opt s ' ' with
  | Some i -> String.sub s (i + 1) (String.length s - i - 1) | None -> ""

let result_tag s =
  let t = first_tok s in
  match t with
  | "L" -> "ok-leaf" | "B" -> "ok-branch" | "E" | "nil" -> "ok-empty" | _ -> t

let contains s sub =
  let n = String.length s and m = String.length sub in
  let rec go i = i + m <= n && (String.sub s i m = sub || go (i + 1)) in go 0

let pklen_tag l =
  if l = 0 then "pk0" else if l < 63 then "pk<63" else if l = 63 then "pk63" else if l < 318 then "pk64-317"
  else if l = 318 then "pk318" else if l < 65535 then "pk319-65534" else "pk65535"

let check inp obs =
  if obs = "hang" || obs = "panic" then
    { prop_ok = false; model_eq = false; nontrivial = true; finding = "-"; tags = "whole-case-" ^ obs;
      detail = "the harness call did not return: " ^ obs } else
  let st = probe_of (first_tok obs) in
  let efix = efix_of (first_tok obs) in
  let obs = rest_after obs in
  let ptag = "scale-" ^ (if fst st then "strictU" else "lenientU") ^ (if snd st then "-strictB" else "-lenientB") in
  match split_ws inp with
  | ["dec"; hx] | ["cdec"; hx] as f ->
    let bs = bytes_of_hex hx in
    let is_c = List.hd f = "cdec" in
    let m = if is_c then cres_str (codec_decode st bs)
      else (match node_decode st bs with
          | Ok (Some d) as r -> dres_str r ^ " R " ^ reenc_str efix d
          | r -> dres_str r) in
    let pinned = if is_c then cres_str (codec_decode_pinned st bs) else dres_str (node_decode_pinned st bs) in
    let prop = obs <> "panic" && obs <> "hang" in
    let tags = String.concat "," (List.filter (fun x -> x <> "") [
      (if is_c then "cdec" else "dec"); (if is_c then "c-" else "") ^ result_tag m; ptag;
      (if pinned = "panic" then "pinned-panics" else "");
      (if contains m "+" then "zero-filled-large" else "");
      (if contains m " R " then "reencoded" else "");
      (if contains m " R skip" then "reencode-skipped-big" else "");
      (if (not is_c) && contains m " L " && first_tok m = "B" then "inlined-child" else "");
      (let l = List.length bs in if l <= 2 then "len<=2" else if l < 32 then "len<32" else "len>=32") ]) in
    { prop_ok = prop; model_eq = (m = obs); nontrivial = true; finding = "-"; tags;
      detail = if prop && m = obs then "" else Printf.sprintf "model=%s pinned-model=%s" m pinned }
  | "enc" :: _ | "cenc" :: _ ->
    let is_c = first_tok inp = "cenc" in
    let tok = Array.of_list (split_ws inp) in
    let pos = ref 1 in
    let t = parse_tree tok pos in
    if not (wf_node t) then fail "C07: generator produced an ill-formed tree";
    let enc = encode hash_memo t in
    let expected = if is_c then cnode_str (cview hash_memo t) else dnode_str (view hash_memo t) in
    let m_dec = if is_c then cres_str (codec_decode st enc) else dres_str (node_decode st enc) in
    let m_re = if is_c then "" else (match node_decode st enc with
        | Ok (Some d) -> " R " ^ reenc_str efix d
        | _ -> "") in
    let m = hex_of_bytes enc ^ " " ^ m_dec ^ m_re in
    let (o_dec, o_re) = split_reenc (rest_after obs) in
    (* the decoded node is the decoded view of the tree, and — pkg/trie/node — encoding the decoded
       node again gives the bytes it was decoded from (C07_reencode) *)
    let prop = (o_dec = expected) && (is_c || o_re = Some (first_tok obs)) in
    let TN (pk, sv, mbh, cs) = t in
    let tags = String.concat "," (List.filter (fun x -> x <> "") [
      (if is_c then "cenc" else "enc"); ptag; (if cs = [] then "leaf" else "branch");
      pklen_tag (List.length pk);
      (match sv with None -> "no-value" | Some v -> if mbh then "hashed-value" else
                      (let l = List.length v in if l < 64 then "val<64" else if l < 16384 then "val<16384" else "val>=16384"));
      (if contains expected " S " then "hashed-child" else "");
      (if (not is_c) && not efix then "reencode-unrepaired" else "");
      (if (not is_c) && cs <> [] && (contains expected " L " || contains (rest_after expected) "B ") then "inlined-child" else "");
      Printf.sprintf "depth%d" (tree_depth t) ]) in
    { prop_ok = prop; model_eq = (m = obs) && (m_dec = expected); nontrivial = true; finding = "-"; tags;
      detail = if prop && m = obs then "" else
          Printf.sprintf "expected=%s re-encoding=%s model=%s" expected
            (match o_re with Some r -> if r = first_tok obs then "same" else r | None -> "-") m }
  | ["hdr"; v; l] | ["chdr"; v; l] ->
    let vi = int_of_string ("0x" ^ v) and ln = n_of_hex l in
    let var = variant_of_nat (nat_of_int vi) in
    let enc = encode_header var ln in
    let names = [| "Leaf"; "Branch"; "BranchWithValue"; "LeafWithHashedValue"; "BranchWithHashedValue"; "Empty"; "Compact" |] in
    let m = (match decode_header enc with
      | Ok ((v', l'), _) -> hex_of_bytes enc ^ " " ^ names.(int_of_nat (variant_name v')) ^ " " ^ hex_of_n l'
      | Err c -> "hdr-" ^ class_str c
      | _ -> "panic") in
    let prop = (match split_ws obs with
      | [_; name; l'] -> name = names.(vi) && l' = hex_of_n ln
      | _ -> false) in
    let li = int_of_n ln in
    let mask = [| 63; 63; 63; 31; 15 |].(vi) in
    let tags = String.concat "," [first_tok inp; "variant-" ^ names.(vi);
      (if li < mask then "in-header-byte" else if (li - mask) mod 255 = 0 then "run-boundary"
       else if li = 65535 then "max" else "continued")] in
    { prop_ok = prop; model_eq = (m = obs); nontrivial = true; finding = "-"; tags;
      detail = if prop && m = obs then "" else "model=" ^ m }
  | _ -> fail "C07: bad input %s" inp

(* ---------------------------------------------------------------- vm_compute cross-check
   Sampled cases of the node harness re-evaluated inside Coq: the observed result (parsed from the
   trace, not taken from the extracted model) is rendered as a Gallina term and compared with what
   the Gallina model computes under vm_compute (coq/C07/VmCheck.v has the comparison functions). *)
exception Unrenderable
let coq_nibs (s : string) : string = coq_bytes (bytes_of_nib s)
let coq_zb (s : string) : string =
  if String.length s >= 4 && String.sub s 0 4 = "big:" then raise Unrenderable;
  match String.index_opt s '+' with
  | Some i ->
    let h = String.sub s 0 i and z = String.sub s (i + 1) (String.length s - i - 1) in
    Printf.sprintf "(%s, 0x%s%%N)" (coq_bytes (bytes_of_hex h)) z
  | None -> Printf.sprintf "(%s, 0%%N)" (coq_bytes (bytes_of_hex s))
let coq_val (s : string) : string =
  if String.length s < 2 then raise Unrenderable;
  let body = String.sub s 2 (String.length s - 2) in
  match s.[0] with
  | 'i' -> "(DVInline " ^ coq_zb body ^ ")"
  | 'h' -> "(DVHashed " ^ coq_bytes (bytes_of_hex body) ^ ")"
  | _ -> raise Unrenderable
let rec coq_dnode (tok : string array) (pos : int ref) : string =
  let nxt () = if !pos >= Array.length tok then raise Unrenderable; let t = tok.(!pos) in incr pos; t in
  match nxt () with
  | "S" -> "(DStub " ^ coq_zb (nxt ()) ^ ")"
  | "L" -> let pk = nxt () in let v = nxt () in "(DLeaf " ^ coq_nibs pk ^ " " ^ coq_val v ^ ")"
  | "B" ->
    let pk = nxt () in let v = nxt () in let d = nxt () in
    let cs = List.init 16 (fun _ -> ()) |> List.map (fun () ->
        if !pos < Array.length tok && tok.(!pos) = "_" then (incr pos; "None") else "Some " ^ coq_dnode tok pos) in
    Printf.sprintf "(DBranch %s %s 0x%s%%N [%s])" (coq_nibs pk)
      (if v = "none" then "None" else "(Some " ^ coq_val v ^ ")") d (String.concat "; " cs)
  | _ -> raise Unrenderable
let coq_dres (s : string) : string =
  match s with
  | "nil" -> "RNil"
  | "err:eof" -> "(RErr 1)" | "err:variant" -> "(RErr 2)" | "err:keybig" -> "(RErr 3)" | "err:mismatch" -> "(RErr 4)"
  | "err:storage" -> "(RErr 5)" | "err:short" -> "(RErr 6)" | "err:bitmap" -> "(RErr 7)" | "err:child" -> "(RErr 8)"
  | _ ->
    let tok = Array.of_list (split_ws s) in
    let pos = ref 0 in
    let t = coq_dnode tok pos in
    if !pos <> Array.length tok then raise Unrenderable;
    "(RNode " ^ t ^ ")"
let rec coq_tnode (TN (pk, sv, mbh, cs)) : string =
  Printf.sprintf "(TN %s %s %b [%s])" (coq_bytes pk)
    (match sv with None -> "None" | Some v -> "(Some " ^ coq_bytes v ^ ")") mbh
    (String.concat "; " (List.map (function None -> "None" | Some c -> "Some " ^ coq_tnode c) cs))
let coq_bool b = if b then "true" else "false"

let coq inp obs =
  try
    if obs = "hang" || obs = "panic" then None else
    (* long byte-list literals overflow coqc's stack: only cases of moderate size are rendered *)
    if String.length inp + String.length obs > 2500 then None else
    let probe = first_tok obs in
    let st = probe_of probe and efix = efix_of probe in
    let cst = Printf.sprintf "(%s, %s)" (coq_bool (fst st)) (coq_bool (snd st)) in
    let obs = rest_after obs in
    match split_ws inp with
    | ["dec"; hx] ->
      let bs = bytes_of_hex hx in
      (* thin out the exhaustive 1- and 2-byte block *)
      if List.length bs <= 2 && (Hashtbl.hash hx) mod 24 <> 0 then None else
      let (res, re) = split_reenc obs in
      let base = Printf.sprintf "dres_eqb (node_decode %s %s) %s" cst (coq_bytes bs) (coq_dres res) in
      (match re with
       | Some r when r <> "skip" && r <> "encerr" && r <> "encpanic" ->
         Some (Printf.sprintf "%s && match node_decode %s %s with Ok (Some d) => bytes_eqb (dencode blake2b_256 %s d) %s | _ => false end"
                 base cst (coq_bytes bs) (coq_bool efix) (coq_bytes (bytes_of_hex r)))
       | _ -> Some base)
    | "enc" :: _ ->
      let tok = Array.of_list (split_ws inp) in
      let pos = ref 1 in
      let t = parse_tree tok pos in
      let enc = first_tok obs in
      let (res, _) = split_reenc (rest_after obs) in
      (match coq_dres res with
       | r when String.length r > 6 && String.sub r 0 6 = "(RNode" ->
         let node = String.sub r 7 (String.length r - 8) in
         Some (Printf.sprintf "let t := %s in bytes_eqb (encode blake2b_256 t) %s && dres_eqb (node_decode %s %s) %s && dnode_eqb (view blake2b_256 t) %s"
                 (coq_tnode t) (coq_bytes (bytes_of_hex enc)) cst (coq_bytes (bytes_of_hex enc)) r node)
       | _ -> None)
    | ["hdr"; v; l] ->
      (match split_ws obs with
       | [enc; _; l'] when l' = l ->
         Some (Printf.sprintf "hdr_check %d %s %s" (int_of_string ("0x" ^ v)) (coq_n (n_of_hex l)) (coq_bytes (bytes_of_hex enc)))
       | _ -> None)
    | _ -> None
  with Unrenderable -> None

let () = run_driver ~coq check
