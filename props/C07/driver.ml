(* C07 driver: replays the Go trace on the extracted codec model.
   Property predicate (the one the theorems C07_total / C07_roundtrip / C07_header_roundtrip are
   about) evaluated on the implementation's observables:
     dec/cdec : the result is a node, nil or an error — never "panic" or "hang";
     enc/cenc : the decoded result equals the decoded view (view / cview) of the input tree;
     hdr/chdr : decodeHeader (encodeHeader v l) = (v, l). *)
open Model
open Vutil

(* Blake2b-256 of the model, memoised (the extracted functions take the hash as a parameter) *)
let hash_tbl : (string, byte list) Hashtbl.t = Hashtbl.create 4096
let hash_memo (x : byte list) : byte list =
  let k = string_of_bytes x in
  match Hashtbl.find_opt hash_tbl k with
  | Some h -> h
  | None -> let h = hash256 x in Hashtbl.add hash_tbl k h; h

(* ---------------------------------------------------------------- rendering *)
let nib_of_bytes (l : byte list) : string =
  if l = [] then "-" else begin
    let b = Buffer.create 64 in
    List.iter (fun x -> let v = int_of_byte x in
                if v < 16 then Buffer.add_char b "0123456789abcdef".[v]
                else Buffer.add_string b (Printf.sprintf "<%02x>" v)) l;
    Buffer.contents b
  end
let bytes_of_nib (s : string) : byte list =
  if s = "-" then [] else List.init (String.length s) (fun i -> byte_of_int (hexval s.[i]))

let rec strip_rev = function (x :: t) when int_of_byte x = 0 -> strip_rev t | l -> l
let zb_str ((d, zf) : byte list * n) : string =
  let total = int_of_n (zb_len (d, zf)) in
  if total <= 64 then hex_of_bytes (zb_bytes (d, zf))
  else if total > 262144 then begin
    let z = int_of_n zf in
    let rec take k l = if k = 0 then [] else (match l with [] -> [] | x :: t -> x :: take (k - 1) t) in
    let zeros k = List.init k (fun _ -> byte_of_int 0) in
    let first = let f = take 32 d in f @ zeros (32 - List.length f) in
    let last = if z >= 32 then zeros 32 else
        (let keep = 32 - z in let ld = List.length d in
         let rec drop k l = if k <= 0 then l else (match l with [] -> [] | _ :: t -> drop (k - 1) t) in
         drop (ld - keep) d @ zeros z) in
    Printf.sprintf "big:%x:%s:%s" total (hex_of_bytes first) (hex_of_bytes last)
  end else begin
    let kept = List.rev (strip_rev (List.rev d)) in
    hex_of_bytes kept ^ "+" ^ Printf.sprintf "%x" (total - List.length kept)
  end
let dval_str = function
  | DVInline z -> "i:" ^ zb_str z
  | DVHashed h -> "h:" ^ hex_of_bytes h
let oval_str = function None -> "none" | Some v -> dval_str v

let rec dnode_str (n : dnode) : string =
  match n with
  | DStub mv -> "S " ^ zb_str mv
  | DLeaf (pk, v) -> "L " ^ nib_of_bytes pk ^ " " ^ dval_str v
  | DBranch (pk, v, d, cs) ->
    "B " ^ nib_of_bytes pk ^ " " ^ oval_str v ^ " " ^ hex_of_n d
    ^ String.concat "" (List.map (function None -> " _" | Some c -> " " ^ dnode_str c) cs)

let cnode_str (n : cnode) : string =
  match n with
  | CEmpty -> "E"
  | CLeaf (pk, v) -> "L " ^ nib_of_bytes pk ^ " " ^ dval_str v
  | CBranch (pk, v, cs) ->
    "B " ^ nib_of_bytes pk ^ " " ^ oval_str v
    ^ String.concat "" (List.map (function
        | None -> " _"
        | Some (CInline z) -> " i:" ^ zb_str z
        | Some (CHashed h) -> " h:" ^ hex_of_bytes h) cs)

let class_str c = match int_of_nat c with
  | 1 -> "err:eof" | 2 -> "err:variant" | 3 -> "err:keybig" | 4 -> "err:mismatch" | 5 -> "err:storage"
  | 6 -> "err:short" | 7 -> "err:bitmap" | 8 -> "err:child" | k -> Printf.sprintf "err:%d" k

let outcome_str f = function
  | Ok x -> f x
  | Err c -> class_str c
  | Panic -> "panic"
  | OutOfFuel -> "hang"

let dres_str = outcome_str (function None -> "nil" | Some n -> dnode_str n)
let cres_str = outcome_str cnode_str

(* ---------------------------------------------------------------- input trees *)
let rec parse_tree (tok : string array) (pos : int ref) : tnode =
  let t = tok.(!pos) in
  incr pos;
  match t with
  | "L" ->
    let pk = bytes_of_nib tok.(!pos) and v = bytes_of_hex tok.(!pos + 1) and mbh = tok.(!pos + 2) = "1" in
    pos := !pos + 3;
    TN (pk, Some v, mbh, [])
  | "B" ->
    let pk = bytes_of_nib tok.(!pos) in
    let v = if tok.(!pos + 1) = "none" then None else Some (bytes_of_hex tok.(!pos + 1)) in
    let mbh = tok.(!pos + 2) = "1" in
    pos := !pos + 3;
    let cs = ref [] in
    for _ = 0 to 15 do
      if tok.(!pos) = "_" then (incr pos; cs := None :: !cs)
      else cs := Some (parse_tree tok pos) :: !cs
    done;
    TN (pk, v, mbh, List.rev !cs)
  | _ -> fail "C07: bad tree token %s" t

let rec tree_depth (TN (_, _, _, cs)) =
  1 + List.fold_left (fun m -> function None -> m | Some c -> max m (tree_depth c)) 0 cs

let probe_of s =
  if String.length s = 3 && s.[0] = 'p' then (s.[1] = '1', s.[2] = '1') else fail "C07: bad probe %s" s

let first_tok s = match String.index_opt s ' ' with Some i -> String.sub s 0 i | None -> s
let rest_after s = match String.index_opt s ' ' with
  | Some i -> String.sub s (i + 1) (String.length s - i - 1) | None -> ""

let result_tag s =
  let t = first_tok s in
  match t with
  | "L" -> "ok-leaf" | "B" -> "ok-branch" | "E" | "nil" -> "ok-empty" | _ -> t

let contains s sub =
  let n = String.length s and m = String.length sub in
  let rec go i = i + m <= n && (String.sub s i m = sub || go (i + 1)) in go 0

let pklen_tag l =
  if l = 0 then "pk0" else if l < 63 then "pk<63" else if l = 63 then "pk63" else if l < 318 then "pk64-317"
  else if l = 318 then "pk318" else if l < 65535 then "pk319-65534" else "pk65535"

let check inp obs =
  if obs = "hang" || obs = "panic" then
    { prop_ok = false; model_eq = false; nontrivial = true; finding = "-"; tags = "whole-case-" ^ obs;
      detail = "the harness call did not return: " ^ obs } else
  let st = probe_of (first_tok obs) in
  let obs = rest_after obs in
  let ptag = "scale-" ^ (if fst st then "strictU" else "lenientU") ^ (if snd st then "-strictB" else "-lenientB") in
  match split_ws inp with
  | ["dec"; hx] | ["cdec"; hx] as f ->
    let bs = bytes_of_hex hx in
    let is_c = List.hd f = "cdec" in
    let m = if is_c then cres_str (codec_decode st bs) else dres_str (node_decode st bs) in
    let pinned = if is_c then cres_str (codec_decode_pinned st bs) else dres_str (node_decode_pinned st bs) in
    let prop = obs <> "panic" && obs <> "hang" in
    let tags = String.concat "," (List.filter (fun x -> x <> "") [
      (if is_c then "cdec" else "dec"); (if is_c then "c-" else "") ^ result_tag m; ptag;
      (if pinned = "panic" then "pinned-panics" else "");
      (if contains m "+" then "zero-filled-large" else "");
      (if (not is_c) && contains m " L " && first_tok m = "B" then "inlined-child" else "");
      (let l = List.length bs in if l <= 2 then "len<=2" else if l < 32 then "len<32" else "len>=32") ]) in
    { prop_ok = prop; model_eq = (m = obs); nontrivial = true; finding = "-"; tags;
      detail = if prop && m = obs then "" else Printf.sprintf "model=%s pinned-model=%s" m pinned }
  | "enc" :: _ | "cenc" :: _ ->
    let is_c = first_tok inp = "cenc" in
    let tok = Array.of_list (split_ws inp) in
    let pos = ref 1 in
    let t = parse_tree tok pos in
    if not (wf_node t) then fail "C07: generator produced an ill-formed tree";
    let enc = encode hash_memo t in
    let expected = if is_c then cnode_str (cview hash_memo t) else dnode_str (view hash_memo t) in
    let m_dec = if is_c then cres_str (codec_decode st enc) else dres_str (node_decode st enc) in
    let m = hex_of_bytes enc ^ " " ^ m_dec in
    let o_dec = rest_after obs in
    let prop = (o_dec = expected) in
    let TN (pk, sv, mbh, cs) = t in
    let tags = String.concat "," (List.filter (fun x -> x <> "") [
      (if is_c then "cenc" else "enc"); ptag; (if cs = [] then "leaf" else "branch");
      pklen_tag (List.length pk);
      (match sv with None -> "no-value" | Some v -> if mbh then "hashed-value" else
                      (let l = List.length v in if l < 64 then "val<64" else if l < 16384 then "val<16384" else "val>=16384"));
      (if contains expected " S " then "hashed-child" else "");
      (if (not is_c) && cs <> [] && (contains expected " L " || contains (rest_after expected) "B ") then "inlined-child" else "");
      Printf.sprintf "depth%d" (tree_depth t) ]) in
    { prop_ok = prop; model_eq = (m = obs) && (m_dec = expected); nontrivial = true; finding = "-"; tags;
      detail = if prop && m = obs then "" else Printf.sprintf "expected=%s model=%s" expected m }
  | ["hdr"; v; l] | ["chdr"; v; l] ->
    let vi = int_of_string ("0x" ^ v) and ln = n_of_hex l in
    let var = variant_of_nat (nat_of_int vi) in
    let enc = encode_header var ln in
    let names = [| "Leaf"; "Branch"; "BranchWithValue"; "LeafWithHashedValue"; "BranchWithHashedValue"; "Empty"; "Compact" |] in
    let m = (match decode_header enc with
      | Ok ((v', l'), _) -> hex_of_bytes enc ^ " " ^ names.(int_of_nat (variant_name v')) ^ " " ^ hex_of_n l'
      | Err c -> "hdr-" ^ class_str c
      | _ -> "panic") in
    let prop = (match split_ws obs with
      | [_; name; l'] -> name = names.(vi) && l' = hex_of_n ln
      | _ -> false) in
    let li = int_of_n ln in
    let mask = [| 63; 63; 63; 31; 15 |].(vi) in
    let tags = String.concat "," [first_tok inp; "variant-" ^ names.(vi);
      (if li < mask then "in-header-byte" else if (li - mask) mod 255 = 0 then "run-boundary"
       else if li = 65535 then "max" else "continued")] in
    { prop_ok = prop; model_eq = (m = obs); nontrivial = true; finding = "-"; tags;
      detail = if prop && m = obs then "" else "model=" ^ m }
  | _ -> fail "C07: bad input %s" inp

let () = run_driver check
