// C07 correspondence harness for pkg/trie/node (injected by `go test -overlay`).
//
// inputs (fields separated by one space; numbers in hex; byte strings hex, "-" = empty;
// nibble strings one hex digit per nibble, "-" = empty):
//   dec <bytes>                 node.Decode(bytes.NewReader(bytes))
//   enc <tree>                  build the node tree, Encode it, Decode the encoding
//   hdr <variant 0..4> <len>    encodeHeader of a node of that shape with a partial key of <len>
//                               nibbles, then decodeHeader of the bytes written
//                               (0 leaf, 1 branch, 2 branch+value, 3 leaf hashed, 4 branch hashed)
//   <tree> ::= L <nibbles> <value> <mbh 0|1>
//            | B <nibbles> <value|none> <mbh 0|1> <child>*16        <child> ::= _ | <tree>
// observables (first token of every line: p<u><b><e>, u/b = 1 when pkg/scale rejects short reads in
// decodeUint / decodeBytes, e = 1 when Encode of a decoded leaf with a hashed value gives back the
// bytes it was decoded from (fixes/C07-encode-decoded-hashed-value.patch) — probed on the tree under test):
//   dec -> <result>[ R <reenc>] <result> ::= nil | err:<class> | panic | <node>
//   enc -> <encoding hex> <result>[ R <reenc>]          (or "encpanic" / "encerr")
//   <reenc> (only when <result> is a node): the decoded node passed to Encode again:
//           <hex> | encerr | encpanic | skip (the node holds a byte string above 2^18 bytes)
//   hdr -> <bytes> <variant name> <len> | hdr-err:<class> | panic
//   <node>  ::= S <zb> | L <nibbles> <val> | B <nibbles> <val|none> <descendants> <c>*16
//   <c>     ::= _ | <node>     <val> ::= i:<zb> | h:<hex>
//   <zb>    ::= <hex>  (length <= 64)  |  <hex without trailing zero bytes>+<number of them>
//             | big:<length>:<first 32 bytes>:<last 32 bytes>      (length > 2^18)
package node

import (
	"bytes"
	"errors"
	"fmt"
	"io"
	"strings"
	"sync"
	"testing"

	vu "github.com/ChainSafe/gossamer/internal/verifutil"
	"github.com/ChainSafe/gossamer/pkg/scale"
)

var c07probeOnce sync.Once
var c07probe string

func c07Probe() string {
	c07probeOnce.Do(func() {
		u, b := "0", "0"
		var x []byte
		var y uint
		// four-byte mode with one of its three continuation bytes missing
		if err := scale.Unmarshal([]byte{0x02, 0x00, 0x01}, &y); err != nil {
			u = "1"
		}
		// declared length 2, one byte present
		if err := scale.Unmarshal([]byte{0x08, 0x01}, &x); err != nil {
			b = "1"
		}
		e := "0"
		func() {
			defer func() { recover() }()
			enc := append([]byte{0x21, 0x01}, bytes.Repeat([]byte{7}, 32)...)
			n, err := Decode(bytes.NewReader(enc))
			if err != nil || n == nil {
				return
			}
			buf := bytes.NewBuffer(nil)
			if n.Encode(buf) == nil && bytes.Equal(buf.Bytes(), enc) {
				e = "1"
			}
		}()
		c07probe = "p" + u + b + e
	})
	return c07probe
}

func c07class(err error) string {
	for e := err; e != nil; e = errors.Unwrap(e) {
		switch e {
		case io.EOF:
			return "err:eof"
		case ErrVariantUnknown:
			return "err:variant"
		case ErrPartialKeyTooBig:
			return "err:keybig"
		case ErrReaderMismatchCount:
			return "err:mismatch"
		case ErrDecodeStorageValue:
			return "err:storage"
		case ErrDecodeHashedValueTooShort:
			return "err:short"
		case ErrReadChildrenBitmap:
			return "err:bitmap"
		case ErrDecodeChildHash:
			return "err:child"
		}
	}
	return "err:other"
}

func c07nib(b []byte) string {
	if len(b) == 0 {
		return "-"
	}
	var sb strings.Builder
	for _, x := range b {
		if x < 16 {
			sb.WriteByte("0123456789abcdef"[x])
		} else {
			fmt.Fprintf(&sb, "<%02x>", x)
		}
	}
	return sb.String()
}

func c07unnib(s string) []byte {
	if s == "-" {
		return []byte{}
	}
	out := make([]byte, len(s))
	for i := 0; i < len(s); i++ {
		out[i] = byte(vu.UnX(s[i : i+1]))
	}
	return out
}

func c07zb(b []byte) string {
	if len(b) <= 64 {
		return vu.Hex(b)
	}
	if len(b) > 1<<18 {
		// never touch the whole buffer: page faults on a declared 4 GiB are slow
		return "big:" + vu.X(uint64(len(b))) + ":" + vu.Hex(b[:32]) + ":" + vu.Hex(b[len(b)-32:])
	}
	n := len(b)
	for n > 0 && b[n-1] == 0 {
		n--
	}
	return vu.Hex(b[:n]) + "+" + vu.X(uint64(len(b)-n))
}

func c07node(sb *strings.Builder, n *Node) {
	if n.Children == nil {
		if n.StorageValue == nil {
			sb.WriteString("S " + c07zb(n.MerkleValue))
			return
		}
		sb.WriteString("L " + c07nib(n.PartialKey) + " ")
		if n.IsHashedValue {
			sb.WriteString("h:" + vu.Hex(n.StorageValue))
		} else {
			sb.WriteString("i:" + c07zb(n.StorageValue))
		}
		return
	}
	sb.WriteString("B " + c07nib(n.PartialKey) + " ")
	switch {
	case n.StorageValue == nil:
		sb.WriteString("none")
	case n.IsHashedValue:
		sb.WriteString("h:" + vu.Hex(n.StorageValue))
	default:
		sb.WriteString("i:" + c07zb(n.StorageValue))
	}
	sb.WriteString(" " + vu.X(uint64(n.Descendants)))
	for _, c := range n.Children {
		sb.WriteString(" ")
		if c == nil {
			sb.WriteString("_")
		} else {
			c07node(sb, c)
		}
	}
}

func c07decode(b []byte) (res string) {
	defer func() {
		if p := recover(); p != nil {
			res = "panic"
		}
	}()
	n, err := Decode(bytes.NewReader(b))
	if err != nil {
		return c07class(err)
	}
	if n == nil {
		return "nil"
	}
	var sb strings.Builder
	c07node(&sb, n)
	sb.WriteString(" R " + c07reencode(n))
	return sb.String()
}

// c07big: the decoded node holds a byte string above 2^18 bytes (a declared, zero-filled length).
func c07big(n *Node) bool {
	if n == nil {
		return false
	}
	if len(n.StorageValue) > 1<<18 || len(n.MerkleValue) > 1<<18 {
		return true
	}
	for _, c := range n.Children {
		if c07big(c) {
			return true
		}
	}
	return false
}

// c07reencode passes a node that Decode returned to Encode.
func c07reencode(n *Node) (res string) {
	if c07big(n) {
		return "skip"
	}
	defer func() {
		if p := recover(); p != nil {
			res = "encpanic"
		}
	}()
	buf := bytes.NewBuffer(nil)
	if err := n.Encode(buf); err != nil {
		return "encerr"
	}
	return vu.Hex(buf.Bytes())
}

// c07parse builds a node tree from tokens.
func c07parse(tok []string, pos *int) *Node {
	t := tok[*pos]
	*pos++
	switch t {
	case "L":
		pk := c07unnib(tok[*pos])
		v := vu.UnHex(tok[*pos+1])
		mbh := tok[*pos+2] == "1"
		*pos += 3
		return &Node{PartialKey: pk, StorageValue: v, MustBeHashed: mbh, Dirty: true}
	case "B":
		pk := c07unnib(tok[*pos])
		var v []byte
		if tok[*pos+1] != "none" {
			v = vu.UnHex(tok[*pos+1])
		}
		mbh := tok[*pos+2] == "1"
		*pos += 3
		n := &Node{PartialKey: pk, StorageValue: v, MustBeHashed: mbh, Dirty: true,
			Children: make([]*Node, ChildrenCapacity)}
		for i := 0; i < ChildrenCapacity; i++ {
			if tok[*pos] == "_" {
				*pos++
				continue
			}
			n.Children[i] = c07parse(tok, pos)
		}
		return n
	}
	panic("c07parse: bad token " + t)
}

func c07hdr(variant int, l int) (res string) {
	defer func() {
		if p := recover(); p != nil {
			res = "panic"
		}
	}()
	n := &Node{PartialKey: make([]byte, l)}
	hashed := false
	switch variant {
	case 0:
		n.StorageValue = []byte{1}
	case 1:
		n.Children = make([]*Node, ChildrenCapacity)
	case 2:
		n.Children = make([]*Node, ChildrenCapacity)
		n.StorageValue = []byte{1}
	case 3:
		n.StorageValue = []byte{1}
		hashed = true
	case 4:
		n.Children = make([]*Node, ChildrenCapacity)
		n.StorageValue = []byte{1}
		hashed = true
	}
	buf := bytes.NewBuffer(nil)
	if err := encodeHeader(n, hashed, buf); err != nil {
		return "hdr-err:enc"
	}
	enc := append([]byte{}, buf.Bytes()...)
	v, pkl, err := decodeHeader(bytes.NewReader(enc))
	if err != nil {
		return "hdr-" + c07class(err)
	}
	return vu.Hex(enc) + " " + v.String() + " " + vu.X(uint64(pkl))
}

func c07Run(in string) string {
	f := strings.Split(in, " ")
	switch f[0] {
	case "dec":
		return c07Probe() + " " + c07decode(vu.UnHex(f[1]))
	case "enc":
		pos := 1
		n := c07parse(f, &pos)
		enc, st := func() (e []byte, st string) {
			defer func() {
				if p := recover(); p != nil {
					st = "encpanic"
				}
			}()
			buf := bytes.NewBuffer(nil)
			if err := n.Encode(buf); err != nil {
				return nil, "encerr"
			}
			return buf.Bytes(), ""
		}()
		if st != "" {
			return c07Probe() + " " + st
		}
		return c07Probe() + " " + vu.Hex(enc) + " " + c07decode(enc)
	case "hdr":
		return c07Probe() + " " + c07hdr(int(vu.UnX(f[1])), int(vu.UnX(f[2])))
	}
	return "bad-input"
}

// ---------------------------------------------------------------- generators

var c07pkLens = []int{0, 1, 2, 3, 14, 15, 16, 30, 31, 32, 62, 63, 64, 65, 316, 317, 318, 319, 572, 573, 574,
	1000, 65533, 65534, 65535}
var c07valLens = []int{0, 1, 2, 26, 27, 28, 29, 30, 31, 32, 33, 63, 64, 65, 300, 16383, 16384, 16385}

func c07randNib(r *vu.RNG, l int) string {
	if l == 0 {
		return "-"
	}
	b := make([]byte, l)
	for i := range b {
		b[i] = "0123456789abcdef"[r.Intn(16)]
	}
	return string(b)
}

func c07pkLen(r *vu.RNG, small bool) int {
	if small || r.Chance(3, 4) {
		return r.Intn(6)
	}
	if r.Chance(1, 60) {
		return c07pkLens[r.Intn(len(c07pkLens))]
	}
	return c07pkLens[r.Intn(len(c07pkLens)-4)]
}

func c07val(r *vu.RNG, small bool) []byte {
	var l int
	switch {
	case small:
		l = r.Intn(5)
	case r.Chance(1, 120):
		l = c07valLens[r.Intn(len(c07valLens))]
	default:
		l = c07valLens[r.Intn(14)]
	}
	b := r.Bytes(l)
	if r.Chance(1, 4) { // trailing / interior zeros
		for i := range b {
			if r.Chance(1, 2) {
				b[i] = 0
			}
		}
	}
	return b
}

// c07tree emits a random tree; small = keep the encoding below 32 bytes (an inlined child).
func c07tree(r *vu.RNG, depth int, small bool) string {
	if depth == 0 || r.Chance(1, 2) {
		v := c07val(r, small)
		mbh := "0"
		if !small && r.Chance(1, 3) {
			mbh = "1"
		}
		return "L " + c07randNib(r, c07pkLen(r, small)) + " " + vu.Hex(v) + " " + mbh
	}
	val := "none"
	mbh := "0"
	if r.Chance(1, 2) {
		val = vu.Hex(c07val(r, small))
		if !small && r.Chance(1, 3) {
			mbh = "1"
		}
	}
	s := "B " + c07randNib(r, c07pkLen(r, small)) + " " + val + " " + mbh
	nch := r.Intn(4)
	if small {
		nch = r.Intn(3)
	}
	if r.Chance(1, 10) {
		nch = 16
	}
	mask := 0
	for i := 0; i < nch; i++ {
		mask |= 1 << uint(r.Intn(16))
	}
	if nch == 16 {
		mask = 0xffff
	}
	for i := 0; i < 16; i++ {
		if mask&(1<<uint(i)) == 0 {
			s += " _"
			continue
		}
		s += " " + c07tree(r, depth-1, small || r.Chance(1, 2))
	}
	return s
}

func c07encodeTree(tree string) []byte {
	f := strings.Split(tree, " ")
	pos := 0
	n := c07parse(f, &pos)
	buf := bytes.NewBuffer(nil)
	if err := n.Encode(buf); err != nil {
		return nil
	}
	return buf.Bytes()
}

var c07interesting = []byte{0x00, 0x01, 0x02, 0x03, 0x04, 0x07, 0x0b, 0x0f, 0x10, 0x1f, 0x20, 0x3f, 0x40, 0x41, 0x7c, 0x7d, 0x7e, 0x7f,
	0x80, 0x81, 0xbf, 0xc0, 0xc1, 0xfc, 0xfd, 0xfe, 0xff, 0x13, 0x33}

func c07mutate(r *vu.RNG, b []byte) []byte {
	b = append([]byte{}, b...)
	switch r.Intn(7) {
	case 0: // truncate
		if len(b) > 0 {
			b = b[:r.Intn(len(b))]
		}
	case 1: // bit flip
		if len(b) > 0 {
			b[r.Intn(len(b))] ^= 1 << uint(r.Intn(8))
		}
	case 2: // interesting byte
		if len(b) > 0 {
			b[r.Intn(len(b))] = c07interesting[r.Intn(len(c07interesting))]
		}
	case 3: // interesting byte near the front, then truncate
		if len(b) > 0 {
			i := r.Intn(len(b))
			if i > 6 {
				i = r.Intn(6)
			}
			b[i] = c07interesting[r.Intn(len(c07interesting))]
			if r.Chance(1, 2) {
				b = b[:i+1+r.Intn(len(b)-i)]
			}
		}
	case 4: // insert bytes
		i := r.Intn(len(b) + 1)
		ins := r.Bytes(1 + r.Intn(3))
		b = append(b[:i], append(ins, b[i:]...)...)
	case 5: // append
		b = append(b, r.Bytes(1+r.Intn(4))...)
	default: // two mutations
		b = c07mutate(r, c07mutate(r, b))
	}
	return b
}

// c07crafted builds byte strings directly: branch headers with bitmaps, compact length
// prefixes of every mode, inlined children nested inside inlined children, long key lengths.
func c07crafted(r *vu.RNG) []byte {
	var b []byte
	hdrs := []byte{0x80, 0x80, 0x81, 0xc0, 0xc1, 0x10, 0x11, 0x40, 0x41, 0x20, 0x21, 0x7f, 0xbf, 0xff, 0x3f, 0x1f}
	h := hdrs[r.Intn(len(hdrs))]
	b = append(b, h)
	switch h & 0xc0 {
	case 0x40, 0x80, 0xc0:
		if h&0x3f == 0x3f { // length continuation
			k := r.Intn(5)
			for i := 0; i < k; i++ {
				b = append(b, 0xff)
			}
			if r.Chance(3, 4) {
				b = append(b, byte(r.Intn(256)))
			}
			if r.Chance(1, 2) {
				return b
			}
			if k >= 1 || r.Chance(1, 2) { // do not materialise the key: the decoder must fail on it
				b = append(b, r.Bytes(r.Intn(40))...)
				return b
			}
		} else if h&0x3f != 0 {
			b = append(b, r.Bytes(1)...)
		}
	default:
		if (h == 0x3f || h == 0x1f) && r.Chance(1, 2) {
			b = append(b, 0xff, 0xff, byte(r.Intn(256)))
			return b
		}
		if h&0x0f != 0 && h != 0x3f && h != 0x1f {
			b = append(b, r.Bytes(1)...)
		}
	}
	isBranch := h&0xc0 == 0x80 || h&0xc0 == 0xc0 || h&0xf0 == 0x10
	if !isBranch {
		b = append(b, c07compactBytes(r)...)
		return b
	}
	bm := uint16(0)
	for i := 0; i < r.Intn(4); i++ {
		bm |= 1 << uint(r.Intn(16))
	}
	if r.Chance(1, 8) {
		b = append(b, byte(bm)) // one-byte bitmap
		return b
	}
	b = append(b, byte(bm), byte(bm>>8))
	if h&0xc0 == 0xc0 {
		b = append(b, c07compactBytes(r)...)
	} else if h&0xf0 == 0x10 {
		b = append(b, r.Bytes(r.Intn(34))...)
	}
	for i := 0; i < 16; i++ {
		if bm&(1<<uint(i)) == 0 {
			continue
		}
		switch r.Intn(6) {
		case 0: // hashed child
			b = append(b, 0x80)
			b = append(b, r.Bytes(32)...)
		case 1: // inlined nested crafted child
			c := c07crafted(r)
			if len(c) > 31 {
				c = c[:31]
			}
			b = append(b, byte(len(c))<<2)
			b = append(b, c...)
		case 2: // declared longer than what follows (zero filled)
			c := c07crafted(r)
			if len(c) > 20 {
				c = c[:20]
			}
			b = append(b, byte(len(c)+r.Intn(31-len(c)+1))<<2)
			b = append(b, c...)
			return b
		case 3: // empty / compact / empty-variant children
			opts := [][]byte{{0x00}, {0x04, 0x00}, {0x04, 0x01}, {0x08, 0x00, 0x00}, {0x04, 0x02}, {0x04}}
			b = append(b, opts[r.Intn(len(opts))]...)
		case 4:
			b = append(b, c07compactBytes(r)...)
		default: // inlined valid small leaf
			b = append(b, 0x0c, 0x41, byte(r.Intn(16)), 0x00)
		}
	}
	return b
}

// c07compactBytes: a SCALE byte string whose length prefix uses a chosen mode, possibly
// non-canonical, possibly with fewer bytes than declared.
func c07compactBytes(r *vu.RNG) []byte {
	var b []byte
	var n int
	switch r.Intn(8) {
	case 0:
		n = r.Intn(64)
		b = []byte{byte(n << 2)}
	case 1:
		n = 64 + r.Intn(200)
		b = []byte{byte(n<<2) | 1, byte(n >> 6)}
	case 2: // non-canonical two-byte mode
		n = r.Intn(64)
		b = []byte{byte(n<<2) | 1, 0}
	case 3:
		n = 16384 + r.Intn(70000)
		v := uint32(n<<2) | 2
		b = []byte{byte(v), byte(v >> 8), byte(v >> 16), byte(v >> 24)}
	case 4: // non-canonical four-byte mode
		n = r.Intn(16384)
		v := uint32(n<<2) | 2
		b = []byte{byte(v), byte(v >> 8), byte(v >> 16), byte(v >> 24)}
	case 5: // big mode: 4 bytes (>= 2^30: only with nothing or little behind it), others rejected
		k := r.Intn(6)
		switch k {
		case 0:
			b = []byte{0x03, byte(r.Intn(256)), 0, 0, 0x40}
			b = append(b, r.Bytes(r.Intn(3))...)
			return b
		case 1:
			b = []byte{0x03, 1, 0, 0, 0} // below 2^30: rejected
		case 2:
			b = append([]byte{0x13}, r.Bytes(8)...) // 8-byte mode: above MaxUint32 or rejected
		case 3:
			b = []byte{0x13, 0, 0, 0, 0, 1, 0, 0, 1}
		default:
			b = append([]byte{byte(r.Intn(64)<<2) | 3}, r.Bytes(r.Intn(12))...)
		}
		return b
	case 6: // prefix cut short
		opts := [][]byte{{0x01}, {0x02}, {0x02, 0x00}, {0x02, 0x00, 0x01}, {0x03}, {0x03, 0, 0}, {0xfe, 0xff}, {0x06, 0x00, 0x01}}
		return opts[r.Intn(len(opts))]
	default:
		n = r.Intn(40)
		b = []byte{byte(n << 2)}
	}
	have := n
	if r.Chance(1, 3) && n > 0 {
		have = r.Intn(n + 1)
	}
	if have > 70000 {
		have = 70000
	}
	return append(b, r.Bytes(have)...)
}

// c07peekLen reads a compact length prefix the way decodeUint does (without its range checks)
// and returns the declared length.
func c07peekLen(r *bytes.Reader) uint64 {
	p, err := r.ReadByte()
	if err != nil {
		return 0
	}
	k := 0
	switch p & 3 {
	case 0:
		return uint64(p >> 2)
	case 1:
		k = 1
	case 2:
		k = 3
	default:
		k = int(p>>2) + 4
		buf := make([]byte, k)
		r.Read(buf)
		if k != 4 {
			return 0
		}
		return uint64(buf[0]) | uint64(buf[1])<<8 | uint64(buf[2])<<16 | uint64(buf[3])<<24
	}
	buf := make([]byte, 4)
	buf[0] = p
	r.Read(buf[1 : 1+k])
	return (uint64(buf[0]) | uint64(buf[1])<<8 | uint64(buf[2])<<16 | uint64(buf[3])<<24) >> 2
}

// c07maxDeclared walks an input the way Decode does and returns the largest byte-string length
// it declares. Only used by the generator to ration inputs that make the decoder allocate
// hundreds of megabytes (they are slow, not wrong); never used to compute an observable.
func c07maxDeclared(b []byte, depth int) (max uint64) {
	defer func() { recover() }()
	if depth > 12 {
		return 0
	}
	r := bytes.NewReader(b)
	v, pkl, err := decodeHeader(r)
	if err != nil {
		return 0
	}
	isBranch := v == branchVariant || v == branchWithValueVariant || v == branchWithHashedValueVariant
	if !isBranch && v != leafVariant {
		return 0
	}
	if _, err := decodeKey(r, pkl); err != nil {
		return 0
	}
	skip := func(l uint64) []byte {
		if l > uint64(r.Len()) {
			l = uint64(r.Len())
		}
		d := make([]byte, l)
		r.Read(d)
		return d
	}
	if !isBranch {
		return c07peekLen(r)
	}
	bm := make([]byte, 2)
	if _, err := r.Read(bm); err != nil {
		return 0
	}
	switch v {
	case branchWithValueVariant:
		l := c07peekLen(r)
		max = l
		skip(l)
	case branchWithHashedValueVariant:
		skip(32)
	}
	for i := 0; i < 16; i++ {
		if (bm[i/8]>>(uint(i)%8))&1 != 1 {
			continue
		}
		l := c07peekLen(r)
		if l > max {
			max = l
		}
		d := skip(l)
		if l < 32 {
			c := make([]byte, l)
			copy(c, d)
			if m := c07maxDeclared(c, depth+1); m > max {
				max = m
			}
		}
	}
	return max
}

func c07Gen(r *vu.RNG, n int, emit0 func(string)) {
	giants := 0
	emit := func(in string) {
		if strings.HasPrefix(in, "dec ") {
			if c07maxDeclared(vu.UnHex(in[4:]), 0) > 1<<22 {
				giants++
				if giants > c07giantBudget() {
					in = "dec " + vu.Hex(r.Bytes(1+r.Intn(6)))
					if c07maxDeclared(vu.UnHex(in[4:]), 0) > 1<<22 {
						in = "dec 4100"
					}
				}
			}
		}
		emit0(in)
	}
	// --- fixed part: every 1- and 2-byte string (decoder robustness, exhaustive)
	for a := 0; a < 256; a++ {
		emit("dec " + vu.Hex([]byte{byte(a)}))
	}
	emit("dec -")
	for a := 0; a < 256; a++ {
		for b := 0; b < 256; b++ {
			emit("dec " + vu.Hex([]byte{byte(a), byte(b)}))
		}
	}
	// --- header boundaries for every variant
	for v := 0; v < 5; v++ {
		masks := []int{63, 63, 63, 31, 15}
		m := masks[v]
		for _, l := range []int{0, 1, m - 1, m, m + 1, m + 253, m + 254, m + 255, m + 256, m + 509, m + 510, m + 511,
			m + 255*10 - 1, m + 255*10, 65534, 65535} {
			emit(fmt.Sprintf("hdr %x %x", v, l))
		}
	}
	if vu.Thorough() {
		for v := 0; v < 5; v++ {
			for l := 0; l <= 65535; l++ {
				emit(fmt.Sprintf("hdr %x %x", v, l))
			}
		}
	} else {
		// every length up to 1100, every run boundary m+255k (and its neighbours), the top of the range
		for v := 0; v < 5; v++ {
			m := []int{63, 63, 63, 31, 15}[v]
			for l := 0; l <= 1100; l++ {
				emit(fmt.Sprintf("hdr %x %x", v, l))
			}
			for k := 4; m+255*k <= 65535; k++ {
				for d := -1; d <= 1; d++ {
					if l := m + 255*k + d; l <= 65535 {
						emit(fmt.Sprintf("hdr %x %x", v, l))
					}
				}
			}
			for _, l := range []int{32766, 32767, 32768, 32769, 65279, 65280, 65281, 65533} {
				emit(fmt.Sprintf("hdr %x %x", v, l))
			}
		}
	}
	// --- partial key length boundaries through Encode/Decode
	rk := r.Fork()
	for _, l := range c07pkLens {
		emit("enc L " + c07randNib(rk, l) + " 2a 0")
		emit("enc L " + c07randNib(rk, l) + " " + vu.Hex(rk.Bytes(33)) + " 1")
		emit("enc B " + c07randNib(rk, l) + " none 0 _ _ L 1 01 0 _ _ _ _ _ _ _ _ _ _ _ _ _")
		emit("enc B " + c07randNib(rk, l) + " " + vu.Hex(rk.Bytes(40)) + " 1 _ _ L 1 01 0 _ _ _ _ _ _ _ _ _ _ _ _ L - " + vu.Hex(rk.Bytes(40)) + " 0")
	}
	for _, l := range c07valLens {
		emit("enc L 1 " + vu.Hex(rk.Bytes(l)) + " 0")
		emit("enc B - " + vu.Hex(rk.Bytes(l)) + " 0 L 1 01 0 _ _ _ _ _ _ _ _ _ _ _ _ _ _ _")
	}
	// --- random part
	for i := 0; i < n; i++ {
		switch r.Intn(10) {
		case 0, 1:
			emit("enc " + c07tree(r, 3, false))
		case 2:
			emit(fmt.Sprintf("hdr %x %x", r.Intn(5), r.Intn(65536)))
		case 3, 4, 5:
			enc := c07encodeTree(c07tree(r, 2, r.Chance(1, 2)))
			if len(enc) > 4096 {
				enc = enc[:4096]
			}
			emit("dec " + vu.Hex(c07mutate(r, enc)))
		case 6, 7, 8:
			b := c07crafted(r)
			if r.Chance(1, 4) {
				b = c07mutate(r, b)
			}
			emit("dec " + vu.Hex(b))
		default:
			emit("dec " + vu.Hex(r.Bytes(1+r.Intn(12))))
		}
	}
}

func TestVerifC07(t *testing.T) {
	vu.Run(t, "C07", 6000, c07Gen, c07Run)
}

// c07giantBudget: how many inputs that declare a byte string above 4 MiB a run may contain
// (each costs the Go runtime seconds — on a loaded machine tens of seconds — of page faults, so
// the quick tier, which must not depend on timing, has none; lengths up to 4 MiB are covered).
func c07giantBudget() int {
	if vu.Thorough() {
		return 16
	}
	return 0
}
