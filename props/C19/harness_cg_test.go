// C19 correspondence harness, part 2. Since round 4 it is compiled into the test binary of lib/grandpa
// (one test binary less to build and link in the quick tier) and drives the EXPORTED entry points of
// internal/client/consensus/grandpa: DecodeGrandpaJustificationVerifyFinalizes and GrandpaJustification.Verify.
//
// Builds a SCALE-encoded GRANDPA justification with real ed25519 keys, real header hashes and
// real (or deliberately wrong) signatures and runs DecodeGrandpaJustificationVerifyFinalizes at
// block-number widths uint32 and uint64, in the given precommit order and every listed permutation.
//
// input (fields separated by one space, all numbers hex):
//   vj <weights|-> <base> <parents|-> <headers|-> <fblk> <fnum> <tblk> <tnum> <round> <setid> <precommits|-> <perms|-> [<salt>]
//     salt        optional: mixed into every header, so that the real block hashes sort differently
//                 (the vote graph orders its candidates by hash; the verdict must not depend on it)
//     weights     id:w,...  IDWeight list for NewVoterSet (id = index of a fixed universe of real keys)
//     base, parents   the generated block tree (block i has parent p_i; number = base + depth); every block has a
//                 real header (parent hash = hash of the parent's header); headers = labels of the blocks
//                 whose headers are put into VoteAncestries (in this order; repeats allowed)
//     fblk,fnum   the finalizedTarget argument;  tblk,tnum the commit target inside the justification
//     round,setid the justification's round and the setID argument
//     precommits  id.blk.num.kind,...   kind: v signed for (precommit, round, setid) | f0..f3 forged bytes
//                 | r signed for round+1 | s signed for setid+1 | o signed for number+1
//     perms       permutations of the precommit list (`;` separated); the identity order runs first
//   pl <stage> <hash: 32 bytes hex> <number> <round> <setid>
//     the bytes a vote signature is made over: built by hand (4- and 8-byte numbers; the encoder this harness
//     signs and verifies with) and by the implementation's NewLocalizedPayload at uint32 and uint64
// observables:
//   pl -> <hand 32> <NewLocalizedPayload uint32> <hand 64> <NewLocalizedPayload uint64>     (hex)
//   <o1;o2;..> <b1,b2,..|->
//     o_k = <r32>/<r64> for order k, r: ok | decode | target | commit | sig | ancestry | unused | other | panic | novoters
//           | verifydiff (GrandpaJustification.Verify(setID, AuthorityList), run on the identity order at uint64,
//             answered otherwise than DecodeGrandpaJustificationVerifyFinalizes)
//     `novoters -` = the weight list yields no voter set AND Verify(setID, AuthorityList) rejects with
//           "invalid authorities set" at both widths; `novoters-bad -` if Verify answers anything else
//     b_i = <verdict32><verdict64>:<first 8 bytes of the 64-bit-width signature> for precommit i of the identity order,
//           verdicts recorded by an independent crypto/ed25519 verification of the localized payload
package grandpa

import (
	stded25519 "crypto/ed25519"
	"encoding/binary"
	"encoding/hex"
	"fmt"
	"strings"
	"testing"

	client_grandpa "github.com/ChainSafe/gossamer/internal/client/consensus/grandpa"
	primitives "github.com/ChainSafe/gossamer/internal/primitives/consensus/grandpa"
	ced25519 "github.com/ChainSafe/gossamer/internal/primitives/core/ed25519"
	"github.com/ChainSafe/gossamer/internal/primitives/core/hash"
	"github.com/ChainSafe/gossamer/internal/primitives/runtime"
	"github.com/ChainSafe/gossamer/internal/primitives/runtime/generic"
	vu "github.com/ChainSafe/gossamer/internal/verifutil"
	grandpa "github.com/ChainSafe/gossamer/pkg/finality-grandpa"
	"github.com/ChainSafe/gossamer/pkg/scale"
)

var c19Pairs = map[int]ced25519.Pair{}

func c19Pair(i int) ced25519.Pair {
	if p, ok := c19Pairs[i]; ok {
		return p
	}
	var seed [32]byte
	for j := range seed {
		seed[j] = byte(29*i + j + 3)
	}
	p := ced25519.NewPairFromSeed(seed)
	c19Pairs[i] = p
	return p
}

func c19Pub(i int) ced25519.Public { return c19Pair(i).Public().(ced25519.Public) }

type c19JPc struct {
	id, blk int
	num     uint64
	kind    string
}

type c19JCase struct {
	weights               []grandpa.IDWeight[string]
	ids                   []int
	tree                  c19Tree
	headers               []int
	fblk, tblk            int
	fnum, tnum            uint64
	round, setID          uint64
	pcs                   []c19JPc
	perms                 [][]int
	salt                  uint64
}

func c19ParseJ(f []string) (c c19JCase, ok bool) {
	if len(f) != 13 && len(f) != 14 {
		return c, false
	}
	if len(f) == 14 {
		c.salt = vu.UnX(f[13])
	}
	if f[1] != "-" {
		for _, w := range strings.Split(f[1], ",") {
			p := strings.Split(w, ":")
			pub := c19Pub(int(vu.UnX(p[0])))
			c.weights = append(c.weights, grandpa.IDWeight[string]{ID: string(pub[:]), Weight: vu.UnX(p[1])})
			c.ids = append(c.ids, int(vu.UnX(p[0])))
		}
	}
	c.tree = c19Tree{base: vu.UnX(f[2]), parents: c19Ints(f[3])}
	c.headers = c19Ints(f[4])
	c.fblk, c.fnum = int(vu.UnX(f[5])), vu.UnX(f[6])
	c.tblk, c.tnum = int(vu.UnX(f[7])), vu.UnX(f[8])
	c.round, c.setID = vu.UnX(f[9]), vu.UnX(f[10])
	if f[11] != "-" {
		for _, ps := range strings.Split(f[11], ",") {
			p := strings.Split(ps, ".")
			if len(p) != 4 {
				return c, false
			}
			c.pcs = append(c.pcs, c19JPc{id: int(vu.UnX(p[0])), blk: int(vu.UnX(p[1])), num: vu.UnX(p[2]), kind: p[3]})
		}
	}
	c.perms = c19Perms(f[12], len(c.pcs))
	m := len(c.tree.parents) + 1
	for k, p := range c.tree.parents {
		if p < 0 || p > k {
			return c, false
		}
	}
	for _, b := range append(append([]int{c.fblk, c.tblk}, c.headers...), func() []int {
		var x []int
		for _, p := range c.pcs {
			x = append(x, p.blk)
		}
		return x
	}()...) {
		if b < 0 || b >= m {
			return c, false
		}
	}
	return c, true
}

// c19Headers builds the real headers of the tree at width N; returns headers and their hashes.
func c19Headers[N runtime.Number](t c19Tree, salt uint64) ([]*generic.Header[N, hash.H256, runtime.BlakeTwo256], []hash.H256) {
	m := len(t.parents) + 1
	hs := make([]*generic.Header[N, hash.H256, runtime.BlakeTwo256], m)
	hh := make([]hash.H256, m)
	for i := 0; i < m; i++ {
		parent := hash.H256(strings.Repeat("\x07", 32))
		if i > 0 {
			parent = hh[t.parents[i-1]]
		}
		tag := make([]byte, 32)
		tag[0], tag[1], tag[2], tag[3] = byte(i+1), 0xc1, byte(salt), byte(salt>>8)
		hs[i] = generic.NewHeader[N, hash.H256, runtime.BlakeTwo256](N(t.num(i)), hash.H256(string(tag)),
			hash.H256(strings.Repeat("\x00", 32)), parent, runtime.Digest{})
		hh[i] = hs[i].Hash()
	}
	return hs, hh
}

func c19SignJ[N runtime.Number](p c19JPc, target hash.H256, round, setID uint64) (sig ced25519.Signature, verdict bool) {
	pc := grandpa.Precommit[hash.H256, N]{TargetHash: target, TargetNumber: N(p.num)}
	// hand-built bytes (c19HandPayload), not the implementation's encoder: a "v" signature is accepted by the
	// implementation only if NewLocalizedPayload yields byte for byte the same message
	payload := func(pc grandpa.Precommit[hash.H256, N], round, setID uint64) []byte {
		var n N
		return c19HandPayload(binary.Size(n), 1, []byte(pc.TargetHash), uint64(pc.TargetNumber), round, setID)
	}
	pair := c19Pair(p.id)
	switch {
	case p.kind == "v":
		sig = pair.Sign(payload(pc, round, setID))
	case p.kind == "r":
		sig = pair.Sign(payload(pc, round+1, setID))
	case p.kind == "s":
		sig = pair.Sign(payload(pc, round, setID+1))
	case p.kind == "o":
		sig = pair.Sign(payload(grandpa.Precommit[hash.H256, N]{TargetHash: target, TargetNumber: N(p.num + 1)}, round, setID))
	default: // forged
		r := vu.NewRNG(uint64(len(p.kind))*131 + uint64(p.kind[len(p.kind)-1]))
		copy(sig[:], r.Bytes(64))
	}
	pub := c19Pub(p.id)
	verdict = stded25519.Verify(stded25519.PublicKey(pub[:]), payload(pc, round, setID), sig[:])
	return sig, verdict
}

// c19HandPayload: stage byte, hash, number (nw bytes LE), round (8 LE), set id (8 LE)
func c19HandPayload(nw int, stage byte, h []byte, num, round, setID uint64) []byte {
	msg := append([]byte{stage}, h...)
	var b [8]byte
	binary.LittleEndian.PutUint64(b[:], num)
	msg = append(msg, b[:nw]...)
	msg = binary.LittleEndian.AppendUint64(msg, round)
	msg = binary.LittleEndian.AppendUint64(msg, setID)
	return msg
}

func c19ImplPayload[N runtime.Number](stage uint64, h hash.H256, num, round, setID uint64) (out string) {
	defer func() {
		if r := recover(); r != nil {
			out = "panic"
		}
	}()
	var msg any
	switch stage {
	case 0:
		msg = grandpa.NewMessage(grandpa.Prevote[hash.H256, N]{TargetHash: h, TargetNumber: N(num)})
	case 1:
		msg = grandpa.NewMessage(grandpa.Precommit[hash.H256, N]{TargetHash: h, TargetNumber: N(num)})
	default:
		msg = grandpa.NewMessage(grandpa.PrimaryPropose[hash.H256, N]{TargetHash: h, TargetNumber: N(num)})
	}
	return hex.EncodeToString(primitives.NewLocalizedPayload(primitives.RoundNumber(round), primitives.SetID(setID), msg))
}

func c19RunPayload(f []string) string {
	if len(f) != 6 {
		return "err:badinput"
	}
	hb, err := hex.DecodeString(f[2])
	if err != nil || len(hb) != 32 {
		return "err:badinput"
	}
	stage, num, round, setID := vu.UnX(f[1]), vu.UnX(f[3]), vu.UnX(f[4]), vu.UnX(f[5])
	return hex.EncodeToString(c19HandPayload(4, byte(stage), hb, num&0xffffffff, round, setID)) + " " +
		c19ImplPayload[uint32](stage, hash.H256(string(hb)), num&0xffffffff, round, setID) + " " +
		hex.EncodeToString(c19HandPayload(8, byte(stage), hb, num, round, setID)) + " " +
		c19ImplPayload[uint64](stage, hash.H256(string(hb)), num, round, setID)
}

func c19ClassJ(err error) string {
	if err == nil {
		return "ok"
	}
	s := err.Error()
	switch {
	case strings.Contains(s, "error decoding justification"):
		return "decode"
	case strings.Contains(s, "invalid commit target"):
		return "target"
	case strings.Contains(s, "invalid commit in grandpa justification"):
		return "commit"
	case strings.Contains(s, "invalid signature for precommit"):
		return "sig"
	case strings.Contains(s, "invalid precommit ancestry proof"):
		return "ancestry"
	case strings.Contains(s, "unused headers"):
		return "unused"
	}
	return "other"
}

func c19AuthorityList(c c19JCase) primitives.AuthorityList {
	var al primitives.AuthorityList
	for i, w := range c.weights {
		al = append(al, primitives.AuthorityIDWeight{AuthorityID: c19Pub(c.ids[i]), AuthorityWeight: primitives.AuthorityWeight(w.Weight)})
	}
	return al
}

// c19VerifyNoVoters: no voter set; Verify(setID, AuthorityList) must reject with "invalid authorities set"
func c19VerifyNoVoters[N runtime.Number](c c19JCase) (ok bool) {
	defer func() {
		if r := recover(); r != nil {
			ok = false
		}
	}()
	gj := client_grandpa.GrandpaJustification[hash.H256, N]{Justification: primitives.GrandpaJustification[hash.H256, N]{Round: c.round}}
	err := gj.Verify(c.setID, c19AuthorityList(c))
	return err != nil && strings.Contains(err.Error(), "invalid authorities set")
}

func c19VerifyJ[N runtime.Number](c c19JCase, voters *grandpa.VoterSet[string], perm []int, viaVerify bool) (out string, bits []bool, labels []string) {
	defer func() {
		if r := recover(); r != nil {
			out = "panic"
		}
	}()
	hs, hh := c19Headers[N](c.tree, c.salt)
	var pcs []grandpa.SignedPrecommit[hash.H256, N, primitives.AuthoritySignature, primitives.AuthorityID]
	bits = make([]bool, len(c.pcs))
	labels = make([]string, len(c.pcs))
	for _, j := range perm {
		p := c.pcs[j]
		sig, verdict := c19SignJ[N](p, hh[p.blk], c.round, c.setID)
		bits[j] = verdict
		labels[j] = hex.EncodeToString(sig[:8])
		pcs = append(pcs, grandpa.SignedPrecommit[hash.H256, N, primitives.AuthoritySignature, primitives.AuthorityID]{
			Precommit: grandpa.Precommit[hash.H256, N]{TargetHash: hh[p.blk], TargetNumber: N(p.num)},
			Signature: sig, ID: c19Pub(p.id)})
	}
	var anc []runtime.Header[N, hash.H256]
	for _, b := range c.headers {
		anc = append(anc, hs[b])
	}
	j := primitives.GrandpaJustification[hash.H256, N]{
		Round: c.round,
		Commit: primitives.Commit[hash.H256, N]{TargetHash: hh[c.tblk], TargetNumber: N(c.tnum), Precommits: pcs},
		VoteAncestries: anc,
	}
	enc, err := scale.Marshal(j)
	if err != nil {
		return "encode", bits, labels
	}
	_, err = client_grandpa.DecodeGrandpaJustificationVerifyFinalizes[hash.H256, N, runtime.BlakeTwo256](enc,
		client_grandpa.HashNumber[hash.H256, N]{Hash: hh[c.fblk], Number: N(c.fnum)}, c.setID, *voters)
	out = c19ClassJ(err)
	if viaVerify {
		// the other entry point: Verify(setID, AuthorityList) builds the voter set itself and does not look at a
		// finalized target, so it must answer as the decode path does for fblk/fnum = the commit target
		gj := client_grandpa.GrandpaJustification[hash.H256, N]{Justification: j}
		v := c19ClassJ(gj.Verify(c.setID, c19AuthorityList(c)))
		if out != "target" && v != out {
			out = "verifydiff"
		}
	}
	return out, bits, labels
}

func c19RunJ(in string) string {
	f := strings.Split(in, " ")
	if f[0] == "pl" {
		return c19RunPayload(f)
	}
	if f[0] != "vj" {
		return "err:badinput"
	}
	c, ok := c19ParseJ(f)
	if !ok {
		return "err:badinput"
	}
	voters := grandpa.NewVoterSet(c.weights)
	if voters == nil {
		if c19VerifyNoVoters[uint32](c) && c19VerifyNoVoters[uint64](c) {
			return "novoters -"
		}
		return "novoters-bad -"
	}
	var outs []string
	var b32, b64 []bool
	var labels []string
	for k, perm := range c.perms {
		o32, x32, _ := c19VerifyJ[uint32](c, voters, perm, false)
		o64, x64, l64 := c19VerifyJ[uint64](c, voters, perm, k == 0)
		if k == 0 {
			b32, b64, labels = x32, x64, l64
		}
		outs = append(outs, o32+"/"+o64)
	}
	bs := "-"
	if len(c.pcs) > 0 && len(b32) == len(c.pcs) && len(b64) == len(c.pcs) {
		items := make([]string, len(c.pcs))
		for i := range c.pcs {
			v := map[bool]string{false: "0", true: "1"}
			items[i] = v[b32[i]] + v[b64[i]] + ":" + labels[i]
		}
		bs = strings.Join(items, ",")
	}
	return strings.Join(outs, ";") + " " + bs
}

func c19GenJ(r *vu.RNG, n int, emit func(string)) {
	for i := 0; i < n; i++ {
		if i%40 == 39 { // the signed bytes: both encoders against the Coq definition
			edge := []uint64{0, 1, 0xff, 0x100, 0xffffffff, 0x100000000, ^uint64(0)}
			pick := func() uint64 {
				if r.Chance(1, 2) {
					return edge[r.Intn(len(edge))]
				}
				return r.U64() >> uint(r.Intn(64))
			}
			emit(fmt.Sprintf("pl %s %s %s %s %s", vu.X(uint64(r.Intn(3))), hex.EncodeToString(r.Bytes(32)),
				vu.X(pick()), vu.X(pick()), vu.X(pick())))
			continue
		}
		if i%6 == 5 { // the nested-fork family, headers salted
			c := c19GenNested(r)
			pcs := c.pcString(func(int) string { return "v" })
			emit(fmt.Sprintf("vj %s %s %s %s %s %s %s %s %s %s %s %s %s", c.weights, vu.X(c.tree.base), c19Join(c.tree.parents),
				c19Join(c.headers), vu.X(uint64(c.tblk)), vu.X(c.tnum), vu.X(uint64(c.tblk)), vu.X(c.tnum),
				vu.X(uint64(1+r.Intn(3))), vu.X(uint64(r.Intn(3))), pcs, c19GenPerms(r, len(c.pcs)), vu.X(c.salt)))
			continue
		}
		c := c19GenCommit(r)
		fblk, fnum := c.tblk, c.tnum
		if r.Chance(1, 30) {
			fblk = r.Intn(len(c.tree.parents) + 1)
		}
		if r.Chance(1, 40) {
			fnum++
		}
		bad := r.Chance(1, 6)
		pcs := c.pcString(func(i int) string {
			if bad && r.Chance(1, 3) {
				return []string{"f0", "f1", "r", "s", "o"}[r.Intn(5)]
			}
			return "v"
		})
		emit(fmt.Sprintf("vj %s %s %s %s %s %s %s %s %s %s %s %s", c.weights, vu.X(c.tree.base), c19Join(c.tree.parents),
			c19Join(c.headers), vu.X(uint64(fblk)), vu.X(fnum), vu.X(uint64(c.tblk)), vu.X(c.tnum),
			vu.X(uint64(1+r.Intn(3))), vu.X(uint64(r.Intn(3))), pcs, c19GenPerms(r, len(c.pcs))))
	}
}

func TestVerifC19CG(t *testing.T) { vu.Run(t, "C19", 1500, c19GenJ, c19RunJ) }
