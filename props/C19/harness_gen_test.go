// C19 correspondence harness, shared part (generator and parsing helpers), injected into both
// pkg/finality-grandpa and internal/client/consensus/grandpa (both are `package grandpa`).
package grandpa

import (
	"fmt"
	"strings"

	vu "github.com/ChainSafe/gossamer/internal/verifutil"
)

func c19Ints(s string) []int {
	if s == "-" || s == "" {
		return nil
	}
	var out []int
	for _, f := range strings.Split(s, ",") {
		out = append(out, int(vu.UnX(f)))
	}
	return out
}

func c19Perms(s string, n int) [][]int {
	id := make([]int, n)
	for i := range id {
		id[i] = i
	}
	out := [][]int{id}
	if s == "-" || s == "" {
		return out
	}
	for _, ps := range strings.Split(s, ";") {
		p := c19Ints(ps)
		if len(p) != n {
			continue
		}
		out = append(out, p)
	}
	return out
}

// ---- generator (shared shape with part 2; see c19GenTree / c19GenCommit) --------------------

type c19Tree struct {
	base    uint64
	parents []int
}

func (t c19Tree) num(b int) uint64 {
	d := uint64(0)
	for b > 0 {
		b = t.parents[b-1]
		d++
	}
	return t.base + d
}

func (t c19Tree) isDesc(a, b int) bool { // b equal to or a descendant of a
	for {
		if a == b {
			return true
		}
		if b == 0 {
			return false
		}
		b = t.parents[b-1]
	}
}

func (t c19Tree) path(a, b int) []int { // blocks strictly above a down from b (b included), b a descendant of a
	var p []int
	for b != a && b > 0 {
		p = append(p, b)
		b = t.parents[b-1]
	}
	return p
}

func c19Join(xs []int) string {
	if len(xs) == 0 {
		return "-"
	}
	s := make([]string, len(xs))
	for i, x := range xs {
		s[i] = vu.X(uint64(x))
	}
	return strings.Join(s, ",")
}

func c19Shuffle(r *vu.RNG, n int) []int {
	p := make([]int, n)
	for i := range p {
		p[i] = i
	}
	for i := n - 1; i > 0; i-- {
		j := r.Intn(i + 1)
		p[i], p[j] = p[j], p[i]
	}
	return p
}

func c19GenPerms(r *vu.RNG, n int) string {
	if n < 2 {
		return "-"
	}
	rev := make([]int, n)
	for i := range rev {
		rev[i] = n - 1 - i
	}
	ps := []string{c19Join(rev)}
	for k := 0; k < 2; k++ {
		ps = append(ps, c19Join(c19Shuffle(r, n)))
	}
	return strings.Join(ps, ";")
}

// c19GenWeights: a voter list; returns the textual list and the summed weight per id.
func c19GenWeights(r *vu.RNG, nv int) (string, map[int]uint64) {
	sum := map[int]uint64{}
	var items []string
	mode := r.Intn(6)
	for i := 0; i < nv; i++ {
		w := uint64(1)
		switch mode {
		case 0, 1: // all ones
		case 2:
			w = uint64(1 + r.Intn(4))
		default:
			w = uint64(r.Intn(6)) // zeros too
		}
		items = append(items, fmt.Sprintf("%s:%s", vu.X(uint64(i)), vu.X(w)))
		sum[i] += w
	}
	// repeated ids (partial weights)
	if r.Chance(1, 3) && nv > 0 {
		for k := 0; k < 1+r.Intn(3); k++ {
			i := r.Intn(nv)
			w := uint64(1 + r.Intn(3))
			items = append(items, fmt.Sprintf("%s:%s", vu.X(uint64(i)), vu.X(w)))
			sum[i] += w
		}
	}
	if r.Chance(1, 2) {
		p := c19Shuffle(r, len(items))
		q := make([]string, len(items))
		for i, j := range p {
			q[i] = items[j]
		}
		items = q
	}
	if len(items) == 0 {
		return "-", sum
	}
	return strings.Join(items, ","), sum
}

// c19GenCommit generates the shared part of a vc / vj case:
// weights, tree, headers, target, precommits (id, blk, num); sig labels are left to the caller.
type c19Commit struct {
	weights          string
	tree             c19Tree
	headers          []int
	tblk             int
	tnum             uint64
	pcs              [][3]uint64 // id, blk, num
	nv               int
	labels           []int  // nested family only: hash label of every block (a permutation); nil otherwise
	salt             uint64 // nested family only: mixed into the real headers, so that real hashes sort differently
}

func c19GenCommit(r *vu.RNG) c19Commit {
	var c c19Commit
	c.nv = 1 + r.Intn(7)
	var sum map[int]uint64
	c.weights, sum = c19GenWeights(r, c.nv)
	total := uint64(0)
	for _, w := range sum {
		total += w
	}
	// tree
	switch r.Intn(4) {
	case 0:
		c.tree.base = 0
	case 1:
		c.tree.base = uint64(1 + r.Intn(5))
	case 2:
		c.tree.base = 0xfffffff0 - uint64(r.Intn(8)) // close to the top of uint32, never past it
	default:
		c.tree.base = uint64(r.Intn(1000))
	}
	m := 1 + r.Intn(8)
	for i := 1; i < m; i++ {
		if r.Chance(2, 3) {
			c.tree.parents = append(c.tree.parents, i-1)
		} else {
			c.tree.parents = append(c.tree.parents, r.Intn(i))
		}
	}
	if c.tree.base >= 0xffffff00 && r.Chance(1, 2) {
		// the deepest block of the tree is numbered exactly 2^32 - 1: base + depth reaches the top of uint32
		deepest := uint64(0)
		for blk := 0; blk < m; blk++ {
			if d := c.tree.num(blk) - c.tree.base; d > deepest {
				deepest = d
			}
		}
		c.tree.base = 0xffffffff - deepest
	}
	c.tblk = r.Intn(m)
	c.tnum = c.tree.num(c.tblk)
	if r.Chance(1, 30) {
		c.tnum++
	}
	// votes: mostly on the target and its descendants, so that the target can be the GHOST
	var on, all []int
	for b := 0; b < m; b++ {
		all = append(all, b)
		if c.tree.isDesc(c.tblk, b) {
			on = append(on, b)
		}
	}
	threshold := uint64(0)
	if total > 0 {
		threshold = total - (total-1)/3
	}
	// aim the weight on the target at threshold-1 / threshold / above
	aim := []uint64{threshold, threshold, threshold + 1, total, threshold - 1, uint64(r.Intn(int(total) + 1))}[r.Intn(6)]
	order := c19Shuffle(r, c.nv)
	var acc uint64
	used := map[int]bool{}
	for _, v := range order {
		if acc >= aim {
			break
		}
		if sum[v] == 0 && r.Chance(1, 2) {
			continue
		}
		b := on[r.Intn(len(on))]
		if r.Chance(1, 2) {
			b = c.tblk
		}
		c.pcs = append(c.pcs, [3]uint64{uint64(v), uint64(b), c.tree.num(b)})
		used[v] = true
		acc += sum[v]
	}
	// noise
	noise := r.Intn(4)
	if r.Chance(1, 3) {
		noise = 0
	}
	for k := 0; k < noise; k++ {
		switch r.Intn(7) {
		case 6: // a non-member anywhere in the tree (beside the lowest precommit: its route cannot be proved)
			b := all[r.Intn(len(all))]
			c.pcs = append(c.pcs, [3]uint64{uint64(c.nv + r.Intn(2)), uint64(b), c.tree.num(b)})
		case 0: // a vote below / beside the target
			b := all[r.Intn(len(all))]
			c.pcs = append(c.pcs, [3]uint64{uint64(r.Intn(c.nv)), uint64(b), c.tree.num(b)})
		case 1: // duplicate
			if len(c.pcs) > 0 {
				c.pcs = append(c.pcs, c.pcs[r.Intn(len(c.pcs))])
			}
		case 2: // equivocation of a voter that voted
			if len(c.pcs) > 0 {
				p := c.pcs[r.Intn(len(c.pcs))]
				b := all[r.Intn(len(all))]
				c.pcs = append(c.pcs, [3]uint64{p[0], uint64(b), c.tree.num(b)})
			}
		case 3: // non-member
			b := on[r.Intn(len(on))]
			c.pcs = append(c.pcs, [3]uint64{uint64(c.nv + r.Intn(2)), uint64(b), c.tree.num(b)})
		case 4: // a voter not used yet, somewhere
			b := all[r.Intn(len(all))]
			c.pcs = append(c.pcs, [3]uint64{uint64(r.Intn(c.nv)), uint64(b), c.tree.num(b)})
		default: // a vote on a descendant of the target by anybody
			b := on[r.Intn(len(on))]
			c.pcs = append(c.pcs, [3]uint64{uint64(r.Intn(c.nv)), uint64(b), c.tree.num(b)})
		}
	}
	if len(c.pcs) > 12 {
		c.pcs = c.pcs[:12]
	}
	if r.Chance(1, 2) {
		p := c19Shuffle(r, len(c.pcs))
		q := make([][3]uint64, len(c.pcs))
		for i, j := range p {
			q[i] = c.pcs[j]
		}
		c.pcs = q
	}
	// headers: exactly the blocks on the routes from the precommit targets down to (excluding) the
	// lowest precommit; sometimes one missing, one extra, or all blocks
	lowest := -1
	for _, p := range c.pcs {
		if lowest < 0 || p[2] < c.tree.num(lowest) {
			lowest = int(p[1])
		}
	}
	seen := map[int]bool{}
	if lowest >= 0 {
		for _, p := range c.pcs {
			if c.tree.isDesc(lowest, int(p[1])) {
				for _, b := range c.tree.path(lowest, int(p[1])) {
					if !seen[b] {
						seen[b] = true
						c.headers = append(c.headers, b)
					}
				}
			}
		}
	}
	switch r.Intn(12) {
	case 0:
		if len(c.headers) > 0 { // missing
			k := r.Intn(len(c.headers))
			c.headers = append(c.headers[:k:k], c.headers[k+1:]...)
		}
	case 1: // extra
		c.headers = append(c.headers, all[r.Intn(len(all))])
	case 2: // everything
		c.headers = append([]int{}, all...)
	case 3: // the base's own header too
		if lowest >= 0 {
			c.headers = append(c.headers, lowest)
		}
	}
	return c
}

func (c c19Commit) pcString(sig func(i int) string) string {
	if len(c.pcs) == 0 {
		return "-"
	}
	s := make([]string, len(c.pcs))
	for i, p := range c.pcs {
		s[i] = fmt.Sprintf("%s.%s.%s.%s", vu.X(p[0]), vu.X(p[1]), vu.X(p[2]), sig(i))
	}
	return strings.Join(s, ",")
}


// c19GenNested: nested fork points below the precommit GHOST (the class of seeded/C19-m2, a defect
// of the vote graph's merge-point search that a linear chain or a single level of forks never meets).
//
//	0 -- .. -- B -- .. -- P1 -- .. -- X1
//	 \          \          \--- .. -- X2 (-- X3)
//	  \          \--- .. -- P2 (-- Y)
//	   \-- .. -- Z1      (\-- .. -- Z2)
//
// Votes only on the deep blocks X*, Y (one heavy voter), the side forks Z* and the base 0 (the
// lowest precommit = the round base); never on the fork points B, P1. The GHOST is then a fork
// point found by the merge-point search (B when the heavy voter weighs enough, else 0). Voter ids
// are relabelled, hash labels permuted (part 1) / headers salted (parts 2, 3) so that the side
// forks sort on both sides of B, and the listed order puts the side-fork votes first, the votes
// under P1 before the vote under P2 (the other three orders of every case are the reverse and two
// shuffles). Targets: B, P1, P2, 0 or any block. Headers: all routes, sometimes one missing.
func c19GenNested(r *vu.RNG) c19Commit {
	var c c19Commit
	add := func(p int) int { c.tree.parents = append(c.tree.parents, p); return len(c.tree.parents) }
	chain := func(from, n int) int {
		for i := 0; i < n; i++ {
			from = add(from)
		}
		return from
	}
	switch r.Intn(3) {
	case 0:
		c.tree.base = uint64(r.Intn(3))
	case 1:
		c.tree.base = 0xfffffff0 - uint64(r.Intn(8))
	default:
		c.tree.base = uint64(r.Intn(1000))
	}
	b := chain(0, 1+r.Intn(2))
	p1 := chain(b, 1+r.Intn(2))
	xs := []int{chain(p1, 1+r.Intn(2)), chain(p1, 1+r.Intn(2))}
	if r.Chance(1, 3) {
		xs = append(xs, chain(p1, 1))
	}
	p2 := chain(b, 1+r.Intn(2))
	y := p2
	if r.Chance(1, 2) {
		y = chain(p2, 1)
	}
	var sides []int
	for i, ns := 0, 1+r.Intn(2); i < ns; i++ {
		sides = append(sides, chain(chain(0, 1), r.Intn(2)))
	}
	m := len(c.tree.parents) + 1
	if c.tree.base >= 0xffffff00 && r.Chance(1, 2) { // deepest block numbered exactly 2^32 - 1
		deepest := uint64(0)
		for blk := 0; blk < m; blk++ {
			if d := c.tree.num(blk) - c.tree.base; d > deepest {
				deepest = d
			}
		}
		c.tree.base = 0xffffffff - deepest
	}
	type vt struct {
		w   uint64
		blk int
	}
	var votes []vt
	for _, z := range sides {
		votes = append(votes, vt{1, z})
	}
	votes = append(votes, vt{1, 0})
	for _, x := range xs {
		votes = append(votes, vt{1, x})
	}
	heavy := uint64(len(xs) + r.Intn(2))
	if r.Chance(2, 3) {
		heavy = uint64(len(xs) + 1)
	}
	votes = append(votes, vt{heavy, y})
	c.nv = len(votes)
	// relabel the voters: vote i is cast by voter perm[i]; the weight list is shuffled as well
	perm := c19Shuffle(r, c.nv)
	items := make([]string, c.nv)
	for i, v := range votes {
		items[perm[i]] = fmt.Sprintf("%s:%s", vu.X(uint64(perm[i])), vu.X(v.w))
	}
	if r.Chance(1, 2) {
		q := c19Shuffle(r, c.nv)
		it2 := make([]string, c.nv)
		for i, j := range q {
			it2[i] = items[j]
		}
		items = it2
	}
	c.weights = strings.Join(items, ",")
	for i, v := range votes {
		c.pcs = append(c.pcs, [3]uint64{uint64(perm[i]), uint64(v.blk), c.tree.num(v.blk)})
	}
	if r.Chance(1, 3) { // the base vote somewhere else in the list
		k := len(sides)
		j := r.Intn(len(c.pcs))
		c.pcs[k], c.pcs[j] = c.pcs[j], c.pcs[k]
	}
	if r.Chance(1, 6) { // a non-member / a duplicate on top
		if r.Chance(1, 2) {
			c.pcs = append(c.pcs, [3]uint64{uint64(c.nv + 1), uint64(y), c.tree.num(y)})
		} else {
			c.pcs = append(c.pcs, c.pcs[r.Intn(len(c.pcs))])
		}
	}
	switch r.Intn(8) {
	case 0, 1, 2, 3:
		c.tblk = b
	case 4:
		c.tblk = p1
	case 5:
		c.tblk = p2
	case 6:
		c.tblk = 0
	default:
		c.tblk = r.Intn(m)
	}
	c.tnum = c.tree.num(c.tblk)
	for blk := 1; blk < m; blk++ {
		c.headers = append(c.headers, blk)
	}
	if r.Chance(1, 2) {
		q := c19Shuffle(r, len(c.headers))
		h2 := make([]int, len(c.headers))
		for i, j := range q {
			h2[i] = c.headers[j]
		}
		c.headers = h2
	}
	if r.Chance(1, 12) {
		k := r.Intn(len(c.headers))
		c.headers = append(c.headers[:k:k], c.headers[k+1:]...)
	}
	c.labels = c19Shuffle(r, m)
	c.salt = 1 + r.U64()%0xffff
	return c
}
