// C19 correspondence harness, part 3 (injected into package lib/grandpa).
//
// Service.VerifyBlockJustification (the entry point used by block import; block numbers are uint32,
// every authority has weight 1) on SCALE-encoded justifications built with real ed25519 keys, real
// header hashes and real (or deliberately wrong) signatures, in the given precommit order and in
// every listed permutation.
//
// input (fields separated by one space, all numbers hex):
//   vb <auths|-> <base> <parents|-> <headers|-> <fblk> <fnum> <tblk> <tnum> <round> <setid> <precommits|-> <perms|-> [<salt>]
//     auths       key indices of the authority list returned by GrandpaState.GetAuthorities, in this
//                 order (a repeated index is a repeated authority: its weight is summed)
//     the other fields are those of the `vj` cases of part 2 (harness_cg_test.go)
// observables:
//   <o1;o2;..> <b1,b2,..|->     o_k: ok | decode | target | commit | sig | ancestry | unused | noauth | other | panic
//     noauth = the authority list yields no voter set (empty list): "invalid authority set"
//     fnum may exceed 2^32 (the argument is a uint; the justification's numbers are uint32)
//     b_i = <verdict>:<first 8 bytes of the signature> for precommit i of the identity order
package grandpa

import (
	stded25519 "crypto/ed25519"
	"encoding/binary"
	"encoding/hex"
	"fmt"
	"strings"
	"testing"

	"github.com/ChainSafe/gossamer/dot/types"
	primitives "github.com/ChainSafe/gossamer/internal/primitives/consensus/grandpa"
	ced25519 "github.com/ChainSafe/gossamer/internal/primitives/core/ed25519"
	"github.com/ChainSafe/gossamer/internal/primitives/core/hash"
	"github.com/ChainSafe/gossamer/internal/primitives/runtime"
	"github.com/ChainSafe/gossamer/internal/primitives/runtime/generic"
	vu "github.com/ChainSafe/gossamer/internal/verifutil"
	"github.com/ChainSafe/gossamer/lib/common"
	"github.com/ChainSafe/gossamer/lib/crypto/ed25519"
	finality_grandpa "github.com/ChainSafe/gossamer/pkg/finality-grandpa"
	"github.com/ChainSafe/gossamer/pkg/scale"
)

var c19LPairs = map[int]ced25519.Pair{}

func c19LPair(i int) ced25519.Pair {
	if p, ok := c19LPairs[i]; ok {
		return p
	}
	var seed [32]byte
	for j := range seed {
		seed[j] = byte(29*i + j + 3)
	}
	p := ced25519.NewPairFromSeed(seed)
	c19LPairs[i] = p
	return p
}

func c19LPub(i int) ced25519.Public { return c19LPair(i).Public().(ced25519.Public) }

type c19LPc struct {
	id, blk int
	num     uint64
	kind    string
}

type c19LState struct {
	GrandpaState
	setID uint64
	auths []types.GrandpaVoter
}

func (s *c19LState) GetSetIDByBlockNumber(_ uint) (uint64, error) { return s.setID, nil }
func (s *c19LState) GetAuthorities(_ uint64) ([]types.GrandpaVoter, error) {
	return s.auths, nil
}

func c19LClass(err error) string {
	if err == nil {
		return "ok"
	}
	s := err.Error()
	switch {
	case strings.Contains(s, "error decoding justification"):
		return "decode"
	case strings.Contains(s, "invalid commit target"):
		return "target"
	case strings.Contains(s, "invalid commit in grandpa justification"):
		return "commit"
	case strings.Contains(s, "invalid signature for precommit"):
		return "sig"
	case strings.Contains(s, "invalid precommit ancestry proof"):
		return "ancestry"
	case strings.Contains(s, "unused headers"):
		return "unused"
	case strings.Contains(s, "invalid authority set"):
		return "noauth"
	case strings.Contains(s, "does not fit"):
		return "target"
	}
	return "other"
}

func c19LRun(in string) string {
	f := strings.Split(in, " ")
	if f[0] != "vb" || (len(f) != 13 && len(f) != 14) {
		return "err:badinput"
	}
	salt := uint64(0)
	if len(f) == 14 {
		salt = vu.UnX(f[13])
	}
	tree := c19Tree{base: vu.UnX(f[2]), parents: c19Ints(f[3])}
	m := len(tree.parents) + 1
	for k, p := range tree.parents {
		if p < 0 || p > k {
			return "err:badinput"
		}
	}
	headers := c19Ints(f[4])
	fblk, fnum := int(vu.UnX(f[5])), vu.UnX(f[6])
	tblk, tnum := int(vu.UnX(f[7])), vu.UnX(f[8])
	round, setID := vu.UnX(f[9]), vu.UnX(f[10])
	var pcs []c19LPc
	if f[11] != "-" {
		for _, ps := range strings.Split(f[11], ",") {
			p := strings.Split(ps, ".")
			if len(p) != 4 {
				return "err:badinput"
			}
			pcs = append(pcs, c19LPc{id: int(vu.UnX(p[0])), blk: int(vu.UnX(p[1])), num: vu.UnX(p[2]), kind: p[3]})
		}
	}
	for _, b := range append([]int{fblk, tblk}, headers...) {
		if b < 0 || b >= m {
			return "err:badinput"
		}
	}
	for _, p := range pcs {
		if p.blk < 0 || p.blk >= m {
			return "err:badinput"
		}
	}
	state := &c19LState{setID: setID}
	for i, a := range c19Ints(f[1]) {
		pub := c19LPub(a)
		pk, err := ed25519.NewPublicKey(pub[:])
		if err != nil {
			return "err:key"
		}
		state.auths = append(state.auths, types.GrandpaVoter{Key: *pk, ID: uint64(i)})
	}
	// real headers of the tree
	hs := make([]*generic.Header[uint32, hash.H256, runtime.BlakeTwo256], m)
	hh := make([]hash.H256, m)
	for i := 0; i < m; i++ {
		parent := hash.H256(strings.Repeat("\x07", 32))
		if i > 0 {
			parent = hh[tree.parents[i-1]]
		}
		tag := make([]byte, 32)
		tag[0], tag[1], tag[2], tag[3] = byte(i+1), 0xc1, byte(salt), byte(salt>>8)
		hs[i] = generic.NewHeader[uint32, hash.H256, runtime.BlakeTwo256](uint32(tree.num(i)), hash.H256(string(tag)),
			hash.H256(strings.Repeat("\x00", 32)), parent, runtime.Digest{})
		hh[i] = hs[i].Hash()
	}
	// hand-built bytes, not the implementation's encoder: precommit stage 1, hash, number (4 LE), round, set id (8 LE)
	payload := func(target hash.H256, num uint64, round, setID uint64) []byte {
		msg := append([]byte{1}, []byte(target)...)
		msg = binary.LittleEndian.AppendUint32(msg, uint32(num))
		msg = binary.LittleEndian.AppendUint64(msg, round)
		msg = binary.LittleEndian.AppendUint64(msg, setID)
		return msg
	}
	sigs := make([]ced25519.Signature, len(pcs))
	bits := make([]string, len(pcs))
	for i, p := range pcs {
		pair := c19LPair(p.id)
		switch p.kind {
		case "v":
			sigs[i] = pair.Sign(payload(hh[p.blk], p.num, round, setID))
		case "r":
			sigs[i] = pair.Sign(payload(hh[p.blk], p.num, round+1, setID))
		case "s":
			sigs[i] = pair.Sign(payload(hh[p.blk], p.num, round, setID+1))
		case "o":
			sigs[i] = pair.Sign(payload(hh[p.blk], p.num+1, round, setID))
		default:
			r := vu.NewRNG(uint64(len(p.kind))*131 + uint64(p.kind[len(p.kind)-1]))
			copy(sigs[i][:], r.Bytes(64))
		}
		pub := c19LPub(p.id)
		v := "0"
		if stded25519.Verify(stded25519.PublicKey(pub[:]), payload(hh[p.blk], p.num, round, setID), sigs[i][:]) {
			v = "1"
		}
		bits[i] = v + ":" + hex.EncodeToString(sigs[i][:8])
	}
	svc := &Service{grandpaState: state}
	var outs []string
	for _, perm := range c19Perms(f[12], len(pcs)) {
		out := func() (out string) {
			defer func() {
				if r := recover(); r != nil {
					out = "panic"
				}
			}()
			var spcs []finality_grandpa.SignedPrecommit[hash.H256, uint32, primitives.AuthoritySignature, primitives.AuthorityID]
			for _, j := range perm {
				p := pcs[j]
				spcs = append(spcs, finality_grandpa.SignedPrecommit[hash.H256, uint32, primitives.AuthoritySignature, primitives.AuthorityID]{
					Precommit: finality_grandpa.Precommit[hash.H256, uint32]{TargetHash: hh[p.blk], TargetNumber: uint32(p.num)},
					Signature: sigs[j], ID: c19LPub(p.id)})
			}
			var anc []runtime.Header[uint32, hash.H256]
			for _, b := range headers {
				anc = append(anc, hs[b])
			}
			j := primitives.GrandpaJustification[hash.H256, uint32]{
				Round:          round,
				Commit:         primitives.Commit[hash.H256, uint32]{TargetHash: hh[tblk], TargetNumber: uint32(tnum), Precommits: spcs},
				VoteAncestries: anc,
			}
			enc, err := scale.Marshal(j)
			if err != nil {
				return "encode"
			}
			gotRound, gotSet, err := svc.VerifyBlockJustification(common.NewHash(hh[fblk].Bytes()), uint(fnum), enc)
			if err == nil && (gotRound != round || gotSet != setID) {
				return "other"
			}
			return c19LClass(err)
		}()
		outs = append(outs, out)
	}
	bs := "-"
	if len(bits) > 0 {
		bs = strings.Join(bits, ",")
	}
	return strings.Join(outs, ";") + " " + bs
}

func c19LGen(r *vu.RNG, n int, emit func(string)) {
	for i := 0; i < n; i++ {
		if i%6 == 5 { // the nested-fork family: the heavy voter is an authority listed several times
			c := c19GenNested(r)
			var auths []int
			for _, iw := range strings.Split(c.weights, ",") {
				p := strings.Split(iw, ":")
				for k := uint64(0); k < vu.UnX(p[1]); k++ {
					auths = append(auths, int(vu.UnX(p[0])))
				}
			}
			q := c19Shuffle(r, len(auths))
			a2 := make([]int, len(auths))
			for k, j := range q {
				a2[k] = auths[j]
			}
			pcs := c.pcString(func(int) string { return "v" })
			emit(fmt.Sprintf("vb %s %s %s %s %s %s %s %s %s %s %s %s %s", c19Join(a2), vu.X(c.tree.base), c19Join(c.tree.parents),
				c19Join(c.headers), vu.X(uint64(c.tblk)), vu.X(c.tnum), vu.X(uint64(c.tblk)), vu.X(c.tnum),
				vu.X(uint64(1+r.Intn(3))), vu.X(uint64(r.Intn(3))), pcs, c19GenPerms(r, len(c.pcs)), vu.X(c.salt)))
			continue
		}
		c := c19GenCommit(r)
		// the authority list: every voter once, in a random order, sometimes one of them repeated
		auths := c19Shuffle(r, c.nv)
		if r.Chance(1, 4) && c.nv > 0 {
			auths = append(auths, r.Intn(c.nv))
		}
		if r.Chance(1, 25) { // an authority set without authorities: no voter set, every justification is rejected
			auths = nil
		}
		fblk, fnum := c.tblk, c.tnum
		if r.Chance(1, 30) {
			fblk = r.Intn(len(c.tree.parents) + 1)
		}
		if r.Chance(1, 40) {
			fnum++
		}
		if r.Chance(1, 30) { // a finalized number that only agrees with the commit target modulo 2^32
			fnum += 1 << 32
		}
		bad := r.Chance(1, 6)
		pcs := c.pcString(func(i int) string {
			if bad && r.Chance(1, 3) {
				return []string{"f0", "f1", "r", "s", "o"}[r.Intn(5)]
			}
			return "v"
		})
		emit(fmt.Sprintf("vb %s %s %s %s %s %s %s %s %s %s %s %s", c19Join(auths), vu.X(c.tree.base), c19Join(c.tree.parents),
			c19Join(c.headers), vu.X(uint64(fblk)), vu.X(fnum), vu.X(uint64(c.tblk)), vu.X(c.tnum),
			vu.X(uint64(1+r.Intn(3))), vu.X(uint64(r.Intn(3))), pcs, c19GenPerms(r, len(c.pcs))))
	}
}

func TestVerifC19LG(t *testing.T) { vu.Run(t, "C19", 800, c19LGen, c19LRun) }

// TestVerifC19CL (round 4): parts 2 and 3 in ONE run of the lib/grandpa test binary (one build and link
// instead of two): about 5/8 of the budget goes to the `vj` / `pl` cases of part 2, the rest to the `vb` cases.
func TestVerifC19CL(t *testing.T) {
	gen := func(r *vu.RNG, n int, emit func(string)) {
		nj := n * 5 / 8
		c19GenJ(r.Fork(), nj, emit)
		c19LGen(r.Fork(), n-nj, emit)
	}
	run := func(in string) string {
		if strings.HasPrefix(in, "vb ") {
			return c19LRun(in)
		}
		return c19RunJ(in)
	}
	vu.Run(t, "C19", 1500, gen, run)
}
