(* C19 driver: replays the Go traces (NewVoterSet, ValidateCommit at uint32/uint64 and in several
   precommit orders, DecodeGrandpaJustificationVerifyFinalizes) on the extracted model and evaluates
   the specification predicates of coq/C19/Model.v on the implementation's observables. *)
open Model
open Vutil

let split c s = if s = "-" || s = "" then [] else String.split_on_char c s
let ints s = List.map n_of_hex (split ',' s)
let weights s = List.map (fun f -> match String.split_on_char ':' f with
  | [i; w] -> (n_of_hex i, n_of_hex w) | _ -> fail "C19: bad weight %s" f) (split ',' s)
let perms s n =
  let id = List.init n (fun i -> i) in
  id :: List.filter (fun p -> List.length p = n)
          (List.map (fun ps -> List.map (fun x -> int_of_n (n_of_hex x)) (split ',' ps)) (split ';' s))
let permute l p = let a = Array.of_list l in List.map (fun j -> a.(j)) p

let vs_str = function
  | None -> "nil"
  | Some v ->
    let items = List.mapi (fun i (id, w) -> Printf.sprintf "%s:%s:%x" (hex_of_n id) (hex_of_n w) i) v.vs_voters in
    Printf.sprintf "%s/%s/%s" (hex_of_n v.vs_total) (hex_of_n v.vs_threshold) (String.concat "," items)

let parse_vs s =
  if s = "nil" then Some None else
  match String.split_on_char '/' s with
  | [t; th; items] ->
    let vl = List.map (fun it -> match String.split_on_char ':' it with
      | [i; w; _] -> (n_of_hex i, n_of_hex w) | _ -> fail "C19: bad voter %s" it) (split ',' items) in
    let pos_ok = List.for_all (fun x -> x) (List.mapi (fun i it -> match String.split_on_char ':' it with
      | [_; _; p] -> int_of_n (n_of_hex p) = i | _ -> false) (split ',' items)) in
    if pos_ok then Some (Some { vs_voters = vl; vs_total = n_of_hex t; vs_threshold = n_of_hex th }) else None
  | _ -> None

let vr_str = function
  | VAmbiguous -> "ambiguous"
  | VOk r -> Printf.sprintf "%d:%s:%s:%s:%s" (if r.r_valid then 1 else 0) (hex_of_n r.r_num) (hex_of_n r.r_dup)
               (hex_of_n r.r_eqv) (hex_of_n r.r_inv)
let valid_of s = if String.length s > 1 && s.[1] = ':' then Some (s.[0] = '1') else None

let jo_str = function
  | JOk -> "ok" | JAmbiguous -> "ambiguous"
  | JErr JTarget -> "target" | JErr JCommit -> "commit" | JErr JSig -> "sig"
  | JErr JAncestry -> "ancestry" | JErr JUnused -> "unused"

let uniq l = List.sort_uniq compare l

let just_case tg ws base parents headers fblk fnum tblk tnum pcs ps obs =

    let base = n_of_hex base and parents = ints parents in
    let hs = List.map (fun b -> tree_hdr base parents b) (ints headers) in
    let fhash = n_of_hex fblk and fnum = n_of_hex fnum in
    let thash = n_of_hex tblk and tnum = n_of_hex tnum in
    let raw = List.map (fun s -> match String.split_on_char '.' s with
      | [i; b; nm; k] -> (n_of_hex i, n_of_hex b, n_of_hex nm, k)
      | _ -> fail "C19: bad precommit %s" s) (split ',' pcs) in
    let orders = perms ps (List.length raw) in
    let (oo, bits) = (match split_ws obs with [a; b] -> (a, b) | _ -> ("?", "-")) in
    if oo = "novoters" then
      let m = new_voter_set ws in
      { prop_ok = true; model_eq = (m = None); nontrivial = false; finding = "-"; tags = "" ^ tg ^ ",vj-novoters";
        detail = if m = None then "" else "model has a voter set" }
    else begin
      let outs = String.split_on_char ';' oo in
      let bl = List.map (fun b -> match String.split_on_char ':' b with
        | [v; l] when String.length v = 2 -> (v.[0] = '1', v.[1] = '1', n_of_hex l)
        | _ -> fail "C19: bad bits %s" b) (split ',' bits) in
      match new_voter_set ws with
      | None -> { prop_ok = true; model_eq = false; nontrivial = false; finding = "-"; tags = "" ^ tg ^ ",vj-novoters-model";
                  detail = "the model has no voter set for these weights" }
      | Some vs ->
        if List.length outs <> List.length orders || List.length bl <> List.length raw then
          { prop_ok = true; model_eq = false; nontrivial = false; finding = "-"; tags = "" ^ tg ^ ",bad-observation"; detail = obs }
        else begin
          let mk w = List.map2 (fun (i, b, nm, _) (o32, o64, l) ->
            { p_hash = b; p_num = nm; p_id = i; p_sig = l; p_ok = (if w = 32 then o32 else o64) }) raw bl in
          let pcs32 = mk 32 and pcs64 = mk 64 in
          let sig_sane = List.for_all2 (fun (_, _, _, k) (o32, o64, _) -> o32 = (k = "v") && o64 = (k = "v")) raw bl in
          let excess = excess_equivocation vs pcs64 in
          let spec32 = justification_valid_spec vs hs fhash fnum thash tnum pcs32 in
          let spec64 = justification_valid_spec vs hs fhash fnum thash tnum pcs64 in
          let per = List.map2 (fun p o ->
            let (r32, r64) = (match String.split_on_char '/' o with [a; b] -> (a, b) | _ -> ("?", "?")) in
            let m32 = jo_str (verify_finalizes_w (n_of_int 32) vs hs fhash fnum thash tnum (permute pcs32 p)) in
            let m64 = jo_str (verify_finalizes_w (n_of_int 64) vs hs fhash fnum thash tnum (permute pcs64 p)) in
            (r32, r64, m32, m64)) orders outs in
          let width_free = List.for_all (fun (a, b, _, _) -> (a = "ok") = (b = "ok")) per in
          let accepts = uniq (List.concat_map (fun (a, b, _, _) -> [a = "ok"; b = "ok"]) per) in
          let order_free = (List.length accepts = 1) in
          let spec_ok = List.for_all (fun (a, b, _, _) -> (a = "ok") = spec32 && (b = "ok") = spec64) per in
          let eq = sig_sane && List.for_all (fun (a, b, m32, m64) ->
            (m32 = "ambiguous" || a = m32) && (m64 = "ambiguous" || b = m64)) per in
          let prop = width_free && order_free && (excess || spec_ok) in
          let finding = if (not prop) && excess && width_free then "commit-order-dependent-under-excess-equivocation" else "-" in
          let (r0, _, m0, _) = List.hd per in
          let ms = members vs pcs64 in
          { prop_ok = prop; model_eq = eq || excess; nontrivial = ms <> []; finding;
            tags = String.concat "," ([tg; tg ^ "-" ^ m0; (if spec64 then tg ^ "-valid" else tg ^ "-invalid")]
              @ (if excess then [tg ^ "-excess-equivocation"] else [])
              @ (if List.exists (fun (_, _, _, k) -> k <> "v") raw then [tg ^ "-bad-signature"] else [])
              @ (if List.length ms < List.length raw then [tg ^ "-non-member"] else [])
              @ (if List.length (uniq (List.map fst ws)) < List.length ws then [tg ^ "-repeated-voter-id"] else [])
              @ (if sig_sane then [] else ["verdict-unexpected"]));
            detail = (if prop && eq then "" else
              Printf.sprintf "impl=%s model=%s spec-valid=%b%s%s%s" r0 m0 spec64
                (if width_free then "" else " (uint32 and uint64 verdicts differ)")
                (if order_free then "" else " (verdict depends on the precommit order)")
                (if excess then " (equivocating weight exceeds total-threshold)" else "")) }
        end
    end

let rec take k l = if k <= 0 then [] else match l with [] -> [] | x :: r -> x :: take (k - 1) r

let check_fields f inp obs =
  match f with
  | ["vs"; ws; ps] ->
    let ws = weights ws in
    let orders = perms ps (List.length ws) in
    let outs = String.split_on_char ';' obs in
    if List.length outs <> List.length orders then
      { prop_ok = true; model_eq = false; nontrivial = false; finding = "-"; tags = "vs,bad-observation"; detail = obs }
    else begin
      let res = List.map2 (fun p o ->
        let w = permute ws p in
        let m = vs_str (new_voter_set w) in
        let pre = vs_str (new_voter_set_prefix w) in
        let spec = (match parse_vs o with Some v -> voter_set_spec w v | None -> false) in
        (m = o, spec, pre = o && m <> o, m)) orders outs in
      let eq = List.for_all (fun (e, _, _, _) -> e) res in
      let spec = List.for_all (fun (_, s, _, _) -> s) res in
      let order_free = (List.length (uniq outs) = 1) in
      let prop = spec && order_free in
      let dup = List.length (uniq (List.map fst ws)) < List.length ws in
      let isnil = (List.hd outs = "nil") in
      { prop_ok = prop; model_eq = eq; nontrivial = ws <> []; finding = "-";
        tags = String.concat "," (["vs"] @ (if dup then ["vs-repeated-id"] else []) @ (if isnil then ["vs-nil"] else ["vs-some"])
                                  @ (if List.exists (fun (_, w) -> w = N0) ws then ["vs-zero-weight"] else []));
        detail = (if prop && eq then "" else
          Printf.sprintf "model=%s%s%s" (let (_, _, _, m) = List.hd res in m)
            (if order_free then "" else " (result depends on the order of the weights)")
            (if List.exists (fun (_, _, p, _) -> p) res then " (implementation behaves as the pre-fix code: a repeated id's weight is overwritten)" else "")) }
    end
  | ["vc"; ws; base; parents; headers; tblk; tnum; pcs; ps] ->
    let ws = weights ws in
    let base = n_of_hex base and parents = ints parents in
    let hs = List.map (fun b -> tree_hdr base parents b) (ints headers) in
    let thash = n_of_hex tblk and tnum = n_of_hex tnum in
    let pcs = List.map (fun s -> match String.split_on_char '.' s with
      | [i; b; nm; sg] -> { p_hash = n_of_hex b; p_num = n_of_hex nm; p_id = n_of_hex i; p_sig = n_of_hex sg; p_ok = true }
      | _ -> fail "C19: bad precommit %s" s) (split ',' pcs) in
    let orders = perms ps (List.length pcs) in
    if obs = "novoters" then
      let m = new_voter_set ws in
      { prop_ok = true; model_eq = (m = None); nontrivial = false; finding = "-"; tags = "vc,vc-novoters";
        detail = if m = None then "" else "model has a voter set" }
    else begin
      let outs = String.split_on_char ';' obs in
      match new_voter_set ws with
      | None -> { prop_ok = true; model_eq = false; nontrivial = false; finding = "-"; tags = "vc,vc-novoters-model";
                  detail = "the model has no voter set for these weights" }
      | Some vs ->
        if List.length outs <> List.length orders then
          { prop_ok = true; model_eq = false; nontrivial = false; finding = "-"; tags = "vc,bad-observation"; detail = obs }
        else begin
          let amb = ghost_ambiguous vs hs pcs in
          let shift_free = ref true in
          let widths_agree = ref true in
          let spec = commit_valid_spec vs hs thash tnum pcs in
          let per = List.map2 (fun p o ->
            let pp = permute pcs p in
            let (r32, r64, r64s) = (match String.split_on_char '/' o with
              | [a; b] -> (a, b, b) | [a; b; c] -> (a, b, c) | _ -> ("?", "?", "?")) in
            shift_free := !shift_free && r64s = r64;
            let m = vr_str (validate_commit vs hs thash tnum pp) in
            (* the model at the two widths (GHOST number = base + depth modulo 2^w): C19_width_free says
               they are the unbounded model for numbers consistent with the tree *)
            widths_agree := !widths_agree
              && vr_str (validate_commit_w (n_of_int 32) vs hs thash tnum pp) = m
              && vr_str (validate_commit_w (n_of_int 64) vs hs thash tnum pp) = m;
            let p32 = (match validate_commit_prefix (n_of_int 32) vs hs thash tnum pp with PV o -> vr_str o | PUnmodelled -> "unmodelled") in
            let p64 = (match validate_commit_prefix (n_of_int 64) vs hs thash tnum pp with PV o -> vr_str o | PUnmodelled -> "unmodelled") in
            (r32, r64, m, p32, p64)) orders outs in
          let width_free = List.for_all (fun (a, b, _, _, _) -> a = b) per && !shift_free in
          let valids = uniq (List.concat_map (fun (a, b, _, _, _) -> [valid_of a; valid_of b]) per) in
          let order_free = (List.length valids = 1) in
          let spec_ok = List.for_all (fun (a, b, _, _, _) -> valid_of a = Some spec && valid_of b = Some spec) per in
          let eq = List.for_all (fun (a, b, m, _, _) -> m = "ambiguous" || (a = m && b = m)) per && !widths_agree in
          let prefix_like = List.for_all (fun (a, b, _, p32, p64) -> a = p32 && b = p64) per in
          let excess = excess_equivocation vs pcs in
          let prop = width_free && order_free && (excess || spec_ok) in
          let finding = if (not prop) && excess && width_free then "commit-order-dependent-under-excess-equivocation" else "-" in
          let ms = members vs pcs in
          let has_eqv = List.exists (fun id -> is_equivocator id ms) (voter_ids ms) in
          let nonmember = List.length ms < List.length pcs in
          let distinct_targets = List.length (uniq (List.map (fun p -> p.p_hash) ms)) in
          let (_, _, m0, _, _) = List.hd per in
          { prop_ok = prop; model_eq = eq || excess; nontrivial = ms <> []; finding;
            tags = String.concat "," (["vc"; (if spec then "vc-valid" else "vc-invalid")]
              @ (if amb then ["vc-ambiguous-ghost"] else [])
              @ (if excess then ["vc-excess-equivocation"] else [])
              @ (if has_eqv then ["vc-equivocation"] else [])
              @ (if nonmember then ["vc-non-member"] else [])
              @ (if distinct_targets > 1 then ["vc-several-targets"] else ["vc-one-target"])
              @ (if List.exists (fun p -> p.p_num = n_of_hex "ffffffff") pcs then ["vc-number-2^32-1"] else [])
              @ (if List.length (uniq (List.map fst ws)) < List.length ws then ["vc-repeated-voter-id"] else []));
            detail = (if prop && eq then "" else
              Printf.sprintf "model=%s spec-valid=%b%s%s%s%s" m0 spec
                (if width_free then "" else if !shift_free then " (uint32 and uint64 verdicts differ)"
                 else " (the verdict changes when 2^33 is added to every block number)")
                (if order_free then "" else " (verdict depends on the precommit order)")
                (if excess then " (equivocating weight exceeds total-threshold)" else "")
                (if prefix_like && not eq then " (implementation behaves as the pre-fix code)" else "")) }
        end
    end
  | ["vj"; ws; base; parents; headers; fblk; fnum; tblk; tnum; _round; _setid; pcs; ps] ->
    just_case "vj" (weights ws) base parents headers fblk fnum tblk tnum pcs ps obs
  | ["vb"; auths; base; parents; headers; fblk; fnum; tblk; tnum; _round; _setid; pcs; ps] ->
    (* one width (uint32), every authority weight 1: rewrite the observation into the two-width form *)
    let ws = List.map (fun a -> (a, n_of_int 1)) (ints auths) in
    let obs' = (match split_ws obs with
      | [oo; bits] ->
        let oo' = String.concat ";" (List.map (fun o -> o ^ "/" ^ o) (String.split_on_char ';' oo)) in
        let bits' = if bits = "-" then "-" else String.concat "," (List.map (fun b ->
          match String.split_on_char ':' b with [v; l] -> v ^ v ^ ":" ^ l | _ -> b) (String.split_on_char ',' bits)) in
        oo' ^ " " ^ bits'
      | _ -> obs) in
    let auths_l = ints auths in
    let big = N.compare (n_of_hex fnum) (n_of_hex "100000000") <> Lt in
    if new_voter_set ws = None || big then begin
      (* third round: no voter set (empty authority list) or a finalized number beyond 32 bits: the
         entry point must REJECT (an error), in every order; neither accept nor panic *)
      let base' = n_of_hex base and parents' = ints parents in
      let hs = List.map (fun b -> tree_hdr base' parents' b) (ints headers) in
      let raw = List.map (fun s -> match String.split_on_char '.' s with
        | [i; b; nm; _] -> (n_of_hex i, n_of_hex b, n_of_hex nm)
        | _ -> fail "C19: bad precommit %s" s) (split ',' pcs) in
      let (oo, bits) = (match split_ws obs with [a; b] -> (a, b) | _ -> ("?", "-")) in
      let bl = List.map (fun b -> match String.split_on_char ':' b with
        | [v; l] -> (v = "1", n_of_hex l) | _ -> (false, N0)) (split ',' bits) in
      let outs = String.split_on_char ';' oo in
      let orders = perms ps (List.length raw) in
      if List.length bl <> List.length raw || List.length outs <> List.length orders then
        { prop_ok = true; model_eq = false; nontrivial = false; finding = "-"; tags = "vb,bad-observation"; detail = obs }
      else begin
        let pcs0 = List.map2 (fun (i, b, nm) (ok, l) -> { p_hash = b; p_num = nm; p_id = i; p_sig = l; p_ok = ok }) raw bl in
        let bo_str = function BNoVoters -> "noauth" | BPanic -> "panic" | BOut o -> jo_str o in
        let run f p = bo_str (f auths_l hs (n_of_hex fblk) (n_of_hex fnum) (n_of_hex tblk) (n_of_hex tnum) (permute pcs0 p)) in
        let models = List.map (run verify_block_justification) orders in
        let prefixes = List.map (run verify_block_justification_prefix) orders in
        let prop = List.for_all (fun o -> o <> "ok" && o <> "panic" && o <> "?") outs in
        let eq = (models = outs) in
        { prop_ok = prop; model_eq = eq; nontrivial = true; finding = "-";
          tags = String.concat "," (["vb"; "vb-" ^ List.hd models]
                   @ (if big then ["vb-finalized-number-beyond-32-bits"] else ["vb-no-voter-set"]));
          detail = (if prop && eq then "" else
            Printf.sprintf "impl=%s model=%s%s" (List.hd outs) (List.hd models)
              (if prefixes = outs then " (implementation behaves as the pre-fix code: "
                 ^ (if big then "the finalized number is compared modulo 2^32)" else "the nil voter set is dereferenced)") else "")) }
      end
    end else
    just_case "vb" ws base parents headers fblk fnum tblk tnum pcs ps obs'
  | ["pl"; st; h; num; round; setid] ->
    (match split_ws obs with
     | [h32; i32; h64; i64] ->
       let m nw num' = hex_of_bytes (vote_payload (nat_of_int nw) (n_of_hex st) (bytes_of_hex h) num'
                                       (n_of_hex round) (n_of_hex setid)) in
       let num32 = (let s = hex_of_n (n_of_hex num) in
                    n_of_hex (if String.length s > 8 then String.sub s (String.length s - 8) 8 else s)) in
       let m32 = m 4 num32 and m64 = m 8 (n_of_hex num) in
       (* prop: the implementation's encoder yields the bytes of the Coq definition at both widths *)
       { prop_ok = (i32 = m32 && i64 = m64); model_eq = (h32 = m32 && h64 = m64); nontrivial = true; finding = "-";
         tags = "pl,pl-stage-" ^ st;
         detail = (if i32 = m32 && i64 = m64 && h32 = m32 && h64 = m64 then "" else "model32=" ^ m32 ^ " model64=" ^ m64) }
     | _ -> { prop_ok = true; model_eq = false; nontrivial = false; finding = "-"; tags = "pl,bad-observation"; detail = obs })
  | _ -> fail "C19: bad input %s" inp

(* `vg` = `vc` + the hash labels of the blocks; `vj` / `vb` may carry a header salt: neither is an
   input of the model (block hashes are labels; their order must not matter) *)
let normalise inp =
  let f = split_ws inp in
  match f with
  | "vg" :: r when List.length r = 9 -> ("vc" :: take 8 r, ["vc-nested-forks"])
  | (("vj" | "vb") as k) :: r when List.length r = 13 -> (k :: take 12 r, [k ^ "-nested-forks"])
  | _ -> (f, [])

let check inp obs =
  let (f, extra) = normalise inp in
  let v = check_fields f inp obs in
  if extra = [] then v else { v with tags = v.tags ^ "," ^ String.concat "," extra }

(* vm_compute cross-check (C19/VmCheck.v): voter sets and ValidateCommit results recomputed inside
   Coq for every listed order and compared with the implementation's observables *)
let coq_list f l = "[" ^ String.concat "; " (List.map f l) ^ "]"
let coq_bool b = if b then "true" else "false"
let coq_pair (a, b) = Printf.sprintf "(%s, %s)" (coq_n a) (coq_n b)
let coq inp obs =
  let (f, _) = normalise inp in
  match f with
  | ["vs"; ws; ps] ->
    let ws = weights ws in
    let orders = perms ps (List.length ws) in
    let outs = String.split_on_char ';' obs in
    if List.length outs <> List.length orders then None else begin
      let runs = List.map2 (fun p o -> (permute ws p, parse_vs o)) orders outs in
      if List.exists (fun (_, v) -> v = None) runs then None else
      Some ("vm_vs " ^ coq_list (fun (w, v) ->
        Printf.sprintf "(%s, %s)" (coq_list coq_pair w)
          (match v with
           | Some (Some x) -> Printf.sprintf "Some (mkVS %s %s %s)" (coq_list coq_pair x.vs_voters)
                                (coq_n x.vs_total) (coq_n x.vs_threshold)
           | _ -> "None")) runs)
    end
  | ["vc"; ws; base; parents; headers; tblk; tnum; pcs; ps] when obs <> "novoters" ->
    let raw = List.map (fun s -> match String.split_on_char '.' s with
      | [i; b; nm; sg] -> (n_of_hex i, n_of_hex b, n_of_hex nm, n_of_hex sg)
      | _ -> fail "C19: bad precommit %s" s) (split ',' pcs) in
    let orders = perms ps (List.length raw) in
    let outs = String.split_on_char ';' obs in
    let parse_r o = (match String.split_on_char '/' o with
      | _ :: r64 :: _ -> (match String.split_on_char ':' r64 with
          | [v; n; d; q; i] -> Some (v = "1", n_of_hex n, n_of_hex d, n_of_hex q, n_of_hex i)
          | _ -> None)
      | _ -> None) in
    if List.length outs <> List.length orders || List.exists (fun o -> parse_r o = None) outs then None else begin
      let pc (i, b, nm, sg) = Printf.sprintf "(mkPc %s %s %s %s true)" (coq_n b) (coq_n nm) (coq_n i) (coq_n sg) in
      let runs = List.map2 (fun p o ->
        let (v, n, d, q, i) = (match parse_r o with Some x -> x | None -> (false, N0, N0, N0, N0)) in
        Printf.sprintf "(%s, (%s, %s, %s, %s, %s))" (coq_list pc (permute raw p)) (coq_bool v) (coq_n n) (coq_n d)
          (coq_n q) (coq_n i)) orders outs in
      Some (Printf.sprintf "vm_vc %s %s %s %s %s %s [%s]" (coq_list coq_pair (weights ws)) (coq_n (n_of_hex base))
              (coq_list coq_n (ints parents)) (coq_list coq_n (ints headers)) (coq_n (n_of_hex tblk))
              (coq_n (n_of_hex tnum)) (String.concat "; " runs))
    end
  | _ -> None

let () = run_driver ~coq check
