// C19 correspondence harness, part 1 (injected into package pkg/finality-grandpa by `go test -overlay`).
//
// Runs the real NewVoterSet and the real ValidateCommit (with the real Round / vote graph under
// it) at block-number widths uint32 and uint64, in the given precommit order and in every
// permutation listed in the input.
//
// input (fields separated by one space, all numbers hex):
//   vs <weights|-> <perms|->
//   vc <weights|-> <base> <parents|-> <headers|-> <tblk> <tnum> <precommits|-> <perms|->
//   vg <weights|-> <base> <parents|-> <headers|-> <tblk> <tnum> <precommits|-> <perms|-> <labels>
//               as vc, but the hash string of block i is derived from labels[i] (a permutation of the block
//               indices): the vote graph orders its candidates by hash, the verdict must not depend on it
//     weights     id:w,id:w,...   the IDWeight list handed to NewVoterSet, in this order (repeats, zeros allowed)
//     base        number of block 0;  parents p1,p2,..: block i has parent p_i (< i); number = base + depth
//     headers     block labels whose (hash -> parent) link the chain knows (the vote-ancestry headers)
//     tblk,tnum   commit target block label and number
//     precommits  id.blk.num.sig,...  (sig is a signature label)
//     perms       permutations of the precommit (vs: weight) list, `;` separated, each i0,i1,.. ;
//                 the identity order is always run first
// observables:
//   vs -> one result per order, `;` separated:  nil | <total>/<threshold>/id:w:pos,id:w:pos,..
//   vc -> one result per order, `;` separated:  <r32>/<r64>/<r64s>, r = <valid 0|1>:<num>:<dup>:<eqv>:<invalid> | err | panic
//         r64s = the uint64 run with 2^33 added to every block number (C19_number_shift_free on the implementation)
package grandpa

import (
	"fmt"
	"strings"
	"testing"

	vu "github.com/ChainSafe/gossamer/internal/verifutil"
	"golang.org/x/exp/constraints"
)

func c19Hash(b int) string { return fmt.Sprintf("b%04x", b) }
func c19ID(i int) string   { return fmt.Sprintf("v%04x", i) }

// c19Chain is ancestryChain (internal/client/consensus/grandpa/justification.go) over string hashes.
type c19Chain[N constraints.Unsigned] struct {
	parent map[string]string
}

func (c c19Chain[N]) Ancestry(base, block string) ([]string, error) {
	route := make([]string, 0)
	cur := block
	for steps := 0; ; steps++ {
		if cur == base {
			break
		}
		p, ok := c.parent[cur]
		if !ok || steps > len(c.parent)+1 {
			return nil, fmt.Errorf("block not descendent of base")
		}
		cur = p
		route = append(route, cur)
	}
	if len(route) != 0 {
		route = route[:len(route)-1]
	}
	return route, nil
}

func (c c19Chain[N]) IsEqualOrDescendantOf(base, block string) bool {
	if base == block {
		return true
	}
	_, err := c.Ancestry(base, block)
	return err == nil
}

func c19Weights(s string) []IDWeight[string] {
	var ws []IDWeight[string]
	if s == "-" || s == "" {
		return ws
	}
	for _, f := range strings.Split(s, ",") {
		p := strings.Split(f, ":")
		ws = append(ws, IDWeight[string]{ID: c19ID(int(vu.UnX(p[0]))), Weight: vu.UnX(p[1])})
	}
	return ws
}

func c19VoterSetString(vs *VoterSet[string]) string {
	if vs == nil {
		return "nil"
	}
	var items []string
	for _, v := range vs.Iter() {
		var id uint64
		fmt.Sscanf(v.ID, "v%x", &id)
		items = append(items, fmt.Sprintf("%s:%s:%s", vu.X(id), vu.X(uint64(v.Weight())), vu.X(uint64(v.Position()))))
	}
	return fmt.Sprintf("%s/%s/%s", vu.X(uint64(vs.TotalWeight())), vu.X(uint64(vs.Threshold())), strings.Join(items, ","))
}

type c19Pc struct {
	id, blk int
	num     uint64
	sig     string
}

func c19Validate[N constraints.Unsigned](voters *VoterSet[string], parent map[string]string,
	tblk int, tnum uint64, pcs []c19Pc, c19Hash func(int) string, shift uint64) (out string) {
	defer func() {
		if r := recover(); r != nil {
			out = "panic"
		}
	}()
	commit := Commit[string, N, string, string]{TargetHash: c19Hash(tblk), TargetNumber: N(tnum + shift)}
	for _, p := range pcs {
		commit.Precommits = append(commit.Precommits, SignedPrecommit[string, N, string, string]{
			Precommit: Precommit[string, N]{TargetHash: c19Hash(p.blk), TargetNumber: N(p.num + shift)},
			Signature: p.sig, ID: c19ID(p.id)})
	}
	res, err := ValidateCommit[string, N, string, string](commit, *voters, c19Chain[N]{parent: parent})
	if err != nil {
		return "err"
	}
	v := "0"
	if res.Valid() {
		v = "1"
	}
	return fmt.Sprintf("%s:%s:%s:%s:%s", v, vu.X(uint64(res.NumPrecommits())), vu.X(uint64(res.NumDuplicatedPrecommits())),
		vu.X(uint64(res.NumEquiovcations())), vu.X(uint64(res.NumInvalidVoters())))
}

func c19Run(in string) string {
	f := strings.Split(in, " ")
	switch f[0] {
	case "vs":
		if len(f) != 3 {
			return "err:badinput"
		}
		ws := c19Weights(f[1])
		var outs []string
		for _, perm := range c19Perms(f[2], len(ws)) {
			pw := make([]IDWeight[string], len(ws))
			for i, j := range perm {
				pw[i] = ws[j]
			}
			outs = append(outs, c19VoterSetString(NewVoterSet(pw)))
		}
		return strings.Join(outs, ";")
	case "vc", "vg":
		if (f[0] == "vc" && len(f) != 9) || (f[0] == "vg" && len(f) != 10) {
			return "err:badinput"
		}
		c19Hash := c19Hash
		if f[0] == "vg" {
			labels := c19Ints(f[9])
			c19Hash = func(b int) string {
				if b >= 0 && b < len(labels) {
					return fmt.Sprintf("b%04x", labels[b])
				}
				return fmt.Sprintf("b%04x", 0x1000+b)
			}
		}
		voters := NewVoterSet(c19Weights(f[1]))
		if voters == nil {
			return "novoters"
		}
		parents := c19Ints(f[3])
		parent := map[string]string{}
		for _, h := range c19Ints(f[4]) {
			if h == 0 {
				parent[c19Hash(0)] = "genesis-parent"
			} else if h <= len(parents) {
				parent[c19Hash(h)] = c19Hash(parents[h-1])
			}
		}
		tblk, tnum := int(vu.UnX(f[5])), vu.UnX(f[6])
		var pcs []c19Pc
		if f[7] != "-" {
			for _, ps := range strings.Split(f[7], ",") {
				p := strings.Split(ps, ".")
				pcs = append(pcs, c19Pc{id: int(vu.UnX(p[0])), blk: int(vu.UnX(p[1])), num: vu.UnX(p[2]), sig: p[3]})
			}
		}
		var outs []string
		for _, perm := range c19Perms(f[8], len(pcs)) {
			pp := make([]c19Pc, len(pcs))
			for i, j := range perm {
				pp[i] = pcs[j]
			}
			outs = append(outs, c19Validate[uint32](voters, parent, tblk, tnum, pp, c19Hash, 0)+"/"+
				c19Validate[uint64](voters, parent, tblk, tnum, pp, c19Hash, 0)+"/"+
				c19Validate[uint64](voters, parent, tblk, tnum, pp, c19Hash, 1<<33))
		}
		return strings.Join(outs, ";")
	}
	return "err:badinput"
}

func c19Gen(r *vu.RNG, n int, emit func(string)) {
	for i := 0; i < n; i++ {
		if r.Chance(1, 6) {
			nv := r.Intn(6)
			ws, _ := c19GenWeights(r, nv)
			if r.Chance(1, 10) && ws != "-" { // overflow of the total
				ws += fmt.Sprintf(",%s:%s", vu.X(uint64(r.Intn(nv+1))), vu.X(^uint64(0)-uint64(r.Intn(3))))
			}
			k := 0
			if ws != "-" {
				k = len(strings.Split(ws, ","))
			}
			emit(fmt.Sprintf("vs %s %s", ws, c19GenPerms(r, k)))
			continue
		}
		if i%6 == 5 { // the nested-fork family, hash labels permuted
			c := c19GenNested(r)
			pcs := c.pcString(func(int) string { return "0" })
			emit(fmt.Sprintf("vg %s %s %s %s %s %s %s %s %s", c.weights, vu.X(c.tree.base), c19Join(c.tree.parents),
				c19Join(c.headers), vu.X(uint64(c.tblk)), vu.X(c.tnum), pcs, c19GenPerms(r, len(c.pcs)), c19Join(c.labels)))
			continue
		}
		c := c19GenCommit(r)
		// signature labels: equal for repeated (id, blk) unless a different signature is wanted
		pcs := c.pcString(func(i int) string {
			if r.Chance(1, 10) {
				return vu.X(uint64(1 + r.Intn(3)))
			}
			return "0"
		})
		emit(fmt.Sprintf("vc %s %s %s %s %s %s %s %s", c.weights, vu.X(c.tree.base), c19Join(c.tree.parents),
			c19Join(c.headers), vu.X(uint64(c.tblk)), vu.X(c.tnum), pcs, c19GenPerms(r, len(c.pcs))))
	}
}

func TestVerifC19FG(t *testing.T) { vu.Run(t, "C19", 2000, c19Gen, c19Run) }
