(* C05 driver: replays proof generation / verification on the extracted model.
   Property predicate, on the implementation's observables only:
     completeness : Generate succeeds for every requested key set; with the generated node set
                    (and with the complete node set of the state) Verify confirms (k, v) and (k, empty)
                    for every requested key k that is present with value v;
     soundness    : whatever node set is supplied, Verify = ok for (k, v) under root r implies that k
                    is present in the state with root r and (v is empty or v is its value).
   Inputs starting with "hv" come from the host-function harness (lib/runtime/wazero): every query
   went through ext_trie_blake2_256_verify_proof_version_1 (Q) or _version_2 (Q2:<ver>:...), whose
   verdict is ok (returned 1) / err (returned 0): the model is Verify after ParseVersion(uint8(ver)),
   the same completeness / soundness predicates are evaluated on the host function's verdicts.
   Known-finding guards: generate-absent-key (a requested key is absent: Generate returns
   ErrKeyNotFound), verify-empty-key (the empty key is confirmed through the root branch). *)
open Model
open Vutil

(* Blake2b-256 of the model, memoised (the extracted functions take the hash as a parameter) *)
let hash_tbl : (string, byte list) Hashtbl.t = Hashtbl.create 4096
let hash_memo (x : byte list) : byte list =
  let k = string_of_bytes x in
  match Hashtbl.find_opt hash_tbl k with
  | Some h -> h
  | None -> let h = hash256 x in Hashtbl.add hash_tbl k h; h

let bytes_of_nib (s : string) : byte list =
  (* one hex digit per nibble; a partial-key byte above 15 (a corrupted key) is written <xx> *)
  if s = "-" then [] else begin
    let out = ref [] and i = ref 0 in
    while !i < String.length s do
      if s.[!i] = '<' then begin
        out := byte_of_int (16 * hexval s.[!i + 1] + hexval s.[!i + 2]) :: !out; i := !i + 4
      end else begin
        out := byte_of_int (hexval s.[!i]) :: !out; incr i
      end
    done;
    List.rev !out
  end

type cursor = { tok : string array; mutable pos : int }
let peek c = if c.pos < Array.length c.tok then c.tok.(c.pos) else "<eof>"
let next c = let t = peek c in c.pos <- c.pos + 1; t
let expect c s = let t = next c in if t <> s then fail "C05: expected %s got %s at %d" s t c.pos

let rec parse_wnode c : wnode =
  expect c "N";
  let pk = bytes_of_nib (next c) in
  let v = (match next c with "none" -> None | h -> Some (bytes_of_hex h)) in
  let mbh = (match next c with "0" -> false | "1" -> true | _ -> fail "C05: IsHashedValue node in memory") in
  let dirty = next c = "1" in
  let nch = int_of_string ("0x" ^ next c) in
  let cs = List.init nch (fun _ -> ()) in
  let cs = List.map (fun () -> if peek c = "_" then (ignore (next c); None) else Some (parse_wnode c)) cs in
  WN (pk, v, mbh, dirty, cs)

let rec all_dirty (WN (pk, v, m, _, cs)) = WN (pk, v, m, true, List.map (function None -> None | Some c -> Some (all_dirty c)) cs)

let parse_nodes c : string list =
  let n = int_of_string ("0x" ^ next c) in
  List.init n (fun _ -> ()) |> List.map (fun () -> next c)

let vres_str = function
  | Ok () -> "ok"
  | Err k -> (match int_of_nat k with
      | 40 -> "err:notfound" | 41 -> "err:mismatch" | 42 -> "err:emptyproof" | 43 -> "err:noroot" | _ -> "err:other")
  | Panic -> "panic"
  | OutOfFuel -> "hang"

let check inp obs =
  if obs = "hang" || obs = "panic" then
    { prop_ok = false; model_eq = false; nontrivial = true; finding = "-"; tags = "whole-case-" ^ obs;
      detail = "the harness call did not return: " ^ obs } else
  let c = { tok = Array.of_list (split_ws obs); pos = 0 } in
  let probe = next c in
  if String.length probe <> 5 then fail "C05: bad probe %s" probe;
  let st = (probe.[1] = '1', probe.[2] = '1') and dfix = probe.[3] = '1' and gx = probe.[4] = '1' in
  let host = (List.hd (split_ws inp) = "hv") in
  let via_rpc = (List.hd (split_ws inp) = "rp") in
  let via_state = (List.hd (split_ws inp) = "sp") || via_rpc in
  let inp_toks = if host || via_state then List.tl (split_ws inp) else split_ws inp in
  let ops = List.tl inp_toks in
  let state = Hashtbl.create 16 and foreign = Hashtbl.create 16 in
  let st_root = ref "" and fo_root = ref "" and root = ref "" in
  let tree = ref None in
  let nodes = ref [] in            (* hex strings *)
  let honest = ref false and complete = ref false in
  let requested = ref [] in
  let bad = ref [] (* (slug, text) *) and model_bad = ref [] in
  let tags = Hashtbl.create 16 in
  let tag s = Hashtbl.replace tags s () in
  let nq = ref 0 in
  tag ("v" ^ List.hd inp_toks);
  if host then tag "host-function";
  if via_state then tag "dot-state-GenerateTrieProof";
  if via_rpc then tag "rpc-state_getReadProof";
  List.iter (fun op ->
      let a = String.split_on_char ':' op in
      match a with
      | ["P"; k; v] -> Hashtbl.replace state k v
      | ["F"; k; v] -> Hashtbl.replace foreign k v
      | ["W"] ->
        expect c "W";
        st_root := next c; fo_root := next c; root := !st_root;
        expect c "T";
        tree := (if peek c = "nil" then (ignore (next c); None) else Some (all_dirty (parse_wnode c)));
        let tt = (match !tree with None -> None | Some w -> Some (erase w)) in
        (match tt with Some n -> if not (wf_node n) then model_bad := "tree-not-wf" :: !model_bad | None -> tag "empty-state");
        let mroot = (match tt with None -> empty_root hash_memo | Some n -> hash_memo (encode hash_memo n)) in
        if hex_of_bytes mroot <> !st_root then model_bad := "root" :: !model_bad;
        let ents = List.sort compare (List.map (fun (k, v) -> (hex_of_bytes k, hex_of_bytes v)) (entries tt)) in
        let truth = List.sort compare (Hashtbl.fold (fun k v acc -> (k, v) :: acc) state []) in
        if ents <> truth then model_bad := "entries" :: !model_bad;
        (match !tree with
         | Some (WN (_, _, _, _, cs)) ->
           let rec scan (WN (_, sv, mbh, _, cs)) =
             if mbh then tag "hashed-value";
             if mbh && cs <> [] then tag "hashed-branch-value";
             List.iter (function None -> () | Some (WN (_, csv, _, _, ccs) as ch) ->
                 if List.length (encode hash_memo (erase ch)) < 32 then begin
                   tag "inlined-child";
                   if csv = Some [] && ccs = [] then tag "inlined-leaf-empty-value"
                 end; scan ch) cs in
           (match !tree with Some w -> scan w | None -> ());
           if cs = [] then tag "root-is-leaf"
         | None -> ())
      | ["G"; ks] ->
        expect c "G";
        let keys = String.split_on_char '/' ks in
        requested := keys;
        let absent = List.exists (fun k -> not (Hashtbl.mem state k)) keys in
        tag (if absent then "generate-with-absent-key" else "generate-present-keys");
        (* model: write the tree to a fresh database, load it back, generate *)
        let d = write_dirty hash_memo true [] !tree [] in
        let mroot = bytes_of_hex !st_root in
        let mgen = (match load hash_memo st dfix (nat_of_int 200) d mroot with
          | Ok lt ->
            (match generate hash_memo true true lt (List.map bytes_of_hex keys) with
             | Ok l -> "ok " ^ String.concat " " (List.map hex_of_bytes l)
             | Err k -> if int_of_nat k = 30 then "err:keynotfound" else "err:other"
             | Panic -> "panic" | OutOfFuel -> "hang")
          | _ -> "err:other") in
        let r = next c in
        if r = "ok" then begin
          let l = parse_nodes c in
          nodes := l; honest := true; complete := false;
          if mgen <> "ok " ^ String.concat " " l then model_bad := ("generate model=" ^ mgen) :: !model_bad
        end else begin
          nodes := []; honest := false; complete := false;
          if mgen <> r then model_bad := ("generate " ^ r ^ " model=" ^ mgen) :: !model_bad;
          if absent && r = "err:keynotfound" then bad := ("generate-absent-key", "Generate " ^ r ^ " for keys " ^ ks) :: !bad
          else bad := ("-", "Generate " ^ r ^ " for keys " ^ ks) :: !bad
        end
      | "AO" :: _ | "AX" :: _ ->
        expect c "N"; nodes := parse_nodes c; honest := false; complete := false; tag ("adv-" ^ List.hd a)
      | "AD" :: _ | ["AR"] | "AN" :: _ | ["AF"] ->
        expect c "N"; nodes := parse_nodes c; honest := false; tag ("adv-" ^ List.hd a)
      | ["AA"] ->
        expect c "N"; nodes := parse_nodes c; honest := false; complete := true; tag "adv-AA"
      | ["RF"] -> root := !fo_root; tag "foreign-root"
      | ["RS"] -> root := !st_root
      | ["Q"; _; _] | ["Q2"; _; _; _] ->
        let (ver, k, v) = (match a with
            | ["Q"; k; v] -> (None, k, v)
            | ["Q2"; ver; k; v] -> (Some (int_of_string ("0x" ^ ver) land 255), k, v)
            | _ -> fail "C05: bad query") in
        if (not host) && ver <> None then fail "C05: Q2 outside the host harness";
        expect c "Q";
        let r = next c in
        incr nq;
        let nb = List.map bytes_of_hex !nodes in
        let m = vres_str (verify hash_memo st dfix true true gx nb (bytes_of_hex !root) (bytes_of_hex k) (bytes_of_hex v)) in
        (* the host functions: version_2 first parses the state version (only 0 and 1 exist), both
           answer 1 exactly when Verify returns no error *)
        let m = if not host then m else begin
            tag (if ver = None then "host-v1" else "host-v2");
            match ver with
            | Some x when x > 1 -> tag "host-v2-bad-version"; "err"
            | _ -> if m = "ok" || m = "panic" || m = "hang" then m else "err"
          end in
        if m <> r then model_bad := (Printf.sprintf "verify(%s,%s)=%s model=%s" k v r m) :: !model_bad;
        let truth = if !root = !st_root then state else foreign in
        let present = Hashtbl.find_opt truth k in
        if not host then tag ("verify-" ^ r) else tag ("host-verify-" ^ r);
        (* soundness *)
        if r = "ok" then begin
          let sound = (match present with Some tv -> v = "-" || v = tv | None -> false) in
          if not sound then begin
            let slug = if k = "-" then "verify-empty-key" else "-" in
            bad := (slug, Printf.sprintf "Verify confirms (%s,%s) under root %s, state has %s" k v (String.sub !root 0 8)
                      (match present with Some tv -> tv | None -> "no such key")) :: !bad
          end else tag "confirmed-present"
        end;
        (* completeness *)
        let badver = (match ver with Some x when x > 1 -> true | _ -> false) in
        if (!honest || !complete) && !root = !st_root && r <> "ok" && not badver then begin
          match present with
          | Some tv when (v = tv || v = "-") && (!complete || List.mem k !requested) ->
            bad := ("-", Printf.sprintf "Verify(%s,%s)=%s with the %s proof although the state has this pair" k v r
                      (if !honest then "generated" else "complete")) :: !bad
          | _ -> ()
        end
      | _ -> fail "C05: bad op %s" op) ops;
  if c.pos <> Array.length c.tok then fail "C05: trailing tokens in observation at %d: %s" c.pos (peek c);
  let slugs = List.sort_uniq compare (List.map fst !bad) in
  (* a case may fail inside several guards at once; it is reported under the first of them unless one
     of its failures lies outside every guard *)
  let finding = (if List.mem "-" slugs then "-" else match slugs with s :: _ -> s | [] -> "-") in
  let tagl = List.sort compare (Hashtbl.fold (fun k () acc -> k :: acc) tags []) in
  { prop_ok = (!bad = []); model_eq = (!model_bad = []);
    nontrivial = (Hashtbl.length state > 0 && !nq > 0); finding;
    tags = String.concat "," tagl;
    detail = String.concat "; " (List.rev_map snd !bad @ List.map (fun s -> "MODEL " ^ s) (List.rev !model_bad)) }

(* ---------------------------------------------------------------- vm_compute cross-check
   The first queries of a sampled case re-evaluated inside Coq: Verify of the Gallina model on the
   node set, root, key and value of the trace must give the verdict the implementation gave. *)
let coq inp obs =
  if obs = "hang" || obs = "panic" || String.length obs > 5000 then None else
  let toks = split_ws inp in
  if List.hd toks = "hv" || List.hd toks = "sp" || List.hd toks = "rp" then None else
  try
    let c = { tok = Array.of_list (split_ws obs); pos = 0 } in
    let probe = next c in
    let b ch = if ch = '1' then "true" else "false" in
    let st_root = ref "" and fo_root = ref "" and root = ref "" in
    let nodes = ref [] in
    let terms = ref [] in
    List.iter (fun op ->
        match String.split_on_char ':' op with
        | ["P"; _; _] | ["F"; _; _] -> ()
        | ["W"] ->
          expect c "W"; st_root := next c; fo_root := next c; root := !st_root; expect c "T";
          if peek c = "nil" then ignore (next c) else ignore (parse_wnode c)
        | ["G"; _] ->
          expect c "G";
          if next c = "ok" then nodes := parse_nodes c else nodes := []
        | "AO" :: _ | "AX" :: _ | "AD" :: _ | ["AR"] | "AN" :: _ | ["AF"] | ["AA"] ->
          expect c "N"; nodes := parse_nodes c
        | ["RF"] -> root := !fo_root
        | ["RS"] -> root := !st_root
        | ["Q"; k; v] ->
          expect c "Q";
          let r = next c in
          let code = (match r with
              | "ok" -> Some "0" | "err:notfound" -> Some "40" | "err:mismatch" -> Some "41"
              | "err:emptyproof" -> Some "42" | "err:noroot" -> Some "43" | _ -> None) in
          (match code with
           | Some cd when List.length !terms < 3 ->
             terms := Printf.sprintf "vres_is (verify blake2b_256 (%s, %s) %s true true %s [%s] %s %s %s) %s"
                 (b probe.[1]) (b probe.[2]) (b probe.[3]) (b probe.[4])
                 (String.concat "; " (List.map (fun n -> coq_bytes (bytes_of_hex n)) !nodes))
                 (coq_bytes (bytes_of_hex !root)) (coq_bytes (bytes_of_hex k)) (coq_bytes (bytes_of_hex v)) cd :: !terms
           | _ -> ())
        | _ -> ()) (List.tl toks);
    (match !terms with [] -> None | l -> Some (String.concat " && " (List.rev l)))
  with _ -> None

let () = run_driver ~coq check
