// C05 correspondence harness for the state_getReadProof RPC (package dot/rpc/modules, injected by
// `go test -overlay`): StateModule.GetReadProof (hex keys in, hex proof nodes out) -> the real
// core.Service.GetReadProofAt (state root of the requested block, or of the best block for the zero
// hash) -> the real InmemoryStorageState.GenerateTrieProof -> proof.Generate.  Only the block state
// is a stub (block hash -> state root).  The state is persisted with InmemoryStorageState.StoreTrie;
// queries go to proof.Verify as in props/C05/harness_test.go.
//
// input: rp <version 0|1> <op>*       same ops and observations as props/C05/harness_test.go
//   (G alternates between the block hash of the state and the zero hash = best block)
package modules

import (
	"bytes"
	"errors"
	"fmt"
	"strings"
	"sync"
	"testing"

	"github.com/ChainSafe/gossamer/dot/core"
	"github.com/ChainSafe/gossamer/dot/state"
	"github.com/ChainSafe/gossamer/internal/database"
	vu "github.com/ChainSafe/gossamer/internal/verifutil"
	"github.com/ChainSafe/gossamer/lib/common"
	"github.com/ChainSafe/gossamer/lib/runtime/storage"
	"github.com/ChainSafe/gossamer/pkg/scale"
	"github.com/ChainSafe/gossamer/pkg/trie"
	"github.com/ChainSafe/gossamer/pkg/trie/inmemory"
	"github.com/ChainSafe/gossamer/pkg/trie/inmemory/proof"
	"github.com/ChainSafe/gossamer/pkg/trie/node"
)

// c05blocks: the only stub — block hash -> state root
type c05blocks struct {
	core.BlockState
	best  common.Hash
	roots map[common.Hash]common.Hash
}

func (b *c05blocks) BestBlockHash() common.Hash { return b.best }
func (b *c05blocks) GetBlockStateRoot(h common.Hash) (common.Hash, error) {
	r, ok := b.roots[h]
	if !ok {
		return common.Hash{}, errors.New("unknown block")
	}
	return r, nil
}

var c05probeOnce sync.Once
var c05probe string

func c05Probe() string {
	c05probeOnce.Do(func() {
		u, b, d, x := "0", "0", "0", "0"
		var xs []byte
		var y uint
		if err := scale.Unmarshal([]byte{0x02, 0x00, 0x01}, &y); err != nil {
			u = "1"
		}
		if err := scale.Unmarshal([]byte{0x08, 0x01}, &xs); err != nil {
			b = "1"
		}
		func() {
			defer func() { recover() }()
			if _, err := node.Decode(bytes.NewReader([]byte{1})); err != nil {
				d = "1"
			}
		}()
		t := inmemory.NewEmptyTrie()
		t.Put([]byte{0xab, 0xcd}, []byte{2})
		t.Put([]byte{0xab, 0xcd, 0xee}, []byte{3})
		t.Put([]byte{0xab, 0xcd, 0xef}, []byte{3})
		t.Put([]byte{0xac}, []byte{4})
		if t.Get([]byte{0xab}) == nil {
			x = "1"
		}
		c05probe = "p" + u + b + d + x
	})
	return c05probe
}

func c05nib(b []byte) string {
	if len(b) == 0 {
		return "-"
	}
	var sb strings.Builder
	for _, x := range b {
		if x < 16 {
			sb.WriteByte("0123456789abcdef"[x])
		} else {
			fmt.Fprintf(&sb, "<%02x>", x)
		}
	}
	return sb.String()
}

func c05tree(sb *strings.Builder, n *node.Node) {
	if n == nil {
		sb.WriteString(" _")
		return
	}
	sb.WriteString(" N " + c05nib(n.PartialKey) + " ")
	if n.StorageValue == nil {
		sb.WriteString("none")
	} else {
		sb.WriteString(vu.Hex(n.StorageValue))
	}
	switch {
	case n.IsHashedValue:
		sb.WriteString(" 2")
	case n.MustBeHashed:
		sb.WriteString(" 1")
	default:
		sb.WriteString(" 0")
	}
	if n.Dirty {
		sb.WriteString(" 1")
	} else {
		sb.WriteString(" 0")
	}
	if n.Children == nil {
		sb.WriteString(" 0")
		return
	}
	sb.WriteString(" " + vu.X(uint64(len(n.Children))))
	for _, c := range n.Children {
		c05tree(sb, c)
	}
}

// c05all collects the encodings of all non-inlined nodes and all hashed values below n.
func c05all(n *node.Node, isRoot bool, out *[][]byte) {
	if n == nil {
		return
	}
	buf := bytes.NewBuffer(nil)
	if err := n.Encode(buf); err != nil {
		return
	}
	if isRoot || buf.Len() >= 32 {
		*out = append(*out, append([]byte{}, buf.Bytes()...))
	}
	if n.MustBeHashed {
		*out = append(*out, append([]byte{}, n.StorageValue...))
	}
	for _, c := range n.Children {
		c05all(c, false, out)
	}
}

func c05verify(nodes [][]byte, root, key, value []byte) (res string) {
	defer func() {
		if p := recover(); p != nil {
			res = "panic"
		}
	}()
	cp := make([][]byte, len(nodes))
	for i := range nodes {
		cp[i] = append([]byte{}, nodes[i]...)
	}
	err := proof.Verify(cp, root, key, value)
	switch {
	case err == nil:
		return "ok"
	case errors.Is(err, proof.ErrKeyNotFoundInProofTrie):
		return "err:notfound"
	case errors.Is(err, proof.ErrValueMismatchProofTrie):
		return "err:mismatch"
	case errors.Is(err, proof.ErrEmptyProof):
		return "err:emptyproof"
	case errors.Is(err, proof.ErrRootNodeNotFound):
		return "err:noroot"
	}
	return "err:other"
}

func c05nodes(sb *strings.Builder, tag string, nodes [][]byte) {
	sb.WriteString(" " + tag + " " + vu.X(uint64(len(nodes))))
	for _, n := range nodes {
		sb.WriteString(" " + vu.Hex(n))
	}
}

func c05Run(in string) string {
	f := strings.Split(in, " ")
	if len(f) < 2 || f[0] != "rp" {
		return "bad-input"
	}
	f = f[1:]
	pdb, err := database.NewPebble("", true)
	if err != nil {
		return "db-error"
	}
	defer pdb.Close()
	table := database.NewTable(pdb, "storage")
	ss, err := state.NewStorageState(pdb, nil, state.NewTries())
	if err != nil {
		return "state-error"
	}
	blocks := &c05blocks{roots: map[common.Hash]common.Hash{}}
	svc, err := core.NewService(&core.Config{BlockState: blocks, StorageState: ss})
	if err != nil {
		return "core-error"
	}
	sm := NewStateModule(nil, nil, svc, nil)
	ngen := 0
	st := inmemory.NewTrie(nil, table)
	fo := inmemory.NewTrie(nil, table)
	if f[0] == "1" {
		st.SetVersion(trie.V1)
		fo.SetVersion(trie.V1)
	}
	var sb strings.Builder
	sb.WriteString(c05Probe())
	var stRoot, foRoot, root []byte
	var nodes [][]byte
	for _, op := range f[1:] {
		a := strings.Split(op, ":")
		switch a[0] {
		case "P":
			st.Put(vu.UnHex(a[1]), vu.UnHex(a[2]))
		case "F":
			fo.Put(vu.UnHex(a[1]), vu.UnHex(a[2]))
		case "W":
			h := st.MustHash()
			stRoot = append([]byte{}, h[:]...)
			h2 := fo.MustHash()
			foRoot = append([]byte{}, h2[:]...)
			root = stRoot
			sb.WriteString(" W " + vu.Hex(stRoot) + " " + vu.Hex(foRoot) + " T")
			if h == trie.EmptyHash {
				sb.WriteString(" nil")
			} else {
				c05tree(&sb, st.RootNode())
			}
			if err := ss.StoreTrie(storage.NewTrieState(st), nil); err != nil {
				return "write-error"
			}
			if err := ss.StoreTrie(storage.NewTrieState(fo), nil); err != nil {
				return "write-error"
			}
		case "G":
			var keys [][]byte
			for _, k := range strings.Split(a[1], "/") {
				keys = append(keys, vu.UnHex(k))
			}
			res, gerr := func() (r [][]byte, e string) {
				defer func() {
					if p := recover(); p != nil {
						e = "panic"
					}
				}()
				// the block whose state this is; every other request asks for the best block (zero hash)
				blockHash := common.MustBlake2bHash(stRoot)
				blocks.roots[blockHash] = common.BytesToHash(stRoot)
				blocks.best = blockHash
				req := &StateGetReadProofRequest{Hash: blockHash}
				if (ngen+len(keys)+len(stRoot[0:1])*int(stRoot[0]))%2 == 1 {
					req.Hash = common.Hash{}
				}
				ngen++
				for _, k := range keys {
					req.Keys = append(req.Keys, common.BytesToHex(k))
				}
				var res StateGetReadProofResponse
				err := sm.GetReadProof(nil, req, &res)
				if err == nil {
					if res.At != blockHash {
						return nil, "err:at"
					}
					for _, p := range res.Proof {
						b, herr := common.HexToBytes(p)
						if herr != nil {
							return nil, "err:hex"
						}
						r = append(r, b)
					}
				}
				if err != nil {
					if errors.Is(err, proof.ErrKeyNotFound) {
						return nil, "err:keynotfound"
					}
					return nil, "err:other"
				}
				return r, ""
			}()
			if gerr != "" {
				sb.WriteString(" G " + gerr)
				nodes = nil
			} else {
				nodes = res
				c05nodes(&sb, "G ok", nodes)
			}
		case "AO":
			if len(nodes) > 0 {
				i := int(vu.UnX(a[1])) % len(nodes)
				nodes = append(append([][]byte{}, nodes[:i]...), nodes[i+1:]...)
			}
			c05nodes(&sb, "N", nodes)
		case "AD":
			if len(nodes) > 0 {
				i := int(vu.UnX(a[1])) % len(nodes)
				nodes = append(nodes, nodes[i])
			}
			c05nodes(&sb, "N", nodes)
		case "AX":
			if len(nodes) > 0 {
				i := int(vu.UnX(a[1])) % len(nodes)
				if len(nodes[i]) > 0 {
					c := append([]byte{}, nodes[i]...)
					c[int(vu.UnX(a[2]))%len(c)] ^= byte(vu.UnX(a[3]))
					nodes = append(append(append([][]byte{}, nodes[:i]...), c), nodes[i+1:]...)
				}
			}
			c05nodes(&sb, "N", nodes)
		case "AR":
			r := make([][]byte, len(nodes))
			for i := range nodes {
				r[len(nodes)-1-i] = nodes[i]
			}
			nodes = r
			c05nodes(&sb, "N", nodes)
		case "AN":
			nodes = append(append([][]byte{}, nodes...), vu.UnHex(a[1]))
			c05nodes(&sb, "N", nodes)
		case "AF":
			var all [][]byte
			if fo.MustHash() != trie.EmptyHash {
				c05all(fo.RootNode(), true, &all)
			}
			nodes = append(append([][]byte{}, nodes...), all...)
			c05nodes(&sb, "N", nodes)
		case "AA":
			var all [][]byte
			if st.MustHash() != trie.EmptyHash {
				c05all(st.RootNode(), true, &all)
			}
			nodes = append(append([][]byte{}, nodes...), all...)
			c05nodes(&sb, "N", nodes)
		case "RF":
			root = foRoot
		case "RS":
			root = stRoot
		case "Q":
			sb.WriteString(" Q " + c05verify(nodes, root, vu.UnHex(a[1]), vu.UnHex(a[2])))
		}
	}
	return sb.String()
}

// ---------------------------------------------------------------- generator

func c05key(r *vu.RNG) []byte {
	l := 1 + r.Intn(3)
	if r.Chance(1, 8) {
		l = r.Intn(6)
	}
	b := make([]byte, l)
	alpha := []byte{0x00, 0x01, 0x10, 0x11, 0x12, 0x1f, 0xa0, 0xab, 0xff}
	for i := range b {
		b[i] = alpha[r.Intn(len(alpha))]
	}
	if r.Chance(1, 10) {
		// long keys with long common prefixes: partial keys of more than 63 and more than 318 nibbles
		pl := []int{31, 32, 33, 40, 159, 160, 161}[r.Intn(7)]
		p := make([]byte, pl)
		for i := range p {
			p[i] = byte(0x30 + i%7)
		}
		if r.Chance(1, 2) {
			p[pl-1] ^= 0x0f
		}
		b = append(p, b...)
	}
	return b
}

func c05value(r *vu.RNG, tiny bool) []byte {
	lens := []int{0, 1, 2, 3, 8, 20, 26, 27, 28, 29, 30, 31, 32, 33, 34, 40, 64}
	l := lens[r.Intn(len(lens))]
	if tiny {
		l = r.Intn(3)
	}
	if !tiny && r.Chance(1, 40) {
		l = []int{63, 65, 300, 16383, 16384, 16400}[r.Intn(6)]
	}
	b := r.Bytes(l)
	if r.Chance(1, 8) {
		for i := range b {
			b[i] = 0x77
		}
	}
	return b
}

// c05splices returns up to max keys made of the nibbles [0,j) ++ [e,len) of k with e-j even: absent
// keys that leave k inside a branch partial key and re-join its path at a child slot.
func c05splices(k []byte, max int) [][]byte {
	nib := make([]byte, 0, 2*len(k))
	for _, b := range k {
		nib = append(nib, b>>4, b&15)
	}
	if len(nib) > 24 {
		nib = nib[len(nib)-24:]
	}
	pre := k[:len(k)-len(nib)/2]
	var out [][]byte
	for e := 2; e < len(nib) && len(out) < max; e++ {
		for j := e - 2; j >= 0 && len(out) < max; j -= 2 {
			if nib[j] == nib[e] {
				continue
			}
			sp := append(append([]byte{}, nib[:j]...), nib[e:]...)
			b := append([]byte{}, pre...)
			for i := 0; i+1 < len(sp); i += 2 {
				b = append(b, sp[i]<<4|sp[i+1])
			}
			out = append(out, b)
		}
	}
	return out
}

func c05neighbour(r *vu.RNG, k []byte) []byte {
	c := append([]byte{}, k...)
	switch r.Intn(6) {
	case 0:
		if len(c) > 0 {
			c = c[:len(c)-1]
		}
	case 1:
		c = append(c, []byte{0x00, 0x10, 0x01, 0xab}[r.Intn(4)])
	case 2:
		if len(c) > 0 {
			c[len(c)-1] ^= []byte{0x01, 0x10, 0x0f, 0xf0}[r.Intn(4)]
		}
	case 3:
		if len(c) > 0 {
			c[0] ^= []byte{0x01, 0x10, 0x0f, 0xf0}[r.Intn(4)]
		}
	case 4:
		c = []byte{}
	default:
		c = c05key(r)
	}
	return c
}

func c05Gen(r *vu.RNG, n int, emit0 func(string)) {
	emit := func(in string) { emit0("rp " + in) }
	for i := 0; i < n; i++ {
		ver := r.Intn(2)
		tiny := r.Chance(1, 3)
		var ops []string
		state := map[string][]byte{}
		var keys [][]byte
		np := 1 + r.Intn(9)
		if r.Chance(1, 25) {
			np = 0
		}
		if r.Chance(1, 12) {
			np = 20 + r.Intn(25) // a big state: full branches, deeper paths
		}
		var cluster []byte
		if r.Chance(1, 3) {
			cluster = c05key(r)
			cluster = append(cluster, c05key(r)...)
		}
		for j := 0; j < np; j++ {
			k := c05key(r)
			if cluster != nil && r.Chance(2, 3) {
				k = append(append([]byte{}, cluster...), k...)
			}
			if len(keys) > 0 && r.Chance(1, 3) {
				k = append(append([]byte{}, keys[r.Intn(len(keys))]...), c05key(r)...)
			}
			v := c05value(r, tiny)
			keys = append(keys, k)
			state[string(k)] = v
			ops = append(ops, "P:"+vu.Hex(k)+":"+vu.Hex(v))
		}
		nf := r.Intn(4)
		var fkeys [][]byte
		for j := 0; j < nf; j++ {
			k := c05key(r)
			if len(keys) > 0 && r.Chance(1, 2) {
				k = keys[r.Intn(len(keys))]
			}
			fkeys = append(fkeys, k)
			ops = append(ops, "F:"+vu.Hex(k)+":"+vu.Hex(c05value(r, tiny)))
		}
		ops = append(ops, "W")
		// requested keys: present ones, sometimes an absent one
		var req [][]byte
		nreq := 1 + r.Intn(3)
		for j := 0; j < nreq && len(keys) > 0; j++ {
			req = append(req, keys[r.Intn(len(keys))])
		}
		if len(keys) == 0 || r.Chance(1, 6) {
			req = append(req, c05neighbour(r, append(append([][]byte{}, keys...), []byte{0xab})[0]))
		}
		var rs []string
		for _, k := range req {
			rs = append(rs, vu.Hex(k))
		}
		ops = append(ops, "G:"+strings.Join(rs, "/"))
		query := func() {
			// every requested key with its value, with the empty value, with a wrong value
			for _, k := range req {
				v, ok := state[string(k)]
				if ok {
					ops = append(ops, "Q:"+vu.Hex(k)+":"+vu.Hex(v))
				}
				if r.Chance(1, 2) {
					ops = append(ops, "Q:"+vu.Hex(k)+":-")
				}
				if r.Chance(1, 2) {
					w := c05value(r, false)
					if len(w) == 0 {
						w = []byte{9}
					}
					ops = append(ops, "Q:"+vu.Hex(k)+":"+vu.Hex(w))
				}
				if ok && len(v) > 1 && r.Chance(1, 3) { // a strict prefix / an extension of the present value
					if r.Chance(1, 2) {
						ops = append(ops, "Q:"+vu.Hex(k)+":"+vu.Hex(v[:len(v)-1-r.Intn(len(v)-1)]))
					} else {
						ops = append(ops, "Q:"+vu.Hex(k)+":"+vu.Hex(append(append([]byte{}, v...), byte(r.Intn(2)))))
					}
				}
				if r.Chance(1, 2) { // absent neighbour with the value of the present key
					ops = append(ops, "Q:"+vu.Hex(c05neighbour(r, k))+":"+vu.Hex(v))
				}
			}
			for _, k := range fkeys {
				if r.Chance(1, 2) {
					ops = append(ops, "Q:"+vu.Hex(k)+":-")
				}
			}
		}
		query()
		// spliced keys of one requested present key, with its value (honest proof)
		for _, k := range req {
			if v, ok := state[string(k)]; ok {
				for _, sk := range c05splices(k, 10) {
					ops = append(ops, "Q:"+vu.Hex(sk)+":"+vu.Hex(v))
				}
				break
			}
		}
		// adversarial rounds
		for a := 0; a < r.Intn(4); a++ {
			switch r.Intn(9) {
			case 0:
				ops = append(ops, fmt.Sprintf("AO:%x", r.Intn(8)))
			case 1:
				ops = append(ops, fmt.Sprintf("AD:%x", r.Intn(8)))
			case 2:
				ops = append(ops, fmt.Sprintf("AX:%x:%x:%x", r.Intn(8), r.Intn(64), 1<<uint(r.Intn(8))))
			case 3:
				ops = append(ops, "AR")
			case 4:
				opts := []string{"00", "01", "-", "4100", "8000000400", "41ab04ff"}
				ops = append(ops, "AN:"+opts[r.Intn(len(opts))])
			case 5:
				ops = append(ops, "AF")
			case 6:
				ops = append(ops, "AF", "RF")
			case 7:
				ops = append(ops, "AA")
			default:
				ops = append(ops, "RS")
			}
			query()
		}
		emit(fmt.Sprintf("%d %s", ver, strings.Join(ops, " ")))
	}
}

func TestVerifC05RPC(t *testing.T) {
	vu.Run(t, "C05", 150, c05Gen, c05Run)
}
