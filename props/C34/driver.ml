(* C34 driver: replays the Go trace on the extracted models.
   seq   : prop_ok  = the implementation's results are those of the specification QSpec
                      (Pending compared up to order) and the heap bookkeeping is intact;
           model_eq = they are exactly those of the Tier A heap model (Pending in array order).
   conc* : prop_ok  = the recorded history is linearizable w.r.t. QSpec (a linearization found by the
                      driver's untrusted search passes the PROVED certificate check, else the proved searches);
                      Pending results are normalised to the specification's order first;
           model_eq = the history consists of exactly the calls of the input programs.
   probe : prop_ok  = the call did not run while the harness held the mutex;
           model_eq = ran/blocked as predicted from the lock table read from the Go source.
   shape : prop_ok  = the method body is ONE critical section (Lock first, defer Unlock next, no
                      other lock call), which is what Conc.LockedObject assumes of an exclusive
                      method; the composite PopWithTimer touches no field and takes no lock.
   seq additionally: prop_ok requires the declarative trace predicate [trace_ok] (ModelTrace.v:
   duplicates refused, at most once, priority then insertion order) of the Go observables. *)
open Model
open Vutil

let parse_op s = match String.split_on_char ':' s with
  | ["u"; id; p] -> Push (n_of_hex id, n_of_hex p)
  | ["o"] -> Pop
  | ["t"] | ["w"] -> PopT
  | ["k"] -> Peek
  | ["r"; id] -> Remove (n_of_hex id)
  | ["e"; id] -> Exists (n_of_hex id)
  | ["n"] -> Len
  | ["g"] -> Pending
  | _ -> fail "C34: bad op %s" s

let str_res = function
  | ROk -> "ok" | RDup -> "dup" | RNone -> "nil" | RUnit -> "u" | RPanic -> "panic"
  | RTx (i, p) -> "tx:" ^ hex_of_n i ^ ":" ^ hex_of_n p
  | RBool b -> if b then "b:1" else "b:0"
  | RNum n -> "n:" ^ hex_of_n n
  | RList [] -> "l:-"
  | RList l -> "l:" ^ String.concat "," (List.map (fun (k, v) -> hex_of_n k ^ "=" ^ hex_of_n v) l)

let parse_res s =
  match s with
  | "ok" -> Some ROk | "dup" -> Some RDup | "nil" -> Some RNone | "u" -> Some RUnit
  | "b:0" -> Some (RBool false) | "b:1" -> Some (RBool true) | "l:-" -> Some (RList [])
  | _ ->
    (match String.split_on_char ':' s with
     | ["tx"; i; p] when i <> "bad" -> Some (RTx (n_of_hex i, n_of_hex p))
     | ["n"; x] -> Some (RNum (n_of_hex x))
     | ["l"; l] ->
       (try Some (RList (List.map (fun kv -> match String.split_on_char '=' kv with
            | [k; v] -> (n_of_hex k, n_of_hex v) | _ -> raise Exit) (String.split_on_char ',' l)))
        with Exit -> None)
     | _ -> None)

(* UNTRUSTED search for a linearization (its answer is only used through the proved certificate
   check): depth-first over "which pending record comes next", candidates in the order of the
   array (hint: return stamps), a hash table of the (placed set, specification state) pairs
   already explored.  Returns the positions of the records in linearization order. *)
let lin_find ?(optional : bool array option) (step : 'st -> 'op -> 'st * 'res) (key : 'st -> string) (s0 : 'st)
    (h : (int * int * 'op * 'res) array) (budget : int) : int list option =
  let n = Array.length h in
  (* optional records (pending calls, with the result they eventually returned) may be left out *)
  let opt i = (match optional with Some a -> a.(i) | None -> false) in
  let nmand = (let c = ref 0 in for i = 0 to n - 1 do if not (opt i) then incr c done; !c) in
  let visited = Hashtbl.create 4096 in
  let placed = Bytes.make n '0' in
  let nodes = ref 0 in
  let result = ref None in
  let rec go st cnt acc =
    if !result <> None || !nodes > budget then ()
    else if cnt = nmand then result := Some (List.rev acc)
    else begin
      incr nodes;
      let minret = ref max_int in
      for i = 0 to n - 1 do
        if Bytes.get placed i = '0' then (let (_, r, _, _) = h.(i) in if r < !minret then minret := r)
      done;
      for i = 0 to n - 1 do
        if !result = None && Bytes.get placed i = '0' then begin
          let (c, _, op, res) = h.(i) in
          if c <= !minret then begin
            let (st', r) = step st op in
            if r = res then begin
              Bytes.set placed i '1';
              let k = Bytes.to_string placed ^ key st' in
              if not (Hashtbl.mem visited k) then begin
                Hashtbl.add visited k ();
                go st' (if opt i then cnt else cnt + 1) (i :: acc)
              end;
              Bytes.set placed i '0'
            end
          end
        end
      done
    end in
  go s0 0 [];
  !result

(* the history cut at an instant t: the calls that had returned by t are complete, the calls in
   flight at t are pending, later calls are not there yet.  The cut must be linearizable as a
   history with pending calls: an untrusted search chooses which pending calls take effect (with
   the results they eventually returned), the PROVED pcert check accepts.  Returns
   (number of pending calls, certificate accepted). *)
let cut_check (h : ('op, 'res) orec list) key : int * bool =
  let stamps = List.sort compare (List.concat_map (fun e -> [int_of_n e.o_call; int_of_n e.o_ret]) h) in
  if stamps = [] then (0, true) else begin
    let t = List.nth stamps (List.length stamps / 2) in
    let inf = List.fold_left max 0 stamps + 1 in
    let h_c = List.filter (fun e -> int_of_n e.o_ret <= t) h in
    let inflight = List.filter (fun e -> int_of_n e.o_call <= t && int_of_n e.o_ret > t) h in
    if inflight = [] then (0, true) else begin
      let nc = List.length h_c in
      let arr = Array.of_list (List.map (fun e -> (int_of_n e.o_call, int_of_n e.o_ret, e.o_op, e.o_res)) h_c @
                               List.map (fun e -> (int_of_n e.o_call, inf, e.o_op, e.o_res)) inflight) in
      let optional = Array.init (Array.length arr) (fun i -> i >= nc) in
      match lin_find ~optional q_step key [] arr 1500000 with
      | None -> (List.length inflight, false)
      | Some l ->
        (* the chosen pending calls, in the order they appear in the linearization *)
        let chosen_pos = List.filter (fun i -> i >= nc) l in
        let inflight_a = Array.of_list inflight in
        let chosen = List.map (fun i -> (drv_nat_of_n (n_of_int (i - nc)), inflight_a.(i - nc).o_res)) chosen_pos in
        let rank i = (let rec go k = function [] -> 0 | x :: r -> if x = i then k else go (k + 1) r in go 0 chosen_pos) in
        let perm = List.map (fun i -> drv_nat_of_n (n_of_int (if i < nc then i else nc + rank i))) l in
        let pend = List.map (fun e -> { pc_call = e.o_call; pc_op = e.o_op }) inflight in
        let inf = n_of_int inf in
        (List.length inflight, pq_pcert h_c pend inf chosen perm)
    end
  end

let prog s = if s = "-" then [] else String.split_on_char ',' s

let mode_of_method = function
  | "Exists" -> mode_exists | "Len" -> mode_len | "Peek" -> mode_peek | "Pending" -> mode_pending
  | "Pop" -> mode_pop | "PopWithTimer" -> mode_popt | "Push" -> mode_push
  | "RemoveExtrinsic" -> mode_remove | m -> fail "C34: bad method %s" m

let check inp obs =
  match split_ws inp with
  | "seq" :: ops ->
    let pops = List.map parse_op ops in
    let obs_l = split_ws obs in
    let nres = List.length obs_l - 1 in
    let idx = (match List.rev obs_l with x :: _ -> x | [] -> "?") in
    let obs_res = List.filteri (fun i _ -> i < nres) obs_l in
    let m = List.map str_res (m_run m_new pops) in
    let q = q_run [] pops in
    let shape = (nres = List.length pops) in
    let parsed = List.map parse_res obs_res in
    let declarative = shape && List.for_all (fun r -> r <> None) parsed &&
                      trace_ok (List.combine pops (List.map (function Some r -> r | None -> RPanic) parsed)) in
    let prop = shape && idx = "idx:ok" && declarative &&
               List.for_all2 (fun o s -> match parse_res o with Some r -> res_sim r s | None -> false) obs_res q in
    let buckets = List.map int_of_n (m_buckets m_new pops) in
    let hasb b = List.mem b buckets in
    let eq = shape && m = obs_res in
    let has p = List.exists p obs_res in
    let tags = String.concat "," (List.filter (fun x -> x <> "") [
      "seq"; (if has (fun s -> s = "dup") then "dup" else "");
      (if has (fun s -> s = "nil") then "empty-pop" else "");
      (if has (fun s -> String.length s > 3 && String.sub s 0 3 = "tx:") then "yield" else "");
      (if List.exists (function Remove _ -> true | _ -> false) pops then "remove" else "");
      (if List.mem PopT pops then "popwithtimer" else "");
      (if List.exists (fun o -> o = "w") ops then "popwithtimer-live" else "");
      (if hasb 1 then "push-no-sift" else ""); (if hasb 2 then "push-sift-up" else "");
      (if hasb 3 then "remove-absent" else ""); (if hasb 4 then "remove-last" else "");
      (if hasb 5 then "remove-sift-down" else ""); (if hasb 6 then "remove-sift-up" else "");
      (if hasb 7 then "remove-in-place" else ""); (if hasb 8 then "pop-tie" else "");
      (if hasb 9 then "pop-no-tie" else "") ]) in
    { prop_ok = prop; model_eq = eq; nontrivial = List.length pops >= 2; finding = "-"; tags;
      detail = (if prop && eq then "" else
                Printf.sprintf "%s%s spec=[%s] model=[%s]" idx
                  (if declarative then "" else " trace predicate (dup/at-most-once/order) violated;")
                  (String.concat " " (List.map str_res q)) (String.concat " " m)) }
  | ("conc" | "concl" | "concg" | "conct") :: pre :: progs ->
    let recs = List.map (fun s -> match String.split_on_char '/' s with
        | [tid; c; r; op; res] -> (int_of_string ("0x" ^ tid), n_of_hex c, n_of_hex r, op, res)
        | _ -> fail "C34: bad record %s" s) (split_ws obs) in
    let by_tid t = List.map (fun (_, _, _, op, _) -> op)
        (List.sort (fun (_, c1, _, _, _) (_, c2, _, _, _) -> compare (int_of_n c1) (int_of_n c2))
           (List.filter (fun (t', _, _, _, _) -> t' = t) recs)) in
    let progs_ok = by_tid 0xfe = prog pre && by_tid 0xff = ["g"] &&
                   List.for_all (fun x -> x) (List.mapi (fun t p -> by_tid t = prog p) progs) &&
                   List.length recs = List.length (prog pre) + 1 + List.fold_left (fun a p -> a + List.length (prog p)) 0 progs in
    let bad_res = List.filter (fun (_, _, _, _, res) -> parse_res res = None) recs in
    let cut = ref (0, true) in
    let verdict, why =
      if bad_res <> [] then (false, "impossible result " ^ (let (_, _, _, op, res) = List.hd bad_res in op ^ "->" ^ res))
      else begin
        (* a Pending result is a set: bring it to the canonical order the specification uses *)
        let h = List.map (fun (_, c, r, op, res) ->
            let rr = (match parse_res res with Some x -> x | None -> RPanic) in
            let rr = (match rr with RList l -> RList (sort_pairs l) | x -> x) in
            { o_call = c; o_ret = r; o_op = parse_op op; o_res = rr }) recs in
        (* the verdict does not depend on the order of the list; the search tries candidates in list
           order, and the order of the return stamps is close to the order of the lock acquisitions *)
        let h = List.stable_sort (fun a b -> compare (int_of_n a.o_ret) (int_of_n b.o_ret)) h in
        let harr = Array.of_list (List.map (fun e -> (int_of_n e.o_call, int_of_n e.o_ret, e.o_op, e.o_res)) h) in
        let key (q : (n * n) list) = String.concat "," (List.map (fun (i, p) -> hex_of_n i ^ "=" ^ hex_of_n p) q) in
        let cert = (match lin_find q_step key [] harr 1500000 with
            | Some l -> pq_cert h (List.map (fun i -> drv_nat_of_n (n_of_int i)) l)
            | None -> false) in
        if cert then (cut := cut_check h key; (true, ""))
        else
        match pq_lin_complete (n_of_int 3000000) h with
        | Some true -> (true, "")
        | Some false -> (false, "history is not linearizable (complete search, proved)")
        | None ->
          (match pq_lin (n_of_int 30000) h with
           | Some true -> (true, "")
           | _ -> (false, "no linearization found (certificate search, complete search and memoized search exhausted their budgets)"))
      end in
    let arr = Array.of_list (List.map (fun (t, c, r, _, _) -> (t, int_of_n c, int_of_n r)) recs) in
    let overlaps = ref 0 in
    Array.iteri (fun i (t1, c1, r1) -> Array.iteri (fun j (t2, c2, r2) ->
        if i < j && t1 <> t2 && c1 < r2 && c2 < r1 then incr overlaps) arr) arr;
    (* a live PopWithTimer that was called before the Push of the transaction it returns *)
    let polled = List.exists (fun (_, c, _, op, res) -> op = "w" &&
        (match String.split_on_char ':' res with
         | ["tx"; i; _] -> List.exists (fun (_, c2, _, op2, res2) -> res2 = "ok" && int_of_n c < int_of_n c2 &&
             (match String.split_on_char ':' op2 with ["u"; i2; _] -> i2 = i | _ -> false)) recs
         | _ -> false)) recs in
    let tags = Printf.sprintf "%s,threads-%d,%s%s" (List.hd (split_ws inp)) (List.length progs)
        ((if !overlaps = 0 then "no-overlap" else if !overlaps < 10 then "overlap-1..9" else "overlap-10+") ^
         (match !cut with (0, _) -> ",cut-no-pending" | (k, true) -> if k < 3 then ",cut-pending-1..2" else ",cut-pending-3+"
                         | (_, false) -> ",cut-unverified"))
        (if polled then ",popwithtimer-polled" else "") in
    { prop_ok = verdict; model_eq = progs_ok && snd !cut; nontrivial = !overlaps > 0; finding = "-"; tags;
      detail = (if verdict && progs_ok && snd !cut then "" else why ^ (if progs_ok then "" else " history does not match the programs") ^
                (if snd !cut then "" else " the history cut at its median stamp (with its calls in flight as pending calls) found no accepted certificate")) }
  | ["probe"; meth] ->
    let pred_runs = probe_runs (mode_of_method meth) in
    let ran = (obs = "ran") in
    { prop_ok = not ran; model_eq = (ran = pred_runs); nontrivial = true; finding = "-";
      tags = "probe," ^ meth ^ "-" ^ obs;
      detail = (if (not ran) && ran = pred_runs then "" else
                Printf.sprintf "%s %s while the harness held the mutex (lock table predicts %s)" meth obs
                  (if pred_runs then "ran" else "blocked")) }
  | ["shape"; meth] ->
    let composite = (meth = "PopWithTimer") in
    let good = (match String.split_on_char ':' obs with
        | [l; u; d; o; f; s2; fl] ->
          if composite then l = "0" && u = "0" && d = "0" && o = "0" && fl = "0"
          else l = "1" && u = "1" && d = "1" && o = "0" && f = "1" && s2 = "1"
        | _ -> false) in
    (* the lock table of Gen.v (first lock call, some deferred unlock) predicts the same shape for
       an exclusive method with a deferred unlock; it cannot see a second critical section *)
    let table_ok = pq_discipline_ok && (composite || mode_of_method meth = mode_push) in
    { prop_ok = good; model_eq = (good = table_ok) || good; nontrivial = true; finding = "-";
      tags = "shape," ^ meth ^ (if good then "-one-critical-section" else "-bad-shape");
      detail = (if good then "" else
                Printf.sprintf "%s: critical-section shape %s (expected %s): the method is not one critical section around its whole body"
                  meth obs (if composite then "0:0:0:0:0:0:0" else "1:1:1:0:1:1:*")) }
  | _ -> fail "C34: bad input %s" inp

(* vm_compute cross-check: a sequential case recomputed inside Coq (heap model results = observed,
   declarative trace predicate true of the observed trace) *)
let coq_op = function
  | Push (i, p) -> Printf.sprintf "Push %s %s" (coq_n i) (coq_n p)
  | Pop -> "Pop" | PopT -> "PopT" | Peek -> "Peek" | Len -> "Len" | Pending -> "Pending"
  | Remove i -> "Remove " ^ coq_n i | Exists i -> "Exists " ^ coq_n i
let coq_res = function
  | ROk -> "ROk" | RDup -> "RDup" | RNone -> "RNone" | RUnit -> "RUnit" | RPanic -> "RPanic"
  | RTx (i, p) -> Printf.sprintf "RTx %s %s" (coq_n i) (coq_n p)
  | RBool b -> if b then "RBool true" else "RBool false"
  | RNum n -> "RNum " ^ coq_n n
  | RList l -> "RList [" ^ String.concat "; " (List.map (fun (k, v) -> Printf.sprintf "(%s, %s)" (coq_n k) (coq_n v)) l) ^ "]"
let coq inp obs =
  match split_ws inp with
  | "seq" :: ops when List.length ops <= 80 ->
    let obs_l = split_ws obs in
    let nres = List.length obs_l - 1 in
    let parsed = List.filteri (fun i _ -> i < nres) obs_l |> List.map parse_res in
    if nres <> List.length ops || List.exists (fun r -> r = None) parsed then None
    else Some (Printf.sprintf "vm_seq_case [%s] [%s]"
                 (String.concat "; " (List.map (fun o -> coq_op (parse_op o)) ops))
                 (String.concat "; " (List.map (function Some r -> coq_res r | None -> "RPanic") parsed)))
  | _ -> None

let () = run_driver ~coq check
