// C34 correspondence harness (injected into package lib/transaction by `go test -overlay`).
//
// A transaction is identified by a number id: its extrinsic is the 8-byte big-endian encoding of id.
//
// inputs (fields separated by one space, numbers in hex):
//
//	seq <op>...                         one queue, operations applied sequentially
//	conc  <prefill> <prog0> <prog1>...  prefill sequentially, then one goroutine per prog, free running
//	concl <prefill> <prog0> ...         lockstep: a spin barrier before every call
//	concg <prefill> <prog0> ...         lockstep, and the harness holds spq.Lock() until every call of
//	                                    the round is pending (methods that take no lock run anyway)
//	                                    (a prog is ops joined by ',', "-" when empty)
//	conct <prefill> <prog0> ...         free running, goroutine t starts 3*t ms late: with prog0 = w on
//	                                    an empty queue the polling loop of PopWithTimer is what
//	                                    takes the transaction a later goroutine pushes
//	probe <method>                      hold spq.Lock() in the harness and call the method from
//	                                    another goroutine
//	shape <method>                      the critical-section shape of the method, read from
//	                                    priority_queue.go with go/parser (see c34Shape)
//	ops:  u:<id>:<prio> Push   o Pop   t PopWithTimer(expired timer)   k Peek   r:<id> RemoveExtrinsic
//	      e:<id> Exists        n Len   g Pending
//	      w PopWithTimer with a live timer (40 ms in seq, 2 s in conc*)
//
// In gate mode the harness keeps the mutex for 1.5 ms after the last call of the round is pending:
// then releases it and takes it back at once (barging) for 0.1 ms.  The caller woken by the release
// finds the mutex taken after having waited longer than 1 ms and switches sync.Mutex to starvation
// mode (FIFO hand-off, no barging): a method that takes the mutex twice (check in one critical
// section, act in another) is then really interleaved with the other calls of the round — measured
// on a check-then-act Push: 199 of 200 rounds accept a duplicate, against 0 of 200 without this.
//
// observables:
//
//	seq   -> one result per op, then "idx:ok" | "idx:bad" (Item.index == position for every item,
//	         txs map consistent with the array):
//	         ok | dup | tx:<id>:<prio> | nil | u | b:0 | b:1 | n:<len> | l:<id>=<prio>,... | l:- | panic
//	conc* -> one record per completed call, in no particular order:
//	         <tid>/<call stamp>/<ret stamp>/<op>/<result>   (prefill tid fe, final "g" has tid ff)
//	probe -> blocked | ran
//	shape -> <locks>:<unlocks>:<deferred unlocks>:<other lock calls>:<recv.Lock() first>:
//	         <defer recv.Unlock() next>:<field accesses>   (all numbers hex; "missing")
package transaction

import (
	"encoding/binary"
	"fmt"
	"go/ast"
	"go/parser"
	"go/token"
	"os"
	"runtime"
	"strings"
	"sync"
	"sync/atomic"
	"testing"
	"time"

	"github.com/ChainSafe/gossamer/dot/types"
	vu "github.com/ChainSafe/gossamer/internal/verifutil"
)

func c34Ext(id uint64) types.Extrinsic {
	b := make([]byte, 8)
	binary.BigEndian.PutUint64(b, id)
	return types.Extrinsic(b)
}

func c34Tx(vt *ValidTransaction) string {
	if vt == nil {
		return "nil"
	}
	if len(vt.Extrinsic) != 8 || vt.Validity == nil {
		return "tx:bad"
	}
	return "tx:" + vu.X(binary.BigEndian.Uint64(vt.Extrinsic)) + ":" + vu.X(vt.Validity.Priority)
}

func c34List(l []*ValidTransaction) string {
	if len(l) == 0 {
		return "l:-"
	}
	out := make([]string, len(l))
	for i, vt := range l {
		if vt == nil || len(vt.Extrinsic) != 8 || vt.Validity == nil {
			out[i] = "bad"
			continue
		}
		out[i] = vu.X(binary.BigEndian.Uint64(vt.Extrinsic)) + "=" + vu.X(vt.Validity.Priority)
	}
	return "l:" + strings.Join(out, ",")
}

var c34Expired = func() <-chan time.Time {
	ch := make(chan time.Time)
	close(ch)
	return ch
}()

// the live timer of op w: short in sequential cases (an empty queue answers nil when it fires),
// long in concurrent ones (another goroutine pushes meanwhile)
var c34Live = 40 * time.Millisecond

func c34Do(q *PriorityQueue, op string) (res string) {
	defer func() {
		if p := recover(); p != nil {
			res = "panic"
		}
	}()
	f := strings.Split(op, ":")
	switch f[0] {
	case "u":
		id := vu.UnX(f[1])
		_, err := q.Push(&ValidTransaction{Extrinsic: c34Ext(id), Validity: &Validity{Priority: vu.UnX(f[2])}})
		if err == ErrTransactionExists {
			return "dup"
		} else if err != nil {
			return "err"
		}
		return "ok"
	case "o":
		return c34Tx(q.Pop())
	case "t":
		return c34Tx(q.PopWithTimer(c34Expired))
	case "w":
		tm := time.NewTimer(c34Live)
		defer tm.Stop()
		return c34Tx(q.PopWithTimer(tm.C))
	case "k":
		return c34Tx(q.Peek())
	case "r":
		q.RemoveExtrinsic(c34Ext(vu.UnX(f[1])))
		return "u"
	case "e":
		if q.Exists(c34Ext(vu.UnX(f[1])).Hash()) {
			return "b:1"
		}
		return "b:0"
	case "n":
		return "n:" + vu.X(uint64(q.Len()))
	case "g":
		return c34List(q.Pending())
	}
	return "badop"
}

// c34Idx checks the bookkeeping the heap relies on: Item.index is the position of the item and
// the txs map holds exactly the items of the array.
func c34Idx(q *PriorityQueue) string {
	q.Lock()
	defer q.Unlock()
	if len(q.txs) != len(q.pq) {
		return "idx:bad"
	}
	for i, it := range q.pq {
		if it == nil || it.index != i || q.txs[it.hash] != it || it.data == nil || it.data.Extrinsic.Hash() != it.hash {
			return "idx:bad"
		}
	}
	return "idx:ok"
}

func c34Prog(s string) []string {
	if s == "-" || s == "" {
		return nil
	}
	return strings.Split(s, ",")
}

type c34Rec struct {
	tid       int
	call, ret uint64
	op, res   string
}

type c34Barrier struct {
	n     int32
	count atomic.Int32
	gen   atomic.Int32
}

func (b *c34Barrier) wait() {
	g := b.gen.Load()
	if b.count.Add(1) == b.n {
		b.count.Store(0)
		b.gen.Add(1)
		return
	}
	for i := 0; b.gen.Load() == g; i++ {
		if i > 3000 {
			runtime.Gosched()
		}
	}
}

func c34Conc(prefill []string, progs [][]string, mode string) string {
	lockstep := mode == "concl" || mode == "concg"
	gate := mode == "concg"
	timed := mode == "conct"
	q := NewPriorityQueue()
	var clock atomic.Uint64
	var all []c34Rec
	for _, op := range prefill {
		k := clock.Add(1)
		r := c34Do(q, op)
		all = append(all, c34Rec{0xfe, k, clock.Add(1), op, r})
	}
	T := len(progs)
	recs := make([][]c34Rec, T)
	rounds := 0
	for _, p := range progs {
		if len(p) > rounds {
			rounds = len(p)
		}
	}
	bar := &c34Barrier{n: int32(T)}
	if gate {
		bar.n++
	}
	var called, returned atomic.Int32
	var wg sync.WaitGroup
	for t := 0; t < T; t++ {
		wg.Add(1)
		go func(t int) {
			defer wg.Done()
			if !lockstep {
				bar.wait()
			}
			if timed {
				time.Sleep(time.Duration(3*t) * time.Millisecond)
			}
			for i := 0; i < rounds; i++ {
				if lockstep {
					bar.wait()
				}
				if i >= len(progs[t]) {
					continue
				}
				op := progs[t][i]
				k := clock.Add(1)
				called.Add(1)
				r := c34Do(q, op)
				recs[t] = append(recs[t], c34Rec{t, k, clock.Add(1), op, r})
				returned.Add(1)
			}
		}(t)
	}
	if gate {
		want := int32(0)
		for i := 0; i < rounds; i++ {
			for t := 0; t < T; t++ {
				if i < len(progs[t]) {
					want++
				}
			}
			q.Lock()
			bar.wait()
			for called.Load() < want {
				runtime.Gosched()
			}
			// let every caller park on the mutex and wait long enough (> 1 ms) for the
			// mutex to go into starvation mode once the first of them is barged
			time.Sleep(1500 * time.Microsecond)
			q.Unlock()
			q.Lock() // barge: the woken caller finds the mutex taken again after > 1 ms of waiting
			time.Sleep(100 * time.Microsecond)
			q.Unlock()
			for returned.Load() < want {
				runtime.Gosched()
			}
		}
	}
	wg.Wait()
	for t := 0; t < T; t++ {
		all = append(all, recs[t]...)
	}
	k := clock.Add(1)
	d := c34Do(q, "g")
	if c34Idx(q) != "idx:ok" {
		d = "corrupt"
	}
	all = append(all, c34Rec{0xff, k, clock.Add(1), "g", d})
	out := make([]string, len(all))
	for i, r := range all {
		out[i] = fmt.Sprintf("%x/%x/%x/%s/%s", r.tid, r.call, r.ret, r.op, r.res)
	}
	return strings.Join(out, " ")
}

// c34Probe: the harness holds spq.Lock(); does the method run anyway?
func c34Probe(method string) string {
	q := NewPriorityQueue()
	c34Do(q, "u:1:5")
	c34Do(q, "u:2:7")
	q.Lock()
	done := make(chan struct{})
	go func() {
		defer close(done)
		defer func() { _ = recover() }()
		switch method {
		case "Exists":
			q.Exists(c34Ext(1).Hash())
		case "Len":
			q.Len()
		case "Peek":
			q.Peek()
		case "Pending":
			q.Pending()
		case "Pop":
			q.Pop()
		case "PopWithTimer":
			q.PopWithTimer(c34Expired)
		case "Push":
			_, _ = q.Push(&ValidTransaction{Extrinsic: c34Ext(3), Validity: &Validity{Priority: 1}})
		case "RemoveExtrinsic":
			q.RemoveExtrinsic(c34Ext(1))
		}
	}()
	ran := false
	select {
	case <-done:
		ran = true
	case <-time.After(60 * time.Millisecond):
	}
	q.Unlock()
	<-done
	if ran {
		return "ran"
	}
	return "blocked"
}

// c34Shape reads priority_queue.go (the file under test, in the package directory) and reports
// the critical-section shape of one method of PriorityQueue:
//
//	locks      calls of <recv>.Lock()          unlocks    calls of <recv>.Unlock()
//	deferred   ... of which in a defer         other      RLock/RUnlock/TryLock/TryRLock calls
//	first      1 when <recv>.Lock() is a statement of the body and no statement before it
//	           mentions the receiver
//	second     1 when the statement right after it is defer <recv>.Unlock()
//	fields     selector expressions <recv>.pq / .txs / .currOrder anywhere in the body
//
// The theorem C34_linearizable models a method as ONE critical section around the whole body:
// that is the shape 1:1:1:0:1:1:* .  The composite PopWithTimer must touch no field: 0:0:0:0:0:0:0.
func c34Shape(method string) string {
	fset := token.NewFileSet()
	file, err := parser.ParseFile(fset, "priority_queue.go", nil, 0)
	if err != nil {
		return "err:parse"
	}
	for _, d := range file.Decls {
		fd, ok := d.(*ast.FuncDecl)
		if !ok || fd.Recv == nil || len(fd.Recv.List) != 1 || fd.Body == nil || fd.Name.Name != method {
			continue
		}
		st, ok := fd.Recv.List[0].Type.(*ast.StarExpr)
		if !ok {
			continue
		}
		if id, ok := st.X.(*ast.Ident); !ok || id.Name != "PriorityQueue" {
			continue
		}
		if len(fd.Recv.List[0].Names) != 1 {
			return "err:receiver"
		}
		recv := fd.Recv.List[0].Names[0].Name
		isRecvCall := func(e ast.Expr, name string) bool {
			ce, ok := e.(*ast.CallExpr)
			if !ok {
				return false
			}
			sel, ok := ce.Fun.(*ast.SelectorExpr)
			if !ok || sel.Sel.Name != name {
				return false
			}
			id, ok := sel.X.(*ast.Ident)
			return ok && id.Name == recv
		}
		var locks, unlocks, deferred, other, fields uint64
		ast.Inspect(fd.Body, func(n ast.Node) bool {
			switch x := n.(type) {
			case *ast.DeferStmt:
				if isRecvCall(x.Call, "Unlock") {
					deferred++
				}
			case *ast.CallExpr:
				if sel, ok := x.Fun.(*ast.SelectorExpr); ok {
					switch sel.Sel.Name {
					case "Lock":
						locks++
					case "Unlock":
						unlocks++
					case "RLock", "RUnlock", "TryLock", "TryRLock":
						other++
					}
				}
			case *ast.SelectorExpr:
				if id, ok := x.X.(*ast.Ident); ok && id.Name == recv {
					switch x.Sel.Name {
					case "pq", "txs", "currOrder":
						fields++
					}
				}
			}
			return true
		})
		// first: <recv>.Lock() is a top-level statement and nothing before it mentions the receiver;
		// second: the statement right after it is defer <recv>.Unlock()
		first, second := uint64(0), uint64(0)
		for i, stmt := range fd.Body.List {
			if es, ok := stmt.(*ast.ExprStmt); ok && isRecvCall(es.X, "Lock") {
				first = 1
				if i+1 < len(fd.Body.List) {
					if ds, ok := fd.Body.List[i+1].(*ast.DeferStmt); ok && isRecvCall(ds.Call, "Unlock") {
						second = 1
					}
				}
				break
			}
			mentions := false
			ast.Inspect(stmt, func(n ast.Node) bool {
				if id, ok := n.(*ast.Ident); ok && id.Name == recv {
					mentions = true
				}
				return true
			})
			if mentions {
				break
			}
		}
		return fmt.Sprintf("%x:%x:%x:%x:%x:%x:%x", locks, unlocks, deferred, other, first, second, fields)
	}
	return "missing"
}

func c34Run(in string) string {
	f := strings.Split(in, " ")
	switch f[0] {
	case "seq":
		q := NewPriorityQueue()
		out := make([]string, 0, len(f))
		for _, op := range f[1:] {
			out = append(out, c34Do(q, op))
		}
		out = append(out, c34Idx(q))
		return strings.Join(out, " ")
	case "shape":
		return c34Shape(f[1])
	case "conc", "concl", "concg", "conct":
		if f[0] == "conct" {
			c34Live = 2 * time.Second
			defer func() { c34Live = 40 * time.Millisecond }()
		}
		progs := make([][]string, 0, len(f)-2)
		for _, p := range f[2:] {
			progs = append(progs, c34Prog(p))
		}
		return c34Conc(c34Prog(f[1]), progs, f[0])
	case "probe":
		return c34Probe(f[1])
	}
	return "err:badinput"
}

// priorities from a small set so that ties are the rule; ids from a small set so that duplicates,
// removals of present ids and membership queries of present ids are frequent
func c34Op(r *vu.RNG, nids, nprio int, observers bool) string {
	id := uint64(r.Intn(nids))
	x := r.Intn(20)
	switch {
	case x < 8:
		if r.Chance(1, 5) {
			// priorities are uint64: values around 2^63 and 2^64 catch comparisons done by
			// subtraction or through a signed conversion
			b := []uint64{0, 1, 1<<63 - 1, 1 << 63, 1<<63 + 1, ^uint64(0) - 1, ^uint64(0)}
			return "u:" + vu.X(id) + ":" + vu.X(b[r.Intn(len(b))])
		}
		return "u:" + vu.X(id) + ":" + vu.X(uint64(r.Intn(nprio)))
	case x < 11:
		return "o"
	case x < 12:
		return "t"
	case x < 14:
		return "r:" + vu.X(id)
	case x < 16:
		return "e:" + vu.X(id)
	case x < 17:
		return "k"
	case x < 18:
		return "n"
	default:
		if observers {
			return "g"
		}
		return "k"
	}
}

func c34GenSeq(r *vu.RNG) string {
	nids := r.Range(3, 24)
	nprio := r.Range(1, 4)
	n := r.Range(4, 70)
	ops := make([]string, 0, n+1)
	switch r.Intn(5) {
	case 0: // many equal priorities, then drain completely: FIFO among equals
		m := r.Range(3, 15)
		for i := 0; i < m; i++ {
			ops = append(ops, fmt.Sprintf("u:%x:%x", i, r.Intn(2)))
		}
		for i := 0; i <= m; i++ {
			ops = append(ops, "o")
		}
	case 1: // build a heap, remove from the middle (heap.Remove: down, else up), drain
		m := r.Range(4, 20)
		for i := 0; i < m; i++ {
			ops = append(ops, fmt.Sprintf("u:%x:%x", i, r.Intn(6)))
		}
		for i := 0; i < 3; i++ {
			ops = append(ops, fmt.Sprintf("r:%x", r.Intn(m)), "g")
		}
		for i := 0; i < m; i++ {
			ops = append(ops, "o")
		}
	}
	for len(ops) < n {
		ops = append(ops, c34Op(r, nids, nprio, true))
	}
	ops = append(ops, "g")
	return "seq " + strings.Join(ops, " ")
}

func c34GenConc(r *vu.RNG) string {
	nids := r.Range(2, 8)
	nprio := r.Range(1, 3)
	T := r.Range(2, 8)
	per := r.Range(3, 48/T)
	pre := []string{}
	for i := 0; i < nids && r.Chance(1, 2); i++ {
		pre = append(pre, fmt.Sprintf("u:%x:%x", i, r.Intn(nprio)))
	}
	parts := []string{"-"}
	if len(pre) > 0 {
		parts[0] = strings.Join(pre, ",")
	}
	for t := 0; t < T; t++ {
		ops := make([]string, per)
		for i := range ops {
			ops[i] = c34Op(r, nids, nprio, false)
		}
		parts = append(parts, strings.Join(ops, ","))
	}
	kw := []string{"conc", "concl", "concl", "concg", "concg"}[r.Intn(5)]
	return kw + " " + strings.Join(parts, " ")
}

// c34GenTimed: PopWithTimer with a live timer on a queue that is empty (or is emptied by
// goroutine 0 itself) while later goroutines push: the transaction is taken by the polling loop.
func c34GenTimed(r *vu.RNG) string {
	T := r.Range(2, 4)
	parts := []string{"-"}
	p0 := []string{}
	if r.Chance(1, 3) {
		parts[0] = "u:0:1"
		p0 = append(p0, "o")
	}
	p0 = append(p0, "w")
	if r.Chance(1, 2) {
		p0 = append(p0, []string{"k", "n", "e:1"}[r.Intn(3)])
	}
	parts = append(parts, strings.Join(p0, ","))
	for t := 1; t < T; t++ {
		ops := []string{fmt.Sprintf("u:%x:%x", t, r.Intn(2))}
		if r.Chance(1, 2) {
			ops = append(ops, []string{"e:1", "n", "k", "u:1:1"}[r.Intn(4)])
		}
		parts = append(parts, strings.Join(ops, ","))
	}
	return "conct " + strings.Join(parts, " ")
}

var c34Methods = []string{"Exists", "Len", "Peek", "Pending", "Pop", "PopWithTimer", "Push", "RemoveExtrinsic"}

// c34Broken probes the lock discipline directly: when a method runs while the harness holds the
// mutex, the concurrent cases are not run (unsynchronised map writes make the Go runtime abort the
// whole process, and the trace with it); the probe cases report the defect.
func c34Broken() bool {
	for _, m := range c34Methods {
		if c34Probe(m) != "blocked" {
			return true
		}
	}
	return false
}

func c34Gen(r *vu.RNG, n int, emit func(string)) {
	for _, m := range c34Methods {
		emit("probe " + m)
	}
	for _, m := range c34Methods {
		emit("shape " + m)
	}
	broken := c34Broken()
	if os.Getenv("VERIF_MODE") == "stress" {
		for i := 0; i < n && !broken; i++ {
			emit(c34GenConc(r))
		}
		return
	}
	emit("seq")
	emit("seq o t k n g e:0 r:0")
	emit("seq u:1:5 u:2:5 u:3:9 u:4:1 u:2:7 g k n e:2 r:2 e:2 g o o u:5:5 u:6:5 u:7:5 r:1 g o o o o o t n")
	for i := 0; i < n; i++ {
		emit(c34GenSeq(r))
	}
	emit("seq w u:1:1 w w n")
	emit("seq u:1:1 u:2:2 w w w g")
	for i := 0; i < n/25 && !broken; i++ {
		emit(c34GenConc(r))
	}
	for i := 0; i < n/250 && !broken; i++ {
		emit(c34GenTimed(r))
	}
}

func TestVerifC34(t *testing.T) { vu.Run(t, "C34", 4000, c34Gen, c34Run) }
