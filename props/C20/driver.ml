(* C20 driver: replays every history of the Go trace on the specification
   Grandpa.RoundSpec.round_state_of and compares, after EVERY import, the round state of the Go
   Round with the paper definitions evaluated on the votes imported so far.
   prop_ok  : on every prefix whose two vote sets are tolerant (the domain of the paper
              definitions), ghost / finalized / estimate / completable / precommit-ghost agree;
              with tolerant prevotes the prevote ghost and the finalized block agree whatever the
              precommits, with tolerant precommits the precommit ghost agrees.
   model_eq : additionally, on ALL prefixes: the import flags and the participation counters
              agree; finalized / estimate equal C20.Model.state_at (Round.update with its wrapping
              uint64 accounting, possible_go) applied to the prevote ghost in use, and the round is
              completable whenever state_at says so;
              a ghost of an intolerant set (not defined by the paper) is defined exactly when the
              threshold is reached and has a supermajority. *)
open Model
open Vutil

let list_of s = if s = "-" || s = "" then [] else String.split_on_char ',' s
let blk_str = function None -> "-" | Some b -> Printf.sprintf "%x" (int_of_nat b)

let check inp obs =
  match split_ws inp with
  | ["r"; ps; ls; wss; ops] ->
    let t = List.map (fun x -> nat_of_int (int_of_string ("0x" ^ x))) (list_of ps) in
    let ws = List.map n_of_hex (list_of wss) in
    let labels = Array.of_list (List.map (fun x -> nat_of_int (int_of_string ("0x" ^ x))) (list_of ls)) in
    let lbl b = let i = int_of_nat b in if i < Array.length labels then labels.(i) else O in
    let ops = list_of ops in
    let obs_all = list_of obs in
    (* the last entry of the observation is the dump of the vote graph *)
    let (obs_l, graph_dump) =
      (match List.rev obs_all with
       | g :: r when String.length g >= 2 && String.sub g 0 2 = "G:" ->
         (List.rev r, Some (String.sub g 2 (String.length g - 2)))
       | _ -> (obs_all, None)) in
    let mirror = ref rinit in
    if List.length ops <> List.length obs_l then
      { prop_ok = false; model_eq = false; nontrivial = false; finding = "-"; tags = "shape";
        detail = "observed " ^ obs }
    else begin
      let v = ref [] and c = ref [] in          (* newest first; order is irrelevant to the spec *)
      let hv = ref [] and hc = ref [] in        (* oldest first, for the flags *)
      let prop = ref true and eq = ref true and detail = ref "" in
      let tags = Hashtbl.create 16 in
      let tag s = Hashtbl.replace tags s () in
      let nontriv = ref false in
      List.iteri (fun i (op, ob) ->
        let ph = op.[0] in
        let x = (match String.split_on_char '.' (String.sub op 1 (String.length op - 1)) with
          | [a; b; s] -> { vvoter = nat_of_int (int_of_string ("0x" ^ a));
                           vblock = nat_of_int (int_of_string ("0x" ^ b));
                           vsig = nat_of_int (int_of_string ("0x" ^ s)) }
          | _ -> fail "bad op %s" op) in
        let flags = if ph = 'p' then import_flags ws !hv x else import_flags ws !hc x in
        if ph = 'p' then (v := x :: !v; hv := !hv @ [x]) else (c := x :: !c; hc := !hc @ [x]);
        (* the Tier A mirror of Round / VoteGraph (C20.Graph), replayed on every prefix *)
        mirror := step_op t lbl ws (if ph = 'p' then O else S O) x !mirror;
        let ms = observed !mirror in
        let mirror_st = Printf.sprintf "%s:%s:%s:%s:%s" (blk_str ms.rs_ghost) (blk_str ms.rs_finalized)
            (blk_str ms.rs_estimate) (if ms.rs_completable then "1" else "0") (blk_str ms.rs_pc_ghost) in
        let rs = round_state_of t ws !v !c in
        let tol_v = tolerant ws !v and tol_c = tolerant ws !c in
        let dom = tol_v && tol_c in
        let st = Printf.sprintf "%s:%s:%s:%s:%s" (blk_str rs.rs_ghost) (blk_str rs.rs_finalized)
            (blk_str rs.rs_estimate) (if rs.rs_completable then "1" else "0") (blk_str rs.rs_pc_ghost) in
        let part = Printf.sprintf "%s.%x:%s.%x" (hex_of_n (cur_weight ws !v)) (int_of_nat (participants ws !v))
            (hex_of_n (cur_weight ws !c)) (int_of_nat (participants ws !c)) in
        let parse_blk s = if s = "-" then Some None else
            (try Some (Some (nat_of_int (int_of_string ("0x" ^ s)))) with _ -> None) in
        let fail_prop m = prop := false; if !detail = "" then detail := Printf.sprintf "after op %d (%s): %s" i op m in
        let fail_eq m = eq := false; if !detail = "" then detail := Printf.sprintf "after op %d (%s): %s" i op m in
        (* a ghost the paper does not define (intolerant set): it must at least be defined exactly
           when the votes seen reach the threshold and have a supermajority *)
        let relaxed_ghost what set go =
          let defined = N.leb (threshold ws) (cur_weight ws set) in
          (match go with
           | None -> if defined then fail_eq (what ^ " ghost missing although the threshold is reached")
           | Some g ->
             if not defined then fail_eq (what ^ " ghost below the threshold")
             else if not (has_supermajority t ws set g) then fail_eq (what ^ " ghost without a supermajority")
             else if List.exists (has_supermajority t ws set) (children t g) then
               (* not demanded: with equivocators above the tolerance every block has a
                  supermajority, also blocks the vote graph has no node for *)
               tag "intolerant-ghost-not-maximal") in
        (match String.split_on_char ':' ob with
         | [fl; g; f; e; cp; pg; p1; p2] ->
           let ost = String.concat ":" [g; f; e; cp; pg] in
           let opart = p1 ^ ":" ^ p2 in
           if ost <> mirror_st then fail_eq (Printf.sprintf "go=%s graph-mirror=%s" ost mirror_st);
           if dom then begin
             if ost <> st then fail_prop (Printf.sprintf "go=%s spec=%s" ost st)
           end else begin
             tag "intolerant-prefix";
             (match parse_blk g, parse_blk f, parse_blk e, parse_blk pg with
              | Some gg, Some gf, Some ge, Some gpg when cp = "0" || cp = "1" ->
                (* the ghost Round.update works from *)
                let base_ghost =
                  if tol_v then begin
                    tag "pc-intolerant";
                    (* prevote ghost and finalized block are the paper's whatever the precommits *)
                    if g <> blk_str rs.rs_ghost then fail_prop (Printf.sprintf "prevote ghost go=%s spec=%s" g (blk_str rs.rs_ghost));
                    if f <> blk_str rs.rs_finalized then fail_prop (Printf.sprintf "finalized go=%s spec=%s" f (blk_str rs.rs_finalized));
                    rs.rs_ghost
                  end else begin
                    tag "pv-intolerant";
                    relaxed_ghost "prevote" !v gg; gg
                  end in
                (* finalized / estimate / completable: Round.update with its wrapping accounting *)
                let ((mf, me), mc) = state_at t ws (possible_go t ws) base_ghost !c in
                (* completable is compared in one direction only: outside the domain the vote graph
                   has no node for the second vote of an equivocator, so Go can see fewer possible
                   children of the ghost than the block tree has (never more) *)
                let mst = Printf.sprintf "%s:%s" (blk_str mf) (blk_str me) in
                let gst = String.concat ":" [f; e] in
                if gst <> mst then fail_eq (Printf.sprintf "finalized:estimate go=%s update-model=%s (from ghost %s)" gst mst (blk_str base_ghost))
                else if mc && cp <> "1" then fail_eq (Printf.sprintf "not completable although no child of the ghost %s is possible" (blk_str base_ghost))
                else if (not mc) && cp = "1" then tag "completable-by-graph-only";
                ignore gf; ignore ge;
                let ((sf, se), sc) = state_at t ws (possible t ws) base_ghost !c in
                if (sf, se, sc) <> (mf, me, mc) then tag "wrap-differs";
                if tol_c then begin
                  if pg <> blk_str rs.rs_pc_ghost then fail_prop (Printf.sprintf "precommit ghost go=%s spec=%s" pg (blk_str rs.rs_pc_ghost))
                end else relaxed_ghost "precommit" !c gpg
              | _ -> fail_prop ("malformed observation " ^ ob))
           end;
           if fl <> hex_of_n flags || opart <> part then
             fail_eq (Printf.sprintf "flags/participation go=%s,%s model=%s,%s" fl opart (hex_of_n flags) part);
           if dom then begin
             (match rs.rs_ghost with Some _ -> tag "ghost" | None -> tag "no-ghost");
             (match rs.rs_finalized with Some _ -> (tag "finalized"; nontriv := true) | None -> ());
             (match rs.rs_estimate, rs.rs_ghost with
              | Some e, Some g -> if e <> g then tag "estimate<ghost" else tag "estimate=ghost"
              | None, Some _ -> tag "estimate-none"
              | _ -> ());
             if rs.rs_completable then tag "completable";
             (match rs.rs_pc_ghost with Some _ -> tag "pc-ghost" | None -> ());
             if eq_weight ws !v <> N0 then tag "pv-equivocation";
             if eq_weight ws !c <> N0 then tag "pc-equivocation";
             if List.length ws > 32 then tag "multiword-bitfield";
             (match rs.rs_ghost with Some g -> if g <> O then nontriv := true | None -> ())
           end;
           (match hex_of_n flags with
            | "0" -> tag "unknown-voter" | "3" -> tag "duplicate" | "5" -> tag "equivocation-reported" | _ -> ())
         | _ -> prop := false; if !detail = "" then detail := "malformed observation " ^ ob))
        (List.combine ops obs_l);
      (* the vote graph itself: entries, ancestor edges, descendants, cumulative votes *)
      (match graph_dump with
       | Some gd ->
         let hx x = Printf.sprintf "%x" (int_of_nat x) in
         let join l = if l = [] then "-" else String.concat "." l in
         let ents = List.sort (fun (a, _) (b, _) -> compare (int_of_nat a) (int_of_nat b)) !mirror.r_G in
         let md = String.concat ";" (List.map (fun (b, e) ->
             Printf.sprintf "%s/%s/%s/%s" (hx b) (join (List.map hx e.g_anc))
               (join (List.map (Printf.sprintf "%x") (List.sort compare (List.map int_of_nat e.g_desc))))
               (join (List.map (Printf.sprintf "%x") (List.sort_uniq compare (List.map int_of_nat e.g_cum))))) ents) in
         if md <> gd then begin
           eq := false; tag "graph-differs";
           if !detail = "" then detail := Printf.sprintf "vote graph: go=%s mirror=%s" gd md
         end else tag "graph-equal";
         if List.exists (fun (_, e) -> List.length e.g_desc >= 2) !mirror.r_G then tag "graph-fork-node"
       | None -> if ops <> [] then begin eq := false; if !detail = "" then detail := "no graph dump" end);
      let tl = Hashtbl.fold (fun k () acc -> k :: acc) tags [] in
      { prop_ok = !prop; model_eq = !prop && !eq; nontrivial = !nontriv; finding = "-";
        tags = String.concat "," (List.sort compare tl); detail = !detail }
    end
  | _ -> fail "C20: bad input %s" inp

(* vm_compute cross-check of the extraction: the round state after the LAST import recomputed
   inside Coq (specification and update-model) and compared with the Go observables; rendered when
   both vote sets are tolerant at the end *)
let coq inp obs =
  match split_ws inp with
  | ["r"; ps; _; wss; ops] when ops <> "-" ->
    let t = List.map (fun x -> nat_of_int (int_of_string ("0x" ^ x))) (list_of ps) in
    let ws = List.map n_of_hex (list_of wss) in
    let parse op = (match String.split_on_char '.' (String.sub op 1 (String.length op - 1)) with
      | [a; b; s] -> (op.[0], int_of_string ("0x" ^ a), int_of_string ("0x" ^ b), int_of_string ("0x" ^ s))
      | _ -> fail "bad op %s" op) in
    let l = List.map parse (list_of ops) in
    let mk (_, a, b, sg) = { vvoter = nat_of_int a; vblock = nat_of_int b; vsig = nat_of_int sg } in
    let v = List.map mk (List.filter (fun (ph, _, _, _) -> ph = 'p') l)
    and c = List.map mk (List.filter (fun (ph, _, _, _) -> ph = 'c') l) in
    if List.length ws > 12 || List.length l > 40 || not (tolerant ws v && tolerant ws c) then None else begin
      let last = List.nth (list_of obs) (List.length l - 1) in   (* the graph dump comes after it *)
      match String.split_on_char ':' last with
      | [_; g; f; e; cp; pg; _; _] when cp = "0" || cp = "1" ->
        let ob s = if s = "-" then "None" else Printf.sprintf "(Some %d%%nat)" (int_of_string ("0x" ^ s)) in
        (try
          let votes l = "[" ^ String.concat "; " (List.map (fun (_, a, b, sg) -> Printf.sprintf "mkVote %d %d %d" a b sg) l) ^ "]" in
          let vs = votes (List.filter (fun (ph, _, _, _) -> ph = 'p') l)
          and cs = votes (List.filter (fun (ph, _, _, _) -> ph = 'c') l) in
          let tr = "[" ^ String.concat "; " (List.map (fun x -> string_of_int (int_of_nat x)) t) ^ "]%nat" in
          let wl = "[" ^ String.concat "; " (List.map coq_n ws) ^ "]" in
          let o = Printf.sprintf "(mkRS %s %s %s %s %s)" (ob g) (ob f) (ob e) (if cp = "1" then "true" else "false") (ob pg) in
          Some (Printf.sprintf "let t := %s in let ws := %s in let V := %s in let C := %s in rs_eqb (round_state_of t ws V C) %s && rs_eqb (round_state_go t ws V C) %s"
                  tr wl vs cs o o)
        with _ -> None)
      | _ -> None
    end
  | _ -> None

let () = run_driver ~coq check
