(* C20 driver: replays every history of the Go trace on the specification
   Grandpa.RoundSpec.round_state_of and compares, after EVERY import, the round state of the Go
   Round with the paper definitions evaluated on the votes imported so far.
   prop_ok  : on every prefix whose two vote sets are tolerant (the domain of the paper
              definitions), ghost / finalized / estimate / completable / precommit-ghost agree.
   model_eq : additionally the import flags and the participation counters agree (on all prefixes). *)
open Model
open Vutil

let list_of s = if s = "-" || s = "" then [] else String.split_on_char ',' s
let blk_str = function None -> "-" | Some b -> Printf.sprintf "%x" (int_of_nat b)

let check inp obs =
  match split_ws inp with
  | ["r"; ps; ls; wss; ops] ->
    let t = List.map (fun x -> nat_of_int (int_of_string ("0x" ^ x))) (list_of ps) in
    let ws = List.map n_of_hex (list_of wss) in
    let ops = list_of ops in
    let obs_l = list_of obs in
    if List.length ops <> List.length obs_l then
      { prop_ok = false; model_eq = false; nontrivial = false; finding = "-"; tags = "shape";
        detail = "observed " ^ obs }
    else begin
      let v = ref [] and c = ref [] in          (* newest first; order is irrelevant to the spec *)
      let hv = ref [] and hc = ref [] in        (* oldest first, for the flags *)
      let prop = ref true and eq = ref true and detail = ref "" in
      let tags = Hashtbl.create 16 in
      let tag s = Hashtbl.replace tags s () in
      let nontriv = ref false in
      List.iteri (fun i (op, ob) ->
        let ph = op.[0] in
        let x = (match String.split_on_char '.' (String.sub op 1 (String.length op - 1)) with
          | [a; b; s] -> { vvoter = nat_of_int (int_of_string ("0x" ^ a));
                           vblock = nat_of_int (int_of_string ("0x" ^ b));
                           vsig = nat_of_int (int_of_string ("0x" ^ s)) }
          | _ -> fail "bad op %s" op) in
        let flags = if ph = 'p' then import_flags ws !hv x else import_flags ws !hc x in
        if ph = 'p' then (v := x :: !v; hv := !hv @ [x]) else (c := x :: !c; hc := !hc @ [x]);
        let rs = round_state_of t ws !v !c in
        let dom = in_domain ws !v !c in
        let st = Printf.sprintf "%s:%s:%s:%s:%s" (blk_str rs.rs_ghost) (blk_str rs.rs_finalized)
            (blk_str rs.rs_estimate) (if rs.rs_completable then "1" else "0") (blk_str rs.rs_pc_ghost) in
        let part = Printf.sprintf "%s.%x:%s.%x" (hex_of_n (cur_weight ws !v)) (int_of_nat (participants ws !v))
            (hex_of_n (cur_weight ws !c)) (int_of_nat (participants ws !c)) in
        (match String.split_on_char ':' ob with
         | [fl; g; f; e; cp; pg; p1; p2] ->
           let ost = String.concat ":" [g; f; e; cp; pg] in
           let opart = p1 ^ ":" ^ p2 in
           if dom then begin
             if ost <> st then begin
               prop := false;
               if !detail = "" then detail := Printf.sprintf "after op %d (%s): go=%s spec=%s" i op ost st
             end
           end else tag "intolerant-prefix";
           if fl <> hex_of_n flags || opart <> part then begin
             eq := false;
             if !detail = "" then detail := Printf.sprintf "after op %d (%s): flags/participation go=%s,%s model=%s,%s" i op fl opart (hex_of_n flags) part
           end;
           if dom then begin
             (match rs.rs_ghost with Some _ -> tag "ghost" | None -> tag "no-ghost");
             (match rs.rs_finalized with Some _ -> (tag "finalized"; nontriv := true) | None -> ());
             (match rs.rs_estimate, rs.rs_ghost with
              | Some e, Some g -> if e <> g then tag "estimate<ghost" else tag "estimate=ghost"
              | None, Some _ -> tag "estimate-none"
              | _ -> ());
             if rs.rs_completable then tag "completable";
             (match rs.rs_pc_ghost with Some _ -> tag "pc-ghost" | None -> ());
             if eq_weight ws !v <> N0 then tag "pv-equivocation";
             if eq_weight ws !c <> N0 then tag "pc-equivocation";
             (match rs.rs_ghost with Some g -> if g <> O then nontriv := true | None -> ())
           end;
           (match hex_of_n flags with
            | "0" -> tag "unknown-voter" | "3" -> tag "duplicate" | "5" -> tag "equivocation-reported" | _ -> ())
         | _ -> prop := false; if !detail = "" then detail := "malformed observation " ^ ob))
        (List.combine ops obs_l);
      let tl = Hashtbl.fold (fun k () acc -> k :: acc) tags [] in
      { prop_ok = !prop; model_eq = !prop && !eq; nontrivial = !nontriv; finding = "-";
        tags = String.concat "," (List.sort compare tl); detail = !detail }
    end
  | _ -> fail "C20: bad input %s" inp

let () = run_driver check
