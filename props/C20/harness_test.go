// C20 correspondence harness (injected into package pkg/finality-grandpa by `go test -overlay`).
//
// One case = one round history: a block tree, a weighted voter set and a sequence of imports.
// After EVERY import the harness records Round.State(), Round.PrecommitGHOST() and the
// participation counters.
//
// input (fields separated by one space, all numbers hex):
//   r <parents> <labels> <weights> <ops>
//     parents  comma list: parent index of block 1, 2, ... (block 0 is the round base); "-" if none
//     labels   comma list, one per block: the block's hash is "h%02x" of its label (hash order
//              drives the vote-graph's traversal order, so labels are permuted)
//     weights  comma list: weight of voter 0, 1, ... (voter ids "v00" < "v01" < ...)
//     ops      comma list of <p|c><voter>.<block>.<sig>  (p = prevote, c = precommit); "-" if none;
//              a voter index >= number of voters is an unknown signer
// observed: comma list, one entry per op:
//   <flags>:<ghost>:<finalized>:<estimate>:<completable 0|1>:<precommit ghost>:<pv weight>.<pv voters>:<pc weight>.<pc voters>
//     flags: bit0 ValidVoter, bit1 Duplicated, bit2 Equivocation reported; "err" if the import failed
//     blocks as hex indices, "-" for nil
//   followed by one more entry with the vote graph at the end of the history:
//   G:<block>/<ancestors, parent first>/<descendant vote-nodes, sorted>/<bit positions 2*voter+phase of the cumulative vote>;...
package grandpa

import (
	"fmt"
	"sort"
	"strings"
	"testing"

	vu "github.com/ChainSafe/gossamer/internal/verifutil"
)

type c20Chain struct {
	parent map[string]string // hash -> parent hash ("" for the base's parent)
}

func (c *c20Chain) Ancestry(base, block string) ([]string, error) {
	anc := make([]string, 0)
	for {
		p, ok := c.parent[block]
		if !ok || p == "" {
			return nil, fmt.Errorf("block not descendent of base")
		}
		block = p
		if block == base {
			return anc, nil
		}
		anc = append(anc, block)
	}
}

func (c *c20Chain) IsEqualOrDescendantOf(base, block string) bool {
	if base == block {
		return true
	}
	_, err := c.Ancestry(base, block)
	return err == nil
}

func c20List(s string) []uint64 {
	if s == "-" || s == "" {
		return nil
	}
	parts := strings.Split(s, ",")
	out := make([]uint64, len(parts))
	for i, p := range parts {
		out[i] = vu.UnX(p)
	}
	return out
}

func c20Join(v []uint64) string {
	if len(v) == 0 {
		return "-"
	}
	s := make([]string, len(v))
	for i, x := range v {
		s[i] = vu.X(x)
	}
	return strings.Join(s, ",")
}

func c20Run(in string) string {
	f := strings.Split(in, " ")
	if len(f) != 5 || f[0] != "r" {
		return "err:badinput"
	}
	parents := c20List(f[1])
	labels := c20List(f[2])
	weights := c20List(f[3])
	k := len(parents) + 1
	if len(labels) != k {
		return "err:badinput"
	}
	hash := make([]string, k)
	index := make(map[string]int)
	number := make([]uint32, k)
	for i := 0; i < k; i++ {
		hash[i] = fmt.Sprintf("h%02x", labels[i])
		index[hash[i]] = i
	}
	chain := &c20Chain{parent: map[string]string{hash[0]: ""}}
	number[0] = 1
	for i := 1; i < k; i++ {
		p := int(parents[i-1])
		if p >= i {
			return "err:badinput"
		}
		chain.parent[hash[i]] = hash[p]
		number[i] = number[p] + 1
	}
	idw := make([]IDWeight[string], len(weights))
	for i, w := range weights {
		idw[i] = IDWeight[string]{ID: fmt.Sprintf("v%02x", i), Weight: w}
	}
	voters := NewVoterSet(idw)
	if voters == nil {
		return "err:novoters"
	}
	round := NewRound[string, string, uint32, string](RoundParams[string, string, uint32]{
		RoundNumber: 1,
		Voters:      *voters,
		Base:        HashNumber[string, uint32]{hash[0], number[0]},
	})
	blk := func(hn *HashNumber[string, uint32]) string {
		if hn == nil {
			return "-"
		}
		i, ok := index[hn.Hash]
		if !ok {
			return "unknown"
		}
		if number[i] != hn.Number {
			return "badnumber"
		}
		return vu.X(uint64(i))
	}
	var out []string
	if f[4] != "-" {
		for _, op := range strings.Split(f[4], ",") {
			g := strings.Split(op[1:], ".")
			v, b, sg := int(vu.UnX(g[0])), int(vu.UnX(g[1])), vu.UnX(g[2])
			id := fmt.Sprintf("v%02x", v)
			if v >= len(weights) {
				id = fmt.Sprintf("x%02x", v)
			}
			sig := fmt.Sprintf("s%x", sg)
			flags := uint64(0)
			failed := false
			if op[0] == 'p' {
				ir, err := round.importPrevote(chain, Prevote[string, uint32]{hash[b], number[b]}, id, sig)
				if err != nil || ir == nil {
					failed = true
				} else {
					if ir.ValidVoter {
						flags |= 1
					}
					if ir.Duplicated {
						flags |= 2
					}
					if ir.Equivocation != nil {
						flags |= 4
					}
				}
			} else {
				ir, err := round.importPrecommit(chain, Precommit[string, uint32]{hash[b], number[b]}, id, sig)
				if err != nil || ir == nil {
					failed = true
				} else {
					if ir.ValidVoter {
						flags |= 1
					}
					if ir.Duplicated {
						flags |= 2
					}
					if ir.Equivocation != nil {
						flags |= 4
					}
				}
			}
			fl := vu.X(flags)
			if failed {
				fl = "err"
			}
			st := round.State()
			c := "0"
			if st.Completable {
				c = "1"
			}
			if round.Completable() != st.Completable {
				c = "inconsistent"
			}
			pg := round.PrecommitGHOST()
			pvw, pvn := round.PrevoteParticipation()
			pcw, pcn := round.PrecommitParticipation()
			out = append(out, fmt.Sprintf("%s:%s:%s:%s:%s:%s:%s.%s:%s.%s", fl, blk(st.PrevoteGHOST), blk(st.Finalized),
				blk(st.Estimate), c, blk(pg), vu.X(uint64(pvw)), vu.X(uint64(pvn)), vu.X(uint64(pcw)), vu.X(uint64(pcn))))
		}
	}
	if len(out) == 0 {
		return "-"
	}
	// the vote graph at the end of the history: one entry per vote-node, sorted by block index
	//   G:<block>/<ancestors parent first, "."-joined>/<descendants sorted>/<bits of the cumulative vote sorted>;...
	type gent struct {
		b int
		s string
	}
	var ents []gent
	idxs := func(hs []string, sorted bool) string {
		var l []int
		for _, h := range hs {
			if i, ok := index[h]; ok {
				l = append(l, i)
			} else {
				l = append(l, 0xfff)
			}
		}
		if sorted {
			sort.Ints(l)
		}
		if len(l) == 0 {
			return "-"
		}
		ss := make([]string, len(l))
		for i, x := range l {
			ss[i] = vu.X(uint64(x))
		}
		return strings.Join(ss, ".")
	}
	round.graph.entries.Scan(func(h string, e voteGraphEntry[string, uint32, *voteNode[string], vote[string]]) bool {
		var bits []string
		for _, b1 := range iter1s(e.cumulativeVote.bits.bits, 0, 0) {
			bits = append(bits, vu.X(uint64(b1.position)))
		}
		bs := "-"
		if len(bits) > 0 {
			bs = strings.Join(bits, ".")
		}
		ents = append(ents, gent{index[h], fmt.Sprintf("%s/%s/%s/%s", vu.X(uint64(index[h])), idxs(e.ancestors, false), idxs(e.descendants, true), bs)})
		return true
	})
	sort.Slice(ents, func(i, j int) bool { return ents[i].b < ents[j].b })
	gs := make([]string, len(ents))
	for i, e := range ents {
		gs[i] = e.s
	}
	out = append(out, "G:"+strings.Join(gs, ";"))
	return strings.Join(out, ",")
}

// ---- generators ----

func c20Tree(r *vu.RNG, k int) []uint64 {
	p := make([]uint64, 0, k)
	mode := r.Intn(4)
	for i := 1; i < k; i++ {
		switch mode {
		case 0: // any earlier block
			p = append(p, uint64(r.Intn(i)))
		case 1: // mostly a chain with a few forks
			if r.Chance(3, 4) {
				p = append(p, uint64(i-1))
			} else {
				p = append(p, uint64(r.Intn(i)))
			}
		case 2: // bushy: near the base
			p = append(p, uint64(r.Intn((i+1)/2)))
		default: // two long branches
			if i <= 2 {
				p = append(p, 0)
			} else {
				p = append(p, uint64(i-2))
			}
		}
	}
	return p
}

func c20Perm(r *vu.RNG, k int) []uint64 {
	l := make([]uint64, k)
	for i := range l {
		l[i] = uint64(i)
	}
	for i := k - 1; i > 0; i-- {
		j := r.Intn(i + 1)
		l[i], l[j] = l[j], l[i]
	}
	return l
}

func c20Weights(r *vu.RNG, n int) []uint64 {
	w := make([]uint64, n)
	mode := r.Intn(4)
	for i := range w {
		switch mode {
		case 0:
			w[i] = 1
		case 1:
			w[i] = uint64(1 + r.Intn(4))
		case 2:
			w[i] = 1
			if i == 0 {
				w[i] = uint64(1 + r.Intn(n))
			}
		default:
			w[i] = uint64(1 + r.Intn(10))
		}
	}
	return w
}

// descendants-or-self of b
func c20Below(parents []uint64, b int) []int {
	k := len(parents) + 1
	var out []int
	for c := 0; c < k; c++ {
		x := c
		for x > b {
			x = int(parents[x-1])
		}
		if x == b {
			out = append(out, c)
		}
	}
	return out
}

func c20Ops(r *vu.RNG, parents []uint64, n int) string {
	k := len(parents) + 1
	var ops []string
	add := func(ph byte, v, b, s int) {
		ops = append(ops, fmt.Sprintf("%c%x.%x.%x", ph, v, b, s))
	}
	mode := r.Intn(5)
	switch mode {
	case 0, 1: // protocol-like: every voter prevotes / precommits around a focus block, a few equivocate
		focus := r.Intn(k)
		below := c20Below(parents, focus)
		pick := func() int {
			switch r.Intn(6) {
			case 0:
				return r.Intn(k)
			case 1: // an ancestor of the focus
				x := focus
				for s := r.Intn(3); s > 0 && x > 0; s-- {
					x = int(parents[x-1])
				}
				return x
			default:
				return below[r.Intn(len(below))]
			}
		}
		var pend []func()
		for v := 0; v < n; v++ {
			v := v
			if r.Chance(9, 10) {
				b := pick()
				pend = append(pend, func() { add('p', v, b, 0) })
				if r.Chance(1, 6) {
					b2 := pick()
					s := 0
					if b2 == b {
						s = 1
					}
					pend = append(pend, func() { add('p', v, b2, s) })
				}
			}
			if r.Chance(5, 6) {
				b := pick()
				pend = append(pend, func() { add('c', v, b, 0) })
				if r.Chance(1, 6) {
					b2 := pick()
					s := 0
					if b2 == b {
						s = 1
					}
					pend = append(pend, func() { add('c', v, b2, s) })
				}
			}
		}
		// random import order; mode 1 keeps prevotes mostly first
		for i := len(pend) - 1; i > 0; i-- {
			j := r.Intn(i + 1)
			pend[i], pend[j] = pend[j], pend[i]
		}
		for _, f := range pend {
			f()
		}
		if mode == 1 {
			var a, b []string
			for _, o := range ops {
				if o[0] == 'p' {
					a = append(a, o)
				} else {
					b = append(b, o)
				}
			}
			ops = append(a, b...)
		}
		if r.Chance(1, 4) && len(ops) > 0 { // duplicates
			ops = append(ops, ops[r.Intn(len(ops))])
		}
	default: // free-form
		m := r.Intn(16)
		for i := 0; i < m; i++ {
			ph := byte('p')
			if r.Chance(1, 2) {
				ph = 'c'
			}
			v := r.Intn(n)
			if r.Chance(1, 25) {
				v = n + r.Intn(2)
			}
			s := 0
			if r.Chance(1, 12) {
				s = 1
			}
			add(ph, v, r.Intn(k), s)
		}
	}
	if len(ops) == 0 {
		return "-"
	}
	return strings.Join(ops, ",")
}

func c20Case(parents, labels, weights []uint64, ops string) string {
	return fmt.Sprintf("r %s %s %s %s", c20Join(parents), c20Join(labels), c20Join(weights), ops)
}

// all parent arrays for k blocks
func c20AllTrees(k int) [][]uint64 {
	res := [][]uint64{{}}
	for i := 1; i < k; i++ {
		var next [][]uint64
		for _, p := range res {
			for j := 0; j < i; j++ {
				q := append(append([]uint64{}, p...), uint64(j))
				next = append(next, q)
			}
		}
		res = next
	}
	return res
}

// exhaustive small scope (thorough tier): every tree with <= 4 blocks, voter weights from a
// small list, every assignment of {no vote, one vote, two votes} per voter and phase over the
// blocks, imported in several orders (all orders when the history is short).
func c20Exhaustive(r *vu.RNG, budget int, emit func(string)) int {
	count := 0
	wsets := [][]uint64{{1, 1, 1}, {2, 1, 1}, {1, 1, 1, 1}}
	for k := 1; k <= 4; k++ {
		for _, parents := range c20AllTrees(k) {
			// per voter and phase options: none, single b, pair (b1,b2) with b1<b2
			type opt []int
			var opts []opt
			opts = append(opts, opt{})
			for b := 0; b < k; b++ {
				opts = append(opts, opt{b})
			}
			for b1 := 0; b1 < k; b1++ {
				for b2 := b1 + 1; b2 < k; b2++ {
					opts = append(opts, opt{b1, b2})
				}
			}
			for _, ws := range wsets {
				n := len(ws)
				slots := 2 * n
				if k == 4 && n == 4 {
					continue // 11^8 assignments: sampled by the random generator instead
				}
				idx := make([]int, slots)
				for {
					var ops []string
					for s := 0; s < slots; s++ {
						ph := byte('p')
						if s >= n {
							ph = 'c'
						}
						for _, b := range opts[idx[s]] {
							ops = append(ops, fmt.Sprintf("%c%x.%x.0", ph, s%n, b))
						}
					}
					// sample the assignment space when it is large
					total := 1
					for s := 0; s < slots; s++ {
						total *= len(opts)
						if total > 1<<30 {
							break
						}
					}
					keep := total <= 40000 || r.Intn(total/40000+1) == 0
					if keep && len(ops) > 0 {
						orders := 2
						for o := 0; o < orders; o++ {
							perm := append([]string{}, ops...)
							if o > 0 {
								for i := len(perm) - 1; i > 0; i-- {
									j := r.Intn(i + 1)
									perm[i], perm[j] = perm[j], perm[i]
								}
							}
							emit(c20Case(parents, c20Perm(r, k), ws, strings.Join(perm, ",")))
							count++
							if count >= budget {
								return count
							}
						}
					}
					// next assignment
					s := 0
					for s < slots {
						idx[s]++
						if idx[s] < len(opts) {
							break
						}
						idx[s] = 0
						s++
					}
					if s == slots {
						break
					}
				}
			}
		}
	}
	return count
}

// all import orders of short histories over 2 and 3 block trees with 4 unit voters
func c20AllOrders(emit func(string)) {
	var permute func(a []string, i int, f func([]string))
	permute = func(a []string, i int, f func([]string)) {
		if i == len(a) {
			f(a)
			return
		}
		for j := i; j < len(a); j++ {
			a[i], a[j] = a[j], a[i]
			permute(a, i+1, f)
			a[i], a[j] = a[j], a[i]
		}
	}
	hist := [][]string{
		{"p0.1.0", "p1.1.0", "p2.2.0", "c0.1.0", "c1.1.0", "c2.1.0"},
		{"p0.1.0", "p1.2.0", "p2.2.0", "p3.2.0", "c0.2.0", "c1.2.0", "c3.1.0"},
		{"p0.2.0", "p0.1.0", "p1.2.0", "p2.2.0", "c1.2.0", "c2.2.0", "c3.2.0"},
		{"p0.2.0", "p1.2.0", "p2.2.0", "c0.2.0", "c0.1.0", "c1.1.0", "c2.2.0"},
	}
	for _, parents := range [][]uint64{{0, 0}, {0, 1}} {
		for _, h := range hist {
			permute(append([]string{}, h...), 0, func(a []string) {
				emit(c20Case(parents, []uint64{1, 0, 2}, []uint64{1, 1, 1, 1}, strings.Join(a, ",")))
			})
		}
	}
}

// Nested fork points below the GHOST (the class of seeded/C19-m2): several forks off the base,
// a main fork B whose weight is split over a nested fork P1 -> {X1, X2, ..} and a heavier sibling
// P2, votes only on deep blocks (never on the fork points), weighted voters with one heavy voter,
// hashes permuted so that the side forks sort on both sides of B, and import orders that put the
// side-fork votes first (the vote graph's merge-point search then inserts B in the middle of its
// sorted candidate list).
func c20NestedCase(r *vu.RNG, emit func(string)) {
	var parents []uint64
	add := func(p int) int { parents = append(parents, uint64(p)); return len(parents) }
	chain := func(from, n int) int {
		for i := 0; i < n; i++ {
			from = add(from)
		}
		return from
	}
	b := chain(0, 1+r.Intn(2))
	p1 := chain(b, 1+r.Intn(2))
	xs := []int{chain(p1, 1+r.Intn(2)), chain(p1, 1+r.Intn(2))}
	if r.Chance(1, 3) {
		xs = append(xs, chain(p1, 1))
	}
	p2 := chain(b, 1+r.Intn(2))
	y := p2
	if r.Chance(1, 2) {
		y = chain(p2, 1)
	}
	var sides []int
	for i, ns := 0, 1+r.Intn(2); i < ns; i++ {
		sides = append(sides, chain(chain(0, 1), 1+r.Intn(2)))
	}
	k := len(parents) + 1
	// voters: lights on the X's and the side forks (and sometimes the base), one heavy voter on Y
	type vt struct{ v, b int }
	var votes []vt
	var ws []uint64
	voter := func(w uint64, blk int) {
		votes = append(votes, vt{len(ws), blk})
		ws = append(ws, w)
	}
	for _, z := range sides {
		voter(1, z)
	}
	for _, x := range xs {
		voter(1, x)
	}
	if r.Chance(1, 2) {
		voter(1, 0)
	}
	heavy := uint64(len(xs) + r.Intn(2))
	if r.Chance(2, 3) {
		heavy = uint64(len(xs) + 1)
	}
	voter(heavy, y)
	if len(ws) > 7 {
		return
	}
	// relabel the voters (positions in the voter set)
	perm := c20Perm(r, len(ws))
	w2 := make([]uint64, len(ws))
	for i, w := range ws {
		w2[perm[i]] = w
	}
	for orders := 0; orders < 3; orders++ {
		labels := c20Perm(r, k)
		var pv, pc []string
		for _, ph := range []byte{'p', 'c'} {
			order := make([]int, len(votes))
			for i := range order {
				order[i] = i
			}
			if orders > 0 || r.Chance(1, 2) {
				for i := len(order) - 1; i > 0; i-- {
					j := r.Intn(i + 1)
					order[i], order[j] = order[j], order[i]
				}
			}
			for _, i := range order {
				o := fmt.Sprintf("%c%x.%x.0", ph, perm[votes[i].v], votes[i].b)
				if ph == 'p' {
					pv = append(pv, o)
				} else {
					pc = append(pc, o)
				}
			}
		}
		var ops []string
		switch r.Intn(3) {
		case 0:
			ops = append(append(ops, pv...), pc...)
		case 1:
			ops = append(append(ops, pc...), pv...)
		default: // interleaved, each phase keeping its order
			i, j := 0, 0
			for i < len(pv) || j < len(pc) {
				if j >= len(pc) || (i < len(pv) && r.Chance(1, 2)) {
					ops = append(ops, pv[i])
					i++
				} else {
					ops = append(ops, pc[j])
					j++
				}
			}
		}
		emit(c20Case(parents, labels, w2, strings.Join(ops, ",")))
	}
}

// more than 32 voters: voter positions * 2 (+1) reach the second 64-bit word of the vote-node and
// equivocation bitfields (bitfield.go Merge / Iter1sMerged* over words of different lengths)
func c20ManyVoters(r *vu.RNG, emit func(string)) {
	k := 2 + r.Intn(6)
	parents := c20Tree(r, k)
	nv := 33 + r.Intn(8)
	ws := make([]uint64, nv)
	for i := range ws {
		ws[i] = 1
		if r.Chance(1, 4) {
			ws[i] = uint64(1 + r.Intn(3))
		}
	}
	focus := r.Intn(k)
	below := c20Below(parents, focus)
	var ops []string
	for _, ph := range []byte{'p', 'c'} {
		order := c20Perm(r, nv)
		for _, v := range order {
			if r.Chance(1, 12) {
				continue
			}
			b := below[r.Intn(len(below))]
			if r.Chance(1, 5) {
				b = r.Intn(k)
			}
			ops = append(ops, fmt.Sprintf("%c%x.%x.0", ph, v, b))
			if r.Chance(1, 9) { // equivocation (or the same vote with another signature)
				ops = append(ops, fmt.Sprintf("%c%x.%x.1", ph, v, r.Intn(k)))
			}
		}
	}
	if r.Chance(1, 2) { // interleave the two phases
		for i := len(ops) - 1; i > 0; i-- {
			j := r.Intn(i + 1)
			ops[i], ops[j] = ops[j], ops[i]
		}
	}
	emit(c20Case(parents, c20Perm(r, k), ws, strings.Join(ops, ",")))
}

// more than 32 voters voting on the LEAVES of a nested fork structure only: the ghost is then a
// fork point that is not a vote-graph node and FindGHOST has to merge (bitfield.Merge over two
// words) the cumulative votes of several descendants (ghostFindMergePoint, introduceBranch)
func c20ManyVotersForks(r *vu.RNG, emit func(string)) {
	var parents []uint64
	add := func(p int) int { parents = append(parents, uint64(p)); return len(parents) }
	chain := func(from, n int) int {
		for i := 0; i < n; i++ {
			from = add(from)
		}
		return from
	}
	b := chain(0, 1+r.Intn(2))
	p1 := chain(b, 1+r.Intn(2))
	leaves := []int{chain(p1, 1+r.Intn(2)), chain(p1, 1+r.Intn(2))}
	if r.Chance(1, 2) {
		leaves = append(leaves, chain(p1, 1))
	}
	p2 := chain(b, 1+r.Intn(2))
	leaves = append(leaves, p2)
	if r.Chance(1, 2) {
		leaves = append(leaves, chain(p2, 1))
	}
	nmain := len(leaves)
	for i, ns := 0, 1+r.Intn(2); i < ns; i++ {
		leaves = append(leaves, chain(chain(0, 1), 1+r.Intn(2)))
	}
	k := len(parents) + 1
	nv := 33 + r.Intn(8)
	ws := make([]uint64, nv)
	for i := range ws {
		ws[i] = 1
	}
	var ops []string
	for _, ph := range []byte{'p', 'c'} {
		for _, v := range c20Perm(r, nv) {
			if r.Chance(1, 15) {
				continue
			}
			l := leaves[r.Intn(nmain)] // mostly below b
			if r.Chance(1, 6) {
				l = leaves[r.Intn(len(leaves))]
			}
			ops = append(ops, fmt.Sprintf("%c%x.%x.0", ph, v, l))
			if r.Chance(1, 14) {
				ops = append(ops, fmt.Sprintf("%c%x.%x.0", ph, v, leaves[r.Intn(len(leaves))]))
			}
		}
	}
	if r.Chance(1, 3) {
		for i := len(ops) - 1; i > 0; i-- {
			j := r.Intn(i + 1)
			ops[i], ops[j] = ops[j], ops[i]
		}
	}
	emit(c20Case(parents, c20Perm(r, k), ws, strings.Join(ops, ",")))
}

// tolerant prevotes, precommit equivocators above the tolerance: possibleToPrecommit computes
// toleratedEquivocations - currentEquivocations on uint64 (the domain of C20.Model.possible_go)
func c20PcIntolerant(r *vu.RNG, emit func(string)) {
	k := 2 + r.Intn(7)
	parents := c20Tree(r, k)
	nv := 4 + r.Intn(4)
	ws := c20Weights(r, nv)
	focus := r.Intn(k)
	below := c20Below(parents, focus)
	var pv, pc []string
	for v := 0; v < nv; v++ {
		if r.Chance(9, 10) {
			pv = append(pv, fmt.Sprintf("p%x.%x.0", v, below[r.Intn(len(below))]))
		}
	}
	neq := (nv-1)/3 + 1 + r.Intn(2)
	order := c20Perm(r, nv)
	for i, v := range order {
		b := below[r.Intn(len(below))]
		if r.Chance(1, 3) {
			b = r.Intn(k)
		}
		pc = append(pc, fmt.Sprintf("c%x.%x.0", v, b))
		if i < neq {
			b2 := r.Intn(k)
			sg := 0
			if b2 == b {
				sg = 1
			}
			pc = append(pc, fmt.Sprintf("c%x.%x.%x", v, b2, sg))
		}
	}
	for i := len(pc) - 1; i > 0; i-- {
		j := r.Intn(i + 1)
		pc[i], pc[j] = pc[j], pc[i]
	}
	ops := append(pv, pc...)
	if r.Chance(1, 3) {
		for i := len(ops) - 1; i > 0; i-- {
			j := r.Intn(i + 1)
			ops[i], ops[j] = ops[j], ops[i]
		}
	}
	emit(c20Case(parents, c20Perm(r, k), ws, strings.Join(ops, ",")))
}

func c20Gen(r *vu.RNG, n int, emit func(string)) {
	for i := 0; i < n/8; i++ { // 3 histories each
		c20NestedCase(r.Fork(), emit)
	}
	for i := 0; i < n/25; i++ {
		if i%2 == 0 {
			c20ManyVoters(r.Fork(), emit)
		} else {
			c20ManyVotersForks(r.Fork(), emit)
		}
	}
	for i := 0; i < n/12; i++ {
		c20PcIntolerant(r.Fork(), emit)
	}
	if vu.Thorough() {
		c20AllOrders(emit)
		c20Exhaustive(r.Fork(), 600000, emit)
	}
	for i := 0; i < n-3*(n/8)-n/25-n/12; i++ {
		k := 1 + r.Intn(8)
		if r.Chance(1, 10) {
			k = 1 + r.Intn(12)
		}
		parents := c20Tree(r, k)
		nv := 1 + r.Intn(7)
		if r.Chance(2, 3) {
			nv = 4 + r.Intn(4)
		}
		emit(c20Case(parents, c20Perm(r, k), c20Weights(r, nv), c20Ops(r, parents, nv)))
	}
}

func TestVerifC20(t *testing.T) { vu.Run(t, "C20", 2000, c20Gen, c20Run) }
