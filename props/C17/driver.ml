(* C17 driver: replays the Go trace of dot/state finalisation on the extracted model (model_eq)
   and evaluates check_finalisation of coq/C17/Spec.v (an accepted request moves the head to
   its target / any other request fails and changes nothing / by-number lookups and the
   database's number index / no leftovers) on the implementation's observables (prop_ok).
   Grammar: see props/C17/harness_test.go. *)
open Model
open Vutil

let split c s = String.split_on_char c s
let hexi s = int_of_string ("0x" ^ s)
let xs i = Printf.sprintf "%x" i
let unknown_hash i = n_of_hex (Printf.sprintf "ee%02x%02xee%056x" (i land 255) ((i lsr 8) land 255) 0)
let never_hash = n_of_hex ("1" ^ String.make 64 '0')

let digest_of_kind = function 0 -> DPrimary | 1 -> DSecondaryPlain | 2 -> DSecondaryVRF | _ -> DNone

type blkdef = { parent : int; number : n; kind : int; arrival : z; sroot : int }

let check inp obs =
  let f = split_ws inp in
  let nblk, rest = match f with
    | "t" :: nb :: rest -> hexi nb, rest
    | _ -> fail "C17: bad input %s" inp in
  let rec take k l acc = if k = 0 then (List.rev acc, l) else
      match l with x :: r -> take (k - 1) r (x :: acc) | [] -> fail "C17: short input" in
  let blks_s, ops = take nblk rest [] in
  let blks = Array.of_list ({ parent = -1; number = N0; kind = 0; arrival = Z0; sroot = 0 } ::
    List.map (fun s -> match split '.' s with
      | [p; nu; k; a; sr] -> { parent = hexi p; number = n_of_hex nu; kind = hexi k; arrival = z_of_hex a; sroot = hexi sr }
      | _ -> fail "C17: bad block %s" s) blks_s) in
  let otoks = split_ws obs in
  if otoks = ["panic"] || otoks = ["hang"] then
    { prop_ok = false; model_eq = false; nontrivial = true; finding = "-"; tags = "whole-case-" ^ obs;
      detail = "the harness case ended in " ^ obs }
  else
  let htab, otoks = match otoks with
    | h :: r when String.length h > 2 && String.sub h 0 2 = "H:" ->
      Array.of_list (List.map n_of_hex (split ',' (String.sub h 2 (String.length h - 2)))), r
    | _ -> fail "C17: observed lacks the hash table: %s" obs in
  let hash i = if i >= 0 && i <= nblk then htab.(i) else unknown_hash i in
  let idx_of h = let r = ref (-1) in Array.iteri (fun i x -> if x = h then r := i) htab; !r in
  let id_of h = let i = idx_of h in if i < 0 then "?" else xs i in
  let root_n id = n_of_int id in
  let header i =
    let b = blks.(i) in
    { h_hash = hash i; h_parent = (if b.parent >= 0 && b.parent < i then hash b.parent else unknown_hash b.parent);
      h_number = b.number; h_digest = digest_of_kind b.kind } in
  let blocks = List.init (nblk + 1) (fun i -> (hash i, root_n blks.(i).sroot)) in
  let nums = List.init (nblk + 2) (fun k -> n_of_int k) in
  (* rendering of a model observation, as the harness prints the implementation's *)
  let fmt_obs (o : obs) best =
    let hi = (match o.o_highest with Ok h -> id_of h | _ -> "err") in
    let byn = String.concat "," (List.map (fun (k, r) ->
        xs (int_of_n k) ^ "=" ^ (match r with Ok h -> id_of h | _ -> "!")) o.o_bynum) in
    let fl = String.concat "" (List.map (fun (_, x) ->
        Printf.sprintf "%02x" ((if x.fl_block then 64 else 0) + (if x.fl_body then 32 else 0) + (if x.fl_db then 16 else 0) + (if x.fl_has then 8 else 0) + (if x.fl_get then 4 else 0)
            + (if x.fl_unfin then 2 else 0) + (if x.fl_trie then 1 else 0))) o.o_flags) in
    let dbn = String.concat "," (List.map (fun (k, r) ->
        xs (int_of_n k) ^ "=" ^ (match r with Some h -> id_of h | None -> "-")) o.o_dbnum) in
    let bkn = String.concat "," (List.map (fun (k, r) ->
        xs (int_of_n k) ^ "=" ^ (match r with Ok h -> id_of h | _ -> "!")) o.o_blocknum) in
    Printf.sprintf "%s;%s;%s;%s;%s;%s;%s" hi byn fl (xs (int_of_n o.o_tries))
      (match best with Ok h -> id_of h | _ -> "err") dbn bkn in
  (* parsing of an implementation observation *)
  let parse_obs s : obs option =
    match split ';' s with
    | [hi; byn; fl; tl; _best; dbn; bkn] ->
      (try
        let oh = if hi = "err" then Err (nat_of_int 9) else if hi = "?" then Ok never_hash else Ok (hash (hexi hi)) in
        let ob = List.map (fun e -> match split '=' e with
            | [k; v] -> (n_of_int (hexi k),
                         if v = "!" then Err (nat_of_int 9) else if v = "?" then Ok never_hash else Ok (hash (hexi v)))
            | _ -> raise Exit) (split ',' byn) in
        if String.length fl <> 2 * (nblk + 1) then raise Exit;
        let ofl = List.init (nblk + 1) (fun i ->
            let v = hexi (String.sub fl (2 * i) 2) in
            (hash i, { fl_has = v land 8 <> 0; fl_get = v land 4 <> 0; fl_unfin = v land 2 <> 0; fl_trie = v land 1 <> 0;
                       fl_db = v land 16 <> 0; fl_body = v land 32 <> 0; fl_block = v land 64 <> 0 })) in
        let okn = List.map (fun e -> match split '=' e with
            | [k; v] -> (n_of_int (hexi k),
                         if v = "!" then Err (nat_of_int 9) else if v = "?" then Ok never_hash else Ok (hash (hexi v)))
            | _ -> raise Exit) (split ',' bkn) in
        let od = List.map (fun e -> match split '=' e with
            | [k; v] -> (n_of_int (hexi k),
                         if v = "-" then None else if v = "?" then Some never_hash else Some (hash (hexi v)))
            | _ -> raise Exit) (split ',' dbn) in
        Some { o_highest = oh; o_bynum = ob; o_flags = ofl; o_tries = n_of_int (hexi tl); o_dbnum = od; o_blocknum = okn }
      with _ -> None)
    | _ -> None in
  let str_add = function Ok _ -> "ok" | Err c -> "e" ^ string_of_int (int_of_nat c) | Panic -> "panic" | OutOfFuel -> "fuel" in
  (* model replay; [pre] = 1 uses the pinned pre-fix Prune, 2 the pinned order of the set-id
     comparison (after the writes) *)
  let model_tokens pre =
    let st = ref (genesis_state (hash 0) (root_n 0)) in
    let ob () = fmt_obs (observe !st blocks nums) (best_block_hash (!st).bs_tree) in
    List.map (fun op ->
      match op.[0] with
      | 'a' ->
        let i = hexi (String.sub op 1 (String.length op - 1)) in
        let (st', r) = bs_add !st (header i) (root_n blks.(i).sroot) blks.(i).arrival in
        st := st'; "A:" ^ str_add r
      | 'f' ->
        (match split '.' (String.sub op 1 (String.length op - 1)) with
         | [i; r; s] ->
           let before = ob () in
           let (st', res) = (if pre = 1 then set_finalised_prefix else if pre = 2 then set_finalised_late else set_finalised)
               !st (hash (hexi i)) (n_of_hex r) (n_of_hex s) in
           st := st';
           "F:" ^ (match res with Ok _ -> "ok" | _ -> "err") ^ "|" ^ before ^ "|" ^ ob ()
         | _ -> fail "C17: bad op %s" op)
      | 's' -> "S:" ^ ob ()
      | _ -> fail "C17: bad op %s" op) ops in
  let mt = model_tokens 0 in
  let model_eq = (mt = otoks) in
  (* the property on the implementation's observables *)
  let fs = ref (f_genesis (hash 0) (root_n 0)) in
  let bad = ref [] in
  let tags = Hashtbl.create 16 in
  let tag x = Hashtbl.replace tags x () in
  let note k w = bad := Printf.sprintf "op#%d:%s" k w :: !bad in
  let nontrivial = ref false in
  if List.length otoks <> List.length ops then note 0 "token-count"
  else List.iteri (fun k (op, tok) ->
      match op.[0] with
      | 'a' ->
        let i = hexi (String.sub op 1 (String.length op - 1)) in
        let (f', r) = f_add !fs (header i) (root_n blks.(i).sroot) blks.(i).arrival in
        let want = "A:" ^ str_add r in
        tag ("add-" ^ str_add r);
        if tok <> want then note k (Printf.sprintf "AddBlock=%s spec=%s" tok want);
        fs := f'
      | 'f' ->
        (match split '.' (String.sub op 1 (String.length op - 1)) with
         | [i; _r; s] ->
           let h = hash (hexi i) in
           let sid = n_of_hex s in
           (match split '|' tok with
            | [res; b; a] when String.length res > 2 && String.sub res 0 2 = "F:" ->
              let ok = (res = "F:ok") in
              (match parse_obs b, parse_obs a with
               | Some ob, Some oa ->
                 let adm = f_admissible !fs h in
                 let acc = f_accepts !fs h sid in
                 if not (check_finalisation !fs h sid ok ob oa) then begin
                   let why =
                     if not (check_request !fs h sid ok ob oa) then
                       (if acc && not ok then "refused for a held block with an acceptable set id"
                        else if acc then "head is not the target after success"
                        else if ok then
                          (if adm then "succeeded with a set id below the recorded one"
                           else "succeeded for a target that is not a held descendant of the head")
                        else "failed but changed the state: before=" ^ b ^ " after=" ^ a)
                     else begin
                       let f' = f_fin !fs h in
                       if not (check_by_number f' oa) then "by-number lookup (hash, whole block) / database number index of the finalised chain: " ^ a
                       else begin
                         let left = List.filter (fun (x, _) -> f_abandoned f' x) oa.o_flags in
                         "leftovers of abandoned blocks [" ^ String.concat "," (List.map (fun (x, fl) ->
                             Printf.sprintf "%s:%s%s%s%s%s%s" (id_of x) (if fl.fl_has then "H" else "") (if fl.fl_get then "G" else "")
                               (if fl.fl_unfin then "U" else "") (if fl.fl_trie then "T" else "")
                               (if fl.fl_body then "B" else "") (if fl.fl_block then "K" else "")) left) ^ "]"
                       end
                     end in
                   note k (Printf.sprintf "SetFinalisedHash(%s, set %s)=%s: %s" (id_of h) s (if ok then "ok" else "err") why)
                 end;
                 if acc then begin
                   let f' = f_request !fs h sid in
                   let nab = List.length (List.filter (fun (x, _) -> f_abandoned f' x) oa.o_flags) in
                   let nab0 = List.length (List.filter (fun (x, _) -> f_abandoned !fs x) ob.o_flags) in
                   tag (if h = (!fs).f_set.s_root then "fin-same-head"
                        else if nab = nab0 then "fin-ok-abandons-0"
                        else if nab - nab0 < 3 then "fin-ok-abandons-1-2" else "fin-ok-abandons-3+");
                   if sid <> (!fs).f_setid then tag "fin-ok-new-set";
                   if nab > nab0 then nontrivial := true;
                   fs := f'
                 end else begin
                   tag (if adm then (if h = (!fs).f_set.s_root then "fin-stale-setid-head" else "fin-stale-setid-held")
                        else if idx_of h < 0 then "fin-unknown"
                        else if List.exists (fun (_, c) -> c = h) (!fs).f_chain then "fin-stale"
                        else if f_abandoned !fs h then "fin-abandoned-target"
                        else "fin-never-added");
                   nontrivial := true
                 end
               | _ -> note k "observation-shape")
            | _ -> note k ("shape " ^ tok))
         | _ -> fail "C17: bad op %s" op)
      | 's' -> ()
      | _ -> fail "C17: bad op %s" op) (List.combine ops otoks);
  if not model_eq then begin
    if model_tokens 1 = otoks then tag "equals-prefix-prune-model"
    else if model_tokens 2 = otoks then tag "equals-late-setid-model"
  end;
  let prop_ok = (!bad = []) in
  let first_diff =
    if model_eq then "" else begin
      let rec go k a b = match a, b with
        | x :: a', y :: b' -> if x = y then go (k + 1) a' b' else Printf.sprintf "op#%d model=%s impl=%s" k x y
        | _ -> "length" in
      go 0 mt otoks
    end in
  { prop_ok; model_eq; nontrivial = !nontrivial; finding = "-";
    tags = String.concat "," (List.sort compare (Hashtbl.fold (fun k () acc -> k :: acc) tags []));
    detail = (if prop_ok && model_eq then "" else
                String.concat " | " (List.rev !bad) ^ (if first_diff = "" then "" else " || " ^ first_diff)) }

(* vm_compute cross-check: the history replayed inside Coq (srun of coq/C17/Model.v) must give the
   ok/err outcome of every AddBlock / SetFinalisedHash and the final finalised head the
   implementation reported *)
let coq inp obs =
  try
    let f = split_ws inp in
    let nblk, rest = match f with "t" :: nb :: rest -> hexi nb, rest | _ -> raise Exit in
    if nblk > 10 then raise Exit;
    let rec take k l acc = if k = 0 then (List.rev acc, l) else
        match l with x :: r -> take (k - 1) r (x :: acc) | [] -> raise Exit in
    let blks_s, ops = take nblk rest [] in
    let blks = Array.of_list (("0", "0", 0, "0", 0) :: List.map (fun s -> match split '.' s with
        | [p; nu; k; a; sr] -> (p, nu, hexi k, a, hexi sr) | _ -> raise Exit) blks_s) in
    let htab, otoks = match split_ws obs with
      | h :: r when String.length h > 2 && String.sub h 0 2 = "H:" ->
        Array.of_list (split ',' (String.sub h 2 (String.length h - 2))), r
      | _ -> raise Exit in
    let hash_lit i = if i >= 0 && i <= nblk then "(0x" ^ htab.(i) ^ ")%N" else coq_n (unknown_hash i) in
    let kind_s = function 0 -> "DPrimary" | 1 -> "DSecondaryPlain" | 2 -> "DSecondaryVRF" | _ -> "DNone" in
    let terms = ref [] and oks = ref [] and head = ref "0" in
    List.iter2 (fun op tok ->
        match op.[0] with
        | 'a' ->
          let i = hexi (String.sub op 1 (String.length op - 1)) in
          let (p, nu, k, a, sr) = blks.(i) in
          let pi = hexi p in
          terms := Printf.sprintf "SAdd (mkHeader %s %s (0x%s)%%N %s) %d%%N (%d)%%Z" (hash_lit i)
              (if pi >= 0 && pi < i then hash_lit pi else coq_n (unknown_hash pi)) nu (kind_s k) sr
              (int_of_string ("0x" ^ a)) :: !terms;
          oks := (if tok = "A:ok" then "true" else "false") :: !oks
        | 'f' ->
          (match split '.' (String.sub op 1 (String.length op - 1)), split '|' tok with
           | [i; r; s], [res; _; after] ->
             terms := Printf.sprintf "SFin %s (0x%s)%%N (0x%s)%%N" (hash_lit (hexi i)) r s :: !terms;
             oks := (if res = "F:ok" then "true" else "false") :: !oks;
             (match split ';' after with hi :: _ -> head := hi | [] -> raise Exit)
           | _ -> raise Exit)
        | _ -> ()) ops otoks;
    if !head = "err" || !head = "?" then raise Exit;
    Some (Printf.sprintf "fin_matches %s 0%%N [%s] [%s] %s" (hash_lit 0)
            (String.concat "; " (List.rev !terms)) (String.concat "; " (List.rev !oks)) (hash_lit (hexi !head)))
  with _ -> None

let () = run_driver ~coq check
